/-
  C05 — facts about the engine's channel manager needed by the resume proofs:
  every operation of a superstep keeps the set (and order) of channel keys, so loading a saved
  channel map into a fresh manager gives back exactly the saved map.
-/
import EinoV.Model.C05

namespace EinoV.Interrupt
open EinoV.Engine

variable {V : Type}

theorem modChan_keys (cm : Chans V) (k : Key) (f : Chan V → Chan V) : akeys (modChan cm k f) = akeys cm := by
  simp only [akeys, modChan, List.map_map]
  apply List.map_congr_left
  intro p _
  simp only [Function.comp]
  split <;> rfl

theorem skipOne_keys (dag : Bool) (cm : Chans V) (k f : Key) : akeys (skipOne dag cm k f).1 = akeys cm := by
  unfold skipOne
  split
  · rfl
  · cases alookup k cm with
    | none => rfl
    | some c =>
      show akeys (modChan cm k (fun _ => (Chan.reportSkip dag c [f]).1)) = akeys cm
      exact modChan_keys _ _ _

theorem foldl_skip_keys (dag : Bool) (g : Key → Key) : ∀ (l : List Key) (acc : Chans V × List Key),
    akeys (l.foldl (fun (acc : Chans V × List Key) s =>
        let (cm1, b) := skipOne dag acc.1 s (g s)
        (cm1, if b then acc.2 ++ [s] else acc.2)) acc).1 = akeys acc.1 := by
  intro l
  induction l with
  | nil => intro acc; rfl
  | cons s rest ih =>
    intro acc
    simp only [List.foldl_cons]
    rw [ih]
    exact skipOne_keys _ _ _ _

theorem propagateSkips_keys (r : Runner V) : ∀ (fuel : Nat) (cm : Chans V) (ks : List Key) (cm' : Chans V),
    propagateSkips r fuel cm ks = .ok cm' → akeys cm' = akeys cm := by
  intro fuel
  induction fuel with
  | zero => intro cm ks cm' h; simp [propagateSkips] at h; rw [h]
  | succ n ih =>
    intro cm ks cm' h
    cases ks with
    | nil => simp [propagateSkips] at h; rw [h]
    | cons k rest =>
      simp only [propagateSkips] at h
      split at h
      · simp at h
      · have := ih _ _ _ h
        rw [this]
        exact foldl_skip_keys r.dag (fun _ => k) _ _

theorem reportBranch_keys (r : Runner V) (cm : Chans V) (from_ : Key) (sk : List Key) (cm' : Chans V)
    (h : reportBranch r cm from_ sk = .ok cm') : akeys cm' = akeys cm := by
  unfold reportBranch at h
  have := propagateSkips_keys r _ _ _ _ h
  rw [this]
  exact foldl_skip_keys r.dag (fun _ => from_) _ _

theorem calcBranch_keys (r : Runner V) (cm : Chans V) (n : Node V) (out : V) (cm' : Chans V) (sel : List Key)
    (h : calcBranch r cm n out = .ok (cm', sel)) : akeys cm' = akeys cm := by
  unfold calcBranch at h
  simp only [bind, Except.bind, pure, Except.pure] at h
  split at h
  · simp at h
  · split at h
    · simp at h
    · rename_i cm'' hrb
      injection h with h
      injection h with h1 _
      subst h1
      exact reportBranch_keys r cm n.key _ _ hrb

theorem resolveStep_keys (r : Runner V) (acc : Resolved V) (t : Done V) (res : Resolved V)
    (h : resolveStep r acc t = .ok res) : akeys res.cm = akeys acc.cm := by
  unfold resolveStep at h
  split at h
  · simp only [pure, Except.pure] at h; injection h with h; rw [← h]
  · simp only [bind, Except.bind, pure, Except.pure] at h
    split at h
    · simp at h
    · rename_i p hcb
      obtain ⟨cm', sel⟩ := p
      injection h with h
      rw [← h]
      exact calcBranch_keys r acc.cm _ _ cm' sel hcb

theorem foldlM_resolve_keys (r : Runner V) : ∀ (done : List (Done V)) (acc res : Resolved V),
    done.foldlM (resolveStep r) acc = .ok res → akeys res.cm = akeys acc.cm := by
  intro done
  induction done with
  | nil => intro acc res h; simp only [List.foldlM_nil, pure, Except.pure] at h; injection h with h; rw [h]
  | cons t rest ih =>
    intro acc res h
    simp only [List.foldlM_cons, bind, Except.bind] at h
    split at h
    · simp at h
    · rename_i acc' hstep
      rw [ih acc' res h]
      exact resolveStep_keys r acc t acc' hstep

theorem resolve_keys (r : Runner V) (cm : Chans V) (done : List (Done V)) (res : Resolved V)
    (h : resolve r cm done = .ok res) : akeys res.cm = akeys cm :=
  foldlM_resolve_keys r done _ res h

theorem updateValues_keys (r : Runner V) (cm : Chans V) (w : List (Key × List (Key × V))) :
    akeys (updateValues r cm w) = akeys cm := by
  unfold updateValues
  induction w generalizing cm with
  | nil => rfl
  | cons x rest ih => simp only [List.foldl_cons]; rw [ih]; exact modChan_keys _ _ _

theorem updateDeps_keys (r : Runner V) (cm : Chans V) (d : List (Key × List Key)) :
    akeys (updateDeps r cm d) = akeys cm := by
  unfold updateDeps
  induction d generalizing cm with
  | nil => rfl
  | cons x rest ih => simp only [List.foldl_cons]; rw [ih]; exact modChan_keys _ _ _

theorem getReady_keys (ops : ValOps V) (dag : Bool) : ∀ (cm : Chans V), akeys (getReady ops dag cm).1 = akeys cm := by
  intro cm
  induction cm with
  | nil => rfl
  | cons p rest ih =>
    obtain ⟨k, c⟩ := p
    simp only [getReady]
    split <;> simp [akeys] at ih ⊢ <;> exact ih

theorem calcNext_keys (ops : ValOps V) (r : Runner V) (cm : Chans V) (done : List (Done V)) (cm' : Chans V) (nx : Next V)
    (h : calcNext ops r cm done = .ok (cm', nx)) : akeys cm' = akeys cm := by
  unfold calcNext at h
  simp only [bind, Except.bind] at h
  split at h
  · simp at h
  · rename_i res hres
    have hk : akeys (getReady ops r.dag (updateDeps r (updateValues r res.cm res.writes) res.deps)).1 = akeys cm := by
      rw [getReady_keys, updateDeps_keys, updateValues_keys, resolve_keys r cm done res hres]
    split at h
    · simp [throw, throwThe, MonadExceptOf.throw] at h
    · split at h
      · simp only [pure, Except.pure] at h
        injection h with h; injection h with h1 _
        rw [← h1]; exact hk
      · simp only [pure, Except.pure] at h
        injection h with h; injection h with h1 _
        rw [← h1]; exact hk

/-- loading a channel map with the fresh manager's keys (no duplicates) gives back that map -/
theorem loadChans_same : ∀ (init cm : Chans V), akeys cm = akeys init → (akeys init).Nodup → loadChans init cm = cm := by
  intro init
  induction init with
  | nil => intro cm h _; cases cm with
    | nil => rfl
    | cons _ _ => simp [akeys] at h
  | cons p rest ih =>
    intro cm h hnd
    cases cm with
    | nil => simp [akeys] at h
    | cons q rest' =>
      simp only [akeys, List.map_cons, List.cons.injEq] at h
      obtain ⟨hk, hrest⟩ := h
      simp only [akeys, List.map_cons, List.nodup_cons] at hnd
      simp only [loadChans, List.map_cons]
      congr 1
      · have : alookup p.1 (q :: rest') = some q.2 := by simp [alookup, hk]
        rw [this]
        exact Prod.ext hk.symm rfl
      · have hlk : ∀ x ∈ rest, alookup x.1 (q :: rest') = alookup x.1 rest' := by
          intro x hx
          have hne : (q.1 == x.1) = false := by
            rw [beq_eq_false_iff_ne]
            intro heq
            apply hnd.1
            rw [← hk, heq]
            exact List.mem_map.2 ⟨x, hx, rfl⟩
          simp [alookup, hne]
        calc List.map (fun p' => (p'.1, (alookup p'.1 (q :: rest')).getD p'.2)) rest
            = List.map (fun p' => (p'.1, (alookup p'.1 rest').getD p'.2)) rest :=
              List.map_congr_left (fun x hx => by rw [hlk x hx])
          _ = rest' := ih rest' hrest hnd.2

/-! ### any-predecessor mode: asking the channels again right after `get` yields nothing -/

theorem get_pregel_values (ops : ValOps V) (c : Chan V) : ((c.get ops false).1).values = [] := by
  unfold Chan.get
  simp only [Bool.false_eq_true, ite_false]
  split
  · rename_i h; simpa [List.isEmpty_iff] using h
  · rfl

theorem getReady_pregel_values (ops : ValOps V) : ∀ (cm : Chans V), ∀ p ∈ (getReady ops false cm).1, p.2.values = [] := by
  intro cm
  induction cm with
  | nil => intro p hp; simp [getReady] at hp
  | cons q rest ih =>
    obtain ⟨k, c⟩ := q
    intro p hp
    simp only [getReady] at hp
    have hc := get_pregel_values ops c
    split at hp <;> (simp only [List.mem_cons] at hp; rcases hp with rfl | hp; exact hc; exact ih p hp)

theorem getReady_pregel_quiet (ops : ValOps V) : ∀ (cm : Chans V), (∀ p ∈ cm, p.2.values = []) →
    getReady ops false cm = (cm, [], false) := by
  intro cm
  induction cm with
  | nil => intro _; rfl
  | cons q rest ih =>
    obtain ⟨k, c⟩ := q
    intro h
    have hc : c.values = [] := h (k, c) (by simp)
    have hr := ih (fun p hp => h p (by simp [hp]))
    have hget : c.get ops false = (c, .notReady) := by
      unfold Chan.get; simp [hc]
    simp only [getReady, hget, hr]

theorem calcNext_nil (ops : ValOps V) (r : Runner V) (cm : Chans V) (h : getReady ops r.dag cm = (cm, [], false)) :
    calcNext ops r cm [] = .ok (cm, .tasks []) := by
  unfold calcNext
  simp only [resolve, List.foldlM_nil, pure, Except.pure, bind, Except.bind, updateValues, updateDeps, List.foldl_nil, h]
  simp [alookup]

/-- in any-predecessor mode the second `calculateNextTasks` of the interrupt path is a no-op -/
theorem pregel_quiet (ops : ValOps V) (r : Runner V) (hdag : r.dag = false) (cm : Chans V) (done : List (Done V))
    (cm' : Chans V) (ts : List (Key × V)) (h : calcNext ops r cm done = .ok (cm', .tasks ts)) :
    calcNext ops r cm' [] = .ok (cm', .tasks []) := by
  apply calcNext_nil
  rw [hdag]
  apply getReady_pregel_quiet
  unfold calcNext at h
  simp only [bind, Except.bind, hdag] at h
  split at h
  · simp at h
  · rename_i res _
    split at h
    · simp [throw, throwThe, MonadExceptOf.throw] at h
    · split at h
      · simp only [pure, Except.pure] at h
        injection h with h; injection h with _ h2; cases h2
      · simp only [pure, Except.pure] at h
        injection h with h; injection h with h1 _
        rw [← h1]
        exact getReady_pregel_values ops _

/-! ### a per-channel invariant is kept by every operation of a superstep -/

/-- `P` is kept by the four channel operations -/
structure OpsPreserve (P : Chan V → Prop) : Prop where
  values : ∀ dag c (ins : List (Key × V)), P c → P (c.reportValues dag ins)
  deps : ∀ dag c ds, P c → P (c.reportDeps dag ds)
  skip : ∀ dag c ks, P c → P (c.reportSkip dag ks).1
  get : ∀ (ops : ValOps V) dag c, P c → P (c.get ops dag).1

def AllP (P : Chan V → Prop) (cm : Chans V) : Prop := ∀ p ∈ cm, P p.2

theorem modChan_allP (P : Chan V → Prop) (cm : Chans V) (k : Key) (f : Chan V → Chan V)
    (hf : ∀ c, P c → P (f c)) (h : AllP P cm) : AllP P (modChan cm k f) := by
  intro p hp
  simp only [modChan, List.mem_map] at hp
  obtain ⟨q, hq, rfl⟩ := hp
  split
  · exact hf _ (h q hq)
  · exact h q hq

theorem alookup_mem {α} (k : Key) (l : List (Key × α)) (v : α) (h : alookup k l = some v) : ∃ k', (k', v) ∈ l := by
  induction l with
  | nil => simp [alookup] at h
  | cons p rest ih =>
    simp only [alookup] at h
    split at h
    · injection h with h; exact ⟨p.1, by rw [← h]; simp⟩
    · obtain ⟨k', hk'⟩ := ih h; exact ⟨k', by simp [hk']⟩

theorem skipOne_allP (P : Chan V → Prop) (hP : OpsPreserve P) (dag : Bool) (cm : Chans V) (k f : Key)
    (h : AllP P cm) : AllP P (skipOne dag cm k f).1 := by
  unfold skipOne
  split
  · exact h
  · cases hl : alookup k cm with
    | none => exact h
    | some c =>
      show AllP P (modChan cm k (fun _ => (Chan.reportSkip dag c [f]).1))
      obtain ⟨k', hk'⟩ := alookup_mem k cm c hl
      exact modChan_allP P cm k _ (fun _ _ => hP.skip dag c [f] (h (k', c) hk')) h

theorem foldl_skip_allP (P : Chan V → Prop) (hP : OpsPreserve P) (dag : Bool) (g : Key → Key) :
    ∀ (l : List Key) (acc : Chans V × List Key), AllP P acc.1 →
    AllP P (l.foldl (fun (acc : Chans V × List Key) s =>
        let (cm1, b) := skipOne dag acc.1 s (g s)
        (cm1, if b then acc.2 ++ [s] else acc.2)) acc).1 := by
  intro l
  induction l with
  | nil => intro acc h; exact h
  | cons s rest ih =>
    intro acc h
    simp only [List.foldl_cons]
    apply ih
    exact skipOne_allP P hP _ _ _ _ h

theorem propagateSkips_allP (P : Chan V → Prop) (hP : OpsPreserve P) (r : Runner V) :
    ∀ (fuel : Nat) (cm : Chans V) (ks : List Key) (cm' : Chans V),
    propagateSkips r fuel cm ks = .ok cm' → AllP P cm → AllP P cm' := by
  intro fuel
  induction fuel with
  | zero => intro cm ks cm' h hp; simp [propagateSkips] at h; rw [← h]; exact hp
  | succ n ih =>
    intro cm ks cm' h hp
    cases ks with
    | nil => simp [propagateSkips] at h; rw [← h]; exact hp
    | cons k rest =>
      simp only [propagateSkips] at h
      split at h
      · simp at h
      · exact ih _ _ _ h (foldl_skip_allP P hP r.dag (fun _ => k) _ _ hp)

theorem reportBranch_allP (P : Chan V → Prop) (hP : OpsPreserve P) (r : Runner V) (cm : Chans V) (from_ : Key)
    (sk : List Key) (cm' : Chans V) (h : reportBranch r cm from_ sk = .ok cm') (hp : AllP P cm) : AllP P cm' := by
  unfold reportBranch at h
  exact propagateSkips_allP P hP r _ _ _ _ h (foldl_skip_allP P hP r.dag (fun _ => from_) _ _ hp)

theorem calcBranch_allP (P : Chan V → Prop) (hP : OpsPreserve P) (r : Runner V) (cm : Chans V) (n : Node V) (out : V)
    (cm' : Chans V) (sel : List Key) (h : calcBranch r cm n out = .ok (cm', sel)) (hp : AllP P cm) : AllP P cm' := by
  unfold calcBranch at h
  simp only [bind, Except.bind, pure, Except.pure] at h
  split at h
  · simp at h
  · split at h
    · simp at h
    · rename_i cm'' hrb
      injection h with h
      injection h with h1 _
      subst h1
      exact reportBranch_allP P hP r cm n.key _ _ hrb hp

theorem resolveStep_allP (P : Chan V → Prop) (hP : OpsPreserve P) (r : Runner V) (acc : Resolved V) (t : Done V)
    (res : Resolved V) (h : resolveStep r acc t = .ok res) (hp : AllP P acc.cm) : AllP P res.cm := by
  unfold resolveStep at h
  split at h
  · simp only [pure, Except.pure] at h; injection h with h; rw [← h]; exact hp
  · simp only [bind, Except.bind, pure, Except.pure] at h
    split at h
    · simp at h
    · rename_i p hcb
      obtain ⟨cm', sel⟩ := p
      injection h with h
      rw [← h]
      exact calcBranch_allP P hP r acc.cm _ _ cm' sel hcb hp

theorem foldlM_resolve_allP (P : Chan V → Prop) (hP : OpsPreserve P) (r : Runner V) :
    ∀ (done : List (Done V)) (acc res : Resolved V),
    done.foldlM (resolveStep r) acc = .ok res → AllP P acc.cm → AllP P res.cm := by
  intro done
  induction done with
  | nil => intro acc res h hp; simp only [List.foldlM_nil, pure, Except.pure] at h; injection h with h; rw [← h]; exact hp
  | cons t rest ih =>
    intro acc res h hp
    simp only [List.foldlM_cons, bind, Except.bind] at h
    split at h
    · simp at h
    · rename_i acc' hstep
      exact ih acc' res h (resolveStep_allP P hP r acc t acc' hstep hp)

theorem updateValues_allP (P : Chan V → Prop) (hP : OpsPreserve P) (r : Runner V) (cm : Chans V)
    (w : List (Key × List (Key × V))) (hp : AllP P cm) : AllP P (updateValues r cm w) := by
  unfold updateValues
  induction w generalizing cm with
  | nil => exact hp
  | cons x rest ih =>
    simp only [List.foldl_cons]
    apply ih
    exact modChan_allP P cm _ _ (fun c hc => hP.values r.dag c _ hc) hp

theorem updateDeps_allP (P : Chan V → Prop) (hP : OpsPreserve P) (r : Runner V) (cm : Chans V)
    (d : List (Key × List Key)) (hp : AllP P cm) : AllP P (updateDeps r cm d) := by
  unfold updateDeps
  induction d generalizing cm with
  | nil => exact hp
  | cons x rest ih =>
    simp only [List.foldl_cons]
    apply ih
    exact modChan_allP P cm _ _ (fun c hc => hP.deps r.dag c _ hc) hp

theorem getReady_allP (P : Chan V → Prop) (hP : OpsPreserve P) (ops : ValOps V) (dag : Bool) :
    ∀ (cm : Chans V), AllP P cm → AllP P (getReady ops dag cm).1 := by
  intro cm
  induction cm with
  | nil => intro _ p hp; simp [getReady] at hp
  | cons q rest ih =>
    obtain ⟨k, c⟩ := q
    intro h p hp
    have hc : P (c.get ops dag).1 := hP.get ops dag c (h (k, c) (by simp))
    have hr := ih (fun p hp => h p (by simp [hp]))
    simp only [getReady] at hp
    split at hp <;> (simp only [List.mem_cons] at hp; rcases hp with rfl | hp; exact hc; exact hr p hp)

theorem calcNext_allP (P : Chan V → Prop) (hP : OpsPreserve P) (ops : ValOps V) (r : Runner V) (cm : Chans V)
    (done : List (Done V)) (cm' : Chans V) (nx : Next V)
    (h : calcNext ops r cm done = .ok (cm', nx)) (hp : AllP P cm) : AllP P cm' := by
  unfold calcNext at h
  simp only [bind, Except.bind] at h
  split at h
  · simp at h
  · rename_i res hres
    have hk : AllP P (getReady ops r.dag (updateDeps r (updateValues r res.cm res.writes) res.deps)).1 :=
      getReady_allP P hP ops r.dag _ (updateDeps_allP P hP r _ _ (updateValues_allP P hP r _ _
        (foldlM_resolve_allP P hP r done _ res hres hp)))
    split at h
    · simp [throw, throwThe, MonadExceptOf.throw] at h
    · split at h
      · simp only [pure, Except.pure] at h
        injection h with h; injection h with h1 _
        rw [← h1]; exact hk
      · simp only [pure, Except.pure] at h
        injection h with h; injection h with h1 _
        rw [← h1]; exact hk

/-! ### all-predecessor mode: a channel that has a predecessor is not ready right after `get` -/

/-- the channel was built with at least one (control or data) predecessor -/
def HasPred (c : Chan V) : Prop := c.ctrl ≠ [] ∨ c.data ≠ []

/-- executable form (for concrete runners) -/
theorem allP_hasPred_of_all (cm : Chans V)
    (h : cm.all (fun p => !p.2.ctrl.isEmpty || !p.2.data.isEmpty) = true) : AllP HasPred cm := by
  intro p hp
  have := List.all_eq_true.1 h p hp
  simp only [Bool.or_eq_true, Bool.not_eq_true', List.isEmpty_eq_false_iff] at this
  exact this

theorem aset_ne_nil {α} (k : Key) (v : α) (l : List (Key × α)) : aset k v l ≠ [] := by
  cases l with
  | nil => simp [aset]
  | cons p rest => simp only [aset]; split <;> simp

theorem foldl_keep {α β} (Q : β → Prop) (f : β → α → β) (hf : ∀ b a, Q b → Q (f b a)) :
    ∀ (l : List α) (b : β), Q b → Q (l.foldl f b) := by
  intro l
  induction l with
  | nil => intro b h; exact h
  | cons a rest ih => intro b h; exact ih _ (hf b a h)

theorem hasPred_setCtrl (b : Chan V) (a : Key) (d : Dep) (h : HasPred b) :
    HasPred (if (alookup a b.ctrl).isSome then { b with ctrl := aset a d b.ctrl } else b) := by
  split
  · exact Or.inl (aset_ne_nil _ _ _)
  · exact h

theorem hasPred_setData (b : Chan V) (a : Key) (h : HasPred b) :
    HasPred (if (alookup a b.data).isSome then { b with data := aset a true b.data } else b) := by
  split
  · rcases h with h | _
    · exact Or.inl h
    · exact Or.inr (aset_ne_nil _ _ _)
  · exact h

theorem hasPred_ops : OpsPreserve (HasPred (V := V)) where
  values := by
    intro dag c ins h
    unfold Chan.reportValues
    split
    · split
      · exact h
      · apply foldl_keep HasPred _ _ ins c h
        intro b a hb
        split
        · rcases hb with hb | _
          · exact Or.inl hb
          · exact Or.inr (aset_ne_nil _ _ _)
        · exact hb
    · apply foldl_keep HasPred _ _ ins c h
      intro b a hb
      exact hb
  deps := by
    intro dag c ds h
    unfold Chan.reportDeps
    split
    · split
      · exact h
      · apply foldl_keep HasPred _ _ ds c h
        intro b a hb
        split
        · exact Or.inl (aset_ne_nil _ _ _)
        · exact hb
    · exact h
  skip := by
    intro dag c ks h
    unfold Chan.reportSkip
    split
    · show HasPred _
      have : HasPred (ks.foldl (fun (c : Chan V) k =>
          let c := if (alookup k c.ctrl).isSome then { c with ctrl := aset k Dep.skipped c.ctrl } else c
          if (alookup k c.data).isSome then { c with data := aset k true c.data } else c) c) := by
        apply foldl_keep HasPred _ _ ks c h
        intro b a hb
        exact hasPred_setData _ a (hasPred_setCtrl b a Dep.skipped hb)
      exact this
    · exact h
  get := by
    intro ops dag c h
    unfold Chan.get
    split
    · split
      · rcases h with h | h
        · left; simpa [Chan.reset] using h
        · right; simpa [Chan.reset] using h
      · exact h
    · split
      · exact h
      · exact h

theorem reset_not_triggered (c : Chan V) (h : HasPred c) (_ht : c.triggered = true) : c.reset.triggered = false := by
  unfold Chan.triggered
  simp only [Chan.reset]
  rcases h with h | h
  · have : (c.ctrl.map (fun p => (p.1, Dep.waiting))).any (fun p => p.2 == Dep.waiting) = true := by
      cases hc : c.ctrl with
      | nil => exact absurd hc h
      | cons p rest => simp
    rw [this]; simp
  · have : (c.data.map (fun p => (p.1, false))).any (fun p => p.2 == false) = true := by
      cases hc : c.data with
      | nil => exact absurd hc h
      | cons p rest => simp
    rw [this]; simp

theorem get_dag_quiet (ops : ValOps V) (c : Chan V) (h : HasPred c) :
    ((c.get ops true).1).get ops true = ((c.get ops true).1, .notReady) := by
  unfold Chan.get
  simp only [ite_true]
  by_cases ht : c.triggered = true
  · simp only [ht, ite_true, reset_not_triggered c h ht, Bool.false_eq_true, ite_false]
  · simp only [ht, ite_false, Bool.false_eq_true]

theorem getReady_dag_quiet (ops : ValOps V) : ∀ (cm : Chans V), AllP HasPred cm →
    getReady ops true (getReady ops true cm).1 = ((getReady ops true cm).1, [], false) := by
  intro cm
  induction cm with
  | nil => intro _; rfl
  | cons q rest ih =>
    obtain ⟨k, c⟩ := q
    intro h
    have hc := get_dag_quiet ops c (h (k, c) (by simp))
    have hr := ih (fun p hp => h p (by simp [hp]))
    simp only [getReady]
    split <;> simp only [getReady, hc, hr]

/-- all-predecessor mode: on channels that all have a predecessor, the second `calculateNextTasks`
    of the interrupt path is a no-op, and the invariant is kept -/
theorem dag_quiet (ops : ValOps V) (r : Runner V) (hdag : r.dag = true) (cm : Chans V) (done : List (Done V))
    (cm' : Chans V) (ts : List (Key × V)) (hinv : AllP HasPred cm)
    (h : calcNext ops r cm done = .ok (cm', .tasks ts)) :
    AllP HasPred cm' ∧ calcNext ops r cm' [] = .ok (cm', .tasks []) := by
  refine ⟨calcNext_allP HasPred hasPred_ops ops r cm done cm' _ h hinv, ?_⟩
  apply calcNext_nil
  rw [hdag]
  unfold calcNext at h
  simp only [bind, Except.bind, hdag] at h
  split at h
  · simp at h
  · rename_i res hres
    have hall : AllP HasPred (updateDeps r (updateValues r res.cm res.writes) res.deps) :=
      updateDeps_allP HasPred hasPred_ops r _ _ (updateValues_allP HasPred hasPred_ops r _ _
        (foldlM_resolve_allP HasPred hasPred_ops r done _ res hres hinv))
    split at h
    · simp [throw, throwThe, MonadExceptOf.throw] at h
    · split at h
      · simp only [pure, Except.pure] at h
        injection h with h; injection h with _ h2; cases h2
      · simp only [pure, Except.pure] at h
        injection h with h; injection h with h1 _
        rw [← h1]
        exact getReady_dag_quiet ops _ hall

end EinoV.Interrupt
