/-
  C05 — facts about the engine's channel manager needed by the resume proofs:
  every operation of a superstep keeps the set (and order) of channel keys, so loading a saved
  channel map into a fresh manager gives back exactly the saved map.
-/
import EinoV.Model.C05

namespace EinoV.Interrupt
open EinoV.Engine

variable {V : Type}

theorem modChan_keys (cm : Chans V) (k : Key) (f : Chan V → Chan V) : akeys (modChan cm k f) = akeys cm := by
  simp only [akeys, modChan, List.map_map]
  apply List.map_congr_left
  intro p _
  simp only [Function.comp]
  split <;> rfl

theorem skipOne_keys (dag : Bool) (cm : Chans V) (k f : Key) : akeys (skipOne dag cm k f).1 = akeys cm := by
  unfold skipOne
  split
  · rfl
  · cases alookup k cm with
    | none => rfl
    | some c =>
      show akeys (modChan cm k (fun _ => (Chan.reportSkip dag c [f]).1)) = akeys cm
      exact modChan_keys _ _ _

theorem foldl_skip_keys (dag : Bool) (g : Key → Key) : ∀ (l : List Key) (acc : Chans V × List Key),
    akeys (l.foldl (fun (acc : Chans V × List Key) s =>
        let (cm1, b) := skipOne dag acc.1 s (g s)
        (cm1, if b then acc.2 ++ [s] else acc.2)) acc).1 = akeys acc.1 := by
  intro l
  induction l with
  | nil => intro acc; rfl
  | cons s rest ih =>
    intro acc
    simp only [List.foldl_cons]
    rw [ih]
    exact skipOne_keys _ _ _ _

theorem propagateSkips_keys (r : Runner V) : ∀ (fuel : Nat) (cm : Chans V) (ks : List Key) (cm' : Chans V),
    propagateSkips r fuel cm ks = .ok cm' → akeys cm' = akeys cm := by
  intro fuel
  induction fuel with
  | zero => intro cm ks cm' h; simp [propagateSkips] at h; rw [h]
  | succ n ih =>
    intro cm ks cm' h
    cases ks with
    | nil => simp [propagateSkips] at h; rw [h]
    | cons k rest =>
      simp only [propagateSkips] at h
      split at h
      · simp at h
      · have := ih _ _ _ h
        rw [this]
        exact foldl_skip_keys r.dag (fun _ => k) _ _

theorem reportBranch_keys (r : Runner V) (cm : Chans V) (from_ : Key) (sk : List Key) (cm' : Chans V)
    (h : reportBranch r cm from_ sk = .ok cm') : akeys cm' = akeys cm := by
  unfold reportBranch at h
  have := propagateSkips_keys r _ _ _ _ h
  rw [this]
  exact foldl_skip_keys r.dag (fun _ => from_) _ _

theorem calcBranch_keys (r : Runner V) (cm : Chans V) (n : Node V) (out : V) (cm' : Chans V) (sel : List Key)
    (h : calcBranch r cm n out = .ok (cm', sel)) : akeys cm' = akeys cm := by
  unfold calcBranch at h
  simp only [bind, Except.bind, pure, Except.pure] at h
  split at h
  · simp at h
  · split at h
    · simp at h
    · rename_i cm'' hrb
      injection h with h
      injection h with h1 _
      subst h1
      exact reportBranch_keys r cm n.key _ _ hrb

theorem resolveStep_keys (r : Runner V) (acc : Resolved V) (t : Done V) (res : Resolved V)
    (h : resolveStep r acc t = .ok res) : akeys res.cm = akeys acc.cm := by
  unfold resolveStep at h
  split at h
  · simp only [pure, Except.pure] at h; injection h with h; rw [← h]
  · simp only [bind, Except.bind, pure, Except.pure] at h
    split at h
    · simp at h
    · rename_i p hcb
      obtain ⟨cm', sel⟩ := p
      injection h with h
      rw [← h]
      exact calcBranch_keys r acc.cm _ _ cm' sel hcb

theorem foldlM_resolve_keys (r : Runner V) : ∀ (done : List (Done V)) (acc res : Resolved V),
    done.foldlM (resolveStep r) acc = .ok res → akeys res.cm = akeys acc.cm := by
  intro done
  induction done with
  | nil => intro acc res h; simp only [List.foldlM_nil, pure, Except.pure] at h; injection h with h; rw [h]
  | cons t rest ih =>
    intro acc res h
    simp only [List.foldlM_cons, bind, Except.bind] at h
    split at h
    · simp at h
    · rename_i acc' hstep
      rw [ih acc' res h]
      exact resolveStep_keys r acc t acc' hstep

theorem resolve_keys (r : Runner V) (cm : Chans V) (done : List (Done V)) (res : Resolved V)
    (h : resolve r cm done = .ok res) : akeys res.cm = akeys cm :=
  foldlM_resolve_keys r done _ res h

theorem updateValues_keys (r : Runner V) (cm : Chans V) (w : List (Key × List (Key × V))) :
    akeys (updateValues r cm w) = akeys cm := by
  unfold updateValues
  induction w generalizing cm with
  | nil => rfl
  | cons x rest ih => simp only [List.foldl_cons]; rw [ih]; exact modChan_keys _ _ _

theorem updateDeps_keys (r : Runner V) (cm : Chans V) (d : List (Key × List Key)) :
    akeys (updateDeps r cm d) = akeys cm := by
  unfold updateDeps
  induction d generalizing cm with
  | nil => rfl
  | cons x rest ih => simp only [List.foldl_cons]; rw [ih]; exact modChan_keys _ _ _

theorem getReady_keys (ops : ValOps V) (dag : Bool) : ∀ (cm : Chans V), akeys (getReady ops dag cm).1 = akeys cm := by
  intro cm
  induction cm with
  | nil => rfl
  | cons p rest ih =>
    obtain ⟨k, c⟩ := p
    simp only [getReady]
    split <;> simp [akeys] at ih ⊢ <;> exact ih

theorem calcNext_keys (ops : ValOps V) (r : Runner V) (cm : Chans V) (done : List (Done V)) (cm' : Chans V) (nx : Next V)
    (h : calcNext ops r cm done = .ok (cm', nx)) : akeys cm' = akeys cm := by
  unfold calcNext at h
  simp only [bind, Except.bind] at h
  split at h
  · simp at h
  · rename_i res hres
    have hk : akeys (getReady ops r.dag (updateDeps r (updateValues r res.cm res.writes) res.deps)).1 = akeys cm := by
      rw [getReady_keys, updateDeps_keys, updateValues_keys, resolve_keys r cm done res hres]
    split at h
    · simp [throw, throwThe, MonadExceptOf.throw] at h
    · split at h
      · simp only [pure, Except.pure] at h
        injection h with h; injection h with h1 _
        rw [← h1]; exact hk
      · simp only [pure, Except.pure] at h
        injection h with h; injection h with h1 _
        rw [← h1]; exact hk

/-- loading a channel map with the fresh manager's keys (no duplicates) gives back that map -/
theorem loadChans_same : ∀ (init cm : Chans V), akeys cm = akeys init → (akeys init).Nodup → loadChans init cm = cm := by
  intro init
  induction init with
  | nil => intro cm h _; cases cm with
    | nil => rfl
    | cons _ _ => simp [akeys] at h
  | cons p rest ih =>
    intro cm h hnd
    cases cm with
    | nil => simp [akeys] at h
    | cons q rest' =>
      simp only [akeys, List.map_cons, List.cons.injEq] at h
      obtain ⟨hk, hrest⟩ := h
      simp only [akeys, List.map_cons, List.nodup_cons] at hnd
      simp only [loadChans, List.map_cons]
      congr 1
      · have : alookup p.1 (q :: rest') = some q.2 := by simp [alookup, hk]
        rw [this]
        exact Prod.ext hk.symm rfl
      · have hlk : ∀ x ∈ rest, alookup x.1 (q :: rest') = alookup x.1 rest' := by
          intro x hx
          have hne : (q.1 == x.1) = false := by
            rw [beq_eq_false_iff_ne]
            intro heq
            apply hnd.1
            rw [← hk, heq]
            exact List.mem_map.2 ⟨x, hx, rfl⟩
          simp [alookup, hne]
        calc List.map (fun p' => (p'.1, (alookup p'.1 (q :: rest')).getD p'.2)) rest
            = List.map (fun p' => (p'.1, (alookup p'.1 rest').getD p'.2)) rest :=
              List.map_congr_left (fun x hx => by rw [hlk x hx])
          _ = rest' := ih rest' hrest hnd.2

/-! ### any-predecessor mode: asking the channels again right after `get` yields nothing -/

theorem get_pregel_values (ops : ValOps V) (c : Chan V) : ((c.get ops false).1).values = [] := by
  unfold Chan.get
  simp only [Bool.false_eq_true, ite_false]
  split
  · rename_i h; simpa [List.isEmpty_iff] using h
  · rfl

theorem getReady_pregel_values (ops : ValOps V) : ∀ (cm : Chans V), ∀ p ∈ (getReady ops false cm).1, p.2.values = [] := by
  intro cm
  induction cm with
  | nil => intro p hp; simp [getReady] at hp
  | cons q rest ih =>
    obtain ⟨k, c⟩ := q
    intro p hp
    simp only [getReady] at hp
    have hc := get_pregel_values ops c
    split at hp <;> (simp only [List.mem_cons] at hp; rcases hp with rfl | hp; exact hc; exact ih p hp)

theorem getReady_pregel_quiet (ops : ValOps V) : ∀ (cm : Chans V), (∀ p ∈ cm, p.2.values = []) →
    getReady ops false cm = (cm, [], false) := by
  intro cm
  induction cm with
  | nil => intro _; rfl
  | cons q rest ih =>
    obtain ⟨k, c⟩ := q
    intro h
    have hc : c.values = [] := h (k, c) (by simp)
    have hr := ih (fun p hp => h p (by simp [hp]))
    have hget : c.get ops false = (c, .notReady) := by
      unfold Chan.get; simp [hc]
    simp only [getReady, hget, hr]

theorem calcNext_nil (ops : ValOps V) (r : Runner V) (cm : Chans V) (h : getReady ops r.dag cm = (cm, [], false)) :
    calcNext ops r cm [] = .ok (cm, .tasks []) := by
  unfold calcNext
  simp only [resolve, List.foldlM_nil, pure, Except.pure, bind, Except.bind, updateValues, updateDeps, List.foldl_nil, h]
  simp [alookup]

/-- in any-predecessor mode the second `calculateNextTasks` of the interrupt path is a no-op -/
theorem pregel_quiet (ops : ValOps V) (r : Runner V) (hdag : r.dag = false) (cm : Chans V) (done : List (Done V))
    (cm' : Chans V) (ts : List (Key × V)) (h : calcNext ops r cm done = .ok (cm', .tasks ts)) :
    calcNext ops r cm' [] = .ok (cm', .tasks []) := by
  apply calcNext_nil
  rw [hdag]
  apply getReady_pregel_quiet
  unfold calcNext at h
  simp only [bind, Except.bind, hdag] at h
  split at h
  · simp at h
  · rename_i res _
    split at h
    · simp [throw, throwThe, MonadExceptOf.throw] at h
    · split at h
      · simp only [pure, Except.pure] at h
        injection h with h; injection h with _ h2; cases h2
      · simp only [pure, Except.pure] at h
        injection h with h; injection h with h1 _
        rw [← h1]
        exact getReady_pregel_values ops _

end EinoV.Interrupt
