/-
  C02, Workflows: exact inputs in the eager loop (`ereach_exact`): the history invariant `K` kept for
  exactly the processed completions, the stored-values invariant `RV`, one completion per round.
-/
import EinoV.Proofs.C02EagerComplete
import EinoV.Proofs.C02Exact

namespace EinoV.Engine
namespace DagRun

/-- the eager invariant extended for exact inputs: the history invariant for the *processed*
    completions, and the stored values -/
structure EXInv {V} (ops : ValOps V) (r : Runner V) (x : V) (cm : Chans V) (running : List (Key × V))
    (bs : List (List (Key × V))) (comp : List Key) : Prop where
  c : ECInv ops r x cm running bs comp
  kc : K r (histC r x bs comp) cm
  rv : ∀ p o n, (p, o) ∈ histC r x bs comp → RoutesD r p o n → RV (fun n => (keysOfTr bs).count n) cm n p

theorem histC_mono {V} (r : Runner V) (x : V) (bs : List (List (Key × V))) (comp : List Key) (ts : List (Key × V)) (k : Key) :
    ∀ d, d ∈ histC r x bs comp → d ∈ histC r x (bs ++ [ts]) (comp ++ [k]) := by
  intro d hd
  simp only [histC, List.mem_cons, List.mem_filterMap, List.mem_filter] at hd ⊢
  rcases hd with h | ⟨u, ⟨hu, hcu⟩, ho⟩
  · exact Or.inl h
  · refine Or.inr ⟨u, ⟨by simp [hu], ?_⟩, ho⟩
    have := List.contains_iff_mem.mp hcu
    exact List.contains_iff_mem.mpr (List.mem_append_left _ this)

theorem EXInv_init {V} (ops : ValOps V) (r : Runner V) (wf : DagWF r) (wf2 : DagWF2 r) (x : V)
    (cm : Chans V) (ts : List (Key × V))
    (hc : calcNext ops r (initChans r) [(START, x)] = .ok (cm, .tasks ts)) :
    EXInv ops r x cm ts [ts] [] ∧ ∀ n v, (n, v) ∈ ts → ExactIn ops r [(START, x)] n v := by
  obtain ⟨rank, hrank⟩ := wf.acyclic
  have hci := ECInv_init ops r wf wf2 x cm ts hc
  have hH : histC r x [ts] [] = [(START, x)] := by
    simp [histC]
  obtain ⟨j1, _, _⟩ := calcNext_K (H := [(START, x)]) ops r wf.dag wf.succ wf.startKey rank hrank
    (initChans r) cm [(START, x)] _ (init_K r wf.dag wf.nodup _) rfl
    (by intro t ht; simpa using ht) hc
  have hJ0 := init_J r wf.dag wf.nodup
  obtain ⟨x1, x2⟩ := round_exact (F := fun _ => 0) ops r wf.dag wf.succ wf2.pc wf2.pd
    wf.startFresh wf.startKey (initChans r) cm [(START, x)] ts [(START, x)] (fun _ _ => False)
    (init_K r wf.dag wf.nodup _) rfl
    (by intro t ht; simpa using ht)
    (by intro p o hm; right; exact hm)
    (by
      intro p o o' hm hm'
      simp only [List.mem_singleton, Prod.mk.injEq] at hm hm'
      rw [hm.2, hm'.2])
    (fun p hp => by rw [skOf_init r wf.dag p] at hp; cases hp)
    (fun p o n hf => hf.elim)
    (by
      intro t ht
      simp only [List.mem_singleton] at ht
      subst ht
      simp [Runner.call?])
    (fun _ _ => rfl) hc
  have eF : (fun n => 0 + (akeys ts).count n) = (fun n => (keysOfTr ([ts] : Trace V)).count n) := by
    funext n; simp [keysOfTr, akeys]
  rw [eF] at x2
  exact ⟨⟨hci, by rw [hH]; exact j1, by rw [hH]; exact x2⟩, x1⟩

theorem EXInv_step {V} (ops : ValOps V) (r : Runner V) (wf : DagWF r) (wf2 : DagWF2 r) (pick : Pick V) (x : V)
    (cm cm' : Chans V) (running ts : List (Key × V)) (bs : List (List (Key × V))) (comp : List Key)
    (t : Key × V) (d : Done V)
    (h : EXInv ops r x cm running bs comp)
    (hp : running[pick running % running.length]? = some t)
    (hce : collectOne (execOne r t) = .ok d)
    (hc : calcNext ops r cm [d] = .ok (cm', .tasks ts)) :
    EXInv ops r x cm' (running.eraseIdx (pick running % running.length) ++ ts) (bs ++ [ts]) (comp ++ [t.1]) ∧
    ∀ n v, (n, v) ∈ ts → ExactIn ops r (histC r x (bs ++ [ts]) (comp ++ [t.1])) n v := by
  obtain ⟨rank, hrank⟩ := wf.acyclic
  have hci := ECInv_step ops r wf wf2 pick x cm cm' running ts bs comp t d h.c hp hce hc
  have hd := collect_exec_key r t d hce
  have htr : t ∈ running := List.mem_of_getElem? hp
  have hout : outOf r t = some d := by simp [outOf, hce]
  have htb : t ∈ bs.flatten := h.c.k.run t htr
  -- the processed completions after this step
  have hdH : d ∈ histC r x (bs ++ [ts]) (comp ++ [t.1]) := by
    simp only [histC, List.mem_cons, List.mem_filterMap, List.mem_filter]
    refine Or.inr ⟨t, ⟨by simp [htb], ?_⟩, hout⟩
    exact List.contains_iff_mem.mpr (by simp)
  have hKm : K r (histC r x (bs ++ [ts]) (comp ++ [t.1])) cm := K_mono h.kc (histC_mono r x bs comp ts t.1)
  obtain ⟨j1, _, _⟩ := calcNext_K ops r wf.dag wf.succ wf.startKey rank hrank cm cm' [d] _ hKm h.c.e.sh
    (by intro t' ht'; simp only [List.mem_singleton] at ht'; subst ht'; exact hdH) hc
  -- at most once in the new state
  have hcnt := einv_bound r wf cm' _ (bs ++ [ts]) (comp ++ [t.1]) hci.e
  have hsubH : ∀ e, e ∈ histC r x (bs ++ [ts]) (comp ++ [t.1]) → e ∈ histOf r x (bs ++ [ts]).reverse :=
    histC_sub r x _ _
  have hfn : ∀ p o o', (p, o) ∈ histC r x (bs ++ [ts]) (comp ++ [t.1]) →
      (p, o') ∈ histC r x (bs ++ [ts]) (comp ++ [t.1]) → o = o' := by
    intro p o o' hm hm'
    -- functional on the larger history
    have hF0 : (keysOfTr (bs ++ [ts])).count START = 0 := by
      by_cases h0 : 0 < (keysOfTr (bs ++ [ts])).count START
      · obtain ⟨cs, ds, hmm, _⟩ := hci.e.pos START h0
        have := mem_akeys_of_mem START (cs, ds) _ hmm
        rw [shapes_keys] at this
        exact absurd this wf.startFresh
      · omega
    have a := (mem_histOf_reverse r x (bs ++ [ts]) (p, o)).mp (hsubH _ hm)
    have b := (mem_histOf_reverse r x (bs ++ [ts]) (p, o')).mp (hsubH _ hm')
    rcases a with a | ⟨u, hu, ho⟩
    · rcases b with b | ⟨u', hu', ho'⟩
      · rw [(Prod.mk.inj a).2, (Prod.mk.inj b).2]
      · exfalso
        have hkk := outOf_key r u' (p, o') ho'
        simp only at hkk
        have : START ∈ keysOfTr (bs ++ [ts]) := by
          simp only [keysOfTr, List.mem_map]
          exact ⟨u', hu', by rw [← hkk, (Prod.mk.inj a).1]⟩
        have := List.count_pos_iff.mpr this
        omega
    · rcases b with b | ⟨u', hu', ho'⟩
      · exfalso
        have hkk := outOf_key r u (p, o) ho
        simp only at hkk
        have : START ∈ keysOfTr (bs ++ [ts]) := by
          simp only [keysOfTr, List.mem_map]
          exact ⟨u, hu, by rw [← hkk, (Prod.mk.inj b).1]⟩
        have := List.count_pos_iff.mpr this
        omega
      · have k1 := outOf_key r u (p, o) ho
        have k2 := outOf_key r u' (p, o') ho'
        simp only at k1 k2
        have : u = u' := unique_by_key (bs ++ [ts]).flatten p (by simpa [keysOfTr, akeys] using hcnt p) u u' hu hu' k1.symm k2.symm
        subst this
        rw [ho] at ho'
        exact (Prod.mk.inj (Option.some.inj ho')).2
  -- members of the new processed history are old ones or the completion just processed
  have hH : ∀ p o, (p, o) ∈ histC r x (bs ++ [ts]) (comp ++ [t.1]) →
      (p, o) ∈ histC r x bs comp ∨ (p, o) ∈ [d] := by
    intro p o hm
    by_cases hpk : p = t.1
    · right
      have := hfn p o d.2 hm (by
        have : (p, d.2) = d := by ext <;> simp [hpk, hd]
        rw [this]; exact hdH)
      simp only [List.mem_singleton]
      ext <;> simp [hpk, hd, this]
    · left
      simp only [histC, List.mem_cons, List.mem_filterMap, List.mem_filter] at hm ⊢
      rcases hm with hm | ⟨u, ⟨hu, hcu⟩, ho⟩
      · exact Or.inl hm
      · have hku := outOf_key r u (p, o) ho
        simp only at hku
        have hmem : u.1 ∈ comp := by
          have := List.contains_iff_mem.mp hcu
          rcases List.mem_append.mp this with h1 | h1
          · exact h1
          · simp only [List.mem_singleton] at h1
            exact absurd (by rw [hku, h1]) hpk
        -- the task with that key is among the old batches
        obtain ⟨u', hu', hk', _⟩ := h.c.cok u.1 hmem
        have : u = u' := unique_by_key (bs ++ [ts]).flatten u.1 (by simpa [keysOfTr, akeys] using hcnt u.1) u u' hu
          (by simp [hu']) rfl hk'
        subst this
        exact Or.inr ⟨u, ⟨hu', List.contains_iff_mem.mpr hmem⟩, ho⟩
  have hF0 : ∀ t', t' ∈ ts → (fun n => (keysOfTr bs).count n) t'.1 = 0 := by
    intro t' ht'
    have hb := hcnt t'.1
    rw [keysOfTr_append_single, List.count_append] at hb
    have : 0 < (akeys ts).count t'.1 := List.count_pos_iff.mpr (mem_akeys_of_mem t'.1 t'.2 _ ht')
    simp only
    omega
  obtain ⟨x1, x2⟩ := round_exact (F := fun n => (keysOfTr bs).count n) ops r wf.dag wf.succ wf2.pc wf2.pd
    wf.startFresh wf.startKey cm cm' [d] ts (histC r x (bs ++ [ts]) (comp ++ [t.1])) (fun p o => (p, o) ∈ histC r x bs comp)
    hKm h.c.e.sh
    (by intro t' ht'; simp only [List.mem_singleton] at ht'; subst ht'; exact hdH)
    hH hfn h.c.rq h.rv
    (by
      intro t' ht'
      simp only [List.mem_singleton] at ht'
      subst ht'
      rw [hd]; exact h.c.call t htr)
    hF0 hc
  have eF : (fun n => (keysOfTr bs).count n + (akeys ts).count n) = (fun n => (keysOfTr (bs ++ [ts])).count n) := by
    funext n; rw [keysOfTr_append_single, List.count_append]
  rw [eF] at x2
  exact ⟨⟨hci, j1, x2⟩, x1⟩

theorem ereach_EXInv {V} (ops : ValOps V) (r : Runner V) (wf : DagWF r) (wf2 : DagWF2 r) (pick : Pick V) (x : V)
    (cm : Chans V) (running : List (Key × V)) (bs : List (List (Key × V))) (comp : List Key)
    (h : EReach ops r pick x cm running bs comp) : EXInv ops r x cm running bs comp := by
  induction h with
  | init cm ts hc => exact (EXInv_init ops r wf wf2 x cm ts hc).1
  | step cm cm' running ts bs comp t d _ hp hce hn ih =>
    exact (EXInv_step ops r wf wf2 pick x cm cm' running ts bs comp t d ih hp hce hn).1

/-- **exact inputs in the eager loop.** Whenever the eager (Workflow) loop, in a state it passes
    through, processes a completion and submits new tasks, the input of each of them is built from
    exactly the values that the completions processed so far routed to it. -/
theorem ereach_exact {V} (ops : ValOps V) (r : Runner V) (wf : DagWF r) (wf2 : DagWF2 r) (pick : Pick V) (x : V)
    (cm cm' : Chans V) (running ts : List (Key × V)) (bs : List (List (Key × V))) (comp : List Key)
    (t : Key × V) (d : Done V)
    (h : EReach ops r pick x cm running bs comp)
    (hp : running[pick running % running.length]? = some t)
    (hce : collectOne (execOne r t) = .ok d)
    (hc : calcNext ops r cm [d] = .ok (cm', .tasks ts)) :
    ∀ n v, (n, v) ∈ ts → ExactIn ops r (histC r x (bs ++ [ts]) (comp ++ [t.1])) n v :=
  (EXInv_step ops r wf wf2 pick x cm cm' running ts bs comp t d
    (ereach_EXInv ops r wf wf2 pick x cm running bs comp h) hp hce hc).2

/-- the first batch: built from START's output -/
theorem start_exact {V} (ops : ValOps V) (r : Runner V) (wf : DagWF r) (wf2 : DagWF2 r) (x : V)
    (cm : Chans V) (ts : List (Key × V))
    (hc : calcNext ops r (initChans r) [(START, x)] = .ok (cm, .tasks ts)) :
    ∀ n v, (n, v) ∈ ts → ExactIn ops r [(START, x)] n v :=
  (EXInv_init ops r wf wf2 x cm ts hc).2

end DagRun
end EinoV.Engine
