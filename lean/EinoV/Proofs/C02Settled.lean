import EinoV.Proofs.C02Just
import EinoV.Proofs.C02Complete
import EinoV.Proofs.C02Eager

namespace EinoV.Engine
namespace DagRun

/-! ### when a run returns, every control ancestor of END has run or is skipped -/

/-- a completion recorded in the history of a justified trace, other than START's, was a
    justified start over an included history -/
theorem hist_justified {V} (ops : ValOps V) (r : Runner V) (x : V) (T : Trace V) (hj : JustTr ops r x T)
    (n : Key) (o : V) (hn : n ≠ START) (h : (n, o) ∈ histOf r x T) :
    ∃ v H', Justified ops r H' n v ∧ ∀ d, d ∈ H' → d ∈ histOf r x T := by
  induction T with
  | nil =>
    simp only [histOf, List.flatten_nil, List.filterMap_nil, List.mem_singleton, Prod.mk.injEq] at h
    exact absurd h.1 hn
  | cons step older ih =>
    obtain ⟨j1, j2⟩ := hj
    simp only [histOf, List.mem_cons, List.flatten_cons, List.filterMap_append, List.mem_append, Prod.mk.injEq] at h
    rcases h with ⟨h, _⟩ | h | h
    · exact absurd h hn
    · obtain ⟨t, ht, ho⟩ := List.mem_filterMap.mp h
      have hk := outOf_key r t (n, o) ho
      simp only at hk
      refine ⟨t.2, histOf r x older, ?_, histOf_mono r x step older⟩
      exact j1 n t.2 (by rw [hk]; exact ht)
    · obtain ⟨v, H', hj', hsub⟩ := ih j2 (by
        simp only [histOf, List.mem_cons]; exact Or.inr h)
      exact ⟨v, H', hj', fun d hd => histOf_mono r x step older d (hsub d hd)⟩

theorem settled_of_justified {V} (ops : ValOps V) (r : Runner V) (H' H : List (Done V)) (n : Key) (v : V)
    (hj : Justified ops r H' n v) (hsub : ∀ d, d ∈ H' → d ∈ H) (p : Key) (hp : p ∈ lookupList n r.ctrlPreds) :
    Settled r H p := by
  rcases hj.1 p hp with ⟨o, ho, _⟩ | hs | ⟨o, ho, _⟩
  · exact Or.inl ⟨o, hsub _ ho⟩
  · exact Or.inr (hs.mono hsub)
  · exact Or.inl ⟨o, hsub _ ho⟩

/-- **in a justified trace whose END is justified, every control ancestor of END is settled** -/
theorem ancestors_settled {V} (ops : ValOps V) (r : Runner V) (x : V) (T : Trace V) (hj : JustTr ops r x T)
    (hs : lookupList START r.ctrlPreds = []) (v : V) (he : Justified ops r (histOf r x T) END v)
    (p : Key) (ha : AncEnd r p) : Settled r (histOf r x T) p := by
  induction ha with
  | base p h => exact settled_of_justified ops r _ _ END v he (fun _ hd => hd) p h
  | step p n _ h ih =>
    rcases ih with ⟨o, ho⟩ | hsk
    · by_cases hn : n = START
      · subst hn; rw [hs] at h; simp at h
      · obtain ⟨v', H', hj', hsub⟩ := hist_justified ops r x T hj n o hn ho
        exact settled_of_justified ops r H' _ n v' hj' hsub p h
    · cases hsk with
      | intro _ hall =>
        by_cases hd : ∃ o, (p, o) ∈ histOf r x T ∧ Deselects r p o n
        · obtain ⟨o, ho, _⟩ := hd
          exact Or.inl ⟨o, ho⟩
        · exact Or.inr (hall p h hd)

/-- run level -/
theorem run_ancestors_settled {V} (ops : ValOps V) (r : Runner V) (wf : DagWF r)
    (hs : lookupList START r.ctrlPreds = []) (sched : Sched V) (hf : sched.Fair) (x v : V)
    (hres : (runS ops r sched x).result = .ok v) (p : Key) (ha : AncEnd r p) :
    Settled r (histOf r x (runS ops r sched x).trace.reverse) p := by
  obtain ⟨j1, j2⟩ := run_justified ops r wf sched hf x
  exact ancestors_settled ops r x _ j1 hs v (j2 v hres) p ha

/-- the eager (Workflow) loop: the history is that of the submitted tasks -/
theorem runEager_ancestors_settled {V} (ops : ValOps V) (r : Runner V) (wf : DagWF r)
    (hs : lookupList START r.ctrlPreds = []) (pick : Pick V) (x v : V)
    (hres : (runEager ops r pick x).result = .ok v) (p : Key) (ha : AncEnd r p) :
    Settled r (histOf r x (runEager ops r pick x).batches.reverse) p := by
  obtain ⟨j1, j2⟩ := runEager_justified ops r wf pick x
  exact ancestors_settled ops r x _ j1 hs v (j2 v hres) p ha

end DagRun
end EinoV.Engine
