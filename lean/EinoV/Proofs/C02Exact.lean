/-
  C02, run level: the input of every started node is built from *exactly* the outputs of the data
  predecessors that completed and routed to it (`run_exact`).  A fourth invariant (`RV`: the value
  of every completed task is stored wherever it was routed, until the channel fires), combined
  with the history invariant `K` (every stored value was routed) and at-most-once (histories are
  functional).
-/
import EinoV.Proofs.C02Complete

namespace EinoV.Engine
namespace DagRun

/-! ### the stored values are exactly the routed ones -/

/-- `p`'s value is stored on channel `n` (or `n` has been started, or is skipped) -/
def RV {V} (F : Key → Nat) (cm : Chans V) (n p : Key) : Prop :=
  ∀ c, (n, c) ∈ cm → 1 ≤ F n ∨ c.skipped = true ∨ p ∈ akeys c.values

theorem RV.mono {V} {F : Key → Nat} {cm cm' : Chans V} (hm : Mono cm cm') {n p : Key} (h : RV F cm n p) :
    RV F cm' n p := by
  intro c' hc'
  obtain ⟨c, hc, m⟩ := hm.step n c' hc'
  rcases h c hc with h1 | h1 | h1
  · exact Or.inl h1
  · exact Or.inr (Or.inl (m.sk h1))
  · exact Or.inr (Or.inr (m.vk p h1))

def EstV {V} (cm : Chans V) (to p : Key) : Prop :=
  ∀ c', (to, c') ∈ cm → p ∈ akeys c'.data → c'.skipped = true ∨ p ∈ akeys c'.values

theorem EstV.mono {V} {cm cm' : Chans V} (hm : Mono cm cm') {to p : Key} (h : EstV cm to p) : EstV cm' to p := by
  intro c' hc' hk
  obtain ⟨c, hc, m⟩ := hm.step to c' hc'
  have e2 := congrArg Prod.snd m.shape
  simp only [shapeOf] at e2
  rcases h c hc (by rw [← e2]; exact hk) with h1 | h1
  · exact Or.inl (m.sk h1)
  · exact Or.inr (m.vk p h1)

theorem reportValues_vk {V} (c : Chan V) (ins : List (Key × V)) (p : Key) (hp : p ∈ akeys ins)
    (hk : p ∈ akeys c.data) : c.skipped = true ∨ p ∈ akeys (c.reportValues true ins).values := by
  rw [reportValues_eq]
  split
  · rename_i hs; exact Or.inl hs
  · exact Or.inr ((valsF_fold_vkeys ins c).2 p hp hk)

theorem updateValues_V {V} (r : Runner V) (hd : r.dag = true) (writes : List (Key × List (Key × V))) (cm : Chans V)
    (hnd : (akeys cm).Nodup) :
    ∀ to l, (to, l) ∈ writes → ∀ p, p ∈ akeys l → p ∈ lookupList to r.dataPreds → EstV (updateValues r cm writes) to p := by
  unfold updateValues
  induction writes generalizing cm with
  | nil => intro to l h; simp at h
  | cons w rest ih =>
    simp only [List.foldl_cons]
    have hm1 : Mono cm (modChan cm w.1 (fun c => c.reportValues r.dag (w.2.filter (fun kv => (lookupList w.1 r.dataPreds).contains kv.1)))) :=
      Mono.modChan cm w.1 _ (fun c _ => by rw [hd]; exact (reportValues_mono c _).1)
    have hest : ∀ p, p ∈ akeys w.2 → p ∈ lookupList w.1 r.dataPreds →
        EstV (modChan cm w.1 (fun c => c.reportValues r.dag (w.2.filter (fun kv => (lookupList w.1 r.dataPreds).contains kv.1)))) w.1 p := by
      intro p hp hcp c' hc' hk
      obtain ⟨c, hc, rfl⟩ := (mem_modChan _ _ _ _ _).mp hc'
      simp only [beq_self_eq_true, ↓reduceIte] at hk ⊢
      rw [hd] at hk ⊢
      have mm := (reportValues_mono c (w.2.filter (fun kv => (lookupList w.1 r.dataPreds).contains kv.1))).1
      have hkc : p ∈ akeys c.data := by
        have e1 := congrArg Prod.snd mm.shape
        simp only [shapeOf] at e1
        rw [← e1]; exact hk
      have hin : p ∈ akeys (w.2.filter (fun kv => (lookupList w.1 r.dataPreds).contains kv.1)) := by
        simp only [akeys, List.mem_map, List.mem_filter] at hp ⊢
        obtain ⟨x, hx, rfl⟩ := hp
        exact ⟨x, ⟨hx, by simpa using hcp⟩, rfl⟩
      rcases reportValues_vk c _ p hin hkc with h1 | h1
      · exact Or.inl (mm.sk h1)
      · exact Or.inr h1
    have hrest := (updateValues_R r hd rest _ (by rw [hm1.keys]; exact hnd)).1
    unfold updateValues at hrest
    intro to l hm p hp hcp
    rcases List.mem_cons.mp hm with e | hm
    · have e1 : to = w.1 := by rw [← e]
      have e2 : l = w.2 := by rw [← e]
      subst e1; subst e2
      exact (hest p hp hcp).mono hrest
    · exact ih _ (by rw [hm1.keys]; exact hnd) to l hm p hp hcp

/-- after resolving `done` and the two update passes, the value of every completed task is stored
    wherever it was routed as data -/
theorem values_after_updates {V} {F : Key → Nat} (r : Runner V) (hd : r.dag = true) (hs : SuccOK r)
    (hpc : PredSuccC r) (hpd : PredSuccD r) (hstart : START ∉ akeys (initChans r)) (hk : r.start.key = START)
    (cm : Chans V) (done : List (Done V)) (res : Resolved V)
    (hnd : (akeys cm).Nodup) (hsk : ∀ n c, (n, c) ∈ cm → SkOK c) (hsh : shapes cm = shapes (initChans r))
    (hq : ∀ p, skOf cm p = 1 → RP F cm p)
    (hcall : ∀ t, t ∈ done → (r.call? t.1).isSome = true)
    (h1 : resolve r cm done = .ok res) :
    ∀ t, t ∈ done → ∀ n, RoutesD r t.1 t.2 n →
      RV F (updateDeps r (updateValues r res.cm res.writes) res.deps) n t.1 := by
  obtain ⟨a1, a2, a3⟩ := resolve_R (F := F) r hd hs (predSucc_of r hpc hpd) hstart hk done
    { cm := cm, writes := [], deps := [] } res ⟨hnd, hsk, hsh, hq⟩ h1
  have hnd1 : (akeys res.cm).Nodup := a1.nd
  have u1 := (updateValues_R r hd res.writes res.cm hnd1).1
  have uv := updateValues_V r hd res.writes res.cm hnd1
  have v1 := (updateDeps_R r hd res.deps (updateValues r res.cm res.writes) (by rw [u1.keys]; exact hnd1)).1
  have hmono : Mono res.cm (updateDeps r (updateValues r res.cm res.writes) res.deps) := u1.trans v1
  have hsh2 : shapes (updateDeps r (updateValues r res.cm res.writes) res.deps) = shapes (initChans r) :=
    (reports_after_updates (F := F) r hd hs hpc hpd hstart hk cm done res hnd hsk hsh hq hcall h1).2.1
  intro t ht n ⟨nd, hcall, hroute, hdp⟩ c hc
  obtain ⟨sel, hsel, _, _, f3⟩ := a3 t ht nd hcall
  have hw : WritesHave res.writes n t.1 := by
    rcases hroute with h | ⟨sel', hs', h⟩
    · exact f3 n (List.mem_append_right _ h)
    · rw [hsel] at hs'; cases hs'
      exact f3 n (List.mem_append_left _ h)
  obtain ⟨l, hl, hp⟩ := hw
  have hkd := (chan_data_keys r hd _ hsh2 n c hc t.1).mp hdp
  rcases ((uv n l (mem_of_alookup _ _ _ hl) t.1 hp hdp).mono v1) c hc hkd with h | h
  · exact Or.inr (Or.inl h)
  · exact Or.inr (Or.inr h)

theorem getReady_src {V} (ops : ValOps V) (cm : Chans V) :
    ∀ n v, (n, v) ∈ (getReady ops true cm).2.1 →
      ∃ c, (n, c) ∈ cm ∧ c.triggered = true ∧ (c.get ops true).2 = .ready v := by
  induction cm with
  | nil => intro n v h; simp [getReady] at h
  | cons q t ih =>
    obtain ⟨k, c⟩ := q
    intro n v h
    simp only [getReady] at h
    cases hg : (c.get ops true).2 with
    | notReady =>
      simp only [hg] at h
      obtain ⟨c0, a, b⟩ := ih n v h
      exact ⟨c0, List.mem_cons_of_mem _ a, b⟩
    | mergeErr =>
      simp only [hg] at h
      obtain ⟨c0, a, b⟩ := ih n v h
      exact ⟨c0, List.mem_cons_of_mem _ a, b⟩
    | ready w =>
      simp only [hg, List.mem_cons, Prod.mk.injEq] at h
      rcases h with ⟨rfl, rfl⟩ | h
      · refine ⟨c, by simp, ?_, hg⟩
        by_cases ht : c.triggered = true
        · exact ht
        · unfold Chan.get at hg; simp [ht] at hg
      · obtain ⟨c0, a, b⟩ := ih n v h
        exact ⟨c0, List.mem_cons_of_mem _ a, b⟩

theorem getReady_RV {V} {F : Key → Nat} (ops : ValOps V) (cm : Chans V)
    (hb : (getReady ops true cm).2.2 = false) (n p : Key) (h : RV F cm n p) :
    RV (fun n => F n + (akeys (getReady ops true cm).2.1).count n) (getReady ops true cm).1 n p := by
  obtain ⟨_, _, g3⟩ := getReady_facts ops cm
  have fired := getReady_fired ops cm hb
  intro c' hc'
  obtain ⟨c, hc, hh⟩ := g3 n c' hc'
  rcases hh with ⟨ht, rfl⟩ | ⟨_, rfl, _⟩
  · left
    have := List.count_pos_iff.mpr (fired n c hc ht)
    show 1 ≤ F n + _
    omega
  · rcases h c' hc with h1 | h1 | h1
    · left
      show 1 ≤ F n + _
      omega
    · exact Or.inr (Or.inl h1)
    · exact Or.inr (Or.inr h1)

theorem round_exact {V} {F : Key → Nat} (ops : ValOps V) (r : Runner V) (hd : r.dag = true) (hs : SuccOK r)
    (hpc : PredSuccC r) (hpd : PredSuccD r) (hstart : START ∉ akeys (initChans r)) (hk : r.start.key = START)
    (cm cm' : Chans V) (done : List (Done V)) (ts : List (Key × V)) (H : List (Done V)) (OldC : Key → V → Prop)
    (hK : K r H cm) (hsh : shapes cm = shapes (initChans r))
    (hdone : ∀ t, t ∈ done → t ∈ H) (hH : ∀ p o, (p, o) ∈ H → OldC p o ∨ (p, o) ∈ done)
    (hfn : ∀ p o o', (p, o) ∈ H → (p, o') ∈ H → o = o')
    (hq : ∀ p, skOf cm p = 1 → RP F cm p)
    (hold : ∀ p o n, OldC p o → RoutesD r p o n → RV F cm n p)
    (hcall : ∀ t, t ∈ done → (r.call? t.1).isSome = true)
    (hF0 : ∀ t, t ∈ ts → F t.1 = 0)
    (h : calcNext ops r cm done = .ok (cm', .tasks ts)) :
    (∀ n v, (n, v) ∈ ts → ExactIn ops r H n v) ∧
    (∀ p o n, (p, o) ∈ H → RoutesD r p o n → RV (fun n => F n + (akeys ts).count n) cm' n p) := by
  obtain ⟨res, h1, hg, _⟩ := calcNext_unpack ops r hd cm cm' done ts h
  -- the history invariant before handing out
  obtain ⟨hr, _⟩ := resolve_K r hd hs hk done hdone { cm := cm, writes := [], deps := [] } res
    ⟨hK, hsh, fun _ _ hm => by simp at hm, fun _ _ hm => by simp at hm⟩ h1
  obtain ⟨u1, u2, _⟩ := updateValues_K r hd res.writes hr.ws res.cm hr.k hr.sh
  obtain ⟨v1, _, _⟩ := updateDeps_K r hd res.deps hr.ds _ u1 u2
  -- the stored values before handing out
  obtain ⟨m, _, _, _⟩ := reports_after_updates (F := F) r hd hs hpc hpd hstart hk cm done res hK.nd hK.sk hsh hq hcall h1
  have vnew := values_after_updates (F := F) r hd hs hpc hpd hstart hk cm done res hK.nd hK.sk hsh hq hcall h1
  have rv2 : ∀ p o n, (p, o) ∈ H → RoutesD r p o n →
      RV F (updateDeps r (updateValues r res.cm res.writes) res.deps) n p := by
    intro p o n hm hr'
    rcases hH p o hm with h' | h'
    · exact (hold p o n h' hr').mono m
    · exact vnew (p, o) h' n hr'
  have hb : (getReady ops true (updateDeps r (updateValues r res.cm res.writes) res.deps)).2.2 = false := by rw [hg]
  have e1 : (getReady ops true (updateDeps r (updateValues r res.cm res.writes) res.deps)).1 = cm' := by rw [hg]
  have e2 : (getReady ops true (updateDeps r (updateValues r res.cm res.writes) res.deps)).2.1 = ts := by rw [hg]
  refine ⟨fun n v hnv => ?_, fun p o n hm hr' => ?_⟩
  · rw [← e2] at hnv
    obtain ⟨c, hc, ht, hgv⟩ := getReady_src ops _ n v hnv
    obtain ⟨t0, _, _, _⟩ := triggered_unpack c ht
    refine ⟨c.values, fun p w => ⟨fun hw => v1.val n c hc p w hw, fun ⟨hm, hr'⟩ => ?_⟩, ?_⟩
    · rcases rv2 p w n hm hr' c hc with h' | h' | h'
      · have := hF0 (n, v) (by rw [← e2]; exact hnv)
        simp only at this
        omega
      · rw [t0] at h'; cases h'
      · obtain ⟨w', hw'⟩ := exists_of_mem_akeys _ _ h'
        have := (v1.val n c hc p w' hw').1
        rw [hfn p w w' hm this]
        exact hw'
    · unfold Chan.get at hgv
      simp only [↓reduceIte, ht] at hgv
      by_cases hv : c.values.isEmpty = true
      · simp only [hv, ↓reduceIte, GetResult.ready.injEq] at hgv
        exact Or.inl ⟨by simpa [List.isEmpty_iff] using hv, hgv.symm⟩
      · simp only [hv, Bool.false_eq_true, ↓reduceIte] at hgv
        exact Or.inr hgv
  · have := getReady_RV ops _ hb n p (rv2 p o n hm hr')
    rw [e1, e2] at this
    exact this

/-! ### the loop -/

theorem hist_functional {V} (r : Runner V) (wf : DagWF r) (x : V) (cm : Chans V) (tasks : List (Key × V)) (tr : Trace V)
    (hl : LInv r cm tasks tr) :
    ∀ p o o', (p, o) ∈ histOf r x (tasks :: tr) → (p, o') ∈ histOf r x (tasks :: tr) → o = o' := by
  intro p o o' hm hm'
  have hcnt := linv_bound r wf cm tasks tr hl p
  have hF0 : (keysOfTr (tasks :: tr)).count START = 0 := by
    by_cases h0 : 0 < (keysOfTr (tasks :: tr)).count START
    · obtain ⟨cs, ds, hmm, _⟩ := hl.pos START h0
      have := mem_akeys_of_mem START (cs, ds) _ hmm
      rw [shapes_keys] at this
      exact absurd this wf.startFresh
    · omega
  simp only [histOf, List.mem_cons, List.mem_filterMap] at hm hm'
  rcases hm with hm | ⟨t, ht, ho⟩
  · rcases hm' with hm' | ⟨t', ht', ho'⟩
    · rw [(Prod.mk.inj hm).2, (Prod.mk.inj hm').2]
    · exfalso
      have hkk := outOf_key r t' (p, o') ho'
      simp only at hkk
      have : START ∈ keysOfTr (tasks :: tr) := by
        simp only [keysOfTr, List.mem_map]
        exact ⟨t', ht', by rw [← hkk, (Prod.mk.inj hm).1]⟩
      have := List.count_pos_iff.mpr this
      omega
  · rcases hm' with hm' | ⟨t', ht', ho'⟩
    · exfalso
      have hkk := outOf_key r t (p, o) ho
      simp only at hkk
      have : START ∈ keysOfTr (tasks :: tr) := by
        simp only [keysOfTr, List.mem_map]
        exact ⟨t, ht, by rw [← hkk, (Prod.mk.inj hm').1]⟩
      have := List.count_pos_iff.mpr this
      omega
    · have k1 := outOf_key r t (p, o) ho
      have k2 := outOf_key r t' (p, o') ho'
      simp only at k1 k2
      have : t = t' := unique_by_key (tasks :: tr).flatten p (by simpa [keysOfTr, akeys] using hcnt) t t' ht ht' k1.symm k2.symm
      subst this
      rw [ho] at ho'
      exact (Prod.mk.inj (Option.some.inj ho')).2

structure XInv {V} (ops : ValOps V) (r : Runner V) (x : V) (cm : Chans V) (tasks : List (Key × V)) (tr : Trace V) : Prop where
  c : CInv ops r x cm tasks tr
  rv : ∀ p o n, (p, o) ∈ histOf r x tr → RoutesD r p o n → RV (fun n => (keysOfTr (tasks :: tr)).count n) cm n p
  ex : ExactTr ops r x (tasks :: tr)

theorem XInv_step {V} (ops : ValOps V) (r : Runner V) (wf : DagWF r) (wf2 : DagWF2 r) (sched : Sched V)
    (hf : sched.Fair) (x : V)
    (cm cm' : Chans V) (tasks ts : List (Key × V)) (tr : Trace V) (done : List (Done V))
    (h : XInv ops r x cm tasks tr) (hr : runTasks r sched tr.length tasks = .ok done)
    (hc : calcNext ops r cm done = .ok (cm', .tasks ts)) : XInv ops r x cm' ts (tasks :: tr) := by
  have hc' := CInv_step ops r wf wf2 sched hf x cm cm' tasks ts tr done h.c hr hc
  have hperm := runTasks_keys r sched hf _ _ _ hr
  have hK' : K r (histOf r x (tasks :: tr)) cm := K_mono h.c.k.k (histOf_mono r x tasks tr)
  have hdone : ∀ t, t ∈ done → t ∈ histOf r x (tasks :: tr) := by
    intro d hd
    obtain ⟨t, ht, ho⟩ := runTasks_mem r sched hf _ _ _ hr d hd
    simp only [histOf, List.mem_cons, List.flatten_cons, List.filterMap_append, List.mem_append,
      List.mem_filterMap]
    exact Or.inr (Or.inl ⟨t, ht, ho⟩)
  have hH : ∀ p o, (p, o) ∈ histOf r x (tasks :: tr) → (p, o) ∈ histOf r x tr ∨ (p, o) ∈ done := by
    intro p o hm
    simp only [histOf, List.mem_cons, List.flatten_cons, List.filterMap_append, List.mem_append,
      List.mem_filterMap] at hm
    rcases hm with hm | ⟨t, ht, ho⟩ | hm
    · left; simp [histOf, hm]
    · right; exact runTasks_all r sched hf _ _ _ hr t ht (p, o) ho
    · left
      simp only [histOf, List.mem_cons, List.mem_filterMap]
      exact Or.inr hm
  have hF0 : ∀ t, t ∈ ts → (keysOfTr (tasks :: tr)).count t.1 = 0 := by
    intro t ht
    have hb := linv_bound r wf cm' ts (tasks :: tr) hc'.l t.1
    rw [keysOfTr_cons ts, List.count_append] at hb
    have : 0 < (akeys ts).count t.1 := List.count_pos_iff.mpr (mem_akeys_of_mem t.1 t.2 _ ht)
    omega
  obtain ⟨x1, x2⟩ := round_exact (F := fun n => (keysOfTr (tasks :: tr)).count n) ops r wf.dag wf.succ wf2.pc wf2.pd
    wf.startFresh wf.startKey cm cm' done ts (histOf r x (tasks :: tr)) (fun p o => (p, o) ∈ histOf r x tr)
    hK' h.c.l.sh hdone hH (hist_functional r wf x cm tasks tr h.c.l) h.c.rq h.rv
    (by
      intro t ht
      have : t.1 ∈ tasks.map (·.1) := hperm.subset (List.mem_map.mpr ⟨t, ht, rfl⟩)
      obtain ⟨t', ht', e⟩ := List.mem_map.mp this
      rw [← e]; exact h.c.call t' ht')
    hF0 hc
  have eF : (fun n => (keysOfTr (tasks :: tr)).count n + (akeys ts).count n) =
      (fun n => (keysOfTr (ts :: tasks :: tr)).count n) := by
    funext n
    rw [keysOfTr_cons ts, List.count_append]; omega
  rw [eF] at x2
  exact ⟨hc', x2, x1, h.ex⟩

theorem XInv_start {V} (ops : ValOps V) (r : Runner V) (wf : DagWF r) (wf2 : DagWF2 r) (x : V)
    (cm' : Chans V) (ts : List (Key × V))
    (hc : calcNext ops r (initChans r) [(START, x)] = .ok (cm', .tasks ts)) : XInv ops r x cm' ts [] := by
  have hc' := CInv_start ops r wf wf2 x cm' ts hc
  have hJ0 := init_J r wf.dag wf.nodup
  have hF0 : ∀ t, t ∈ ts → (fun _ : Key => 0) t.1 = 0 := fun _ _ => rfl
  obtain ⟨x1, x2⟩ := round_exact (F := fun _ => 0) ops r wf.dag wf.succ wf2.pc wf2.pd
    wf.startFresh wf.startKey (initChans r) cm' [(START, x)] ts (histOf r x []) (fun _ _ => False)
    (init_K r wf.dag wf.nodup _) rfl
    (by intro t ht; simp only [List.mem_singleton] at ht; subst ht; simp [histOf])
    (by
      intro p o hm
      right
      simpa [histOf] using hm)
    (by
      intro p o o' hm hm'
      simp only [histOf, List.flatten_nil, List.filterMap_nil, List.mem_singleton, Prod.mk.injEq] at hm hm'
      rw [hm.2, hm'.2])
    (fun p hp => by rw [skOf_init r wf.dag p] at hp; cases hp)
    (fun p o n hf => hf.elim)
    (by
      intro t ht
      simp only [List.mem_singleton] at ht
      subst ht
      simp [Runner.call?])
    hF0 hc
  have eF : (fun n => 0 + (akeys ts).count n) = (fun n => (keysOfTr (ts :: ([] : Trace V))).count n) := by
    funext n; simp [keysOfTr, akeys]
  rw [eF] at x2
  exact ⟨hc', x2, x1, trivial⟩

theorem loop_exact {V} (ops : ValOps V) (r : Runner V) (wf : DagWF r) (wf2 : DagWF2 r) (sched : Sched V)
    (hf : sched.Fair) (x : V) :
    ∀ (fuel : Nat) (cm : Chans V) (tasks : List (Key × V)) (tr : Trace V), XInv ops r x cm tasks tr →
      ExactTr ops r x (loop ops r sched fuel cm tasks tr).trace.reverse := by
  intro fuel
  induction fuel with
  | zero =>
    intro cm tasks tr h
    simp only [loop, List.reverse_reverse]
    exact h.ex.2
  | succ f ih =>
    intro cm tasks tr h
    unfold loop
    simp only
    cases hr : runTasks r sched tr.length tasks with
    | error e => simp only [List.reverse_reverse]; exact h.ex
    | ok done =>
      simp only
      by_cases he : done.isEmpty = true
      · simp only [he, ↓reduceIte, List.reverse_reverse]; exact h.ex
      · simp only [he, Bool.false_eq_true, ↓reduceIte]
        cases hc : calcNext ops r cm done with
        | error e => simp only [List.reverse_reverse]; exact h.ex
        | ok res =>
          obtain ⟨cm', nx⟩ := res
          cases nx with
          | result v => simp only [List.reverse_reverse]; exact h.ex
          | tasks ts =>
            simp only
            exact ih cm' ts (tasks :: tr) (XInv_step ops r wf wf2 sched hf x cm cm' tasks ts tr done h hr hc)

/-- **the input is exact.** In a run of a well-formed acyclic all-predecessor runner, under any
    fair completion schedule, the input of every task is the zero value / the single value / the
    merge of the outputs of *exactly* those data predecessors that completed in older steps and
    routed to it. -/
theorem run_exact {V} (ops : ValOps V) (r : Runner V) (wf : DagWF r) (wf2 : DagWF2 r) (sched : Sched V)
    (hf : sched.Fair) (x : V) : ExactTr ops r x (runS ops r sched x).trace.reverse := by
  unfold runS
  cases hc : calcNext ops r (initChans r) [(START, x)] with
  | error e => exact trivial
  | ok res =>
    obtain ⟨cm', nx⟩ := res
    cases nx with
    | result v => exact trivial
    | tasks ts =>
      simp only
      exact loop_exact ops r wf wf2 sched hf x _ cm' ts [] (XInv_start ops r wf wf2 x cm' ts hc)

end DagRun
end EinoV.Engine
