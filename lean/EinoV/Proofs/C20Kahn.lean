/-
  validateDAG (Kahn's loop with Go's random map order): its verdict is `true` exactly when
  every node can be scheduled – an order-free, inductive characterisation of acyclicity.
-/
import EinoV.Proofs.C20Sim

namespace EinoV.Build

/-! ### the counter map -/

theorem mSet_keys (m : List (Key × Int)) (k : Key) (v : Int) : (mSet m k v).map (·.1) = m.map (·.1) := by
  induction m with
  | nil => rfl
  | cons p m ih =>
    obtain ⟨x, w⟩ := p
    simp only [mSet]
    split
    · rename_i h; simp [h]
    · simp [ih]

theorem mGet_mSet_ne (m : List (Key × Int)) (k k' : Key) (v : Int) (h : k' ≠ k) :
    mGet (mSet m k v) k' = mGet m k' := by
  induction m with
  | nil => rfl
  | cons p m ih =>
    obtain ⟨x, w⟩ := p
    simp only [mSet]
    by_cases hx : x = k
    · subst hx
      have : ¬ x = k' := fun e => h e.symm
      simp [mGet, this]
    · simp only [hx, ↓reduceIte, mGet]
      split
      · rfl
      · exact ih

theorem mGet_mSet_self (m : List (Key × Int)) (k : Key) (v : Int) :
    mGet (mSet m k v) k = (mGet m k).map (fun _ => v) := by
  induction m with
  | nil => rfl
  | cons p m ih =>
    obtain ⟨x, w⟩ := p
    simp only [mSet]
    by_cases hx : x = k
    · simp [hx, mGet]
    · simp [hx, mGet, ih]

theorem mDecAll_keys (m : List (Key × Int)) (xs : List Key) : (mDecAll m xs).map (·.1) = m.map (·.1) := by
  induction xs generalizing m with
  | nil => rfl
  | cons x xs ih =>
    simp only [mDecAll]
    split
    · exact ih m
    · split
      · rw [ih, mSet_keys]
      · exact ih m

/-- after decrementing along `xs`, a counter has lost one unit per occurrence of its key
    (occurrences of END are skipped) -/
theorem mGet_mDecAll (m : List (Key × Int)) (xs : List Key) (n : Key) :
    mGet (mDecAll m xs) n = (mGet m n).map (fun (v : Int) => v - (((xs.filter (· ≠ END)).count n : Nat) : Int)) := by
  induction xs generalizing m with
  | nil => rcases h : mGet m n with _ | v <;> simp [mDecAll, h]
  | cons x xs ih =>
    simp only [mDecAll]
    by_cases hx : x = END
    · simp only [hx, ↓reduceIte]
      rw [ih]
      simp
    · simp only [hx, ↓reduceIte]
      have hf : (x :: xs).filter (· ≠ END) = x :: xs.filter (· ≠ END) := by simp [hx]
      rw [hf]
      rcases hg : mGet m x with _ | v
      · simp only
        rw [ih]
        by_cases hn : x = n
        · subst hn; simp [hg]
        · simp [List.count_cons, hn]
      · simp only
        rw [ih]
        by_cases hn : x = n
        · subst hn
          rw [mGet_mSet_self, hg]
          simp only [Option.map_some, List.count_cons_self]
          congr 1
          push_cast
          omega
        · rw [mGet_mSet_ne _ _ _ _ (fun e => hn e.symm)]
          simp [List.count_cons, hn]


/-! ### predecessors and successors count each other -/

theorem count_filter_ne {l : List Key} {n x : Key} (h : n ≠ x) : (l.filter (· ≠ x)).count n = l.count n := by
  induction l with
  | nil => rfl
  | cons y ys ih =>
    by_cases hy : y = x
    · subst hy
      have : ¬ y = n := fun e => h e.symm
      rw [List.filter_cons]
      simp only [ne_eq, not_true_eq_false, decide_false, Bool.false_eq_true, ↓reduceIte]
      rw [ih, List.count_cons]
      simp [this]
    · rw [List.filter_cons]
      simp only [ne_eq, hy, not_false_eq_true, decide_true, ↓reduceIte]
      rw [List.count_cons, List.count_cons, ih]

theorem count_edges_dual (ce : List (Key × Key)) (k n : Key) :
    ((ce.filter (·.1 = k)).map (·.2)).count n = ((ce.filter (·.2 = n)).map (·.1)).count k := by
  induction ce with
  | nil => rfl
  | cons p ce ih =>
    obtain ⟨a, c⟩ := p
    by_cases h1 : a = k <;> by_cases h2 : c = n <;> simp [List.filter_cons, h1, h2, List.count_cons, ih]

theorem count_const_map (l : List Key) (k x : Key) :
    (l.map (fun _ => x)).count k = if x = k then l.length else 0 := by
  induction l with
  | nil => simp
  | cons y ys ih =>
    rw [List.map_cons, List.count_cons, ih]
    by_cases h : x = k <;> simp [h]

theorem count_eq_length_filter (l : List Key) (n : Key) : l.count n = (l.filter (· = n)).length := by
  induction l with
  | nil => rfl
  | cons y ys ih =>
    by_cases h : y = n <;> simp [List.count_cons, h, ih]

theorem count_branches_dual (brs : List BranchRec) (k n : Key) :
    ((brs.filter (·.src = k)).flatMap (·.ends)).count n =
    (brs.flatMap (fun br => (br.ends.filter (· = n)).map (fun _ => br.src))).count k := by
  induction brs with
  | nil => rfl
  | cons br brs ih =>
    simp only [List.flatMap_cons, List.count_append, count_const_map]
    by_cases h : br.src = k
    · simp [List.filter_cons, h, List.count_append, ih, count_eq_length_filter]
    · simp [List.filter_cons, h, ih]

theorem succ_pred_dual (b : Builder) (k n : Key) (hn : n ≠ END) :
    ((b.ctrlSucc k).filter (· ≠ END)).count n = (b.ctrlPred n).count k := by
  rw [count_filter_ne hn]
  unfold Builder.ctrlSucc Builder.ctrlPred
  rw [List.count_append, List.count_append, count_edges_dual, count_branches_dual]


/-! ### the invariant of Kahn's loop -/

/-- the node has been taken out (its counter was set to -1, and may have gone further down) -/
def isDone (m : List (Key × Int)) (p : Key) : Bool :=
  match mGet m p with
  | some v => decide (v < 0)
  | none => false

/-- a predecessor that still holds its successors back -/
def livePred (m : List (Key × Int)) (p : Key) : Bool := p != START && !isDone m p

def cnt (b : Builder) (m : List (Key × Int)) (n : Key) : Nat := ((b.ctrlPred n).filter (livePred m)).length

/-- a node can be scheduled: it is a node, and each of its control predecessors – other than
    START – can.  (Inductive: no infinite descending chain of predecessors, i.e. no cycle
    reaches the node; a predecessor that is not a node blocks it forever.) -/
inductive Sched (b : Builder) : Key → Prop
  | intro {k : Key} : b.hasNode k = true → (∀ p ∈ b.ctrlPred k, p ≠ START → Sched b p) → Sched b k

structure KI (b : Builder) (m : List (Key × Int)) : Prop where
  keys : m.map (·.1) = b.nodes.map (·.key)
  cnt : ∀ n v, mGet m n = some v → 0 ≤ v → v = (cnt b m n : Int)
  sched : ∀ k, isDone m k = true → Sched b k

theorem mGet_some_mem {m : List (Key × Int)} {k : Key} {v : Int} (h : mGet m k = some v) : k ∈ m.map (·.1) := by
  induction m with
  | nil => simp [mGet] at h
  | cons p m ih =>
    obtain ⟨x, w⟩ := p
    simp only [mGet] at h
    by_cases hx : x = k
    · simp [hx]
    · simp only [hx, ↓reduceIte] at h
      simp only [List.map_cons, List.mem_cons]
      exact Or.inr (ih h)

theorem findNode_isSome_of_mem (ns : List Node) (n : Node) (hn : n ∈ ns) : (findNode ns n.key).isSome = true := by
  induction ns with
  | nil => simp at hn
  | cons x xs ih =>
    simp only [findNode]
    by_cases hx : x.key = n.key
    · simp [hx]
    · simp only [hx, ↓reduceIte]
      rcases List.mem_cons.mp hn with e | e
      · subst e; exact absurd rfl hx
      · exact ih e

theorem hasNode_of_key {b : Builder} {k : Key} (h : k ∈ b.nodes.map (·.key)) : b.hasNode k = true := by
  obtain ⟨n, hn, rfl⟩ := List.mem_map.mp h
  exact findNode_isSome_of_mem b.nodes n hn

theorem filter_and_ne_length (l : List Key) (q : Key → Bool) (k : Key) (hq : q k = true) :
    (l.filter (fun p => q p && p != k)).length + l.count k = (l.filter q).length := by
  induction l with
  | nil => rfl
  | cons y ys ih =>
    by_cases hy : y = k
    · subst hy
      have e1 : (y :: ys).filter (fun p => q p && p != y) = ys.filter (fun p => q p && p != y) := by
        rw [List.filter_cons]; simp
      have e2 : (y :: ys).filter q = y :: ys.filter q := by rw [List.filter_cons]; simp [hq]
      rw [e1, e2, List.count_cons_self, List.length_cons]
      omega
    · have hne : (y != k) = true := by simpa using hy
      have e3 : (y :: ys).count k = ys.count k := by
        rw [List.count_cons]; simp [hy]
      by_cases hqy : q y = true
      · have e1 : (y :: ys).filter (fun p => q p && p != k) = y :: ys.filter (fun p => q p && p != k) := by
          rw [List.filter_cons]; simp [hqy, hne]
        have e2 : (y :: ys).filter q = y :: ys.filter q := by rw [List.filter_cons]; simp [hqy]
        rw [e1, e2, e3, List.length_cons, List.length_cons]; omega
      · have e1 : (y :: ys).filter (fun p => q p && p != k) = ys.filter (fun p => q p && p != k) := by
          rw [List.filter_cons]; simp [hqy]
        have e2 : (y :: ys).filter q = ys.filter q := by rw [List.filter_cons]; simp [hqy]
        rw [e1, e2, e3]; exact ih

/-- taking out a node whose counter is 0 keeps the invariant -/
theorem proc_step (b : Builder) (hk : KeysOK b) (m : List (Key × Int)) (k : Key) (hi : KI b m)
    (h0 : mGet m k = some 0) :
    let m' := mSet (mDecAll m (b.ctrlSucc k)) k (-1)
    KI b m' ∧ (∀ p, isDone m' p = (isDone m p || p == k)) := by
  intro m'
  have hkmem : k ∈ b.nodes.map (·.key) := by rw [← hi.keys]; exact mGet_some_mem h0
  obtain ⟨nk, hnk, hnkk⟩ := List.mem_map.mp hkmem
  have hkS : k ≠ START := by rw [← hnkk]; exact (hk.nores nk hnk).1
  have hkE : k ≠ END := by rw [← hnkk]; exact (hk.nores nk hnk).2
  have hkdone : isDone m k = false := by simp [isDone, h0]
  have hklive : livePred m k = true := by simp [livePred, hkS, hkdone]
  -- counters of the other nodes
  have hget : ∀ p, p ≠ k → mGet m' p =
      (mGet m p).map (fun (v : Int) => v - (((b.ctrlPred p).count k : Nat) : Int)) := by
    intro p hp
    show mGet (mSet (mDecAll m (b.ctrlSucc k)) k (-1)) p = _
    rw [mGet_mSet_ne _ _ _ _ hp, mGet_mDecAll]
    by_cases hpE : p = END
    · have : mGet m p = none := by
        rcases hg : mGet m p with _ | v
        · rfl
        · have hmem := mGet_some_mem hg
          rw [hi.keys] at hmem
          obtain ⟨np, hnp, hnpk⟩ := List.mem_map.mp hmem
          exact absurd (hnpk.trans hpE) (hk.nores np hnp).2
      simp [this]
    · rw [succ_pred_dual b k p hpE]
  have hgetk : mGet m' k = some (-1) := by
    show mGet (mSet (mDecAll m (b.ctrlSucc k)) k (-1)) k = _
    rw [mGet_mSet_self, mGet_mDecAll, h0]; rfl
  have hle : ∀ p, (b.ctrlPred p).count k ≤ cnt b m p := by
    intro p
    unfold cnt
    have := filter_and_ne_length (b.ctrlPred p) (livePred m) k hklive
    omega
  have hdone : ∀ p, isDone m' p = (isDone m p || p == k) := by
    intro p
    by_cases hp : p = k
    · subst hp; simp [isDone, hgetk]
    · have hpk : (p == k) = false := by simpa using hp
      rw [hpk, Bool.or_false]
      unfold isDone
      rw [hget p hp]
      rcases hg : mGet m p with _ | v
      · rfl
      · simp only [Option.map_some]
        by_cases hv : v < 0
        · have : v - (((b.ctrlPred p).count k : Nat) : Int) < 0 := by omega
          simp [hv, this]
        · have hv' : 0 ≤ v := by omega
          have := hi.cnt p v hg hv'
          have := hle p
          have : ¬ v - (((b.ctrlPred p).count k : Nat) : Int) < 0 := by omega
          simp [hv, this]
  have hlive : ∀ p, livePred m' p = (livePred m p && p != k) := by
    intro p
    unfold livePred
    rw [hdone p]
    cases (p != START) <;> cases (isDone m p) <;> cases hpk : (p == k) <;> simp [bne, hpk]
  have hcnt : ∀ n, cnt b m' n + (b.ctrlPred n).count k = cnt b m n := by
    intro n
    unfold cnt
    have : (b.ctrlPred n).filter (livePred m') = (b.ctrlPred n).filter (fun p => livePred m p && p != k) := by
      congr 1; funext p; exact hlive p
    rw [this]
    exact filter_and_ne_length _ _ k hklive
  refine ⟨⟨?_, ?_, ?_⟩, hdone⟩
  · show (mSet (mDecAll m (b.ctrlSucc k)) k (-1)).map (·.1) = _
    rw [mSet_keys, mDecAll_keys]; exact hi.keys
  · intro n v' hg' hv'
    by_cases hn : n = k
    · subst hn; rw [hgetk] at hg'; simp at hg'; omega
    · rw [hget n hn] at hg'
      rcases hg : mGet m n with _ | v
      · rw [hg] at hg'; simp at hg'
      · rw [hg] at hg'
        simp only [Option.map_some, Option.some.injEq] at hg'
        have hv : 0 ≤ v := by omega
        have e1 := hi.cnt n v hg hv
        have e2 := hcnt n
        omega
  · intro p hp
    rw [hdone p] at hp
    by_cases hpk : p = k
    · subst hpk
      refine Sched.intro (hasNode_of_key hkmem) ?_
      intro q hq hqS
      apply hi.sched
      -- the counter of p is 0: none of its predecessors is live
      have hc0 : cnt b m p = 0 := by
        have := hi.cnt p 0 h0 (by omega)
        omega
      unfold cnt at hc0
      have hnil : (b.ctrlPred p).filter (livePred m) = [] := List.eq_nil_of_length_eq_zero hc0
      have hnl : livePred m q = false := by
        rcases hl : livePred m q
        · rfl
        · have : q ∈ (b.ctrlPred p).filter (livePred m) := List.mem_filter.mpr ⟨hq, hl⟩
          rw [hnil] at this; simp at this
      unfold livePred at hnl
      have hqS' : (q != START) = true := by simpa using hqS
      simpa [hqS'] using hnl
    · have : (p == k) = false := by simpa using hpk
      rw [this, Bool.or_false] at hp
      exact hi.sched p hp


/-! ### rounds, the loop, the verdict -/

def liveN (b : Builder) (m : List (Key × Int)) : Nat :=
  ((b.nodes.map (·.key)).filter (fun k => !isDone m k)).length

theorem filter_shrinks (l : List Key) (d d' : Key → Bool) (k : Key) (hk : k ∈ l) (hd : d k = false)
    (hd' : ∀ p, d' p = (d p || p == k)) :
    (l.filter (fun p => !d' p)).length < (l.filter (fun p => !d p)).length := by
  induction l with
  | nil => simp at hk
  | cons y ys ih =>
    have hmono : ∀ (zs : List Key), (zs.filter (fun p => !d' p)).length ≤ (zs.filter (fun p => !d p)).length := by
      intro zs
      induction zs with
      | nil => simp
      | cons z zs ihz =>
        rw [List.filter_cons, List.filter_cons, hd' z]
        cases hdz : d z <;> cases hzk : (z == k) <;> simp <;> omega
    rw [List.filter_cons, List.filter_cons, hd' y]
    by_cases hy : y = k
    · subst hy
      simp only [hd, beq_self_eq_true, Bool.or_true, Bool.not_true, Bool.false_eq_true, ↓reduceIte,
        Bool.not_false, List.length_cons]
      have := hmono ys; omega
    · have hk' : k ∈ ys := by
        rcases List.mem_cons.mp hk with e | e
        · exact absurd e.symm hy
        · exact e
      have hyk : (y == k) = false := by simpa using hy
      have := ih hk'
      cases hdy : d y <;> simp [hyk] <;> omega

theorem kahnRound_spec (b : Builder) (hk : KeysOK b) :
    ∀ (ks : List Key) (m : List (Key × Int)) (ch : Bool) m' ch', KI b m → kahnRound b ks m ch = (m', ch') →
      KI b m' ∧ (ch = true → ch' = true) ∧ liveN b m' ≤ liveN b m ∧
      (ch = false → ch' = true → liveN b m' < liveN b m) ∧
      (ch' = false → m' = m ∧ ∀ k ∈ ks, mGet m k ≠ some 0) := by
  intro ks
  induction ks with
  | nil =>
    intro m ch m' ch' hi h
    simp only [kahnRound, Prod.mk.injEq] at h
    obtain ⟨rfl, rfl⟩ := h
    exact ⟨hi, fun h => h, Nat.le_refl _, fun h1 h2 => by rw [h1] at h2; simp at h2, fun _ => ⟨rfl, by simp⟩⟩
  | cons k ks ih =>
    intro m ch m' ch' hi h
    simp only [kahnRound] at h
    by_cases h0 : mGet m k = some 0
    · simp only [h0, ↓reduceIte] at h
      obtain ⟨hi1, hdone⟩ := proc_step b hk m k hi h0
      have hkmem : k ∈ b.nodes.map (·.key) := by rw [← hi.keys]; exact mGet_some_mem h0
      have hlt : liveN b (mSet (mDecAll m (b.ctrlSucc k)) k (-1)) < liveN b m :=
        filter_shrinks _ (isDone m) _ k hkmem (by simp [isDone, h0]) hdone
      obtain ⟨a1, a2, a3, _, a5⟩ := ih _ true m' ch' hi1 h
      have hct : ch' = true := a2 rfl
      refine ⟨a1, fun _ => hct, by omega, fun _ _ => by omega, fun hf => by rw [hct] at hf; simp at hf⟩
    · simp only [h0, ↓reduceIte] at h
      obtain ⟨a1, a2, a3, a4, a5⟩ := ih m ch m' ch' hi h
      refine ⟨a1, a2, a3, a4, fun hf => ?_⟩
      obtain ⟨e1, e2⟩ := a5 hf
      refine ⟨e1, ?_⟩
      intro x hx
      rcases List.mem_cons.mp hx with e | e
      · subst e; exact h0
      · exact e2 x e

theorem kahnLoop_spec (b : Builder) (hk : KeysOK b) (ord : Ord)
    (hv : ∀ m l, (ord.kahn m l).Perm l) :
    ∀ (fuel : Nat) (m : List (Key × Int)), KI b m → liveN b m < fuel →
      KI b (kahnLoop b ord fuel m) ∧ ∀ k ∈ b.nodes.map (·.key), mGet (kahnLoop b ord fuel m) k ≠ some 0 := by
  intro fuel
  induction fuel with
  | zero => intro m _ h; omega
  | succ n ih =>
    intro m hi hlt
    simp only [kahnLoop]
    rcases hr : kahnRound b (ord.kahn m (m.map (·.1))) m false with ⟨m1, ch⟩
    obtain ⟨a1, _, a3, a4, a5⟩ := kahnRound_spec b hk _ m false m1 ch hi hr
    rw [hr]
    cases hch : ch
    · simp only [Bool.false_eq_true, ↓reduceIte]
      obtain ⟨e1, e2⟩ := a5 hch
      subst e1
      refine ⟨hi, fun k hkm => e2 k ?_⟩
      exact ((hv m1 _).mem_iff).mpr (by rw [hi.keys]; exact hkm)
    · simp only [↓reduceIte]
      have := a4 rfl hch
      exact ih m1 a1 (by omega)


theorem mGet_map_nodes (ns : List Node) (g : Key → Int) (n : Key) :
    mGet (ns.map (fun x => (x.key, g x.key))) n = if (findNode ns n).isSome then some (g n) else none := by
  induction ns with
  | nil => rfl
  | cons x xs ih =>
    simp only [List.map_cons, mGet, findNode]
    by_cases hx : x.key = n
    · simp [hx]
    · simp only [hx, ↓reduceIte]; exact ih

theorem length_sub_countP (l : List Key) :
    ((l.length : Int) - ((countP (· = START) l : Nat) : Int)) = ((l.filter (fun p => p != START)).length : Int) := by
  induction l with
  | nil => simp [countP]
  | cons y ys ih =>
    by_cases hy : y = START
    · simp only [hy, countP, decide_true, ↓reduceIte, List.length_cons, List.filter_cons, bne_self_eq_false,
        Bool.false_eq_true]
      push_cast; omega
    · have : (y != START) = true := by simpa using hy
      simp only [countP, hy, decide_false, Bool.false_eq_true, ↓reduceIte, List.length_cons, List.filter_cons, this]
      push_cast; omega

theorem countP_le_length (p : Key → Bool) (l : List Key) : countP p l ≤ l.length := by
  induction l with
  | nil => simp [countP]
  | cons y ys ih => simp only [countP, List.length_cons]; split <;> omega

theorem kahnInit_eq (b : Builder) :
    kahnInit b = b.nodes.map (fun x => (x.key,
      ((b.ctrlPred x.key).length : Int) - ((countP (· = START) (b.ctrlPred x.key) : Nat) : Int))) := rfl

theorem KI_init (b : Builder) : KI b (kahnInit b) := by
  have hget : ∀ n, mGet (kahnInit b) n =
      if (findNode b.nodes n).isSome then
        some (((b.ctrlPred n).length : Int) - ((countP (· = START) (b.ctrlPred n) : Nat) : Int)) else none := by
    intro n
    rw [kahnInit_eq]
    exact mGet_map_nodes b.nodes (fun k => ((b.ctrlPred k).length : Int) - ((countP (· = START) (b.ctrlPred k) : Nat) : Int)) n
  have hnd : ∀ p, isDone (kahnInit b) p = false := by
    intro p
    unfold isDone
    rw [hget p]
    split
    · rename_i v hv
      split at hv
      · simp only [Option.some.injEq] at hv
        have := countP_le_length (· = START) (b.ctrlPred p)
        simp only [decide_eq_false_iff_not, Int.not_lt]
        omega
      · simp at hv
    · rfl
  refine ⟨by rw [kahnInit_eq]; simp [List.map_map, Function.comp_def], ?_, fun k hk => by rw [hnd k] at hk; simp at hk⟩
  intro n v hg _
  rw [hget n] at hg
  split at hg
  · simp only [Option.some.injEq] at hg
    rw [← hg, length_sub_countP]
    unfold cnt
    congr 2
    apply List.filter_congr
    intro p _
    simp [livePred, hnd p]
  · simp at hg

theorem mGet_of_mem_nodup {m : List (Key × Int)} (hn : (m.map (·.1)).Nodup) {k : Key} {v : Int} (h : (k, v) ∈ m) :
    mGet m k = some v := by
  induction m with
  | nil => simp at h
  | cons p m ih =>
    obtain ⟨x, w⟩ := p
    simp only [List.map_cons, List.nodup_cons] at hn
    simp only [mGet]
    rcases List.mem_cons.mp h with e | e
    · simp only [Prod.mk.injEq] at e; simp [e.1, e.2]
    · have hne : x ≠ k := by
        intro e2; exact hn.1 (by rw [e2]; exact List.mem_map_of_mem (f := (·.1)) e)
      simp only [hne, ↓reduceIte]
      exact ih hn.2 e

theorem mGet_of_key_mem {m : List (Key × Int)} {k : Key} (h : k ∈ m.map (·.1)) : ∃ v, mGet m k = some v := by
  induction m with
  | nil => simp at h
  | cons p m ih =>
    obtain ⟨x, w⟩ := p
    simp only [mGet]
    by_cases hx : x = k
    · exact ⟨w, by simp [hx]⟩
    · simp only [hx, ↓reduceIte]
      simp only [List.map_cons, List.mem_cons] at h
      rcases h with e | e
      · exact absurd e.symm hx
      · exact ih e

/-- **kahn_sound / kahn_complete.**  Whatever order Go's map iteration takes in
    `validateDAG`, its verdict is "valid" exactly when every node of the graph can be
    scheduled (`Sched`: all its control predecessors other than START can, inductively) –
    i.e. exactly when no cycle of control edges / branch targets reaches any node. -/
theorem validateDAG_iff (b : Builder) (hk : KeysOK b) (ord : Ord) (hv : ∀ m l, (ord.kahn m l).Perm l) :
    validateDAG b ord = true ↔ ∀ k ∈ b.nodes.map (·.key), Sched b k := by
  have hli : liveN b (kahnInit b) < b.nodes.length + 1 := by
    unfold liveN
    have := List.length_filter_le (fun k => !isDone (kahnInit b) k) (b.nodes.map (·.key))
    simp only [List.length_map] at this
    omega
  obtain ⟨hi, hfix⟩ := kahnLoop_spec b hk ord hv (b.nodes.length + 1) (kahnInit b) (KI_init b) hli
  unfold validateDAG
  generalize kahnLoop b ord (b.nodes.length + 1) (kahnInit b) = mf at hi hfix ⊢
  have hnd : (mf.map (·.1)).Nodup := by rw [hi.keys]; exact hk.nodup
  -- at the fixpoint every schedulable node has been taken out
  have hB : ∀ k, Sched b k → isDone mf k = true := by
    intro k hs
    induction hs with
    | @intro k hnode _ ih =>
      have hkm : k ∈ b.nodes.map (·.key) := by
        unfold Builder.hasNode at hnode
        rcases hf : findNode b.nodes k with _ | n
        · rw [hf] at hnode; simp at hnode
        · obtain ⟨h1, h2⟩ := findNode_mem hf
          exact List.mem_map.mpr ⟨n, h1, h2⟩
      obtain ⟨v, hv'⟩ := mGet_of_key_mem (m := mf) (by rw [hi.keys]; exact hkm)
      by_cases hneg : v < 0
      · simp [isDone, hv', hneg]
      · exfalso
        have hv0 : 0 ≤ v := by omega
        have hc := hi.cnt k v hv' hv0
        have hz : cnt b mf k = 0 := by
          unfold cnt
          apply List.length_eq_zero_iff.mpr
          apply List.filter_eq_nil_iff.mpr
          intro p hp
          unfold livePred
          by_cases hpS : p = START
          · simp [hpS]
          · have := ih p hp hpS
            simp [this]
        rw [hz] at hc
        exact hfix k hkm (by rw [hv', hc]; rfl)
  constructor
  · intro hall k hkm
    obtain ⟨v, hv'⟩ := mGet_of_key_mem (m := mf) (by rw [hi.keys]; exact hkm)
    apply hi.sched
    have hmem : (k, v) ∈ mf := by
      clear hall hB hfix hi hnd
      induction mf with
      | nil => simp [mGet] at hv'
      | cons p m ih =>
        obtain ⟨x, w⟩ := p
        simp only [mGet] at hv'
        by_cases hx : x = k
        · simp only [hx, ↓reduceIte, Option.some.injEq] at hv'
          subst hx; subst hv'; exact List.mem_cons_self
        · simp only [hx, ↓reduceIte] at hv'
          exact List.mem_cons_of_mem _ (ih hv')
    have hle : v ≤ 0 := by
      have := (List.all_eq_true.mp hall) (k, v) hmem
      simpa using this
    have hne : v ≠ 0 := fun e => hfix k hkm (by rw [hv', e])
    have : v < 0 := by omega
    simp [isDone, hv', this]
  · intro hs
    apply List.all_eq_true.mpr
    intro p hp
    obtain ⟨k, v⟩ := p
    have hg := mGet_of_mem_nodup hnd hp
    have hkm : k ∈ b.nodes.map (·.key) := by rw [← hi.keys]; exact mGet_some_mem hg
    have hd := hB k (hs k hkm)
    unfold isDone at hd
    rw [hg] at hd
    simp only [decide_eq_true_eq] at hd ⊢
    omega

/-- the verdict does not depend on the iteration order -/
theorem validateDAG_order_free (b : Builder) (hk : KeysOK b) (ord ord' : Ord)
    (hv : ∀ m l, (ord.kahn m l).Perm l) (hv' : ∀ m l, (ord'.kahn m l).Perm l) :
    validateDAG b ord = validateDAG b ord' := by
  have h1 := validateDAG_iff b hk ord hv
  have h2 := validateDAG_iff b hk ord' hv'
  cases e1 : validateDAG b ord <;> cases e2 : validateDAG b ord'
  · rfl
  · exact absurd (h1.mpr (h2.mp e2)) (by rw [e1]; simp)
  · exact absurd (h2.mpr (h1.mp e1)) (by rw [e2]; simp)
  · rfl


/-! ### cycles -/

/-- `q` is a proper ancestor of `k` along control edges / branch targets (START excluded) -/
inductive PredTC (b : Builder) : Key → Key → Prop
  | base {p k : Key} : p ∈ b.ctrlPred k → p ≠ START → PredTC b p k
  | step {q p k : Key} : PredTC b q p → p ∈ b.ctrlPred k → p ≠ START → PredTC b q k

theorem PredTC.trans {b : Builder} {a c d : Key} (h1 : PredTC b a c) (h2 : PredTC b c d) : PredTC b a d := by
  induction h2 with
  | base hp hs => exact PredTC.step h1 hp hs
  | step _ hp hs ih => exact PredTC.step ih hp hs

/-- a schedulable node lies on no cycle -/
theorem Sched.no_cycle {b : Builder} {k : Key} (h : Sched b k) : ¬ PredTC b k k := by
  induction h with
  | @intro k _ _ ih =>
    intro hc
    cases hc with
    | base hp hs => exact ih k hp hs (PredTC.base hp hs)
    | step hqp hp hs => exact ih _ hp hs (PredTC.trans (PredTC.base hp hs) hqp)

end EinoV.Build
