/-
  gotrans phase 4 — the step function.  The functions of compose/graph_run.go translated on every run into
  Gen/TransStep.lean (copyItem, runner.calculateBranch, resolveCompletedTasks, createTasks,
  calculateNextTasks; value mode) compute the model's `calcBranch`, `resolve`, `calcNext` (Model/Engine.lean)
  and never leave the translated semantics (no `GoOutcome.panic` / `.unspecified`) — for `isStream = false`,
  for all runners / channel-manager states / completed-task lists related as stated below.
-/
import EinoV.Gen.TransStep
import EinoV.Proofs.GoLoop
import EinoV.Proofs.TransMgr
import EinoV.Proofs.TransMgrInit
namespace EinoV.TransStep
open EinoV.GoSem EinoV.Engine EinoV.Gen.TransMgr EinoV.Gen.TransStep EinoV.TransMgr EinoV.GoWorkList
variable {V : Type} [Inhabited V]
set_option linter.unusedSectionVars false
set_option linter.unusedSimpArgs false

/-! ### `copyItem` (value mode): fewer than two copies ↦ the item itself, otherwise n copies -/

theorem goInRange_append {α} (pre : List α) (x : α) (rest : List α) :
    goInRange (pre ++ x :: rest) (pre.length : Int) = true := by
  simp [goInRange]; omega

theorem goSetIdx_append {α} (pre : List α) (x y : α) (rest : List α) :
    goSetIdx (pre ++ x :: rest) (pre.length : Int) y = pre ++ y :: rest := by
  simp [goSetIdx]

theorem copy_loop {R : Type} (item : V) (p : R) (suffix : List V) :
    ∀ (pre suffix' : List V) (k : Int), k = pre.length → suffix'.length = suffix.length →
    goLoop (fun (i : Int) (s : Option R × List V) =>
        if (!goInRange s.snd i) = true then ForInStep.done (some p, s.snd)
        else ForInStep.yield (none, goSetIdx s.snd i item))
      ((goEnumFrom k suffix).map (·.1)) (none, pre ++ suffix') = (none, pre ++ List.replicate suffix.length item) := by
  induction suffix with
  | nil => intro pre s' k _ hl; cases s' <;> simp_all [goEnumFrom, goLoop]
  | cons a l ih =>
    intro pre s' k hk hl
    cases s' with
    | nil => simp at hl
    | cons b l' =>
      subst hk
      simp only [goEnumFrom, List.map_cons, goLoop, goInRange_append, goSetIdx_append, Bool.not_true, Bool.false_eq_true, if_false]
      have := ih (pre ++ [item]) l' ((pre.length : Int) + 1) (by simp) (by simpa using hl)
      simp only [List.append_assoc, List.singleton_append] at this
      rw [this]; simp [List.replicate_succ]

theorem copyItem_spec (ext : Ext V) (mext : MgrExt V) (sext : StepExt V) (item : V) (n : Int) :
    copyItem ext mext sext item n = .ret (if n < 2 then [item] else List.replicate n.toNat item) := by
  unfold copyItem
  simp only [forIn_id, Id.run, bind, pure]
  by_cases h : n < 2
  · simp [h]
  · have h0 : ¬ n < 0 := by omega
    simp only [h, h0, decide_false, Bool.false_eq_true, if_false]
    have := copy_loop (R := GoOutcome (List V)) item GoOutcome.panic (goMake n (default : V)) [] (goMake n default) 0 rfl rfl
    simp only [List.nil_append] at this
    unfold goIndices goEnum
    rw [this]
    simp [goMake]

/-! ### Go maps used as sets: insertion order, deletion -/

def insKeys (m : GoMap Unit) (l : List Key) : GoMap Unit := l.foldl (fun m k => m.set k ()) m

theorem akeys_aset_unit (m : GoMap Unit) (k : Key) :
    akeys (aset k () m) = if k ∈ akeys m then akeys m else akeys m ++ [k] := by
  induction m with
  | nil => simp [aset, akeys]
  | cons p m ih =>
    simp only [aset, akeys, List.map_cons, List.mem_cons] at ih ⊢
    by_cases h : (p.1 == k) = true
    · have : p.1 = k := by simpa using h
      simp [h, this]
    · have hne : ¬ k = p.1 := fun e => h (by simp [e])
      simp only [h, Bool.false_eq_true, if_false, List.map_cons, ih, hne, false_or]
      split <;> simp [*]

theorem eraseDups_of_nodup (l : List Key) (h : l.Nodup) : l.eraseDups = l := by
  induction l with
  | nil => rfl
  | cons a l ih =>
    rw [List.eraseDups_cons]
    have ha : a ∉ l := (List.nodup_cons.mp h).1
    have : l.filter (fun b => !b == a) = l := by
      rw [List.filter_eq_self]; intro b hb; simp; intro e; exact ha (e ▸ hb)
    rw [this, ih (List.nodup_cons.mp h).2]

theorem akeys_insKeys (l : List Key) : ∀ (m : GoMap Unit), (akeys m).Nodup →
    akeys (insKeys m l) = (akeys m ++ l).eraseDups ∧ (akeys (insKeys m l)).Nodup := by
  induction l with
  | nil => intro m h; simp [insKeys, eraseDups_of_nodup _ h, h]
  | cons k l ih =>
    intro m h
    have hk := akeys_aset_unit m k
    have hnd : (akeys (aset k () m)).Nodup := by
      rw [hk]; split
      · exact h
      · rename_i hn; exact List.nodup_append.mpr ⟨h, by simp, by intro a ha b hb; simp at hb; subst hb; intro e; exact hn (e ▸ ha)⟩
    obtain ⟨e1, e2⟩ := ih (aset k () m) hnd
    refine ⟨?_, e2⟩
    show akeys (insKeys (m.set k ()) l) = _
    unfold GoMap.set
    rw [e1, hk]
    split
    · rename_i hin
      rw [List.eraseDups_append, List.eraseDups_append]
      congr 2
      simp [List.removeAll, hin]
    · simp

theorem akeys_erase {α} (m : GoMap α) (k : Key) : akeys (m.erase k) = (akeys m).filter (fun e => !(e == k)) := by
  induction m with
  | nil => rfl
  | cons p m ih =>
    simp only [GoMap.erase, akeys, List.filter_cons, List.map_cons] at ih ⊢
    by_cases h : (p.1 == k) = true <;> simp [h, ih]

theorem erase_of_not_has {α} (m : GoMap α) (k : Key) (h : m.has k = false) : m.erase k = m := by
  induction m with
  | nil => rfl
  | cons p m ih =>
    simp only [GoMap.has, alookup] at h
    by_cases hk : (p.1 == k) = true
    · simp [hk] at h
    · simp only [hk, Bool.false_eq_true, if_false] at h
      simp only [GoMap.erase, List.filter_cons, hk, Bool.not_false, if_true]
      congr 1; exact ih h

theorem akeys_eraseAll {α} (l : List Key) : ∀ (m : GoMap α),
    akeys (l.foldl (fun (m : GoMap α) k => m.erase k) m) = (akeys m).filter (fun e => !l.contains e) := by
  induction l with
  | nil => intro m; exact (List.filter_eq_self.mpr (fun _ _ => rfl)).symm
  | cons k l ih =>
    intro m
    rw [List.foldl_cons, ih, akeys_erase, List.filter_filter]
    congr 1; funext e
    simp only [List.contains_cons, Bool.not_or, Bool.and_comm]

theorem filter_eraseDups (P : Key → Bool) : ∀ (n : Nat) (l : List Key), l.length ≤ n →
    l.eraseDups.filter P = (l.filter P).eraseDups := by
  intro n
  induction n with
  | zero => intro l h; cases l <;> simp_all
  | succ n ih =>
    intro l h
    cases l with
    | nil => simp
    | cons a as =>
      have hlen : (as.filter (fun b => !b == a)).length ≤ n :=
        Nat.le_trans (List.length_filter_le _ _) (by simpa using h)
      rw [List.eraseDups_cons, List.filter_cons, ih _ hlen, List.filter_filter]
      by_cases hp : P a = true
      · simp only [hp, if_true, List.filter_cons, List.eraseDups_cons, List.filter_filter]
        congr 3; funext b; exact Bool.and_comm _ _
      · simp only [hp, Bool.false_eq_true, if_false, List.filter_cons]
        congr 1
        apply List.filter_congr
        intro b _
        by_cases hb : b = a
        · subst hb; simp [hp]
        · simp [hb]

/-! ### relations between the translated structs and the model -/

/-- what one branch of the model selects on an output (one iteration of `selectOf`) -/
def brSel (b : Branch V) (out : V) : Except Err (List Key) := do
  let ws ← b.cond out
  if ws.all b.ends.contains then pure ws else throw { cls := .badBranchEnd }

theorem selectOf_eq (n : Node V) (out : V) :
    selectOf n out = (n.branches.mapM (fun b => brSel b out)).map List.flatten := by
  unfold selectOf brSel
  cases h : List.mapM (fun (b : Branch V) => (do
      let ws ← b.cond out
      if ws.all b.ends.contains then pure ws else throw { cls := .badBranchEnd } : Except Err (List Key))) n.branches <;> rfl

/-- a translated `GraphBranch` and the model's `Branch`: the end nodes (in the map's stored order) and the
    external `invoke` — the branch condition followed by the end-node check of `GraphBranch.invoke`'s wrapper -/
structure BranchRel (sext : StepExt V) (gb : GraphBranch V) (b : Branch V) : Prop where
  ends : b.ends = akeys gb.endNodes
  ok : ∀ out ws, brSel b out = .ok ws → sext.branchInvoke gb out = (ws, none)
  err : ∀ out e, brSel b out = .error e → (sext.branchInvoke gb out).2.isSome = true

/-- two lists related element by element -/
inductive ListRel {α β : Type} (R : α → β → Prop) : List α → List β → Prop
  | nil : ListRel R [] []
  | cons {a b as bs} : R a b → ListRel R as bs → ListRel R (a :: as) (b :: bs)

theorem ListRel.eq_nil {α β : Type} {R : α → β → Prop} : ∀ {l : List β}, ListRel R ([] : List α) l → l = []
  | _, .nil => rfl

/-- a translated `chanCall` and the model's `Node` -/
structure CallRel (sext : StepExt V) (cc : chanCall V) (n : Node V) : Prop where
  writeTo : cc.writeTo = n.writeTo
  controls : cc.controls = n.controls
  branches : ListRel (BranchRel sext) cc.writeToBranches n.branches

/-- no pre-branch handlers: the value unchanged, no error -/
def NoBranchHandlers (sext : StepExt V) : Prop := ∀ k i v s, sext.preBranchHandle k i v s = (v, none)

/-- the branch loop of `calculateBranch` on a list of translated branches (value mode): the selected keys
    appended to `ret`, the deselected end nodes inserted into the set `sk`; `none` = some `invoke` failed -/
def goBranches (sext : StepExt V) (out : V) : List (GraphBranch V) → List String → GoMap Unit → Option (List String × GoMap Unit)
  | [], ret, sk => some (ret, sk)
  | b :: bs, ret, sk =>
    if (sext.branchInvoke b out).2.isSome then none else
    goBranches sext out bs (ret ++ (sext.branchInvoke b out).1)
      (insKeys sk ((akeys b.endNodes).filter (fun e => !(sext.branchInvoke b out).1.contains e)))

theorem any_eq_contains (ws : List String) (k : String) : ws.any (fun w => k == w) = ws.contains k := by
  induction ws with
  | nil => rfl
  | cons w ws ihw => simp only [List.any_cons, List.contains_cons, ihw]

theorem ends_loop (ws : List String) (l : GoMap Bool) : ∀ (sk : GoMap Unit),
    goLoop (fun (x : String × Bool) (s : GoMap Unit) =>
      if goLoop (fun w (s' : Bool) => if (x.fst == w) = true then ForInStep.done false else ForInStep.yield s') ws true = true
      then ForInStep.yield (s.set x.fst ()) else ForInStep.yield s) l sk
    = insKeys sk ((akeys l).filter (fun e => !ws.contains e)) := by
  induction l with
  | nil => intro sk; rfl
  | cons p l ih =>
    intro sk
    have hs := goLoop_search (fun w => p.1 == w) false ws true
    simp only [goLoop] at hs ⊢
    rw [hs]
    have hc : ws.any (fun w => p.1 == w) = ws.contains p.1 := any_eq_contains ws p.1
    rw [hc]
    by_cases h : ws.contains p.1 = true
    · simp only [h, if_true, Bool.false_eq_true, if_false, ih, akeys, List.map_cons, List.filter_cons, Bool.not_true]
    · have h' : ws.contains p.1 = false := by simpa using h
      simp only [h', Bool.false_eq_true, if_false, if_true, ih, akeys, List.map_cons, List.filter_cons, Bool.not_false, insKeys, List.foldl_cons]

theorem goIdx_replicate (m : Nat) (out : V) (k : Int) (h0 : 0 ≤ k) (h1 : k < m) :
    goIdx? (List.replicate m out) k = some out := by
  unfold goIdx?
  have : ¬ k < 0 := by omega
  simp only [this, if_false]
  rw [List.getElem?_replicate]
  have : k.toNat < m := by omega
  simp [this]

theorem goInRange_replicate (m : Nat) (out : V) (k : Int) (h0 : 0 ≤ k) (h1 : k < m) :
    goInRange (List.replicate m out) k = true := by
  simp [goInRange, h0, h1]

theorem goSetIdx_replicate (m : Nat) (out : V) (k : Int) :
    goSetIdx (List.replicate m out) k out = List.replicate m out := by
  unfold goSetIdx
  apply List.ext_getElem
  · simp
  · intro i h1 h2; simp [List.getElem_set]

abbrev CB (V : Type) := GoOutcome (List V × channelManager V × List String × Option GoErr)

theorem branches_loop (sext : StepExt V) (out : V) (m : Nat) (E : CB V)
    (body : Int × GraphBranch V → Option (CB V) × List V × List String × GoMap Unit →
      ForInStep (Option (CB V) × List V × List String × GoMap Unit))
    (hbody : ∀ (i : Int) (b : GraphBranch V) ret sk, 0 ≤ i → i < m →
      body (i, b) (none, List.replicate m out, ret, sk) =
        if (sext.branchInvoke b out).2.isSome = true then
          ForInStep.done (some E, List.replicate m out, ret, sk)
        else ForInStep.yield (none, List.replicate m out, ret ++ (sext.branchInvoke b out).1,
          insKeys sk ((akeys b.endNodes).filter (fun e => !(sext.branchInvoke b out).1.contains e)))) :
    ∀ (bs : List (GraphBranch V)) (k : Int) ret sk, 0 ≤ k → k + bs.length ≤ m →
      (∀ r, goBranches sext out bs ret sk = some r →
        goLoop body (goEnumFrom k bs) (none, List.replicate m out, ret, sk) = (none, List.replicate m out, r.1, r.2)) ∧
      (goBranches sext out bs ret sk = none →
        (goLoop body (goEnumFrom k bs) (none, List.replicate m out, ret, sk)).1 = some E) := by
  intro bs
  induction bs with
  | nil =>
    intro k ret sk _ _
    simp [goBranches, goEnumFrom, goLoop]
  | cons b bs ih =>
    intro k ret sk h0 h1
    have hk : k < m := by simp at h1; omega
    simp only [goEnumFrom, goLoop, hbody k b ret sk h0 hk, goBranches]
    by_cases he : (sext.branchInvoke b out).2.isSome = true
    · simp [he]
    · simp only [he, Bool.false_eq_true, if_false]
      exact ih (k + 1) _ _ (by omega) (by simp at h1 ⊢; omega)

/-- the list `calculateBranch` hands to `reportBranch`: the set `sk` without the selected keys and without
    the node's plain control successors, in the map's stored order -/
def goSkipped (controls ret : List String) (sk : GoMap Unit) : List String :=
  akeys (controls.foldl (fun (m : GoMap Unit) k => m.erase k) (ret.foldl (fun (m : GoMap Unit) k => m.erase k) sk))

theorem erase_loop1 (l : List String) (sk : GoMap Unit) :
    goLoop (fun selected (s : GoMap Unit) =>
      if s.has selected = true then ForInStep.yield (s.erase selected) else ForInStep.yield s) l sk
    = l.foldl (fun (m : GoMap Unit) k => m.erase k) sk := by
  have := goLoop_fold (fun (s : GoMap Unit) => s) (fun selected (s : GoMap Unit) =>
      if s.has selected = true then ForInStep.yield (s.erase selected) else ForInStep.yield s)
      (fun (m : GoMap Unit) k => m.erase k)
      (by
        intro a b
        by_cases h : b.has a = true
        · exact ⟨_, by simp [h], rfl⟩
        · have h' : b.has a = false := by simpa using h
          exact ⟨b, by simp [h'], (erase_of_not_has b a h').symm⟩) l sk
  exact this

theorem erase_loop2 (l : List String) (sk : GoMap Unit) :
    goLoop (fun key (s : GoMap Unit) => ForInStep.yield (s.erase key)) l sk
    = l.foldl (fun (m : GoMap Unit) k => m.erase k) sk :=
  goLoop_fold (fun (s : GoMap Unit) => s) _ (fun (m : GoMap Unit) k => m.erase k) (fun a b => ⟨_, rfl, rfl⟩) l sk

theorem keys_loop (sk : GoMap Unit) :
    goLoop (fun (x : String × Unit) (s : List String) => ForInStep.yield (s ++ [x.fst])) sk [] = akeys sk := by
  have := goLoop_collect (fun (x : String × Unit) => x.1) sk []
  simpa [akeys] using this

theorem calculateBranch_go (ext : Ext V) (mext : MgrExt V) (sext : StepExt V) (fuel : Nat) (gr : runner V)
    (key : String) (cc : chanCall V) (out : V) (m : Nat) (c : channelManager V)
    (hE : NoBranchHandlers sext) (hm : cc.writeToBranches.length ≤ m) :
    runner_calculateBranch ext mext sext fuel gr key cc (List.replicate m out) false c =
      match goBranches sext out cc.writeToBranches [] [] with
      | none => .ret (List.replicate m out, c, [], some (GoErr.mk "branch invoke run error: %w"))
      | some (ret, sk) =>
        match channelManager_reportBranch ext mext fuel c key (goSkipped cc.controls ret sk) with
        | .panic => .panic
        | .ret t => if t.2.isSome = true then .ret (List.replicate m out, t.1, [], t.2)
                    else .ret (List.replicate m out, t.1, ret, none) := by
  unfold runner_calculateBranch
  simp only [forIn_id, Id.run, bind, pure, Bool.false_eq_true, if_false]
  have hlt : ¬ ((List.replicate m out).length : Int) < (cc.writeToBranches.length : Int) := by simp; omega
  simp only [hlt, decide_false, Bool.false_eq_true, if_false]
  generalize hb : (fun (x : Int × GraphBranch V) (__s : Option (CB V) × List V × List String × GoMap Unit) => _) = body
  have hspec := branches_loop sext out m
    (.ret (List.replicate m out, c, [], some (GoErr.mk "branch invoke run error: %w"))) body
    (by
      intro i b ret sk h0 h1
      rw [← hb]
      simp only [goIdx_replicate m out i h0 h1, goInRange_replicate m out i h0 h1, hE key i out false,
        goSetIdx_replicate, Bool.not_true, Bool.false_eq_true, if_false, Option.isSome_none, ends_loop])
    cc.writeToBranches 0 [] [] (by omega) (by simpa using hm)
  unfold goEnum
  cases hg : goBranches sext out cc.writeToBranches [] [] with
  | none => rw [hspec.2 hg]
  | some r =>
    obtain ⟨ret, sk⟩ := r
    rw [hspec.1 _ hg]
    simp only [erase_loop1, erase_loop2, keys_loop]
    unfold goSkipped
    cases channelManager_reportBranch ext mext fuel c key
      (akeys (List.foldl (fun (m : GoMap Unit) k => m.erase k) (List.foldl (fun (m : GoMap Unit) k => m.erase k) sk ret) cc.controls)) <;> rfl

/-! ### the branch loop against the model's `selectOf` / `skippedOf` -/

/-- the end nodes each branch deselects, in branch order -/
def skL : List (Branch V) → List (List Key) → List Key
  | b :: bs, ws :: wss => b.ends.filter (fun e => !ws.contains e) ++ skL bs wss
  | _, _ => []

theorem insKeys_append (m : GoMap Unit) (l1 l2 : List Key) : insKeys (insKeys m l1) l2 = insKeys m (l1 ++ l2) := by
  simp [insKeys, List.foldl_append]

theorem goBranches_link (sext : StepExt V) (out : V) (gbs : List (GraphBranch V)) (bs : List (Branch V))
    (h : ListRel (BranchRel sext) gbs bs) : ∀ ret sk,
    (∀ wss, bs.mapM (fun b => brSel b out) = .ok wss →
      goBranches sext out gbs ret sk = some (ret ++ wss.flatten, insKeys sk (skL bs wss))) ∧
    (∀ e, bs.mapM (fun b => brSel b out) = .error e → goBranches sext out gbs ret sk = none) := by
  induction h with
  | nil => intro ret sk; simp [goBranches, skL, insKeys, pure, Except.pure]
  | @cons gb b gbs bs hr _ ih =>
    intro ret sk
    simp only [List.mapM_cons, goBranches]
    cases hb : brSel b out with
    | error e =>
      simp only [hr.err out e hb, if_true]
      constructor
      · intro wss hw; simp [bind, Except.bind] at hw
      · intro _ _; trivial
    | ok ws =>
      have e1 := hr.ok out ws hb
      simp only [e1, Option.isSome_none, Bool.false_eq_true, if_false]
      obtain ⟨i1, i2⟩ := ih (ret ++ ws) (insKeys sk ((akeys gb.endNodes).filter (fun e => !ws.contains e)))
      cases hm : bs.mapM (fun b => brSel b out) with
      | error e =>
        constructor
        · intro wss hw; simp [bind, Except.bind] at hw
        · intro _ _; exact i2 e hm
      | ok wss0 =>
        constructor
        · intro wss hw
          simp only [bind, Except.bind, pure, Except.pure, Except.ok.injEq] at hw
          subst hw
          rw [i1 wss0 hm, insKeys_append]
          simp [skL, List.append_assoc, hr.ends]
        · intro e he; simp [bind, Except.bind, pure, Except.pure] at he

theorem mapM_length (bs : List (Branch V)) (out : V) : ∀ wss, bs.mapM (fun b => brSel b out) = .ok wss → wss.length = bs.length := by
  induction bs with
  | nil => intro wss h; simp [pure, Except.pure] at h; subst h; rfl
  | cons b bs ih =>
    intro wss h
    simp only [List.mapM_cons] at h
    cases hb : brSel b out with
    | error e => simp [hb, bind, Except.bind] at h
    | ok ws =>
      cases hm : bs.mapM (fun b => brSel b out) with
      | error e => simp [hb, hm, bind, Except.bind] at h
      | ok wss0 =>
        simp only [hb, hm, bind, Except.bind, pure, Except.pure, Except.ok.injEq] at h
        subst h; simp [ih wss0 hm]

theorem skL_filter (P : Key → Bool) : ∀ (bs : List (Branch V)) (wss : List (List Key)), wss.length = bs.length →
    (∀ ws ∈ wss, ∀ e ∈ ws, P e = false) → (skL bs wss).filter P = (bs.flatMap (·.ends)).filter P := by
  intro bs
  induction bs with
  | nil => intro wss _ _; cases wss <;> simp [skL]
  | cons b bs ih =>
    intro wss hl hp
    cases wss with
    | nil => simp at hl
    | cons ws wss =>
      simp only [skL, List.flatMap_cons, List.filter_append, List.filter_filter]
      rw [ih wss (by simpa using hl) (fun w hw => hp w (List.mem_cons_of_mem _ hw))]
      congr 1
      apply List.filter_congr
      intro e _
      by_cases hc : ws.contains e = true
      · have : P e = false := hp ws (List.mem_cons_self) e (by simpa using hc)
        simp [this]
      · have hc' : e ∉ ws := by simpa using hc
        simp [hc']

theorem goSkipped_eq (n : Node V) (wss : List (List Key)) (hl : wss.length = n.branches.length) :
    goSkipped n.controls wss.flatten (insKeys [] (skL n.branches wss)) = skippedOf n wss.flatten := by
  unfold goSkipped skippedOf
  rw [akeys_eraseAll, akeys_eraseAll, (akeys_insKeys _ [] (by simp [akeys])).1]
  simp only [akeys, List.map_nil, List.nil_append]
  rw [filter_eraseDups _ _ _ (Nat.le_refl _), skL_filter _ n.branches wss hl, ← filter_eraseDups _ _ _ (Nat.le_refl _), List.filter_filter]
  · apply List.filter_congr; intro e _; exact Bool.and_comm _ _
  · intro ws hws e he
    have : e ∈ wss.flatten := List.mem_flatten.mpr ⟨ws, hws, he⟩
    simp [this]

/-! ### `calculateBranch` refines `calcBranch` -/

/-- what the step function needs of the channel manager, and keeps: the hypotheses of `Proofs/TransMgr.lean`
    (static tables agree with the runner, one well-formed channel of the runner's kind per key, every
    successor has a channel, the skip invariants of `reportBranch`, the fuel bound of the model's work list) -/
structure MgrInv (r : Runner V) (c : channelManager V) : Prop where
  rel : Rel r c
  ok : ChansOK r.dag c.channels
  cl : SuccClosed c
  si : AllSkImp (toChans c.channels)
  sc : SkipClosed r (toChans c.channels)
  len : c.channels.length ≤ (r.nodes.length + 2) * (r.nodes.length + 2)

theorem MgrInv.step {r : Runner V} {c c' : channelManager V} (inv : MgrInv r c) (f : Frame c c')
    (ok' : ChansOK r.dag c'.channels)
    (hs : AllSkImp (toChans c'.channels) ∧ SkipClosed r (toChans c'.channels)) : MgrInv r c' :=
  ⟨inv.rel.frame f ok'.mode, ok', SuccClosed.frame inv.cl f, hs.1, hs.2, by
    have := congrArg List.length f.keys; simp at this; rw [this]; exact inv.len⟩

theorem mem_skippedOf (n : Node V) (sel : List Key) (e : Key) (h : e ∈ skippedOf n sel) :
    ∃ b ∈ n.branches, e ∈ b.ends := by
  unfold skippedOf at h
  have := (List.mem_filter.mp h).1
  rw [List.mem_eraseDups] at this
  obtain ⟨b, hb, he⟩ := List.mem_flatMap.mp this
  exact ⟨b, hb, he⟩

theorem calculateBranch_refines (ext : Ext V) (mext : MgrExt V) (sext : StepExt V) (r : Runner V) (gr : runner V)
    (cm : Chans V) (n : Node V) (out : V)
    (rank : Key → Nat) (hacyc : r.dag = true → ∀ n ∈ r.nodes, ∀ s ∈ n.successors, rank n.key < rank s)
    (hE : NoBranchHandlers sext) :
    ∃ N, ∀ (c : channelManager V) (cc : chanCall V) (fuel : Nat), N ≤ fuel → toChans c.channels = cm →
      MgrInv r c → CallRel sext cc n →
      (∀ b ∈ n.branches, ∀ e ∈ b.ends, c.channels.has e = true) →
      match calcBranch r cm n out with
      | .ok (cm', sel) => ∃ c',
          (∀ m, cc.writeToBranches.length ≤ m →
            runner_calculateBranch ext mext sext fuel gr n.key cc (List.replicate m out) false c
              = .ret (List.replicate m out, c', sel, none)) ∧
          toChans c'.channels = cm' ∧ Frame c c' ∧ MgrInv r c' ∧ (n.branches = [] → sel = [])
      | .error _ => ∃ c' e, ∀ m, cc.writeToBranches.length ≤ m →
          runner_calculateBranch ext mext sext fuel gr n.key cc (List.replicate m out) false c
            = .ret (List.replicate m out, c', [], some e) := by
  unfold calcBranch
  rw [selectOf_eq]
  cases hmm : n.branches.mapM (fun b => brSel b out) with
  | error e =>
    refine ⟨0, fun c cc fuel _ _ _ hcall _ => ?_⟩
    obtain ⟨l1, l2⟩ := goBranches_link sext out cc.writeToBranches n.branches hcall.branches [] []
    simp only [Except.map, bind, Except.bind]
    refine ⟨c, GoErr.mk "branch invoke run error: %w", fun m hm => ?_⟩
    rw [calculateBranch_go ext mext sext fuel gr n.key cc out m c hE hm, l2 e hmm]
  | ok wss =>
    have hl := mapM_length n.branches out wss hmm
    obtain ⟨N, hN⟩ := goReportBranch_terminates r rank hacyc cm n.key (skippedOf n wss.flatten)
    refine ⟨N, fun c cc fuel hf hcm inv hcall hends => ?_⟩
    subst hcm
    obtain ⟨l1, l2⟩ := goBranches_link sext out cc.writeToBranches n.branches hcall.branches [] []
    have hsk : ∀ s ∈ skippedOf n wss.flatten, c.channels.has s = true := by
      intro s hs
      obtain ⟨b, hb, he⟩ := mem_skippedOf n _ s hs
      exact hends b hb s he
    obtain ⟨R, hR⟩ := hN fuel hf
    obtain ⟨hrb, c', e, h1, h2⟩ := reportBranch_refines ext mext r c fuel n.key (skippedOf n wss.flatten)
      inv.rel inv.ok inv.cl hsk inv.si inv.sc inv.len R hR
    have hgo : ∀ m, cc.writeToBranches.length ≤ m →
        runner_calculateBranch ext mext sext fuel gr n.key cc (List.replicate m out) false c =
          if e.isSome = true then .ret (List.replicate m out, c', [], e)
          else .ret (List.replicate m out, c', wss.flatten, none) := by
      intro m hm
      rw [calculateBranch_go ext mext sext fuel gr n.key cc out m c hE hm, l1 wss hmm]
      simp only [List.nil_append, hcall.controls, goSkipped_eq n wss hl, h1]
    simp only [Except.map, bind, Except.bind, pure, Except.pure, hrb]
    cases R with
    | error er =>
      refine ⟨c', GoErr.mk "unknown node: %s", fun m hm => ?_⟩
      rw [hgo m hm, h2]; rfl
    | ok cm' =>
      obtain ⟨a1, a2, a3, a4, a5⟩ := h2
      subst a1
      refine ⟨c', fun m hm => by rw [hgo m hm]; rfl, a2, a3, inv.step a3 a4 ?_, ?_⟩
      · by_cases hd : r.dag = true
        · rw [a2]; exact a5 hd
        · have hd' : r.dag = false := by simpa using hd
          have hp := (reportBranch_pregel ext mext r c fuel n.key (skippedOf n wss.flatten) hd' inv.rel inv.ok inv.cl hsk).1
          rw [hrb] at hp
          have : cm' = toChans c.channels := by simpa using hp
          rw [a2, this]; exact ⟨inv.si, inv.sc⟩
      · intro hnb
        rw [hnb] at hmm
        simp [pure, Except.pure] at hmm
        subst hmm; rfl

/-! ### `resolveCompletedTasks` refines `resolve` -/

/-- the number of copies `copyItem` makes -/
def cpLen (n : Int) : Nat := if n < 2 then 1 else n.toNat

theorem copyItem_rep (ext : Ext V) (mext : MgrExt V) (sext : StepExt V) (item : V) (n : Int) :
    copyItem ext mext sext item n = .ret (List.replicate (cpLen n) item) := by
  rw [copyItem_spec]; unfold cpLen; split <;> simp

theorem goSlice_replicate (M : Nat) (out : V) (lo hi : Int) (h0 : 0 ≤ lo) (h1 : lo ≤ hi) (h2 : hi ≤ (M : Int)) :
    goSlice? (List.replicate M out) lo hi = some (List.replicate (hi - lo).toNat out) := by
  unfold goSlice?
  simp only [List.length_replicate, h0, h1, h2, and_self, if_true, List.take_replicate, List.drop_replicate]
  congr 2; omega

theorem goSliceBack_replicate (M k : Nat) (out : V) (lo : Int) (h : lo.toNat + k = M) :
    goSliceBack (List.replicate M out) lo (List.replicate k out) = List.replicate M out := by
  unfold goSliceBack
  simp only [List.take_replicate, List.drop_replicate, List.length_replicate, List.replicate_append_replicate]
  congr 1; omega

theorem aset_aset {α} (k : Key) (v1 v2 : α) (l : List (Key × α)) : aset k v2 (aset k v1 l) = aset k v2 l := by
  induction l with
  | nil => simp [aset]
  | cons p l ih =>
    by_cases h : (p.1 == k) = true
    · simp [aset, h]
    · simp [aset, h, ih]

/-- the value written for one successor (`writeChannelValues[next][from] = v`, creating the inner map) -/
theorem write_one (wcv : GoMap (GoMap V)) (next from_ : String) (v : V) :
    (if wcv.has next then wcv.set next ((wcv.getD' next []).set from_ v)
     else (wcv.set next []).set next (((wcv.set next []).getD' next []).set from_ v)) = addWrite wcv next from_ v := by
  unfold addWrite GoMap.set GoMap.getD' GoMap.has
  cases h : alookup next wcv with
  | some m => simp
  | none => simp [aset_aset, alookup_aset_same]

theorem write_has (wcv : GoMap (GoMap V)) (next from_ : String) (v : V) (h : wcv.has next = true) :
    wcv.set next ((wcv.getD' next []).set from_ v) = addWrite wcv next from_ v := by
  have := write_one wcv next from_ v; rw [if_pos h] at this; exact this

theorem write_new (wcv : GoMap (GoMap V)) (next from_ : String) (v : V) (h : wcv.has next = false) :
    (wcv.set next []).set next (((wcv.set next []).getD' next []).set from_ v) = addWrite wcv next from_ v := by
  have := write_one wcv next from_ v; rw [if_neg (by simp [h])] at this; exact this

abbrev RS (V : Type) := GoOutcome (channelManager V × GoMap (GoMap V) × GoMap (List String) × Option GoErr)

theorem writes_loop (from_ : String) (out : V) (M : Nat)
    (body : Int × String → Option (RS V) × GoMap (GoMap V) → ForInStep (Option (RS V) × GoMap (GoMap V)))
    (hbody : ∀ (i : Int) (next : String) wcv, 0 ≤ i → i < M →
      body (i, next) (none, wcv) = ForInStep.yield (none, addWrite wcv next from_ out)) :
    ∀ (keys : List String) (k : Int) wcv, 0 ≤ k → k + keys.length ≤ M →
      goLoop body (goEnumFrom k keys) (none, wcv) = (none, keys.foldl (fun ws x => addWrite ws x from_ out) wcv) := by
  intro keys
  induction keys with
  | nil => intro k wcv _ _; rfl
  | cons x keys ih =>
    intro k wcv h0 h1
    simp only [goEnumFrom, goLoop, hbody k x wcv h0 (by simp at h1; omega), List.foldl_cons]
    exact ih (k + 1) _ (by omega) (by simp at h1 ⊢; omega)

theorem deps_loop (from_ : String) (l : List String) (nd : GoMap (List String)) :
    goLoop (fun key (s : GoMap (List String)) => ForInStep.yield (s.set key (s.getD' key [] ++ [from_]))) l nd
    = l.foldl (fun ds k => addDep ds k from_) nd :=
  goLoop_fold (fun (s : GoMap (List String)) => s) _ (fun ds k => addDep ds k from_) (fun a b => ⟨_, rfl, rfl⟩) l nd


theorem cpLen_cases (n : Int) : (n < 2 ∧ cpLen n = 1) ∨ (2 ≤ n ∧ (cpLen n : Int) = n) := by
  unfold cpLen; split
  · left; exact ⟨by assumption, rfl⟩
  · right; constructor <;> omega


/-- a translated completed task and the model's: node key, output, and `call` is the runner's entry for the key -/
structure TaskRel (sext : StepExt V) (r : Runner V) (t : task V) (d : Done V) : Prop where
  key : t.nodeKey = d.1
  out : t.output = d.2
  call : ∃ n, r.call? d.1 = some n ∧ n.key = d.1 ∧ CallRel sext t.call n

/-- every end node of a branch of a node that can complete has a channel (no nil dereference in `reportBranch`) -/
def EndsClosed (r : Runner V) (c : channelManager V) : Prop :=
  ∀ k n, r.call? k = some n → ∀ b ∈ n.branches, ∀ e ∈ b.ends, c.channels.has e = true

theorem EndsClosed.frame {r : Runner V} {c c' : channelManager V} (h : EndsClosed r c) (f : Frame c c') : EndsClosed r c' := by
  intro k n hk b hb e he
  rw [has_of_keys c.channels c'.channels f.keys]
  exact h k n hk b hb e he

abbrev RSt (V : Type) := Option (RS V) × channelManager V × GoMap (GoMap V) × GoMap (List String)

/-- what one iteration of the translated loop of `resolveCompletedTasks` does, given what `calculateBranch` returned -/
structure BodySpec (ext : Ext V) (mext : MgrExt V) (sext : StepExt V) (fuel : Nat) (gr : runner V)
    (body : task V → RSt V → ForInStep (RSt V)) : Prop where
  step : ∀ (t : task V) (c c' : channelManager V) (sel : List String) (wcv : GoMap (GoMap V)) (nd : GoMap (List String)),
      (t.call.writeToBranches = [] → sel = []) →
      (∀ m, t.call.writeToBranches.length ≤ m →
        runner_calculateBranch ext mext sext fuel gr t.nodeKey t.call (List.replicate m t.output) false c
          = .ret (List.replicate m t.output, c', sel, none)) →
      body t (none, c, wcv, nd) = ForInStep.yield (none, c',
        (sel ++ t.call.writeTo).foldl (fun ws k => addWrite ws k t.nodeKey t.output) wcv,
        sel.foldl (fun ds k => addDep ds k t.nodeKey) (t.call.controls.foldl (fun ds k => addDep ds k t.nodeKey) nd))
  err : ∀ (t : task V) (c c' : channelManager V) (e : GoErr) (wcv : GoMap (GoMap V)) (nd : GoMap (List String)),
      (∀ m, t.call.writeToBranches.length ≤ m →
        runner_calculateBranch ext mext sext fuel gr t.nodeKey t.call (List.replicate m t.output) false c
          = .ret (List.replicate m t.output, c', [], some e)) →
      ∃ st, body t (none, c, wcv, nd) = ForInStep.done
        (some (.ret (c', [], [], some (GoErr.mk "calculate next step fail, node: %s, error: %w"))), st)

theorem resolve_loop (ext : Ext V) (mext : MgrExt V) (sext : StepExt V) (r : Runner V) (gr : runner V)
    (rank : Key → Nat) (hacyc : r.dag = true → ∀ n ∈ r.nodes, ∀ s ∈ n.successors, rank n.key < rank s)
    (hE : NoBranchHandlers sext) (ts : List (task V)) (ds : List (Done V)) (hrel : ListRel (TaskRel sext r) ts ds) :
    ∀ (acc : Resolved V), ∃ N, ∀ fuel, N ≤ fuel → ∀ body, BodySpec ext mext sext fuel gr body →
      ∀ c, toChans c.channels = acc.cm → MgrInv r c → EndsClosed r c →
      match ds.foldlM (resolveStep r) acc with
      | .ok res => ∃ c', goLoop body ts (none, c, acc.writes, acc.deps) = (none, c', res.writes, res.deps) ∧
          toChans c'.channels = res.cm ∧ Frame c c' ∧ MgrInv r c'
      | .error _ => ∃ c' st, goLoop body ts (none, c, acc.writes, acc.deps) =
          (some (.ret (c', [], [], some (GoErr.mk "calculate next step fail, node: %s, error: %w"))), st) := by
  induction hrel with
  | nil =>
    intro acc
    refine ⟨0, fun fuel _ body _ c hc inv _ => ?_⟩
    simp only [List.foldlM_nil, pure, Except.pure, goLoop]
    exact ⟨c, rfl, hc, Frame.refl c, inv⟩
  | @cons t d ts ds htd _ ih =>
    intro acc
    obtain ⟨n, hn, hkey, hcall⟩ := htd.call
    obtain ⟨N1, hN1⟩ := calculateBranch_refines ext mext sext r gr acc.cm n d.2 rank hacyc hE
    have hstep : resolveStep r acc d = (do
        let (cm', selected) ← calcBranch r acc.cm n d.2
        pure { cm := cm',
               writes := (selected ++ n.writeTo).foldl (fun ws k => addWrite ws k d.1 d.2) acc.writes,
               deps := selected.foldl (fun ds k => addDep ds k d.1)
                         (n.controls.foldl (fun ds k => addDep ds k d.1) acc.deps) }) := by
      unfold resolveStep; rw [hn]
    simp only [List.foldlM_cons, hstep]
    cases hcb : calcBranch r acc.cm n d.2 with
    | error e =>
      refine ⟨N1, fun fuel hf body hbody c hc inv hec => ?_⟩
      have h1 := hN1 c t.call fuel hf hc inv hcall (hec d.1 n hn)
      rw [hcb] at h1
      obtain ⟨c', e', h1⟩ := h1
      simp only [bind, Except.bind]
      rw [hkey, ← htd.key, ← htd.out] at h1
      obtain ⟨st, hst⟩ := hbody.err t c c' e' acc.writes acc.deps h1
      exact ⟨c', st, by simp only [goLoop, hst]⟩
    | ok res1 =>
      obtain ⟨cm', sel⟩ := res1
      simp only [bind, Except.bind, pure, Except.pure]
      obtain ⟨N2, hN2⟩ := ih (Resolved.mk cm'
        ((sel ++ n.writeTo).foldl (fun ws k => addWrite ws k d.1 d.2) acc.writes)
        (sel.foldl (fun ds k => addDep ds k d.1) (n.controls.foldl (fun ds k => addDep ds k d.1) acc.deps)))
      refine ⟨max N1 N2, fun fuel hf body hbody c hc inv hec => ?_⟩
      have h1 := hN1 c t.call fuel (Nat.le_trans (Nat.le_max_left _ _) hf) hc inv hcall (hec d.1 n hn)
      rw [hcb] at h1
      obtain ⟨c1, g1, g2, g3, g4, g5⟩ := h1
      rw [hkey, ← htd.key, ← htd.out] at g1
      have hb0 : t.call.writeToBranches = [] → sel = [] := by
        intro h0
        apply g5
        have := hcall.branches
        rw [h0] at this
        exact ListRel.eq_nil this
      have hs := hbody.step t c c1 sel acc.writes acc.deps hb0 g1
      rw [hcall.writeTo, hcall.controls, htd.key, htd.out] at hs
      have h2 := hN2 fuel (Nat.le_trans (Nat.le_max_right _ _) hf) body hbody c1 g2 g4 (hec.frame g3)
      simp only [goLoop, hs]
      revert h2
      cases List.foldlM (resolveStep r) _ ds with
      | error e => exact fun h2 => h2
      | ok res =>
        intro h2
        obtain ⟨c', e1, e2, e3, e4⟩ := h2
        exact ⟨c', e1, e2, g3.trans e3, e4⟩

/-- **`resolveCompletedTasks` refines `resolve`** (value mode).  There is a fuel from which on, for every
    manager `c` that represents the model's channels `cm` and satisfies the invariants, the translated
    function does not leave the translated semantics and returns the model's write map, dependency map and
    channels — or an error exactly when the model's `resolve` fails. -/
theorem resolveCompletedTasks_refines (ext : Ext V) (mext : MgrExt V) (sext : StepExt V) (r : Runner V) (gr : runner V)
    (rank : Key → Nat) (hacyc : r.dag = true → ∀ n ∈ r.nodes, ∀ s ∈ n.successors, rank n.key < rank s)
    (hE : NoBranchHandlers sext) (ts : List (task V)) (ds : List (Done V)) (hrel : ListRel (TaskRel sext r) ts ds)
    (cm : Chans V) :
    ∃ N, ∀ fuel, N ≤ fuel → ∀ c, toChans c.channels = cm → MgrInv r c → EndsClosed r c →
      match resolve r cm ds with
      | .ok res => ∃ c', runner_resolveCompletedTasks ext mext sext fuel gr ts false c
            = .ret (c', res.writes, res.deps, none) ∧
          toChans c'.channels = res.cm ∧ Frame c c' ∧ MgrInv r c'
      | .error _ => ∃ c' e, runner_resolveCompletedTasks ext mext sext fuel gr ts false c
            = .ret (c', [], [], some e) := by
  obtain ⟨N, hN⟩ := resolve_loop ext mext sext r gr rank hacyc hE ts ds hrel { cm := cm, writes := [], deps := [] }
  refine ⟨N, fun fuel hf c0 hc inv hec => ?_⟩
  unfold runner_resolveCompletedTasks resolve
  simp only [forIn_id, Id.run, bind, pure, Bool.false_eq_true, if_false]
  generalize hb : (fun (t : task V) (__s : RSt V) => _) = body
  have hspec : BodySpec ext mext sext fuel gr body := by
    constructor
    ·
      intro t c c' sel wcv nd hb0 hcb
      rw [← hb]
      simp only [copyItem_rep, List.length_replicate, List.length_append]
      generalize hM0 : cpLen ((t.call.writeTo.length : Int) + (t.call.writeToBranches.length : Int) * 2) = M0
      have hc0 := cpLen_cases ((t.call.writeTo.length : Int) + (t.call.writeToBranches.length : Int) * 2)
      rw [hM0] at hc0
      have hsel0 : t.call.writeToBranches.length = 0 → sel.length = 0 := by
        intro h; rw [hb0 (List.eq_nil_of_length_eq_zero h)]; rfl
      generalize ha : t.call.writeTo.length = a at *
      generalize hbb : t.call.writeToBranches.length = b at *
      rw [goSlice_replicate M0 t.output _ _ (by omega) (by omega) (by omega)]
      simp only []
      rw [hcb _ (by omega)]
      simp only [Option.isSome_none, Bool.false_eq_true, if_false]
      rw [goSliceBack_replicate M0 _ t.output _ (by omega)]
      clear hb
      by_cases hpos : sel.length + a > 0
      · have hposI : ((sel.length + a : Nat) : Int) > 0 := by omega
        simp only [hposI, decide_true, if_true]
        rw [goIdx_replicate M0 t.output _ (by omega) (by omega), goSlice_replicate M0 t.output _ _ (by omega) (by omega) (by omega)]
        simp only [List.replicate_append_replicate, List.length_replicate]
        generalize hM1 : cpLen (((sel.length + a : Nat) : Int) - (a : Int) - (b : Int) + 1) = M1
        have hc1 := cpLen_cases (((sel.length + a : Nat) : Int) - (a : Int) - (b : Int) + 1)
        rw [hM1] at hc1
        generalize hib : (fun (x : Int × String) (__s : Option (RS V) × GoMap (GoMap V)) => _) = ib
        have hw := writes_loop t.nodeKey t.output (((a : Int) + (b : Int) - 1 - 0).toNat + M1) ib
          (by
            intro i next w h0 h1
            rw [← hib]
            simp only [goIdx_replicate _ t.output i h0 h1]
            by_cases hh : w.has next = true
            · simp only [hh, Bool.not_true, Bool.false_eq_true, if_false, write_has w next t.nodeKey t.output hh]
            · have hh' : w.has next = false := by simpa using hh
              have hs : (w.set next []).has next = true := by simp [GoMap.has, GoMap.set, alookup_aset_same]
              simp only [hh', Bool.not_false, if_true, hs, Bool.not_true, Bool.false_eq_true, if_false,
                write_new w next t.nodeKey t.output hh'])
          (sel ++ t.call.writeTo) 0 wcv (by omega) (by simp [ha]; omega)
        unfold goEnum
        rw [hw]
        clear hw hib
        have hne : ¬ ((sel.length + a : Nat) : Int) = 0 := by omega
        simp only []
        rw [goSlice_replicate _ t.output _ _ (by omega) (by omega) (by omega)]
        simp only [beq_iff_eq, hne, if_false, deps_loop]
      · have hs0 : sel = [] := List.eq_nil_of_length_eq_zero (by omega)
        have hw0 : t.call.writeTo = [] := List.eq_nil_of_length_eq_zero (by omega)
        have hnp : ¬ ((sel.length + a : Nat) : Int) > 0 := by omega
        have hz : ((sel.length + a : Nat) : Int) = 0 := by omega
        simp only [hnp, decide_false, Bool.false_eq_true, if_false, List.length_replicate]
        rw [goSlice_replicate _ t.output _ _ (by omega) (by omega) (by omega)]
        simp only [hz, beq_self_eq_true, if_true]
        rw [goSlice_replicate _ t.output _ _ (by omega) (by omega) (by omega)]
        simp only [deps_loop, hs0, hw0, List.append_nil, List.foldl_nil]
    · intro t c c' e wcv nd hcb
      rw [← hb]
      simp only [copyItem_rep, List.length_replicate, List.length_append]
      generalize hM0 : cpLen ((t.call.writeTo.length : Int) + (t.call.writeToBranches.length : Int) * 2) = M0
      have hc0 := cpLen_cases ((t.call.writeTo.length : Int) + (t.call.writeToBranches.length : Int) * 2)
      rw [hM0] at hc0
      generalize ha : t.call.writeTo.length = a at *
      generalize hbb : t.call.writeToBranches.length = b at *
      rw [goSlice_replicate M0 t.output _ _ (by omega) (by omega) (by omega)]
      simp only []
      rw [hcb _ (by omega)]
      simp only [Option.isSome_some, if_true]
      exact ⟨_, rfl⟩
  have h := hN fuel hf body hspec c0 hc inv hec
  revert h
  cases List.foldlM (resolveStep r) { cm := cm, writes := [], deps := [] } ds with
  | error e =>
    intro h
    obtain ⟨c', st, h⟩ := h
    simp only [h]
    exact ⟨c', _, rfl⟩
  | ok res =>
    intro h
    obtain ⟨c', h1, h2, h3, h4⟩ := h
    simp only [h1]
    exact ⟨c', rfl, h2, h3, h4⟩

/-! ### `createTasks` and `calculateNextTasks` -/

open TransDag (KeysNodup)

/-- the task `createTasks` builds for a ready node -/
def mkTask (gr : runner V) (p : String × V) : task V :=
  { nodeKey := p.1, call := gr.chanSubscribeTo.getD' p.1 default, input := p.2, output := default }

theorem createTasks_spec (ext : Ext V) (mext : MgrExt V) (sext : StepExt V) (gr : runner V) (nm : GoMap V)
    (om : GoMap (List V)) (h : ∀ p ∈ nm, gr.chanSubscribeTo.has p.1 = true) :
    runner_createTasks ext mext sext gr nm om = (nm.map (mkTask gr), none) := by
  unfold runner_createTasks
  simp only [forIn_id, Id.run, bind, pure]
  have : ∀ (l : GoMap V) (acc : List (task V)), (∀ p ∈ l, gr.chanSubscribeTo.has p.1 = true) →
      goLoop (fun (x : String × V) (__s : Option (List (task V) × Option GoErr) × List (task V)) =>
        if (!gr.chanSubscribeTo.has x.fst) = true then
          ForInStep.done (some ([], some (GoErr.mk "node[%s] has not been registered")), __s.snd)
        else ForInStep.yield (none, __s.snd ++
          [{ nodeKey := x.fst, call := gr.chanSubscribeTo.getD' x.fst default, input := x.snd, output := default }]))
        l (none, acc) = (none, acc ++ l.map (mkTask gr)) := by
    intro l
    induction l with
    | nil => intro acc _; simp [goLoop]
    | cons p l ih =>
      intro acc hl
      simp only [goLoop, hl p (List.mem_cons_self), Bool.not_true, Bool.false_eq_true, if_false]
      rw [ih _ (fun q hq => hl q (List.mem_cons_of_mem _ hq))]
      simp [mkTask]
  rw [this nm [] h]
  simp

/-- every successor of a node that can complete has a channel -/
def CallsClosed (r : Runner V) (c : channelManager V) : Prop :=
  ∀ k n, r.call? k = some n → ∀ s ∈ n.successors, c.channels.has s = true

theorem CallsClosed.ends {r : Runner V} {c : channelManager V} (h : CallsClosed r c) : EndsClosed r c := by
  intro k n hk b hb e he
  apply h k n hk
  unfold Node.successors
  exact List.mem_append_right _ (List.mem_flatMap.mpr ⟨b, hb, he⟩)

/-- every channel except END belongs to a registered node -/
def SubsOK (gr : runner V) (c : channelManager V) : Prop :=
  ∀ k, c.channels.has k = true → k ≠ END → gr.chanSubscribeTo.has k = true

theorem mem_aset {α} (k : Key) (v : α) (l : List (Key × α)) (q : Key × α) (h : q ∈ aset k v l) :
    q ∈ l ∨ q = (k, v) := by
  induction l with
  | nil => simp [aset] at h; exact Or.inr h
  | cons p l ih =>
    simp only [aset] at h
    split at h
    · rcases List.mem_cons.mp h with h | h
      · exact Or.inr h
      · exact Or.inl (List.mem_cons_of_mem _ h)
    · rcases List.mem_cons.mp h with h | h
      · exact Or.inl (h ▸ List.mem_cons_self)
      · rcases ih h with h | h
        · exact Or.inl (List.mem_cons_of_mem _ h)
        · exact Or.inr h

theorem selectOf_subset (n : Node V) (out : V) (sel : List Key) (h : selectOf n out = .ok sel) :
    ∀ s ∈ sel, ∃ b ∈ n.branches, s ∈ b.ends := by
  rw [selectOf_eq] at h
  have : ∀ (bs : List (Branch V)) wss, bs.mapM (fun b => brSel b out) = .ok wss →
      ∀ s ∈ wss.flatten, ∃ b ∈ bs, s ∈ b.ends := by
    intro bs
    induction bs with
    | nil => intro wss h s hs; simp [pure, Except.pure] at h; subst h; simp at hs
    | cons b bs ih =>
      intro wss h s hs
      simp only [List.mapM_cons] at h
      cases hb : brSel b out with
      | error e => simp [hb, bind, Except.bind] at h
      | ok ws =>
        cases hm : bs.mapM (fun b => brSel b out) with
        | error e => simp [hb, hm, bind, Except.bind] at h
        | ok wss0 =>
          simp only [hb, hm, bind, Except.bind, pure, Except.pure, Except.ok.injEq] at h
          subst h
          simp only [List.flatten_cons, List.mem_append] at hs
          rcases hs with hs | hs
          · refine ⟨b, List.mem_cons_self, ?_⟩
            unfold brSel at hb
            cases hc : b.cond out with
            | error e => simp [hc, bind, Except.bind] at hb
            | ok ws' =>
              simp only [hc, bind, Except.bind] at hb
              split at hb
              · rename_i hall
                simp only [pure, Except.pure, Except.ok.injEq] at hb
                subst hb
                have := List.all_eq_true.mp hall s hs
                simpa using this
              · simp [throw, throwThe, MonadExceptOf.throw] at hb
          · obtain ⟨b', hb', hs'⟩ := ih wss0 hm s hs
            exact ⟨b', List.mem_cons_of_mem _ hb', hs'⟩
  cases hm : n.branches.mapM (fun b => brSel b out) with
  | error e => simp [hm, Except.map] at h
  | ok wss =>
    simp only [hm, Except.map, Except.ok.injEq] at h
    subst h
    exact this n.branches wss hm

/-- what `updateAndGet` needs of the maps `resolve` builds: every target has a channel (`T`), and the
    write map of a target has one entry per sender -/
def AccOK (T : Key → Prop) (acc : Resolved V) : Prop :=
  (∀ w ∈ acc.writes, T w.1 ∧ KeysNodup w.2) ∧ (∀ d ∈ acc.deps, T d.1)

theorem addWrite_ok (T : Key → Prop) (ws : List (Key × List (Key × V))) (to from_ : Key) (v : V)
    (h : ∀ w ∈ ws, T w.1 ∧ KeysNodup w.2) (ht : T to) : ∀ w ∈ addWrite ws to from_ v, T w.1 ∧ KeysNodup w.2 := by
  intro w hw
  unfold addWrite at hw
  rcases mem_aset _ _ _ _ hw with hw | hw
  · exact h w hw
  · subst hw
    refine ⟨ht, ?_⟩
    apply nodup_akeys_aset
    cases hl : alookup to ws with
    | none => simp [akeys]
    | some old => exact (h _ (mem_of_alookup' ws to old hl)).2

theorem addDep_ok (T : Key → Prop) (ds : List (Key × List Key)) (to from_ : Key)
    (h : ∀ d ∈ ds, T d.1) (ht : T to) : ∀ d ∈ addDep ds to from_, T d.1 := by
  intro d hd
  unfold addDep at hd
  rcases mem_aset _ _ _ _ hd with hd | hd
  · exact h d hd
  · subst hd; exact ht

theorem addWrites_ok (T : Key → Prop) (from_ : Key) (v : V) (keys : List Key) (hk : ∀ k ∈ keys, T k) :
    ∀ (ws : List (Key × List (Key × V))), (∀ w ∈ ws, T w.1 ∧ KeysNodup w.2) →
    ∀ w ∈ keys.foldl (fun ws k => addWrite ws k from_ v) ws, T w.1 ∧ KeysNodup w.2 := by
  induction keys with
  | nil => intro ws h; exact h
  | cons k keys ih =>
    intro ws h
    exact ih (fun k' hk' => hk k' (List.mem_cons_of_mem _ hk')) _ (addWrite_ok T ws k from_ v h (hk k List.mem_cons_self))

theorem addDeps_ok (T : Key → Prop) (from_ : Key) (keys : List Key) (hk : ∀ k ∈ keys, T k) :
    ∀ (ds : List (Key × List Key)), (∀ d ∈ ds, T d.1) →
    ∀ d ∈ keys.foldl (fun ds k => addDep ds k from_) ds, T d.1 := by
  induction keys with
  | nil => intro ds h; exact h
  | cons k keys ih =>
    intro ds h
    exact ih (fun k' hk' => hk k' (List.mem_cons_of_mem _ hk')) _ (addDep_ok T ds k from_ h (hk k List.mem_cons_self))

theorem resolveStep_ok (T : Key → Prop) (r : Runner V) (acc acc' : Resolved V) (d : Done V)
    (hT : ∀ n, r.call? d.1 = some n → ∀ s ∈ n.successors, T s)
    (h : resolveStep r acc d = .ok acc') (ha : AccOK T acc) : AccOK T acc' := by
  unfold resolveStep at h
  cases hn : r.call? d.1 with
  | none => simp [hn, pure, Except.pure] at h; subst h; exact ha
  | some n =>
    simp only [hn] at h
    unfold calcBranch at h
    cases hs : selectOf n d.2 with
    | error e => simp [hs, bind, Except.bind] at h
    | ok sel =>
      cases hrb : reportBranch r acc.cm n.key (skippedOf n sel) with
      | error e => simp [hs, hrb, bind, Except.bind] at h
      | ok cm' =>
        simp only [hs, hrb, bind, Except.bind, pure, Except.pure, Except.ok.injEq] at h
        subst h
        have hsel : ∀ k ∈ sel, T k := by
          intro k hk
          obtain ⟨b, hb, he⟩ := selectOf_subset n d.2 sel hs k hk
          apply hT n hn
          unfold Node.successors
          exact List.mem_append_right _ (List.mem_flatMap.mpr ⟨b, hb, he⟩)
        have hwt : ∀ k ∈ n.writeTo, T k := fun k hk => hT n hn k (by
          unfold Node.successors; exact List.mem_append_left _ (List.mem_append_left _ hk))
        have hct : ∀ k ∈ n.controls, T k := fun k hk => hT n hn k (by
          unfold Node.successors; exact List.mem_append_left _ (List.mem_append_right _ hk))
        constructor
        · exact addWrites_ok T d.1 d.2 (sel ++ n.writeTo)
            (fun k hk => (List.mem_append.mp hk).elim (hsel k) (hwt k)) _ ha.1
        · exact addDeps_ok T d.1 sel hsel _ (addDeps_ok T d.1 n.controls hct _ ha.2)

theorem resolve_ok (T : Key → Prop) (r : Runner V) (ds : List (Done V))
    (hT : ∀ d ∈ ds, ∀ n, r.call? d.1 = some n → ∀ s ∈ n.successors, T s) :
    ∀ (acc res : Resolved V), ds.foldlM (resolveStep r) acc = .ok res → AccOK T acc → AccOK T res := by
  induction ds with
  | nil => intro acc res h ha; simp [pure, Except.pure] at h; subst h; exact ha
  | cons d ds ih =>
    intro acc res h ha
    simp only [List.foldlM_cons] at h
    cases hs : resolveStep r acc d with
    | error e => simp [hs, bind, Except.bind] at h
    | ok acc' =>
      simp only [hs, bind, Except.bind] at h
      exact ih (fun d' hd' => hT d' (List.mem_cons_of_mem _ hd')) acc' res h
        (resolveStep_ok T r acc acc' d (hT d List.mem_cons_self) hs ha)

theorem getReady_keys (ops : ValOps V) (dag : Bool) : ∀ (cm : Chans V),
    akeys (getReady ops dag cm).1 = akeys cm ∧ ∀ p ∈ (getReady ops dag cm).2.1, p.1 ∈ akeys cm := by
  intro cm
  induction cm with
  | nil => simp [getReady, akeys]
  | cons q cm ih =>
    obtain ⟨k, c⟩ := q
    simp only [getReady]
    cases hg : (c.get ops dag).2 <;>
      simp only [akeys, List.map_cons, List.mem_cons] at ih ⊢ <;>
      refine ⟨by rw [ih.1], ?_⟩
    · intro p hp; exact Or.inr (ih.2 p hp)
    · intro p hp
      rcases hp with hp | hp
      · left; rw [hp]
      · exact Or.inr (ih.2 p hp)
    · intro p hp; exact Or.inr (ih.2 p hp)

theorem has_of_mem_keys {α} (m : GoMap α) (k : Key) (h : k ∈ m.map (·.1)) : m.has k = true := by
  induction m with
  | nil => simp at h
  | cons p m ih =>
    simp only [GoMap.has, alookup]
    by_cases hk : (p.1 == k) = true
    · simp [hk]
    · simp only [hk, Bool.false_eq_true, if_false]
      simp only [List.map_cons, List.mem_cons] at h
      rcases h with h | h
      · exact absurd (by simp [h]) hk
      · exact ih h

theorem ne_of_alookup_none {α} (k : Key) (l : List (Key × α)) (h : alookup k l = none) : ∀ p ∈ l, p.1 ≠ k := by
  induction l with
  | nil => intro p hp; simp at hp
  | cons q l ih =>
    intro p hp
    simp only [alookup] at h
    by_cases hq : (q.1 == k) = true
    · simp [hq] at h
    · simp only [hq, Bool.false_eq_true, if_false] at h
      rcases List.mem_cons.mp hp with hp | hp
      · rw [hp]; intro e; exact hq (by simp [e])
      · exact ih h p hp

/-- **`calculateNextTasks` refines `calcNext`** (value mode): there is a fuel from which on, for every manager
    `c` that represents the model's channels `cm` and satisfies the invariants, the translated function does
    not leave the translated semantics (no panic, nothing unspecified) and returns what the model returns:
    END's value, or one task per ready node in the model's order (node key, input, the runner's `chanCall`
    for the key), or an error exactly when the model fails. -/
theorem calculateNextTasks_refines (ops : ValOps V) (es : V) (mext : MgrExt V) (sext : StepExt V) (r : Runner V)
    (gr : runner V) (rank : Key → Nat)
    (hacyc : r.dag = true → ∀ n ∈ r.nodes, ∀ s ∈ n.successors, rank n.key < rank s)
    (hE : NoBranchHandlers sext) (hM : NoHandlers mext)
    (ts : List (task V)) (ds : List (Done V)) (hrel : ListRel (TaskRel sext r) ts ds) (cm : Chans V) :
    ∃ N, ∀ fuel, N ≤ fuel → ∀ c om, toChans c.channels = cm → c.isStream = false → MgrInv r c →
      CallsClosed r c → SubsOK gr c →
      match calcNext (TransDag.opsFor ops es false) r cm ds with
      | .ok (cm3, .result v) => ∃ c',
          runner_calculateNextTasks (TransDag.extOf ops es) mext sext fuel gr ts false c om = .ret (c', [], v, none) ∧
          toChans c'.channels = cm3 ∧ Frame c c' ∧ ChansOK r.dag c'.channels
      | .ok (cm3, .tasks ready) => ∃ c',
          runner_calculateNextTasks (TransDag.extOf ops es) mext sext fuel gr ts false c om
            = .ret (c', ready.map (mkTask gr), default, none) ∧
          toChans c'.channels = cm3 ∧ Frame c c' ∧ ChansOK r.dag c'.channels
      | .error _ => ∃ c' e,
          runner_calculateNextTasks (TransDag.extOf ops es) mext sext fuel gr ts false c om
            = .ret (c', [], default, some e) := by
  obtain ⟨N, hN⟩ := resolveCompletedTasks_refines (TransDag.extOf ops es) mext sext r gr rank hacyc hE ts ds hrel cm
  refine ⟨N, fun fuel hf c om hc hs inv hcc hsub => ?_⟩
  have h := hN fuel hf c hc inv hcc.ends
  unfold runner_calculateNextTasks calcNext
  simp only [forIn_id, Id.run, bind, pure, Bool.false_eq_true, if_false]
  cases hres : resolve r cm ds with
  | error e =>
    rw [hres] at h
    obtain ⟨c', e', h⟩ := h
    simp only [h, Except.bind, Option.isSome_some, if_true]
    exact ⟨c', e', rfl⟩
  | ok res =>
    rw [hres] at h
    obtain ⟨c1, h1, h2, h3, h4⟩ := h
    have hT : AccOK (fun k => c.channels.has k = true) res := by
      unfold resolve at hres
      refine resolve_ok _ r ds ?_ _ res hres ⟨by simp, by simp⟩
      intro d hd n hn s hs'
      exact hcc d.1 n hn s hs'
    have hk : ∀ k, c1.channels.has k = c.channels.has k := has_of_keys c.channels c1.channels h3.keys
    have hs1 : c1.isStream = false := by rw [h3.isStream]; exact hs
    obtain ⟨res2, u1, u2, u3⟩ := updateAndGet_refines ops es mext r c1 res.writes res.deps h4.rel h4.ok hM
      (fun w hw => by rw [hk]; exact (hT.1 w hw).1) (fun w hw => (hT.1 w hw).2)
      (fun d hd => by rw [hk]; exact hT.2 d hd)
    rw [hs1, h2] at u2 u3
    simp only [h1, Option.isSome_none, Bool.false_eq_true, if_false, u1, Except.bind]
    generalize hg : getReady (TransDag.opsFor ops es false) r.dag (updateDeps r (updateValues r res.cm res.writes) res.deps) = g at u2 u3
    obtain ⟨cm3, ready, bad⟩ := g
    cases bad with
    | true =>
      obtain ⟨v1, v2⟩ := u3 rfl
      simp only [v1, if_true, throw, throwThe, MonadExceptOf.throw]
      exact ⟨res2.1, _, rfl⟩
    | false =>
      obtain ⟨v1, v2, v3, v4, v5⟩ := u2 rfl
      simp only at v1 v2
      have hfr : Frame c res2.1 := h3.trans v4
      simp only [v3, Option.isSome_none, Bool.false_eq_true, if_false, v2]
      have hEND : const_END = END := rfl
      cases hl : alookup END ready with
      | some v =>
        have hpos : ((ready.length : Nat) : Int) > 0 := by
          cases ready with
          | nil => simp [alookup] at hl
          | cons _ _ => simp
        have hh : GoMap.has ready const_END = true := by simp [GoMap.has, hEND, hl]
        have hv : GoMap.getD' ready const_END default = v := by simp [GoMap.getD', hEND, hl]
        simp only [hpos, decide_true, if_true, hh, hv, pure, Except.pure]
        exact ⟨res2.1, rfl, v1, hfr, v5⟩
      | none =>
        simp only [pure, Except.pure]
        by_cases hpos : ((ready.length : Nat) : Int) > 0
        · have hh : GoMap.has ready const_END = false := by simp [GoMap.has, hEND, hl]
          have hall : ∀ p ∈ ready, gr.chanSubscribeTo.has p.1 = true := by
            intro p hp
            have hkeys := getReady_keys (TransDag.opsFor ops es false) r.dag
              (updateDeps r (updateValues r res.cm res.writes) res.deps)
            rw [hg] at hkeys
            have hne := ne_of_alookup_none END ready hl p hp
            apply hsub p.1 _ hne
            apply has_of_mem_keys
            rw [← hfr.keys, ← akeys_toChans, v1]
            show p.1 ∈ akeys cm3
            have := hkeys.2 p hp
            rw [← hkeys.1] at this
            exact this
          simp only [hpos, decide_true, if_true, hh, Bool.false_eq_true, if_false,
            createTasks_spec (TransDag.extOf ops es) mext sext gr ready om hall, Option.isSome_none]
          exact ⟨res2.1, rfl, v1, hfr, v5⟩
        · have hnil : ready = [] := by
            cases ready with
            | nil => rfl
            | cons _ _ => simp at hpos
          simp only [hpos, decide_false, Bool.false_eq_true, if_false, hnil, List.map_nil]
          exact ⟨res2.1, rfl, v1, hfr, v5⟩

/-- the step function never leaves the translated semantics: under the hypotheses of
    `calculateNextTasks_refines` the outcome is `GoOutcome.ret` (no panic, nothing unspecified) -/
theorem step_total (ops : ValOps V) (es : V) (mext : MgrExt V) (sext : StepExt V) (r : Runner V)
    (gr : runner V) (rank : Key → Nat)
    (hacyc : r.dag = true → ∀ n ∈ r.nodes, ∀ s ∈ n.successors, rank n.key < rank s)
    (hE : NoBranchHandlers sext) (hM : NoHandlers mext)
    (ts : List (task V)) (ds : List (Done V)) (hrel : ListRel (TaskRel sext r) ts ds) (cm : Chans V) :
    ∃ N, ∀ fuel, N ≤ fuel → ∀ c om, toChans c.channels = cm → c.isStream = false → MgrInv r c →
      CallsClosed r c → SubsOK gr c →
      ∃ res, runner_calculateNextTasks (TransDag.extOf ops es) mext sext fuel gr ts false c om = .ret res := by
  obtain ⟨N, hN⟩ := calculateNextTasks_refines ops es mext sext r gr rank hacyc hE hM ts ds hrel cm
  refine ⟨N, fun fuel hf c om hc hs inv hcc hsub => ?_⟩
  have h := hN fuel hf c om hc hs inv hcc hsub
  revert h
  cases calcNext (TransDag.opsFor ops es false) r cm ds with
  | error e => intro h; obtain ⟨c', e', h⟩ := h; exact ⟨_, h⟩
  | ok p =>
    obtain ⟨cm3, nx⟩ := p
    cases nx with
    | result v => intro h; obtain ⟨c', h, _⟩ := h; exact ⟨_, h⟩
    | tasks ready => intro h; obtain ⟨c', h, _⟩ := h; exact ⟨_, h⟩

/-- `delete(m, k)`: `GoMap.erase` is removal from the association list — the key is gone, every other key
    looks up what it did -/
theorem alookup_erase {α} (m : GoMap α) (k k' : Key) :
    alookup k' (m.erase k) = if k' == k then none else alookup k' m := by
  induction m with
  | nil => simp [GoMap.erase, alookup]
  | cons p m ih =>
    simp only [GoMap.erase, List.filter_cons] at ih ⊢
    by_cases hp : (p.1 == k) = true
    · have hpk : p.1 = k := by simpa using hp
      simp only [hp, Bool.not_true, Bool.false_eq_true, if_false, ih, alookup]
      by_cases hk : (k' == k) = true
      · simp [hk]
      · have : ¬ (p.1 == k') = true := by
          intro e; apply hk; have : p.1 = k' := by simpa using e
          simp [← this, hpk]
        simp [hk, this]
    · simp only [hp, Bool.not_false, if_true, alookup, ih]
      by_cases hk : (k' == k) = true
      · have hkk : k' = k := by simpa using hk
        have : ¬ (p.1 == k') = true := by rw [hkk]; exact hp
        simp [hk, this]
      · simp [hk]

/-- the hypotheses hold for the manager `initChannelManager` builds (`initMgr`), for every runner whose
    successors (of the nodes and of START) are nodes or END -/
theorem step_hypotheses_hold (r : Runner V) (s : Bool) (hnd : (akeys (initChans r)).Nodup)
    (hc : RunnerClosed r) (hs : ∀ k ∈ r.start.successors, k ∈ akeys (initChans r)) :
    MgrInv r (initMgr r s) ∧ CallsClosed r (initMgr r s) ∧
    toChans (initMgr r s).channels = initChans r := by
  refine ⟨⟨initMgr_rel r s, initMgr_ok r s hnd, initMgr_closed r s hc, ?_, ?_,
    initMgr_len r s⟩, ?_, initMgr_chans r s⟩
  · rw [initMgr_chans]; exact (init_skipClosed r).2
  · rw [initMgr_chans]; exact (init_skipClosed r).1
  · intro k n hk t ht
    apply has_of_mem_keys
    have hkeys : (initMgr r s).channels.map (·.1) = akeys (initChans r) := by
      simp [initMgr, akeys, List.map_map, Function.comp_def]
    rw [hkeys]
    unfold Runner.call? at hk
    by_cases hst : (k == START) = true
    · simp only [hst, if_true, Option.some.injEq] at hk
      subst hk; exact hs t ht
    · simp only [hst, Bool.false_eq_true, if_false] at hk
      unfold Runner.node? at hk
      exact hc n (List.mem_of_find?_eq_some hk) t ht

end EinoV.TransStep
