/-
  C02: a session of calls of one runner is the list of independent runs as soon as every call
  starts from `initChans r` (helper lemmas for `Props/C02.lean`, section Rerun).
-/
import EinoV.Model.C02Rerun

namespace EinoV.Engine

theorem eagerLoopC_fst {V} (ops : ValOps V) (r : Runner V) (pick : Pick V) (n : Nat) (cm : Chans V)
    (running : List (Key × V)) (bs : List (List (Key × V))) (comp : List Key) :
    (eagerLoopC ops r pick n cm running bs comp).1 = eagerLoop ops r pick n cm running bs comp := by
  induction n generalizing cm running bs comp with
  | zero => simp [eagerLoopC, eagerLoop]
  | succ n ih =>
    simp only [eagerLoopC, eagerLoop]
    cases h1 : running[pick running % running.length]? with
    | none => rfl
    | some t =>
      simp only []
      cases h2 : collectOne (execOne r t) with
      | error e => rfl
      | ok d =>
        simp only []
        cases h3 : calcNext ops r cm [d] with
        | error e => rfl
        | ok p =>
          obtain ⟨cm', nx⟩ := p
          cases nx with
          | result v => rfl
          | tasks ts => exact ih _ _ _ _

theorem runEagerFrom_init {V} (ops : ValOps V) (r : Runner V) (pick : Pick V) (x : V) :
    (runEagerFrom ops r pick (initChans r) x).1 = runEager ops r pick x := by
  simp only [runEagerFrom, runEager]
  cases h3 : calcNext ops r (initChans r) [(START, x)] with
  | error e => rfl
  | ok p =>
    obtain ⟨cm', nx⟩ := p
    cases nx with
    | result v => rfl
    | tasks ts => exact eagerLoopC_fst ..

theorem loopC_fst {V} (ops : ValOps V) (r : Runner V) (sched : Sched V) (n : Nat) (cm : Chans V)
    (tasks : List (Key × V)) (tr : Trace V) :
    (loopC ops r sched n cm tasks tr).1 = loop ops r sched n cm tasks tr := by
  induction n generalizing cm tasks tr with
  | zero => simp [loopC, loop]
  | succ n ih =>
    simp only [loopC, loop]
    cases h1 : runTasks r sched tr.length tasks with
    | error e => rfl
    | ok done =>
      simp only []
      by_cases h2 : done.isEmpty = true
      · simp [h2]
      · simp only [h2]
        cases h3 : calcNext ops r cm done with
        | error e => rfl
        | ok p =>
          obtain ⟨cm', nx⟩ := p
          cases nx with
          | result v => rfl
          | tasks ts => exact ih _ _ _

theorem runSFrom_init {V} (ops : ValOps V) (r : Runner V) (sched : Sched V) (x : V) :
    (runSFrom ops r sched (initChans r) x).1 = runS ops r sched x := by
  simp only [runSFrom, runS]
  cases h3 : calcNext ops r (initChans r) [(START, x)] with
  | error e => rfl
  | ok p =>
    obtain ⟨cm', nx⟩ := p
    cases nx with
    | result v => rfl
    | tasks ts => exact loopC_fst ..

/-- every call starts from the initial channels ⇒ the session is the list of independent runs -/
theorem sessionEager_of_start {V} (fresh : Bool) (recycle : Chans V → Chans V) (ops : ValOps V) (r : Runner V)
    (h : ∀ idle, startChans fresh recycle r idle = initChans r)
    (idle : Option (Chans V)) (calls : List (Pick V × V)) :
    sessionEager fresh recycle ops r idle calls = calls.map (fun c => runEager ops r c.1 c.2) := by
  induction calls generalizing idle with
  | nil => rfl
  | cons c rest ih =>
    simp only [sessionEager, List.map_cons, h, runEagerFrom_init, ih]

theorem sessionS_of_start {V} (fresh : Bool) (recycle : Chans V → Chans V) (ops : ValOps V) (r : Runner V)
    (h : ∀ idle, startChans fresh recycle r idle = initChans r)
    (idle : Option (Chans V)) (calls : List (Sched V × V)) :
    sessionS fresh recycle ops r idle calls = calls.map (fun c => runS ops r c.1 c.2) := by
  induction calls generalizing idle with
  | nil => rfl
  | cons c rest ih =>
    simp only [sessionS, List.map_cons, h, runSFrom_init, ih]

theorem startChans_fresh {V} (recycle : Chans V → Chans V) (r : Runner V) (idle : Option (Chans V)) :
    startChans true recycle r idle = initChans r := by
  cases idle <;> simp [startChans]

end EinoV.Engine
