/-
  gotrans phase 7 — `concatToolCalls` (schema/message.go, translated on every run into Gen/TransC14.lean)
  computes the model's code-level function `concatTCGo` (Model/C14.lean) for the order in which the map of
  index groups is visited, hence (Props/C14 `toolcalls_any_map_order`) the specification `concatTC`.
  This file imports no other translated unit.
-/
import EinoV.Gen.TransC14
import EinoV.Model.C14
import EinoV.Proofs.C14
import EinoV.Proofs.C14Sort
import EinoV.Proofs.GoLoop
namespace EinoV.TransC14
open EinoV.GoSem EinoV.Gen.TransC14 EinoV.C14
variable {V : Type} [Inhabited V]
set_option linter.unusedSectionVars false
set_option linter.unusedSimpArgs false
set_option linter.unusedVariables false

/-- two lists related element by element -/
inductive ListRel {α β : Type} (R : α → β → Prop) : List α → List β → Prop
  | nil : ListRel R [] []
  | cons {a b as bs} : R a b → ListRel R as bs → ListRel R (a :: as) (b :: bs)

/-- the model's tool call as the Go struct; `ex` gives the opaque rest (`Extra`) -/
def enc (ex : Nat → GoMap V) (c : TC) : ToolCall V :=
  { Index := c.index, ID := c.id, Type_ := c.type, Function := { Name := c.name, Arguments := c.args }, Extra := ex c.extra }

/-! ### the comparator and the sort -/

theorem less_spec (ext : Ext V) (tcext : TCExt) (ex : Nat → GoMap V) (a b : TC) :
    concatToolCalls__less ext tcext (enc ex a) (enc ex b) = .ret (tcLess a b) := by
  unfold concatToolCalls__less tcLess enc
  cases ha : a.index <;> cases hb : b.index <;> simp [Id.run, pure]

theorem goIns_map (ext : Ext V) (tcext : TCExt) (ex : Nat → GoMap V) (x : TC) (l : List TC) :
    goInsStable (fun a b => (concatToolCalls__less ext tcext a b).getD false) (enc ex x) (l.map (enc ex))
      = (insStable x l).map (enc ex) := by
  induction l with
  | nil => rfl
  | cons y ys ih =>
    have ht : (concatToolCalls__less ext tcext (enc ex y) (enc ex x)).getD false = tcLess y x := by
      rw [less_spec]; rfl
    simp only [List.map_cons, goInsStable, insStable, ht]
    by_cases h : tcLess y x = true
    · simp only [h, if_true, ih, List.map_cons]
    · simp only [h, Bool.false_eq_true, if_false, List.map_cons]

theorem sortS_map (ext : Ext V) (tcext : TCExt) (ex : Nat → GoMap V) (l : List TC) :
    goSortSliceStable (l.map (enc ex)) (fun a b => (concatToolCalls__less ext tcext a b).getD false)
      = (sortStable l).map (enc ex) := by
  unfold goSortSliceStable sortStable
  induction l with
  | nil => rfl
  | cons x xs ih => simp only [List.map_cons, List.foldr_cons, ih, goIns_map]

/-- `sort.SliceStable(merged, less)` on encoded calls is the model's `sortStable` -/
theorem sort_spec (ext : Ext V) (tcext : TCExt) (ex : Nat → GoMap V) (l : List TC) :
    goSortSliceStable? (l.map (enc ex)) (fun a b => concatToolCalls__less ext tcext a b)
      = some ((sortStable l).map (enc ex)) := by
  unfold goSortSliceStable?
  have hall : ((l.map (enc ex)).all fun a => (l.map (enc ex)).all fun b =>
      (concatToolCalls__less ext tcext a b).isRet) = true := by
    simp only [List.all_eq_true, List.mem_map]
    rintro _ ⟨a, _, rfl⟩ _ ⟨b, _, rfl⟩
    rw [less_spec]; rfl
  simp only [hall, if_true, Option.some.injEq]
  exact sortS_map ext tcext ex l

theorem sortStable_short (l : List TC) (h : l.length ≤ 1) : sortStable l = l := by
  cases l with
  | nil => rfl
  | cons a t =>
    cases t with
    | nil => rfl
    | cons b t' => simp at h

/-! ### merging one group -/

def goPick (acc x : String) : Option String :=
  if (x != "") = true then (if (acc == "") = true then some x else if (acc != x) = true then none else some acc)
  else some acc

theorem pick_cases (acc x : String) :
    ((x != "") = false ∧ goPick acc x = some acc) ∨
    ((x != "") = true ∧ (acc == "") = true ∧ goPick acc x = some x) ∨
    ((x != "") = true ∧ (acc == "") = false ∧ (acc != x) = true ∧ goPick acc x = none) ∨
    ((x != "") = true ∧ (acc == "") = false ∧ (acc != x) = false ∧ goPick acc x = some acc) := by
  unfold goPick
  by_cases h1 : (x != "") = true <;> by_cases h2 : (acc == "") = true <;> by_cases h3 : (acc != x) = true <;> simp_all

/-- Go's three-way test is the model's `pick` with the check present -/
theorem goPick_pick (a b : String) :
    goPick a b = match pick true a b with | .ok s => some s | .error _ => none := by
  unfold goPick pick
  by_cases h1 : b = "" <;> by_cases h2 : a = "" <;> by_cases h3 : a = b <;> simp_all

abbrev RT (V : Type) := GoOutcome (List (ToolCall V) × Option GoErr)
abbrev CSt (V : Type) := Option (RT V) × String × String × String × String
abbrev S4 := String × String × String × String

def E1 : RT V := GoOutcome.ret ([], some (GoErr.mk "cannot concat ToolCalls with different tool id: '%s' '%s'"))
def E2 : RT V := GoOutcome.ret ([], some (GoErr.mk "cannot concat ToolCalls with different tool type: '%s' '%s'"))
def E3 : RT V := GoOutcome.ret ([], some (GoErr.mk "cannot concat ToolCalls with different tool name: '%s' '%s'"))

/-- the result is one of the three "cannot concat" errors -/
def IsConflict (r : RT V) : Prop := r = E1 ∨ r = E2 ∨ r = E3

/-- one chunk folded into (args, id, type, name): `none` = a conflict -/
def acc4 (s : S4) (c : TC) : Option S4 :=
  match goPick s.2.1 c.id with
  | none => none
  | some i' =>
    match goPick s.2.2.1 c.type with
    | none => none
    | some t' =>
      match goPick s.2.2.2 c.name with
      | none => none
      | some n' => some ((if (c.args != "") = true then s.1 ++ c.args else s.1), i', t', n')

def fold4 : List TC → S4 → Option S4
  | [], s => some s
  | c :: cs, s => match acc4 s c with | none => none | some s' => fold4 cs s'

/-- the loop `for _, n := range v { chunk := chunks[n]; … }` -/
theorem group_loop (ex : Nat → GoMap V) (chunks : List (ToolCall V)) (bodyC : Int → CSt V → ForInStep (CSt V))
    (hc : ∀ (n : Int) (c : TC) (s : S4), goIdx? chunks n = some (enc ex c) →
      match acc4 s c with
      | some s' => bodyC n (none, s) = ForInStep.yield (none, s')
      | none => ∃ E st, IsConflict E ∧ bodyC n (none, s) = ForInStep.done (some E, st)) :
    ∀ (ps : List Int) (L : List TC), ListRel (fun n c => goIdx? chunks n = some (enc ex c)) ps L → ∀ s,
      match fold4 L s with
      | some s' => goLoop bodyC ps (none, s) = (none, s')
      | none => ∃ E st, IsConflict E ∧ goLoop bodyC ps (none, s) = (some E, st) := by
  intro ps L hr
  induction hr with
  | nil => intro s; rfl
  | @cons n c ps L hn _ ih =>
    intro s
    have h1 := hc n c s hn
    simp only [fold4, goLoop]
    cases ha : acc4 s c with
    | none =>
      rw [ha] at h1
      obtain ⟨E, st, hE, e1⟩ := h1
      exact ⟨E, st, hE, by rw [e1]⟩
    | some s' =>
      rw [ha] at h1
      rw [h1]
      exact ih s'

/-! ### the Go shape on the model's types: gather positions, merge per group, sort -/

/-- the map `m` of the first loop: index ↦ positions of the chunks with that index, built by
    `m[*index] = append(m[*index], i)` -/
def posMapFrom : Int → List TC → GoMapK Int (List Int) → GoMapK Int (List Int)
  | _, [], m => m
  | j, c :: rest, m =>
    posMapFrom (j + 1) rest (match c.index with | none => m | some k => m.set k (m.getD' k [] ++ [j]))

/-- the calls without an index, in arrival order -/
def nilsOf (cs : List TC) : List TC := cs.filter (fun c => c.index == none)

/-- the merged call of a group given by its chunks: the first chunk with id / type / name picked over all
    chunks and the arguments concatenated; `none` = a conflict -/
def mergeChunks : List TC → Option TC
  | [] => none
  | c0 :: rest =>
    (fold4 (c0 :: rest) ("", "", "", "")).map
      (fun s => { c0 with args := s.1, id := s.2.1, type := s.2.2.1, name := s.2.2.2 })

theorem goIdx_map_append {α β} (f : α → β) (pre : List α) (c : α) (rest : List α) :
    goIdx? ((pre ++ c :: rest).map f) (pre.length : Int) = some (f c) := by
  unfold goIdx?
  have : ¬ ((pre.length : Int) < 0) := by omega
  simp [this]

abbrev ASt (V : Type) := Option (RT V) × List (ToolCall V) × GoMapK Int (List Int)

/-- the first loop: `merged` gets the calls without an index, `m` the positions per index -/
theorem gather_loop (ex : Nat → GoMap V) (cs : List TC) (bodyA : Int → ASt V → ForInStep (ASt V))
    (hA : ∀ (j : Int) (c : TC) (mg : List (ToolCall V)) (m : GoMapK Int (List Int)),
      goIdx? (cs.map (enc ex)) j = some (enc ex c) →
      bodyA j (none, mg, m) = ForInStep.yield (none,
        (match c.index with | none => mg ++ [enc ex c] | some _ => mg),
        (match c.index with | none => m | some k => m.set k (m.getD' k [] ++ [j]))) ) :
    ∀ (suffix pre : List TC), cs = pre ++ suffix → ∀ mg m,
      goLoop bodyA ((goEnumFrom (pre.length : Int) (suffix.map (enc ex))).map (·.1)) (none, mg, m)
        = (none, mg ++ (nilsOf suffix).map (enc ex), posMapFrom (pre.length : Int) suffix m) := by
  intro suffix
  induction suffix with
  | nil => intro pre _ mg m; simp [goEnumFrom, goLoop, nilsOf, posMapFrom]
  | cons c rest ih =>
    intro pre hcs mg m
    have hidx : goIdx? (cs.map (enc ex)) (pre.length : Int) = some (enc ex c) := by
      rw [hcs]; exact goIdx_map_append _ pre c rest
    simp only [List.map_cons, goEnumFrom, goLoop, hA _ c mg m hidx, posMapFrom]
    have := ih (pre ++ [c]) (by rw [hcs]; simp) (match c.index with | none => mg ++ [enc ex c] | some _ => mg)
      (match c.index with | none => m | some k => m.set k (m.getD' k [] ++ [(pre.length : Int)]))
    have hcast : (((pre ++ [c]).length : Nat) : Int) = (pre.length : Int) + 1 := by simp
    rw [hcast] at this
    rw [this]
    cases hci : c.index with
    | none => simp [nilsOf, hci, List.filter_cons]
    | some k => simp [nilsOf, hci, List.filter_cons]

abbrev BSt (V : Type) := Option (RT V) × List (ToolCall V) × String

/-- the second loop: one merged call per visited entry, or the first conflict -/
theorem merge_loop (ex : Nat → GoMap V) (P : Int × List Int → List TC → Prop)
    (bodyB : Int × List Int → BSt V → ForInStep (BSt V))
    (hB : ∀ (e : Int × List Int) (L : List TC) (a : String) (mg : List (ToolCall V)), P e L →
      match mergeChunks L with
      | some g => ∃ a', bodyB e (none, mg, a) = ForInStep.yield (none, mg ++ [enc ex g], a')
      | none => ∃ E st, IsConflict E ∧ bodyB e (none, mg, a) = ForInStep.done (some E, st)) :
    ∀ (es : List (Int × List Int)) (Ls : List (List TC)), ListRel P es Ls →
      ∀ a mg,
      match Ls.mapM mergeChunks with
      | some gs => ∃ a', goLoop bodyB es (none, mg, a) = (none, mg ++ gs.map (enc ex), a')
      | none => ∃ E st, IsConflict E ∧ goLoop bodyB es (none, mg, a) = (some E, st) := by
  intro es Ls hr
  induction hr with
  | nil => intro a mg; exact ⟨a, by simp [goLoop]⟩
  | @cons e L es Ls he _ ih =>
    intro a mg
    have h1 := hB e L a mg he
    simp only [List.mapM_cons, goLoop]
    cases hm : mergeChunks L with
    | none =>
      rw [hm] at h1
      obtain ⟨E, st, hE, e1⟩ := h1
      exact ⟨E, st, hE, by rw [e1]⟩
    | some g =>
      rw [hm] at h1
      obtain ⟨a', e1⟩ := h1
      rw [e1]
      have h2 := ih a' (mg ++ [enc ex g])
      cases hms : Ls.mapM mergeChunks with
      | none =>
        rw [hms] at h2
        simpa [bind, Option.bind] using h2
      | some gs =>
        rw [hms] at h2
        obtain ⟨a'', e2⟩ := h2
        exact ⟨a'', by simp [bind, Option.bind, pure, e2, List.append_assoc]⟩

/-- the chunks at the positions of a group (`none` if a position is out of range) -/
def posChunks (cs : List TC) (ps : List Int) : Option (List TC) := ps.mapM (fun n => goIdx? cs n)

theorem goIdx_map {α β} (f : α → β) (l : List α) (n : Int) : goIdx? (l.map f) n = (goIdx? l n).map f := by
  unfold goIdx?; split <;> simp

theorem mapM_listRel {α β} (f : α → Option β) : ∀ (l : List α) (L : List β), l.mapM f = some L →
    ListRel (fun a b => f a = some b) l L := by
  intro l
  induction l with
  | nil => intro L h; simp at h; subst h; exact ListRel.nil
  | cons a l ih =>
    intro L h
    simp only [List.mapM_cons] at h
    cases ha : f a with
    | none => simp [ha, bind, Option.bind] at h
    | some b =>
      cases hl : l.mapM f with
      | none => simp [ha, hl, bind, Option.bind] at h
      | some bs =>
        simp [ha, hl, bind, Option.bind, pure] at h
        subst h
        exact ListRel.cons ha (ih bs hl)

theorem concatToolCalls_go (ext : Ext V) (tcext : TCExt) (ex : Nat → GoMap V) (cs : List TC)
    (Ls : List (List TC))
    (hLs : ListRel (fun e L => posChunks cs e.2 = some L ∧ L ≠ []) (tcext.rangeOrder (posMapFrom 0 cs [])) Ls) :
    match Ls.mapM mergeChunks with
    | some gs => concatToolCalls ext tcext (cs.map (enc ex)) = .ret ((sortStable (nilsOf cs ++ gs)).map (enc ex), none)
    | none => ∃ E, IsConflict E ∧ concatToolCalls ext tcext (cs.map (enc ex)) = E := by
  unfold concatToolCalls
  simp only [forIn_id, Id.run, bind, pure]
  generalize hC : (fun (n : Int) (__s : CSt V) => _) = bodyC
  generalize hB : (fun (x : Int × List Int) (__s : BSt V) => _) = bodyB
  generalize hA : (fun (i : Int) (__s : ASt V) => _) = bodyA
  -- the body of the inner loop
  have hc : ∀ (n : Int) (c : TC) (s : S4), goIdx? (cs.map (enc ex)) n = some (enc ex c) →
      match acc4 s c with
      | some s' => bodyC n (none, s) = ForInStep.yield (none, s')
      | none => ∃ E st, IsConflict E ∧ bodyC n (none, s) = ForInStep.done (some E, st) := by
    intro n c s hn
    obtain ⟨a, i, t, nm⟩ := s
    rw [← hC]
    clear hC hB hA
    simp only [hn, acc4, enc, Option.isSome_none, Bool.false_eq_true, if_false]
    rcases pick_cases i c.id with ⟨h1, hp⟩ | ⟨h1, h2, hp⟩ | ⟨h1, h2, h3, hp⟩ | ⟨h1, h2, h3, hp⟩ <;>
      simp only [*, if_true, if_false, Bool.false_eq_true] <;>
      first
      | exact ⟨E1, _, Or.inl rfl, rfl⟩
      | (rcases pick_cases t c.type with ⟨g1, gp⟩ | ⟨g1, g2, gp⟩ | ⟨g1, g2, g3, gp⟩ | ⟨g1, g2, g3, gp⟩ <;>
          simp only [*, if_true, if_false, Bool.false_eq_true] <;>
          first
          | exact ⟨E2, _, Or.inr (Or.inl rfl), rfl⟩
          | (rcases pick_cases nm c.name with ⟨k1, kp⟩ | ⟨k1, k2, kp⟩ | ⟨k1, k2, k3, kp⟩ | ⟨k1, k2, k3, kp⟩ <;>
              simp only [*, if_true, if_false, Bool.false_eq_true] <;>
              first
              | exact ⟨E3, _, Or.inr (Or.inr rfl), rfl⟩
              | (by_cases ha : (c.args != "") = true <;>
                  simp only [ha, if_true, if_false, Bool.false_eq_true])))
  -- the body of the first loop
  have ha : ∀ (j : Int) (c : TC) (mg : List (ToolCall V)) (m : GoMapK Int (List Int)),
      goIdx? (cs.map (enc ex)) j = some (enc ex c) →
      bodyA j (none, mg, m) = ForInStep.yield (none,
        (match c.index with | none => mg ++ [enc ex c] | some _ => mg),
        (match c.index with | none => m | some k => m.set k (m.getD' k [] ++ [j]))) := by
    intro j c mg m hj
    rw [← hA]
    simp only [hj]
    cases hci : c.index <;> simp [enc, hci]
  -- the body of the second loop
  have hb : ∀ (e : Int × List Int) (L : List TC) (a : String) (mg : List (ToolCall V)),
      (posChunks cs e.2 = some L ∧ L ≠ []) →
      match mergeChunks L with
      | some g => ∃ a', bodyB e (none, mg, a) = ForInStep.yield (none, mg ++ [enc ex g], a')
      | none => ∃ E st, IsConflict E ∧ bodyB e (none, mg, a) = ForInStep.done (some E, st) := by
    intro e L a mg hL
    obtain ⟨k, ps⟩ := e
    obtain ⟨hL1, hL2⟩ := hL
    have hrel := mapM_listRel (fun n => goIdx? cs n) ps L hL1
    have hrel' : ListRel (fun n c => goIdx? (cs.map (enc ex)) n = some (enc ex c)) ps L := by
      clear hL1 hL2
      induction hrel with
      | nil => exact ListRel.nil
      | cons h _ ih => exact ListRel.cons (by rw [goIdx_map, h]; rfl) ih
    have hg := group_loop ex (cs.map (enc ex)) bodyC hc ps L hrel' ("", "", "", "")
    rw [← hB]
    cases hrel' with
    | nil => exact absurd rfl hL2
    | @cons p0 c0 prest rest h0 hr0 =>
      have hlen : ((((p0 :: prest).length : Nat) : Int) > 0) := by simp
      have hi0 : goIdx? (p0 :: prest) 0 = some p0 := rfl
      simp only [hlen, decide_true, if_true, hi0, h0, mergeChunks]
      cases hf : fold4 (c0 :: rest) ("", "", "", "") with
      | none =>
        rw [hf] at hg
        obtain ⟨E, st, hE, e1⟩ := hg
        simp only [e1, Option.map_none]
        exact ⟨E, _, hE, rfl⟩
      | some s' =>
        rw [hf] at hg
        simp only [hg, Option.map_some]
        exact ⟨s'.1, by simp [enc]⟩
  have hgather := gather_loop ex cs bodyA ha cs [] rfl [] []
  simp only [List.length_nil, Int.natCast_zero, List.nil_append] at hgather
  unfold goIndices goEnum
  rw [hgather]
  simp only
  have hmerge := merge_loop ex (fun e L => posChunks cs e.2 = some L ∧ L ≠ []) bodyB hb
    (tcext.rangeOrder (posMapFrom 0 cs [])) Ls hLs "" ((nilsOf cs).map (enc ex))
  cases hm : Ls.mapM mergeChunks with
  | none =>
    rw [hm] at hmerge
    obtain ⟨E, st, hE, e1⟩ := hmerge
    simp only [e1]
    exact ⟨E, hE, rfl⟩
  | some gs =>
    rw [hm] at hmerge
    obtain ⟨a', e1⟩ := hmerge
    simp only [e1]
    rw [← List.map_append]
    by_cases hlen : ((((nilsOf cs ++ gs).map (enc ex)).length : Nat) : Int) > 1
    · simp only [hlen, decide_true, if_true, sort_spec]
    · simp only [hlen, decide_false, Bool.false_eq_true, if_false]
      rw [sortStable_short _ (by simp only [List.length_map] at hlen; omega)]

/-! ### the Go shape against the model: positions per index vs groups merged incrementally -/

abbrev PM := GoMapK Int (List Int)

def KeysND (m : PM) : Prop := (m.map (·.1)).Nodup

theorem mem_setK (m : PM) (k : Int) (v : List Int) (hn : KeysND m) (e : Int × List Int)
    (h : e ∈ m.set k v) : (e ∈ m ∧ e.1 ≠ k) ∨ e = (k, v) := by
  induction m with
  | nil => simp [GoMapK.set] at h; exact Or.inr h
  | cons p m ih =>
    obtain ⟨k0, v0⟩ := p
    simp only [KeysND, List.map_cons, List.nodup_cons] at hn
    simp only [GoMapK.set] at h
    by_cases hk : (k0 == k) = true
    · simp only [hk, if_true, List.mem_cons] at h
      have hk' : k0 = k := by simpa using hk
      rcases h with h | h
      · exact Or.inr h
      · refine Or.inl ⟨List.mem_cons_of_mem _ h, ?_⟩
        intro he
        exact hn.1 (by rw [hk', ← he]; exact List.mem_map_of_mem h)
    · simp only [hk, Bool.false_eq_true, if_false, List.mem_cons] at h
      have hne : k0 ≠ k := by simpa using hk
      rcases h with h | h
      · subst h; exact Or.inl ⟨List.mem_cons_self, hne⟩
      · rcases ih hn.2 h with ⟨h1, h2⟩ | h1
        · exact Or.inl ⟨List.mem_cons_of_mem _ h1, h2⟩
        · exact Or.inr h1

theorem mem_setK_other (m : PM) (k : Int) (v : List Int) (e : Int × List Int) (h : e ∈ m) (hk : e.1 ≠ k) :
    e ∈ m.set k v := by
  induction m with
  | nil => cases h
  | cons p m ih =>
    obtain ⟨k0, v0⟩ := p
    simp only [GoMapK.set]
    by_cases hk0 : (k0 == k) = true
    · have hk' : k0 = k := by simpa using hk0
      simp only [hk0, if_true]
      rcases List.mem_cons.mp h with h | h
      · subst h; exact absurd hk' hk
      · exact List.mem_cons_of_mem _ h
    · simp only [hk0, Bool.false_eq_true, if_false]
      rcases List.mem_cons.mp h with h | h
      · subst h; exact List.mem_cons_self
      · exact List.mem_cons_of_mem _ (ih h)

theorem mem_setK_self (m : PM) (k : Int) (v : List Int) : (k, v) ∈ m.set k v := by
  induction m with
  | nil => simp [GoMapK.set]
  | cons p m ih =>
    obtain ⟨k0, v0⟩ := p
    simp only [GoMapK.set]
    by_cases hk0 : (k0 == k) = true
    · simp [hk0]
    · simp only [hk0, Bool.false_eq_true, if_false]; exact List.mem_cons_of_mem _ ih

theorem keys_setK (m : PM) (k : Int) (v : List Int) :
    (m.set k v).map (·.1) = if k ∈ m.map (·.1) then m.map (·.1) else m.map (·.1) ++ [k] := by
  induction m with
  | nil => simp [GoMapK.set]
  | cons p m ih =>
    obtain ⟨k0, v0⟩ := p
    simp only [GoMapK.set]
    by_cases hk0 : (k0 == k) = true
    · have hk' : k0 = k := by simpa using hk0
      simp [hk0, hk']
    · have hne : ¬ k = k0 := fun e => hk0 (by simp [e])
      simp only [hk0, Bool.false_eq_true, if_false, List.map_cons, ih, List.mem_cons, hne, false_or]
      split <;> simp

theorem keysND_setK (m : PM) (k : Int) (v : List Int) (hn : KeysND m) : KeysND (m.set k v) := by
  unfold KeysND
  rw [keys_setK]
  split
  · exact hn
  · rename_i hk
    exact List.nodup_append.mpr ⟨hn, by simp, by intro a ha b hb; simp at hb; subst hb; intro e; exact hk (e ▸ ha)⟩

theorem getD'_of_mem (m : PM) (hn : KeysND m) (k : Int) (ps : List Int) (h : (k, ps) ∈ m) : m.getD' k [] = ps := by
  induction m with
  | nil => cases h
  | cons p m ih =>
    obtain ⟨k0, v0⟩ := p
    simp only [KeysND, List.map_cons, List.nodup_cons] at hn
    simp only [GoMapK.getD', GoMapK.lookup]
    rcases List.mem_cons.mp h with h | h
    · cases h; simp
    · have hne : ¬ (k0 == k) = true := by
        intro e
        have : k0 = k := by simpa using e
        exact hn.1 (this ▸ List.mem_map_of_mem h)
      simp only [hne, Bool.false_eq_true, if_false]
      exact ih hn.2 h

theorem getD'_of_not_mem (m : PM) (k : Int) (h : k ∉ m.map (·.1)) : m.getD' k [] = [] := by
  induction m with
  | nil => rfl
  | cons p m ih =>
    obtain ⟨k0, v0⟩ := p
    simp only [List.map_cons, List.mem_cons, not_or] at h
    have hne : ¬ (k0 == k) = true := by
      intro e
      have : k0 = k := by simpa using e
      exact h.1 this.symm
    simp only [GoMapK.getD', GoMapK.lookup, hne, Bool.false_eq_true, if_false]
    exact ih h.2

/-! merging: the Go fold from the first chunk is the model's incremental `mergeTC` -/

/-- the three conflict checks are present (source facts; Props/C14 discharges them for `srcCfg`) -/
structure Checks (cfg : Cfg) : Prop where
  id : cfg.tcIdCheck = true
  ty : cfg.tcTypeCheck = true
  nm : cfg.tcNameCheck = true

theorem fold4_append (L1 L2 : List TC) (s : S4) : fold4 (L1 ++ L2) s = (fold4 L1 s).bind (fold4 L2) := by
  induction L1 generalizing s with
  | nil => rfl
  | cons c L1 ih =>
    simp only [List.cons_append, fold4]
    cases acc4 s c with
    | none => rfl
    | some s' => exact ih s'

theorem goPick_empty (x : String) : goPick "" x = some x := by
  unfold goPick
  by_cases h : x = "" <;> simp [h]

theorem acc4_init (c : TC) : acc4 ("", "", "", "") c = some (c.args, c.id, c.type, c.name) := by
  unfold acc4
  simp only [goPick_empty]
  by_cases h : c.args = "" <;> simp [h]

theorem mergeChunks_single (c : TC) : mergeChunks [c] = some c := by
  simp [mergeChunks, fold4, acc4_init]

/-- one more chunk in the group: the model's `mergeTC` -/
theorem acc4_mergeTC (cfg : Cfg) (hk : Checks cfg) (g c : TC) :
    acc4 (g.args, g.id, g.type, g.name) c =
      match mergeTC cfg g c with
      | .ok g' => some (g'.args, g'.id, g'.type, g'.name)
      | .error _ => none := by
  unfold acc4 mergeTC
  simp only [goPick_pick, hk.id, hk.ty, hk.nm]
  cases h1 : pick true g.id c.id <;> simp only [bind, Except.bind]
  cases h2 : pick true g.type c.type <;> simp only []
  cases h3 : pick true g.name c.name <;> simp only [pure, Except.pure]
  by_cases ha : c.args = "" <;> simp [ha]

theorem mergeTC_keeps (cfg : Cfg) (g c g' : TC) (h : mergeTC cfg g c = .ok g') :
    g'.index = g.index ∧ g'.extra = g.extra := by
  unfold mergeTC at h
  cases h1 : pick cfg.tcIdCheck g.id c.id <;> simp [h1, bind, Except.bind] at h
  cases h2 : pick cfg.tcTypeCheck g.type c.type <;> simp [h2] at h
  cases h3 : pick cfg.tcNameCheck g.name c.name <;> simp [h3, pure, Except.pure] at h
  subst h; exact ⟨rfl, rfl⟩

/-- what `mergeChunks` of a non-empty group is, in terms of its first chunk -/
theorem mergeChunks_eq (c0 : TC) (rest : List TC) (g : TC) (h : mergeChunks (c0 :: rest) = some g) :
    fold4 rest (c0.args, c0.id, c0.type, c0.name) = some (g.args, g.id, g.type, g.name) ∧
    g.index = c0.index ∧ g.extra = c0.extra := by
  simp only [mergeChunks, fold4, acc4_init] at h
  cases hf : fold4 rest (c0.args, c0.id, c0.type, c0.name) with
  | none => simp [hf] at h
  | some s =>
    simp only [hf, Option.map_some, Option.some.injEq] at h
    subst h
    exact ⟨rfl, rfl, rfl⟩

theorem mergeChunks_snoc (cfg : Cfg) (hk : Checks cfg) (L : List TC) (g c : TC) (h : mergeChunks L = some g) :
    mergeChunks (L ++ [c]) = match mergeTC cfg g c with | .ok g' => some g' | .error _ => none := by
  cases L with
  | nil => simp [mergeChunks] at h
  | cons c0 rest =>
    obtain ⟨h1, h2, h3⟩ := mergeChunks_eq c0 rest g h
    simp only [List.cons_append, mergeChunks, fold4, acc4_init, fold4_append, h1, Option.bind_some,
      acc4_mergeTC cfg hk g c]
    cases hm : mergeTC cfg g c with
    | error e => simp
    | ok g' =>
      obtain ⟨k1, k2⟩ := mergeTC_keeps cfg g c g' hm
      simp only [Option.map_some, Option.some.injEq]
      cases g'; cases c0
      simp_all

theorem mergeChunks_sticky (L ext : List TC) (hne : L ≠ []) (h : mergeChunks L = none) :
    mergeChunks (L ++ ext) = none := by
  cases L with
  | nil => exact absurd rfl hne
  | cons c0 rest =>
    simp only [mergeChunks, Option.map_eq_none_iff] at h
    simp only [List.cons_append, mergeChunks, Option.map_eq_none_iff]
    have := fold4_append (c0 :: rest) ext ("", "", "", "")
    simp only [List.cons_append] at this
    rw [this, h]; rfl

theorem posChunks_snoc (cs : List TC) (ps : List Int) (L : List TC) (j : Int) (c : TC)
    (h : posChunks cs ps = some L) (hj : goIdx? cs j = some c) : posChunks cs (ps ++ [j]) = some (L ++ [c]) := by
  unfold posChunks at h ⊢
  induction ps generalizing L with
  | nil => simp at h; subst h; simp [hj]
  | cons p ps ih =>
    simp only [List.mapM_cons, List.cons_append] at h ⊢
    cases hp : goIdx? cs p with
    | none => simp [hp, bind, Option.bind] at h
    | some b =>
      cases hl : ps.mapM (fun n => goIdx? cs n) with
      | none => simp [hp, hl, bind, Option.bind] at h
      | some bs =>
        simp [hp, hl, bind, Option.bind, pure] at h
        subst h
        simp [hp, ih bs hl, bind, Option.bind, pure]

theorem insertG_error_spec (cfg : Cfg) (i : Int) (c : TC) (gs : List (Int × TC)) (e : Err)
    (h : insertG cfg i c gs = .error e) : ∃ g, (i, g) ∈ gs ∧ mergeTC cfg g c = .error e := by
  induction gs with
  | nil => simp [insertG] at h
  | cons hd rest ih =>
    obtain ⟨j0, g0⟩ := hd
    unfold insertG at h
    split at h
    · cases h
    · split at h
      · rename_i heq
        subst heq
        cases hm : mergeTC cfg g0 c with
        | ok g' => simp [hm, bind, Except.bind, pure, Except.pure] at h
        | error e' =>
          simp [hm, bind, Except.bind] at h
          subst h
          exact ⟨g0, List.mem_cons_self, hm⟩
      · cases hr : insertG cfg i c rest with
        | ok r => simp [hr, bind, Except.bind, pure, Except.pure] at h
        | error e' =>
          simp [hr, bind, Except.bind] at h
          subst h
          obtain ⟨g, hg, hm⟩ := ih hr
          exact ⟨g, List.mem_cons_of_mem _ hg, hm⟩

theorem groups_key_unique (gs : List (Int × TC)) (hs : GSorted gs) (k : Int) (g g' : TC)
    (h1 : (k, g) ∈ gs) (h2 : (k, g') ∈ gs) : g = g' := by
  have := key_inj gs (gsorted_pairwise gs hs) _ h1 _ h2 rfl
  exact (Prod.mk.injEq _ _ _ _ ▸ this).2

/-- entries under other keys survive `insertG` -/
theorem insertG_other (cfg : Cfg) (i : Int) (c : TC) (hc : c.index = some i) (gs gs' : List (Int × TC))
    (hi : GInv gs) (h : insertG cfg i c gs = .ok gs') (j : Int) (g : TC) (hj : j ≠ i) (hm : (j, g) ∈ gs) :
    (j, g) ∈ gs' := by
  obtain ⟨p, hp, hpk⟩ := (insertG_keys_sup cfg i c gs gs' h).2 (j, g) hm
  obtain ⟨pj, pg⟩ := p
  simp only at hpk
  subst hpk
  rcases insertG_spec cfg i c gs gs' hi.1 h pj pg hp with ⟨_, h2⟩ | ⟨h1, _⟩
  · rw [groups_key_unique gs hi.1 pj g pg hm h2]; exact hp
  · exact absurd h1 hj

/-! the simulation: after every prefix, the position map and the model's fold state describe the same groups -/

def Valid (cs : List TC) (ps : List Int) (L : List TC) : Prop := posChunks cs ps = some L ∧ L ≠ []

structure SimOk (cs : List TC) (m : PM) (s : TCState) : Prop where
  inv : SInv s
  nd : KeysND m
  fwd : ∀ k ps, (k, ps) ∈ m → ∃ L g, Valid cs ps L ∧ mergeChunks L = some g ∧ (k, g) ∈ s.groups
  bwd : ∀ k g, (k, g) ∈ s.groups → ∃ ps, (k, ps) ∈ m

structure SimErr (cs : List TC) (m : PM) : Prop where
  nd : KeysND m
  valid : ∀ k ps, (k, ps) ∈ m → ∃ L, Valid cs ps L
  bad : ∃ k ps L, (k, ps) ∈ m ∧ Valid cs ps L ∧ mergeChunks L = none

def Sim (cs : List TC) (m : PM) : Except Err TCState → Prop
  | .ok s => SimOk cs m s
  | .error _ => SimErr cs m

theorem SimOk.valid {cs : List TC} {m : PM} {s : TCState} (h : SimOk cs m s) :
    ∀ k ps, (k, ps) ∈ m → ∃ L, Valid cs ps L := by
  intro k ps hm
  obtain ⟨L, g, hv, _, _⟩ := h.fwd k ps hm
  exact ⟨L, hv⟩

theorem valid_snoc (cs : List TC) (m : PM) (hn : KeysND m) (hv : ∀ k ps, (k, ps) ∈ m → ∃ L, Valid cs ps L)
    (k j : Int) (c : TC) (hj : goIdx? cs j = some c) :
    ∃ L, Valid cs (m.getD' k [] ++ [j]) L := by
  by_cases hk : k ∈ m.map (·.1)
  · obtain ⟨e, he, hek⟩ := List.mem_map.mp hk
    obtain ⟨k0, ps⟩ := e
    simp only at hek; subst hek
    obtain ⟨L, h1, h2⟩ := hv k0 ps he
    rw [getD'_of_mem m hn k0 ps he]
    exact ⟨L ++ [c], posChunks_snoc cs ps L j c h1 hj, by simp⟩
  · rw [getD'_of_not_mem m k hk]
    exact ⟨[c], by simp [posChunks, hj], by simp⟩

/-- one chunk with an index, model state ok -/
theorem sim_step_ok (cfg : Cfg) (hk : Checks cfg) (cs : List TC) (m : PM) (s : TCState) (h : SimOk cs m s)
    (j k : Int) (c : TC) (hj : goIdx? cs j = some c) (hc : c.index = some k) :
    Sim cs (m.set k (m.getD' k [] ++ [j])) (stepTC cfg s c) := by
  have hstep : stepTC cfg s c = (do let g ← insertG cfg k c s.groups; pure { s with groups := g }) := by
    unfold stepTC; rw [hc]
  rw [hstep]
  cases hi : insertG cfg k c s.groups with
  | error e =>
    simp only [bind, Except.bind]
    obtain ⟨g, hg, hme⟩ := insertG_error_spec cfg k c s.groups e hi
    obtain ⟨ps, hps⟩ := h.bwd k g hg
    obtain ⟨L, g', hv, hmc, hg'⟩ := h.fwd k ps hps
    have hgg : g' = g := groups_key_unique s.groups h.inv.2.1 k g' g hg' hg
    subst hgg
    refine ⟨keysND_setK m k _ h.nd, ?_, ?_⟩
    · intro k' ps' hm'
      rcases mem_setK m k _ h.nd _ hm' with ⟨h1, _⟩ | h1
      · exact h.valid k' ps' h1
      · cases h1; exact valid_snoc cs m h.nd h.valid k j c hj
    · refine ⟨k, ps ++ [j], L ++ [c], ?_, ⟨posChunks_snoc cs ps L j c hv.1 hj, by simp⟩, ?_⟩
      · rw [getD'_of_mem m h.nd k ps hps]; exact mem_setK_self m k _
      · rw [mergeChunks_snoc cfg hk L g' c hmc, hme]
  | ok gs' =>
    simp only [bind, Except.bind, pure, Except.pure]
    have hinv' : SInv { s with groups := gs' } := ⟨h.inv.1, insertG_inv cfg k c hc _ _ h.inv.2 hi⟩
    obtain ⟨⟨pk, hpk, hpkk⟩, _⟩ := insertG_keys_sup cfg k c s.groups gs' hi
    obtain ⟨pk1, pkg⟩ := pk
    simp only at hpkk; subst hpkk
    refine ⟨hinv', keysND_setK m pk1 _ h.nd, ?_, ?_⟩
    · intro k' ps' hm'
      rcases mem_setK m pk1 _ h.nd _ hm' with ⟨h1, h2⟩ | h1
      · obtain ⟨L, g, hv, hmc, hg⟩ := h.fwd k' ps' h1
        exact ⟨L, g, hv, hmc, insertG_other cfg pk1 c hc s.groups gs' h.inv.2 hi k' g h2 hg⟩
      · cases h1
        by_cases hkm : pk1 ∈ m.map (·.1)
        · obtain ⟨e, he, hek⟩ := List.mem_map.mp hkm
          obtain ⟨k0, ps⟩ := e
          simp only at hek; subst hek
          obtain ⟨L, g, hv, hmc, hg⟩ := h.fwd k0 ps he
          rw [getD'_of_mem m h.nd k0 ps he]
          rcases insertG_spec cfg k0 c s.groups gs' h.inv.2.1 hi k0 pkg hpk with ⟨hne, _⟩ | ⟨_, ⟨_, hno⟩ | ⟨g0, hg0, hm0⟩⟩
          · exact absurd rfl hne
          · exact absurd rfl (hno (k0, g) hg)
          · have : g0 = g := groups_key_unique s.groups h.inv.2.1 k0 g0 g hg0 hg
            subst this
            refine ⟨L ++ [c], pkg, ⟨posChunks_snoc cs ps L j c hv.1 hj, by simp⟩, ?_, hpk⟩
            rw [mergeChunks_snoc cfg hk L g0 c hmc, hm0]
        · rw [getD'_of_not_mem m pk1 hkm]
          rcases insertG_spec cfg pk1 c s.groups gs' h.inv.2.1 hi pk1 pkg hpk with ⟨hne, _⟩ | ⟨_, ⟨hgc, _⟩ | ⟨g0, hg0, _⟩⟩
          · exact absurd rfl hne
          · subst hgc
            exact ⟨[pkg], pkg, ⟨by simp [posChunks, hj], by simp⟩, mergeChunks_single pkg, hpk⟩
          · obtain ⟨ps0, hps0⟩ := h.bwd pk1 g0 hg0
            exact absurd (List.mem_map_of_mem (f := (·.1)) hps0) hkm
    · intro k' g' hg'
      rcases insertG_spec cfg pk1 c s.groups gs' h.inv.2.1 hi k' g' hg' with ⟨hne, hold⟩ | ⟨heq, _⟩
      · obtain ⟨ps, hps⟩ := h.bwd k' g' hold
        exact ⟨ps, mem_setK_other m pk1 _ _ hps hne⟩
      · subst heq; exact ⟨_, mem_setK_self m k' _⟩

/-- one chunk with an index, model already failed -/
theorem sim_step_err (cs : List TC) (m : PM) (h : SimErr cs m)
    (j k : Int) (c : TC) (hj : goIdx? cs j = some c) :
    SimErr cs (m.set k (m.getD' k [] ++ [j])) := by
  refine ⟨keysND_setK m k _ h.nd, ?_, ?_⟩
  · intro k' ps' hm'
    rcases mem_setK m k _ h.nd _ hm' with ⟨h1, _⟩ | h1
    · exact h.valid k' ps' h1
    · cases h1; exact valid_snoc cs m h.nd h.valid k j c hj
  · obtain ⟨k0, ps0, L0, hm0, hv0, hb0⟩ := h.bad
    by_cases hkk : k0 = k
    · subst hkk
      refine ⟨k0, ps0 ++ [j], L0 ++ [c], ?_, ⟨posChunks_snoc cs ps0 L0 j c hv0.1 hj, by simp⟩,
        mergeChunks_sticky L0 [c] hv0.2 hb0⟩
      rw [getD'_of_mem m h.nd k0 ps0 hm0]; exact mem_setK_self m k0 _
    · exact ⟨k0, ps0, L0, mem_setK_other m k _ _ hm0 hkk, hv0, hb0⟩

theorem goIdx_append_self {α} (pre : List α) (c : α) (rest : List α) :
    goIdx? (pre ++ c :: rest) (pre.length : Int) = some c := by
  unfold goIdx?
  have : ¬ ((pre.length : Int) < 0) := by omega
  simp [this]

theorem sim_all (cfg : Cfg) (hk : Checks cfg) (cs : List TC) :
    ∀ (suffix pre : List TC), cs = pre ++ suffix → ∀ (m : PM) (r : Except Err TCState), Sim cs m r →
      Sim cs (posMapFrom (pre.length : Int) suffix m)
        (match r with | .ok s => suffix.foldlM (stepTC cfg) s | .error e => .error e) := by
  intro suffix
  induction suffix with
  | nil =>
    intro pre _ m r h
    cases r with
    | ok s => simpa [posMapFrom, pure, Except.pure] using h
    | error e => simpa [posMapFrom] using h
  | cons c rest ih =>
    intro pre hcs m r h
    have hidx : goIdx? cs (pre.length : Int) = some c := by rw [hcs]; exact goIdx_append_self pre c rest
    have hcast : (((pre ++ [c]).length : Nat) : Int) = (pre.length : Int) + 1 := by simp
    have hcs' : cs = (pre ++ [c]) ++ rest := by rw [hcs]; simp
    simp only [posMapFrom]
    cases hci : c.index with
    | none =>
      simp only
      cases r with
      | error e =>
        have := ih (pre ++ [c]) hcs' m (.error e) h
        rw [hcast] at this; exact this
      | ok s =>
        have hst : stepTC cfg s c = .ok { s with nils := s.nils ++ [c] } := by unfold stepTC; rw [hci]
        have h' : Sim cs m (.ok { s with nils := s.nils ++ [c] }) :=
          ⟨stepTC_inv cfg s _ c h.inv hst, h.nd, h.fwd, h.bwd⟩
        have := ih (pre ++ [c]) hcs' m _ h'
        rw [hcast] at this
        simpa [List.foldlM_cons, hst, bind, Except.bind] using this
    | some k =>
      simp only
      cases r with
      | error e =>
        have h' : Sim cs (m.set k (m.getD' k [] ++ [(pre.length : Int)])) (.error e) :=
          sim_step_err cs m h _ k c hidx
        have := ih (pre ++ [c]) hcs' _ (.error e) h'
        rw [hcast] at this; exact this
      | ok s =>
        have h' := sim_step_ok cfg hk cs m s h _ k c hidx hci
        have := ih (pre ++ [c]) hcs' _ _ h'
        rw [hcast] at this
        simp only [List.foldlM_cons, bind, Except.bind]
        cases hst : stepTC cfg s c with
        | ok s' => rw [hst] at this; exact this
        | error e => rw [hst] at this; exact this

theorem sim_init (cs : List TC) : Sim cs [] (.ok ⟨[], []⟩) :=
  ⟨sinv_init, (by simp [KeysND]), (by intro k ps h; cases h), (by intro k g h; cases h)⟩

theorem listRel_of_forall {α β : Type} (P : α → β → Prop) : ∀ (l : List α), (∀ a ∈ l, ∃ b, P a b) →
    ∃ lb, ListRel P l lb := by
  intro l
  induction l with
  | nil => intro _; exact ⟨[], ListRel.nil⟩
  | cons a l ih =>
    intro h
    obtain ⟨b, hb⟩ := h a List.mem_cons_self
    obtain ⟨lb, hlb⟩ := ih (fun x hx => h x (List.mem_cons_of_mem _ hx))
    exact ⟨b :: lb, ListRel.cons hb hlb⟩

theorem listRel_imp {α β : Type} {P Q : α → β → Prop} (hpq : ∀ a b, P a b → Q a b) {l : List α} {lb : List β}
    (h : ListRel P l lb) : ListRel Q l lb := by
  induction h with
  | nil => exact ListRel.nil
  | cons h _ ih => exact ListRel.cons (hpq _ _ h) ih

theorem mapM_none_of_rel {α : Type} (P : α → List TC → Prop) {es : List α} {Ls : List (List TC)}
    (h : ListRel P es Ls) (e : α) (he : e ∈ es) (hbad : ∀ L, P e L → mergeChunks L = none) :
    Ls.mapM mergeChunks = none := by
  induction h with
  | nil => cases he
  | @cons a L es Ls hp _ ih =>
    simp only [List.mapM_cons]
    rcases List.mem_cons.mp he with h1 | h1
    · subst h1; simp [hbad L hp, bind, Option.bind]
    · cases hm : mergeChunks L with
      | none => simp [bind, Option.bind]
      | some g => simp [bind, Option.bind, ih h1]

/-- **the Go shape is the model**: the groups the translated code merges, in the order the map is visited, are a
    permutation of the model's groups (and the merge fails exactly when the model's fold fails) -/
theorem go_shape_model (cfg : Cfg) (hk : Checks cfg) (order : PM → PM) (hperm : ∀ m, (order m).Perm m)
    (cs : List TC) :
    ∃ Ls, ListRel (fun e L => posChunks cs e.2 = some L ∧ L ≠ []) (order (posMapFrom 0 cs [])) Ls ∧
      match cs.foldlM (stepTC cfg) ⟨[], []⟩ with
      | .ok s => ∃ gs' : List (Int × TC), gs'.Perm s.groups ∧ Ls.mapM mergeChunks = some (gs'.map (·.2))
      | .error _ => Ls.mapM mergeChunks = none := by
  have hs := sim_all cfg hk cs cs [] rfl [] (.ok ⟨[], []⟩) (sim_init cs)
  simp only [List.length_nil, Int.natCast_zero] at hs
  generalize hM : posMapFrom 0 cs [] = M at hs
  have hmem : ∀ e, e ∈ order M ↔ e ∈ M := fun e => (hperm M).mem_iff
  cases hr : cs.foldlM (stepTC cfg) ⟨[], []⟩ with
  | error err =>
    rw [hr] at hs
    have hs' : SimErr cs M := hs
    obtain ⟨Ls, hLs⟩ := listRel_of_forall (fun (e : Int × List Int) L => Valid cs e.2 L) (order M)
      (fun e he => hs'.valid e.1 e.2 ((hmem e).mp he))
    refine ⟨Ls, hLs, ?_⟩
    obtain ⟨k0, ps0, L0, hm0, hv0, hb0⟩ := hs'.bad
    exact mapM_none_of_rel _ hLs (k0, ps0) ((hmem _).mpr hm0) (by
      intro L hL
      have : L = L0 := by
        have h1 := hL.1; have h2 := hv0.1
        rw [h1] at h2; exact Option.some.inj h2
      rw [this]; exact hb0)
  | ok s =>
    rw [hr] at hs
    have hs' : SimOk cs M s := hs
    obtain ⟨Ls, hLs⟩ := listRel_of_forall
      (fun (e : Int × List Int) L => Valid cs e.2 L ∧ ∃ g, mergeChunks L = some g ∧ (e.1, g) ∈ s.groups) (order M)
      (fun e he => by
        obtain ⟨L, g, hv, hm, hg⟩ := hs'.fwd e.1 e.2 ((hmem e).mp he)
        exact ⟨L, hv, g, hm, hg⟩)
    refine ⟨Ls, listRel_imp (fun _ _ h => h.1) hLs, ?_⟩
    -- the merged groups in visiting order
    have hbuild : ∀ (es : List (Int × List Int)) (Ls : List (List TC)),
        ListRel (fun (e : Int × List Int) L => Valid cs e.2 L ∧ ∃ g, mergeChunks L = some g ∧ (e.1, g) ∈ s.groups) es Ls →
        ∃ gs' : List (Int × TC), gs'.map (·.1) = es.map (·.1) ∧ (∀ p ∈ gs', p ∈ s.groups) ∧
          Ls.mapM mergeChunks = some (gs'.map (·.2)) := by
      intro es Ls h
      induction h with
      | nil => exact ⟨[], rfl, by simp, rfl⟩
      | @cons e L es Ls he _ ih =>
        obtain ⟨gs', h1, h2, h3⟩ := ih
        obtain ⟨_, g, hm, hg⟩ := he
        refine ⟨(e.1, g) :: gs', by simp [h1], ?_, by simp [List.mapM_cons, hm, h3, bind, Option.bind, pure]⟩
        intro p hp
        rcases List.mem_cons.mp hp with hp | hp
        · subst hp; exact hg
        · exact h2 p hp
    obtain ⟨gs', hk1, hk2, hk3⟩ := hbuild _ _ hLs
    refine ⟨gs', ?_, hk3⟩
    have hndK : ((order M).map (·.1)).Nodup := ((hperm M).map (fun x => x.1)).nodup_iff.mpr (by simpa [KeysND] using hs'.nd)
    have hnd1 : gs'.Nodup := by
      have : (gs'.map (·.1)).Nodup := by rw [hk1]; exact hndK
      exact List.Pairwise.of_map (fun p : Int × TC => p.1) (fun a b hab e => hab (by rw [e])) this
    have hnd2 : s.groups.Nodup := by
      have hp := gsorted_pairwise s.groups hs'.inv.2.1
      exact hp.imp (fun {a b} hab => by intro e; subst e; exact absurd hab (by omega))
    rw [List.perm_ext_iff_of_nodup hnd1 hnd2]
    intro p
    constructor
    · exact hk2 p
    · intro hp
      obtain ⟨pk, pg⟩ := p
      obtain ⟨ps, hps⟩ := hs'.bwd pk pg hp
      have hin : pk ∈ gs'.map (·.1) := by
        rw [hk1]; exact List.mem_map_of_mem (f := (·.1)) ((hmem (pk, ps)).mpr hps)
      obtain ⟨q, hq, hqk⟩ := List.mem_map.mp hin
      obtain ⟨qk, qg⟩ := q
      simp only at hqk; subst hqk
      have := groups_key_unique s.groups hs'.inv.2.1 qk qg pg (hk2 _ hq) hp
      subst this; exact hq

theorem nils_of_fold (cfg : Cfg) (cs : List TC) (s : TCState) (h : cs.foldlM (stepTC cfg) ⟨[], []⟩ = .ok s) :
    s.nils = nilsOf cs := by
  have hspec := foldlM_stepTC_spec cfg cs [] ⟨[], []⟩ s sinv_init ⟨rfl, by simp, by simp⟩ h
  rw [hspec.1]
  unfold nilsOf
  simp only [List.nil_append]
  apply List.filter_congr
  intro c _
  cases c.index <;> simp

/-- **`concatToolCalls` refines `concatTCGo`**: for every order in which the map of index groups is visited (any
    function returning a permutation of the map), there is a reordering `ord` of the model's groups — a
    permutation — such that the translated function returns exactly `concatTCGo cfg ord cs`; when the model
    fails, it returns one of the three "cannot concat" errors with a nil slice.  Never a panic. -/
theorem concatToolCalls_refines (ext : Ext V) (tcext : TCExt) (ex : Nat → GoMap V) (cfg : Cfg) (hk : Checks cfg)
    (hst : cfg.tcSortStable = true) (hperm : ∀ m, (tcext.rangeOrder m).Perm m) (cs : List TC) :
    ∃ ord : List (Int × TC) → List (Int × TC), (∀ l, (ord l).Perm l) ∧
      match concatTCGo cfg ord cs with
      | .ok out => concatToolCalls ext tcext (cs.map (enc ex)) = .ret (out.map (enc ex), none)
      | .error _ => ∃ E, IsConflict E ∧ concatToolCalls ext tcext (cs.map (enc ex)) = E := by
  obtain ⟨Ls, hLs, hmodel⟩ := go_shape_model cfg hk tcext.rangeOrder hperm cs
  have hgo := concatToolCalls_go ext tcext ex cs Ls hLs
  cases hf : cs.foldlM (stepTC cfg) ⟨[], []⟩ with
  | error e =>
    rw [hf] at hmodel
    rw [hmodel] at hgo
    refine ⟨fun l => l, fun l => List.Perm.refl l, ?_⟩
    simp only [concatTCGo, hf, bind, Except.bind]
    exact hgo
  | ok s =>
    rw [hf] at hmodel
    obtain ⟨gs', hp, hm⟩ := hmodel
    rw [hm] at hgo
    refine ⟨fun l => if l = s.groups then gs' else l, ?_, ?_⟩
    · intro l
      by_cases hl : l = s.groups
      · simp only [hl, if_true]; exact hp
      · simp only [hl, if_false]; exact List.Perm.refl l
    · simp only [concatTCGo, hf, bind, Except.bind, pure, Except.pure, finalSort, hst, if_true]
      rw [nils_of_fold cfg cs s hf]
      exact hgo

/-- … hence the specification-level `concatTC`: whatever order the map is visited in -/
theorem concatToolCalls_is_spec (ext : Ext V) (tcext : TCExt) (ex : Nat → GoMap V) (cfg : Cfg) (hk : Checks cfg)
    (hst : cfg.tcSortStable = true) (hperm : ∀ m, (tcext.rangeOrder m).Perm m) (cs : List TC) :
    match concatTC cfg cs with
    | .ok out => concatToolCalls ext tcext (cs.map (enc ex)) = .ret (out.map (enc ex), none)
    | .error _ => ∃ E, IsConflict E ∧ concatToolCalls ext tcext (cs.map (enc ex)) = E := by
  obtain ⟨ord, hord, h⟩ := concatToolCalls_refines ext tcext ex cfg hk hst hperm cs
  rw [concatTCGo_eq cfg hst ord hord cs] at h
  exact h

/-- the translated function never leaves the translated semantics -/
theorem concatToolCalls_total (ext : Ext V) (tcext : TCExt) (ex : Nat → GoMap V) (cfg : Cfg) (hk : Checks cfg)
    (hst : cfg.tcSortStable = true) (hperm : ∀ m, (tcext.rangeOrder m).Perm m) (cs : List TC) :
    ∃ res, concatToolCalls ext tcext (cs.map (enc ex)) = .ret res := by
  have h := concatToolCalls_is_spec ext tcext ex cfg hk hst hperm cs
  cases hc : concatTC cfg cs with
  | ok out => rw [hc] at h; exact ⟨_, h⟩
  | error e =>
    rw [hc] at h
    obtain ⟨E, hE, he⟩ := h
    rcases hE with rfl | rfl | rfl <;> exact ⟨_, he⟩

end EinoV.TransC14
