/-
  C06, family `fault`: lemmas about one call / a history of calls under a store that can fail
  (Model/C06Fault.lean).  The run loop is abstract (`run`); what is used of it are the two
  statements proved for `runI` in Proofs/C05.lean (`runI_interrupt_mem`, `runI_store_mem`).
-/
import EinoV.Model.C06Fault

namespace EinoV.Interrupt.Fault
open EinoV.Engine EinoV.Interrupt

variable {V S X : Type}

/-- what the theorems need of the run loop of a top-level run with an id -/
structure RunOK (run : V ⊕ Checkpoint V S X → Out V S X) : Prop where
  intr : ∀ inp info, Ev.interrupt info ∈ (run inp).evs ↔ ∃ cp, (run inp).res = .interrupted cp info
  store : ∀ inp, Ev.storeSet ∈ (run inp).evs ↔ ∃ cp info, (run inp).res = .interrupted cp info

theorem mem_filter_not_intrRet (evs : List (Ev V S X)) :
    (∀ info, Ev.interrupt info ∉ evs.filter (fun e => !Ev.isIntrRet e)) ∧
    Ev.storeSet ∉ evs.filter (fun e => !Ev.isIntrRet e) := by
  constructor
  · intro info h
    have := (List.mem_filter.mp h).2
    simp [Ev.isIntrRet] at this
  · intro h
    have := (List.mem_filter.mp h).2
    simp [Ev.isIntrRet] at this

/-- every case of `callF`, spelled out -/
theorem callF_cases (b : Bool) (plan : Plan) (run : V ⊕ Checkpoint V S X → Out V S X) (x : V) (st : Store V S X) :
    (plan.getFails st.gets = true ∧
      callF b plan run x st = ({ res := .readFailed, evs := [] }, { st with gets := st.gets + 1 })) ∨
    (plan.getFails st.gets = false ∧ (∀ cp info, (run (inpOf x st)).res ≠ .interrupted cp info) ∧
      callF b plan run x st =
        ({ res := .ran (run (inpOf x st)).res, evs := (run (inpOf x st)).evs }, { st with gets := st.gets + 1 })) ∨
    (∃ cp info, plan.getFails st.gets = false ∧ (run (inpOf x st)).res = .interrupted cp info ∧
      plan.setFails st.sets = false ∧
      callF b plan run x st =
        ({ res := .ran (.interrupted cp info), evs := (run (inpOf x st)).evs },
         { content := some cp, gets := st.gets + 1, sets := st.sets + 1 })) ∨
    (∃ cp info, plan.getFails st.gets = false ∧ (run (inpOf x st)).res = .interrupted cp info ∧
      plan.setFails st.sets = true ∧ b = true ∧
      callF b plan run x st =
        ({ res := .writeFailed, evs := (run (inpOf x st)).evs.filter (fun e => !Ev.isIntrRet e) },
         { st with gets := st.gets + 1, sets := st.sets + 1 })) ∨
    (∃ cp info, plan.getFails st.gets = false ∧ (run (inpOf x st)).res = .interrupted cp info ∧
      plan.setFails st.sets = true ∧ b = false ∧
      callF b plan run x st =
        ({ res := .ran (.interrupted cp info), evs := (run (inpOf x st)).evs.filter (fun e => !Ev.isStoreSet e) },
         { st with gets := st.gets + 1, sets := st.sets + 1 })) := by
  unfold callF
  by_cases hg : plan.getFails st.gets = true
  · left; simp [hg]
  · right
    have hg' : plan.getFails st.gets = false := by simpa using hg
    simp only [hg', Bool.false_eq_true, if_false]
    generalize run (inpOf x st) = o
    obtain ⟨res, evs⟩ := o
    cases res with
    | done v => left; refine ⟨trivial, ?_, rfl⟩; intro cp info h; cases h
    | failed e => left; refine ⟨trivial, ?_, rfl⟩; intro cp info h; cases h
    | interrupted cp info =>
      right
      by_cases hs : plan.setFails st.sets = true
      · right
        cases b
        · right; exact ⟨cp, info, trivial, rfl, hs, rfl, by simp [afterRun, hs]⟩
        · left; exact ⟨cp, info, trivial, rfl, hs, rfl, by simp [afterRun, hs]⟩
      · left
        have hs' : plan.setFails st.sets = false := by simpa using hs
        exact ⟨cp, info, trivial, rfl, hs', by simp [afterRun, hs']⟩

/-- one call, the error of the write being returned: the interrupt is returned exactly when the
    checkpoint was written, and then the store holds exactly the returned run's checkpoint; any other
    outcome leaves the store's content alone -/
theorem callF_exact (plan : Plan) (run : V ⊕ Checkpoint V S X → Out V S X) (h : RunOK run) (x : V) (st : Store V S X) :
    let p := callF true plan run x st
    ((∃ info, Ev.interrupt info ∈ p.1.evs) ↔ p.1.interrupted) ∧
    (Ev.storeSet ∈ p.1.evs ↔ p.1.interrupted) ∧
    (p.1.interrupted ↔ ∃ cp info, p.1.res = .ran (.interrupted cp info) ∧ p.2.content = some cp) ∧
    (¬ p.1.interrupted → p.2.content = st.content) ∧
    (p.1.res = .writeFailed ↔
      (plan.getFails st.gets = false ∧ plan.setFails st.sets = true ∧
        ∃ cp info, (run (inpOf x st)).res = .interrupted cp info)) := by
  intro p
  rcases callF_cases true plan run x st with ⟨hg, he⟩ | ⟨hg, hn, he⟩ | ⟨cp, info, hg, hr, hs, he⟩ |
      ⟨cp, info, hg, hr, hs, _, he⟩ | ⟨cp, info, hg, hr, hs, hb, he⟩
  · -- read failed
    have hp : p = _ := he
    rw [hp]
    have hni : ¬ FOut.interrupted ({ res := .readFailed, evs := [] } : FOut V S X) := by
      rintro ⟨_, _, h⟩; cases h
    refine ⟨⟨?_, fun hi => absurd hi hni⟩, ⟨?_, fun hi => absurd hi hni⟩, ⟨fun hi => absurd hi hni, ?_⟩, fun _ => rfl, ⟨?_, ?_⟩⟩
    · rintro ⟨_, h⟩; cases h
    · intro h; cases h
    · rintro ⟨_, _, h, _⟩; cases h
    · intro h; cases h
    · rintro ⟨h, _⟩; rw [hg] at h; cases h
  · -- the run did not interrupt
    have hp : p = _ := he
    rw [hp]
    have hni : ¬ FOut.interrupted ({ res := .ran (run (inpOf x st)).res, evs := (run (inpOf x st)).evs } : FOut V S X) := by
      rintro ⟨cp, info, h⟩
      injection h with h
      exact hn cp info h
    refine ⟨⟨?_, fun hi => absurd hi hni⟩, ⟨?_, fun hi => absurd hi hni⟩, ⟨fun hi => absurd hi hni, ?_⟩, fun _ => rfl, ⟨?_, ?_⟩⟩
    · rintro ⟨info, hm⟩
      obtain ⟨cp, hcp⟩ := (h.intr _ info).mp hm
      exact absurd hcp (hn cp info)
    · intro hm
      obtain ⟨cp, info, hcp⟩ := (h.store _).mp hm
      exact absurd hcp (hn cp info)
    · rintro ⟨cp, info, h, _⟩; exact absurd ⟨cp, info, h⟩ hni
    · intro h; cases h
    · rintro ⟨_, _, cp, info, h⟩; exact absurd h (hn cp info)
  · -- interrupted, written
    have hp : p = _ := he
    rw [hp]
    have hi : FOut.interrupted ({ res := .ran (.interrupted cp info), evs := (run (inpOf x st)).evs } : FOut V S X) :=
      ⟨cp, info, rfl⟩
    refine ⟨⟨fun _ => hi, fun _ => ⟨info, (h.intr _ info).mpr ⟨cp, hr⟩⟩⟩, ⟨fun _ => hi, fun _ => (h.store _).mpr ⟨cp, info, hr⟩⟩,
      ⟨fun _ => ⟨cp, info, rfl, rfl⟩, fun _ => hi⟩, fun hn => absurd hi hn, ⟨?_, ?_⟩⟩
    · intro h; cases h
    · rintro ⟨_, h, _⟩; rw [hs] at h; cases h
  · -- interrupted, write failed, error returned
    have hp : p = _ := he
    rw [hp]
    have hni : ¬ FOut.interrupted (V := V) (S := S) (X := X) ⟨.writeFailed, (run (inpOf x st)).evs.filter (fun e => !Ev.isIntrRet e)⟩ := by
      rintro ⟨_, _, h⟩; cases h
    have hf := mem_filter_not_intrRet (run (inpOf x st)).evs
    refine ⟨⟨?_, fun hi => absurd hi hni⟩, ⟨fun hm => absurd hm hf.2, fun hi => absurd hi hni⟩,
      ⟨fun hi => absurd hi hni, ?_⟩, fun _ => rfl, ⟨fun _ => ⟨hg, hs, cp, info, hr⟩, fun _ => rfl⟩⟩
    · rintro ⟨info, hm⟩; exact absurd hm (hf.1 info)
    · rintro ⟨_, _, h, _⟩; cases h
  · cases hb

/-- every entry of a history is one call on some store -/
theorem histF_mem (b : Bool) (plan : Plan) (run : V ⊕ Checkpoint V S X → Out V S X) (x : V) (n : Nat) (st : Store V S X)
    (p : FOut V S X × Store V S X) (hp : p ∈ histF b plan run x n st) :
    ∃ st0, p = callF b plan run x st0 := by
  induction n generalizing st with
  | zero => cases hp
  | succ n ih =>
    simp only [histF] at hp
    split at hp
    · rw [List.mem_singleton] at hp; exact ⟨st, hp⟩
    · rcases List.mem_cons.mp hp with h | h
      · exact ⟨st, h⟩
      · exact ih _ h

/-- what is stored under the id after a call, read off the call's result alone: the checkpoint of
    the interrupt it returned, otherwise what was there before -/
def cpAfter (prev : Option (Checkpoint V S X)) (o : FOut V S X) : Option (Checkpoint V S X) :=
  match o.res with
  | .ran (.interrupted cp _) => some cp
  | _ => prev

def scanCP (prev : Option (Checkpoint V S X)) : List (FOut V S X) → List (Option (Checkpoint V S X))
  | [] => []
  | o :: rest => cpAfter prev o :: scanCP (cpAfter prev o) rest

theorem callF_content (plan : Plan) (run : V ⊕ Checkpoint V S X → Out V S X) (x : V) (st : Store V S X) :
    (callF true plan run x st).2.content = cpAfter st.content (callF true plan run x st).1 := by
  rcases callF_cases true plan run x st with ⟨_, he⟩ | ⟨_, hn, he⟩ | ⟨cp, info, _, _, _, he⟩ |
      ⟨cp, info, _, _, _, _, he⟩ | ⟨cp, info, _, _, _, hb, _⟩
  · rw [he]; rfl
  · rw [he]
    cases hr : (run (inpOf x st)).res with
    | done v => rfl
    | failed e => rfl
    | interrupted cp info => exact absurd hr (hn cp info)
  · rw [he]; rfl
  · rw [he]; rfl
  · cases hb

/-- along a whole history: the store's content after every call is determined by the results the
    caller saw — the checkpoint of the latest interrupt that was returned (none before the first) -/
theorem histF_content (plan : Plan) (run : V ⊕ Checkpoint V S X → Out V S X) (x : V) (n : Nat) (st : Store V S X) :
    (histF true plan run x n st).map (fun p => p.2.content) =
      scanCP st.content ((histF true plan run x n st).map (fun p => p.1)) := by
  induction n generalizing st with
  | zero => rfl
  | succ n ih =>
    simp only [histF]
    split
    · simp only [List.map_cons, List.map_nil, scanCP, callF_content]
    · simp only [List.map_cons, scanCP, callF_content]
      rw [ih, callF_content]

end EinoV.Interrupt.Fault
