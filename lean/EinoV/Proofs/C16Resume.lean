/-
  C16 — lemmas about interrupted and resuming calls (Model/C16Resume.lean): a call in which only
  part of the nodes execute delivers to those nodes what the specification of `run` says, and –
  when the same call made fresh is accepted – exactly what the fresh call delivers to them.
-/
import EinoV.Model.C16Resume
import EinoV.Proofs.C16
import EinoV.Proofs.C16Keys

namespace EinoV.C16

theorem WNode.erase_key (n : WNode) : n.erase.key = n.key := by
  cases n <;> rfl

/-! ### a call that runs from START to END is `runW` -/

mutual
theorem runNodeWP_full {F : Facts} {K : KeyFacts} (R : ResumeFacts) (par : Paradigm) :
    ∀ (n : WNode) (pre : Path) (gH : List Nat) (opts : List Opt) (log : Log),
      runNodeWP F K R par pre gH opts log .full n = runNodeW F K par pre gH opts log n
  | .comp k ty w, pre, gH, opts, log => by simp [runNodeWP, runNodeW, Part.skips]
  | .pass k w, pre, gH, opts, log => by simp [runNodeWP, runNodeW]
  | .graph k ch w, pre, gH, opts, log => by
    simp only [runNodeWP, runNodeW, Part.skips, Part.restored, Bool.false_and, Bool.false_eq_true, if_false]
    cases extract F ch.erase (optsOf (deliver K par w (itemsFor log k))) with
    | error e => rfl
    | ok log' =>
      simp only []
      rw [runNodesWP_full R par ch]
      rfl
theorem runNodesWP_full {F : Facts} {K : KeyFacts} (R : ResumeFacts) (par : Paradigm) :
    ∀ (ns : WNodes) (pre : Path) (gH : List Nat) (opts : List Opt) (log : Log),
      runNodesWP F K R par pre gH opts log .full ns = runNodesW F K par pre gH opts log ns
  | .nil, pre, gH, opts, log => by simp [runNodesWP, runNodesW]
  | .cons n ns, pre, gH, opts, log => by
    simp only [runNodesWP, runNodesW, Part.node, Part.rest]
    rw [runNodeWP_full R par n, runNodesWP_full R par ns]
    rfl
end

theorem runWP_full {F : Facts} {K : KeyFacts} (R : ResumeFacts) (par : Paradigm) (g : WNodes)
    (opts : List Opt) : runWP F K R par .full g opts = runW F K par g opts := by
  unfold runWP runW
  cases extract F g.erase opts with
  | error e => rfl
  | ok log => simp only [runNodesWP_full R par g]; rfl

/-! ### whatever part of the nodes executes: every entry is as the specification of `run` says -/

mutual
theorem runNodeWP_sound {F : Facts} {K : KeyFacts} {R : ResumeFacts} (hT : F.typeCmpIdentity = true)
    (hI : F.typeCmpImplements = false) (hS : F.strip = 1) (hK : K.allForward)
    (hR : R.restoredTaskGetsNodeCallbacks = true) (par : Paradigm) :
    ∀ (n : WNode) (part : Part) (all : Nodes) (pre : Path) (gH : List Nat) (opts : List Opt) (log : Log)
      (out : List Entry),
      all.wf = true → extract F all opts = .ok log → n.erase ∈ all.toList →
      (∀ h ∈ graphHandlers opts, h ∈ gH) →
      runNodeWP F K R par pre gH opts log part n = .ok out → ∀ e ∈ out, EntrySpec all pre gH opts e
  | .comp k ty w, part, all, pre, gH, opts, log, out, hwf, he, hn, hG, hrun => by
    simp only [runNodeWP] at hrun
    split at hrun
    · cases hrun; intro e h; cases h
    · have : runNode F pre gH opts log (WNode.comp k ty w).erase = .ok out := by
        rw [← hrun]; simp [runNode, WNode.erase, deliver_of_all hK]
      exact runNode_sound hT hI hS _ all pre gH opts log out hwf he hn hG this
  | .pass k w, part, all, pre, gH, opts, log, out, hwf, he, hn, hG, hrun => by
    simp only [runNodeWP, Except.ok.injEq] at hrun
    subst hrun
    intro e h; cases h
  | .graph k ch w, part, all, pre, gH, opts, log, out, hwf, he, hn, hG, hrun => by
    simp only [WNode.erase] at hn
    have hfind := wf_find hwf hn
    simp only [Node.key] at hfind
    have hsub := subOf_of_extract hS hwf he hn
    simp only [runNodeWP, deliver_of_all hK, hR, Bool.not_true, Bool.and_false, Bool.false_eq_true, if_false] at hrun
    split at hrun
    · cases hrun; intro e h; cases h
    · split at hrun
      · cases hrun
      · rename_i log' he'
        split at hrun
        · cases hrun
        · rename_i es hes
          cases hrun
          have hG' : ∀ h ∈ graphHandlers (optsOf (itemsFor log k)),
              h ∈ (gH ++ nodeHandlers opts k) ++ graphHandlers (optsOf (itemsFor log k)) := by
            intro h hh; simp [hh]
          have ih := runNodesWP_sound hT hI hS hK hR par ch part ch.erase (pre ++ [k]) _ _ log' es
            (wf_child hwf hn) he' (fun _ h => h) hG' hes
          intro e hemem
          rcases List.mem_cons.mp hemem with rfl | hemem
          · refine ⟨[k], rfl, ⟨_, nodeAt_singleton hfind, Or.inr ⟨rfl, k, ch.erase, rfl, rfl⟩⟩, ?_⟩
            intro h
            have := sub_handlers hsub hG [] h
            simp only [coversD_nil, and_false, exists_false, or_false] at this
            exact this
          · obtain ⟨rel', hpath, ⟨n', hn', hkind⟩, hh⟩ := ih e hemem
            have hne := nodeAt_ne_nil hn'
            refine ⟨k :: rel', by simp [hpath], ⟨n', by rw [nodeAt_cons hfind hne]; exact hn', ?_⟩, ?_⟩
            · rcases hkind with ⟨hg, k', ty, rfl, hv⟩ | hgr
              · refine Or.inl ⟨hg, k', ty, rfl, ?_⟩
                intro v
                rw [hv v]
                exact sub_vals hsub rel' v ty
              · exact Or.inr hgr
            · intro h
              rw [hh h]
              exact sub_handlers hsub hG rel' h
theorem runNodesWP_sound {F : Facts} {K : KeyFacts} {R : ResumeFacts} (hT : F.typeCmpIdentity = true)
    (hI : F.typeCmpImplements = false) (hS : F.strip = 1) (hK : K.allForward)
    (hR : R.restoredTaskGetsNodeCallbacks = true) (par : Paradigm) :
    ∀ (ns : WNodes) (part : Part) (all : Nodes) (pre : Path) (gH : List Nat) (opts : List Opt) (log : Log)
      (out : List Entry),
      all.wf = true → extract F all opts = .ok log → (∀ n ∈ ns.erase.toList, n ∈ all.toList) →
      (∀ h ∈ graphHandlers opts, h ∈ gH) →
      runNodesWP F K R par pre gH opts log part ns = .ok out → ∀ e ∈ out, EntrySpec all pre gH opts e
  | .nil, part, all, pre, gH, opts, log, out, hwf, he, hns, hG, hrun => by
    simp only [runNodesWP, Except.ok.injEq] at hrun
    subst hrun
    intro e h; cases h
  | .cons n ns, part, all, pre, gH, opts, log, out, hwf, he, hns, hG, hrun => by
    simp only [runNodesWP] at hrun
    split at hrun
    · cases hrun
    · rename_i a ha
      split at hrun
      · cases hrun
      · rename_i b hb
        cases hrun
        intro e hemem
        rcases List.mem_append.mp hemem with h | h
        · exact runNodeWP_sound hT hI hS hK hR par n _ all pre gH opts log a hwf he
            (hns n.erase (by simp [WNodes.erase, Nodes.toList])) hG ha e h
        · exact runNodesWP_sound hT hI hS hK hR par ns _ all pre gH opts log b hwf he
            (fun m hm => hns m (by simp [WNodes.erase, Nodes.toList, hm])) hG hb e h
end

/-! ### against the same call made fresh -/

mutual
theorem runNodeWP_sublist {F : Facts} {K : KeyFacts} {R : ResumeFacts}
    (hR : R.restoredTaskGetsNodeCallbacks = true) (par : Paradigm) :
    ∀ (n : WNode) (part : Part) (pre : Path) (gH : List Nat) (opts : List Opt) (log : Log) (out : List Entry),
      runNodeW F K par pre gH opts log n = .ok out →
      ∃ outP, runNodeWP F K R par pre gH opts log part n = .ok outP ∧ outP.Sublist out
  | .comp k ty w, part, pre, gH, opts, log, out, hrun => by
    simp only [runNodeW, Except.ok.injEq] at hrun
    subst hrun
    simp only [runNodeWP]
    split
    · exact ⟨[], rfl, List.nil_sublist _⟩
    · exact ⟨_, rfl, List.Sublist.refl _⟩
  | .pass k w, part, pre, gH, opts, log, out, hrun => by
    simp only [runNodeW, Except.ok.injEq] at hrun
    subst hrun
    exact ⟨[], rfl, List.Sublist.refl _⟩
  | .graph k ch w, part, pre, gH, opts, log, out, hrun => by
    simp only [runNodeW] at hrun
    simp only [runNodeWP, hR, Bool.not_true, Bool.and_false, Bool.false_eq_true, if_false]
    split
    · exact ⟨[], rfl, List.nil_sublist _⟩
    · split at hrun
      · cases hrun
      · rename_i log' he'
        split at hrun
        · cases hrun
        · rename_i es hes
          cases hrun
          obtain ⟨esP, hP, hsl⟩ := runNodesWP_sublist (R := R) hR par ch part (pre ++ [k]) _ _ log' es hes
          simp only [he', hP]
          exact ⟨_, rfl, hsl.cons_cons _⟩
theorem runNodesWP_sublist {F : Facts} {K : KeyFacts} {R : ResumeFacts}
    (hR : R.restoredTaskGetsNodeCallbacks = true) (par : Paradigm) :
    ∀ (ns : WNodes) (part : Part) (pre : Path) (gH : List Nat) (opts : List Opt) (log : Log) (out : List Entry),
      runNodesW F K par pre gH opts log ns = .ok out →
      ∃ outP, runNodesWP F K R par pre gH opts log part ns = .ok outP ∧ outP.Sublist out
  | .nil, part, pre, gH, opts, log, out, hrun => by
    simp only [runNodesW, Except.ok.injEq] at hrun
    subst hrun
    exact ⟨[], rfl, List.Sublist.refl _⟩
  | .cons n ns, part, pre, gH, opts, log, out, hrun => by
    simp only [runNodesW] at hrun
    split at hrun
    · cases hrun
    · rename_i a ha
      split at hrun
      · cases hrun
      · rename_i b hb
        cases hrun
        obtain ⟨aP, h1, s1⟩ := runNodeWP_sublist (R := R) hR par n (part.node n.key) pre gH opts log a ha
        obtain ⟨bP, h2, s2⟩ := runNodesWP_sublist (R := R) hR par ns (part.rest n.key) pre gH opts log b hb
        simp only [runNodesWP, h1, h2]
        exact ⟨_, rfl, s1.append s2⟩
end

/-- if the call made fresh is accepted, the call in which only `part` executes is accepted and
    its entries are entries of the fresh call, in the same order -/
theorem runWP_sublist {F : Facts} {K : KeyFacts} {R : ResumeFacts}
    (hR : R.restoredTaskGetsNodeCallbacks = true) (par : Paradigm) (part : Part) (g : WNodes)
    (opts : List Opt) (out : List Entry) (hrun : runW F K par g opts = .ok out) :
    ∃ outP, runWP F K R par part g opts = .ok outP ∧ outP.Sublist out := by
  unfold runW at hrun
  unfold runWP
  split at hrun
  · cases hrun
  · rename_i log hlog
    split at hrun
    · cases hrun
    · rename_i es hes
      cases hrun
      obtain ⟨esP, hP, hsl⟩ := runNodesWP_sublist (R := R) hR par g part [] _ opts log es hes
      simp only [hlog, hP]
      exact ⟨_, rfl, hsl.cons_cons _⟩

/-- the entries of an accepted call, whatever part executes -/
theorem runWP_entries {F : Facts} {K : KeyFacts} {R : ResumeFacts} (hT : F.typeCmpIdentity = true)
    (hI : F.typeCmpImplements = false) (hS : F.strip = 1) (hK : K.allForward)
    (hR : R.restoredTaskGetsNodeCallbacks = true) (par : Paradigm) (part : Part) (g : WNodes)
    (hwf : g.erase.wf = true) (opts : List Opt) (out : List Entry)
    (hrun : runWP F K R par part g opts = .ok out) (e : Entry) (he : e ∈ out) :
    (e.path = [] ∧ e.isGraph = true ∧ e.vals = [] ∧ e.handlers = graphHandlers opts) ∨
    EntrySpec g.erase [] (graphHandlers opts) opts e := by
  unfold runWP at hrun
  split at hrun
  · cases hrun
  · rename_i log hlog
    split at hrun
    · cases hrun
    · rename_i es hes
      cases hrun
      rcases List.mem_cons.mp he with rfl | he
      · exact Or.inl ⟨rfl, rfl, rfl, rfl⟩
      · exact Or.inr (runNodesWP_sound hT hI hS hK hR par g part g.erase [] _ opts log es hwf hlog
          (fun _ h => h) (fun _ h => h) hes e he)

/-! ### the interrupt point executes: in the interrupted call and in the resuming call -/

theorem WNodes.erase_find_cons (n : WNode) (ns : WNodes) (k : Key) :
    (WNodes.cons n ns).erase.find k = if n.key = k then some n.erase else ns.erase.find k := by
  simp only [WNodes.erase, find_cons, WNode.erase_key]

mutual
theorem runNodeWP_point {F : Facts} {K : KeyFacts} {R : ResumeFacts} (par : Paradigm) :
    ∀ (n : WNode) (part : Part) (pre : Path) (gH : List Nat) (opts : List Opt) (log : Log) (out : List Entry),
      runNodeWP F K R par pre gH opts log part n = .ok out →
      (part = .full → n.erase.isPass = false → ∃ e ∈ out, e.path = pre ++ [n.key]) ∧
      (∀ k ch w rest n', n = .graph k ch w → (part = .stopAt rest ∨ part = .resumeAt rest) →
        nodeAt ch.erase rest = some n' → n'.isPass = false → ∃ e ∈ out, e.path = pre ++ k :: rest)
  | .comp k ty w, part, pre, gH, opts, log, out, hrun => by
    refine ⟨?_, by intro _ _ _ _ _ h; cases h⟩
    intro hp _
    subst hp
    simp only [runNodeWP, Part.skips, Bool.false_eq_true, if_false, Except.ok.injEq] at hrun
    subst hrun
    exact ⟨_, List.mem_singleton.mpr rfl, rfl⟩
  | .pass k w, part, pre, gH, opts, log, out, hrun => by
    refine ⟨fun _ h => by simp [WNode.erase, Node.isPass] at h, by intro _ _ _ _ _ h; cases h⟩
  | .graph k ch w, part, pre, gH, opts, log, out, hrun => by
    simp only [runNodeWP] at hrun
    constructor
    · intro hp _
      subst hp
      simp only [Part.skips, Bool.false_eq_true, if_false] at hrun
      split at hrun
      · cases hrun
      · split at hrun
        · cases hrun
        · cases hrun
          exact ⟨_, List.mem_cons_self, rfl⟩
    · intro k' ch' w' rest n' hn hpart hnode hnp
      cases hn
      have hsk : part.skips = false := by rcases hpart with h | h <;> (subst h; rfl)
      simp only [hsk, Bool.false_eq_true, if_false] at hrun
      split at hrun
      · cases hrun
      · rename_i log' _
        split at hrun
        · cases hrun
        · rename_i es hes
          cases hrun
          obtain ⟨e, he, hpath⟩ := runNodesWP_point par ch part (pre ++ [k]) _ _ log' es hes rest n' hpart hnode hnp
          exact ⟨e, List.mem_cons_of_mem _ he, by simp [hpath]⟩
theorem runNodesWP_point {F : Facts} {K : KeyFacts} {R : ResumeFacts} (par : Paradigm) :
    ∀ (ns : WNodes) (part : Part) (pre : Path) (gH : List Nat) (opts : List Opt) (log : Log) (out : List Entry),
      runNodesWP F K R par pre gH opts log part ns = .ok out →
      ∀ ip n', (part = .stopAt ip ∨ part = .resumeAt ip) → nodeAt ns.erase ip = some n' →
        n'.isPass = false → ∃ e ∈ out, e.path = pre ++ ip
  | .nil, part, pre, gH, opts, log, out, hrun => by
    intro ip n' _ h
    cases ip with
    | nil => simp [nodeAt] at h
    | cons k rest => simp [nodeAt, WNodes.erase, Nodes.find, Nodes.toList] at h
  | .cons n ns, part, pre, gH, opts, log, out, hrun => by
    simp only [runNodesWP] at hrun
    split at hrun
    · cases hrun
    · rename_i a ha
      split at hrun
      · cases hrun
      · rename_i b hb
        cases hrun
        intro ip n' hpart h hnp
        cases ip with
        | nil => simp [nodeAt] at h
        | cons k rest =>
          simp only [nodeAt, WNodes.erase_find_cons] at h
          by_cases hk : n.key = k
          · simp only [hk, if_true] at h
            obtain ⟨h1, h2⟩ := runNodeWP_point par n (part.node n.key) pre gH opts log a ha
            by_cases hr : rest = []
            · subst hr
              simp only [if_true, Option.some.injEq] at h
              subst h
              have hfull : part.node n.key = .full := by
                rcases hpart with hp | hp <;> (subst hp; simp [Part.node, hk])
              obtain ⟨e, he, hpath⟩ := h1 hfull hnp
              exact ⟨e, List.mem_append_left _ he, by rw [hpath, hk]⟩
            · simp only [hr, if_false] at h
              cases n with
              | comp k' ty w => simp [WNode.erase] at h
              | pass k' w => simp [WNode.erase] at h
              | graph k' ch w =>
                simp only [WNode.key] at hk
                subst hk
                simp only [WNode.erase] at h
                have hsub : part.node k' = .stopAt rest ∨ part.node k' = .resumeAt rest := by
                  rcases hpart with hp | hp
                  · left; subst hp; simp [Part.node, hr]
                  · right; subst hp; simp [Part.node, hr]
                obtain ⟨e, he, hpath⟩ := h2 k' ch w rest n' rfl hsub h hnp
                exact ⟨e, List.mem_append_left _ he, hpath⟩
          · simp only [hk, if_false] at h
            have hrest : part.rest n.key = part := by
              have hk' : ¬ k = n.key := fun x => hk x.symm
              rcases hpart with hp | hp <;> (subst hp; simp [Part.rest, hk'])
            rw [hrest] at hb
            have h' : nodeAt ns.erase (k :: rest) = some n' := by simpa only [nodeAt] using h
            obtain ⟨e, he, hpath⟩ := runNodesWP_point par ns part pre gH opts log b hb (k :: rest) n' hpart h' hnp
            exact ⟨e, List.mem_append_right _ he, hpath⟩
end

/-! ### sequences of calls with interrupts and resumes -/

/-- what each call of a sequence runs, given what is saved under the checkpoint id in use -/
def callsSpec (F : Facts) (K : KeyFacts) (R : ResumeFacts) (store : List Opt) :
    Option Path → List CallP → List (Except RunErr (List Entry))
  | _, [] => []
  | saved, c :: cs =>
    let r := runWP F K R c.par (c.ask.part saved) c.g (pick store c.ixs)
    r :: callsSpec F K R store (c.ask.savedAfter saved r) cs

theorem runCallsWP_copies {F : Facts} {K : KeyFacts} {R : ResumeFacts} (hC : F.nestedCopies = true) :
    ∀ (cs : List CallP) (saved : Option Path) (store : List Opt),
      runCallsWP F K R saved store cs = (callsSpec F K R store saved cs, store)
  | [], saved, store => rfl
  | c :: cs, saved, store => by
    simp only [runCallsWP, callsSpec, storeAfter, storeAfterAux_copies hC, runCallsWP_copies hC cs]

/-- a sequence of ordinary calls: every call is `runW` on its own options -/
theorem callsSpec_plain {F : Facts} {K : KeyFacts} (R : ResumeFacts) (store : List Opt) :
    ∀ (cs : List CallP) (saved : Option Path), (∀ c ∈ cs, c.ask = .plain) →
      callsSpec F K R store saved cs = cs.map (fun c => runW F K c.par c.g (pick store c.ixs))
  | [], _, _ => rfl
  | c :: cs, saved, h => by
    have hc : c.ask = .plain := h c (by simp)
    simp only [callsSpec, List.map_cons, hc, Ask.part, Ask.savedAfter, runWP_full]
    rw [callsSpec_plain R store cs saved (fun c' hc' => h c' (by simp [hc']))]

end EinoV.C16
