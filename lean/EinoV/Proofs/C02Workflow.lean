/-
  C02 (Workflow part) — proofs.
    A. workflow lowering: `compileW` yields exactly the declared control / data predecessor
       tables and edge lists.
    B. `calcNext = calcCore >>= classify`.
    C. two completed tasks commute (skip-free steps): `calcCore` on [a] then [b] reaches the
       same channels as on [a, b] (and, up to the order of the reported values, as [b] then [a]).
  Property statements are re-stated in EinoV/Props/C02.lean.
-/
import EinoV.Model.C02Workflow
import EinoV.Proofs.Assoc
import EinoV.Proofs.C01Refine
import EinoV.Proofs.C02

namespace EinoV.Engine

/-! ## A. lowering -/

theorem lookupList_addPred (m : List (Key × List Key)) (to from_ t : Key) :
    lookupList t (addPred m to from_) = if t = to then lookupList t m ++ [from_] else lookupList t m := by
  unfold lookupList addPred
  by_cases h : t = to
  · subst h; simp [alookup_aset_same]
  · simp [alookup_aset_other _ _ _ _ h, h]

theorem mem_lookupList_addPred (m : List (Key × List Key)) (to from_ t x : Key) :
    x ∈ lookupList t (addPred m to from_) ↔ x ∈ lookupList t m ∨ (t = to ∧ x = from_) := by
  rw [lookupList_addPred]
  by_cases h : t = to <;> simp [h]

/-- predecessor table built from the dependencies selected by `P` -/
theorem mem_fold_deps (P : WDep → Bool) (deps : List WDep) (m0 : List (Key × List Key)) (t x : Key) :
    x ∈ lookupList t (deps.foldl (fun m d => if P d then addPred m d.to d.from_ else m) m0)
      ↔ x ∈ lookupList t m0 ∨ ∃ d ∈ deps, P d = true ∧ d.to = t ∧ d.from_ = x := by
  induction deps generalizing m0 with
  | nil => simp
  | cons d rest ih =>
    simp only [List.foldl_cons]
    rw [ih]
    by_cases hp : P d = true
    · simp only [hp, ↓reduceIte, mem_lookupList_addPred, List.mem_cons, exists_eq_or_imp, true_and]
      constructor
      · rintro ((h | ⟨h1, h2⟩) | h)
        · exact Or.inl h
        · exact Or.inr (Or.inl ⟨h1.symm, h2.symm⟩)
        · exact Or.inr (Or.inr h)
      · rintro (h | ⟨h1, h2⟩ | h)
        · exact Or.inl (Or.inl h)
        · exact Or.inl (Or.inr ⟨h1.symm, h2.symm⟩)
        · exact Or.inr h
    · simp only [hp, Bool.false_eq_true, ↓reduceIte, List.mem_cons, exists_eq_or_imp, false_and, false_or]

theorem mem_fold_ends (ends : List Key) (from_ : Key) (m0 : List (Key × List Key)) (t x : Key) :
    x ∈ lookupList t (ends.foldl (fun m e => addPred m e from_) m0)
      ↔ x ∈ lookupList t m0 ∨ (t ∈ ends ∧ x = from_) := by
  induction ends generalizing m0 with
  | nil => simp
  | cons e rest ih =>
    simp only [List.foldl_cons]
    rw [ih, mem_lookupList_addPred]
    simp only [List.mem_cons]
    constructor
    · rintro ((h | ⟨h1, h2⟩) | ⟨h1, h2⟩)
      · exact Or.inl h
      · exact Or.inr ⟨Or.inl h1, h2⟩
      · exact Or.inr ⟨Or.inr h1, h2⟩
    · rintro (h | ⟨h1 | h1, h2⟩)
      · exact Or.inl (Or.inl h)
      · exact Or.inl (Or.inr ⟨h1, h2⟩)
      · exact Or.inr ⟨h1, h2⟩

theorem mem_fold_branches {V} (brs : List (Key × Branch V)) (m0 : List (Key × List Key)) (t x : Key) :
    x ∈ lookupList t (brs.foldl (fun m b => b.2.ends.foldl (fun m e => addPred m e b.1) m) m0)
      ↔ x ∈ lookupList t m0 ∨ ∃ b ∈ brs, b.1 = x ∧ t ∈ b.2.ends := by
  induction brs generalizing m0 with
  | nil => simp
  | cons b rest ih =>
    simp only [List.foldl_cons]
    rw [ih, mem_fold_ends]
    simp only [List.mem_cons, exists_eq_or_imp]
    constructor
    · rintro ((h | ⟨h1, h2⟩) | h)
      · exact Or.inl h
      · exact Or.inr (Or.inl ⟨h2.symm, h1⟩)
      · exact Or.inr (Or.inr h)
    · rintro (h | ⟨h1, h2⟩ | h)
      · exact Or.inl (Or.inl h)
      · exact Or.inl (Or.inr ⟨h2, h1.symm⟩)
      · exact Or.inr h

/-- control predecessors of `t` after lowering: the sources of its control dependencies
    (AddInput, AddDependency) and the nodes with a branch that has `t` as an end -/
theorem compileW_ctrlPreds {V} (ops : ValOps V) (w : WorkflowDef V) (t x : Key) :
    x ∈ lookupList t (compileW ops w).ctrlPreds ↔
      (∃ d ∈ w.deps, d.control = true ∧ d.to = t ∧ d.from_ = x) ∨
      (∃ b ∈ w.branches, b.1 = x ∧ t ∈ b.2.ends) := by
  show x ∈ lookupList t w.ctrlPreds ↔ _
  unfold WorkflowDef.ctrlPreds
  rw [mem_fold_branches, mem_fold_deps (fun d => d.control)]
  simp [lookupList, alookup]

/-- data predecessors of `t` after lowering: the sources of its data dependencies
    (AddInput, WithNoDirectDependency) — never a branch -/
theorem compileW_dataPreds {V} (ops : ValOps V) (w : WorkflowDef V) (t x : Key) :
    x ∈ lookupList t (compileW ops w).dataPreds ↔ ∃ d ∈ w.deps, d.data = true ∧ d.to = t ∧ d.from_ = x := by
  show x ∈ lookupList t w.dataPreds ↔ _
  unfold WorkflowDef.dataPreds
  rw [mem_fold_deps (fun d => d.data)]
  simp [lookupList, alookup]

theorem mem_dataOut {V} (w : WorkflowDef V) (k t : Key) :
    t ∈ w.dataOut k ↔ ∃ d ∈ w.deps, d.data = true ∧ d.from_ = k ∧ d.to = t := by
  unfold WorkflowDef.dataOut
  simp only [List.mem_map, List.mem_filter, Bool.and_eq_true, beq_iff_eq]
  constructor
  · rintro ⟨d, ⟨hd, h1, h2⟩, rfl⟩; exact ⟨d, hd, h2, h1, rfl⟩
  · rintro ⟨d, hd, h2, h1, rfl⟩; exact ⟨d, ⟨hd, h1, h2⟩, rfl⟩

theorem mem_ctrlOut {V} (w : WorkflowDef V) (k t : Key) :
    t ∈ w.ctrlOut k ↔ ∃ d ∈ w.deps, d.control = true ∧ d.from_ = k ∧ d.to = t := by
  unfold WorkflowDef.ctrlOut
  simp only [List.mem_map, List.mem_filter, Bool.and_eq_true, beq_iff_eq]
  constructor
  · rintro ⟨d, ⟨hd, h1, h2⟩, rfl⟩; exact ⟨d, hd, h2, h1, rfl⟩
  · rintro ⟨d, hd, h2, h1, rfl⟩; exact ⟨d, ⟨hd, h1, h2⟩, rfl⟩

/-- every node of the compiled runner (and START) carries exactly its declared out-edges,
    and its branches carry no data -/
theorem compileW_node {V} (ops : ValOps V) (w : WorkflowDef V) (n : Node V)
    (hn : n ∈ (compileW ops w).nodes ∨ n = (compileW ops w).start) :
    n.writeTo = w.dataOut n.key ∧ n.controls = w.ctrlOut n.key ∧
    (∀ b ∈ n.branches, b.noData = true) ∧
    n.branches.map (·.ends) = ((w.branches.filter (·.1 == n.key)).map (·.2.ends)) := by
  have key : ∀ k act, (w.mkNode k act).writeTo = w.dataOut k ∧ (w.mkNode k act).controls = w.ctrlOut k ∧
      (∀ b ∈ (w.mkNode k act).branches, b.noData = true) ∧
      (w.mkNode k act).branches.map (·.ends) = ((w.branches.filter (·.1 == k)).map (·.2.ends)) := by
    intro k act
    refine ⟨rfl, rfl, ?_, ?_⟩
    · intro b hb
      simp only [WorkflowDef.mkNode, WorkflowDef.branchesOf, List.mem_map] at hb
      obtain ⟨q, _, rfl⟩ := hb; rfl
    · simp [WorkflowDef.mkNode, WorkflowDef.branchesOf, List.map_map, Function.comp_def]
  rcases hn with hn | rfl
  · simp only [compileW, List.mem_map] at hn
    obtain ⟨p, _, rfl⟩ := hn
    exact key p.1 _
  · exact key START _

/-! ## B. `calcNext` is `calcCore` followed by the END check -/

theorem calcNext_eq_core {V} (ops : ValOps V) (r : Runner V) (cm : Chans V) (done : List (Done V)) :
    calcNext ops r cm done = (calcCore ops r cm done).bind classify := by
  unfold calcNext calcCore classify
  cases hr : resolve r cm done with
  | error e => rfl
  | ok res =>
    simp only [bind, Except.bind, pure, Except.pure]
    generalize getReady ops r.dag (updateDeps r (updateValues r res.cm res.writes) res.deps) = g
    obtain ⟨cm3, ready, bad⟩ := g
    cases bad with
    | true => rfl
    | false =>
      simp only [Bool.false_eq_true, ↓reduceIte]
      cases alookup END ready <;> rfl

end EinoV.Engine

namespace EinoV.Engine

/-! ## C. two completed tasks commute (skip-free steps) -/

/-! ### the dependency map, target by target -/

def gd (t : Key) (ds : List (Key × List Key)) : List Key := (alookup t ds).getD []

theorem gd_addDep (ds : List (Key × List Key)) (to f t : Key) :
    gd t (addDep ds to f) = if t = to then gd t ds ++ [f] else gd t ds := by
  unfold gd addDep
  by_cases h : t = to
  · subst h; simp [alookup_aset_same]
  · simp [alookup_aset_other _ _ _ _ h, h]

theorem gd_targets_fold (f : Key) (tg : List Key) (ds : List (Key × List Key)) (t : Key) :
    gd t (tg.foldl (fun ds k => addDep ds k f) ds) = gd t ds ++ List.replicate (tg.count t) f := by
  induction tg generalizing ds with
  | nil => simp
  | cons k rest ih =>
    simp only [List.foldl_cons]
    rw [ih, gd_addDep]
    by_cases h : t = k
    · subst h
      simp [List.replicate_succ]
    · have : (k == t) = false := by simpa using fun e => h e.symm
      simp [h, List.count_cons, this]

theorem nodup_keys_depsFold (f : Key) (tg : List Key) (ds : List (Key × List Key))
    (h : (akeys ds).Nodup) : (akeys (tg.foldl (fun ds k => addDep ds k f) ds)).Nodup := by
  induction tg generalizing ds with
  | nil => exact h
  | cons k rest ih => exact ih _ (nodup_akeys_aset _ _ _ h)

theorem reportDeps_nil {V} (dag : Bool) (c : Chan V) : c.reportDeps dag [] = c := by
  unfold Chan.reportDeps; split <;> (try split) <;> rfl

theorem gd_cons (t : Key) (w : Key × List Key) (rest : List (Key × List Key)) :
    gd t (w :: rest) = if (w.1 == t) = true then w.2 else gd t rest := by
  obtain ⟨k, l⟩ := w
  unfold gd
  by_cases h : (k == t) = true <;> simp [alookup, h]

/-- `updateDependencies` with distinct targets updates every channel independently -/
theorem updateDeps_map {V} (r : Runner V) (deps : List (Key × List Key)) (cm : Chans V)
    (hnd : (akeys deps).Nodup) :
    updateDeps r cm deps = cm.map (fun p =>
      (p.1, p.2.reportDeps r.dag ((gd p.1 deps).filter (lookupList p.1 r.ctrlPreds).contains))) := by
  unfold updateDeps
  induction deps generalizing cm with
  | nil =>
    simp only [List.foldl_nil, gd, alookup, Option.getD_none, List.filter_nil, reportDeps_nil]
    simp
  | cons w rest ih =>
    simp only [List.foldl_cons]
    simp only [akeys, List.map_cons, List.nodup_cons] at hnd
    rw [ih _ (by simpa [akeys] using hnd.2)]
    unfold modChan
    rw [List.map_map]
    apply List.map_congr_left
    intro p hp
    simp only [Function.comp]
    by_cases hk : p.1 = w.1
    · have hk' : (p.1 == w.1) = true := by simpa using hk
      have hk'' : (w.1 == p.1) = true := by simpa using hk.symm
      have hnone : gd p.1 rest = [] := by
        unfold gd; rw [alookup_none_of_not_mem]; rfl
        rw [hk]; simpa [akeys] using hnd.1
      simp only [hk', ↓reduceIte, gd_cons, hk'', hnone, List.filter_nil, reportDeps_nil]
      simp [hk]
    · have hk' : (p.1 == w.1) = false := by simpa using hk
      have hk'' : (w.1 == p.1) = false := by simpa using fun e => hk e.symm
      simp only [hk', Bool.false_eq_true, ↓reduceIte, gd_cons, hk'']

/-! ### a completion that reports no skip -/

/-- the completion `d` of node `n`: its branches select `sel` and leave no end unselected
    (in particular: a node without branches, `sel = []`) -/
structure SkipFree {V} (r : Runner V) (n : Node V) (d : Done V) (sel : List Key) : Prop where
  call : r.call? d.1 = some n
  select : selectOf n d.2 = .ok sel
  noSkip : skippedOf n sel = []

theorem skipFree_of_no_branches {V} (r : Runner V) (n : Node V) (d : Done V)
    (hc : r.call? d.1 = some n) (hb : n.branches = []) : SkipFree r n d [] := by
  refine ⟨hc, ?_, ?_⟩
  · simp [selectOf, hb, pure, Except.pure, bind, Except.bind]
  · simp [skippedOf, hb, List.eraseDups]

theorem calcBranch_skipFree {V} (r : Runner V) (n : Node V) (d : Done V) (sel : List Key)
    (h : SkipFree r n d sel) (cm : Chans V) : calcBranch r cm n d.2 = .ok (cm, sel) := by
  unfold calcBranch
  simp only [h.select, h.noSkip, bind, Except.bind, reportBranch, List.foldl_nil]
  cases (r.nodes.length + 2) * (r.nodes.length + 2) <;> simp [propagateSkips, pure, Except.pure]

theorem resolveStep_skipFree {V} (r : Runner V) (n : Node V) (d : Done V) (sel : List Key)
    (h : SkipFree r n d sel) (acc : Resolved V) :
    resolveStep r acc d = .ok
      { cm := acc.cm,
        writes := (sel ++ n.writeTo).foldl (fun ws k => addWrite ws k d.1 d.2) acc.writes,
        deps := (n.controls ++ sel).foldl (fun ds k => addDep ds k d.1) acc.deps } := by
  unfold resolveStep
  simp only [h.call, calcBranch_skipFree r n d sel h, bind, Except.bind, pure, Except.pure, List.foldl_append]

/-- what the completion reports to channel `k`: its value if `k` is a data successor … -/
def valsTo {V} (r : Runner V) (n : Node V) (sel : List Key) (d : Done V) (k : Key) : List (Key × V) :=
  (if (sel ++ n.writeTo).contains k then [(d.1, d.2)] else []).filter
    (fun kv => (lookupList k r.dataPreds).contains kv.1)

/-- … and its key once per control edge / selected branch end leading to `k` -/
def depsTo {V} (r : Runner V) (n : Node V) (sel : List Key) (d : Done V) (k : Key) : List Key :=
  (List.replicate ((n.controls ++ sel).count k) d.1).filter (lookupList k r.ctrlPreds).contains

/-- the effect of one skip-free completion on the channel `k` -/
def chanUpd {V} (r : Runner V) (n : Node V) (sel : List Key) (d : Done V) (k : Key) (c : Chan V) : Chan V :=
  (c.reportValues true (valsTo r n sel d k)).reportDeps true (depsTo r n sel d k)

theorem calcCore_single {V} (ops : ValOps V) (r : Runner V) (hdag : r.dag = true) (cm : Chans V)
    (n : Node V) (d : Done V) (sel : List Key) (h : SkipFree r n d sel) :
    calcCore ops r cm [d] =
      .ok (getReady ops true (cm.map (fun p => (p.1, chanUpd r n sel d p.1 p.2)))) := by
  unfold calcCore resolve
  simp only [List.foldlM_cons, List.foldlM_nil, resolveStep_skipFree r n d sel h, bind, Except.bind, pure, Except.pure]
  have hw : (akeys ((sel ++ n.writeTo).foldl (fun ws k => addWrite ws k d.1 d.2) ([] : List (Key × List (Key × V))))).Nodup :=
    nodup_keys_writesStep [] (d.1, d.2, sel ++ n.writeTo) (by simp [akeys])
  have hd : (akeys ((n.controls ++ sel).foldl (fun ds k => addDep ds k d.1) ([] : List (Key × List Key)))).Nodup :=
    nodup_keys_depsFold d.1 _ [] (by simp [akeys])
  rw [updateValues_map r _ cm hw, updateDeps_map r _ _ hd, List.map_map, hdag]
  congr 2
  apply List.map_congr_left
  intro p _
  simp only [Function.comp, chanUpd, valsTo, depsTo]
  rw [gl_targets_fold, gd_targets_fold]
  have : gl p.1 ([] : List (Key × List (Key × V))) = [] := rfl
  have hg : gd p.1 [] = [] := rfl
  rw [this, hg]
  simp [aset]

end EinoV.Engine

namespace EinoV.Engine

/-! ### the batch of two skip-free completions, channel by channel -/

theorem calcCore_pair {V} (ops : ValOps V) (r : Runner V) (hdag : r.dag = true) (cm : Chans V)
    (na nb : Node V) (a b : Done V) (selA selB : List Key)
    (ha : SkipFree r na a selA) (hb : SkipFree r nb b selB) (hne : a.1 ≠ b.1) :
    calcCore ops r cm [a, b] =
      .ok (getReady ops true (cm.map (fun p =>
        (p.1, (p.2.reportValues true (valsTo r na selA a p.1 ++ valsTo r nb selB b p.1)).reportDeps true
                (depsTo r na selA a p.1 ++ depsTo r nb selB b p.1))))) := by
  unfold calcCore resolve
  simp only [List.foldlM_cons, List.foldlM_nil, resolveStep_skipFree r na a selA ha,
    resolveStep_skipFree r nb b selB hb, bind, Except.bind, pure, Except.pure]
  have hw1 : (akeys ((selA ++ na.writeTo).foldl (fun ws k => addWrite ws k a.1 a.2) ([] : List (Key × List (Key × V))))).Nodup :=
    nodup_keys_writesStep [] (a.1, a.2, selA ++ na.writeTo) (by simp [akeys])
  have hw : (akeys ((selB ++ nb.writeTo).foldl (fun ws k => addWrite ws k b.1 b.2)
      ((selA ++ na.writeTo).foldl (fun ws k => addWrite ws k a.1 a.2) ([] : List (Key × List (Key × V)))))).Nodup :=
    nodup_keys_writesStep _ (b.1, b.2, selB ++ nb.writeTo) hw1
  have hd : (akeys ((nb.controls ++ selB).foldl (fun ds k => addDep ds k b.1)
      ((na.controls ++ selA).foldl (fun ds k => addDep ds k a.1) ([] : List (Key × List Key))))).Nodup :=
    nodup_keys_depsFold b.1 _ _ (nodup_keys_depsFold a.1 _ [] (by simp [akeys]))
  rw [updateValues_map r _ cm hw, updateDeps_map r _ _ hd, List.map_map, hdag]
  congr 2
  apply List.map_congr_left
  intro p _
  simp only [Function.comp, valsTo, depsTo]
  rw [gl_targets_fold, gl_targets_fold, gd_targets_fold, gd_targets_fold]
  have hgl : gl p.1 ([] : List (Key × List (Key × V))) = [] := rfl
  have hgd : gd p.1 [] = [] := rfl
  rw [hgl, hgd]
  have hab : (a.1 == b.1) = false := by simpa using hne
  have hv : (if (selB ++ nb.writeTo).contains p.1 = true then
        aset b.1 b.2 (if (selA ++ na.writeTo).contains p.1 = true then aset a.1 a.2 [] else [])
      else if (selA ++ na.writeTo).contains p.1 = true then aset a.1 a.2 [] else [])
      = (if (selA ++ na.writeTo).contains p.1 = true then [(a.1, a.2)] else []) ++
        (if (selB ++ nb.writeTo).contains p.1 = true then [(b.1, b.2)] else []) := by
    generalize (selA ++ na.writeTo).contains p.1 = cA
    generalize (selB ++ nb.writeTo).contains p.1 = cB
    cases cA <;> cases cB <;> simp [aset, hab]
  rw [hv, List.filter_append, List.nil_append, List.filter_append]

/-! ### channel operations: sequencing and commutation -/

/-- one value report (the body of `dagChannel.reportValues`' loop) -/
def fv {V} (c : Chan V) (kv : Key × V) : Chan V :=
  if (alookup kv.1 c.data).isSome then
    { c with data := aset kv.1 true c.data, values := aset kv.1 kv.2 c.values }
  else c

/-- one dependency report (the body of `dagChannel.reportDependencies`' loop) -/
def fd {V} (c : Chan V) (k : Key) : Chan V :=
  if (alookup k c.ctrl).isSome then { c with ctrl := aset k Dep.ready c.ctrl } else c

theorem reportValues_dag {V} (c : Chan V) (l : List (Key × V)) :
    c.reportValues true l = if c.skipped then c else l.foldl fv c := rfl

theorem reportDeps_dag {V} (c : Chan V) (l : List Key) :
    c.reportDeps true l = if c.skipped then c else l.foldl fd c := rfl

theorem fv_skipped {V} (c : Chan V) (kv : Key × V) : (fv c kv).skipped = c.skipped := by
  unfold fv; split <;> rfl

theorem fd_skipped {V} (c : Chan V) (k : Key) : (fd c k).skipped = c.skipped := by
  unfold fd; split <;> rfl

theorem foldl_fv_skipped {V} (l : List (Key × V)) (c : Chan V) : (l.foldl fv c).skipped = c.skipped := by
  induction l generalizing c with
  | nil => rfl
  | cons x t ih => simp [List.foldl_cons, ih, fv_skipped]

theorem foldl_fd_skipped {V} (l : List Key) (c : Chan V) : (l.foldl fd c).skipped = c.skipped := by
  induction l generalizing c with
  | nil => rfl
  | cons x t ih => simp [List.foldl_cons, ih, fd_skipped]

theorem reportValues_skipped {V} (c : Chan V) (l : List (Key × V)) :
    (c.reportValues true l).skipped = c.skipped := by
  rw [reportValues_dag]; split
  · rfl
  · exact foldl_fv_skipped l c

theorem reportDeps_skipped {V} (c : Chan V) (l : List Key) :
    (c.reportDeps true l).skipped = c.skipped := by
  rw [reportDeps_dag]; split
  · rfl
  · exact foldl_fd_skipped l c

theorem reportValues_append {V} (c : Chan V) (l1 l2 : List (Key × V)) :
    c.reportValues true (l1 ++ l2) = (c.reportValues true l1).reportValues true l2 := by
  rw [reportValues_dag c (l1 ++ l2), reportValues_dag c l1]
  by_cases h : c.skipped = true
  · simp [h, reportValues_dag]
  · simp only [h, Bool.false_eq_true, ↓reduceIte, List.foldl_append]
    rw [reportValues_dag, foldl_fv_skipped]
    simp [h]

theorem reportDeps_append {V} (c : Chan V) (l1 l2 : List Key) :
    c.reportDeps true (l1 ++ l2) = (c.reportDeps true l1).reportDeps true l2 := by
  rw [reportDeps_dag c (l1 ++ l2), reportDeps_dag c l1]
  by_cases h : c.skipped = true
  · simp [h, reportDeps_dag]
  · simp only [h, Bool.false_eq_true, ↓reduceIte, List.foldl_append]
    rw [reportDeps_dag, foldl_fd_skipped]
    simp [h]

theorem fd_fv_comm {V} (c : Chan V) (kv : Key × V) (k : Key) : fd (fv c kv) k = fv (fd c k) kv := by
  unfold fd fv
  by_cases h1 : (alookup kv.1 c.data).isSome = true <;> by_cases h2 : (alookup k c.ctrl).isSome = true <;>
    simp [h1, h2]

theorem foldl_step_comm {α β γ} (f : α → β → α) (g : α → γ → α) (hc : ∀ a x y, g (f a x) y = f (g a y) x)
    (m : List γ) (a : α) (x : β) : m.foldl g (f a x) = f (m.foldl g a) x := by
  induction m generalizing a with
  | nil => rfl
  | cons y s ih => simp only [List.foldl_cons]; rw [hc, ih]

theorem foldl_comm {α β γ} (f : α → β → α) (g : α → γ → α) (hc : ∀ a x y, g (f a x) y = f (g a y) x)
    (l : List β) (m : List γ) (a : α) : m.foldl g (l.foldl f a) = l.foldl f (m.foldl g a) := by
  induction l generalizing a with
  | nil => rfl
  | cons x t ih =>
    simp only [List.foldl_cons]
    rw [ih, foldl_step_comm f g hc]

/-- value reports and dependency reports of one channel commute -/
theorem reportDeps_reportValues_comm {V} (c : Chan V) (l : List (Key × V)) (m : List Key) :
    (c.reportValues true l).reportDeps true m = (c.reportDeps true m).reportValues true l := by
  rw [reportDeps_dag, reportValues_skipped, reportValues_dag (c.reportDeps true m), reportDeps_skipped]
  by_cases h : c.skipped = true
  · simp [h, reportValues_dag, reportDeps_dag]
  · simp only [h, Bool.false_eq_true, ↓reduceIte, reportValues_dag, reportDeps_dag]
    exact foldl_comm fv fd fd_fv_comm l m c

/-- the batch update of a channel is the update by `a` followed by the update by `b` -/
theorem chanUpd_pair {V} (r : Runner V) (na nb : Node V) (selA selB : List Key) (a b : Done V) (k : Key) (c : Chan V) :
    (c.reportValues true (valsTo r na selA a k ++ valsTo r nb selB b k)).reportDeps true
        (depsTo r na selA a k ++ depsTo r nb selB b k)
      = chanUpd r nb selB b k (chanUpd r na selA a k c) := by
  unfold chanUpd
  rw [reportValues_append, reportDeps_append, reportDeps_reportValues_comm _ (valsTo r nb selB b k)]

end EinoV.Engine

namespace EinoV.Engine

/-! ### what an update leaves alone -/

theorem alookup_some_mem {α} (k : Key) (l : List (Key × α)) (v : α) (h : alookup k l = some v) : (k, v) ∈ l := by
  induction l with
  | nil => simp [alookup] at h
  | cons p t ih =>
    obtain ⟨k', v'⟩ := p
    by_cases h1 : (k' == k) = true
    · have e : k' = k := by simpa using h1
      simp only [alookup, h1, ↓reduceIte, Option.some.injEq] at h
      simp [e, h]
    · simp only [alookup, h1, Bool.false_eq_true, ↓reduceIte] at h
      exact List.mem_cons_of_mem _ (ih h)

theorem mem_akeys_of_isSome {α} (k : Key) (l : List (Key × α)) (h : (alookup k l).isSome = true) : k ∈ akeys l := by
  apply Classical.byContradiction
  intro hn
  rw [alookup_none_of_not_mem k l hn] at h
  simp at h

theorem fv_ctrl {V} (c : Chan V) (kv : Key × V) : (fv c kv).ctrl = c.ctrl := by unfold fv; split <;> rfl
theorem fd_data {V} (c : Chan V) (k : Key) : (fd c k).data = c.data := by unfold fd; split <;> rfl

theorem alookup_fv_data {V} (c : Chan V) (kv : Key × V) (x : Key) (h : x ≠ kv.1) :
    alookup x (fv c kv).data = alookup x c.data := by
  unfold fv; split
  · exact alookup_aset_other _ _ _ _ h
  · rfl

theorem alookup_fd_ctrl {V} (c : Chan V) (k x : Key) (h : x ≠ k) :
    alookup x (fd c k).ctrl = alookup x c.ctrl := by
  unfold fd; split
  · exact alookup_aset_other _ _ _ _ h
  · rfl

theorem akeys_fv_data {V} (c : Chan V) (kv : Key × V) : akeys (fv c kv).data = akeys c.data := by
  unfold fv; split
  · rename_i h
    rw [akeys_aset]; simp [mem_akeys_of_isSome _ _ h]
  · rfl

theorem akeys_fd_ctrl {V} (c : Chan V) (k : Key) : akeys (fd c k).ctrl = akeys c.ctrl := by
  unfold fd; split
  · rename_i h
    rw [akeys_aset]; simp [mem_akeys_of_isSome _ _ h]
  · rfl

theorem foldl_fv_ctrl {V} (l : List (Key × V)) (c : Chan V) : (l.foldl fv c).ctrl = c.ctrl := by
  induction l generalizing c with
  | nil => rfl
  | cons x t ih => simp only [List.foldl_cons]; rw [ih, fv_ctrl]

theorem foldl_fd_data {V} (l : List Key) (c : Chan V) : (l.foldl fd c).data = c.data := by
  induction l generalizing c with
  | nil => rfl
  | cons x t ih => simp only [List.foldl_cons]; rw [ih, fd_data]

theorem reportValues_ctrl {V} (c : Chan V) (l : List (Key × V)) : (c.reportValues true l).ctrl = c.ctrl := by
  rw [reportValues_dag]; split
  · rfl
  · exact foldl_fv_ctrl l c

theorem reportDeps_data {V} (c : Chan V) (l : List Key) : (c.reportDeps true l).data = c.data := by
  rw [reportDeps_dag]; split
  · rfl
  · exact foldl_fd_data l c

theorem alookup_foldl_fv_data {V} (l : List (Key × V)) (c : Chan V) (x : Key) (h : ∀ kv ∈ l, x ≠ kv.1) :
    alookup x (l.foldl fv c).data = alookup x c.data := by
  induction l generalizing c with
  | nil => rfl
  | cons y t ih =>
    simp only [List.foldl_cons]
    rw [ih _ (fun kv hkv => h kv (List.mem_cons_of_mem _ hkv)), alookup_fv_data _ _ _ (h y (by simp))]

theorem alookup_foldl_fd_ctrl {V} (l : List Key) (c : Chan V) (x : Key) (h : ∀ k ∈ l, x ≠ k) :
    alookup x (l.foldl fd c).ctrl = alookup x c.ctrl := by
  induction l generalizing c with
  | nil => rfl
  | cons y t ih =>
    simp only [List.foldl_cons]
    rw [ih _ (fun k hk => h k (List.mem_cons_of_mem _ hk)), alookup_fd_ctrl _ _ _ (h y (by simp))]

theorem akeys_foldl_fv_data {V} (l : List (Key × V)) (c : Chan V) : akeys (l.foldl fv c).data = akeys c.data := by
  induction l generalizing c with
  | nil => rfl
  | cons y t ih => simp only [List.foldl_cons]; rw [ih, akeys_fv_data]

theorem akeys_foldl_fd_ctrl {V} (l : List Key) (c : Chan V) : akeys (l.foldl fd c).ctrl = akeys c.ctrl := by
  induction l generalizing c with
  | nil => rfl
  | cons y t ih => simp only [List.foldl_cons]; rw [ih, akeys_fd_ctrl]

theorem alookup_reportValues_data {V} (c : Chan V) (l : List (Key × V)) (x : Key) (h : ∀ kv ∈ l, x ≠ kv.1) :
    alookup x (c.reportValues true l).data = alookup x c.data := by
  rw [reportValues_dag]; split
  · rfl
  · exact alookup_foldl_fv_data l c x h

theorem alookup_reportDeps_ctrl {V} (c : Chan V) (l : List Key) (x : Key) (h : ∀ k ∈ l, x ≠ k) :
    alookup x (c.reportDeps true l).ctrl = alookup x c.ctrl := by
  rw [reportDeps_dag]; split
  · rfl
  · exact alookup_foldl_fd_ctrl l c x h

theorem akeys_reportValues_data {V} (c : Chan V) (l : List (Key × V)) :
    akeys (c.reportValues true l).data = akeys c.data := by
  rw [reportValues_dag]; split
  · rfl
  · exact akeys_foldl_fv_data l c

theorem akeys_reportDeps_ctrl {V} (c : Chan V) (l : List Key) :
    akeys (c.reportDeps true l).ctrl = akeys c.ctrl := by
  rw [reportDeps_dag]; split
  · rfl
  · exact akeys_foldl_fd_ctrl l c

theorem valsTo_keys {V} (r : Runner V) (n : Node V) (sel : List Key) (d : Done V) (k : Key) :
    ∀ kv ∈ valsTo r n sel d k, kv.1 = d.1 := by
  intro kv h
  unfold valsTo at h
  have := (List.mem_filter.mp h).1
  split at this <;> simp at this
  rw [this]

theorem depsTo_keys {V} (r : Runner V) (n : Node V) (sel : List Key) (d : Done V) (k : Key) :
    ∀ x ∈ depsTo r n sel d k, x = d.1 := by
  intro x h
  unfold depsTo at h
  exact (List.mem_replicate.mp (List.mem_filter.mp h).1).2

/-- an update by `d` does not touch the entries of another predecessor `x` -/
theorem chanUpd_other {V} (r : Runner V) (n : Node V) (sel : List Key) (d : Done V) (k : Key) (c : Chan V)
    (x : Key) (hx : x ≠ d.1) :
    alookup x (chanUpd r n sel d k c).ctrl = alookup x c.ctrl ∧
    alookup x (chanUpd r n sel d k c).data = alookup x c.data := by
  unfold chanUpd
  constructor
  · rw [alookup_reportDeps_ctrl _ _ _ (fun y hy => by rw [depsTo_keys r n sel d k y hy]; exact hx), reportValues_ctrl]
  · rw [reportDeps_data, alookup_reportValues_data _ _ _ (fun kv hkv => by rw [valsTo_keys r n sel d k kv hkv]; exact hx)]

theorem chanUpd_akeys {V} (r : Runner V) (n : Node V) (sel : List Key) (d : Done V) (k : Key) (c : Chan V) :
    akeys (chanUpd r n sel d k c).ctrl = akeys c.ctrl ∧ akeys (chanUpd r n sel d k c).data = akeys c.data := by
  unfold chanUpd
  exact ⟨by rw [akeys_reportDeps_ctrl, reportValues_ctrl], by rw [reportDeps_data, akeys_reportValues_data]⟩

/-! ### readiness -/

theorem not_triggered_of_ctrl_waiting {V} (c : Chan V) (k : Key) (h : alookup k c.ctrl = some Dep.waiting) :
    c.triggered = false := by
  have hm := alookup_some_mem _ _ _ h
  have : c.ctrl.any (fun p => p.2 == Dep.waiting) = true := List.any_eq_true.mpr ⟨_, hm, by simp⟩
  simp [Chan.triggered, this]

theorem not_triggered_of_data_false {V} (c : Chan V) (k : Key) (h : alookup k c.data = some false) :
    c.triggered = false := by
  have hm := alookup_some_mem _ _ _ h
  have : c.data.any (fun p => p.2 == false) = true := List.any_eq_true.mpr ⟨_, hm, by simp⟩
  unfold Chan.triggered
  rw [this]; simp

theorem reset_not_triggered {V} (c : Chan V) (h : akeys c.ctrl ≠ [] ∨ akeys c.data ≠ []) :
    c.reset.triggered = false := by
  rcases h with h | h
  · cases hc : c.ctrl with
    | nil => simp [akeys, hc] at h
    | cons p t => simp [Chan.triggered, Chan.reset, hc]
  · cases hc : c.data with
    | nil => simp [akeys, hc] at h
    | cons p t => simp [Chan.triggered, Chan.reset, hc]

theorem get_not_triggered {V} (ops : ValOps V) (c : Chan V) (h : c.triggered = false) :
    c.get ops true = (c, .notReady) := by
  simp [Chan.get, h]

theorem get_triggered {V} (ops : ValOps V) (c : Chan V) (h : c.triggered = true) :
    (c.get ops true).1 = c.reset := by
  simp [Chan.get, h]

end EinoV.Engine

namespace EinoV.Engine

/-! ### list level -/

def readyOf {V} (ops : ValOps V) (p : Key × Chan V) : Option (Key × V) :=
  match (p.2.get ops true).2 with | .ready v => some (p.1, v) | _ => none

def badOf {V} (ops : ValOps V) (p : Key × Chan V) : Bool :=
  match (p.2.get ops true).2 with | .mergeErr => true | _ => false

theorem getReady_dag {V} (ops : ValOps V) (cm : Chans V) :
    getReady ops true cm =
      (cm.map (fun p => (p.1, (p.2.get ops true).1)), cm.filterMap (readyOf ops), cm.any (badOf ops)) :=
  getReady_map ops true cm

theorem filterMap_perm_split {α β} (l : List α) (fa fb fab : α → Option β)
    (h : ∀ x ∈ l, (fa x = fab x ∧ fb x = none) ∨ (fa x = none ∧ fb x = fab x)) :
    (l.filterMap fab).Perm (l.filterMap fa ++ l.filterMap fb) := by
  induction l with
  | nil => simp
  | cons x t ih =>
    have iht := ih (fun y hy => h y (List.mem_cons_of_mem _ hy))
    rcases h x (by simp) with ⟨h1, h2⟩ | ⟨h1, h2⟩
    · cases hf : fab x with
      | none =>
        rw [List.filterMap_cons_none hf, List.filterMap_cons_none (h1 ▸ hf), List.filterMap_cons_none h2]
        exact iht
      | some y =>
        rw [List.filterMap_cons_some hf, List.filterMap_cons_some (h1 ▸ hf), List.filterMap_cons_none h2]
        exact List.Perm.cons y iht
    · cases hf : fab x with
      | none =>
        rw [List.filterMap_cons_none hf, List.filterMap_cons_none h1, List.filterMap_cons_none (h2 ▸ hf)]
        exact iht
      | some y =>
        rw [List.filterMap_cons_some hf, List.filterMap_cons_none h1, List.filterMap_cons_some (h2 ▸ hf)]
        exact (List.Perm.cons y iht).trans List.perm_middle.symm

theorem any_split {α} (l : List α) (fa fb fab : α → Bool) (h : ∀ x ∈ l, fab x = (fa x || fb x)) :
    l.any fab = (l.any fa || l.any fb) := by
  induction l with
  | nil => rfl
  | cons x t ih =>
    simp only [List.any_cons, h x (by simp), ih (fun y hy => h y (List.mem_cons_of_mem _ hy))]
    cases fa x <;> cases fb x <;> cases t.any fa <;> cases t.any fb <;> rfl

/-! ### the theorem -/

/-- the running task `d` has not yet reported to any channel it is going to report to
    (the invariant of a task between its submission and its completion) -/
def Pending {V} (r : Runner V) (n : Node V) (sel : List Key) (d : Done V) (cm : Chans V) : Prop :=
  ∀ p ∈ cm, (valsTo r n sel d p.1 ≠ [] → alookup d.1 p.2.data = some false) ∧
            (depsTo r n sel d p.1 ≠ [] → alookup d.1 p.2.ctrl = some Dep.waiting)

/-- every channel has at least one (control or data) predecessor -/
def AllHavePreds {V} (cm : Chans V) : Prop := ∀ p ∈ cm, akeys p.2.ctrl ≠ [] ∨ akeys p.2.data ≠ []

/-- per channel: resolving `a`, handing out the ready inputs, then resolving `b` and handing
    out again, against resolving both at once -/
theorem chan_seq_vs_batch {V} (ops : ValOps V) (r : Runner V) (na nb : Node V) (selA selB : List Key)
    (a b : Done V) (hne : a.1 ≠ b.1) (p : Key × Chan V)
    (hpend : (valsTo r nb selB b p.1 ≠ [] → alookup b.1 p.2.data = some false) ∧
             (depsTo r nb selB b p.1 ≠ [] → alookup b.1 p.2.ctrl = some Dep.waiting))
    (hpred : akeys p.2.ctrl ≠ [] ∨ akeys p.2.data ≠ []) :
    let c1 := chanUpd r na selA a p.1 p.2
    let g1 := c1.get ops true
    let g2 := (chanUpd r nb selB b p.1 g1.1).get ops true
    let gb := (chanUpd r nb selB b p.1 c1).get ops true
    g2.1 = gb.1 ∧ ((g1.2 = gb.2 ∧ g2.2 = .notReady) ∨ (g1.2 = .notReady ∧ g2.2 = gb.2)) := by
  intro c1 g1 g2 gb
  by_cases ht : c1.triggered = true
  · -- `a` alone makes the channel ready: then `b` does not report to it
    have hbv : valsTo r nb selB b p.1 = [] := by
      apply Classical.byContradiction
      intro hn
      have h1 := hpend.1 hn
      rw [← (chanUpd_other r na selA a p.1 p.2 b.1 (fun e => hne e.symm)).2] at h1
      rw [not_triggered_of_data_false c1 b.1 h1] at ht
      cases ht
    have hbd : depsTo r nb selB b p.1 = [] := by
      apply Classical.byContradiction
      intro hn
      have h1 := hpend.2 hn
      rw [← (chanUpd_other r na selA a p.1 p.2 b.1 (fun e => hne e.symm)).1] at h1
      rw [not_triggered_of_ctrl_waiting c1 b.1 h1] at ht
      cases ht
    have hid : ∀ c : Chan V, chanUpd r nb selB b p.1 c = c := by
      intro c; unfold chanUpd; rw [hbv, hbd, reportValues_nil, reportDeps_nil]
    have hg1 : g1.1 = c1.reset := get_triggered ops c1 ht
    have hk := chanUpd_akeys r na selA a p.1 p.2
    have hnt : c1.reset.triggered = false :=
      reset_not_triggered c1 (by rw [hk.1, hk.2]; exact hpred)
    have hg2 : g2 = (c1.reset, .notReady) := by
      show (chanUpd r nb selB b p.1 g1.1).get ops true = _
      rw [hid, hg1]; exact get_not_triggered ops _ hnt
    have hgb : gb = g1 := by
      show (chanUpd r nb selB b p.1 c1).get ops true = _
      rw [hid]
    refine ⟨by rw [hg2, hgb, hg1], Or.inl ⟨by rw [hgb], by rw [hg2]⟩⟩
  · have ht' : c1.triggered = false := by simpa using ht
    have hg1 : g1 = (c1, .notReady) := get_not_triggered ops c1 ht'
    have h2 : g2 = gb := by
      show (chanUpd r nb selB b p.1 g1.1).get ops true = _
      rw [hg1]
    exact ⟨by rw [h2], Or.inr ⟨by rw [hg1], by rw [h2]⟩⟩

/-- **two completions commute with the batch.** In an all-predecessor run, let `a` and `b` be
    completed tasks of different nodes whose completions report no skip, `b` still pending in
    the channels `cm`. Resolving `a`, handing out the ready inputs, then resolving `b` and
    handing out again reaches exactly the channels that resolving `[a, b]` at once reaches;
    the inputs handed out are the same (as a multiset), and a merge failure is seen by one
    iff it is seen by the other. -/
theorem calcCore_seq_eq_batch {V} (ops : ValOps V) (r : Runner V) (hdag : r.dag = true) (cm : Chans V)
    (na nb : Node V) (a b : Done V) (selA selB : List Key)
    (ha : SkipFree r na a selA) (hb : SkipFree r nb b selB) (hne : a.1 ≠ b.1)
    (hpend : Pending r nb selB b cm) (hpred : AllHavePreds cm) :
    ∃ cmA rdA badA cmAB rdB badB rdAB,
      calcCore ops r cm [a] = .ok (cmA, rdA, badA) ∧
      calcCore ops r cmA [b] = .ok (cmAB, rdB, badB) ∧
      calcCore ops r cm [a, b] = .ok (cmAB, rdAB, badA || badB) ∧
      rdAB.Perm (rdA ++ rdB) := by
  have hA := calcCore_single ops r hdag cm na a selA ha
  rw [getReady_dag] at hA
  have hB := calcCore_single ops r hdag
    ((cm.map (fun p => (p.1, chanUpd r na selA a p.1 p.2))).map (fun p => (p.1, (p.2.get ops true).1))) nb b selB hb
  rw [getReady_dag] at hB
  have hAB := calcCore_pair ops r hdag cm na nb a b selA selB ha hb hne
  rw [getReady_dag] at hAB
  have key : ∀ p ∈ cm, _ := fun p hp =>
    chan_seq_vs_batch ops r na nb selA selB a b hne p (hpend p hp) (hpred p hp)
  simp only [chanUpd_pair] at hAB
  refine ⟨_, _, _, _, _, _,
    List.filterMap (readyOf ops) (cm.map (fun p => (p.1, chanUpd r nb selB b p.1 (chanUpd r na selA a p.1 p.2)))),
    hA, hB, ?_, ?_⟩
  · rw [hAB]
    simp only [List.map_map, List.any_map]
    congr 2
    · apply List.map_congr_left
      intro p hp
      simp only [Function.comp]
      rw [(key p hp).1]
    · congr 1
      apply any_split
      intro p hp
      simp only [Function.comp, badOf]
      rcases (key p hp).2 with ⟨h1, h2⟩ | ⟨h1, h2⟩
      · rw [h2, ← h1]; cases ((chanUpd r na selA a p.1 p.2).get ops true).2 <;> rfl
      · rw [h1, h2]; cases ((chanUpd r nb selB b p.1 (chanUpd r na selA a p.1 p.2)).get ops true).2 <;> rfl
  · simp only [List.map_map, List.filterMap_map]
    apply filterMap_perm_split
    intro p hp
    simp only [Function.comp, readyOf]
    rcases (key p hp).2 with ⟨h1, h2⟩ | ⟨h1, h2⟩
    · left; rw [h2, h1]; exact ⟨rfl, rfl⟩
    · right; rw [h1, h2]; exact ⟨rfl, rfl⟩

end EinoV.Engine

namespace EinoV.Engine

/-! ### the two orders of a batch: same channels up to the order of the reported values -/

/-- channels that differ only in the order in which their values were reported
    (Go: `dagChannel.Values` is a map — no order at all) -/
structure ChanEquiv {V} (c c' : Chan V) : Prop where
  ctrl : c.ctrl = c'.ctrl
  data : c.data = c'.data
  skipped : c.skipped = c'.skipped
  values : c.values.Perm c'.values

theorem ChanEquiv.refl {V} (c : Chan V) : ChanEquiv c c := ⟨rfl, rfl, rfl, List.Perm.refl _⟩

/-- `mergeValues` does not depend on the order of its arguments (they come out of a Go map) -/
def MergePerm {V} (ops : ValOps V) : Prop := ∀ l l' : List V, l.Perm l' → ops.merge l = ops.merge l'

theorem collect_perm {V} (ops : ValOps V) (hm : MergePerm ops) (l l' : List V) (h : l.Perm l') :
    collect ops l = collect ops l' := by
  match l, l', h with
  | [], l', h => rw [List.nil_perm.mp h]
  | [v], l', h => rw [List.singleton_perm.mp h]
  | a :: b :: t, [], h => exact absurd h.length_eq (by simp)
  | a :: b :: t, [v], h => exact absurd h.length_eq (by simp)
  | a :: b :: t, a' :: b' :: t', h => simp only [collect, hm _ _ h]

theorem get_equiv {V} (ops : ValOps V) (hm : MergePerm ops) (c c' : Chan V) (h : ChanEquiv c c') :
    (c.get ops true).2 = (c'.get ops true).2 ∧ ChanEquiv (c.get ops true).1 (c'.get ops true).1 := by
  have ht : c.triggered = c'.triggered := by simp [Chan.triggered, h.ctrl, h.data, h.skipped]
  by_cases hc : c.triggered = true
  · have hc' : c'.triggered = true := ht ▸ hc
    have he : c.values.isEmpty = c'.values.isEmpty := by
      have := h.values.length_eq
      cases h1 : c.values <;> cases h2 : c'.values <;> simp_all
    have hr : c.get ops true =
        (c.reset, if c.values.isEmpty then .ready ops.zero else collect ops (c.values.map (·.2))) := by
      simp [Chan.get, hc]
    have hr' : c'.get ops true =
        (c'.reset, if c'.values.isEmpty then .ready ops.zero else collect ops (c'.values.map (·.2))) := by
      simp [Chan.get, hc']
    rw [hr, hr']
    constructor
    · show (if c.values.isEmpty then GetResult.ready ops.zero else collect ops (c.values.map (·.2))) = _
      rw [he]
      split
      · rfl
      · exact collect_perm ops hm _ _ (h.values.map _)
    · show ChanEquiv c.reset c'.reset
      exact ⟨by simp [Chan.reset, h.ctrl], by simp [Chan.reset, h.data], by simp [Chan.reset, h.skipped], by simp [Chan.reset]⟩
  · have hc1 : c.triggered = false := by simpa using hc
    have hc' : c'.triggered = false := ht ▸ hc1
    rw [get_not_triggered ops c hc1, get_not_triggered ops c' hc']
    exact ⟨rfl, h⟩

theorem aset_comm_present {α} (x y : Key) (v w : α) (l : List (Key × α)) (hne : x ≠ y)
    (hx : x ∈ akeys l) (hy : y ∈ akeys l) : aset x v (aset y w l) = aset y w (aset x v l) := by
  induction l with
  | nil => simp [akeys] at hx
  | cons p t ih =>
    obtain ⟨k, u⟩ := p
    by_cases hkx : (k == x) = true
    · have e : k = x := by simpa using hkx
      have hky : (k == y) = false := by simpa [e] using hne
      have hxy : (x == y) = false := by simpa using hne
      subst e
      simp [aset, hxy]
    · by_cases hky : (k == y) = true
      · have e : k = y := by simpa using hky
        have hyx : (y == x) = false := by simpa using fun e' => hne e'.symm
        subst e
        simp [aset, hyx]
      · have hx' : x ∈ akeys t := by
          simp only [akeys, List.map_cons, List.mem_cons] at hx
          rcases hx with e | h
          · exact absurd (by simpa using e.symm) hkx
          · exact h
        have hy' : y ∈ akeys t := by
          simp only [akeys, List.map_cons, List.mem_cons] at hy
          rcases hy with e | h
          · exact absurd (by simpa using e.symm) hky
          · exact h
        simp only [aset, hkx, hky, Bool.false_eq_true, ↓reduceIte]
        rw [ih hx' hy']

theorem aset_comm_perm {α} (x y : Key) (v w : α) (l : List (Key × α)) (hne : x ≠ y) :
    (aset x v (aset y w l)).Perm (aset y w (aset x v l)) := by
  induction l with
  | nil =>
    have h1 : (y == x) = false := by simpa using fun e => hne e.symm
    have h2 : (x == y) = false := by simpa using hne
    simp only [aset, h1, h2, Bool.false_eq_true, ↓reduceIte]
    exact List.Perm.swap _ _ _
  | cons p t ih =>
    obtain ⟨k, u⟩ := p
    by_cases hkx : (k == x) = true
    · have e : k = x := by simpa using hkx
      have hxy : (x == y) = false := by simpa using hne
      subst e
      simp [aset, hxy]
    · by_cases hky : (k == y) = true
      · have e : k = y := by simpa using hky
        have hyx : (y == x) = false := by simpa using fun e' => hne e'.symm
        subst e
        simp [aset, hyx]
      · simp only [aset, hkx, hky, Bool.false_eq_true, ↓reduceIte]
        exact List.Perm.cons _ ih

theorem isSome_alookup_aset {α} (x y : Key) (v : α) (l : List (Key × α)) (h : (alookup x l).isSome = true) :
    (alookup x (aset y v l)).isSome = true := by
  by_cases e : x = y
  · subst e; simp [alookup_aset_same]
  · rw [alookup_aset_other _ _ _ _ e]; exact h

theorem isSome_alookup_aset_iff {α} (x y : Key) (v : α) (l : List (Key × α)) (hy : (alookup y l).isSome = true) :
    (alookup x (aset y v l)).isSome = (alookup x l).isSome := by
  by_cases e : x = y
  · subst e; simp [alookup_aset_same, hy]
  · rw [alookup_aset_other _ _ _ _ e]

/-- two dependency reports commute -/
theorem fd_fd_comm {V} (c : Chan V) (x y : Key) : fd (fd c x) y = fd (fd c y) x := by
  by_cases e : x = y
  · subst e; rfl
  · unfold fd
    by_cases hx : (alookup x c.ctrl).isSome = true <;> by_cases hy : (alookup y c.ctrl).isSome = true
    · have hy' : (alookup y (aset x Dep.ready c.ctrl)).isSome = true := isSome_alookup_aset _ _ _ _ hy
      have hx' : (alookup x (aset y Dep.ready c.ctrl)).isSome = true := isSome_alookup_aset _ _ _ _ hx
      simp only [hx, hy, hy', hx', ↓reduceIte]
      rw [aset_comm_present y x _ _ _ (fun e' => e e'.symm) (mem_akeys_of_isSome _ _ hy) (mem_akeys_of_isSome _ _ hx)]
    · have hy' : (alookup y (aset x Dep.ready c.ctrl)).isSome = false := by
        rw [isSome_alookup_aset_iff _ _ _ _ hx]; simpa using hy
      simp [hx, hy, hy']
    · have hx' : (alookup x (aset y Dep.ready c.ctrl)).isSome = false := by
        rw [isSome_alookup_aset_iff _ _ _ _ hy]; simpa using hx
      simp [hx, hy, hx']
    · simp [hx, hy]

theorem reportDeps_comm {V} (c : Chan V) (l m : List Key) :
    (c.reportDeps true l).reportDeps true m = (c.reportDeps true m).reportDeps true l := by
  rw [reportDeps_dag (c.reportDeps true l), reportDeps_dag (c.reportDeps true m), reportDeps_skipped, reportDeps_skipped]
  by_cases h : c.skipped = true
  · simp [h, reportDeps_dag]
  · simp only [h, Bool.false_eq_true, ↓reduceIte, reportDeps_dag]
    exact foldl_comm fd fd (fun a x y => fd_fd_comm a x y) l m c

theorem fd_equiv {V} (c c' : Chan V) (h : ChanEquiv c c') (k : Key) : ChanEquiv (fd c k) (fd c' k) := by
  unfold fd
  rw [h.ctrl]
  split
  · exact ⟨by simp, h.data, h.skipped, h.values⟩
  · exact h

theorem foldl_fd_equiv {V} (l : List Key) (c c' : Chan V) (h : ChanEquiv c c') :
    ChanEquiv (l.foldl fd c) (l.foldl fd c') := by
  induction l generalizing c c' with
  | nil => exact h
  | cons k t ih => simp only [List.foldl_cons]; exact ih _ _ (fd_equiv c c' h k)

/-- dependency reports respect the equivalence -/
theorem reportDeps_equiv {V} (c c' : Chan V) (h : ChanEquiv c c') (l : List Key) :
    ChanEquiv (c.reportDeps true l) (c'.reportDeps true l) := by
  rw [reportDeps_dag, reportDeps_dag, h.skipped]
  split
  · exact h
  · exact foldl_fd_equiv l c c' h

/-- two value reports from different predecessors commute up to the order of the values -/
theorem fv_fv_equiv {V} (c : Chan V) (x y : Key × V) (hne : x.1 ≠ y.1) :
    ChanEquiv (fv (fv c x) y) (fv (fv c y) x) := by
  unfold fv
  by_cases hx : (alookup x.1 c.data).isSome = true <;> by_cases hy : (alookup y.1 c.data).isSome = true
  · have hy' : (alookup y.1 (aset x.1 true c.data)).isSome = true := isSome_alookup_aset _ _ _ _ hy
    have hx' : (alookup x.1 (aset y.1 true c.data)).isSome = true := isSome_alookup_aset _ _ _ _ hx
    simp only [hx, hy, hy', hx', ↓reduceIte]
    exact ⟨rfl, aset_comm_present _ _ _ _ _ (fun e => hne e.symm) (mem_akeys_of_isSome _ _ hy) (mem_akeys_of_isSome _ _ hx),
      rfl, aset_comm_perm _ _ _ _ _ (fun e => hne e.symm)⟩
  · have hy' : (alookup y.1 (aset x.1 true c.data)).isSome = false := by
      rw [isSome_alookup_aset_iff _ _ _ _ hx]; simpa using hy
    simp only [hx, hy, hy', Bool.false_eq_true, ↓reduceIte]
    exact ChanEquiv.refl _
  · have hx' : (alookup x.1 (aset y.1 true c.data)).isSome = false := by
      rw [isSome_alookup_aset_iff _ _ _ _ hy]; simpa using hx
    simp only [hx, hy, hx', Bool.false_eq_true, ↓reduceIte]
    exact ChanEquiv.refl _
  · simp only [hx, hy, Bool.false_eq_true, ↓reduceIte]
    exact ChanEquiv.refl _

theorem valsTo_cases {V} (r : Runner V) (n : Node V) (sel : List Key) (d : Done V) (k : Key) :
    valsTo r n sel d k = [] ∨ valsTo r n sel d k = [(d.1, d.2)] := by
  unfold valsTo
  generalize (sel ++ n.writeTo).contains k = c1
  cases c1
  · left; rfl
  · simp only [↓reduceIte, List.filter_cons, List.filter_nil]
    split
    · right; rfl
    · left; rfl

theorem reportValues_pair_equiv {V} (r : Runner V) (na nb : Node V) (selA selB : List Key) (a b : Done V)
    (hne : a.1 ≠ b.1) (k : Key) (c : Chan V) :
    ChanEquiv ((c.reportValues true (valsTo r na selA a k)).reportValues true (valsTo r nb selB b k))
              ((c.reportValues true (valsTo r nb selB b k)).reportValues true (valsTo r na selA a k)) := by
  rcases valsTo_cases r na selA a k with h1 | h1 <;> rcases valsTo_cases r nb selB b k with h2 | h2 <;>
    rw [h1, h2]
  · exact ChanEquiv.refl _
  · simp only [reportValues_nil]; exact ChanEquiv.refl _
  · simp only [reportValues_nil]; exact ChanEquiv.refl _
  · simp only [reportValues_dag, List.foldl_cons, List.foldl_nil]
    by_cases hs : c.skipped = true
    · simp only [hs, ↓reduceIte]; exact ChanEquiv.refl _
    · simp only [hs, Bool.false_eq_true, ↓reduceIte, fv_skipped]
      exact fv_fv_equiv c (a.1, a.2) (b.1, b.2) hne

/-- the effect of a batch on one channel does not depend on the order of the batch -/
theorem chanUpd_swap {V} (r : Runner V) (na nb : Node V) (selA selB : List Key) (a b : Done V)
    (hne : a.1 ≠ b.1) (k : Key) (c : Chan V) :
    ChanEquiv (chanUpd r nb selB b k (chanUpd r na selA a k c)) (chanUpd r na selA a k (chanUpd r nb selB b k c)) := by
  unfold chanUpd
  rw [← reportDeps_reportValues_comm _ (valsTo r nb selB b k) (depsTo r na selA a k)]
  rw [← reportDeps_reportValues_comm _ (valsTo r na selA a k) (depsTo r nb selB b k)]
  rw [reportDeps_comm _ (depsTo r na selA a k) (depsTo r nb selB b k)]
  exact reportDeps_equiv _ _ (reportDeps_equiv _ _ (reportValues_pair_equiv r na nb selA selB a b hne k c) _) _

/-- channel maps that differ only in the order of the reported values -/
def ChansEquiv {V} : Chans V → Chans V → Prop
  | [], [] => True
  | p :: t, p' :: t' => p.1 = p'.1 ∧ ChanEquiv p.2 p'.2 ∧ ChansEquiv t t'
  | _, _ => False

theorem chansEquiv_map {V} (cm : Chans V) (f g : Key × Chan V → Key × Chan V)
    (h : ∀ p, (f p).1 = (g p).1 ∧ ChanEquiv (f p).2 (g p).2) : ChansEquiv (cm.map f) (cm.map g) := by
  induction cm with
  | nil => exact True.intro
  | cons p t ih => exact ⟨(h p).1, (h p).2, ih⟩

/-- **the order of a batch does not matter.** Resolving `[a, b]` and `[b, a]` hands out the
    same inputs and reaches the same channels up to the order of the reported values. -/
theorem calcCore_batch_swap {V} (ops : ValOps V) (hm : MergePerm ops) (r : Runner V) (hdag : r.dag = true)
    (cm : Chans V) (na nb : Node V) (a b : Done V) (selA selB : List Key)
    (ha : SkipFree r na a selA) (hb : SkipFree r nb b selB) (hne : a.1 ≠ b.1) :
    ∃ cm1 cm2 rd bad,
      calcCore ops r cm [a, b] = .ok (cm1, rd, bad) ∧ calcCore ops r cm [b, a] = .ok (cm2, rd, bad) ∧
      ChansEquiv cm1 cm2 := by
  have h1 := calcCore_pair ops r hdag cm na nb a b selA selB ha hb hne
  have h2 := calcCore_pair ops r hdag cm nb na b a selB selA hb ha (fun e => hne e.symm)
  rw [getReady_dag] at h1 h2
  simp only [chanUpd_pair, List.map_map, List.filterMap_map, List.any_map] at h1 h2
  have key : ∀ p : Key × Chan V, _ := fun p =>
    get_equiv ops hm _ _ (chanUpd_swap r na nb selA selB a b hne p.1 p.2)
  refine ⟨_,
    cm.map ((fun p => (p.1, (p.2.get ops true).1)) ∘ fun p => (p.1, chanUpd r na selA a p.1 (chanUpd r nb selB b p.1 p.2))),
    _, _, h1, ?_, ?_⟩
  · rw [h2]
    congr 2
    congr 1
    · apply filterMap_congr'
      intro p _
      simp only [Function.comp, readyOf]
      rw [(key p).1]
    · apply any_congr'
      intro p _
      simp only [Function.comp, badOf]
      rw [(key p).1]
  · apply chansEquiv_map
    intro p
    exact ⟨rfl, (key p).2⟩

end EinoV.Engine

namespace EinoV.Engine

/-! ### the diamond: `a` then `b` against `b` then `a` -/

/-- **two completions commute.** `a` and `b`: completed tasks of different nodes, both still
    pending in `cm`, neither reporting a skip. Taking the completions one at a time in either
    order reaches the same channels (up to the order of the reported values), hands out the
    same inputs, and sees a merge failure in one order iff in the other. -/
theorem calcCore_diamond {V} (ops : ValOps V) (hm : MergePerm ops) (r : Runner V) (hdag : r.dag = true)
    (cm : Chans V) (na nb : Node V) (a b : Done V) (selA selB : List Key)
    (ha : SkipFree r na a selA) (hb : SkipFree r nb b selB) (hne : a.1 ≠ b.1)
    (hpa : Pending r na selA a cm) (hpb : Pending r nb selB b cm) (hpred : AllHavePreds cm) :
    ∃ cmA rdA badA cmAB rdB badB cmB rdB' badB' cmBA rdA' badA',
      calcCore ops r cm [a] = .ok (cmA, rdA, badA) ∧ calcCore ops r cmA [b] = .ok (cmAB, rdB, badB) ∧
      calcCore ops r cm [b] = .ok (cmB, rdB', badB') ∧ calcCore ops r cmB [a] = .ok (cmBA, rdA', badA') ∧
      ChansEquiv cmAB cmBA ∧ (rdA ++ rdB).Perm (rdB' ++ rdA') ∧ (badA || badB) = (badB' || badA') := by
  obtain ⟨cmA, rdA, badA, cmAB, rdB, badB, rdAB, h1, h2, h3, h4⟩ :=
    calcCore_seq_eq_batch ops r hdag cm na nb a b selA selB ha hb hne hpb hpred
  obtain ⟨cmB, rdB', badB', cmBA, rdA', badA', rdBA, g1, g2, g3, g4⟩ :=
    calcCore_seq_eq_batch ops r hdag cm nb na b a selB selA hb ha (fun e => hne e.symm) hpa hpred
  obtain ⟨cm1, cm2, rd, bad, s1, s2, s3⟩ := calcCore_batch_swap ops hm r hdag cm na nb a b selA selB ha hb hne
  rw [h3] at s1
  rw [g3] at s2
  simp only [Except.ok.injEq, Prod.mk.injEq] at s1 s2
  obtain ⟨e1, e2, e3⟩ := s1
  obtain ⟨f1, f2, f3⟩ := s2
  refine ⟨cmA, rdA, badA, cmAB, rdB, badB, cmB, rdB', badB', cmBA, rdA', badA', h1, h2, g1, g2, ?_, ?_, ?_⟩
  · rw [e1, f1]; exact s3
  · exact h4.symm.trans ((e2.trans f2.symm) ▸ g4)
  · rw [e3, f3]

theorem alookup_isSome_of_mem {α} (k : Key) (l : List (Key × α)) (h : k ∈ akeys l) : (alookup k l).isSome = true := by
  induction l with
  | nil => simp [akeys] at h
  | cons p t ih =>
    obtain ⟨k', v⟩ := p
    by_cases h1 : (k' == k) = true
    · simp [alookup, h1]
    · simp only [alookup, h1, Bool.false_eq_true, ↓reduceIte]
      apply ih
      simp only [akeys, List.map_cons, List.mem_cons] at h
      rcases h with e | h
      · exact absurd (by simpa using e.symm) h1
      · exact h

theorem alookup_none_iff {α} (k : Key) (l : List (Key × α)) : alookup k l = none ↔ k ∉ akeys l := by
  constructor
  · intro h hm
    have := alookup_isSome_of_mem k l hm
    rw [h] at this; cases this
  · exact alookup_none_of_not_mem k l

theorem classify_tasks {V} (x : Chans V × List (Key × V) × Bool) (cm : Chans V) (ts : List (Key × V)) :
    classify x = .ok (cm, .tasks ts) ↔ x.1 = cm ∧ x.2.1 = ts ∧ x.2.2 = false ∧ END ∉ akeys x.2.1 := by
  obtain ⟨c, rd, bad⟩ := x
  unfold classify
  cases bad with
  | true => simp
  | false =>
    simp only [Bool.false_eq_true, ↓reduceIte]
    cases hl : alookup END rd with
    | some v =>
      have : END ∈ akeys rd := by
        apply Classical.byContradiction; intro hn
        rw [alookup_none_of_not_mem _ _ hn] at hl; cases hl
      simp [this]
    | none =>
      have : END ∉ akeys rd := (alookup_none_iff END rd).mp hl
      simp [this]

theorem calcNext_tasks_iff {V} (ops : ValOps V) (r : Runner V) (cm : Chans V) (done : List (Done V))
    (cm' : Chans V) (ts : List (Key × V)) :
    calcNext ops r cm done = .ok (cm', .tasks ts) ↔
      calcCore ops r cm done = .ok (cm', ts, false) ∧ END ∉ akeys ts := by
  rw [calcNext_eq_core]
  cases hc : calcCore ops r cm done with
  | error e => simp [Except.bind]
  | ok x =>
    simp only [Except.bind, classify_tasks]
    obtain ⟨c, rd, bad⟩ := x
    simp only [Except.ok.injEq, Prod.mk.injEq]
    constructor
    · rintro ⟨h1, h2, h3, h4⟩; exact ⟨⟨h1, h2, h3⟩, h2 ▸ h4⟩
    · rintro ⟨⟨h1, h2, h3⟩, h4⟩; exact ⟨h1, h2, h3, h2 ▸ h4⟩

/-- **two completions commute — the run loop's view, when they do not race for END.**
    If taking `a` and then `b` (one completion at a time, as the eager loop does) neither
    returns a result nor fails, then so does taking `b` and then `a`, and so does the batch
    `[a, b]` (as `waitAll` would deliver them): the same tasks are submitted (as a multiset:
    same nodes, same inputs) and the channels agree. -/
theorem calcNext_diamond {V} (ops : ValOps V) (hm : MergePerm ops) (r : Runner V) (hdag : r.dag = true)
    (cm : Chans V) (na nb : Node V) (a b : Done V) (selA selB : List Key)
    (ha : SkipFree r na a selA) (hb : SkipFree r nb b selB) (hne : a.1 ≠ b.1)
    (hpa : Pending r na selA a cm) (hpb : Pending r nb selB b cm) (hpred : AllHavePreds cm)
    (cmA cmAB : Chans V) (tsA tsB : List (Key × V))
    (h1 : calcNext ops r cm [a] = .ok (cmA, .tasks tsA))
    (h2 : calcNext ops r cmA [b] = .ok (cmAB, .tasks tsB)) :
    (∃ ts, calcNext ops r cm [a, b] = .ok (cmAB, .tasks ts) ∧ ts.Perm (tsA ++ tsB)) ∧
    (∃ cmB cmBA tsB' tsA',
      calcNext ops r cm [b] = .ok (cmB, .tasks tsB') ∧ calcNext ops r cmB [a] = .ok (cmBA, .tasks tsA') ∧
      ChansEquiv cmAB cmBA ∧ (tsA ++ tsB).Perm (tsB' ++ tsA')) := by
  rw [calcNext_tasks_iff] at h1 h2
  obtain ⟨cmA', rdA, badA, cmAB', rdB, badB, cmB, rdB', badB', cmBA, rdA', badA', d1, d2, d3, d4, d5, d6, d7⟩ :=
    calcCore_diamond ops hm r hdag cm na nb a b selA selB ha hb hne hpa hpb hpred
  obtain ⟨_, _, _, _, _, _, rdAB, b1, b2, b3, b4⟩ :=
    calcCore_seq_eq_batch ops r hdag cm na nb a b selA selB ha hb hne hpb hpred
  rw [h1.1] at d1 b1
  simp only [Except.ok.injEq, Prod.mk.injEq] at d1 b1
  obtain ⟨e1, e2, e3⟩ := d1
  obtain ⟨e1', e2', e3'⟩ := b1
  subst e1 e2 e3 e1' e2' e3'
  rw [h2.1] at d2 b2
  simp only [Except.ok.injEq, Prod.mk.injEq] at d2 b2
  obtain ⟨f1, f2, f3⟩ := d2
  obtain ⟨f1', f2', f3'⟩ := b2
  subst f1 f2 f3 f1' f2' f3'
  have hEnd : END ∉ akeys (tsA ++ tsB) := by
    simp only [akeys, List.map_append, List.mem_append, not_or]
    exact ⟨by simpa [akeys] using h1.2, by simpa [akeys] using h2.2⟩
  have hmem : ∀ l : List (Key × V), l.Perm (tsA ++ tsB) → END ∉ akeys l := by
    intro l hl hm'
    apply hEnd
    unfold akeys at hm' ⊢
    exact (hl.map _).mem_iff.mp hm'
  constructor
  · refine ⟨rdAB, ?_, b4⟩
    rw [calcNext_tasks_iff]
    exact ⟨by simpa using b3, hmem _ b4⟩
  · have hb' : badB' = false ∧ badA' = false := by
      have : (badB' || badA') = false := by rw [← d7]; rfl
      simpa using this
    have hE2 := hmem _ d6.symm
    refine ⟨cmB, cmBA, rdB', rdA', ?_, ?_, d5, d6⟩
    · rw [calcNext_tasks_iff]
      refine ⟨by rw [d3, hb'.1], ?_⟩
      intro hx; apply hE2; simp only [akeys, List.map_append, List.mem_append]; left; simpa [akeys] using hx
    · rw [calcNext_tasks_iff]
      refine ⟨by rw [d4, hb'.2], ?_⟩
      intro hx; apply hE2; simp only [akeys, List.map_append, List.mem_append]; right; simpa [akeys] using hx

end EinoV.Engine

namespace EinoV.Engine

/-! ## D. the run-level goal (stated, not proved) and what it needs -/

/-- a chain of control predecessors (dependency edges and branch ends) from `x` to `t` -/
inductive CtrlPath {V} (w : WorkflowDef V) : Key → Key → Prop
  | edge {x t : Key} : x ∈ lookupList t w.ctrlPreds → CtrlPath w x t
  | step {x m t : Key} : x ∈ lookupList m w.ctrlPreds → CtrlPath w m t → CtrlPath w x t

/-- well-formed workflows: what `Workflow.compile` accepts, minus the two shapes with known
    findings (DESIGN.md §5): a node without a control path to END (C03: abandoned when the
    run returns) and a control dependency doubled by a branch end (C02: skip and dependency
    race on one channel entry — `edge_and_branch_schedule_dependent` in Props/C02.lean). -/
structure WorkflowDef.WF {V} (w : WorkflowDef V) : Prop where
  keysNodup : (w.nodes.map (·.1)).Nodup
  keysNotReserved : ∀ k ∈ w.nodes.map (·.1), k ≠ START ∧ k ≠ END
  depsKnown : ∀ d ∈ w.deps, (d.from_ = START ∨ d.from_ ∈ w.nodes.map (·.1)) ∧ (d.to = END ∨ d.to ∈ w.nodes.map (·.1))
  depsDistinct : ∀ d ∈ w.deps, d.control = true ∨ d.data = true
  branchesKnown : ∀ b ∈ w.branches, (b.1 = START ∨ b.1 ∈ w.nodes.map (·.1)) ∧
    ∀ e ∈ b.2.ends, e = END ∨ e ∈ w.nodes.map (·.1)
  condsInEnds : ∀ b ∈ w.branches, ∀ v ws, b.2.cond v = .ok ws → ∀ e ∈ ws, e ∈ b.2.ends
  acyclic : ∃ rank : Key → Nat, (∀ d ∈ w.deps, rank d.from_ < rank d.to) ∧
    (∀ b ∈ w.branches, ∀ e ∈ b.2.ends, rank b.1 < rank e)
  hasCtrlPred : ∀ k, (k = END ∨ k ∈ w.nodes.map (·.1)) → lookupList k w.ctrlPreds ≠ []
  reachesEnd : ∀ k ∈ w.nodes.map (·.1), CtrlPath w k END
  noEdgeAndBranch : ∀ d ∈ w.deps, d.control = true → ∀ b ∈ w.branches, b.1 = d.from_ → d.to ∉ b.2.ends

/-- **GOAL — eager confluence and agreement with the batch run** (not proved; the two-completion
    diamond `calcNext_diamond` is its induction step for skip-free completions; missing: the
    same step for completions whose branches report skips — commutation of the skip
    propagation work list — and the invariant `Pending ∧ AllHavePreds` along `eagerLoop`).

    For every well-formed workflow, input and pair of completion schedules: if the eager run
    succeeds under one schedule it succeeds under the other with the same result, the same
    node executions on the same inputs, nothing abandoned; and the batch run (`waitAll`, as a
    Graph in all-predecessor mode would run the same runner) returns the same result having
    executed the same nodes on the same inputs. -/
def EagerConfluenceGoal : Prop :=
  ∀ (V : Type) (ops : ValOps V), MergePerm ops → ∀ w : WorkflowDef V, w.WF →
    ∀ (x : V) (pick pick' : Pick V) (v : V),
      (runEager ops (compileW ops w) pick x).result = .ok v →
        (runEager ops (compileW ops w) pick' x).result = .ok v ∧
        (runEager ops (compileW ops w) pick x).submitted.Perm (runEager ops (compileW ops w) pick' x).submitted ∧
        (runEager ops (compileW ops w) pick x).abandoned = [] ∧
        (run ops (compileW ops w) x).result = .ok v ∧
        (run ops (compileW ops w) x).trace.flatten.Perm (runEager ops (compileW ops w) pick x).submitted

end EinoV.Engine

namespace EinoV.Engine

theorem foldl_add_perm (l l' : List Nat) (h : l.Perm l') (z : Nat) : l.foldl (· + ·) z = l'.foldl (· + ·) z := by
  induction h generalizing z with
  | nil => rfl
  | cons x _ ih => simp only [List.foldl_cons]; exact ih _
  | swap x y l => simp only [List.foldl_cons]; congr 1; omega
  | trans _ _ ih1 ih2 => exact (ih1 z).trans (ih2 z)

end EinoV.Engine
