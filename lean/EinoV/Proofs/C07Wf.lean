/- Helper lemmas for the Workflow part of C07: the builder invariant of Proofs/C20Infer.lean is
   kept by the calls `Workflow.compile` replays (edges with noControl / noData, branches without
   data flow), so what it hands out is a sound runner; and a DAG run of a sound runner never
   reaches a failing type assertion. -/
import EinoV.Model.C07Wf
import EinoV.Proofs.C07
import EinoV.Proofs.C20Infer

namespace EinoV.Build

/-! ### the invariant does not look at control edges, entry and exit lists -/

theorem Inv.ctl {im : Impl} {b : Builder} (h : Inv im b) (ce : List (Key × Key)) (sn en : List Key) :
    Inv im { b with controlEdges := ce, startNodes := sn, endNodes := en } :=
  ⟨⟨h.c.wf, h.c.i2, h.c.pn, h.c.conn⟩, h.brLen, h.br⟩

theorem Inv.noteEnds {im : Impl} {b : Builder} (h : Inv im b) (s e : Key) : Inv im (b.noteEnds s e) :=
  ⟨⟨h.c.wf, h.c.i2, h.c.pn, h.c.conn⟩, h.brLen, h.br⟩

theorem mapOk_ok {g : Builder → Builder} {r : Except ErrKind Builder} {b' : Builder}
    (h : mapOk g r = .ok b') : ∃ b3, r = .ok b3 ∧ b' = g b3 := by
  cases r with
  | error k => simp [mapOk] at h
  | ok b3 => simp only [mapOk, Except.ok.injEq] at h; exact ⟨b3, rfl, h.symm⟩

/-- the data half of `addEdgeWithMappings` (no field mappings) keeps the invariant -/
theorem dataPart_inv (im : Impl) (ord : Ord) (hv : ord.Valid) (b1 b' : Builder) (s e : Key)
    (h : Inv im b1)
    (hs : b1.hasNode s = true ∨ b1.nodeOut s ≠ none) (he : b1.hasNode e = true ∨ b1.nodeIn e ≠ none)
    (hb : (if b1.dataEdges.contains (s, e) then Except.error ErrKind.dupData
      else match update im ord (b1.addToValidate s { dst := e, mapped := none }) with
        | .error k => Except.error k
        | .ok b2 => (Except.ok ({ b2 with dataEdges := b2.dataEdges ++ [(s, e)] } : Builder) : Except ErrKind Builder))
      = .ok b') : Inv im b' := by
  split at hb
  · simp at hb
  · split at hb
    · simp at hb
    · rename_i b2 hupd
      simp only [Except.ok.injEq] at hb
      subst hb
      obtain ⟨hc2, hfr, hmo⟩ := data_step im ord hv b1 b2 [] s e h.c hs he hupd
      refine ⟨⟨hc2.wf, hc2.i2, hc2.pn, ?_⟩, ?_, ?_⟩
      · intro s' e' hc
        apply hc2.conn
        rcases hc with hc | hc
        · rcases hc with hc | hc
          · rcases List.mem_append.mp hc with hc | hc
            · exact Or.inl (Or.inl hc)
            · right; simpa using hc
          · exact Or.inl (Or.inr hc)
        · simp at hc
      · show b2.branches.length = b2.preBranch.length
        rw [hfr.branches, hfr.preBranch]; exact h.brLen
      · intro p hp
        have hp' : p ∈ b1.branches.zip (b1.preBranch.map (·.2)) := by
          have : b2.branches.zip (b2.preBranch.map (·.2)) = b1.branches.zip (b1.preBranch.map (·.2)) := by
            rw [hfr.branches, hfr.preBranch]
          rw [← this]; exact hp
        have hm' : Mono b1 b2 := ⟨hmo.tin, hmo.tout, hmo.may⟩
        have := (h.br p hp').mono hm'
        exact this

theorem src_typed_or_node (b : Builder) (s : Key) (h : ¬(!b.hasNode s && s != START) = true) :
    b.hasNode s = true ∨ b.nodeOut s ≠ none := by
  by_cases hh : b.hasNode s = true
  · exact Or.inl hh
  · right
    have : s = START := by simpa [hh] using h
    simp [Builder.nodeOut, this]

theorem dst_typed_or_node (b : Builder) (e : Key) (h : ¬(!b.hasNode e && e != END) = true) :
    b.hasNode e = true ∨ b.nodeIn e ≠ none := by
  by_cases hh : b.hasNode e = true
  · exact Or.inl hh
  · right
    have : e = END := by simpa [hh] using h
    unfold Builder.nodeIn
    by_cases h3 : e = START
    · simp [h3]
    · subst this; simp only [h3, ↓reduceIte]; simp

/-- `addEdgeWithMappings(s, e, noControl, noData)` without field mappings – every call the
    Workflow API makes for an unmapped input – keeps the invariant -/
theorem addEdgeBodyK_inv (inCtl : Bool) (im : Impl) (ord : Ord) (hv : ord.Valid) (b b' : Builder) (s e : Key)
    (nc nd : Bool) (h : Inv im b)
    (hb : addEdgeBodyK inCtl im ord b s e nc nd none = .ok b') : Inv im b' := by
  unfold addEdgeBodyK at hb
  split at hb
  · simp at hb
  · split at hb
    · simp at hb
    · split at hb
      · simp at hb
      · split at hb
        · simp at hb
        · rename_i _ _ hs2 he2
          have hs' := src_typed_or_node b s hs2
          have he' := dst_typed_or_node b e he2
          -- whatever the control half did, the state it leaves satisfies the invariant
          have key : ∀ (r1 : Except ErrKind Builder),
              (∀ b1, r1 = .ok b1 → Inv im b1 ∧ b1.nodes = b.nodes ∧ b1.inT = b.inT ∧ b1.outT = b.outT) →
              (match r1 with
                | .error k => Except.error k
                | .ok b1 =>
                  mapOk (fun b3 => if inCtl then b3 else b3.noteEnds s e) <|
                    if nd then .ok b1
                    else if b1.dataEdges.contains (s, e) then .error .dupData
                    else
                      match update im ord (b1.addToValidate s { dst := e, mapped := none }) with
                      | .error k => .error k
                      | .ok b2 => .ok { b2 with dataEdges := b2.dataEdges ++ [(s, e)] }) = .ok b' → Inv im b' := by
            intro r1 hr1 hb
            cases r1 with
            | error k => simp at hb
            | ok b1 =>
              obtain ⟨hi1, hn1, hin1, hout1⟩ := hr1 b1 rfl
              have hs1 : b1.hasNode s = true ∨ b1.nodeOut s ≠ none := by
                unfold Builder.hasNode Builder.nodeOut at hs' ⊢
                rw [hn1, hin1, hout1]; exact hs'
              have he1 : b1.hasNode e = true ∨ b1.nodeIn e ≠ none := by
                unfold Builder.hasNode Builder.nodeIn at he' ⊢
                rw [hn1, hin1, hout1]; exact he'
              obtain ⟨b3, hb3, rfl⟩ := mapOk_ok hb
              have hi3 : Inv im b3 := by
                split at hb3
                · simp only [Except.ok.injEq] at hb3; subst hb3; exact hi1
                · exact dataPart_inv im ord hv b1 b3 s e hi1 hs1 he1 hb3
              split
              · exact hi3
              · exact hi3.noteEnds s e
          refine key _ ?_ hb
          intro b1 hb1
          split at hb1
          · simp only [Except.ok.injEq] at hb1; subst hb1; exact ⟨h, rfl, rfl, rfl⟩
          · split at hb1
            · simp at hb1
            · simp only [Except.ok.injEq] at hb1
              subst hb1
              split
              · exact ⟨(h.ctl _ _ _).noteEnds s e, rfl, rfl, rfl⟩
              · exact ⟨h.ctl _ _ _, rfl, rfl, rfl⟩

theorem addEdgeK_inv (f : Facts) (inCtl : Bool) (im : Impl) (ord : Ord) (hv : ord.Valid) (b : Builder) (s e : Key)
    (nc nd : Bool) (h : Inv im b) : Inv im (addEdgeK f inCtl im ord b s e nc nd none).1 := by
  unfold addEdgeK
  split
  · exact h
  · split
    · exact h
    · split
      · exact h
      · apply guarded_preserves (P := Inv im) _ _ _ h (fun k => h.setErr k)
        intro b' hb
        exact addEdgeBodyK_inv inCtl im ord hv b b' s e nc nd h hb

/-! ### a branch without data flow -/

/-- `addBranch(s, branch, skipData = true)`: the condition is validated against the start
    node's type like that of a Graph branch; no end node is connected -/
theorem addBranch_skip_inv (f : Facts) (hg : f.branchGuarded = true) (hpr : f.branchPropagates = true)
    (im : Impl) (ord : Ord) (hv : ord.Valid) (b : Builder) (s : Key) (t : Ty) (ends : List Key)
    (h : Inv im b) : Inv im (addBranch f im ord b s t ends true).1 := by
  unfold addBranch
  apply guarded_preserves (P := Inv im) _ _ _ h (fun k => h.setErr k)
  intro b' hb
  unfold addBranchBody at hb
  simp only [hg, hpr, Bool.not_true, Bool.false_or, ↓reduceIte] at hb
  split at hb
  · simp at hb
  · split at hb
    · simp at hb
    · split at hb
      · simp at hb
      · rename_i hs1 hs2 hlen
        generalize hb1 : (if (s != START && isPassthrough b s && (b.nodeIn s).isNone) = true then b.setTy s t else b) = b1 at hb
        have hfacts : WF b1 ∧ Q b1 t ∧ PN b1 ∧ Mono b b1 ∧ Frame b b1 ∧ b1.toValidate = b.toValidate := by
          split at hb1
          · rename_i hcond
            subst hb1
            have hin : b.nodeIn s = none := by
              simp only [Bool.and_eq_true, Option.isNone_iff_eq_none] at hcond; exact hcond.2
            have hon : b.nodeOut s = none := (h.c.wf.untyped_iff s).mp hin
            have hst := StepT.setTy b s t (Or.inl hin) (Or.inl hon)
            exact ⟨h.c.wf.setTy s t, (h.c.i2.q t).step hst (fun _ _ hx => hx),
              h.c.pn.step hst.mono (Frame.setTy b s t) (fun _ _ hx => hx), hst.mono, Frame.setTy b s t, rfl⟩
          · subst hb1
            exact ⟨h.c.wf, h.c.i2.q t, h.c.pn, Mono.refl _, Frame.refl _, rfl⟩
        obtain ⟨hw1, hq1, hp1, hm1, hf1, htv1⟩ := hfacts
        -- what remains once the condition type has been accepted with converter flag `flag`
        have tail : ∀ flag : Bool,
            SoundBr im b1 { src := s, inTy := t, ends := ends, noData := true } flag →
            (match update im ord { b1 with preBranch := b1.preBranch ++ [(s, flag)] } with
              | .error k => Except.error k
              | .ok b3 =>
                (Except.ok ({ b3 with branches := b3.branches ++ [({ src := s, inTy := t, ends := ends, noData := true } : BranchRec)] } : Builder)
                  : Except ErrKind Builder)) = .ok b' → Inv im b' := by
          intro flag hsb1 hb
          split at hb
          · simp at hb
          · rename_i b3 hupd
            simp only [Except.ok.injEq] at hb
            subst hb
            let b2 : Builder := { b1 with preBranch := b1.preBranch ++ [(s, flag)] }
            have hw2 : WF b2 := hw1
            have hq2 : Q b2 t := hq1
            have hp2 : PN b2 := hp1
            obtain ⟨hu, hi3, hpn3⟩ := update_spec im ord hv t b2 b3 hw2 hq2 hp2 hupd
            have hm13 : Mono b1 b3 := ⟨hu.step.mono.tin, hu.step.mono.tout, hu.step.mono.may⟩
            have hde3 : b3.dataEdges = b.dataEdges := by rw [hu.frame.dataEdges]; exact hf1.dataEdges
            have hbr3 : b3.branches = b.branches := by rw [hu.frame.branches]; exact hf1.branches
            have hpb3 : b3.preBranch = b.preBranch ++ [(s, flag)] := by
              rw [hu.frame.preBranch]; show b1.preBranch ++ [(s, flag)] = _; rw [hf1.preBranch]
            have hm03 : Mono b b3 := hm1.trans hm13
            refine ⟨⟨hu.wf, hi3, hpn3, ?_⟩, ?_, ?_⟩
            · intro s' e' hc
              rcases hc with hc | hc
              · have hcb : Conn b s' e' := by
                  rcases hc with hc | ⟨br, hbrm, hb1', hb2, hb3⟩
                  · left; rw [← hde3]; exact hc
                  · rcases List.mem_append.mp hbrm with hbrm | hbrm
                    · right; exact ⟨br, by rw [← hbr3]; exact hbrm, hb1', hb2, hb3⟩
                    · simp only [List.mem_singleton] at hbrm
                      subst hbrm
                      simp at hb3
                rcases h.c.conn s' e' (Or.inl hcb) with ⟨x, hx, hd⟩ | hsd
                · have hx1 : x ∈ getSlice b2.toValidate s' := by
                    show x ∈ getSlice b1.toValidate s'; rw [htv1]; exact hx
                  rcases hu.resolved s' x hx1 with r' | r'
                  · exact Or.inl ⟨x, r', hd⟩
                  · exact Or.inr (hd ▸ r')
                · have := hsd.mono hm03
                  exact Or.inr this
              · simp at hc
            · show (b3.branches ++ [_]).length = b3.preBranch.length
              rw [hpb3, hbr3]; simp [h.brLen]
            · intro p hp
              have hz : (b3.branches ++ [({ src := s, inTy := t, ends := ends, noData := true } : BranchRec)]).zip
                    (b3.preBranch.map (·.2)) =
                  b.branches.zip (b.preBranch.map (·.2)) ++
                    [(({ src := s, inTy := t, ends := ends, noData := true } : BranchRec), flag)] := by
                rw [hpb3, hbr3, List.map_append]
                rw [List.zip_append (by simp [h.brLen])]
                simp
              have hp' : p ∈ b.branches.zip (b.preBranch.map (·.2)) ++
                    [(({ src := s, inTy := t, ends := ends, noData := true } : BranchRec), flag)] := by
                rw [← hz]; exact hp
              rcases List.mem_append.mp hp' with hp' | hp'
              · have := (h.br p hp').mono hm03
                exact this
              · simp only [List.mem_singleton] at hp'
                subst hp'
                have := hsb1.mono hm13
                exact this
        rcases hr : checkAssignable im (b1.nodeOut s) (some t) with _ | _ | _
        · simp [hr] at hb
        · simp only [hr] at hb
          refine tail false ?_ hb
          unfold SoundBr; simp only [hr]
        · simp only [hr] at hb
          refine tail true ?_ hb
          unfold SoundBr; simp only [hr]

/-! ### the calls of a Workflow -/

/-- calls the Workflow API makes on the underlying graph when no input carries field mappings:
    `addNode`, `addEdgeWithMappings` with any noControl / noData, `addBranch` with or without
    data flow, `compile` -/
def Op.isWfApi : Op → Bool
  | .edge _ _ _ _ m => m.isNone
  | _ => true

theorem stepK_inv (E : Env) (hg : E.f.branchGuarded = true) (hpr : E.f.branchPropagates = true)
    (hv : E.ord.Valid) (b : Builder) (op : Op) (hop : op.isWfApi = true) (h : Inv E.im b) :
    Inv E.im (stepK E b op).1 := by
  cases op with
  | node n => exact addNode_inv E.f E.im b n h
  | edge s e nc nd m =>
    simp only [Op.isWfApi, Option.isNone_iff_eq_none] at hop
    subst hop
    exact addEdgeK_inv E.f E.inCtl E.im E.ord hv b s e nc nd h
  | branch s t ends sk =>
    cases sk with
    | false => exact addBranch_inv E.f hg hpr E.im E.ord hv b s t ends h
    | true => exact addBranch_skip_inv E.f hg hpr E.im E.ord hv b s t ends h
  | compile o => exact compile_inv E.f E.im E.ord b o h

theorem runK_inv (E : Env) (hg : E.f.branchGuarded = true) (hpr : E.f.branchPropagates = true)
    (hv : E.ord.Valid) : ∀ (ops : List Op) (b : Builder), (∀ op ∈ ops, op.isWfApi = true) → Inv E.im b →
      Inv E.im (runK E b ops) := by
  intro ops
  induction ops with
  | nil => intro b _ h; exact h
  | cons op ops ih =>
    intro b hops h
    simp only [runK]
    exact ih _ (fun x hx => hops x (List.mem_cons_of_mem _ hx))
      (stepK_inv E hg hpr hv b op (hops op List.mem_cons_self) h)

end EinoV.Build

namespace EinoV.C07
open EinoV.Build

/-! ### what `Workflow.Compile` hands out -/

theorem plainOps_wf (ns : List WfNode) : ∀ op ∈ plainOps ns, op.isWfApi = true := by
  induction ns with
  | nil => intro op h; simp [plainOps] at h
  | cons n ns ih =>
    intro op h
    simp only [plainOps, List.mem_cons] at h
    rcases h with rfl | h
    · cases n.body <;> rfl
    · exact ih op h

theorem branchOps_wf (d : WfDecl) : ∀ op ∈ d.branchOps, op.isWfApi = true := by
  intro op h
  simp only [WfDecl.branchOps, List.mem_map] at h
  obtain ⟨br, _, rfl⟩ := h
  rfl

theorem inOp_wf (dst : Key) (i : WfIn) (h : i.mapped.isNone = true) : (WfIn.op dst i).isWfApi = true := by
  simp only [Option.isNone_iff_eq_none] at h
  simp [WfIn.op, Op.isWfApi, h]

theorem inputOps_wf (d : WfDecl) (hu : d.unmapped = true) : ∀ op ∈ d.inputOps, op.isWfApi = true := by
  intro op h
  simp only [WfDecl.unmapped, Bool.and_eq_true, List.all_eq_true] at hu
  simp only [WfDecl.inputOps, List.mem_append, List.mem_flatMap, List.mem_map] at h
  rcases h with ⟨n, hn, i, hi, rfl⟩ | ⟨i, hi, rfl⟩
  · exact inOp_wf _ i (hu.1 n hn i hi)
  · exact inOp_wf _ i (hu.2 i hi)

/-- the builder `Workflow.compile` hands to `graph.compile` satisfies the invariant -/
theorem wfBuilt_inv (E : Env) (hg : E.f.branchGuarded = true) (hpr : E.f.branchPropagates = true)
    (hv : E.ord.Valid) (d : WfDecl) (hu : d.unmapped = true) : Inv E.im (wfBuilt E d) := by
  unfold wfBuilt
  apply runK_inv E hg hpr hv
  · intro op h
    rcases List.mem_append.mp h with h | h
    · exact branchOps_wf d op h
    · exact inputOps_wf d hu op h
  · apply runK_inv E hg hpr hv _ _ (plainOps_wf d.nodes)
    exact Inv.new E.im .workflow d.inT d.outT d.stateTy

/-- every runnable a Workflow's Compile hands out is sound: each data connection and each
    branch condition – a Workflow branch carries no data, its condition is validated all the
    same – is assignable for sure, or possibly assignable with the run-time check installed -/
theorem wfCompile_sound (E : Env) (hg : E.f.branchGuarded = true) (hpr : E.f.branchPropagates = true)
    (hv : E.ord.Valid) (ec : Bool) (d : WfDecl) (hu : d.unmapped = true) (co : COpts) (w : WRunner)
    (h : (wfCompile E ec d co).2 = some w) : SoundRunner E.im w.r := by
  have hinv := wfBuilt_inv E hg hpr hv d hu
  unfold wfCompile at h
  simp only at h
  split at h
  · simp at h
  · split at h
    · simp at h
    · simp only [Option.map_eq_some_iff] at h
      obtain ⟨x, hx, rfl⟩ := h
      simp only
      unfold compile at hx
      split at hx
      · simp at hx
      · split at hx
        · simp at hx
        · rename_i hpre
          split at hx
          · simp at hx
          · simp only [Option.some.injEq] at hx
            subst hx
            exact mkRunner_sound E.im E.f _ co hinv hpre

end EinoV.C07

namespace EinoV.C07
open EinoV.Build

/-! ### DAG runs of a sound runner -/

/-- a value on its way into `t` fits `t`'s declared input type – or it is a stream that already
    carries an error item (whoever reads it gets an ordinary error) -/
def GoodV (im : Impl) (r : Runner) (t : Key) (v : Val) : Prop := v.bad = true ∨ Inhab im v.d (r.inOf t)

/-- a value leaving `k` fits `k`'s declared output type (or is such a stream) -/
def OutV (im : Impl) (r : Runner) (k : Key) (v : Val) : Prop := v.bad = true ∨ Inhab im v.d (r.outOf k)

structure GoodSt (im : Impl) (w : WRunner) (st : WSt) : Prop where
  vals : ∀ t p, p ∈ st.vals t → GoodV im w.r t p.2
  queue : ∀ q ∈ st.queue, GoodV im w.r q.1 q.2

theorem convert_cases (im : Impl) (r : Runner) (a b : Key) (d : Dyn) :
    convert im r a b d = .pass ∨ convert im r a b d = .typeErr := by
  unfold convert
  split
  · exact Or.inl rfl
  · split
    · exact Or.inr rfl
    · exact Or.inl rfl

theorem deliver_good {mode : Mode} {im : Impl} {w : WRunner} {k t : Key} {v : Val} {st st' : WSt}
    (ht : ImplTrans im) (hs : SoundConn im w.r k t) (hv : OutV im w.r k v) (hg : GoodSt im w st)
    (h : deliver mode im w k v t st = .ok st') : GoodSt im w st' := by
  unfold deliver at h
  simp only at h
  split at h
  · simp at h
  · split at h
    · simp only [Except.ok.injEq] at h; subst h; exact hg
    · simp only [Except.ok.injEq] at h
      subst h
      refine ⟨fun t' p hp => ?_, hg.queue⟩
      simp only [upd] at hp
      split at hp
      · rename_i ht'
        subst ht'
        rcases List.mem_append.mp hp with hp | hp
        · exact hg.vals _ p (List.mem_filter.mp hp).1
        · simp only [List.mem_singleton] at hp
          subst hp
          show (v.bad || (!v.bad && convert im w.r k t' v.d == .typeErr)) = true ∨ _
          rcases hb : v.bad with _ | _
          · rcases hv with hv | hv
            · rw [hb] at hv; simp at hv
            · rcases convert_cases im w.r k t' v.d with hc | hc
              · right; exact (conn_good ht hs hv).2 hc
              · left; simp [hc]
          · left; simp
      · exact hg.vals _ p hp

theorem deliverAll_good {mode : Mode} {im : Impl} {w : WRunner} {k : Key} {v : Val} (ht : ImplTrans im)
    (hv : OutV im w.r k v) : ∀ (ts : List Key) (st st' : WSt), (∀ t ∈ ts, SoundConn im w.r k t) →
      GoodSt im w st → deliverAll mode im w k v ts st = .ok st' → GoodSt im w st' := by
  intro ts
  induction ts with
  | nil => intro st st' _ hg h; simp only [deliverAll, Except.ok.injEq] at h; subst h; exact hg
  | cons t ts ih =>
    intro st st' hs hg h
    simp only [deliverAll] at h
    split at h
    · simp at h
    · rename_i st1 h1
      exact ih st1 st' (fun x hx => hs x (List.mem_cons_of_mem _ hx))
        (deliver_good ht (hs t List.mem_cons_self) hv hg h1) h

theorem deliverAll_err {mode : Mode} {im : Impl} {w : WRunner} {k : Key} {v : Val} :
    ∀ (ts : List Key) (st : WSt) (e : WRes), deliverAll mode im w k v ts st = .error e → e = .typeErr := by
  intro ts
  induction ts with
  | nil => intro st e h; simp [deliverAll] at h
  | cons t ts ih =>
    intro st e h
    simp only [deliverAll] at h
    split at h
    · rename_i e' h1
      simp only [Except.error.injEq] at h
      subst h
      unfold deliver at h1
      simp only at h1
      split at h1
      · simp only [Except.error.injEq] at h1; exact h1.symm
      · split at h1 <;> simp at h1
    · exact ih _ e h

/-- a branch condition of a sound runner never reaches its failing assertion; if it lets the
    value pass, the node it chose is one of its end nodes -/
theorem brEvent_ok {im : Impl} (ht : ImplTrans im) {r : Runner} (hr : SoundRunner im r) (c : Code) (k : Key)
    (v : Val) (hv : OutV im r k v) (p : Nat × BranchRec × Bool) (hp : p ∈ r.branchTable) (hk : p.2.1.src = k) :
    brEvent im c k v p ≠ .panic ∧ (brEvent im c k v p = .pass → c.pick k p.1 v.d ∈ p.2.1.ends) := by
  unfold brEvent
  rcases hb : v.bad with _ | _
  · simp only [Bool.false_eq_true, ↓reduceIte]
    have hvd : Inhab im v.d (r.outOf k) := by
      rcases hv with hv | hv
      · rw [hb] at hv; simp at hv
      · exact hv
    have hsb := (hr.br _ (mem_branchTable hp)).1
    unfold SoundBrR at hsb
    rw [hk] at hsb
    have hne : arriveBranch im p.2.1.inTy p.2.2 v.d ≠ .panic := by
      rcases ho : r.outOf k with _ | A
      · simp [ho, checkAssignable] at hsb
      · rw [ho] at hsb
        have hdA := hvd A ho
        unfold arriveBranch
        rcases hc : checkAssignable im (some A) (some p.2.1.inTy) with _ | _ | _
        · simp [hc] at hsb
        · have := must_sound im ht A _ hc v.d hdA
          simp [this]
        · simp only [hc] at hsb
          simp only [hsb, Bool.true_and]
          by_cases hk' : dynOk im v.d p.2.1.inTy = true
          · simp [hk']
          · simp [hk']
    constructor
    · split
      · split <;> simp
      · rename_i e hne'
        intro he
        exact hne he
    · intro hpass
      split at hpass
      · split at hpass
        · rename_i hc; simpa using hc
        · simp at hpass
      · rename_i e hne'
        exact absurd hpass (by intro e'; exact hne' (by rw [← e']))
  · simp

theorem targets_sound {im : Impl} {w : WRunner} (hr : SoundRunner im w.r) (c : Code) (k : Key) (v : Val)
    (hpick : ∀ p ∈ w.r.branchTable, p.2.1.src = k → c.pick k p.1 v.d ∈ p.2.1.ends) :
    ∀ t ∈ targets w c k v, SoundConn im w.r k t := by
  intro t ht
  simp only [targets, List.mem_append, List.mem_map, List.mem_filter, List.mem_filterMap, decide_eq_true_eq] at ht
  rcases ht with ⟨e, ⟨he, hk⟩, rfl⟩ | ⟨p, ⟨hp, hk⟩, hsome⟩
  · have := hr.edges e he
    rw [hk] at this; exact this
  · split at hsome
    · simp at hsome
    · rename_i hnd
      simp only [Option.some.injEq] at hsome
      subst hsome
      have hz := (hr.br _ (mem_branchTable hp)).2 (by simpa using hnd) _ (hpick p hp hk)
      rw [hk] at hz; exact hz

theorem complete_good {mode : Mode} {im : Impl} {w : WRunner} (ht : ImplTrans im) (hr : SoundRunner im w.r)
    (c : Code) (k : Key) (v : Val) (hv : OutV im w.r k v) (st : WSt) (hg : GoodSt im w st) :
    complete mode im w c k v st ≠ .error .panic ∧
    (∀ st', complete mode im w c k v st = .ok st' → GoodSt im w st') := by
  have hev := fun p (hp : p ∈ w.r.branchTable.filter (fun p => p.2.1.src = k)) =>
    brEvent_ok ht hr c k v hv p (List.mem_filter.mp hp).1 (by simpa using (List.mem_filter.mp hp).2)
  unfold complete
  simp only
  split
  · rename_i hw
    have hmem := worst_panic hw
    obtain ⟨p, hp, hpe⟩ := List.mem_map.mp hmem
    exact absurd hpe (hev p hp).1
  · simp
  · simp
  · -- every condition let the value pass
    rename_i hw
    have hall := worst_pass hw
    have hpick : ∀ p ∈ w.r.branchTable, p.2.1.src = k → c.pick k p.1 v.d ∈ p.2.1.ends := by
      intro p hp hk
      have hm : p ∈ w.r.branchTable.filter (fun p => p.2.1.src = k) := List.mem_filter.mpr ⟨hp, by simpa using hk⟩
      exact (hev p hm).2 (hall _ (List.mem_map.mpr ⟨p, hm, rfl⟩))
    have hts := targets_sound hr c k v hpick
    split
    · simp
    · rename_i cs1 _
      split
      · rename_i e he
        constructor
        · intro h
          simp only [Except.error.injEq] at h
          have := deliverAll_err _ _ _ he
          rw [h] at this; simp at this
        · intro st' h; simp at h
      · rename_i st2 h2
        constructor
        · simp
        · intro st' h
          simp only [Except.ok.injEq] at h
          subst h
          have hg1 : GoodSt im w { st with cs := cs1 } := ⟨hg.vals, hg.queue⟩
          have hg2 := deliverAll_good ht hv _ _ _ hts hg1 h2
          exact ⟨hg2.vals, hg2.queue⟩

theorem getVal_good {im : Impl} {w : WRunner} {t : Key} {vs : List (Key × Val)} {v : Val}
    (hg : ∀ p ∈ vs, GoodV im w.r t p.2) (h : getVal w t vs = .val v) : GoodV im w.r t v := by
  unfold getVal at h
  split at h
  · split at h
    · rename_i c hin
      simp only [Got.val.injEq] at h
      subst h
      right
      intro T hT
      rw [hin] at hT
      simp only [Option.some.injEq] at hT
      subst hT
      simp [dynOk]
    · simp at h
  · rename_i p
    simp only [Got.val.injEq] at h
    subst h
    exact hg p List.mem_cons_self
  · simp at h

theorem enqueue_good {im : Impl} {w : WRunner} : ∀ (ks : List Key) (st st' : WSt), GoodSt im w st →
    enqueue w ks st = .ok st' → GoodSt im w st' := by
  intro ks
  induction ks with
  | nil => intro st st' hg h; simp only [enqueue, Except.ok.injEq] at h; subst h; exact hg
  | cons k ks ih =>
    intro st st' hg h
    simp only [enqueue] at h
    split at h
    · simp at h
    · simp at h
    · rename_i v hv
      refine ih _ st' ⟨fun t p hp => ?_, fun q hq => ?_⟩ h
      · simp only [upd] at hp
        split at hp
        · simp at hp
        · exact hg.vals t p hp
      · rcases List.mem_append.mp hq with hq | hq
        · exact hg.queue q hq
        · simp only [List.mem_singleton] at hq
          subst hq
          exact getVal_good (hg.vals k) hv

theorem enqueue_err {w : WRunner} : ∀ (ks : List Key) (st : WSt) (e : WRes),
    enqueue w ks st = .error e → e ≠ .panic := by
  intro ks
  induction ks with
  | nil => intro st e h; simp [enqueue] at h
  | cons k ks ih =>
    intro st e h
    simp only [enqueue] at h
    split at h
    · simp only [Except.error.injEq] at h; subst h; simp
    · simp only [Except.error.injEq] at h; subst h; simp
    · exact ih _ e h

theorem scan_good {im : Impl} {w : WRunner} {st : WSt} (hg : GoodSt im w st) :
    scan im w st ≠ .inl .panic ∧ (∀ st', scan im w st = .inr st' → GoodSt im w st') := by
  unfold scan
  simp only
  split
  · simp
  · split
    · split
      · simp
      · simp
      · rename_i v hv
        have hgv := getVal_good (hg.vals END) hv
        split
        · simp
        · rename_i hb
          have hin : Inhab im v.d (w.r.inOf END) := by
            rcases hgv with h | h
            · exact absurd h hb
            · exact h
          have : assertIn im w.r END v.d = .pass := by
            unfold assertIn
            rcases hi : w.r.inOf END with _ | t
            · rfl
            · simp only
              split
              · rfl
              · have := hin t hi
                simp [this]
          simp [this]
    · split
      · rename_i e he
        constructor
        · intro h
          simp only [Sum.inl.injEq] at h
          exact enqueue_err _ _ _ he h
        · intro st' h; simp at h
      · rename_i st1 h1
        constructor
        · simp
        · intro st' h
          simp only [Sum.inr.injEq] at h
          subst h
          exact enqueue_good _ _ _ hg h1

theorem runNode_good {im : Impl} {w : WRunner} (hr : SoundRunner im w.r) {c : Code} (hc : CodeOk im w.r c)
    (k : Key) (v : Val) (hv : GoodV im w.r k v) :
    runNode im w c k v ≠ .error .panic ∧ (∀ out, runNode im w c k v = .ok out → OutV im w.r k out) := by
  unfold runNode
  split
  · rename_i hpt
    refine ⟨by simp, fun out h => ?_⟩
    simp only [Except.ok.injEq] at h
    subst h
    rcases hv with h | h
    · exact Or.inl h
    · right; rw [pt_out_eq_in hr k hpt]; exact h
  · rename_i hpt
    split
    · exact ⟨by simp, fun out h => by simp at h⟩
    · rename_i hb
      have hin : Inhab im v.d (w.r.inOf k) := by
        rcases hv with h | h
        · exact absurd h hb
        · exact h
      have hassert : assertIn im w.r k v.d = .pass := by
        unfold assertIn
        rcases hi : w.r.inOf k with _ | t
        · rfl
        · simp only
          split
          · rfl
          · have := hin t hi
            simp [this]
      simp only [hassert]
      refine ⟨by simp, fun out h => ?_⟩
      simp only [Except.ok.injEq] at h
      subst h
      right
      simp only [Bool.or_eq_true, decide_eq_true_eq, not_or] at hpt
      exact hc k v.d (by simpa using hpt.1.1) hpt.1.2 hpt.2

theorem wfLoop_no_panic {mode : Mode} {im : Impl} {w : WRunner} (ht : ImplTrans im) (hr : SoundRunner im w.r)
    {c : Code} (hc : CodeOk im w.r c) : ∀ (fuel : Nat) (zm : Bool) (st : WSt), GoodSt im w st →
      (wfLoop mode im w c fuel zm st).1 ≠ .panic := by
  intro fuel
  induction fuel with
  | zero => intro zm st _; simp [wfLoop]
  | succ n ih =>
    intro zm st hg
    simp only [wfLoop]
    split
    · simp
    · rename_i k v q hq
      have hgv : GoodV im w.r k v := hg.queue (k, v) (by rw [hq]; exact List.mem_cons_self)
      have hrn := runNode_good hr hc k v hgv
      split
      · rename_i e he
        simp only
        intro h; subst h
        exact hrn.1 he
      · rename_i out hout
        have hov := hrn.2 out hout
        have hg1 : GoodSt im w { st with queue := q, par := st.par || !q.isEmpty } :=
          ⟨hg.vals, fun x hx => hg.queue x (by rw [hq]; exact List.mem_cons_of_mem _ hx)⟩
        have hcp := complete_good (mode := mode) ht hr c k out hov _ hg1
        split
        · rename_i e he
          simp only
          intro h; subst h
          exact hcp.1 he
        · rename_i st2 h2
          have hg2 := hcp.2 st2 h2
          have hsc := scan_good hg2
          split
          · rename_i res hres
            simp only
            intro h; subst h
            exact hsc.1 hres
          · rename_i st3 h3
            exact ih _ st3 (hsc.2 st3 h3)

/-- **no Invoke and no Stream run of a sound Workflow runner reaches a failing type assertion** –
    of a node, a branch condition or the final output -/
theorem wfRun_no_panic {mode : Mode} {im : Impl} {w : WRunner} (ht : ImplTrans im) (hr : SoundRunner im w.r)
    {c : Code} (hc : CodeOk im w.r c) (fuel : Nat) (d0 : Dyn) (hd : dynOk im d0 w.r.inT = true) :
    (wfRun mode im w c fuel d0).1 ≠ .panic := by
  have hov : OutV im w.r START { d := d0, bad := false } := by
    right
    intro t htt
    simp only [Runner.outOf, ↓reduceIte, Option.some.injEq] at htt
    subst htt; exact hd
  have hg0 : GoodSt im w { cs := initCh w, vals := fun _ => [], queue := [], par := false } :=
    ⟨fun t p hp => by simp at hp, fun q hq => by simp at hq⟩
  have hcp := complete_good (mode := mode) ht hr c START _ hov _ hg0
  unfold wfRun
  simp only
  split
  · rename_i e he
    simp only
    intro h; subst h
    exact hcp.1 he
  · rename_i st1 h1
    have hsc := scan_good (hcp.2 st1 h1)
    split
    · rename_i res hres
      simp only
      intro h; subst h
      exact hsc.1 hres
    · rename_i st2 h2
      exact wfLoop_no_panic ht hr hc fuel _ st2 (hsc.2 st2 h2)

end EinoV.C07

namespace EinoV.Build

/-! ### the branch condition check does not look at `skipData` -/

theorem procEntries_errkind (im : Impl) (s : Key) (sTy : Option Ty) :
    ∀ (entries : List PEdge) (b : Builder) (kept : List PEdge) (ch : Bool) (k : ErrKind),
      procEntries im s sTy entries b kept ch = .error k → k = .edgeMismatch := by
  intro entries
  induction entries with
  | nil => intro b kept ch k h; simp [procEntries] at h
  | cons pe rest ih =>
    intro b kept ch k h
    simp only [procEntries] at h
    split at h
    · exact ih _ _ _ k h
    · exact ih _ _ _ k h
    · exact ih _ _ _ k h
    · split at h
      · exact ih _ _ _ k h
      · split at h
        · simp only [Except.error.injEq] at h; exact h.symm
        · exact ih _ _ _ k h
        · exact ih _ _ _ k h

theorem updRound_errkind (im : Impl) : ∀ (ks : List Key) (b : Builder) (ch : Bool) (k : ErrKind),
    updRound im ks b ch = .error k → k = .edgeMismatch := by
  intro ks
  induction ks with
  | nil => intro b ch k h; simp [updRound] at h
  | cons s ks ih =>
    intro b ch k h
    simp only [updRound] at h
    split at h
    · rename_i k' hp
      simp only [Except.error.injEq] at h
      subst h
      exact procEntries_errkind im s _ _ _ _ _ _ hp
    · exact ih _ _ k h

theorem updLoop_errkind (im : Impl) (ord : Ord) : ∀ (fuel : Nat) (b : Builder) (k : ErrKind),
    updLoop im ord fuel b = .error k → k = .edgeMismatch := by
  intro fuel
  induction fuel with
  | zero => intro b k h; simp [updLoop] at h
  | succ n ih =>
    intro b k h
    simp only [updLoop] at h
    split at h
    · rename_i k' hr
      simp only [Except.error.injEq] at h
      subst h
      exact updRound_errkind im _ _ _ _ hr
    · split at h
      · exact ih _ k h
      · simp at h

theorem update_errkind (im : Impl) (ord : Ord) (b : Builder) (k : ErrKind)
    (h : update im ord b = .error k) : k = .edgeMismatch :=
  updLoop_errkind im ord _ b k h

theorem branchEnds_errkind (im : Impl) (ord : Ord) (s : Key) : ∀ (es : List Key) (b : Builder) (k : ErrKind),
    branchEnds im ord s es b = .error k → k = .edgeMismatch ∨ k = .branchUnknownEnd := by
  intro es
  induction es with
  | nil => intro b k h; simp [branchEnds] at h
  | cons e es ih =>
    intro b k h
    simp only [branchEnds] at h
    split at h
    · simp only [Except.error.injEq] at h; exact Or.inr h.symm
    · split at h
      · rename_i k' hu
        simp only [Except.error.injEq] at h
        subst h
        exact Or.inl (update_errkind im ord _ _ hu)
      · exact ih _ k h

/-- the builder as `addBranch` sees it when it checks the condition type: a pass-through start
    node whose type is still unknown has just taken the condition's input type -/
def branchStartTyped (f : Facts) (b : Builder) (s : Key) (t : Ty) : Builder :=
  if s != START && isPassthrough b s && (!f.branchGuarded || (b.nodeIn s).isNone) then b.setTy s t else b

/-- `addBranch` answers "condition input type and start node output type are mismatched"
    exactly when its three earlier checks pass and `checkAssignable` says must-not – for a
    branch that hands its input on (Graph, Chain) and for one that does not (Workflow) alike -/
theorem addBranchBody_mismatch_iff (f : Facts) (im : Impl) (ord : Ord) (b : Builder) (s : Key) (t : Ty)
    (ends : List Key) (skip : Bool) :
    addBranchBody f im ord b s t ends skip = .error .branchMismatch ↔
      (s ≠ END ∧ ¬ (!b.hasNode s && s != START) = true ∧ ends.length ≠ 1 ∧
        checkAssignable im ((branchStartTyped f b s t).nodeOut s) (some t) = .mustNot) := by
  unfold addBranchBody branchStartTyped
  simp only
  constructor
  · intro h
    split at h
    · simp at h
    · rename_i h1
      split at h
      · simp at h
      · rename_i h2
        split at h
        · simp at h
        · rename_i h3
          refine ⟨h1, h2, h3, ?_⟩
          split at h
          · assumption
          · rename_i r hne
            exfalso
            split at h
            · rename_i k hk
              simp only [Except.error.injEq] at h
              subst h
              split at hk
              · have := update_errkind im ord _ _ hk; simp at this
              · simp at hk
            · split at h
              · rename_i k hk
                simp only [Except.error.injEq] at h
                subst h
                split at hk
                · simp at hk
                · rcases branchEnds_errkind im ord s _ _ _ hk with e | e <;> simp at e
              · simp at h
  · rintro ⟨h1, h2, h3, h4⟩
    simp only [h1, h2, h3, ↓reduceIte, h4]
    simp

end EinoV.Build

namespace EinoV.C07
open EinoV.Build

/-- on a validated branch condition: an ordinary error exactly when the upstream type is an
    interface and the dynamic value does not fit; never the failing assertion -/
theorem arriveBranch_typeErr_iff {im : Impl} (ht : ImplTrans im) {r : Runner} {br : BranchRec} {flag : Bool}
    {A : Ty} {d : Dyn} (hs : SoundBrR im r br flag) (ho : r.outOf br.src = some A) (hd : dynOk im d A = true) :
    (arriveBranch im br.inTy flag d = .typeErr ↔ (A.isIface = true ∧ dynOk im d br.inTy = false)) ∧
    arriveBranch im br.inTy flag d ≠ .panic := by
  unfold SoundBrR at hs
  rw [ho] at hs
  unfold arriveBranch
  rcases hc : checkAssignable im (some A) (some br.inTy) with _ | _ | _
  · simp [hc] at hs
  · have := must_sound im ht A _ hc d hd
    simp [this]
  · simp only [hc] at hs
    have hA := may_upstream_iface im A _ hc
    subst hs
    by_cases hk : dynOk im d br.inTy = true
    · simp [hk]
    · simp [hk, hA]

end EinoV.C07

namespace EinoV.C07
open EinoV.Build

/-! ### `wfCompile` is the lowering of Model/C20Wf.lean -/

theorem build_plain (E : Env) : ∀ (ns : List WfNode) (b : Builder), ns.all WfNode.isPlain = true →
    DOps.build E (wfNodeOps ns) b = (runK E b (plainOps ns), []) := by
  intro ns
  induction ns with
  | nil => intro b _; simp [wfNodeOps, DOps.build, plainOps, runK]
  | cons n ns ih =>
    intro b h
    simp only [List.all_cons, Bool.and_eq_true] at h
    obtain ⟨hn, hns⟩ := h
    unfold WfNode.isPlain at hn
    unfold wfNodeOps plainOps
    split at hn
    · rename_i pt i o hb
      simp only [hb, DOps.build, runK]
      exact ih _ hns
    · simp at hn

theorem compileN_nil (f : Facts) (ord : Ord) (b : Builder) (o : COpts) : compileN f ord b o [] = compile f ord b o := by
  unfold compileN compile
  simp only [List.find?_nil]
  rcases b.buildError with _ | k
  · rcases compilePre f b o with _ | k
    · rcases compilePost (mutatePre f b) ord o with _ | oc <;> rfl
    · rfl
  · rfl

/-- for a Workflow without sub-graph nodes, the answer of `wfCompile` is the answer the
    declaration layer of C20 (`WfDecl.lower`, `Decl.first`) gives for the first Compile -/
theorem wfCompile_eq_first (E : Env) (ec : Bool) (d : WfDecl) (co : COpts) (hp : d.plain = true) :
    (wfCompile E ec d co).1 = Decl.first E (d.lower ec) co := by
  unfold WfDecl.plain at hp
  unfold WfDecl.lower Decl.first wfCompile attempt
  simp only [build_plain E d.nodes _ hp, compileN_nil]
  rcases hbe : (runK E (Builder.new Cmp.workflow d.inT d.outT d.stateTy) (plainOps d.nodes)).buildError with _ | k
  · rcases hgd : WfDecl.guard ec d with _ | oc
    · simp only
    · simp only
  · simp only

end EinoV.C07
