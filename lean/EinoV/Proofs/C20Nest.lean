/- Helper lemmas for C20: graphs compiled as nodes are frozen (Model/C20Nest.lean). -/
import EinoV.Model.C20Nest
import EinoV.Proofs.C20
import EinoV.Proofs.C20Wf

namespace EinoV.Build

theorem Decl.first_eq (E : Env) (d : Decl) (co : COpts) : Decl.first E d co = (Decl.firstB E d co).2 := by
  cases d; simp [Decl.first, Decl.firstB]

/-- a successful `compileN`: no stored error, every sub-graph compiled, the flag is set -/
theorem compileN_ok (f : Facts) (ord : Ord) (b : Builder) (o : COpts) (kids : List Outcome)
    (h : (compileN f ord b o kids).2.1 = .ok) :
    b.buildError = none ∧ (∀ k ∈ kids, k.isOk = true) ∧
    (compileN f ord b o kids).1.compiled = true ∧ (compileN f ord b o kids).1.buildError = none := by
  unfold compileN at h ⊢
  split at h
  · simp at h
  · rename_i hb
    split at h
    · simp at h
    · split at h
      · rename_i oc hfind
        have hn := List.find?_some hfind
        simp only at h
        cases oc <;> simp_all [Outcome.asChild, Outcome.isOk]
      · rename_i hfind
        split at h
        · rename_i oc hpost
          simp only at h; subst h
          exact absurd hpost (compilePost_ne_ok _ _ _)
        · refine ⟨hb, ?_, by simp, by simp [hb]⟩
          intro k hk
          have := List.find?_eq_none.mp hfind k hk
          simpa using this

/-- a successful `attempt` (one Compile of a declared graph) -/
theorem attempt_ok (E : Env) (b : Builder) (calls : List Op) (guard : Option Outcome) (o : COpts)
    (kids : List Outcome) (hg : guard ≠ some .ok) (h : (attempt E b calls guard o kids).2 = .ok) :
    guard = none ∧ (∀ k ∈ kids, k.isOk = true) ∧
    (attempt E b calls guard o kids).1.compiled = true ∧
    (attempt E b calls guard o kids).1.buildError = none := by
  unfold attempt at h ⊢
  split at h
  · simp at h
  · split at h
    · rename_i oc
      simp only at h; subst h; exact absurd rfl hg
    · have := compileN_ok E.f E.ord (runK E b calls) o kids h
      exact ⟨rfl, this.2.1, this.2.2.1, this.2.2.2⟩

/-- on a frozen builder every Add* answers `ErrGraphCompiled` and changes nothing -/
theorem stepK_compiled (E : Env) (hf : E.f.Guarded) (hc : E.inCtl = true) (b : Builder)
    (he : b.buildError = none) (hcm : b.compiled = true) (op : Op) (hop : op.isCompile = false) :
    stepK E b op = (b, .compiled, none) := by
  rw [stepK_true E hc]; exact step_compiled E.f hf E.im E.ord b he hcm op hop

end EinoV.Build
