/-
  C10 — helper lemmas: slice/heap algebra, the run invariant of the copying machine,
  counting lemmas for the per-unit trace, stream-copy lemmas.
  (Property statements are in EinoV/Props/C10.lean.)
-/
import EinoV.Model.C10

namespace EinoV.C10

/-! ### heap / slice algebra -/

theorem read_push (h : Heap) (x : List Hd) (s : Slice) (hs : s.arr < h.length) :
    Heap.read (h ++ [x]) s = Heap.read h s := by
  unfold Heap.read
  rw [List.getElem?_append_left hs]

theorem read_prefix (a ext : Heap) (s : Slice) (hs : s.arr < a.length) :
    Heap.read (a ++ ext) s = Heap.read a s := by
  unfold Heap.read
  rw [List.getElem?_append_left hs]

theorem read_fresh (h : Heap) (content pad : List Hd) (n c : Nat) (hn : n = content.length) :
    Heap.read (h ++ [content ++ pad]) ⟨h.length, 0, n, c⟩ = content := by
  subst hn
  unfold Heap.read
  simp

theorem copyAppend_heap (h : Heap) (s : Slice) (xs : List Hd) :
    (copyAppend h s xs).1 = h ++ [h.read s ++ xs] := rfl

theorem copyAppend_arr (h : Heap) (s : Slice) (xs : List Hd) :
    (copyAppend h s xs).2.arr = h.length := rfl

theorem copyAppend_read (h : Heap) (s : Slice) (xs : List Hd) :
    (copyAppend h s xs).1.read (copyAppend h s xs).2 = h.read s ++ xs := by
  have := read_fresh h (h.read s ++ xs) [] (h.read s ++ xs).length (h.read s ++ xs).length rfl
  rw [List.append_nil] at this
  exact this

theorem read_nil (h : Heap) : h.read Slice.nil = [] := by
  simp [Heap.read, Slice.nil]

/-! ### `spec` unfolding -/

theorem spec_none {P : Prog} {i : Nat} (h : P.units[i]? = none) : spec P i = [] := by
  rw [spec]; simp [h]

theorem spec_init {P : Prog} {i : Nat} {d : UnitDecl} {s : Slice}
    (h : P.units[i]? = some d) (hk : d.kind = .init s) : spec P i = P.arrays.read s := by
  rw [spec]; simp [h, hk]

theorem spec_append_none {P : Prog} {i : Nat} {d : UnitDecl}
    (h : P.units[i]? = some d) (hk : d.kind = .append) (hp : d.parent = none) : spec P i = d.desig := by
  rw [spec]; simp [h, hk, hp]

theorem spec_append_some {P : Prog} {i p : Nat} {d : UnitDecl}
    (h : P.units[i]? = some d) (hk : d.kind = .append) (hp : d.parent = some p) (hlt : p < i) :
    spec P i = spec P p ++ d.desig := by
  rw [spec]; simp [h, hk, hp, hlt]

theorem spec_reuse_some {P : Prog} {i p : Nat} {d : UnitDecl}
    (h : P.units[i]? = some d) (hk : d.kind = .reuse) (hp : d.parent = some p) (hlt : p < i) :
    spec P i = spec P p := by
  rw [spec]; simp [h, hk, hp, hlt]

/-! ### render / projection -/

theorem render_append (rev : Bool) (i : Nat) (info : String) (hs : List Hd) (ts : List Timing) (t : Timing) :
    render rev i info hs (ts ++ [t]) = render rev i info hs ts ++ (dispatch rev t hs).map (fun h => ⟨i, info, h, t⟩) := by
  induction ts with
  | nil => simp [render]
  | cons a ts ih => simp [render, ih]

theorem projLog_append (l1 l2 : List LogEv) (i : Nat) :
    projLog (l1 ++ l2) i = projLog l1 i ++ projLog l2 i := by
  simp [projLog]

theorem projLog_map_same (i : Nat) (info : String) (t : Timing) (hs : List Hd) :
    projLog (hs.map (fun h => (⟨i, info, h, t⟩ : LogEv))) i = hs.map (fun h => ⟨i, info, h, t⟩) := by
  induction hs with
  | nil => rfl
  | cons a l ih => simp only [projLog] at ih ⊢; simp [ih]

theorem projLog_map_other (i j : Nat) (hne : j ≠ i) (info : String) (t : Timing) (hs : List Hd) :
    projLog (hs.map (fun h => (⟨i, info, h, t⟩ : LogEv))) j = [] := by
  induction hs with
  | nil => rfl
  | cons a l ih =>
    simp only [projLog] at ih ⊢
    have : (i == j) = false := by simp; exact fun h => hne h.symm
    simp [ih, this]

/-! ### the invariant of the copying machine -/

structure Inv (F : Facts) (P : Prog) (st : St) : Prop where
  heapPre : ∃ ext, st.heap = P.arrays ++ ext
  ctx : ∀ i c, st.ctxs i = some c →
    c.slice.arr < st.heap.length ∧ st.heap.read c.slice = spec P i ∧ c.info = unitInfo P i
  par : ∀ i c d p, st.ctxs i = some c → P.units[i]? = some d →
    (∀ s, d.kind ≠ .init s) → d.parent = some p → p < i ∧ ∃ cp, st.ctxs p = some cp
  log : ∀ i, projLog st.log i =
    render F.startReversed i (unitInfo P i) (spec P i ++ P.globals) ((unitProg P i).take (st.pc i))

theorem inv_init (F : Facts) (P : Prog) : Inv F P (St.init P) where
  heapPre := ⟨[], by simp [St.init]⟩
  ctx := by intro i c h; simp [St.init] at h
  par := by intro i c d p h; simp [St.init] at h
  log := by intro i; simp [St.init, projLog, render]

theorem upd_same {α : Type} (f : Nat → α) (i : Nat) (v : α) : upd f i v i = v := by simp [upd]
theorem upd_other {α : Type} (f : Nat → α) (i j : Nat) (v : α) (h : j ≠ i) : upd f i v j = f j := by
  simp [upd, h]

theorem unitInfo_of {P : Prog} {i : Nat} {d : UnitDecl} (h : P.units[i]? = some d) : unitInfo P i = d.info := by
  simp [unitInfo, h]
theorem unitProg_of {P : Prog} {i : Nat} {d : UnitDecl} (h : P.units[i]? = some d) : unitProg P i = d.prog := by
  simp [unitProg, h]

theorem inv_doMk {F : Facts} {P : Prog} {st : St} (hc : F.appendCopies = true) (hi : F.initInstalls = true)
    (inv : Inv F P st) (i : Nat) : Inv F P (doMk F P st i) := by
  unfold doMk
  split
  · exact inv
  · rename_i d hd
    split
    · exact inv
    · rename_i hnew
      have hnone : st.ctxs i = none := by
        cases h : st.ctxs i with
        | none => rfl
        | some c => simp [h] at hnew
      split
      · -- init
        rename_i s hk
        split
        · rename_i hs'
          have hs : s.arr < P.arrays.length := by
            simp only [Bool.and_eq_true, decide_eq_true_eq] at hs'
            exact hs'.1
          have hctx : initCtx F P st d s = ⟨s, d.info⟩ := by simp [initCtx, hi]
          rw [hctx]
          obtain ⟨ext, hext⟩ := inv.heapPre
          refine ⟨inv.heapPre, ?_, ?_, inv.log⟩
          · intro j c hj
            dsimp only at hj ⊢
            by_cases hji : j = i
            · subst hji
              simp only [upd_same, Option.some.injEq] at hj
              subst hj
              refine ⟨?_, ?_, (unitInfo_of hd).symm⟩
              · show s.arr < st.heap.length
                rw [hext, List.length_append]; omega
              · show st.heap.read s = spec P j
                rw [spec_init hd hk, hext, read_prefix _ _ _ hs]
            · rw [upd_other _ _ _ _ hji] at hj
              exact inv.ctx j c hj
          · intro j c d' p hj hd' hni hp
            dsimp only at hj ⊢
            by_cases hji : j = i
            · subst hji
              rw [hd] at hd'; injection hd' with hd'; subst hd'
              exact absurd hk (hni s)
            · rw [upd_other _ _ _ _ hji] at hj
              obtain ⟨hlt, cp, hcp⟩ := inv.par j c d' p hj hd' hni hp
              refine ⟨hlt, cp, ?_⟩
              by_cases hpi : p = i
              · subst hpi; rw [hnone] at hcp; cases hcp
              · rw [upd_other _ _ _ _ hpi]; exact hcp
        · exact inv
      · -- append
        rename_i hk
        split
        · exact inv
        · rename_i ps hps
          simp only [appendH, hc, if_true]
          -- facts about the parent slice
          have hpar : (d.parent = none ∧ ps = Slice.nil) ∨
              (∃ p cp, d.parent = some p ∧ p < i ∧ st.ctxs p = some cp ∧ cp.slice = ps) := by
            unfold parentSlice at hps
            split at hps
            · rename_i hp
              simp [hk] at hps
              exact Or.inl ⟨hp, hps.symm⟩
            · rename_i p hp
              split at hps
              · rename_i hlt
                cases hcp : st.ctxs p with
                | none => simp [hcp] at hps
                | some cp =>
                  simp [hcp] at hps
                  exact Or.inr ⟨p, cp, hp, hlt, hcp, hps⟩
              · cases hps
          have hspec : st.heap.read ps ++ d.desig = spec P i := by
            rcases hpar with ⟨hp, rfl⟩ | ⟨p, cp, hp, hlt, hcp, rfl⟩
            · rw [read_nil, spec_append_none hd hk hp]; rfl
            · rw [spec_append_some hd hk hp hlt, (inv.ctx p cp hcp).2.1]
          obtain ⟨ext, hext⟩ := inv.heapPre
          refine ⟨?_, ?_, ?_, inv.log⟩
          · exact ⟨ext ++ [st.heap.read ps ++ d.desig], by rw [copyAppend_heap, hext, List.append_assoc]⟩
          · intro j c hj
            dsimp only at hj ⊢
            by_cases hji : j = i
            · subst hji
              simp only [upd_same, Option.some.injEq] at hj
              subst hj
              refine ⟨?_, ?_, (unitInfo_of hd).symm⟩
              · show (copyAppend st.heap ps d.desig).2.arr < (copyAppend st.heap ps d.desig).1.length
                rw [copyAppend_arr, copyAppend_heap]; simp
              · show (copyAppend st.heap ps d.desig).1.read (copyAppend st.heap ps d.desig).2 = spec P j
                rw [copyAppend_read, hspec]
            · rw [upd_other _ _ _ _ hji] at hj
              obtain ⟨h1, h2, h3⟩ := inv.ctx j c hj
              refine ⟨?_, ?_, h3⟩
              · show c.slice.arr < (copyAppend st.heap ps d.desig).1.length
                rw [copyAppend_heap]; simp; omega
              · show (copyAppend st.heap ps d.desig).1.read c.slice = spec P j
                rw [copyAppend_heap, read_push _ _ _ h1, h2]
          · intro j c d' p hj hd' hni hp
            dsimp only at hj ⊢
            by_cases hji : j = i
            · subst hji
              rw [hd] at hd'; injection hd' with hd'; subst hd'
              rcases hpar with ⟨hp', _⟩ | ⟨p', cp, hp', hlt, hcp, _⟩
              · rw [hp'] at hp; cases hp
              · rw [hp'] at hp; injection hp with hp; subst hp
                refine ⟨hlt, cp, ?_⟩
                have : p' ≠ j := by omega
                show upd st.ctxs j _ p' = some cp
                rw [upd_other _ _ _ _ this]; exact hcp
            · rw [upd_other _ _ _ _ hji] at hj
              obtain ⟨hlt, cp, hcp⟩ := inv.par j c d' p hj hd' hni hp
              refine ⟨hlt, cp, ?_⟩
              by_cases hpi : p = i
              · subst hpi; rw [hnone] at hcp; cases hcp
              · show upd st.ctxs i _ p = some cp
                rw [upd_other _ _ _ _ hpi]; exact hcp
      · -- reuse
        rename_i hk
        split
        · exact inv
        · rename_i ps hps
          have hpar : ∃ p cp, d.parent = some p ∧ p < i ∧ st.ctxs p = some cp ∧ cp.slice = ps := by
            unfold parentSlice at hps
            split at hps
            · simp [hk] at hps
            · rename_i p hp
              split at hps
              · rename_i hlt
                cases hcp : st.ctxs p with
                | none => simp [hcp] at hps
                | some cp =>
                  simp [hcp] at hps
                  exact ⟨p, cp, hp, hlt, hcp, hps⟩
              · cases hps
          obtain ⟨p, cp, hp, hlt, hcp, rfl⟩ := hpar
          refine ⟨inv.heapPre, ?_, ?_, inv.log⟩
          · intro j c hj
            dsimp only at hj ⊢
            by_cases hji : j = i
            · subst hji
              simp only [upd_same, Option.some.injEq] at hj
              subst hj
              obtain ⟨h1, h2, _⟩ := inv.ctx p cp hcp
              exact ⟨h1, by show st.heap.read cp.slice = spec P j; rw [h2, spec_reuse_some hd hk hp hlt],
                (unitInfo_of hd).symm⟩
            · rw [upd_other _ _ _ _ hji] at hj
              exact inv.ctx j c hj
          · intro j c d' p' hj hd' hni hp'
            dsimp only at hj ⊢
            by_cases hji : j = i
            · subst hji
              rw [hd] at hd'; injection hd' with hd'; subst hd'
              rw [hp] at hp'; injection hp' with hp'; subst hp'
              refine ⟨hlt, cp, ?_⟩
              have : p ≠ j := by omega
              show upd st.ctxs j _ p = some cp
              rw [upd_other _ _ _ _ this]; exact hcp
            · rw [upd_other _ _ _ _ hji] at hj
              obtain ⟨hlt', cp', hcp'⟩ := inv.par j c d' p' hj hd' hni hp'
              refine ⟨hlt', cp', ?_⟩
              by_cases hpi : p' = i
              · subst hpi; rw [hnone] at hcp'; cases hcp'
              · show upd st.ctxs i _ p' = some cp'
                rw [upd_other _ _ _ _ hpi]; exact hcp'

theorem inv_doStep {F : Facts} {P : Prog} {st : St} (ho : F.onCopies = true)
    (inv : Inv F P st) (i : Nat) : Inv F P (doStep F P st i) := by
  unfold doStep
  split
  · rename_i d c hd hc
    split
    · exact inv
    · rename_i t ht
      simp only [onList, ho, if_true]
      obtain ⟨_, hread, hinfo⟩ := inv.ctx i c hc
      refine ⟨inv.heapPre, inv.ctx, inv.par, ?_⟩
      intro j
      show projLog (st.log ++ _) j = render _ j _ _ (List.take (upd st.pc i (st.pc i + 1) j) (unitProg P j))
      rw [projLog_append, inv.log j]
      by_cases hji : j = i
      · subst hji
        rw [upd_same, projLog_map_same, hread, hinfo]
        have hp : unitProg P j = d.prog := unitProg_of hd
        rw [hp]
        have : List.take (st.pc j + 1) d.prog = List.take (st.pc j) d.prog ++ [t] := by
          rw [List.take_add_one, ht]; rfl
        rw [this, render_append]
      · rw [upd_other _ _ _ _ hji, projLog_map_other _ _ hji, List.append_nil]
  · exact inv

theorem inv_runFrom {F : Facts} {P : Prog} (hc : F.appendCopies = true) (ho : F.onCopies = true)
    (hi : F.initInstalls = true)
    (evs : List Ev) : ∀ st, Inv F P st → Inv F P (runFrom F P st evs) := by
  induction evs with
  | nil => intro st h; exact h
  | cons e es ih =>
    intro st h
    apply ih
    cases e with
    | mk i => exact inv_doMk hc hi h i
    | step i => exact inv_doStep ho h i

theorem inv_run {F : Facts} {P : Prog} (hc : F.appendCopies = true) (ho : F.onCopies = true)
    (hi : F.initInstalls = true)
    (evs : List Ev) : Inv F P (run F P evs) :=
  inv_runFrom hc ho hi evs _ (inv_init F P)

/-! ### counting in the rendered trace -/

def countEv (log : List LogEv) (i : Nat) (h : Hd) (t : Timing) : Nat :=
  (log.filter (fun e => e.unit == i && e.h == h && e.t == t)).length

theorem countEv_proj (log : List LogEv) (i : Nat) (h : Hd) (t : Timing) :
    countEv log i h t = countEv (projLog log i) i h t := by
  unfold countEv projLog
  rw [List.filter_filter]
  congr 1
  apply List.filter_congr
  intro e _
  cases h1 : e.unit == i <;> simp

theorem countEv_append (l1 l2 : List LogEv) (i : Nat) (h : Hd) (t : Timing) :
    countEv (l1 ++ l2) i h t = countEv l1 i h t + countEv l2 i h t := by
  simp [countEv]

theorem count_filter_needed (t : Timing) (hs : List Hd) (h : Hd) :
    (hs.filter (fun x => x.needed t)).count h = if h.needed t then hs.count h else 0 := by
  induction hs with
  | nil => simp
  | cons a l ih =>
    by_cases ha : a.needed t = true
    · rw [List.filter_cons]; simp only [ha, if_true]; rw [List.count_cons, List.count_cons, ih]
      by_cases hah : a = h
      · subst hah; simp [ha]
      · have : (a == h) = false := by simpa using hah
        simp [this]
    · rw [List.filter_cons]; simp only [ha, Bool.false_eq_true, if_false]; rw [List.count_cons, ih]
      by_cases hah : a = h
      · subst hah; simp [ha]
      · have : (a == h) = false := by simpa using hah
        simp [this]

theorem count_dispatch (rev : Bool) (t : Timing) (hs : List Hd) (h : Hd) :
    (dispatch rev t hs).count h = if h.needed t then hs.count h else 0 := by
  unfold dispatch
  split
  · rw [List.count_reverse, count_filter_needed]
  · exact count_filter_needed t hs h

theorem mem_dispatch {rev : Bool} {t : Timing} {hs : List Hd} {h : Hd} (hm : h ∈ dispatch rev t hs) :
    h ∈ hs ∧ h.needed t = true := by
  unfold dispatch at hm
  split at hm
  · rw [List.mem_reverse, List.mem_filter] at hm; exact hm
  · rw [List.mem_filter] at hm; exact hm

theorem countEv_map (i : Nat) (info : String) (t : Timing) (l : List Hd) (h : Hd) (t0 : Timing) :
    countEv (l.map (fun x => (⟨i, info, x, t⟩ : LogEv))) i h t0 = if t = t0 then l.count h else 0 := by
  induction l with
  | nil => simp [countEv]
  | cons a l ih =>
    unfold countEv at ih ⊢
    rw [List.map_cons, List.filter_cons, List.count_cons]
    by_cases ht : t = t0
    · subst ht
      simp only [if_true] at ih ⊢
      by_cases hah : a = h
      · subst hah; simp [ih]
      · have h1 : (a == h) = false := by simpa using hah
        simp [h1, ih]
    · have h2 : (t == t0) = false := by simpa using ht
      simp only [ht, if_false] at ih ⊢
      simp [h2, ih]

theorem countEv_render (rev : Bool) (i : Nat) (info : String) (hs : List Hd) (ts : List Timing)
    (h : Hd) (t : Timing) :
    countEv (render rev i info hs ts) i h t = ts.count t * (if h.needed t then hs.count h else 0) := by
  induction ts with
  | nil => simp [render, countEv]
  | cons a ts ih =>
    rw [render, countEv_append, ih, countEv_map, List.count_cons]
    by_cases hat : a = t
    · subst hat; simp [count_dispatch, Nat.add_mul, Nat.add_comm]
    · have : (a == t) = false := by simpa using hat
      simp [hat, this]

theorem mem_render {rev : Bool} {i : Nat} {info : String} {hs : List Hd} {ts : List Timing} {e : LogEv}
    (hm : e ∈ render rev i info hs ts) : e.unit = i ∧ e.info = info ∧ e.h ∈ hs ∧ e.h.needed e.t = true ∧ e.t ∈ ts := by
  induction ts with
  | nil => simp [render] at hm
  | cons a ts ih =>
    rw [render, List.mem_append] at hm
    rcases hm with hm | hm
    · rw [List.mem_map] at hm
      obtain ⟨x, hx, rfl⟩ := hm
      obtain ⟨h1, h2⟩ := mem_dispatch hx
      exact ⟨rfl, rfl, h1, h2, List.mem_cons_self⟩
    · obtain ⟨a1, a2, a3, a4, a5⟩ := ih hm
      exact ⟨a1, a2, a3, a4, List.mem_cons_of_mem _ a5⟩

theorem mem_projLog {log : List LogEv} {e : LogEv} (hm : e ∈ log) : e ∈ projLog log e.unit := by
  simp [projLog, hm]

/-! ### copied streams -/

theorem drain_eq (fuel : Nat) : ∀ (c : Copies) (r k : Nat), c.cur[r]? = some (some k) → k ≤ c.buf.length →
    (c.buf ++ c.src).length - k ≤ fuel → c.drain r fuel = (c.buf ++ c.src).drop k := by
  induction fuel with
  | zero =>
    intro c r k _ _ hf
    rw [Copies.drain, List.drop_eq_nil_of_le (by omega)]
  | succ fuel ih =>
    intro c r k hk hkb hf
    have hr : r < c.cur.length := by
      by_cases hr : r < c.cur.length
      · exact hr
      · rw [List.getElem?_eq_none (by omega)] at hk; cases hk
    unfold Copies.drain Copies.recv
    simp only [hk]
    by_cases hlt : k < c.buf.length
    · simp only [hlt, if_true]
      rw [List.getElem?_eq_getElem hlt]
      simp only
      rw [ih _ r (k + 1) (by simp [List.getElem?_set_self hr]) (by show k + 1 ≤ c.buf.length; omega) (by simp at hf ⊢; omega)]
      simp only
      have hlt' : k < (c.buf ++ c.src).length := by simp; omega
      rw [List.drop_eq_getElem_cons hlt', List.getElem_append_left hlt]
    · simp only [hlt, if_false]
      have hkeq : k = c.buf.length := by omega
      cases hsrc : c.src with
      | nil => simp only; rw [List.drop_eq_nil_of_le (by simp; omega)]
      | cons x xs =>
        simp only
        rw [ih _ r (k + 1) (by simp [List.getElem?_set_self hr]) (by simp; omega) (by simp [hsrc] at hf ⊢; omega)]
        simp only
        subst hkeq
        simp

structure GoodCopies (items : List Nat) (flow : Nat) (c : Copies) : Prop where
  all : c.buf ++ c.src = items
  cur : c.cur[flow]? = some (some 0)

theorem good_apply {items : List Nat} {flow : Nat} {c : Copies} (g : GoodCopies items flow c)
    (op : ROp) (hne : op.reader ≠ flow) : GoodCopies items flow (c.apply op) := by
  cases op with
  | close r =>
    have hne' : r ≠ flow := hne
    exact ⟨g.all, by simp only [Copies.apply, Copies.close]; rw [List.getElem?_set_ne hne']; exact g.cur⟩
  | recv r =>
    have hne' : r ≠ flow := hne
    simp only [Copies.apply, Copies.recv]
    split
    · rename_i k _
      split
      · exact ⟨g.all, by simp only; rw [List.getElem?_set_ne hne']; exact g.cur⟩
      · split
        · exact g
        · rename_i x xs hsrc
          refine ⟨?_, by simp only; rw [List.getElem?_set_ne hne']; exact g.cur⟩
          simp only
          rw [← g.all, hsrc]; simp
    · exact g

theorem good_foldl {items : List Nat} {flow : Nat} (ops : List ROp) :
    ∀ c, GoodCopies items flow c → (∀ op ∈ ops, op.reader ≠ flow) →
      GoodCopies items flow (ops.foldl Copies.apply c) := by
  induction ops with
  | nil => intro c g _; exact g
  | cons op ops ih =>
    intro c g h
    exact ih _ (good_apply g op (h op List.mem_cons_self)) (fun o ho => h o (List.mem_cons_of_mem _ ho))

theorem drain_after_others (items : List Nat) (n flow : Nat) (hflow : flow < n) (ops : List ROp)
    (hothers : ∀ op ∈ ops, op.reader ≠ flow) :
    (ops.foldl Copies.apply (Copies.mk' items n)).drain flow items.length = items := by
  have g0 : GoodCopies items flow (Copies.mk' items n) :=
    ⟨by simp [Copies.mk'], by simp [Copies.mk', hflow]⟩
  have g := good_foldl ops _ g0 hothers
  rw [drain_eq items.length _ flow 0 g.cur (Nat.zero_le _) (by rw [g.all]; omega), g.all, List.drop_zero]

end EinoV.C10
