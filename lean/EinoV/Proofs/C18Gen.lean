/-
  C18 — the regenerated source facts (EinoV/Gen/FactsC18.lean, core types only) decoded into
  the model's parameter record, and the concrete scripts used as witnesses in Props/C18.lean.
-/
import EinoV.Model.C18Shared
import EinoV.Gen.FactsC18

namespace EinoV.C18
open EinoV.Gen

/-- the source facts, decoded into the model's parameter record -/
def genFacts : Option Facts :=
  Facts.decode FactsC18.checkerRules FactsC18.checkerAtEOF
    FactsC18.topoPlainNodes FactsC18.topoPlainEdges FactsC18.topoPlainBranches
    FactsC18.topoRDNodes FactsC18.topoRDEdges FactsC18.topoRDBranches
    FactsC18.maxStepPassed FactsC18.maxStepExported FactsC18.defaultSlack FactsC18.modelPreAppends FactsC18.toolsPreAppends

/-- the source facts about the memory of the message history (Model/C18Shared.lean) -/
def genMemFacts : MemFacts :=
  { historyOnlyAppended := FactsC18.historyOnlyAppended, stateFreshPerRun := FactsC18.stateFreshPerRun }

/-! ## witness scripts -/

/-- one echo tool `t` -/
def wTools : String → Option (String → Except Nat String) :=
  fun n => if n == "t" then some (fun a => .ok ("t(" ++ a ++ ")")) else none

def wCfg (rd : List String) (maxStep : Int) : Config :=
  { tools := wTools, returnDirectly := rd, maxStep := maxStep, modifier := id, checker := none }

def wOrig : List Msg := [⟨.user, "hi", [], ""⟩]

/-- content chunk first, the tool call in the second chunk -/
def wLate : Reply := ⟨[⟨"thinking", [], []⟩, ⟨"", [⟨"c1", "t", "x", none⟩], []⟩]⟩
def wDone : Reply := ⟨[⟨"done", [], []⟩]⟩

/-- a head chunk that carries nothing but provider metadata (`Extra`), then the tool call -/
def wMetaHead : Reply := ⟨[⟨"", [], ["extra:request_id"]⟩, ⟨"", [⟨"c1", "t", "x", none⟩], []⟩]⟩

/-- two parallel calls of `t` streamed as deltas, one delta per call in every chunk: heads (id,
    name), then the arguments in two fragments each -/
def wInterleaved : Reply := ⟨[
  ⟨"", [⟨"c0", "t", "", some 0⟩, ⟨"c1", "t", "", some 1⟩], []⟩,
  ⟨"", [⟨"", "", "{\"a\":", some 0⟩, ⟨"", "", "{\"b\":", some 1⟩], []⟩,
  ⟨"", [⟨"", "", "1}", some 0⟩, ⟨"", "", "2}", some 1⟩], []⟩]⟩

/-- the same deltas, those of each call back to back -/
def wContiguous : Reply := ⟨[
  ⟨"", [⟨"c0", "t", "", some 0⟩, ⟨"", "", "{\"a\":", some 0⟩], []⟩,
  ⟨"", [⟨"", "", "1}", some 0⟩, ⟨"c1", "t", "", some 1⟩], []⟩,
  ⟨"", [⟨"", "", "{\"b\":", some 1⟩, ⟨"", "", "2}", some 1⟩], []⟩]⟩

/-- `wCfg` with an unknown-tools handler that names the tool it was asked for -/
def wCfgU (rd : List String) (maxStep : Int) : Config :=
  { wCfg rd maxStep with unknown := some (fun n a => .ok ("no tool " ++ n ++ "(" ++ a ++ ")")) }

/-- the model misspells `t` in its first call and calls the real `t` in the same message -/
def wMisspelt : Reply := ⟨[⟨"", [⟨"c1", "tt", "a", none⟩, ⟨"c2", "t", "b", none⟩], []⟩]⟩

/-- two runs for the shared-slice witnesses: each calls `t` once (with its own argument and call
    id) and then answers -/
def wRunA : RunSpec :=
  { cfg := wCfg [] 0, mode := .generate,
    script := [⟨[⟨"for A", [⟨"cA", "t", "a", none⟩], []⟩]⟩, ⟨[⟨"answer A", [], []⟩]⟩] }
def wRunB : RunSpec :=
  { cfg := wCfg [] 0, mode := .stream,
    script := [⟨[⟨"for B", [⟨"cB", "t", "b", none⟩], []⟩]⟩, ⟨[⟨"answer B", [], []⟩]⟩] }

/-- two spare cells behind the caller's one message (whatever the caller keeps there) -/
def wSpare : List Msg := [⟨.user, "spare-0", [], ""⟩, ⟨.user, "spare-1", [], ""⟩]

end EinoV.C18
