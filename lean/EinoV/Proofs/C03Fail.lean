/-
  C03 — lemmas for `Model/C03Fail.lean` (a batch step with a failing node).
-/
import EinoV.Model.C03Fail
import EinoV.Proofs.C03Loop

namespace EinoV.C03

/-- with the fact `waitAllLoops` the return condition of `waitAll` is the one of the interrupt
    path collecting with `waitAll` -/
theorem waitAllReturns_loops (b needAll : Bool) (k : Nat) (s : St) :
    waitAllReturns true k s = pathReturns ⟨b, true⟩ needAll k s := by
  simp [waitAllReturns, pathReturns]

/-- `waitAll` of a failing step is the collecting call of the interrupt path (`tm.waitAll()`):
    whether a received execution ended with an error plays no role -/
theorem waitAllPath_loops (F : Facts) (b needAll : Bool) :
    ∀ (evs : List Ev) (k : Nat) (s : St),
      waitAllPath F true needAll k s evs = interruptPath F ⟨b, true⟩ needAll k s evs
  | [], k, s => by
    simp only [waitAllPath, interruptPath, waitAllReturns_loops b needAll]
  | e :: es, k, s => by
    simp only [waitAllPath, interruptPath, waitAllReturns_loops b needAll]
    split
    · rfl
    · split
      · rfl
      · cases step F needAll s e with
        | none => rfl
        | some s1 => exact waitAllPath_loops F b needAll es _ s1

/-- `l` without the members of `l` is empty -/
theorem filter_not_contains_self (l : List Key) : l.filter (fun k => !l.contains k) = [] := by
  rw [List.filter_eq_nil_iff]
  intro k hk
  simp [hk]

/-- with the fact `waitAllLoops` a batch run with failing nodes has received everything it
    started when it returns -/
theorem fLoop_started_eq_collected (c : FCfg) :
    ∀ (n : Nat) (st : GState) (acc : List (List Key)),
      (fLoop c true n st acc).started = (fLoop c true n st acc).collected
  | 0, st, acc => rfl
  | n + 1, st, acc => by
    simp only [fLoop]
    split
    · rfl
    · split
      · rfl
      · split
        · simp [fDrained]
        · exact fLoop_started_eq_collected c n _ _

theorem fRun_uncollected_nil (c : FCfg) : fUncollected (fRun c true) = [] := by
  unfold fUncollected fRun
  rw [fLoop_started_eq_collected]
  exact filter_not_contains_self _

end EinoV.C03
