/-
  C17, family `late` — helper lemmas about `lateSteps`, `produce`, `deliver` (Model/C17Late.lean).
-/
import EinoV.Model.C17Late

namespace EinoV.C17

/-- the shipped shape: the tools' context is the caller's and nothing the node does ends it -/
def CtxFacts.Good (CF : CtxFacts) : Prop := CF.notScoped = true ∧ CF.fromCaller = true

theorem ctxDone_good {CF : CtxFacts} (h : CF.Good) (b : Bool) : ctxDone CF b = b := by
  obtain ⟨h1, h2⟩ := h
  simp [ctxDone, h1, h2]

theorem cancelledAt_none (t : Nat) : cancelledAt none t = false := rfl

theorem cancelledAt_zero (t : Nat) : cancelledAt (some 0) t = true := by simp [cancelledAt]

/-! ### context alive at every step: everything is delivered -/

theorem lateSteps_alive {β : Type} (od : OnDone) (done : Nat → Bool) (h : ∀ j, done j = false) :
    ∀ (j : Nat) (xs : List β), lateSteps od done j xs = xs.map .chunk
  | _, [] => rfl
  | j, x :: xs => by simp [lateSteps, h j, lateSteps_alive od done h (j + 1) xs]

theorem produce_alive {β : Type} (p : Pace) (done : Nat → Bool) (h : ∀ j, done j = false)
    (xs : List β) : produce p done xs = xs.map .chunk := by
  unfold produce
  rw [lateSteps_alive _ _ h, ← List.map_append, List.take_append_drop]

/-! ### an ignoring producer delivers everything whatever it sees -/

theorem lateSteps_ignore {β : Type} (done : Nat → Bool) :
    ∀ (j : Nat) (xs : List β), lateSteps .ignore done j xs = xs.map .chunk
  | _, [] => rfl
  | j, x :: xs => by
    simp only [lateSteps, List.map_cons]
    split <;> rw [lateSteps_ignore done (j + 1) xs]

theorem produce_ignore {β : Type} (p : Pace) (hp : p.onDone = .ignore) (done : Nat → Bool)
    (xs : List β) : produce p done xs = xs.map .chunk := by
  unfold produce
  rw [hp, lateSteps_ignore, ← List.map_append, List.take_append_drop]

/-! ### context done at every step -/

theorem lateSteps_done {β : Type} (od : OnDone) (done : Nat → Bool) (h : ∀ j, done j = true)
    (j : Nat) (x : β) (xs : List β) :
    lateSteps od done j (x :: xs) =
      match od with
      | .fail => [.ctxErr]
      | .stop => []
      | .ignore => (x :: xs).map .chunk := by
  cases od with
  | fail => simp [lateSteps, h j]
  | stop => simp [lateSteps, h j]
  | ignore => exact lateSteps_ignore done j (x :: xs)

/-! ### in general: a prefix that contains the eager part; an error item only from `fail` -/

theorem chunks_map_chunk {β : Type} (xs : List β) : chunksOfItems (xs.map Item.chunk) = xs := by
  induction xs with
  | nil => rfl
  | cons x xs ih =>
    simp only [chunksOfItems, List.map_cons, List.filterMap_cons, Item.chunk?] at ih ⊢
    rw [ih]

theorem chunks_lateSteps_prefix {β : Type} (od : OnDone) (done : Nat → Bool) :
    ∀ (j : Nat) (xs : List β), chunksOfItems (lateSteps od done j xs) <+: xs
  | _, [] => by simp [lateSteps, chunksOfItems]
  | j, x :: xs => by
    have ih := chunks_lateSteps_prefix od done (j + 1) xs
    have hc : chunksOfItems (Item.chunk x :: lateSteps od done (j + 1) xs)
        = x :: chunksOfItems (lateSteps od done (j + 1) xs) := by
      simp [chunksOfItems, Item.chunk?]
    unfold lateSteps
    split
    · cases od with
      | fail => exact ⟨x :: xs, rfl⟩
      | stop => exact ⟨x :: xs, rfl⟩
      | ignore => simp only []; rw [hc]; exact List.cons_prefix_cons.2 ⟨rfl, ih⟩
    · rw [hc]; exact List.cons_prefix_cons.2 ⟨rfl, ih⟩

theorem chunks_append {β : Type} (a b : List (Item β)) :
    chunksOfItems (a ++ b) = chunksOfItems a ++ chunksOfItems b := by
  simp [chunksOfItems]

/-- the delivered chunks are a prefix of the tool's chunks and contain the eager ones -/
theorem chunks_produce {β : Type} (p : Pace) (done : Nat → Bool) (xs : List β) :
    chunksOfItems (produce p done xs) <+: xs ∧ xs.take p.hold <+: chunksOfItems (produce p done xs) := by
  unfold produce
  rw [chunks_append, chunks_map_chunk]
  constructor
  · obtain ⟨t, ht⟩ := chunks_lateSteps_prefix p.onDone done 0 (xs.drop p.hold)
    refine ⟨t, ?_⟩
    rw [List.append_assoc, ht, List.take_append_drop]
  · exact List.prefix_append _ _

theorem ctxErr_mem_lateSteps {β : Type} (od : OnDone) (done : Nat → Bool) :
    ∀ (j : Nat) (xs : List β), Item.ctxErr ∈ lateSteps od done j xs → od = .fail ∧ ∃ j', done j' = true
  | _, [], h => by simp [lateSteps] at h
  | j, x :: xs, h => by
    unfold lateSteps at h
    split at h
    · rename_i hd
      cases od with
      | fail => exact ⟨rfl, j, hd⟩
      | stop => simp at h
      | ignore =>
        simp only [List.mem_cons] at h
        rcases h with h | h
        · cases h
        · exact ctxErr_mem_lateSteps _ done (j + 1) xs h
    · simp only [List.mem_cons] at h
      rcases h with h | h
      · cases h
      · exact ctxErr_mem_lateSteps od done (j + 1) xs h

theorem ctxErr_mem_produce {β : Type} (p : Pace) (done : Nat → Bool) (xs : List β)
    (h : Item.ctxErr ∈ produce p done xs) : p.onDone = .fail ∧ ∃ j, done j = true := by
  unfold produce at h
  rw [List.mem_append] at h
  rcases h with h | h
  · obtain ⟨y, _, hy⟩ := List.mem_map.1 h
    cases hy
  · exact ctxErr_mem_lateSteps _ _ _ _ h

/-! ### deliver -/

theorem length_deliver {β : Type} (CF : CtxFacts) (paces : Nat → Option Pace) (prod : List Nat)
    (cancel : Option Nat) (srcs : List (List β)) :
    (deliver CF paces prod cancel srcs).length = srcs.length := by
  simp [deliver]

theorem getElem_deliver {β : Type} (CF : CtxFacts) (paces : Nat → Option Pace) (prod : List Nat)
    (cancel : Option Nat) (srcs : List (List β)) (i : Nat) (h : i < srcs.length) :
    (deliver CF paces prod cancel srcs)[i]'(by rw [length_deliver]; exact h) =
      match paces i with
      | none => srcs[i].map .chunk
      | some p => produce p (fun j => ctxDone CF (cancelledAt cancel (timeOf prod i j))) srcs[i] := by
  cases hp : paces i <;> simp [deliver, hp]

/-- with the context alive at every script time, every source delivers all its chunks:
    pacing and production order are invisible -/
theorem deliver_alive {β : Type} (CF : CtxFacts) (paces : Nat → Option Pace) (prod : List Nat)
    (cancel : Option Nat) (h : ∀ t, ctxDone CF (cancelledAt cancel t) = false)
    (srcs : List (List β)) :
    deliver CF paces prod cancel srcs = srcs.map (·.map .chunk) := by
  apply List.ext_getElem
  · simp [length_deliver]
  · intro i h1 h2
    have hi : i < srcs.length := by simpa [length_deliver] using h1
    rw [getElem_deliver _ _ _ _ _ i hi]
    cases paces i with
    | none => simp
    | some p => simp [produce_alive p _ (fun j => h _)]

end EinoV.C17
