/-
  C15 — lemmas about the overlap check (`checkAndAddMappedPath` as a prefix tree).
  With the structural facts of a correct prefix tree (`Expected.C15.trie`) a declaration
  sequence is accepted iff no two target paths are equal or prefix-related.
-/
import EinoV.Model.C15
import EinoV.Expected.C15

set_option linter.unusedSimpArgs false

namespace EinoV.C15
open EinoV.Expected.C15

/-! ### prefix relation -/

theorem prefixRel_symm {p q : Path} : prefixRel p q → prefixRel q p := fun h => h.symm

theorem prefixRel_nil_left (p : Path) : prefixRel [] p := Or.inl (List.nil_prefix)

theorem prefixRel_cons_iff {s s' : Seg} {p q : Path} :
    prefixRel (s :: p) (s' :: q) ↔ s = s' ∧ prefixRel p q := by
  unfold prefixRel
  simp only [List.cons_prefix_cons]
  constructor
  · rintro (⟨h, h'⟩ | ⟨h, h'⟩)
    · exact ⟨h, Or.inl h'⟩
    · exact ⟨h.symm, Or.inr h'⟩
  · rintro ⟨h, h' | h'⟩
    · exact Or.inl ⟨h, h'⟩
    · exact Or.inr ⟨h.symm, h'⟩

theorem prefixRel_cons_nil {s : Seg} {p : Path} : prefixRel (s :: p) [] := Or.inr List.nil_prefix

/-! ### membership of a terminal path -/

/-- `p` is a terminal path of the tree -/
def tmem : Trie → Path → Bool
  | .term, [] => true
  | .term, _ :: _ => false
  | .node _, [] => false
  | .node cs, s :: r =>
    match cs.find s with
    | some t => tmem t r
    | none => false

mutual
/-- no dangling inner node: below every inner node there is a terminal -/
def wfT : Trie → Prop
  | .term => True
  | .node cs => cs ≠ .nil ∧ wfK cs
def wfK : Kids → Prop
  | .nil => True
  | .cons _ t r => wfT t ∧ wfK r
end

theorem Kids.find_set_same : ∀ (cs : Kids) (s : String) (t : Trie), (cs.set s t).find s = some t
  | .nil, s, t => by simp [Kids.set, Kids.find]
  | .cons k u r, s, t => by
    have ih := Kids.find_set_same r s t
    simp only [Kids.set]
    split
    · next h => simp [Kids.find, h]
    · next h => simp [Kids.find, h, ih]

theorem Kids.find_set_other : ∀ (cs : Kids) {s s' : String} (t : Trie), s' ≠ s →
    (cs.set s t).find s' = cs.find s'
  | .nil, s, s', t, h => by simp [Kids.set, Kids.find, h]
  | .cons k u r, s, s', t, h => by
    have ih := Kids.find_set_other r t h
    simp only [Kids.set]
    split
    · next hk => subst hk; simp [Kids.find, h]
    · next hk =>
      simp only [Kids.find]
      split
      · rfl
      · exact ih

theorem Kids.set_ne_nil (cs : Kids) (s : String) (t : Trie) : cs.set s t ≠ .nil := by
  cases cs with
  | nil => simp [Kids.set]
  | cons k u r => simp only [Kids.set]; split <;> simp

theorem wfK_find : ∀ {cs : Kids}, wfK cs → ∀ {s : String} {t : Trie}, cs.find s = some t → wfT t
  | .nil, _, s, t, hf => by simp [Kids.find] at hf
  | .cons k u r, h, s, t, hf => by
    simp only [wfK] at h
    simp only [Kids.find] at hf
    split at hf
    · cases hf; exact h.1
    · exact wfK_find h.2 hf

theorem wfK_set : ∀ {cs : Kids}, wfK cs → ∀ (s : String) {t : Trie}, wfT t → wfK (cs.set s t)
  | .nil, _, s, t, ht => by simp [Kids.set, wfK, ht]
  | .cons k u r, h, s, t, ht => by
    simp only [wfK] at h
    simp only [Kids.set]
    split
    · simp [wfK, ht, h.2]
    · simp [wfK, h.1, wfK_set h.2 s ht]

@[simp] theorem trie_rtt : trie.rejectsThroughTerminal = true := rfl
@[simp] theorem trie_de : trie.descendsExisting = true := rfl
@[simp] theorem trie_reoi : trie.rejectsEndOnInner = true := rfl
@[simp] theorem trie_rwaf : trie.rejectsWholeAfterFields = true := rfl
@[simp] theorem trie_epiw : trie.emptyPathIsWhole = true := rfl

/-- every non-empty child list with no dangling node has a terminal -/
theorem exists_mem_of_wf : ∀ (n : Nat) (cs : Kids), sizeOf cs ≤ n → cs ≠ .nil → wfK cs →
    ∃ q, tmem (.node cs) q = true := by
  intro n
  induction n with
  | zero =>
    intro cs hs hne _
    cases cs with
    | nil => exact absurd rfl hne
    | cons k t r => simp at hs
  | succ n ih =>
    intro cs hs hne hwf
    cases cs with
    | nil => exact absurd rfl hne
    | cons k t r =>
      simp only [wfK] at hwf
      cases t with
      | term => exact ⟨[k], by simp [tmem, Kids.find]⟩
      | node sub =>
        simp only [wfT] at hwf
        have hsz : sizeOf sub ≤ n := by simp at hs; omega
        obtain ⟨q, hq⟩ := ih sub hsz hwf.1.1 hwf.1.2
        exact ⟨k :: q, by simp [tmem, Kids.find, hq]⟩

theorem exists_mem_of_wfT_node {sub : Kids} (h : wfT (.node sub)) : ∃ q, tmem (.node sub) q = true := by
  simp only [wfT] at h
  exact exists_mem_of_wf (sizeOf sub) sub (Nat.le_refl _) h.1 h.2

theorem tmem_node_nil (q : Path) : tmem (.node .nil) q = false := by
  cases q <;> simp [tmem, Kids.find]

/-! ### inserting one non-empty path (correct prefix tree) -/

theorem insPath_single (cs : Kids) (s : Seg) :
    insPath trie cs [s] = (match cs.find s with | some _ => none | none => some (cs.set s .term)) := by
  simp only [insPath, trie_rtt, trie_reoi, if_true]
  cases h : cs.find s with
  | none => rfl
  | some t => cases t <;> rfl

theorem insPath_cons (cs : Kids) (s s' : Seg) (r : Path) :
    insPath trie cs (s :: s' :: r) =
      (match cs.find s with
       | some .term => none
       | some (.node sub0) => (insPath trie sub0 (s' :: r)).map (fun sub => cs.set s (.node sub))
       | none => (insPath trie .nil (s' :: r)).map (fun sub => cs.set s (.node sub))) := by
  simp only [insPath, trie_rtt, trie_de, if_true]
  cases h : cs.find s with
  | none => rfl
  | some t => cases t <;> rfl

/-- the specification of one insertion -/
theorem insPath_spec : ∀ (p : Path) (cs : Kids), p ≠ [] → wfK cs →
    (insPath trie cs p = none ↔ ∃ q, tmem (.node cs) q = true ∧ prefixRel p q) ∧
    (∀ cs', insPath trie cs p = some cs' →
      cs' ≠ .nil ∧ wfK cs' ∧ ∀ q, tmem (.node cs') q = true ↔ (q = p ∨ tmem (.node cs) q = true)) := by
  intro p
  induction p with
  | nil => intro cs h; exact absurd rfl h
  | cons s r ih =>
    intro cs _ hwf
    cases r with
    | nil =>
      rw [insPath_single]
      cases hf : cs.find s with
      | some t =>
        refine ⟨⟨fun _ => ?_, fun _ => rfl⟩, fun cs' h => by simp at h⟩
        cases t with
        | term => exact ⟨[s], by simp [tmem, hf], Or.inl (List.prefix_refl _)⟩
        | node sub =>
          obtain ⟨q, hq⟩ := exists_mem_of_wfT_node (wfK_find hwf hf)
          exact ⟨s :: q, by simp [tmem, hf, hq], Or.inl (by simp)⟩
      | none =>
        refine ⟨⟨fun h => by simp at h, ?_⟩, ?_⟩
        · rintro ⟨q, hq, hrel⟩
          cases q with
          | nil => simp [tmem] at hq
          | cons s' q' =>
            have := (prefixRel_cons_iff.mp hrel).1
            subst this
            simp [tmem, hf] at hq
        · intro cs' h
          simp only [Option.some.injEq] at h
          subst h
          refine ⟨Kids.set_ne_nil _ _ _, wfK_set hwf s (by simp [wfT]), fun q => ?_⟩
          cases q with
          | nil => simp [tmem]
          | cons s' q' =>
            by_cases hs : s' = s
            · subst hs
              simp only [tmem, Kids.find_set_same, hf]
              cases q' <;> simp [tmem]
            · simp only [tmem, Kids.find_set_other cs .term hs]
              constructor
              · intro h; exact Or.inr h
              · rintro (h | h)
                · simp at h; exact absurd h.1 hs
                · exact h
    | cons s' r' =>
      rw [insPath_cons]
      have ihr := ih
      cases hf : cs.find s with
      | none =>
        -- a fresh chain below a new inner node
        have hnil := ihr .nil (by simp) (by simp [wfK])
        have hsome : ∃ sub, insPath trie .nil (s' :: r') = some sub := by
          cases hi : insPath trie .nil (s' :: r') with
          | some sub => exact ⟨sub, rfl⟩
          | none =>
            obtain ⟨q, hq, _⟩ := hnil.1.mp hi
            simp [tmem_node_nil] at hq
        obtain ⟨sub, hsub⟩ := hsome
        obtain ⟨hne, hwfs, hmem⟩ := hnil.2 sub hsub
        simp only [hsub, Option.map_some]
        refine ⟨⟨fun h => by simp at h, ?_⟩, ?_⟩
        · rintro ⟨q, hq, hrel⟩
          cases q with
          | nil => simp [tmem] at hq
          | cons s'' q' =>
            have := (prefixRel_cons_iff.mp hrel).1
            subst this
            simp [tmem, hf] at hq
        · intro cs' h
          simp only [Option.some.injEq] at h
          subst h
          refine ⟨Kids.set_ne_nil _ _ _, wfK_set hwf s (by simp [wfT, hne, hwfs]), fun q => ?_⟩
          cases q with
          | nil => simp [tmem]
          | cons s'' q' =>
            by_cases hs : s'' = s
            · subst hs
              simp only [tmem, Kids.find_set_same, hf]
              rw [hmem q']
              simp [tmem_node_nil]
            · simp only [tmem, Kids.find_set_other cs _ hs]
              constructor
              · intro h; exact Or.inr h
              · rintro (h | h)
                · simp at h; exact absurd h.1 hs
                · exact h
      | some t =>
        cases t with
        | term =>
          refine ⟨⟨fun _ => ⟨[s], by simp [tmem, hf], Or.inr (by simp)⟩, fun _ => rfl⟩, fun cs' h => by simp at h⟩
        | node sub0 =>
          have hwf0 : wfT (.node sub0) := wfK_find hwf hf
          have hsub := ihr sub0 (by simp) (by simp only [wfT] at hwf0; exact hwf0.2)
          simp only []
          refine ⟨?_, ?_⟩
          · rw [Option.map_eq_none_iff, hsub.1]
            constructor
            · rintro ⟨q, hq, hrel⟩
              exact ⟨s :: q, by simp [tmem, hf, hq], prefixRel_cons_iff.mpr ⟨rfl, hrel⟩⟩
            · rintro ⟨q, hq, hrel⟩
              cases q with
              | nil => simp [tmem] at hq
              | cons s'' q' =>
                obtain ⟨h1, h2⟩ := prefixRel_cons_iff.mp hrel
                subst h1
                simp only [tmem, hf] at hq
                exact ⟨q', hq, h2⟩
          · intro cs' h
            cases hi : insPath trie sub0 (s' :: r') with
            | none => simp [hi] at h
            | some sub =>
              simp only [hi, Option.map_some, Option.some.injEq] at h
              subst h
              obtain ⟨hne, hwfs, hmem⟩ := hsub.2 sub hi
              refine ⟨Kids.set_ne_nil _ _ _, wfK_set hwf s (by simp [wfT, hne, hwfs]), fun q => ?_⟩
              cases q with
              | nil => simp [tmem]
              | cons s'' q' =>
                by_cases hs : s'' = s
                · subst hs
                  simp only [tmem, Kids.find_set_same, hf]
                  rw [hmem q']
                  simp
                · simp only [tmem, Kids.find_set_other cs _ hs]
                  constructor
                  · intro h; exact Or.inr h
                  · rintro (h | h)
                    · simp at h; exact absurd h.1 hs
                    · exact h

/-! ### the declarations of one node -/

/-- the root of the tree knows exactly the paths in `P` -/
structure RootInv (t : Trie) (P : List Path) : Prop where
  wf : match t with | .term => True | .node cs => wfK cs
  mem : ∀ q, tmem t q = true ↔ q ∈ P

theorem addPaths_spec : ∀ (paths : List Path) (t : Trie) (P : List Path), RootInv t P →
    ((addPaths trie t paths).isSome ↔
      (paths.Pairwise (fun p q => ¬ prefixRel p q) ∧ ∀ p ∈ paths, ∀ q ∈ P, ¬ prefixRel q p)) ∧
    (∀ t', addPaths trie t paths = some t' → RootInv t' (paths.reverse ++ P)) := by
  intro paths
  induction paths with
  | nil =>
    intro t P hinv
    simp only [addPaths, Option.isSome_some, List.Pairwise.nil, List.not_mem_nil, false_imp_iff, implies_true,
      and_self, true_iff, List.reverse_nil, List.nil_append, Option.some.injEq]
    exact ⟨trivial, fun t' h => h ▸ hinv⟩
  | cons p rest ih =>
    intro t P hinv
    cases t with
    | term =>
      -- the whole input is mapped: everything conflicts with `[]`
      have hmem : ([] : Path) ∈ P := (hinv.mem []).mp (by simp [tmem])
      simp only [addPaths]
      refine ⟨⟨fun h => by simp at h, fun h => ?_⟩, fun t' h => by simp at h⟩
      exact absurd (prefixRel_nil_left p) (h.2 p (by simp) [] hmem)
    | node cs =>
      have hwf : wfK cs := hinv.wf
      cases p with
      | nil =>
        simp only [addPaths, trie_epiw, if_true]
        by_cases hcs : cs = .nil
        · subst hcs
          have hP : P = [] := by
            cases P with
            | nil => rfl
            | cons q _ =>
              have := (hinv.mem q).mpr (by simp)
              simp [tmem_node_nil] at this
          subst hP
          have hinv' : RootInv .term [[]] := ⟨trivial, fun q => by cases q <;> simp [tmem]⟩
          have := ih .term [[]] hinv'
          simp only [if_true]
          refine ⟨?_, fun t' h => ?_⟩
          · rw [this.1]
            constructor
            · rintro ⟨h1, h2⟩
              refine ⟨List.pairwise_cons.mpr ⟨fun q hq => ?_, h1⟩, fun _ _ q hq => by simp at hq⟩
              exact h2 q hq [] (by simp)
            · rintro ⟨h1, _⟩
              obtain ⟨h3, h4⟩ := List.pairwise_cons.mp h1
              refine ⟨h4, fun q hq q' hq' => ?_⟩
              have : q' = [] := by simpa using hq'
              subst this
              exact h3 q hq
          · have := this.2 t' h
            simpa using this
        · simp only [hcs, if_false]
          obtain ⟨q, hq⟩ := exists_mem_of_wf (sizeOf cs) cs (Nat.le_refl _) hcs hwf
          have hqP := (hinv.mem q).mp hq
          refine ⟨⟨fun h => by simp at h, fun h => ?_⟩, fun t' h => by simp at h⟩
          exact absurd (prefixRel_symm (prefixRel_nil_left q)) (h.2 [] (by simp) q hqP)
      | cons s r =>
        have hspec := insPath_spec (s :: r) cs (by simp) hwf
        simp only [addPaths]
        cases hi : insPath trie cs (s :: r) with
        | none =>
          obtain ⟨q, hq, hrel⟩ := hspec.1.mp hi
          have hqP := (hinv.mem q).mp hq
          refine ⟨⟨fun h => by simp at h, fun h => ?_⟩, fun t' h => by simp at h⟩
          exact absurd (prefixRel_symm hrel) (h.2 (s :: r) (by simp) q hqP)
        | some cs' =>
          obtain ⟨_, hwf', hmem'⟩ := hspec.2 cs' hi
          have hinv' : RootInv (.node cs') ((s :: r) :: P) :=
            ⟨hwf', fun q => by rw [hmem' q, hinv.mem q]; simp⟩
          have := ih (.node cs') ((s :: r) :: P) hinv'
          have hnone : ¬ ∃ q, tmem (.node cs) q = true ∧ prefixRel (s :: r) q := by
            intro h; have := hspec.1.mpr h; simp [hi] at this
          refine ⟨?_, fun t' h => ?_⟩
          · rw [this.1]
            simp only [List.pairwise_cons, List.mem_cons, forall_eq_or_imp]
            constructor
            · rintro ⟨h1, h2⟩
              refine ⟨⟨fun q hq hrel => (h2 q hq).1 hrel, h1⟩, fun q hq hrel => ?_, fun q hq => (h2 q hq).2⟩
              exact hnone ⟨q, (hinv.mem q).mpr hq, prefixRel_symm hrel⟩
            · rintro ⟨⟨h1, h2⟩, h3, h4⟩
              exact ⟨h2, fun q hq => ⟨h1 q hq, h4 q hq⟩⟩
          · have := this.2 t' h
            simpa [List.append_assoc] using this

/-- the invariant of `n.mappedFieldPath[""]` across the `AddInput` calls of one node -/
def StInv (st : MState) (P : List Path) : Prop :=
  match st with
  | none => P = []
  | some t => P ≠ [] ∧ RootInv t P

theorem checkFrom_spec : ∀ (groups : List (List Path)) (st : MState) (P : List Path), StInv st P →
    (checkFrom trie st groups = true ↔
      ((targets groups).Pairwise (fun p q => ¬ prefixRel p q) ∧
        ∀ p ∈ targets groups, ∀ q ∈ P, ¬ prefixRel q p)) := by
  intro groups
  induction groups with
  | nil => intro st P _; simp [checkFrom, targets]
  | cons g rest ih =>
    intro st P hinv
    have htg : targets (g :: rest) = (if g.isEmpty then [[]] else g) ++ targets rest := by
      simp [targets]
    rw [htg]
    simp only [checkFrom, checkAdd]
    cases st with
    | none =>
      have hP : P = [] := hinv
      subst hP
      by_cases hg : g.isEmpty = true
      · -- the whole input
        simp only [hg, if_true]
        have hinv' : StInv (some .term) [[]] :=
          ⟨by simp, trivial, fun q => by cases q <;> simp [tmem]⟩
        rw [ih (some .term) [[]] hinv']
        simp only [List.singleton_append, List.pairwise_cons, List.mem_singleton, forall_eq, List.not_mem_nil,
          false_imp_iff, implies_true, and_true, List.mem_cons, forall_eq_or_imp]
        constructor
        · rintro ⟨h1, h2⟩
          exact ⟨fun q hq => absurd (prefixRel_nil_left q) (h2 q hq), h1⟩
        · rintro ⟨h1, h2⟩
          exact ⟨h2, fun q hq => absurd (prefixRel_nil_left q) (h1 q hq)⟩
      · simp only [hg, if_false, Bool.false_eq_true]
        have hroot : RootInv (.node .nil) [] := ⟨by simp [wfK], fun q => by simp [tmem_node_nil]⟩
        have hadd := addPaths_spec g (.node .nil) [] hroot
        cases ha : addPaths trie (.node .nil) g with
        | none =>
          simp only [Option.map_none]
          have : ¬ (g.Pairwise (fun p q => ¬ prefixRel p q) ∧ ∀ p ∈ g, ∀ q ∈ ([] : List Path), ¬ prefixRel q p) := by
            intro h; have := hadd.1.mpr h; simp [ha] at this
          constructor
          · intro h; simp at h
          · rintro ⟨h, _⟩
            exact absurd ⟨(List.pairwise_append.mp h).1, by simp⟩ this
        | some t' =>
          simp only [Option.map_some]
          have hinv2 := hadd.2 t' ha
          have hgne : g ≠ [] := by intro h; subst h; simp at hg
          have hinv' : StInv (some t') (g.reverse ++ []) := ⟨by simp [hgne], hinv2⟩
          rw [ih (some t') _ hinv']
          have hpw := hadd.1.mp (by simp [ha])
          simp only [List.append_nil, List.mem_reverse, List.not_mem_nil, false_imp_iff, implies_true, and_true,
            List.pairwise_append]
          constructor
          · rintro ⟨h1, h2⟩
            exact ⟨hpw.1, h1, fun p hp q hq hrel => h2 q hq p hp hrel⟩
          · rintro ⟨_, h1, h2⟩
            exact ⟨h1, fun p hp q hq hrel => h2 q hq p hp hrel⟩
    | some t =>
      obtain ⟨hPne, hroot⟩ := hinv
      obtain ⟨q0, hq0⟩ := List.exists_mem_of_ne_nil P hPne
      cases t with
      | term =>
        have hnil : ([] : Path) ∈ P := (hroot.mem []).mp (by simp [tmem])
        simp only []
        constructor
        · intro h; simp at h
        · rintro ⟨_, h⟩
          by_cases hg : g.isEmpty = true
          · simp only [hg, if_true] at h
            exact absurd (prefixRel_nil_left _) (h [] (by simp) [] hnil)
          · simp only [hg] at h
            cases g with
            | nil => simp at hg
            | cons p _ => exact absurd (prefixRel_nil_left p) (h p (by simp) [] hnil)
      | node cs =>
        by_cases hg : g.isEmpty = true
        · simp only [hg, if_true, trie_rwaf]
          constructor
          · intro h; simp at h
          · rintro ⟨_, h⟩
            exact absurd (prefixRel_symm (prefixRel_nil_left q0)) (h [] (by simp) q0 hq0)
        · simp only [hg, if_false, Bool.false_eq_true]
          have hadd := addPaths_spec g (.node cs) P hroot
          cases ha : addPaths trie (.node cs) g with
          | none =>
            simp only [Option.map_none]
            have : ¬ (g.Pairwise (fun p q => ¬ prefixRel p q) ∧ ∀ p ∈ g, ∀ q ∈ P, ¬ prefixRel q p) := by
              intro h; have := hadd.1.mpr h; simp [ha] at this
            constructor
            · intro h; simp at h
            · rintro ⟨h, h'⟩
              exact absurd ⟨(List.pairwise_append.mp h).1, fun p hp => h' p (by simp [hp])⟩ this
          | some t' =>
            simp only [Option.map_some]
            have hinv2 := hadd.2 t' ha
            have hinv' : StInv (some t') (g.reverse ++ P) := ⟨by simp [hPne], hinv2⟩
            rw [ih (some t') _ hinv']
            have hpw := hadd.1.mp (by simp [ha])
            simp only [List.mem_append, List.mem_reverse, List.pairwise_append]
            constructor
            · rintro ⟨h1, h2⟩
              refine ⟨⟨hpw.1, h1, fun p hp q hq hrel => h2 q hq p (Or.inl hp) hrel⟩, fun p hp q hq => ?_⟩
              rcases hp with hp | hp
              · exact hpw.2 p hp q hq
              · exact h2 p hp q (Or.inr hq)
            · rintro ⟨⟨_, h1, h2⟩, h3⟩
              refine ⟨h1, fun p hp q hq => ?_⟩
              rcases hq with hq | hq
              · exact fun hrel => h2 q hq p hp hrel
              · exact h3 p (Or.inr hp) q hq

theorem checkMapped_iff (groups : List (List Path)) :
    checkMapped trie groups = true ↔ noOverlap (targets groups) := by
  unfold checkMapped noOverlap
  rw [checkFrom_spec groups none [] rfl]
  simp

/-! ### duplicates -/

theorem dupFree_of_pairwise : ∀ (ps : List Path), ps.Pairwise (fun p q => ¬ prefixRel p q) → dupFree ps = true := by
  intro ps
  induction ps with
  | nil => intro _; rfl
  | cons p rest ih =>
    intro h
    obtain ⟨h1, h2⟩ := List.pairwise_cons.mp h
    simp only [dupFree, Bool.and_eq_true, Bool.not_eq_eq_eq_not, Bool.not_true]
    refine ⟨?_, ih h2⟩
    cases hc : rest.contains p with
    | false => rfl
    | true =>
      have : p ∈ rest := by simpa using hc
      exact absurd (Or.inl (List.prefix_refl p)) (h1 p this)

theorem flatten_sublist_targets (groups : List (List Path)) : (groups.flatten).Sublist (targets groups) := by
  induction groups with
  | nil => simp [targets]
  | cons g rest ih =>
    have htg : targets (g :: rest) = (if g.isEmpty then [[]] else g) ++ targets rest := by simp [targets]
    rw [htg, List.flatten_cons]
    by_cases hg : g.isEmpty = true
    · have : g = [] := by simpa using hg
      subst this
      simp only [List.nil_append, List.isEmpty_nil, if_true]
      exact List.Sublist.trans ih (List.sublist_append_right _ _)
    · simp only [hg, if_false, Bool.false_eq_true]
      exact List.Sublist.append (List.Sublist.refl g) ih

theorem acceptedOverlap_iff (groups : List (List Path)) :
    acceptedOverlap trie groups = true ↔ noOverlap (targets groups) := by
  unfold acceptedOverlap
  rw [Bool.and_eq_true, checkMapped_iff]
  constructor
  · exact fun h => h.1
  · intro h
    exact ⟨h, dupFree_of_pairwise _ (List.Pairwise.sublist (flatten_sublist_targets groups) h)⟩

end EinoV.C15
