/-
  gotrans, phase 3 — `validateDAG` (compose/graph.go), translated on every run into Gen/TransC20.lean,
  decides exactly what the model's `validateDAG` (Model/C20Builder.lean) decides.

  Structure of the proof:
  1. `validateDAG_eq_clean`: the translated `Id.run do` block, after `forIn_id`, IS the composition of the named
     loop functions below (`decStep` … `goValidate`): every loop body of the generated text is captured with
     `generalize` and shown equal to the named body (by `rfl`, or by case analysis where the generated text
     matches on a loop result).  This is the only place where the generated text is looked at: a change of the
     Go source that changes the translation breaks this proof.
  2. On counter maps Go's map operations are the model's (`alookup`/`aset` vs `mGet`/`mSet`, given that the key
     is present — which is what the translation's `unspecified` guard checks); the walk over the successors is
     `mDecAll`, and `mDecAll` does not depend on the order of the walk (`mDecAll_perm`).
  3. With the Go maps stored in the order of the builder's node list (`Tie`), initial counters, one round, the
     fuelled outer loop and the final scan are `kahnInit`, `kahnRound`, `kahnLoop … Ord.id`, and the verdict
     (`goValidate_eq`); more fuel than nodes + 1 changes nothing (`kahnLoop_fuel_stable`).
  4. Any stored order (`KahnRel`: permutations everywhere) is reduced to 3. by re-ordering the builder's node
     list (`reorder`): `Sched` — and so, by `validateDAG_iff`, the verdict — only depends on the set of node keys.
-/
import EinoV.Gen.TransC20
import EinoV.Proofs.GoLoop
import EinoV.Proofs.C20Kahn
namespace EinoV.TransKahn
open EinoV.GoSem EinoV.Build
open EinoV.Gen.TransC20 (chanCall GraphBranch const_START const_END)

abbrev Res := Option (GoOutcome (Option GoErr))

def decStep (sub : String) (m : GoMap Int) : ForInStep (Res × GoMap Int) :=
  if (sub == const_END) = true then .yield (none, m)
  else if (!m.has sub) = true then .done (some .unspecified, m)
  else .yield (none, m.set sub (m.getD' sub 0 - 1))

def ctlLoop (xs : List String) (m : GoMap Int) : Res × GoMap Int :=
  goLoop (fun sub s => decStep sub s.2) xs (none, m)

def endLoop (en : GoMap Bool) (m : GoMap Int) : Res × GoMap Int :=
  goLoop (fun (x : String × Bool) s => decStep x.1 s.2) en (none, m)

def brStep {V : Type} (br : GraphBranch V) (m : GoMap Int) : ForInStep (Res × GoMap Int) :=
  match endLoop br.endNodes m with
  | (some r, m') => .done (some r, m')
  | (none, m') => .yield (none, m')

def brLoop {V : Type} (brs : List (GraphBranch V)) (m : GoMap Int) : Res × GoMap Int :=
  goLoop (fun br s => brStep br s.2) brs (none, m)

def nodeStep {V : Type} (chans : GoMap (chanCall V)) (k : String) (m : GoMap Int) (ch : Bool) :
    ForInStep (Res × GoMap Int × Bool) :=
  if (m.getD' k 0 == 0) = true then
    match chans.get? k with
    | none => .done (some .panic, m, true)
    | some p =>
      match ctlLoop p.controls m with
      | (some r, m1) => .done (some r, m1, true)
      | (none, m1) =>
        match brLoop p.writeToBranches m1 with
        | (some r, m2) => .done (some r, m2, true)
        | (none, m2) => .yield (none, m2.set k (-1), true)
  else .yield (none, m, ch)

def roundLoop {V : Type} (chans : GoMap (chanCall V)) (m : GoMap Int) : Res × GoMap Int × Bool :=
  goLoop (fun (x : String × Int) s => nodeStep chans x.1 s.2.1 s.2.2) m (none, m, false)

def outerStep {V : Type} (chans : GoMap (chanCall V)) (s : Res × GoMap Int × Bool) : ForInStep (Res × GoMap Int × Bool) :=
  if (!s.2.2) = true then .done (none, s.2.1, s.2.2)
  else
    match roundLoop chans s.2.1 with
    | (some r, m', ch) => .done (some r, m', ch)
    | (none, m', ch) => .yield (none, m', ch)

def outerLoop {V : Type} (chans : GoMap (chanCall V)) (fuel : Nat) (m : GoMap Int) : Res × GoMap Int × Bool :=
  goLoop (fun (_ : Nat) s => outerStep chans s) (List.range fuel) (none, m, true)

def initBody (k : String) (pre : String) (m : GoMap Int) : ForInStep (GoMap Int) :=
  if (pre == const_START) = true then ForInStep.yield (m.set k (m.getD' k 0 - 1)) else ForInStep.yield m

def initStep (preds : GoMap (List String)) (k : String) (m : GoMap Int) : ForInStep (GoMap Int) :=
  if preds.has k = true then
    .yield (goLoop (initBody k) (preds.getD' k []) (m.set k ((preds.getD' k []).length : Int)))
  else .yield (m.set k 0)

def initLoop {V : Type} (chans : GoMap (chanCall V)) (preds : GoMap (List String)) : GoMap Int :=
  goLoop (fun (x : String × chanCall V) m => initStep preds x.1 m) chans []

def finalLoop (m : GoMap Int) : Res × Unit :=
  goLoop (fun (x : String × Int) (_ : Res × Unit) =>
    if decide (x.2 > 0) = true then
      ForInStep.done (some (GoOutcome.ret (some (GoErr.mk "DAG invalid, node[%s] has loop"))), ())
    else ForInStep.yield (none, ())) m (none, ())

def goValidate {V : Type} (chans : GoMap (chanCall V)) (preds : GoMap (List String)) (fuel : Nat) : GoOutcome (Option GoErr) :=
  match outerLoop chans fuel (initLoop chans preds) with
  | (some r, _, _) => r
  | (none, m, _) =>
    match finalLoop m with
    | (some r, _) => r
    | (none, _) => .ret none

theorem validateDAG_eq_clean {V : Type} [Inhabited V] (ext : Ext V) (fuel : Nat) (chans : GoMap (chanCall V))
    (preds : GoMap (List String)) :
    EinoV.Gen.TransC20.validateDAG ext fuel chans preds = goValidate chans preds fuel := by
  unfold EinoV.Gen.TransC20.validateDAG
  simp only [forIn_id, Id.run, bind, pure]
  -- the two `m[sub]--` bodies
  generalize hd1 : (fun (subNode : String) (__s : Res × GoMap Int) => _) = d1
  have e1 : d1 = fun sub s => decStep sub s.2 := by rw [← hd1]; rfl
  subst e1; clear hd1
  generalize hd2 : (fun (x : String × Bool) (__s : Res × GoMap Int) => _) = d2
  have e2 : d2 = fun x s => decStep x.1 s.2 := by rw [← hd2]; rfl
  subst e2; clear hd2
  -- one branch
  generalize hd3 : (fun (subBranch : GraphBranch V) (__s : Res × GoMap Int) => _) = d3
  have e3 : d3 = fun br s => brStep br s.2 := by
    rw [← hd3]; funext br s
    unfold brStep endLoop
    generalize goLoop (fun (x : String × Bool) (s : Res × GoMap Int) => decStep x.1 s.2) br.endNodes (none, s.2) = r
    rcases r with ⟨_ | r, m'⟩ <;> rfl
  subst e3; clear hd3
  -- one node of a round
  generalize hd4 : (fun (x : String × Int) (__s : Res × GoMap Int × Bool) => _) = d4
  have e4 : d4 = fun x s => nodeStep chans x.1 s.2.1 s.2.2 := by
    rw [← hd4]; funext x s
    unfold nodeStep ctlLoop brLoop
    by_cases hc : (s.2.1.getD' x.1 0 == 0) = true
    · simp only [hc, if_true]
      rcases hg : chans.get? x.1 with _ | p
      · rfl
      · dsimp only
        generalize goLoop (fun (sub : String) (s : Res × GoMap Int) => decStep sub s.2) p.controls (none, s.2.1) = r1
        rcases r1 with ⟨_ | r, m1⟩
        · dsimp only
          generalize goLoop (fun (br : GraphBranch V) (s : Res × GoMap Int) => brStep br s.2) p.writeToBranches (none, m1) = r2
          rcases r2 with ⟨_ | r, m2⟩ <;> rfl
        · rfl
    · simp only [hc]; rfl
  subst e4; clear hd4
  -- one round
  generalize hd5 : (fun (x : Nat) (__s : Res × GoMap Int × Bool) => _) = d5
  have e5 : d5 = fun _ s => outerStep chans s := by
    rw [← hd5]; funext x s
    unfold outerStep roundLoop
    by_cases hc : (!s.2.2) = true
    · simp only [hc, if_true]
    · simp only [hc]
      generalize goLoop (fun (x : String × Int) (s : Res × GoMap Int × Bool) => nodeStep chans x.1 s.2.1 s.2.2) s.2.1 (none, s.2.1, false) = r
      rcases r with ⟨_ | r, m', ch⟩ <;> rfl
  subst e5; clear hd5
  -- the initial counters
  generalize hd6 : (fun (x : String × chanCall V) (__s : GoMap Int) => _) = d6
  have e6 : d6 = fun x m => initStep preds x.1 m := by rw [← hd6]; rfl
  subst e6; clear hd6
  -- the verdict
  unfold goValidate outerLoop initLoop finalLoop
  generalize goLoop (fun (_ : Nat) (s : Res × GoMap Int × Bool) => outerStep chans s) (List.range fuel) (none, goLoop (fun (x : String × chanCall V) m => initStep preds x.1 m) chans [], true) = r
  rcases r with ⟨_ | r, m', ch⟩
  · dsimp only
    generalize goLoop _ m' (none, ()) = r2
    rcases r2 with ⟨_ | r, u⟩ <;> rfl
  · rfl


/-! ## Go's map operations on a counter map are the model's `mGet` / `mSet` -/

theorem const_START_eq : const_START = START := rfl
theorem const_END_eq : const_END = END := rfl

theorem alookup_eq_mGet (m : List (Key × Int)) (k : Key) : EinoV.Engine.alookup k m = mGet m k := by
  induction m with
  | nil => rfl
  | cons p m ih =>
    obtain ⟨x, w⟩ := p
    by_cases h : x = k <;> simp [EinoV.Engine.alookup, mGet, h, ih]

theorem aset_eq_mSet (m : List (Key × Int)) (k : Key) (v w : Int) (h : mGet m k = some v) :
    EinoV.Engine.aset k w m = mSet m k w := by
  induction m with
  | nil => simp [mGet] at h
  | cons p m ih =>
    obtain ⟨x, u⟩ := p
    by_cases hx : x = k
    · simp [EinoV.Engine.aset, mSet, hx]
    · simp only [mGet, hx, if_false] at h
      simp [EinoV.Engine.aset, mSet, hx, ih h]

theorem has_eq (m : GoMap Int) (k : Key) : m.has k = (mGet m k).isSome := by
  unfold GoMap.has; rw [alookup_eq_mGet]

theorem getD_eq (m : GoMap Int) (k : Key) : m.getD' k 0 = (mGet m k).getD 0 := by
  unfold GoMap.getD'; rw [alookup_eq_mGet]

theorem mGet_none_of_not_mem {m : List (Key × Int)} {k : Key} (h : k ∉ m.map (·.1)) : mGet m k = none := by
  rcases hg : mGet m k with _ | v
  · rfl
  · exact absurd (mGet_some_mem hg) h

/-- `m[sub]--` as the model does it: skip END; a key that is not in `m` would be added while `m` is being
    ranged over -/
theorem decStep_eq (sub : Key) (m : GoMap Int) :
    decStep sub m =
      if sub = END then .yield (none, m)
      else match mGet m sub with
        | none => .done (some .unspecified, m)
        | some v => .yield (none, mSet m sub (v - 1)) := by
  unfold decStep
  rw [const_END_eq, has_eq, getD_eq]
  by_cases h : sub = END
  · simp [h]
  · rcases hg : mGet m sub with _ | v
    · simp [h]
    · simp only [beq_iff_eq, h, if_false, Option.isSome_some, Bool.not_true, Bool.false_eq_true, Option.getD_some]
      rw [GoMap.set, aset_eq_mSet m sub v _ hg]

theorem mDecAll_append (m : List (Key × Int)) (xs ys : List Key) :
    mDecAll m (xs ++ ys) = mDecAll (mDecAll m xs) ys := by
  induction xs generalizing m with
  | nil => rfl
  | cons x xs ih =>
    simp only [List.cons_append, mDecAll]
    split
    · exact ih m
    · split
      · exact ih _
      · exact ih m

theorem mSet_comm (m : List (Key × Int)) (x y : Key) (a c : Int) (h : x ≠ y) :
    mSet (mSet m x a) y c = mSet (mSet m y c) x a := by
  induction m with
  | nil => rfl
  | cons p m ih =>
    obtain ⟨k, v⟩ := p
    by_cases h1 : k = x
    · subst h1
      simp [mSet, h]
    · by_cases h2 : k = y
      · subst h2
        simp [mSet, h1]
      · simp [mSet, h1, h2, ih]

/-- one `m[x]--` of the model -/
def dec1 (m : List (Key × Int)) (x : Key) : List (Key × Int) :=
  if x = END then m else match mGet m x with
    | some v => mSet m x (v - 1)
    | none => m

theorem mDecAll_cons (m : List (Key × Int)) (x : Key) (xs : List Key) :
    mDecAll m (x :: xs) = mDecAll (dec1 m x) xs := by
  by_cases hx : x = END
  · simp [mDecAll, dec1, hx]
  · rcases hg : mGet m x with _ | v <;> simp [mDecAll, dec1, hx, hg]

theorem dec1_comm (m : List (Key × Int)) (x y : Key) : dec1 (dec1 m x) y = dec1 (dec1 m y) x := by
  by_cases hxy : x = y
  · subst hxy; rfl
  · unfold dec1
    by_cases hx : x = END
    · simp only [hx, if_true]
    · by_cases hy : y = END
      · simp only [hy, if_true]
      · simp only [hx, hy, if_false]
        have h1 : ∀ v, mGet (mSet m x v) y = mGet m y := fun v => mGet_mSet_ne _ _ _ _ (fun e => hxy e.symm)
        have h2 : ∀ v, mGet (mSet m y v) x = mGet m x := fun v => mGet_mSet_ne _ _ _ _ hxy
        rcases hgx : mGet m x with _ | vx <;> rcases hgy : mGet m y with _ | vy <;> simp only [h1, h2, hgx, hgy]
        exact mSet_comm m x y _ _ hxy

/-- the order in which Go walks the successors does not matter -/
theorem mDecAll_perm {xs ys : List Key} (h : xs.Perm ys) (m : List (Key × Int)) : mDecAll m xs = mDecAll m ys := by
  induction h generalizing m with
  | nil => rfl
  | cons x _ ih => rw [mDecAll_cons, mDecAll_cons]; exact ih _
  | swap x y l => rw [mDecAll_cons, mDecAll_cons, mDecAll_cons, mDecAll_cons, dec1_comm]
  | trans _ _ ih1 ih2 => exact (ih1 m).trans (ih2 m)


/-! ## the loops of the translated text compute the model's functions -/

theorem goLoop_map {α β γ : Type} (g : α → β) (f : β → γ → ForInStep γ) (l : List α) (c : γ) :
    goLoop (fun a s => f (g a) s) l c = goLoop f (l.map g) c := by
  induction l generalizing c with
  | nil => rfl
  | cons a l ih => cases h : f (g a) c <;> simp [goLoop, h, ih]

theorem ctlLoop_spec (xs : List Key) (m : GoMap Int) (h : ∀ x ∈ xs, x = END ∨ x ∈ m.map (·.1)) :
    ctlLoop xs m = (none, mDecAll m xs) := by
  unfold ctlLoop
  induction xs generalizing m with
  | nil => rfl
  | cons x xs ih =>
    have hx := h x List.mem_cons_self
    have hr : ∀ y ∈ xs, y = END ∨ y ∈ m.map (·.1) := fun y hy => h y (List.mem_cons_of_mem _ hy)
    by_cases he : x = END
    · have hd : decStep END m = .yield (none, m) := by rw [decStep_eq]; simp only [if_true]
      rw [he]
      simp only [goLoop, hd, if_true, mDecAll]; exact ih m hr
    · rcases hx with hx | hx
      · exact absurd hx he
      · obtain ⟨v, hv⟩ := mGet_of_key_mem hx
        have hd : decStep x m = .yield (none, mSet m x (v - 1)) := by rw [decStep_eq]; simp only [he, if_false, hv]
        simp only [goLoop, hd, he, if_false, hv, mDecAll]
        exact ih _ (by rw [mSet_keys]; exact hr)

theorem endLoop_eq (en : GoMap Bool) (m : GoMap Int) : endLoop en m = ctlLoop (en.map (·.1)) m := by
  unfold endLoop ctlLoop
  exact goLoop_map (·.1) (fun sub (s : Res × GoMap Int) => decStep sub s.2) en (none, m)

/-- the keys of the end-node maps of a node's branches, in the order Go's translation walks them -/
def flatEnds {V : Type} (brs : List (GraphBranch V)) : List Key := brs.flatMap (fun br => br.endNodes.map (·.1))

theorem brLoop_spec {V : Type} (brs : List (GraphBranch V)) (m : GoMap Int)
    (h : ∀ x ∈ flatEnds brs, x = END ∨ x ∈ m.map (·.1)) : brLoop brs m = (none, mDecAll m (flatEnds brs)) := by
  unfold brLoop
  induction brs generalizing m with
  | nil => rfl
  | cons br brs ih =>
    have hfe : flatEnds (br :: brs) = br.endNodes.map (·.1) ++ flatEnds brs := by simp [flatEnds]
    rw [hfe] at h
    have h1 : ∀ x ∈ br.endNodes.map (·.1), x = END ∨ x ∈ m.map (·.1) :=
      fun x hx => h x (List.mem_append_left _ hx)
    have e1 : endLoop br.endNodes m = (none, mDecAll m (br.endNodes.map (·.1))) := by
      rw [endLoop_eq, ctlLoop_spec _ _ h1]
    simp only [goLoop, brStep, e1]
    rw [hfe, mDecAll_append]
    exact ih _ (by rw [mDecAll_keys]; exact fun x hx => h x (List.mem_append_right _ hx))

/-- one node of a round: the translated body is the body of `kahnRound` -/
theorem nodeStep_spec {V : Type} (chans : GoMap (chanCall V)) (b : Builder) (k : Key) (m : GoMap Int) (ch : Bool)
    (cc : chanCall V) (hk : k ∈ m.map (·.1)) (hget : chans.get? k = some cc)
    (hperm : (cc.controls ++ flatEnds cc.writeToBranches).Perm (b.ctrlSucc k))
    (hcl : ∀ s ∈ b.ctrlSucc k, s = END ∨ s ∈ m.map (·.1)) :
    nodeStep chans k m ch =
      if mGet m k = some 0 then .yield (none, mSet (mDecAll m (b.ctrlSucc k)) k (-1), true)
      else .yield (none, m, ch) := by
  obtain ⟨v, hv⟩ := mGet_of_key_mem hk
  unfold nodeStep
  rw [getD_eq, hv]
  by_cases hv0 : v = 0
  · subst hv0
    have hc1 : ∀ x ∈ cc.controls, x = END ∨ x ∈ m.map (·.1) :=
      fun x hx => hcl x (hperm.mem_iff.mp (List.mem_append_left _ hx))
    have hc2 : ∀ x ∈ flatEnds cc.writeToBranches, x = END ∨ x ∈ (mDecAll m cc.controls).map (·.1) := by
      intro x hx; rw [mDecAll_keys]; exact hcl x (hperm.mem_iff.mp (List.mem_append_right _ hx))
    have hk' : k ∈ (mDecAll m (b.ctrlSucc k)).map (·.1) := by rw [mDecAll_keys]; exact hk
    obtain ⟨w, hw⟩ := mGet_of_key_mem hk'
    simp only [Option.getD_some, beq_self_eq_true, if_true, hget, ctlLoop_spec _ _ hc1, brLoop_spec _ _ hc2]
    rw [← mDecAll_append, mDecAll_perm hperm, GoMap.set, aset_eq_mSet _ k w _ hw]
  · have : ¬ ((some v : Option Int) = some 0) := by simpa using hv0
    simp [hv0, this]


/-- what ties a builder to the Go arguments, in the order of the Go map -/
structure Tie {V : Type} (b : Builder) (chans : GoMap (chanCall V)) : Prop where
  keys : chans.map (·.1) = b.nodes.map (·.key)
  succ : ∀ k cc, chans.get? k = some cc → (cc.controls ++ flatEnds cc.writeToBranches).Perm (b.ctrlSucc k)
  closed : ∀ k ∈ b.nodes.map (·.key), ∀ s ∈ b.ctrlSucc k, s = END ∨ s ∈ b.nodes.map (·.key)

theorem get?_of_key_mem {α : Type} {l : GoMap α} {k : Key} (h : k ∈ l.map (·.1)) : ∃ v, l.get? k = some v := by
  unfold GoMap.get?
  induction l with
  | nil => simp at h
  | cons p l ih =>
    obtain ⟨x, w⟩ := p
    by_cases hx : x = k
    · exact ⟨w, by simp [EinoV.Engine.alookup, hx]⟩
    · simp only [List.map_cons, List.mem_cons] at h
      rcases h with e | e
      · exact absurd e.symm hx
      · obtain ⟨v, hv⟩ := ih e
        exact ⟨v, by simp [EinoV.Engine.alookup, hx, hv]⟩

theorem kahnRound_keys (b : Builder) (ks : List Key) (m : List (Key × Int)) (ch : Bool) :
    (kahnRound b ks m ch).1.map (·.1) = m.map (·.1) := by
  induction ks generalizing m ch with
  | nil => rfl
  | cons k ks ih =>
    simp only [kahnRound]
    split
    · rw [ih, mSet_keys, mDecAll_keys]
    · exact ih m ch

/-- one round over (a part of) the snapshot of `m` -/
theorem roundLoop_spec {V : Type} (chans : GoMap (chanCall V)) (b : Builder) (ht : Tie b chans)
    (l : List (Key × Int)) (m : GoMap Int) (ch : Bool)
    (hl : ∀ x ∈ l, x.1 ∈ b.nodes.map (·.key)) (hm : m.map (·.1) = b.nodes.map (·.key)) :
    goLoop (fun (x : String × Int) (s : Res × GoMap Int × Bool) => nodeStep chans x.1 s.2.1 s.2.2) l (none, m, ch)
      = (none, kahnRound b (l.map (·.1)) m ch) := by
  induction l generalizing m ch with
  | nil => rfl
  | cons x l ih =>
    have hx := hl x List.mem_cons_self
    have hr : ∀ y ∈ l, y.1 ∈ b.nodes.map (·.key) := fun y hy => hl y (List.mem_cons_of_mem _ hy)
    obtain ⟨cc, hcc⟩ := get?_of_key_mem (l := chans) (k := x.1) (by rw [ht.keys]; exact hx)
    have hs := nodeStep_spec chans b x.1 m ch cc (by rw [hm]; exact hx) hcc (ht.succ _ _ hcc)
      (by rw [hm]; exact ht.closed _ hx)
    by_cases h0 : mGet m x.1 = some 0
    · simp only [h0, if_true] at hs
      simp only [goLoop, hs, List.map_cons, kahnRound, h0, if_true]
      exact ih _ true hr (by rw [mSet_keys, mDecAll_keys]; exact hm)
    · simp only [h0, if_false] at hs
      simp only [goLoop, hs, List.map_cons, kahnRound, h0, if_false]
      exact ih m ch hr hm

theorem outer_stopped {V : Type} (chans : GoMap (chanCall V)) (l : List Nat) (m : GoMap Int) :
    goLoop (fun (_ : Nat) s => outerStep chans s) l (none, m, false) = (none, m, false) := by
  cases l with
  | nil => rfl
  | cons a l => simp [goLoop, outerStep]

/-- the fuelled outer loop of the translation is `kahnLoop` with the same fuel, iterating `m` in the order in
    which it is stored -/
theorem outerLoop_spec {V : Type} (chans : GoMap (chanCall V)) (b : Builder) (ht : Tie b chans)
    (l : List Nat) (m : GoMap Int) (hm : m.map (·.1) = b.nodes.map (·.key)) :
    ∃ c, goLoop (fun (_ : Nat) s => outerStep chans s) l (none, m, true) = (none, kahnLoop b Ord.id l.length m, c) := by
  induction l generalizing m with
  | nil => exact ⟨true, rfl⟩
  | cons a l ih =>
    have hr : roundLoop chans m = (none, kahnRound b (m.map (·.1)) m false) :=
      roundLoop_spec chans b ht m m false (fun x hx => by rw [← hm]; exact List.mem_map_of_mem hx) hm
    rcases hk : kahnRound b (m.map (·.1)) m false with ⟨m', ch⟩
    rw [hk] at hr
    have hstep : outerStep chans (none, m, true) = .yield (none, m', ch) := by
      simp only [outerStep, Bool.not_true, Bool.false_eq_true, if_false, hr]
    have hm' : m'.map (·.1) = b.nodes.map (·.key) := by
      have := kahnRound_keys b (m.map (·.1)) m false
      rw [hk] at this; rw [this]; exact hm
    have hid : Ord.id.kahn m (m.map (·.1)) = m.map (·.1) := rfl
    simp only [goLoop, hstep, List.length_cons, kahnLoop, hid, hk]
    cases ch with
    | true => simpa using ih m' hm'
    | false => exact ⟨false, by simpa using outer_stopped chans l m'⟩


/-! ## the initial counters -/

/-- the counter `validateDAG` starts a node with: its control predecessors other than START -/
def predVal (b : Builder) (k : Key) : Int :=
  ((b.ctrlPred k).length : Int) - ((countP (· = START) (b.ctrlPred k) : Nat) : Int)

theorem kahnInit_keys_map (b : Builder) : kahnInit b = (b.nodes.map (·.key)).map (fun k => (k, predVal b k)) := by
  simp [kahnInit, predVal, List.map_map, Function.comp_def]

/-- `controlPredecessors[k]`: an absent entry means no control predecessor; an entry lists the predecessors
    (START included), in any order -/
def PredsOK (b : Builder) (preds : GoMap (List String)) (k : Key) : Prop :=
  match preds.get? k with
  | none => b.ctrlPred k = []
  | some ps => ps.Perm (b.ctrlPred k)

theorem countP_perm (p : Key → Bool) {l l' : List Key} (h : l.Perm l') : countP p l = countP p l' := by
  induction h with
  | nil => rfl
  | cons x _ ih => simp [countP, ih]
  | swap x y l => simp only [countP]; omega
  | trans _ _ ih1 ih2 => exact ih1.trans ih2

theorem mGet_append_single (acc : List (Key × Int)) (k : Key) (v : Int) (h : k ∉ acc.map (·.1)) :
    mGet (acc ++ [(k, v)]) k = some v := by
  induction acc with
  | nil => simp [mGet]
  | cons p acc ih =>
    obtain ⟨x, w⟩ := p
    simp only [List.map_cons, List.mem_cons, not_or] at h
    have hx : ¬ x = k := fun e => h.1 e.symm
    simp only [List.cons_append, mGet, hx, if_false]
    exact ih h.2

theorem aset_append_new (acc : List (Key × Int)) (k : Key) (v : Int) (h : k ∉ acc.map (·.1)) :
    EinoV.Engine.aset k v acc = acc ++ [(k, v)] := by
  induction acc with
  | nil => rfl
  | cons p acc ih =>
    obtain ⟨x, w⟩ := p
    simp only [List.map_cons, List.mem_cons, not_or] at h
    have hx : ¬ x = k := fun e => h.1 e.symm
    simp [EinoV.Engine.aset, hx, ih h.2]

theorem mSet_append_single (acc : List (Key × Int)) (k : Key) (v w : Int) (h : k ∉ acc.map (·.1)) :
    mSet (acc ++ [(k, v)]) k w = acc ++ [(k, w)] := by
  induction acc with
  | nil => simp [mSet]
  | cons p acc ih =>
    obtain ⟨x, u⟩ := p
    simp only [List.map_cons, List.mem_cons, not_or] at h
    have hx : ¬ x = k := fun e => h.1 e.symm
    simp [mSet, hx, ih h.2]

theorem initInner_spec (acc : List (Key × Int)) (k : Key) (h : k ∉ acc.map (·.1)) (ps : List Key) (v : Int) :
    goLoop (initBody k) ps (acc ++ [(k, v)]) = acc ++ [(k, v - ((countP (· = START) ps : Nat) : Int))] := by
  induction ps generalizing v with
  | nil => simp [goLoop, countP]
  | cons pre ps ih =>
    by_cases hp : pre = START
    · subst hp
      have e : initBody k START (acc ++ [(k, v)]) = .yield (acc ++ [(k, v - 1)]) := by
        unfold initBody
        rw [getD_eq, mGet_append_single acc k v h, GoMap.set, aset_eq_mSet _ k v _ (mGet_append_single acc k v h),
          mSet_append_single acc k v _ h]
        simp [const_START_eq]
      simp only [goLoop, e, ih, countP, decide_true, if_true]
      congr 3
      push_cast; omega
    · have e : initBody k pre (acc ++ [(k, v)]) = .yield (acc ++ [(k, v)]) := by
        unfold initBody
        simp [const_START_eq, hp]
      simp only [goLoop, e, ih, countP, hp, decide_false]
      simp

theorem initStep_spec (b : Builder) (preds : GoMap (List String)) (k : Key) (acc : GoMap Int)
    (h : k ∉ acc.map (·.1)) (hp : PredsOK b preds k) :
    initStep preds k acc = .yield (acc ++ [(k, predVal b k)]) := by
  have hh : preds.has k = (EinoV.Engine.alookup k preds).isSome := rfl
  have hg : preds.getD' k [] = (EinoV.Engine.alookup k preds).getD [] := rfl
  unfold initStep
  rw [hh, hg]
  unfold PredsOK GoMap.get? at hp
  rcases hl : EinoV.Engine.alookup k preds with _ | ps
  · rw [hl] at hp
    simp only [Option.isSome_none, Bool.false_eq_true, if_false, GoMap.set, aset_append_new acc k 0 h]
    simp [predVal, hp, countP]
  · rw [hl] at hp
    simp only [Option.isSome_some, if_true, Option.getD_some, GoMap.set, aset_append_new acc k _ h]
    rw [initInner_spec acc k h ps, predVal, hp.length_eq, countP_perm _ hp]

theorem initLoop_gen {V : Type} (b : Builder) (preds : GoMap (List String)) (l : List (String × chanCall V))
    (acc : GoMap Int) (hnd : (acc.map (·.1) ++ l.map (·.1)).Nodup) (hp : ∀ x ∈ l, PredsOK b preds x.1) :
    goLoop (fun (x : String × chanCall V) m => initStep preds x.1 m) l acc
      = acc ++ (l.map (·.1)).map (fun k => (k, predVal b k)) := by
  induction l generalizing acc with
  | nil => simp [goLoop]
  | cons x l ih =>
    have hx : x.1 ∉ acc.map (·.1) := by
      intro hmem
      have := (List.nodup_append.mp hnd).2.2 _ hmem x.1 (by simp)
      exact this rfl
    simp only [goLoop, initStep_spec b preds x.1 acc hx (hp x List.mem_cons_self)]
    rw [ih (acc ++ [(x.1, predVal b x.1)]) (by simpa [List.append_assoc] using hnd)
      (fun y hy => hp y (List.mem_cons_of_mem _ hy))]
    simp [List.append_assoc]

/-! ## the verdict -/

theorem finalLoop_spec (m : GoMap Int) :
    (finalLoop m).1 = if m.any (fun p => decide (p.2 > 0)) = true
      then some (GoOutcome.ret (some (GoErr.mk "DAG invalid, node[%s] has loop"))) else none := by
  unfold finalLoop
  rw [goLoop_search' (fun (p : String × Int) => decide (p.2 > 0))]
  split <;> rfl

theorem all_le_eq_not_any_gt (m : List (Key × Int)) :
    m.all (fun p => decide (p.2 ≤ 0)) = !m.any (fun p => decide (p.2 > 0)) := by
  induction m with
  | nil => rfl
  | cons p m ih =>
    simp only [List.all_cons, List.any_cons, ih, Bool.not_or]
    by_cases h : p.2 ≤ 0
    · have : ¬ p.2 > 0 := by omega
      simp [h, this]
    · have : p.2 > 0 := by omega
      simp [h, this]

/-- once the fixpoint is reached more fuel changes nothing: `nodes + 1` rounds always suffice -/
theorem kahnLoop_fuel_stable (b : Builder) (hk : KeysOK b) (ord : Ord) :
    ∀ (f1 f2 : Nat) (m : List (Key × Int)), KI b m → liveN b m < f1 → f1 ≤ f2 →
      kahnLoop b ord f2 m = kahnLoop b ord f1 m := by
  intro f1
  induction f1 with
  | zero => intro _ _ _ h; omega
  | succ n ih =>
    intro f2 m hi hlt hle
    obtain ⟨n2, rfl⟩ : ∃ n2, f2 = n2 + 1 := ⟨f2 - 1, by omega⟩
    simp only [kahnLoop]
    rcases hr : kahnRound b (ord.kahn m (m.map (·.1))) m false with ⟨m1, ch⟩
    obtain ⟨a1, _, _, a4, _⟩ := kahnRound_spec b hk _ m false m1 ch hi hr
    rw [hr]
    cases ch with
    | false => simp
    | true =>
      have := a4 rfl rfl
      simp only [if_true]
      exact ih n2 m1 a1 (by omega) (by omega)

theorem liveN_le (b : Builder) (m : List (Key × Int)) : liveN b m ≤ b.nodes.length := by
  unfold liveN
  have := List.length_filter_le (fun k => !isDone m k) (b.nodes.map (·.key))
  simpa using this

/-- the translated text on Go maps stored in the order of the builder's node list -/
theorem goValidate_eq {V : Type} (chans : GoMap (chanCall V)) (preds : GoMap (List String)) (b : Builder)
    (hk : KeysOK b) (ht : Tie b chans) (hp : ∀ k ∈ b.nodes.map (·.key), PredsOK b preds k)
    (fuel : Nat) (hf : b.nodes.length + 1 ≤ fuel) :
    goValidate chans preds fuel =
      .ret (if validateDAG b Ord.id = true then none else some (GoErr.mk "DAG invalid, node[%s] has loop")) := by
  have hinit : initLoop chans preds = kahnInit b := by
    unfold initLoop
    rw [initLoop_gen b preds chans [] (by simpa [ht.keys] using hk.nodup)
      (fun x hx => hp x.1 (by rw [← ht.keys]; exact List.mem_map_of_mem hx))]
    simp [kahnInit_keys_map, ht.keys]
  obtain ⟨c, hc⟩ := outerLoop_spec chans b ht (List.range fuel) (kahnInit b) (KI_init b).keys
  have hst := kahnLoop_fuel_stable b hk Ord.id (b.nodes.length + 1) fuel (kahnInit b) (KI_init b)
    (by have := liveN_le b (kahnInit b); omega) hf
  unfold goValidate outerLoop
  rw [hinit, hc, List.length_range, hst]
  simp only
  have hfin := finalLoop_spec (kahnLoop b Ord.id (b.nodes.length + 1) (kahnInit b))
  unfold validateDAG
  rw [all_le_eq_not_any_gt]
  rcases hfl : finalLoop (kahnLoop b Ord.id (b.nodes.length + 1) (kahnInit b)) with ⟨r, u⟩
  rw [hfl] at hfin
  simp only at hfin
  subst hfin
  cases List.any (kahnLoop b Ord.id (b.nodes.length + 1) (kahnInit b)) (fun p => decide (p.2 > 0)) <;> simp


/-! ## every stored order of the Go maps -/

/-- **The relation between a builder and the arguments `compile` hands to `validateDAG`.**
    Go maps have no order: nothing is assumed about the order in which `chans`, the `endNodes` maps or the
    predecessor lists are stored.
    * `keys`: `chanSubscribeTo` has one entry per node;
    * `controls`: the `controls` of a node's entry are the targets of its control edges;
    * `branches`: the end nodes of a node's `writeToBranches`, flattened, are the ends of its branches;
    * `preds`: `controlPredecessors[k]` lists the control predecessors of node `k` (START included, with
      multiplicity); an absent entry means there are none (an empty entry is allowed as well; entries under other
      keys, such as END, are not constrained);
    * `closed`: a control successor of a node is END or a node — otherwise `m[subNode]--` would add a key to `m`
      while `m` is being ranged over. -/
structure KahnRel {V : Type} (b : Builder) (chans : GoMap (chanCall V)) (preds : GoMap (List String)) : Prop where
  keys : (chans.map (·.1)).Perm (b.nodes.map (·.key))
  controls : ∀ k cc, chans.get? k = some cc → cc.controls.Perm ((b.controlEdges.filter (·.1 = k)).map (·.2))
  branches : ∀ k cc, chans.get? k = some cc →
    (flatEnds cc.writeToBranches).Perm ((b.branches.filter (·.src = k)).flatMap (·.ends))
  preds : ∀ k ∈ b.nodes.map (·.key), PredsOK b preds k
  closed : ∀ k ∈ b.nodes.map (·.key), ∀ s ∈ b.ctrlSucc k, s = END ∨ s ∈ b.nodes.map (·.key)

theorem mem_of_get? {α : Type} {l : GoMap α} {k : Key} {v : α} (h : l.get? k = some v) : (k, v) ∈ l := by
  unfold GoMap.get? at h
  induction l with
  | nil => simp [EinoV.Engine.alookup] at h
  | cons p l ih =>
    obtain ⟨x, w⟩ := p
    by_cases hx : x = k
    · simp only [EinoV.Engine.alookup, hx, beq_self_eq_true, if_true, Option.some.injEq] at h
      subst hx; subst h; exact List.mem_cons_self
    · have : (x == k) = false := by simpa using hx
      simp only [EinoV.Engine.alookup, this, Bool.false_eq_true, if_false] at h
      exact List.mem_cons_of_mem _ (ih h)

/-- the same relation stated over the entries of `chans` (a Go map stores each key once) -/
theorem KahnRel.of_mem {V : Type} {b : Builder} {chans : GoMap (chanCall V)} {preds : GoMap (List String)}
    (keys : (chans.map (·.1)).Perm (b.nodes.map (·.key)))
    (controls : ∀ p ∈ chans, p.2.controls.Perm ((b.controlEdges.filter (·.1 = p.1)).map (·.2)))
    (branches : ∀ p ∈ chans, (flatEnds p.2.writeToBranches).Perm ((b.branches.filter (·.src = p.1)).flatMap (·.ends)))
    (hpreds : ∀ k ∈ b.nodes.map (·.key), PredsOK b preds k)
    (closed : ∀ k ∈ b.nodes.map (·.key), ∀ s ∈ b.ctrlSucc k, s = END ∨ s ∈ b.nodes.map (·.key)) :
    KahnRel b chans preds :=
  ⟨keys, fun _ _ h => controls _ (mem_of_get? h), fun _ _ h => branches _ (mem_of_get? h), hpreds, closed⟩

/-- the builder with its node list in the order in which the Go map `chans` happens to be stored (only the keys
    of the nodes matter to `validateDAG`) -/
def reorder {V : Type} (b : Builder) (chans : GoMap (chanCall V)) : Builder :=
  { b with nodes := chans.map (fun x => { key := x.1, passthrough := false, inTy := none, outTy := none }) }

theorem reorder_keys {V : Type} (b : Builder) (chans : GoMap (chanCall V)) :
    (reorder b chans).nodes.map (·.key) = chans.map (·.1) := by
  simp [reorder, List.map_map, Function.comp_def]

theorem hasNode_iff (b : Builder) (k : Key) : b.hasNode k = true ↔ k ∈ b.nodes.map (·.key) := by
  constructor
  · intro h
    unfold Builder.hasNode at h
    rcases hf : findNode b.nodes k with _ | n
    · rw [hf] at h; simp at h
    · obtain ⟨h1, h2⟩ := findNode_mem hf
      exact List.mem_map.mpr ⟨n, h1, h2⟩
  · exact hasNode_of_key

theorem Sched.transfer {b b' : Builder} (hn : ∀ k, b.hasNode k = true → b'.hasNode k = true)
    (hp : ∀ k, b'.ctrlPred k = b.ctrlPred k) {k : Key} (h : Sched b k) : Sched b' k := by
  induction h with
  | @intro k hnode _ ih =>
    exact Sched.intro (hn k hnode) (fun p hpm hs => ih p (by rw [← hp k]; exact hpm) hs)

theorem const_START_engine : const_START = EinoV.Engine.START := rfl
theorem const_END_engine : const_END = EinoV.Engine.END := rfl

variable {V : Type} [Inhabited V]

/-- the translated `validateDAG`, on every representation of the builder's control graph as Go maps and with
    every fuel ≥ nodes + 1, returns exactly the model's verdict (for every iteration order of the model) -/
theorem validateDAG_go_eq (ext : Ext V) (b : Builder) (chans : GoMap (chanCall V)) (preds : GoMap (List String))
    (fuel : Nat) (ord : Ord) (hv : ord.Valid) (hk : KeysOK b) (hr : KahnRel b chans preds)
    (hf : b.nodes.length + 1 ≤ fuel) :
    EinoV.Gen.TransC20.validateDAG ext fuel chans preds =
      GoOutcome.ret (if validateDAG b ord = true then none else some (GoErr.mk "DAG invalid, node[%s] has loop")) := by
  have hkeys : (reorder b chans).nodes.map (·.key) = chans.map (·.1) := reorder_keys b chans
  have hmem : ∀ k, k ∈ (reorder b chans).nodes.map (·.key) ↔ k ∈ b.nodes.map (·.key) := by
    intro k; rw [hkeys]; exact hr.keys.mem_iff
  have hk' : KeysOK (reorder b chans) := by
    refine ⟨by rw [hkeys]; exact hr.keys.nodup_iff.mpr hk.nodup, fun n hn => ?_⟩
    obtain ⟨n0, hn0, e⟩ := List.mem_map.mp ((hmem n.key).mp (List.mem_map_of_mem hn))
    rw [← e]; exact hk.nores n0 hn0
  have ht : Tie (reorder b chans) chans :=
    ⟨hkeys.symm, fun k cc h => (hr.controls k cc h).append (hr.branches k cc h),
      fun k hkm s hs => (hr.closed k ((hmem k).mp hkm) s hs).imp id (fun h => (hmem s).mpr h)⟩
  have hp' : ∀ k ∈ (reorder b chans).nodes.map (·.key), PredsOK (reorder b chans) preds k :=
    fun k hkm => hr.preds k ((hmem k).mp hkm)
  have hlen : (reorder b chans).nodes.length = b.nodes.length := by
    have := hr.keys.length_eq
    simp only [List.length_map] at this
    simp [reorder, this]
  rw [validateDAG_eq_clean, goValidate_eq chans preds (reorder b chans) hk' ht hp' fuel (by omega)]
  have h1 := validateDAG_iff (reorder b chans) hk' Ord.id (fun _ _ => List.Perm.refl _)
  have h2 := validateDAG_iff b hk ord hv.kahn
  have hS : (∀ k ∈ (reorder b chans).nodes.map (·.key), Sched (reorder b chans) k) ↔
      (∀ k ∈ b.nodes.map (·.key), Sched b k) := by
    constructor
    · intro h k hkm
      exact Sched.transfer (fun k hn => (hasNode_iff _ _).mpr ((hmem k).mp ((hasNode_iff _ _).mp hn)))
        (fun _ => rfl) (h k ((hmem k).mpr hkm))
    · intro h k hkm
      exact Sched.transfer (fun k hn => (hasNode_iff _ _).mpr ((hmem k).mpr ((hasNode_iff _ _).mp hn)))
        (fun _ => rfl) (h k ((hmem k).mp hkm))
  have : validateDAG (reorder b chans) Ord.id = validateDAG b ord :=
    Bool.eq_iff_iff.mpr (h1.trans (hS.trans h2.symm))
  rw [this]

/-- **The translated `validateDAG` decides what the model decides.**  For every builder with distinct,
    unreserved node keys, every representation of its control graph as Go maps (`KahnRel`: any stored order of
    `chanSubscribeTo`, of every `endNodes` map and of every predecessor list), every fuel ≥ nodes + 1 and every
    iteration order `ord` of the model: the translated text returns (no panic, nothing unspecified), and it
    returns nil exactly when the model's verdict is "valid". -/
theorem validateDAG_go_refines (ext : Ext V) (b : Builder) (chans : GoMap (chanCall V)) (preds : GoMap (List String))
    (fuel : Nat) (ord : Ord) (hv : ord.Valid) (hk : KeysOK b) (hr : KahnRel b chans preds)
    (hf : b.nodes.length + 1 ≤ fuel) :
    ∃ e, EinoV.Gen.TransC20.validateDAG ext fuel chans preds = GoOutcome.ret e ∧
      (e = none ↔ validateDAG b ord = true) := by
  refine ⟨_, validateDAG_go_eq ext b chans preds fuel ord hv hk hr hf, ?_⟩
  cases validateDAG b ord <;> simp

theorem Ord.id_valid : Ord.id.Valid := ⟨fun _ _ => List.Perm.refl _, fun _ _ => List.Perm.refl _, fun _ _ => List.Perm.refl _⟩

/-- **Totality.**  Under the same hypotheses the translated text neither dereferences a nil `*chanCall`
    (`GoOutcome.panic`) nor adds a key to `m` while ranging over it (`GoOutcome.unspecified`), and the Go loop
    `for hasChanged { … }` — which has no fuel — stops within nodes + 1 rounds: every fuel ≥ nodes + 1 gives the
    same result. -/
theorem validateDAG_go_total (ext : Ext V) (b : Builder) (chans : GoMap (chanCall V)) (preds : GoMap (List String))
    (fuel : Nat) (hk : KeysOK b) (hr : KahnRel b chans preds) (hf : b.nodes.length + 1 ≤ fuel) :
    EinoV.Gen.TransC20.validateDAG ext fuel chans preds ≠ GoOutcome.panic ∧
    EinoV.Gen.TransC20.validateDAG ext fuel chans preds ≠ GoOutcome.unspecified ∧
    ∀ fuel', b.nodes.length + 1 ≤ fuel' →
      EinoV.Gen.TransC20.validateDAG ext fuel' chans preds = EinoV.Gen.TransC20.validateDAG ext fuel chans preds := by
  have h := validateDAG_go_eq ext b chans preds fuel Ord.id Ord.id_valid hk hr hf
  refine ⟨?_, ?_, ?_⟩
  · rw [h]; intro e; cases e
  · rw [h]; intro e; cases e
  · intro fuel' hf'
    rw [h, validateDAG_go_eq ext b chans preds fuel' Ord.id Ord.id_valid hk hr hf']

/-- **Soundness and completeness of Go's text.**  It returns nil exactly when every node can be scheduled
    (`Sched`: all its control predecessors other than START can, inductively), i.e. when no cycle of control
    edges / branch targets reaches any node. -/
theorem validateDAG_go_sound_complete (ext : Ext V) (b : Builder) (chans : GoMap (chanCall V))
    (preds : GoMap (List String)) (fuel : Nat) (hk : KeysOK b) (hr : KahnRel b chans preds)
    (hf : b.nodes.length + 1 ≤ fuel) :
    ∃ e, EinoV.Gen.TransC20.validateDAG ext fuel chans preds = GoOutcome.ret e ∧
      (e = none ↔ ∀ k ∈ b.nodes.map (·.key), Sched b k) := by
  obtain ⟨e, h1, h2⟩ := validateDAG_go_refines ext b chans preds fuel Ord.id Ord.id_valid hk hr hf
  exact ⟨e, h1, h2.trans (validateDAG_iff b hk Ord.id Ord.id_valid.kahn)⟩

/-- a node on a cycle makes Go's text return the error -/
theorem validateDAG_go_rejects_cycles (ext : Ext V) (b : Builder) (chans : GoMap (chanCall V))
    (preds : GoMap (List String)) (fuel : Nat) (hk : KeysOK b) (hr : KahnRel b chans preds)
    (hf : b.nodes.length + 1 ≤ fuel) (k : Key) (hkn : k ∈ b.nodes.map (·.key)) (hc : PredTC b k k) :
    EinoV.Gen.TransC20.validateDAG ext fuel chans preds =
      GoOutcome.ret (some (GoErr.mk "DAG invalid, node[%s] has loop")) := by
  rw [validateDAG_go_eq ext b chans preds fuel Ord.id Ord.id_valid hk hr hf]
  have : validateDAG b Ord.id ≠ true :=
    fun h => ((validateDAG_iff b hk Ord.id Ord.id_valid.kahn).mp h k hkn).no_cycle hc
  simp [this]


/-! ## the hypotheses are needed, and they are satisfiable -/

/-- `closed` is not vacuous: a `controls` entry that names a key outside `chans` makes the translated text add a
    key to `m` while ranging over it — the explicit outcome `GoOutcome.unspecified`.  (`GoOutcome.panic` — a key of
    `m` without an entry in `chans` — cannot be reached from any arguments: the keys of `m` are those of `chans`.) -/
example (ext : Ext Unit) :
    EinoV.Gen.TransC20.validateDAG ext 2 [("a", { writeToBranches := [], controls := ["zz"] })] [] =
      GoOutcome.unspecified := by
  rfl

/-- the same through a branch -/
example (ext : Ext Unit) :
    EinoV.Gen.TransC20.validateDAG ext 2
      [("a", { writeToBranches := [{ endNodes := [("end", true), ("zz", true)] }], controls := [] })] [] =
      GoOutcome.unspecified := by
  rfl

instance (b : Builder) (preds : GoMap (List String)) (k : Key) : Decidable (PredsOK b preds k) := by
  unfold PredsOK; split <;> infer_instance

/-- START → a → b → c → END, a branch at `a` to {c, END} -/
def exAcyclic : Builder :=
  { Builder.new .graph .any .any none with
    nodes := [⟨"a", false, some .any, some .any⟩, ⟨"b", false, some .any, some .any⟩, ⟨"c", false, some .any, some .any⟩]
    controlEdges := [(START, "a"), ("a", "b"), ("b", "c"), ("c", END)]
    branches := [{ src := "a", inTy := .any, ends := ["c", END], noData := false }] }

/-- its Go maps, stored in another order than the node list (and the lists of `c` and END permuted) -/
def exAcyclicChans : GoMap (chanCall Unit) :=
  [("c", { writeToBranches := [], controls := [END] }),
   ("a", { writeToBranches := [{ endNodes := [(END, true), ("c", true)] }], controls := ["b"] }),
   ("b", { writeToBranches := [], controls := ["c"] })]

def exAcyclicPreds : GoMap (List String) :=
  [(END, ["c", "a"]), ("c", ["a", "b"]), ("b", ["a"]), ("a", [START])]

/-- START → c → a ⇄ b → END: `a` and `b` lie on a 2-cycle -/
def exCyclic : Builder :=
  { Builder.new .graph .any .any none with
    nodes := [⟨"a", false, some .any, some .any⟩, ⟨"b", false, some .any, some .any⟩, ⟨"c", false, some .any, some .any⟩]
    controlEdges := [(START, "c"), ("c", "a"), ("a", "b"), ("b", "a"), ("b", END)] }

def exCyclicChans : GoMap (chanCall Unit) :=
  [("b", { writeToBranches := [], controls := [END, "a"] }),
   ("c", { writeToBranches := [], controls := ["a"] }),
   ("a", { writeToBranches := [], controls := ["b"] })]

def exCyclicPreds : GoMap (List String) :=
  [("a", ["b", "c"]), ("b", ["a"]), ("c", [START]), (END, ["b"])]

theorem exAcyclic_ok : KeysOK exAcyclic := ⟨by decide, by decide⟩
theorem exCyclic_ok : KeysOK exCyclic := ⟨by decide, by decide⟩

theorem exAcyclic_rel : KahnRel exAcyclic exAcyclicChans exAcyclicPreds :=
  KahnRel.of_mem (by decide) (by decide) (by decide) (by decide) (by decide)

theorem exCyclic_rel : KahnRel exCyclic exCyclicChans exCyclicPreds :=
  KahnRel.of_mem (by decide) (by decide) (by decide) (by decide) (by decide)

/-- the main theorem on the two graphs: both verdicts occur, for every fuel ≥ 4 and every externals record -/
example (ext : Ext Unit) (fuel : Nat) (hf : 4 ≤ fuel) :
    EinoV.Gen.TransC20.validateDAG ext fuel exAcyclicChans exAcyclicPreds = GoOutcome.ret none ∧
    EinoV.Gen.TransC20.validateDAG ext fuel exCyclicChans exCyclicPreds =
      GoOutcome.ret (some (GoErr.mk "DAG invalid, node[%s] has loop")) := by
  constructor
  · rw [validateDAG_go_eq ext exAcyclic _ _ fuel Ord.id Ord.id_valid exAcyclic_ok exAcyclic_rel hf]
    have : validateDAG exAcyclic Ord.id = true := by decide
    simp [this]
  · exact validateDAG_go_rejects_cycles ext exCyclic _ _ fuel exCyclic_ok exCyclic_rel hf "a" (by decide)
      (PredTC.step (q := "a") (p := "b") (k := "a") (PredTC.base (by decide) (by decide)) (by decide) (by decide))

/-- and the translated text, run directly on these arguments, agrees -/
example (ext : Ext Unit) :
    EinoV.Gen.TransC20.validateDAG ext 4 exAcyclicChans exAcyclicPreds = GoOutcome.ret none ∧
    EinoV.Gen.TransC20.validateDAG ext 4 exCyclicChans exCyclicPreds =
      GoOutcome.ret (some (GoErr.mk "DAG invalid, node[%s] has loop")) := ⟨rfl, rfl⟩

end EinoV.TransKahn
