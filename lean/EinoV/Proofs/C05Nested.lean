/-
  C05 / C06 — nested graphs: resume = continue through every nesting level (helper lemmas; the
  property statements are in Props/C05.lean and Props/C06.lean).

  Plan.  For one graph level, `r` (the run with interrupt points, whose graph nodes may interrupt
  inside) is compared with `r₀` (the reference: same topology and handlers, interrupt sets empty, graph
  nodes replaced by their references).  What is assumed of a node body is `BodySim`: where the
  reference body completes, the body either completes with the same output, or reports a nested
  interrupt whose payload makes the reference body — resumed from that payload — complete with that
  output.  `step_sim` / `loop_sim` / `call_sim`: one call of `r` either ends like the reference call, or
  returns an interrupt with a checkpoint from which the *reference* ends like the reference call
  ("the reference run = this call, then the reference run from the checkpoint").  `subBody_sim` turns
  `call_sim` of a nested runner into `BodySim` of the node that contains it, so the statement lifts
  through every nesting depth (`NR.call_sim`, induction on the depth).
-/
import EinoV.Model.C05Nested
import EinoV.Proofs.C05
import EinoV.Proofs.C05Engine
import EinoV.Proofs.C05Resume

namespace EinoV.Interrupt
open EinoV.Engine

variable {V S X : Type}

/-! ### the log of function-node executions -/

theorem levelLog_append (isFn : Key → Bool) (clog : Key → List (Ev V S X) → Log V) (a b : List (Ev V S X)) :
    levelLog isFn clog (a ++ b) = levelLog isFn clog a ++ levelLog isFn clog b := by
  induction a with
  | nil => rfl
  | cons e rest ih => cases e <;> simp [levelLog, ih]

theorem levelLog_intrEvs (isFn : Key → Bool) (clog : Key → List (Ev V S X) → Log V) (isSub hasID : Bool)
    (info : Info S X) : levelLog isFn clog (intrEvs (V := V) isSub hasID info) = [] := by
  unfold intrEvs; split <;> simp [levelLog]

/-- what one task contributes to the log -/
theorem levelLog_taskEvs (isFn : Key → Bool) (clog : Key → List (Ev V S X) → Log V)
    (hnil : ∀ k, clog k [] = []) (t : Task V X) (bo : BodyOut V S X) :
    levelLog isFn clog (taskEvs t bo) = (if isFn t.key then [([t.key], t.input)] else []) ++ clog t.key bo.evs := by
  unfold taskEvs
  rw [levelLog_append]
  generalize bo.res = res
  cases he : bo.evs with
  | nil => cases res <;> simp [levelLog, hnil]
  | cons e rest => cases res <;> simp [levelLog]

/-! ### completed tasks of a batch as (key, output) pairs -/

/-- the completed tasks of a batch with their raw outputs -/
def doneList : List (Key × BodyRes V S X) → List (Done V)
  | [] => []
  | (k, .done o _) :: rest => (k, o) :: doneList rest
  | _ :: rest => doneList rest

/-- the nested interrupts of a batch -/
def subList : List (Key × BodyRes V S X) → List (Key × X)
  | [] => []
  | (k, .subInt p _) :: rest => (k, p) :: subList rest
  | _ :: rest => subList rest

/-- every task of the batch completed or reported a nested interrupt -/
def DoneOrSub (l : List (Key × BodyRes V S X)) : Prop :=
  ∀ x ∈ l, (∃ o s, x.2 = .done o s) ∨ (∃ p s, x.2 = .subInt p s)

def AllDone (l : List (Key × BodyRes V S X)) : Prop := ∀ x ∈ l, ∃ o s, x.2 = .done o s

theorem doneList_perm {l l' : List (Key × BodyRes V S X)} (h : l.Perm l') : (doneList l).Perm (doneList l') := by
  induction h with
  | nil => exact List.Perm.refl _
  | cons x _ ih =>
    obtain ⟨k, res⟩ := x
    cases res <;> simp only [doneList] <;> first | exact ih.cons _ | exact ih
  | swap x y l =>
    obtain ⟨k, res⟩ := x
    obtain ⟨k', res'⟩ := y
    cases res <;> cases res' <;> simp only [doneList] <;> first | exact List.Perm.swap _ _ _ | exact List.Perm.refl _
  | trans _ _ ih1 ih2 => exact ih1.trans ih2

theorem subList_perm {l l' : List (Key × BodyRes V S X)} (h : l.Perm l') : (subList l).Perm (subList l') := by
  induction h with
  | nil => exact List.Perm.refl _
  | cons x _ ih =>
    obtain ⟨k, res⟩ := x
    cases res <;> simp only [subList] <;> first | exact ih.cons _ | exact ih
  | swap x y l =>
    obtain ⟨k, res⟩ := x
    obtain ⟨k', res'⟩ := y
    cases res <;> cases res' <;> simp only [subList] <;> first | exact List.Perm.swap _ _ _ | exact List.Perm.refl _
  | trans _ _ ih1 ih2 => exact ih1.trans ih2

theorem postDones_fst_keys (r : IRunner V S X) : ∀ (l : List (Done V)) (st : S),
    (postDones r l st).1.map (·.1) = l.map (·.1) := by
  intro l
  induction l with
  | nil => intro st; rfl
  | cons d rest ih =>
    intro st
    simp only [postDones]
    split <;> simp [ih]

theorem postDones_append (r : IRunner V S X) : ∀ (a b : List (Done V)) (st : S),
    postDones r (a ++ b) st =
      ((postDones r a st).1 ++ (postDones r b (postDones r a st).2).1, (postDones r b (postDones r a st).2).2) := by
  intro a
  induction a with
  | nil => intro b st; rfl
  | cons d rest ih =>
    intro b st
    simp only [List.cons_append, postDones]
    split <;> simp [ih]

@[simp] theorem TaskOut.isSR_done (o : V) : (TaskOut.done o : TaskOut V X).isSR = false := rfl
@[simp] theorem TaskOut.isSR_subInt (p : X) : (TaskOut.subInt p : TaskOut V X).isSR = true := rfl

/-- the collected batch, seen through the completed pairs: post-handlers touch only completed tasks -/
theorem runPosts_view (r : IRunner V S X) : ∀ (l : List (Key × BodyRes V S X)) (st : S), DoneOrSub l →
    firstFail (runPosts r l st).1 = none ∧
    doneOf (runPosts r l st).1 = (postDones r (doneList l) st).1 ∧
    (runPosts r l st).2 = (postDones r (doneList l) st).2 ∧
    subIntOf (runPosts r l st).1 = subList l ∧
    rerunOf (runPosts r l st).1 = [] ∧
    ((runPosts r l st).1.filter (fun o => o.2.isSR)).map (·.1) = (subList l).map (·.1) ∧
    (runPosts r l st).1.isEmpty = l.isEmpty := by
  intro l
  induction l with
  | nil => intro st _; simp [runPosts, firstFail, doneOf, postDones, doneList, subIntOf, subList, rerunOf]
  | cons x rest ih =>
    intro st h
    have hx := h x (by simp)
    have hr : DoneOrSub rest := fun y hy => h y (by simp [hy])
    obtain ⟨k, res⟩ := x
    rcases hx with ⟨o, s, hres⟩ | ⟨p, s, hres⟩
    · simp only at hres
      subst hres
      simp only [runPosts, postOne, doneList, postDones, subList]
      cases hpost : (r.inode? k).bind (·.post) with
      | none =>
        obtain ⟨h1, h2, h3, h4, h5, h6, _⟩ := ih st hr
        simp [firstFail, doneOf, subIntOf, rerunOf, h1, h2, h3, h4, h5, h6]
      | some hh =>
        obtain ⟨h1, h2, h3, h4, h5, h6, _⟩ := ih (hh o st).2 hr
        simp [firstFail, doneOf, subIntOf, rerunOf, h1, h2, h3, h4, h5, h6]
    · simp only at hres
      subst hres
      obtain ⟨h1, h2, h3, h4, h5, h6, _⟩ := ih st hr
      simp [runPosts, postOne, doneList, subList, firstFail, doneOf, subIntOf, rerunOf, List.filter_cons, h1, h2, h3, h4, h5, h6]

/-- the outcome of a collected batch in which nobody failed or asked for a rerun -/
theorem coreOut_view (ops : ValOps V) (r : IRunner V S X) (sched : ISched V S X) (cm : Chans V)
    (bres : List (Key × BodyRes V S X)) (st2 : S) (h : DoneOrSub (sched bres)) :
    coreOut ops r sched cm bres st2 =
      (if !(subList (sched bres)).isEmpty then
         match foldFin r.base cm (postDones r (doneList (sched bres)) st2).1 with
         | .error e => .fail e
         | .ok cm2 => .sr cm2 ((subList (sched bres)).map (·.1)) (subList (sched bres)) []
                        (postDones r (doneList (sched bres)) st2).1 (postDones r (doneList (sched bres)) st2).2
       else if (sched bres).isEmpty then .fail { cls := .noTasks }
       else
         match calcNext ops r.base cm (postDones r (doneList (sched bres)) st2).1 with
         | .error e => .fail e
         | .ok (_, .result v) => .done v
         | .ok (cm', .tasks ts) => .next cm' ts (postDones r (doneList (sched bres)) st2).1
                                     (postDones r (doneList (sched bres)) st2).2) := by
  obtain ⟨h1, h2, h3, h4, h5, h6, h7⟩ := runPosts_view r (sched bres) st2 h
  unfold coreOut
  simp only [h1, h2, h3, h4, h5, h6, h7, List.isEmpty_nil, Bool.not_true, Bool.or_false]
  split
  · unfold foldFin
    cases resolve r.base cm (postDones r (doneList (sched bres)) st2).1 <;> rfl
  · rfl

/-! ### two runners with the same topology and the same state handlers -/

/-- same topology, same initial state, same pre- and post-handlers (the bodies may differ) -/
structure SameShell (r r₀ : IRunner V S X) : Prop where
  base : r₀.base = r.base
  init : r₀.initState = r.initState
  pre : ∀ k, (r₀.inode? k).bind (·.pre) = (r.inode? k).bind (·.pre)
  post : ∀ k, (r₀.inode? k).bind (·.post) = (r.inode? k).bind (·.post)

theorem preOne_eq_bind (r : IRunner V S X) (t : Task V X) (st : S) :
    preOne r t st = (match (r.inode? t.key).bind (·.pre) with
      | none => (t, st)
      | some h => if t.skipPre then (t, st) else ({ t with input := (h t.input st).1 }, (h t.input st).2)) := by
  unfold preOne
  cases r.inode? t.key with
  | none => rfl
  | some n =>
    simp only [Option.bind_some]
    cases n.pre <;> rfl

theorem preOne_shell {r r₀ : IRunner V S X} (h : SameShell r r₀) (t : Task V X) (st : S) :
    preOne r₀ t st = preOne r t st := by
  rw [preOne_eq_bind, preOne_eq_bind, h.pre]

theorem runPres_shell {r r₀ : IRunner V S X} (h : SameShell r r₀) : ∀ (ts : List (Task V X)) (st : S),
    runPres r₀ ts st = runPres r ts st := by
  intro ts
  induction ts with
  | nil => intro st; rfl
  | cons t rest ih => intro st; simp only [runPres, preOne_shell h, ih]

theorem postDones_shell {r r₀ : IRunner V S X} (h : SameShell r r₀) : ∀ (l : List (Done V)) (st : S),
    postDones r₀ l st = postDones r l st := by
  intro l
  induction l with
  | nil => intro st; rfl
  | cons d rest ih => intro st; simp only [postDones, h.post, ih]

theorem nextOf_shell {r r₀ : IRunner V S X} (h : SameShell r r₀) (ops : ValOps V) (cm : Chans V)
    (l : List (Done V)) (st : S) : nextOf ops r₀ cm l st = nextOf ops r cm l st := by
  simp only [nextOf, postDones_shell h, h.base]

/-- a task whose pre-handler is skipped is submitted as it is -/
theorem runPres_skip (r : IRunner V S X) : ∀ (ts : List (Task V X)) (st : S), (∀ t ∈ ts, t.skipPre = true) →
    runPres r ts st = (ts, st) := by
  intro ts
  induction ts with
  | nil => intro st _; rfl
  | cons t rest ih =>
    intro st h
    have ht := h t (by simp)
    have hp : preOne r t st = (t, st) := by
      rw [preOne_eq_bind]
      split
      · rfl
      · simp [ht]
    simp only [runPres, hp, ih st (fun t' h' => h t' (by simp [h']))]

/-! ### what is assumed of the node bodies of one level -/

/-- the payload `p` makes the reference body of node `k` complete with `out` (whatever input and
    state the restored task is given; the state is handed through) -/
def Resumes (r₀ : IRunner V S X) (k : Key) (p : X) (out : V) : Prop :=
  ∀ v' s' b, (bodyOne r₀ { key := k, input := v', skipPre := b, sub := some p } s').res = .done out s'

/-- **body-level simulation.**  Where the reference body completes, the body either completes with the
    same output and state, or reports a nested interrupt (leaving the state alone) whose payload is
    acceptable and makes the reference body, resumed from it, complete with that output; the
    executions logged by the reference are those logged before the interrupt plus those logged by
    the resumed reference, and the work left for the resumed reference body (`wt`, any measure) is
    strictly less than the work of the reference body. -/
def BodySim (XOK : X → Prop) (clog : List (Ev V S X) → Log V) (wt : V → S → Option X → Nat)
    (body body₀ : V → S → Option X → BodyOut V S X) : Prop :=
  ∀ v s x, (∀ p, x = some p → XOK p) → ∀ out s₁, (body₀ v s x).res = .done out s₁ →
    ((body v s x).res = .done out s₁ ∧ (clog (body₀ v s x).evs).Perm (clog (body v s x).evs))
    ∨ (s₁ = s ∧ ∃ p, (body v s x).res = .subInt p s ∧ XOK p ∧
        ∀ v' s', (body₀ v' s' (some p)).res = .done out s' ∧ wt v' s' (some p) < wt v s x ∧
          (clog (body₀ v s x).evs).Perm (clog (body v s x).evs ++ clog (body₀ v' s' (some p)).evs))

/-- one graph level `r` against its reference `r₀` -/
structure LevelRel (isFn : Key → Bool) (XOK : Key → X → Prop) (clog : Key → List (Ev V S X) → Log V)
    (wt : Key → V → S → Option X → Nat) (r r₀ : IRunner V S X) : Prop where
  shell : SameShell r r₀
  nb : r₀.intBefore = []
  na : r₀.intAfter = []
  clogNil : ∀ k, clog k [] = []
  nodes : ∀ k, (r.inode? k = none ∧ r₀.inode? k = none) ∨
     ∃ n n₀, r.inode? k = some n ∧ r₀.inode? k = some n₀ ∧ BodySim (XOK k) (clog k) (wt k) n.body n₀.body
  fnNoSR : ∀ k n, isFn k = true → r.inode? k = some n → ∀ v s x, (n.body v s x).res.isSR = false

theorem bodyOne_sim {isFn : Key → Bool} {XOK : Key → X → Prop} {clog : Key → List (Ev V S X) → Log V}
    {wt : Key → V → S → Option X → Nat} {r r₀ : IRunner V S X} (h : LevelRel isFn XOK clog wt r r₀) (t : Task V X) (st : S)
    (hx : ∀ p, t.sub = some p → XOK t.key p) (out : V) (s₁ : S)
    (h0 : (bodyOne r₀ t st).res = .done out s₁) :
    ((bodyOne r t st).res = .done out s₁ ∧
        (clog t.key (bodyOne r₀ t st).evs).Perm (clog t.key (bodyOne r t st).evs))
    ∨ (s₁ = st ∧ ∃ p, (bodyOne r t st).res = .subInt p st ∧ XOK t.key p ∧ Resumes r₀ t.key p out ∧
        (∀ v' s', wt t.key v' s' (some p) < wt t.key t.input st t.sub) ∧
        ∀ v' s' b, (clog t.key (bodyOne r₀ t st).evs).Perm
          (clog t.key (bodyOne r t st).evs ++
            clog t.key (bodyOne r₀ { key := t.key, input := v', skipPre := b, sub := some p } s').evs)) := by
  rcases h.nodes t.key with ⟨hn, hn0⟩ | ⟨n, n₀, hn, hn0, hsim⟩
  · left
    simp only [bodyOne, hn, hn0] at h0 ⊢
    exact ⟨h0, List.Perm.refl _⟩
  · simp only [bodyOne, hn, hn0] at h0 ⊢
    rcases hsim t.input st t.sub hx out s₁ h0 with h1 | ⟨hs, p, hp, hok, hres⟩
    · left; exact h1
    · right
      refine ⟨hs, p, hp, hok, fun v' s' b => ?_, fun v' s' => (hres v' s').2.1, fun v' s' b => ?_⟩
      · simp only [bodyOne, hn0]; exact (hres v' s').1
      · show (clog t.key (n₀.body t.input st t.sub).evs).Perm _; have := (hres v' s').2.2; simpa only [bodyOne, hn0] using this

/-- two lists related entry by entry -/
inductive All₂ {α β : Type} (R : α → β → Prop) : List α → List β → Prop where
  | nil : All₂ R [] []
  | cons {a b l l'} : R a b → All₂ R l l' → All₂ R (a :: l) (b :: l')

/-- a batch entry of the run against the same entry of the reference -/
def EntryRel (XOK : Key → X → Prop) (r₀ : IRunner V S X) (a a₀ : Key × BodyRes V S X) : Prop :=
  a.1 = a₀.1 ∧ (a.2 = a₀.2 ∨ ∃ p out s, a.2 = .subInt p s ∧ a₀.2 = .done out s ∧ XOK a.1 p ∧ Resumes r₀ a.1 p out)

/-- what the reference logs when the interrupted graph nodes are resumed from their payloads -/
def subsLog (r₀ : IRunner V S X) (clog : Key → List (Ev V S X) → Log V) (z : V) (s : S) (subs : List (Key × X)) : Log V :=
  subs.flatMap (fun kp => clog kp.1 (bodyOne r₀ { key := kp.1, input := z, skipPre := true, sub := some kp.2 } s).evs)

theorem perm_middle4 {α} (a b c d : List α) : (a ++ (b ++ (c ++ d))).Perm (a ++ (c ++ (b ++ d))) := by
  refine List.Perm.append_left a ?_
  rw [← List.append_assoc, ← List.append_assoc]
  exact List.Perm.append_right d List.perm_append_comm

/-- the work of the reference bodies of a batch (bodies run one after the other, threading the state) -/
def tasksWt (wt : Key → V → S → Option X → Nat) (r₀ : IRunner V S X) : List (Task V X) → S → Nat
  | [], _ => 0
  | t :: rest, st => wt t.key t.input st t.sub + tasksWt wt r₀ rest (bodyOne r₀ t st).res.st

/-- the work left for the reference when the interrupted graph nodes are resumed from their payloads -/
def subsWt (wt : Key → V → S → Option X → Nat) (z : V) (s : S) (subs : List (Key × X)) : Nat :=
  (subs.map (fun kp => wt kp.1 z s (some kp.2))).sum

theorem runBodies_sim {isFn : Key → Bool} {XOK : Key → X → Prop} {clog : Key → List (Ev V S X) → Log V}
    {wt : Key → V → S → Option X → Nat} {r r₀ : IRunner V S X} (h : LevelRel isFn XOK clog wt r r₀) :
    ∀ (ts : List (Task V X)) (st : S), (∀ t ∈ ts, ∀ p, t.sub = some p → XOK t.key p) →
      AllDone (runBodies r₀ ts st).1 →
      (runBodies r ts st).2.1 = (runBodies r₀ ts st).2.1 ∧
      All₂ (EntryRel XOK r₀) (runBodies r ts st).1 (runBodies r₀ ts st).1 ∧
      (∀ z s, (levelLog isFn clog (runBodies r₀ ts st).2.2).Perm
        (levelLog isFn clog (runBodies r ts st).2.2 ++ subsLog r₀ clog z s (subList (runBodies r ts st).1))) ∧
      ∀ z s, subsWt wt z s (subList (runBodies r ts st).1) + (subList (runBodies r ts st).1).length ≤ tasksWt wt r₀ ts st := by
  intro ts
  induction ts with
  | nil =>
    intro st _ _
    exact ⟨rfl, All₂.nil, fun z s => by simp [runBodies, levelLog, subList, subsLog],
      fun z s => by simp [runBodies, subList, subsWt, tasksWt]⟩
  | cons t rest ih =>
    intro st hx hall
    have hxt := hx t (by simp)
    have hxr : ∀ t' ∈ rest, ∀ p, t'.sub = some p → XOK t'.key p := fun t' h' => hx t' (by simp [h'])
    simp only [runBodies, tasksWt] at hall ⊢
    obtain ⟨out, s₁, h0⟩ := hall (t.key, (bodyOne r₀ t st).res) (by simp)
    simp only at h0
    have hallr : AllDone (runBodies r₀ rest (bodyOne r₀ t st).res.st).1 := fun y hy => hall y (by simp [hy])
    have hst0 : (bodyOne r₀ t st).res.st = s₁ := by rw [h0]; rfl
    rw [hst0] at hallr ⊢
    simp only [levelLog_append, levelLog_taskEvs isFn clog h.clogNil]
    rcases bodyOne_sim h t st hxt out s₁ h0 with ⟨h1, hl⟩ | ⟨hs, p, hp, hok, hres, hw, hl⟩
    · have hst : (bodyOne r t st).res.st = s₁ := by rw [h1]; rfl
      rw [hst]
      obtain ⟨i1, i2, i3, i4⟩ := ih s₁ hxr hallr
      have hsl : subList ((t.key, (bodyOne r t st).res) :: (runBodies r rest s₁).1) = subList (runBodies r rest s₁).1 := by
        rw [h1]; rfl
      refine ⟨i1, All₂.cons ⟨rfl, Or.inl (by rw [h1, h0])⟩ i2, fun z s => ?_, fun z s => ?_⟩
      · rw [hsl, List.append_assoc, List.append_assoc, List.append_assoc]
        exact List.Perm.append_left _ (List.Perm.append hl (i3 z s))
      · rw [hsl]
        have := i4 z s
        omega
    · subst hs
      have hst : (bodyOne r t s₁).res.st = s₁ := by rw [hp]; rfl
      rw [hst]
      obtain ⟨i1, i2, i3, i4⟩ := ih s₁ hxr hallr
      have hsl : subList ((t.key, (bodyOne r t s₁).res) :: (runBodies r rest s₁).1) =
          (t.key, p) :: subList (runBodies r rest s₁).1 := by
        rw [hp]; rfl
      refine ⟨i1, All₂.cons ⟨rfl, Or.inr ⟨p, out, s₁, hp, h0, hok, hres⟩⟩ i2, fun z s => ?_, fun z s => ?_⟩
      · rw [hsl]
        simp only [subsLog, List.flatMap_cons]
        rw [List.append_assoc, List.append_assoc, List.append_assoc]
        refine List.Perm.append_left _ ?_
        refine (List.Perm.append (hl z s true) (i3 z s)).trans ?_
        simp only [List.append_assoc]
        exact perm_middle4 _ _ _ _
      · rw [hsl]
        have h4 := i4 z s
        have h5 := hw z s
        simp only [subsWt, List.map_cons, List.sum_cons, List.length_cons] at h4 ⊢
        omega

/-! ### the channel invariant of either trigger mode, and what the fold keeps -/

/-- the invariant of the channel map the run relies on: in all-predecessor mode every channel has a
    predecessor; nothing in any-predecessor mode -/
def ModeInv (base : Runner V) (cm : Chans V) : Prop := base.dag = true → AllP HasPred cm

theorem quiet_mode (ops : ValOps V) (base : Runner V) : QuietUnder ops base (ModeInv base) := by
  intro cm done cm' ts hinv h
  cases hd : base.dag with
  | false =>
    refine ⟨fun h' => ?_, pregel_quiet ops base hd cm done cm' ts h⟩
    rw [hd] at h'
    exact absurd h' (by decide)
  | true =>
    obtain ⟨h1, h2⟩ := dag_quiet ops base hd cm done cm' ts (hinv hd) h
    exact ⟨fun _ => h1, h2⟩

theorem foldFin_keys (base : Runner V) (cm : Chans V) (d : List (Done V)) (cm2 : Chans V)
    (h : foldFin base cm d = .ok cm2) : akeys cm2 = akeys cm := by
  unfold foldFin at h
  split at h
  · simp at h
  · rename_i res hres
    injection h with h
    rw [← h, updateDeps_keys, updateValues_keys, resolve_keys base cm d res hres]

theorem foldFin_inv (base : Runner V) (cm : Chans V) (d : List (Done V)) (cm2 : Chans V)
    (hinv : ModeInv base cm) (h : foldFin base cm d = .ok cm2) : ModeInv base cm2 := by
  intro hd
  unfold foldFin at h
  split at h
  · simp at h
  · rename_i res hres
    injection h with h
    rw [← h]
    exact updateDeps_allP HasPred hasPred_ops base _ _ (updateValues_allP HasPred hasPred_ops base _ _
      (foldlM_resolve_allP HasPred hasPred_ops base d _ res hres (hinv hd)))

theorem getReady_outs_sublist (ops : ValOps V) (dag : Bool) : ∀ (cm : Chans V),
    ((getReady ops dag cm).2.1.map (·.1)).Sublist (akeys cm) := by
  intro cm
  induction cm with
  | nil => simp [getReady, akeys]
  | cons q rest ih =>
    obtain ⟨k, c⟩ := q
    simp only [getReady, akeys, List.map_cons]
    split <;> simp only [List.map_cons]
    · exact List.Sublist.cons _ ih
    · exact List.Sublist.cons_cons _ ih
    · exact List.Sublist.cons _ ih

theorem calcNext_tasks_nodup (ops : ValOps V) (base : Runner V) (cm : Chans V) (d : List (Done V))
    (cm' : Chans V) (ts : List (Key × V)) (hnd : (akeys cm).Nodup)
    (h : calcNext ops base cm d = .ok (cm', .tasks ts)) : (ts.map (·.1)).Nodup := by
  unfold calcNext at h
  simp only [bind, Except.bind] at h
  split at h
  · simp at h
  · rename_i res hres
    have hk : akeys (updateDeps base (updateValues base res.cm res.writes) res.deps) = akeys cm := by
      rw [updateDeps_keys, updateValues_keys, resolve_keys base cm d res hres]
    have hs := getReady_outs_sublist ops base.dag (updateDeps base (updateValues base res.cm res.writes) res.deps)
    rw [hk] at hs
    split at h
    · simp [throw, throwThe, MonadExceptOf.throw] at h
    · split at h
      · simp only [pure, Except.pure] at h
        injection h with h; injection h with _ h2; cases h2
      · simp only [pure, Except.pure] at h
        injection h with h; injection h with _ h2
        injection h2 with h2
        rw [← h2]
        exact hs.nodup hnd

/-! ### the work of the reference run (a measure that decreases from call to call) -/

/-- one superstep of the reference: 1 + the work of its bodies -/
def stepWt (wt : Key → V → S → Option X → Nat) (r₀ : IRunner V S X) (ls : LoopSt V S X) : Nat :=
  1 + tasksWt wt r₀ (runPres r₀ ls.tasks ls.st).1 (runPres r₀ ls.tasks ls.st).2

/-- the supersteps the reference loop goes through -/
def loopWt (ops : ValOps V) (wt : Key → V → S → Option X → Nat) (r₀ : IRunner V S X) (sched : ISched V S X) :
    Nat → LoopSt V S X → Nat
  | 0, _ => 0
  | n + 1, ls =>
    stepWt wt r₀ ls + (match (stepI ops r₀ sched ls).2 with
      | .next ls' => loopWt ops wt r₀ sched n ls'
      | _ => 0)

/-- a call of the reference: one more for a call on a fresh input (the tasks computed from START may
    be an interrupt point of their own) -/
def callWt (ops : ValOps V) (cfg : Cfg) (wt : Key → V → S → Option X → Nat) (r₀ : IRunner V S X) (sched : ISched V S X) :
    V ⊕ Checkpoint V S X → Nat
  | .inr cp => loopWt ops wt r₀ sched r₀.base.fuel (restore cfg r₀ cp)
  | .inl x =>
    1 + (match calcNext ops r₀.base (initChans r₀.base) [(START, x)] with
      | .ok (cm, .tasks ts) =>
        loopWt ops wt r₀ sched r₀.base.fuel { cm := cm, tasks := mkTasks [] ts, st := r₀.initState, stale := [] }
      | _ => 0)

theorem subsWt_perm (wt : Key → V → S → Option X → Nat) (z : V) (s : S) {a b : List (Key × X)} (h : a.Perm b) :
    subsWt wt z s a = subsWt wt z s b := by
  unfold subsWt
  exact (h.map _).sum_nat

theorem tasksWt_resumed (wt : Key → V → S → Option X → Nat) (r₀ : IRunner V S X) (z : V) :
    ∀ (subs : List (Key × X)) (st : S), (∀ kp ∈ subs, ∃ out, Resumes r₀ kp.1 kp.2 out) →
    tasksWt wt r₀ (subs.map (fun kp => { key := kp.1, input := z, skipPre := true, sub := some kp.2 })) st =
      subsWt wt z st subs := by
  intro subs
  induction subs with
  | nil => intro st _; rfl
  | cons kp rest ih =>
    intro st hres
    obtain ⟨out, hout⟩ := hres kp (by simp)
    have hb := hout z st true
    have hst : (bodyOne r₀ { key := kp.1, input := z, skipPre := true, sub := some kp.2 } st).res.st = st := by
      rw [hb]; rfl
    simp only [List.map_cons, tasksWt, hst, subsWt, List.sum_cons]
    rw [ih st (fun q hq => hres q (by simp [hq]))]
    rfl

/-! ### the restored graph nodes, run by the reference -/

/-- the tasks `restoreTasks` builds for interrupted graph nodes: zero input, pre-handler skipped,
    nested checkpoint handed down -/
def resTasks (z : V) (subs : List (Key × X)) : List (Task V X) :=
  subs.map (fun kp => { key := kp.1, input := z, skipPre := true, sub := some kp.2 })

theorem runBodies_resumed (isFn : Key → Bool) (clog : Key → List (Ev V S X) → Log V) (r₀ : IRunner V S X)
    (hnil : ∀ k, clog k [] = []) (z : V) : ∀ (subs : List (Key × X)) (st : S),
    (∀ kp ∈ subs, ∃ out, Resumes r₀ kp.1 kp.2 out) → (∀ kp ∈ subs, isFn kp.1 = false) →
    (runBodies r₀ (resTasks z subs) st).2.1 = st ∧ AllDone (runBodies r₀ (resTasks z subs) st).1 ∧
    levelLog isFn clog (runBodies r₀ (resTasks z subs) st).2.2 = subsLog r₀ clog z st subs := by
  intro subs
  induction subs with
  | nil => intro st _ _; exact ⟨rfl, fun x hx => by simp [resTasks, runBodies] at hx, rfl⟩
  | cons kp rest ih =>
    intro st hres hfn
    obtain ⟨out, hout⟩ := hres kp (by simp)
    have hb := hout z st true
    obtain ⟨i1, i2, i3⟩ := ih st (fun q hq => hres q (by simp [hq])) (fun q hq => hfn q (by simp [hq]))
    have hst : (bodyOne r₀ { key := kp.1, input := z, skipPre := true, sub := some kp.2 } st).res.st = st := by
      rw [hb]; rfl
    simp only [resTasks, List.map_cons, runBodies, hst] at i1 i2 i3 ⊢
    refine ⟨i1, ?_, ?_⟩
    · intro x hx
      simp only [List.mem_cons] at hx
      rcases hx with rfl | hx
      · exact ⟨out, st, hb⟩
      · exact i2 x hx
    · rw [levelLog_append, levelLog_taskEvs isFn clog hnil, i3]
      simp [hfn kp (by simp), subsLog]

section entries
variable {XOK : Key → X → Prop} {r₀ : IRunner V S X}

theorem entries_doneOrSub {L L₀ : List (Key × BodyRes V S X)} (h : All₂ (EntryRel XOK r₀) L L₀)
    (hall : AllDone L₀) : DoneOrSub L := by
  induction h with
  | nil => intro x hx; simp at hx
  | @cons a b l l' hab _ ih =>
    intro x hx
    simp only [List.mem_cons] at hx
    rcases hx with rfl | hx
    · rcases hab.2 with he | ⟨p, out, s, hp, _⟩
      · obtain ⟨o, s, hb⟩ := hall b (by simp)
        left; exact ⟨o, s, by rw [he, hb]⟩
      · right; exact ⟨p, s, hp⟩
    · exact ih (fun y hy => hall y (by simp [hy])) x hx

theorem entries_keys {L L₀ : List (Key × BodyRes V S X)} (h : All₂ (EntryRel XOK r₀) L L₀) :
    L.map (·.1) = L₀.map (·.1) := by
  induction h with
  | nil => rfl
  | cons hab _ ih => simp [hab.1, ih]

theorem entries_eq_of_noSub {L L₀ : List (Key × BodyRes V S X)} (h : All₂ (EntryRel XOK r₀) L L₀)
    (hs : subList L = []) : L = L₀ := by
  induction h with
  | nil => rfl
  | @cons a b l l' hab _ ih =>
    obtain ⟨k, res⟩ := a
    obtain ⟨k', res'⟩ := b
    rcases hab with ⟨hk, he | ⟨p, out, s, hp, _⟩⟩
    · simp only at hk he
      subst hk he
      have hl : subList l = [] := by
        cases res <;> simp_all [subList]
      rw [ih hl]
    · simp only at hp
      subst hp
      simp [subList] at hs

theorem entries_subs {L L₀ : List (Key × BodyRes V S X)} (h : All₂ (EntryRel XOK r₀) L L₀)
    (hall : AllDone L₀) :
    ∀ kp ∈ subList L, XOK kp.1 kp.2 ∧ ∃ out, Resumes r₀ kp.1 kp.2 out := by
  induction h with
  | nil => intro kp hkp; simp [subList] at hkp
  | @cons a b l l' hab _ ih =>
    obtain ⟨k, res⟩ := a
    have ih := ih (fun y hy => hall y (by simp [hy]))
    intro kp hkp
    cases res with
    | subInt p s =>
      simp only [subList, List.mem_cons] at hkp
      rcases hkp with rfl | hkp
      · rcases hab.2 with he | ⟨p', out, s', hp, _, hok, hres⟩
        · obtain ⟨o, s₀, hb⟩ := hall b (by simp)
          simp only at he
          rw [hb] at he
          cases he
        · simp only at hp
          injection hp with hp _
          subst hp
          exact ⟨hok, out, hres⟩
      · exact ih kp hkp
    | done o s => exact ih kp (by simpa [subList] using hkp)
    | rerun s => exact ih kp (by simpa [subList] using hkp)
    | fail e s => exact ih kp (by simpa [subList] using hkp)

theorem entries_split {L L₀ : List (Key × BodyRes V S X)} (h : All₂ (EntryRel XOK r₀) L L₀)
    (hall : AllDone L₀) (z : V) (st : S) :
    (doneList L₀).Perm (doneList L ++ doneList (runBodies r₀ (resTasks z (subList L)) st).1) := by
  induction h with
  | nil => simp [doneList, subList, resTasks, runBodies]
  | @cons a b l l' hab _ ih =>
    have ih := ih (fun y hy => hall y (by simp [hy]))
    obtain ⟨k, res⟩ := a
    obtain ⟨k', res'⟩ := b
    obtain ⟨o, s₀, hb⟩ := hall (k', res') (by simp)
    simp only at hb
    subst hb
    rcases hab with ⟨hk, he | ⟨p, out, s, hp, hd, _, hres⟩⟩
    · simp only at hk he
      subst hk he
      simp only [doneList, subList, List.cons_append]
      exact ih.cons _
    · simp only at hk hp hd
      subst hk hp
      injection hd with hd1 hd2
      subst hd1 hd2
      have hb := hres z st true
      have hst : (bodyOne r₀ { key := k, input := z, skipPre := true, sub := some p } st).res.st = st := by
        rw [hb]; rfl
      simp only [doneList, subList, resTasks, List.map_cons, runBodies, hb]
      exact (ih.cons _).trans List.perm_middle.symm

end entries

theorem mem_subList {l : List (Key × BodyRes V S X)} {kp : Key × X} (h : kp ∈ subList l) :
    ∃ s, (kp.1, BodyRes.subInt kp.2 s) ∈ l := by
  induction l with
  | nil => simp [subList] at h
  | cons x rest ih =>
    obtain ⟨k, res⟩ := x
    cases res with
    | subInt p s =>
      simp only [subList, List.mem_cons] at h
      rcases h with rfl | h
      · exact ⟨s, by simp⟩
      · obtain ⟨s', hs'⟩ := ih h; exact ⟨s', by simp [hs']⟩
    | done o s => obtain ⟨s', hs'⟩ := ih (by simpa [subList] using h); exact ⟨s', by simp [hs']⟩
    | rerun s => obtain ⟨s', hs'⟩ := ih (by simpa [subList] using h); exact ⟨s', by simp [hs']⟩
    | fail e s => obtain ⟨s', hs'⟩ := ih (by simpa [subList] using h); exact ⟨s', by simp [hs']⟩

theorem subList_mem_of {l : List (Key × BodyRes V S X)} {kp : Key × X} {s : S}
    (h : (kp.1, BodyRes.subInt kp.2 s) ∈ l) : kp ∈ subList l := by
  induction l with
  | nil => simp at h
  | cons x rest ih =>
    obtain ⟨k, res⟩ := x
    simp only [List.mem_cons] at h
    rcases h with h | h
    · injection h with h1 h2
      subst h1 h2
      simp [subList]
    · have := ih h
      cases res <;> simp [subList, this]

theorem subList_keys_sublist : ∀ (l : List (Key × BodyRes V S X)), ((subList l).map (·.1)).Sublist (l.map (·.1)) := by
  intro l
  induction l with
  | nil => simp [subList]
  | cons x rest ih =>
    obtain ⟨k, res⟩ := x
    cases res <;> simp only [subList, List.map_cons] <;> first | exact ih.cons_cons _ | exact ih.cons _

/-- a function node never reports a nested interrupt -/
theorem runBodies_fn_noSub {isFn : Key → Bool} {XOK : Key → X → Prop} {clog : Key → List (Ev V S X) → Log V}
    {wt : Key → V → S → Option X → Nat} {r r₀ : IRunner V S X} (h : LevelRel isFn XOK clog wt r r₀) : ∀ (ts : List (Task V X)) (st : S),
    ∀ kp ∈ subList (runBodies r ts st).1, isFn kp.1 = false := by
  intro ts
  induction ts with
  | nil => intro st kp hkp; simp [runBodies, subList] at hkp
  | cons t rest ih =>
    intro st kp hkp
    obtain ⟨s, hs⟩ := mem_subList hkp
    simp only [runBodies, List.mem_cons] at hs
    rcases hs with hs | hs
    · injection hs with hk hres
      cases hfn : isFn kp.1 with
      | false => rfl
      | true =>
        exfalso
        rw [hk] at hfn
        unfold bodyOne at hres
        cases hn : r.inode? t.key with
        | none => simp [hn] at hres
        | some n =>
          simp only [hn] at hres
          have := h.fnNoSR t.key n hfn hn t.input st t.sub
          rw [← hres] at this
          simp [BodyRes.isSR] at this
    · exact ih _ kp (subList_mem_of hs)

theorem runBodies_keys (r : IRunner V S X) : ∀ (ts : List (Task V X)) (st : S),
    (runBodies r ts st).1.map (·.1) = ts.map (·.key) := by
  intro ts
  induction ts with
  | nil => intro st; rfl
  | cons t rest ih => intro st; simp [runBodies, ih]

theorem runPres_keys_subs (r : IRunner V S X) : ∀ (ts : List (Task V X)) (st : S),
    (runPres r ts st).1.map (·.key) = ts.map (·.key) ∧
    ∀ t' ∈ (runPres r ts st).1, ∃ t ∈ ts, t'.key = t.key ∧ t'.sub = t.sub := by
  intro ts
  induction ts with
  | nil => intro st; exact ⟨rfl, fun t' h => by simp [runPres] at h⟩
  | cons t rest ih =>
    intro st
    have hp := preOne_key r t st
    obtain ⟨i1, i2⟩ := ih (preOne r t st).2
    refine ⟨by simp [runPres, hp.1, i1], ?_⟩
    intro t' ht'
    simp only [runPres, List.mem_cons] at ht'
    rcases ht' with rfl | ht'
    · exact ⟨t, by simp, hp.1, hp.2.1⟩
    · obtain ⟨t0, h0, h1⟩ := i2 t' ht'
      exact ⟨t0, by simp [h0], h1⟩

theorem alookup_of_mem_nodup {α} : ∀ (l : List (Key × α)) (kp : Key × α), (l.map (·.1)).Nodup → kp ∈ l →
    alookup kp.1 l = some kp.2 := by
  intro l
  induction l with
  | nil => intro kp _ h; simp at h
  | cons x rest ih =>
    intro kp hnd h
    obtain ⟨k, v⟩ := x
    simp only [List.map_cons, List.nodup_cons] at hnd
    simp only [List.mem_cons] at h
    rcases h with rfl | h
    · simp [alookup]
    · have hne : k ≠ kp.1 := by
        intro heq
        apply hnd.1
        rw [heq]
        exact List.mem_map_of_mem h
      simp [alookup, hne, ih kp hnd.2 h]

/-- the tasks rebuilt from the checkpoint of a nested interrupt (no rerun node) -/
theorem restoreTasks_subs (z : V) (subs : List (Key × X)) (hnd : (subs.map (·.1)).Nodup) :
    restoreTasks ((subs.map (·.1)).map (fun k => (k, z))) (subs.map (·.1)) subs = resTasks z subs := by
  simp only [restoreTasks, resTasks, List.map_map]
  apply List.map_congr_left
  intro kp hkp
  have h1 : (subs.map (·.1)).contains kp.1 = true := by
    simp only [List.contains_eq_mem, List.mem_map, decide_eq_true_eq]
    exact ⟨kp, hkp, rfl⟩
  have h2 := alookup_of_mem_nodup subs kp hnd hkp
  simp only [Function.comp, h1, h2]

/-! ### a superstep of the reference that goes on or returns the result: every task completed -/

def StepOut.good : StepOut V S X → Prop
  | .done _ => True
  | .next _ => True
  | _ => False

theorem firstFail_of_mem (r : IRunner V S X) : ∀ (l : List (Key × BodyRes V S X)) (st : S) (k : Key) (e : Err) (s : S),
    (k, BodyRes.fail e s) ∈ l → firstFail (runPosts r l st).1 ≠ none := by
  intro l
  induction l with
  | nil => intro st k e s h; simp at h
  | cons x rest ih =>
    intro st k e s h
    obtain ⟨k', res⟩ := x
    simp only [List.mem_cons] at h
    rcases h with h | h
    · injection h with h1 h2
      subst h1 h2
      simp [runPosts, postOne, firstFail]
    · cases res with
      | fail e' s' => simp [runPosts, postOne, firstFail]
      | done o s' =>
        simp only [runPosts, postOne]
        split <;> simp only [firstFail] <;> exact ih _ k e s h
      | rerun s' => simp only [runPosts, postOne, firstFail]; exact ih _ k e s h
      | subInt p s' => simp only [runPosts, postOne, firstFail]; exact ih _ k e s h

theorem rerunOf_of_mem (r : IRunner V S X) : ∀ (l : List (Key × BodyRes V S X)) (st : S) (k : Key) (s : S),
    (k, BodyRes.rerun s) ∈ l → rerunOf (runPosts r l st).1 ≠ [] := by
  intro l
  induction l with
  | nil => intro st k s h; simp at h
  | cons x rest ih =>
    intro st k s h
    obtain ⟨k', res⟩ := x
    simp only [List.mem_cons] at h
    rcases h with h | h
    · injection h with h1 h2
      subst h1 h2
      simp [runPosts, postOne, rerunOf]
    · cases res with
      | rerun s' => simp [runPosts, postOne, rerunOf]
      | done o s' =>
        simp only [runPosts, postOne]
        split <;> simp only [rerunOf] <;> exact ih _ k s h
      | fail e' s' => simp only [runPosts, postOne, rerunOf]; exact ih _ k s h
      | subInt p s' => simp only [runPosts, postOne, rerunOf]; exact ih _ k s h

theorem subIntOf_of_mem (r : IRunner V S X) : ∀ (l : List (Key × BodyRes V S X)) (st : S) (k : Key) (p : X) (s : S),
    (k, BodyRes.subInt p s) ∈ l → subIntOf (runPosts r l st).1 ≠ [] := by
  intro l
  induction l with
  | nil => intro st k p s h; simp at h
  | cons x rest ih =>
    intro st k p s h
    obtain ⟨k', res⟩ := x
    simp only [List.mem_cons] at h
    rcases h with h | h
    · injection h with h1 h2
      subst h1 h2
      simp [runPosts, postOne, subIntOf]
    · cases res with
      | subInt p' s' => simp [runPosts, postOne, subIntOf]
      | done o s' =>
        simp only [runPosts, postOne]
        split <;> simp only [subIntOf] <;> exact ih _ k p s h
      | fail e' s' => simp only [runPosts, postOne, subIntOf]; exact ih _ k p s h
      | rerun s' => simp only [runPosts, postOne, subIntOf]; exact ih _ k p s h

theorem coreOut_fail_of_firstFail (ops : ValOps V) (r : IRunner V S X) (sched : ISched V S X) (cm : Chans V)
    (L : List (Key × BodyRes V S X)) (st : S) (h : firstFail (runPosts r (sched L) st).1 ≠ none) :
    ∃ e, coreOut ops r sched cm L st = .fail e := by
  unfold coreOut
  simp only
  split
  · exact ⟨_, rfl⟩
  · rename_i hn; exact absurd hn h

theorem coreOut_sr_or_fail (ops : ValOps V) (r : IRunner V S X) (sched : ISched V S X) (cm : Chans V)
    (L : List (Key × BodyRes V S X)) (st : S)
    (h : subIntOf (runPosts r (sched L) st).1 ≠ [] ∨ rerunOf (runPosts r (sched L) st).1 ≠ []) :
    (∃ e, coreOut ops r sched cm L st = .fail e) ∨
    ∃ cm' rs subs reruns dones st', coreOut ops r sched cm L st = .sr cm' rs subs reruns dones st' := by
  unfold coreOut
  simp only
  split
  · left; exact ⟨_, rfl⟩
  · have hc : (!(subIntOf (runPosts r (sched L) st).1).isEmpty || !(rerunOf (runPosts r (sched L) st).1).isEmpty) = true := by
      rcases h with h | h
      · cases hh : subIntOf (runPosts r (sched L) st).1 with
        | nil => exact absurd hh h
        | cons a b => simp
      · cases hh : rerunOf (runPosts r (sched L) st).1 with
        | nil => exact absurd hh h
        | cons a b => simp
    rw [if_pos hc]
    split
    · left; exact ⟨_, rfl⟩
    · right; exact ⟨_, _, _, _, _, _, rfl⟩

theorem good_allDone (ops : ValOps V) (r : IRunner V S X) (sched : ISched V S X) (hperm : ∀ l, (sched l).Perm l)
    (stale : List (Key × X)) (cm : Chans V) (L : List (Key × BodyRes V S X)) (st : S)
    (h : (finishStep ops r stale (coreOut ops r sched cm L st)).good) : AllDone L := by
  intro x hx
  have hx' : x ∈ sched L := (hperm L).symm.subset hx
  obtain ⟨k, res⟩ := x
  cases res with
  | done o s => exact ⟨o, s, rfl⟩
  | fail e s =>
    exfalso
    obtain ⟨e', he'⟩ := coreOut_fail_of_firstFail ops r sched cm L st (firstFail_of_mem r _ st k e s hx')
    rw [he'] at h
    exact h
  | rerun s =>
    exfalso
    rcases coreOut_sr_or_fail ops r sched cm L st (Or.inr (rerunOf_of_mem r _ st k s hx')) with ⟨e', he'⟩ | ⟨a, b, c, d, e, f, he'⟩
    · rw [he'] at h; exact h
    · rw [he'] at h; exact h
  | subInt p s =>
    exfalso
    rcases coreOut_sr_or_fail ops r sched cm L st (Or.inl (subIntOf_of_mem r _ st k p s hx')) with ⟨e', he'⟩ | ⟨a, b, c, d, e, f, he'⟩
    · rw [he'] at h; exact h
    · rw [he'] at h; exact h

/-! ### a batch in which every task completed -/

/-- the outcome `coreOut` builds from post-handlers + `calculateNextTasks` -/
def coreOfNext (dones : List (Done V)) : Except Err (Chans V × Next V × S) → CoreOut V S X
  | .error e => .fail e
  | .ok (_, .result v, _) => .done v
  | .ok (cm', .tasks ts, st') => .next cm' ts dones st'

theorem subList_allDone {l : List (Key × BodyRes V S X)} (h : AllDone l) : subList l = [] := by
  induction l with
  | nil => rfl
  | cons x rest ih =>
    obtain ⟨o, s, hx⟩ := h x (by simp)
    obtain ⟨k, res⟩ := x
    simp only at hx
    subst hx
    simp only [subList]
    exact ih (fun y hy => h y (by simp [hy]))

theorem allDone_doneOrSub {l : List (Key × BodyRes V S X)} (h : AllDone l) : DoneOrSub l :=
  fun x hx => Or.inl (h x hx)

theorem coreOut_allDone (ops : ValOps V) (r : IRunner V S X) (sched : ISched V S X) (cm : Chans V)
    (L : List (Key × BodyRes V S X)) (st : S) (h : AllDone (sched L)) (hne : (sched L).isEmpty = false) :
    coreOut ops r sched cm L st =
      coreOfNext (postDones r (doneList (sched L)) st).1 (nextOf ops r cm (doneList (sched L)) st) := by
  rw [coreOut_view ops r sched cm L st (allDone_doneOrSub h), subList_allDone h]
  simp only [List.isEmpty_nil, Bool.not_true, Bool.false_eq_true, ite_false, hne, nextOf]
  cases calcNext ops r.base cm (postDones r (doneList (sched L)) st).1 with
  | error e => rfl
  | ok q =>
    obtain ⟨cm', nx⟩ := q
    cases nx <;> rfl

theorem finishStep_noInt_next (ops : ValOps V) (r : IRunner V S X) (hb : r.intBefore = []) (ha : r.intAfter = [])
    (stale : List (Key × X)) (cm : Chans V) (ts : List (Key × V)) (dones : List (Done V)) (st : S) :
    finishStep ops r stale (.next cm ts dones st) =
      .next { cm := cm, tasks := mkTasks stale ts, st := st, stale := stale } := by
  simp [finishStep, hb, ha, hitKeys_nil_keys, afterHits_nil_keys]

/-- with empty interrupt sets the loop's continuation does not depend on the list of finished tasks -/
theorem finishStep_noInt_coreOfNext (ops : ValOps V) (r : IRunner V S X) (hb : r.intBefore = []) (ha : r.intAfter = [])
    (stale : List (Key × X)) (d d' : List (Done V)) (x : Except Err (Chans V × Next V × S)) :
    finishStep ops r stale (coreOfNext d x) = finishStep ops r stale (coreOfNext d' x) := by
  cases x with
  | error e => rfl
  | ok q =>
    obtain ⟨cm', nx, st'⟩ := q
    cases nx with
    | result v => rfl
    | tasks ts => simp only [coreOfNext, finishStep_noInt_next ops r hb ha]

theorem runPosts_shell {r r₀ : IRunner V S X} (h : SameShell r r₀) : ∀ (l : List (Key × BodyRes V S X)) (st : S),
    runPosts r₀ l st = runPosts r l st := by
  intro l
  induction l with
  | nil => intro st; rfl
  | cons x rest ih =>
    intro st
    have hp : postOne r₀ x.1 x.2 st = postOne r x.1 x.2 st := by
      unfold postOne
      cases x.2 <;> simp only [h.post]
    simp only [runPosts, hp, ih]

theorem coreOut_shell {r r₀ : IRunner V S X} (h : SameShell r r₀) (ops : ValOps V) (sched : ISched V S X) (cm : Chans V)
    (L : List (Key × BodyRes V S X)) (st : S) : coreOut ops r₀ sched cm L st = coreOut ops r sched cm L st := by
  simp only [coreOut, runPosts_shell h, h.base]

theorem doneList_keys_sublist : ∀ (l : List (Key × BodyRes V S X)), ((doneList l).map (·.1)).Sublist (l.map (·.1)) := by
  intro l
  induction l with
  | nil => simp [doneList]
  | cons x rest ih =>
    obtain ⟨k, res⟩ := x
    cases res <;> simp only [doneList, List.map_cons] <;> first | exact ih.cons_cons _ | exact ih.cons _

theorem levelLog_step_cons (isFn : Key → Bool) (clog : Key → List (Ev V S X) → Log V) (ts : List (Key × Bool))
    (evs : List (Ev V S X)) : levelLog isFn clog (Ev.step ts :: evs) = levelLog isFn clog evs := rfl

theorem stepI_unfold (ops : ValOps V) (r : IRunner V S X) (sched : ISched V S X) (ls : LoopSt V S X) :
    stepI ops r sched ls =
      (Ev.step (stepTasks r ls) :: (runBodies r (runPres r ls.tasks ls.st).1 (runPres r ls.tasks ls.st).2).2.2,
       finishStep ops r ls.stale (coreOut ops r sched ls.cm
         (runBodies r (runPres r ls.tasks ls.st).1 (runPres r ls.tasks ls.st).2).1
         (runBodies r (runPres r ls.tasks ls.st).1 (runPres r ls.tasks ls.st).2).2.1)) := rfl

/-- the outputs of the restored graph nodes -/
def resOuts (r₀ : IRunner V S X) (z : V) (st : S) (subs : List (Key × X)) : List (Done V) :=
  subs.filterMap (fun kp =>
    match (bodyOne r₀ { key := kp.1, input := z, skipPre := true, sub := some kp.2 } st).res with
    | .done o _ => some (kp.1, o)
    | _ => none)

theorem runBodies_resumed_outs (r₀ : IRunner V S X) (z : V) : ∀ (subs : List (Key × X)) (st : S),
    (∀ kp ∈ subs, ∃ out, Resumes r₀ kp.1 kp.2 out) →
    doneList (runBodies r₀ (resTasks z subs) st).1 = resOuts r₀ z st subs := by
  intro subs
  induction subs with
  | nil => intro st _; rfl
  | cons kp rest ih =>
    intro st hres
    obtain ⟨out, hout⟩ := hres kp (by simp)
    have hb := hout z st true
    have hst : (bodyOne r₀ { key := kp.1, input := z, skipPre := true, sub := some kp.2 } st).res.st = st := by
      rw [hb]; rfl
    have := ih st (fun q hq => hres q (by simp [hq]))
    simp only [resTasks, List.map_cons, runBodies, resOuts, List.filterMap_cons, hb, doneList, BodyRes.st] at this ⊢
    rw [this]

theorem subsLog_perm (r₀ : IRunner V S X) (clog : Key → List (Ev V S X) → Log V) (z : V) (s : S)
    {a b : List (Key × X)} (h : a.Perm b) : (subsLog r₀ clog z s a).Perm (subsLog r₀ clog z s b) := by
  unfold subsLog
  exact List.Perm.flatMap_right _ h

/-- the superstep of the reference that re-enters the interrupted graph nodes -/
theorem resumed_step (ops : ValOps V) (isFn : Key → Bool) (clog : Key → List (Ev V S X) → Log V) (r₀ : IRunner V S X)
    (sched : ISched V S X) (hperm : ∀ l, (sched l).Perm l) (hnil : ∀ k, clog k [] = []) (z : V)
    (cm2 : Chans V) (subs : List (Key × X)) (sA : S) (hne : subs ≠ [])
    (hres : ∀ kp ∈ subs, ∃ out, Resumes r₀ kp.1 kp.2 out) (hfn : ∀ kp ∈ subs, isFn kp.1 = false) :
    (stepI ops r₀ sched { cm := cm2, tasks := resTasks z subs, st := sA, stale := [] }).2 =
      finishStep ops r₀ [] (coreOfNext
        (postDones r₀ (doneList (sched (runBodies r₀ (resTasks z subs) sA).1)) sA).1
        (nextOf ops r₀ cm2 (doneList (sched (runBodies r₀ (resTasks z subs) sA).1)) sA)) ∧
    levelLog isFn clog (stepI ops r₀ sched { cm := cm2, tasks := resTasks z subs, st := sA, stale := [] }).1 =
      subsLog r₀ clog z sA subs := by
  have hskip : runPres r₀ (resTasks z subs) sA = (resTasks z subs, sA) :=
    runPres_skip r₀ _ _ (fun t ht => by
      simp only [resTasks, List.mem_map] at ht
      obtain ⟨kp, _, rfl⟩ := ht
      rfl)
  obtain ⟨h1, h2, h3⟩ := runBodies_resumed isFn clog r₀ hnil z subs sA hres hfn
  rw [stepI_unfold]
  simp only [hskip, h1, levelLog_step_cons, h3]
  refine ⟨?_, trivial⟩
  have hall : AllDone (sched (runBodies r₀ (resTasks z subs) sA).1) :=
    fun x hx => h2 x ((hperm _).subset hx)
  have hne' : (sched (runBodies r₀ (resTasks z subs) sA).1).isEmpty = false := by
    cases hs : sched (runBodies r₀ (resTasks z subs) sA).1 with
    | cons a b => rfl
    | nil =>
      exfalso
      have hp := hperm (runBodies r₀ (resTasks z subs) sA).1
      rw [hs] at hp
      have hnil' := hp.symm.eq_nil
      have hk := runBodies_keys r₀ (resTasks z subs) sA
      rw [hnil'] at hk
      cases subs with
      | nil => exact hne rfl
      | cons a b => simp [resTasks] at hk
  rw [coreOut_allDone ops r₀ sched cm2 _ sA hall hne']

/-! ### hypotheses of one level, acceptable loop states -/

/-- **the split rule** (the compositional rule of the sub-graph interrupt path).  `C`: the completed tasks
    of a superstep in the order the uninterrupted run collects them; `A`: those that were collected
    before a nested interrupt was taken, `B`: the interrupted graph nodes as they complete after the
    resume.  Post-handlers of `A`, fold without `get`, then post-handlers of `B` and
    `calculateNextTasks` give what post-handlers of `C` and `calculateNextTasks` give.  Follows from
    `FoldThenGet` and `OrderInsens` (`splitOK_of`); both hold in any-predecessor mode with an
    order-insensitive merge and commuting post-handlers (Proofs/C05NestedEngine.lean). -/
def SplitOK (ops : ValOps V) (r : IRunner V S X) : Prop :=
  ∀ (cm : Chans V) (st : S) (A B C : List (Done V)) (res : Chans V × Next V × S),
    C.Perm (A ++ B) → (C.map (·.1)).Nodup → ModeInv r.base cm →
    nextOf ops r cm C st = .ok res →
    ∃ cm2, foldFin r.base cm (postDones r A st).1 = .ok cm2 ∧
      nextOf ops r cm2 B (postDones r A st).2 = .ok res

/-- what is assumed of one graph level and its completion order -/
structure LevelHyp (ops : ValOps V) (r : IRunner V S X) (sched : ISched V S X) : Prop where
  hnd : (akeys (initChans r.base)).Nodup
  hpred : ModeInv r.base (initChans r.base)
  perm : ∀ l, (sched l).Perm l
  split : SplitOK ops r

/-- loop states the simulation goes through: no inherited checkpoint, the channels of a fresh manager,
    the mode invariant, distinct task keys, acceptable nested checkpoints -/
structure LsOK (r : IRunner V S X) (XOK : Key → X → Prop) (ls : LoopSt V S X) : Prop where
  stale : ls.stale = []
  keys : ls.KeysOK r
  inv : ModeInv r.base ls.cm
  nodup : (ls.tasks.map (·.key)).Nodup
  subs : ∀ t ∈ ls.tasks, ∀ p, t.sub = some p → XOK t.key p

theorem lsOK_fresh_next (ops : ValOps V) (r : IRunner V S X) (XOK : Key → X → Prop) (hnd : (akeys (initChans r.base)).Nodup)
    (cm : Chans V) (hk : akeys cm = akeys (initChans r.base)) (hinv : ModeInv r.base cm) (d : List (Done V))
    (cm' : Chans V) (ts : List (Key × V)) (st : S) (h : calcNext ops r.base cm d = .ok (cm', .tasks ts)) :
    LsOK r XOK { cm := cm', tasks := mkTasks [] ts, st := st, stale := [] } ∧
    LoopSt.Fresh ({ cm := cm', tasks := mkTasks [] ts, st := st, stale := [] } : LoopSt V S X) := by
  refine ⟨⟨rfl, ?_, (quiet_mode ops r.base cm d cm' ts hinv h).1, ?_, ?_⟩, rfl, mkTasks_fresh ts⟩
  · show akeys cm' = akeys (initChans r.base)
    rw [calcNext_keys ops r.base cm d cm' _ h, hk]
  · show ((mkTasks [] ts).map (·.key)).Nodup
    rw [mkTasks_keys]
    exact calcNext_tasks_nodup ops r.base cm d cm' ts (by rw [hk]; exact hnd) h
  · intro t ht p hp
    rw [(mkTasks_fresh ts t ht).2] at hp
    cases hp

/-! ### one superstep: the run against the reference -/

section step
variable {isFn : Key → Bool} {XOK : Key → X → Prop} {clog : Key → List (Ev V S X) → Log V}
  {wt : Key → V → S → Option X → Nat} {r r₀ : IRunner V S X} {ops : ValOps V} {sched : ISched V S X}

/-- no graph node interrupted in this superstep: the run does what the reference does, or pauses
    exactly where the reference goes on -/
theorem core_same (hrel : LevelRel isFn XOK clog wt r r₀) (hyp : LevelHyp ops r sched)
    (cm : Chans V) (hk : akeys cm = akeys (initChans r.base)) (hinv : ModeInv r.base cm)
    (L : List (Key × BodyRes V S X)) (st2 : S)
    (hgood : (finishStep ops r₀ [] (coreOut ops r₀ sched cm L st2)).good) :
    match finishStep ops r₀ [] (coreOut ops r₀ sched cm L st2) with
    | .done v => finishStep ops r [] (coreOut ops r sched cm L st2) = .done v
    | .next ls' => ls'.Fresh ∧ LsOK r XOK ls' ∧
        (finishStep ops r [] (coreOut ops r sched cm L st2) = .next ls' ∨
         ∃ info, finishStep ops r [] (coreOut ops r sched cm L st2) = .intr ls'.toCP info)
    | _ => False := by
  rw [coreOut_shell hrel.shell] at hgood ⊢
  cases hc : coreOut ops r sched cm L st2 with
  | done v => simp [finishStep]
  | fail e => rw [hc] at hgood; exact hgood
  | sr a b c d e f => rw [hc] at hgood; exact hgood
  | next cm' ts dones st' =>
    rw [finishStep_noInt_next ops r₀ hrel.nb hrel.na]
    simp only
    obtain ⟨_, done, hcn⟩ := coreOut_next_keys ops r sched cm L st2 cm' ts dones st' hc
    obtain ⟨hok, hfresh⟩ := lsOK_fresh_next ops r XOK hyp.hnd cm hk hinv done cm' ts st' hcn
    refine ⟨hfresh, hok, ?_⟩
    have hq := (quiet_mode ops r.base cm done cm' ts hinv hcn).2
    rcases finishStep_next_cases ops r [] cm' ts dones st' hq with h | ⟨info, h⟩
    · left; exact h
    · right
      refine ⟨info, ?_⟩
      rw [h]
      simp only [LoopSt.toCP, mkTasks_inputs]

theorem subList_ne_nil_of_perm {l l' : List (Key × BodyRes V S X)} (h : l.Perm l') (hne : subList l ≠ []) :
    subList l' ≠ [] := by
  intro h'
  have := subList_perm h
  rw [h'] at this
  exact hne this.eq_nil

theorem resOuts_perm (r₀ : IRunner V S X) (z : V) (st : S) {a b : List (Key × X)} (h : a.Perm b) :
    (resOuts r₀ z st a).Perm (resOuts r₀ z st b) := by
  unfold resOuts
  exact h.filterMap _

/-- a graph node interrupted inside: the run returns the sub-graph interrupt; the reference,
    restored from that checkpoint, re-enters the interrupted graph nodes and then is where the
    reference superstep ends -/
theorem core_sub (hrel : LevelRel isFn XOK clog wt r r₀) (hyp : LevelHyp ops r sched) (cfg : Cfg)
    (hcfg : cfg.fwdStale = false)
    (cm : Chans V) (hk : akeys cm = akeys (initChans r.base)) (hinv : ModeInv r.base cm)
    (L L₀ : List (Key × BodyRes V S X)) (st2 : S)
    (hent : All₂ (EntryRel XOK r₀) L L₀) (hall : AllDone L₀) (hndk : (L₀.map (·.1)).Nodup)
    (hfn : ∀ kp ∈ subList L, isFn kp.1 = false) (hsub : subList L ≠ [])
    (hgood : (finishStep ops r₀ [] (coreOut ops r₀ sched cm L₀ st2)).good) :
    ∃ cp' info, finishStep ops r [] (coreOut ops r sched cm L st2) = .intr cp' info ∧
      LsOK r XOK (restore cfg r cp') ∧
      (stepI ops r₀ sched (restore cfg r cp')).2 = finishStep ops r₀ [] (coreOut ops r₀ sched cm L₀ st2) ∧
      ∃ s, (subsLog r₀ clog ops.zero s (subList L)).Perm
        (levelLog isFn clog (stepI ops r₀ sched (restore cfg r cp')).1) ∧
        stepWt wt r₀ (restore cfg r cp') = 1 + subsWt wt ops.zero s (subList L) := by
  have hpL := hyp.perm L
  have hpL₀ := hyp.perm L₀
  have hsubs_perm : (subList (sched L)).Perm (subList L) := subList_perm hpL
  have hsubs_ne : subList (sched L) ≠ [] := subList_ne_nil_of_perm hpL.symm hsub
  have hDS : DoneOrSub (sched L) := fun x hx => entries_doneOrSub hent hall x (hpL.subset hx)
  have hres_all : ∀ kp ∈ subList (sched L), XOK kp.1 kp.2 ∧ ∃ out, Resumes r₀ kp.1 kp.2 out :=
    fun kp hkp => entries_subs hent hall kp (hsubs_perm.subset hkp)
  have hres : ∀ kp ∈ subList (sched L), ∃ out, Resumes r₀ kp.1 kp.2 out := fun kp hkp => (hres_all kp hkp).2
  have hresL : ∀ kp ∈ subList L, ∃ out, Resumes r₀ kp.1 kp.2 out := fun kp hkp => (entries_subs hent hall kp hkp).2
  have hfn' : ∀ kp ∈ subList (sched L), isFn kp.1 = false := fun kp hkp => hfn kp (hsubs_perm.subset hkp)
  -- the reference superstep through `nextOf`
  have hallS₀ : AllDone (sched L₀) := fun x hx => hall x (hpL₀.subset hx)
  have hLne : L₀ ≠ [] := by
    intro h0
    rw [h0] at hent
    cases hent
    exact hsub rfl
  have hne₀ : (sched L₀).isEmpty = false := by
    cases hs : sched L₀ with
    | cons a b => rfl
    | nil => rw [hs] at hpL₀; exact absurd hpL₀.symm.eq_nil hLne
  rw [coreOut_allDone ops r₀ sched cm L₀ st2 hallS₀ hne₀] at hgood ⊢
  rw [nextOf_shell hrel.shell] at hgood ⊢
  cases hnx : nextOf ops r cm (doneList (sched L₀)) st2 with
  | error e => rw [hnx] at hgood; exact absurd hgood (by simp [coreOfNext, finishStep, StepOut.good])
  | ok res =>
    -- the split
    have hperm : (doneList (sched L₀)).Perm
        (doneList (sched L) ++ doneList (sched (runBodies r₀ (resTasks ops.zero (subList (sched L)))
          (postDones r (doneList (sched L)) st2).2).1)) := by
      refine (doneList_perm hpL₀).trans ?_
      refine (entries_split hent hall ops.zero (postDones r (doneList (sched L)) st2).2).trans ?_
      refine List.Perm.append (doneList_perm hpL).symm ?_
      rw [runBodies_resumed_outs r₀ ops.zero _ _ hresL]
      refine (resOuts_perm r₀ _ _ hsubs_perm.symm).trans ?_
      rw [← runBodies_resumed_outs r₀ ops.zero _ _ hres]
      exact (doneList_perm (hyp.perm _)).symm
    have hndC : ((doneList (sched L₀)).map (·.1)).Nodup :=
      (doneList_keys_sublist (sched L₀)).nodup ((hpL₀.map _).nodup_iff.2 hndk)
    obtain ⟨cm2, hfold, hnext⟩ := hyp.split cm st2 _ _ _ res hperm hndC hinv hnx
    -- what the run does
    have hcore : coreOut ops r sched cm L st2 =
        .sr cm2 ((subList (sched L)).map (·.1)) (subList (sched L)) []
          (postDones r (doneList (sched L)) st2).1 (postDones r (doneList (sched L)) st2).2 := by
      rw [coreOut_view ops r sched cm L st2 hDS]
      have hc : (!(subList (sched L)).isEmpty) = true := by
        cases hh : subList (sched L) with
        | nil => exact absurd hh hsubs_ne
        | cons a b => rfl
      rw [if_pos hc, hfold]
    rw [hcore]
    simp only [finishStep]
    refine ⟨_, _, rfl, ?_⟩
    -- the restored loop state
    have hk2 : akeys cm2 = akeys (initChans r.base) := by rw [foldFin_keys _ _ _ _ hfold, hk]
    have hnds : ((subList (sched L)).map (·.1)).Nodup := by
      refine (subList_keys_sublist (sched L)).nodup ?_
      refine (hpL.map _).nodup_iff.2 ?_
      rw [entries_keys hent]
      exact hndk
    have hrestore : restore cfg r
        { chans := cm2, inputs := ((subList (sched L)).map (·.1)).map (fun k => (k, ops.zero)),
          skipPre := (subList (sched L)).map (·.1), state := (postDones r (doneList (sched L)) st2).2,
          subs := subList (sched L) } =
        { cm := cm2, tasks := resTasks ops.zero (subList (sched L)),
          st := (postDones r (doneList (sched L)) st2).2, stale := [] } := by
      simp only [restore, hcfg, Bool.false_eq_true, ite_false, loadChans_same _ _ hk2 hyp.hnd,
        restoreTasks_subs ops.zero _ hnds]
    rw [hrestore]
    obtain ⟨hst, hlog⟩ := resumed_step ops isFn clog r₀ sched hyp.perm hrel.clogNil ops.zero cm2
      (subList (sched L)) (postDones r (doneList (sched L)) st2).2 hsubs_ne hres hfn'
    refine ⟨⟨rfl, hk2, foldFin_inv _ _ _ _ hinv hfold, ?_, ?_⟩, ?_, (postDones r (doneList (sched L)) st2).2, ?_⟩
    · show ((resTasks ops.zero (subList (sched L))).map (·.key)).Nodup
      simp only [resTasks, List.map_map]
      exact hnds
    · intro t ht p hp
      simp only [resTasks, List.mem_map] at ht
      obtain ⟨kp, hkp, rfl⟩ := ht
      simp only [Option.some.injEq] at hp
      subst hp
      exact (hres_all kp hkp).1
    · rw [hst, nextOf_shell hrel.shell, hnext]
      exact finishStep_noInt_coreOfNext ops r₀ hrel.nb hrel.na [] _ _ _
    · rw [hlog]
      refine ⟨subsLog_perm r₀ clog _ _ hsubs_perm.symm, ?_⟩
      have hskip : runPres r₀ (resTasks ops.zero (subList (sched L))) (postDones r (doneList (sched L)) st2).2 =
          (resTasks ops.zero (subList (sched L)), (postDones r (doneList (sched L)) st2).2) :=
        runPres_skip r₀ _ _ (fun t ht => by
          simp only [resTasks, List.mem_map] at ht
          obtain ⟨kp, _, rfl⟩ := ht
          rfl)
      simp only [stepWt, hskip]
      rw [← subsWt_perm wt _ _ hsubs_perm]
      unfold resTasks
      rw [tasksWt_resumed wt r₀ ops.zero _ _ hres]

/-- **one superstep.**  Where the reference superstep goes on or returns the result, the run either
    does the same (or pauses at a before/after interrupt exactly there), or returns a sub-graph
    interrupt from whose checkpoint the reference reaches the same point. -/
theorem step_sim (hrel : LevelRel isFn XOK clog wt r r₀) (hyp : LevelHyp ops r sched) (cfg : Cfg)
    (hcfg : cfg.fwdStale = false) (ls : LoopSt V S X) (hok : LsOK r XOK ls)
    (hgood : (stepI ops r₀ sched ls).2.good) :
    ((levelLog isFn clog (stepI ops r₀ sched ls).1).Perm (levelLog isFn clog (stepI ops r sched ls).1) ∧
      match (stepI ops r₀ sched ls).2 with
      | .done v => (stepI ops r sched ls).2 = .done v
      | .next ls' => ls'.Fresh ∧ LsOK r XOK ls' ∧
          ((stepI ops r sched ls).2 = .next ls' ∨ ∃ info, (stepI ops r sched ls).2 = .intr ls'.toCP info)
      | _ => False)
    ∨ (∃ cp' info, (stepI ops r sched ls).2 = .intr cp' info ∧ LsOK r XOK (restore cfg r cp') ∧
        (stepI ops r₀ sched (restore cfg r cp')).2 = (stepI ops r₀ sched ls).2 ∧
        (levelLog isFn clog (stepI ops r₀ sched ls).1).Perm
          (levelLog isFn clog (stepI ops r sched ls).1 ++
            levelLog isFn clog (stepI ops r₀ sched (restore cfg r cp')).1) ∧
        stepWt wt r₀ (restore cfg r cp') < stepWt wt r₀ ls) := by
  have hp : runPres r₀ ls.tasks ls.st = runPres r ls.tasks ls.st := runPres_shell hrel.shell _ _
  rw [stepI_unfold ops r₀, stepI_unfold ops r] at *
  simp only [hp, hok.stale, levelLog_step_cons] at hgood ⊢
  have hall : AllDone (runBodies r₀ (runPres r ls.tasks ls.st).1 (runPres r ls.tasks ls.st).2).1 :=
    good_allDone ops r₀ sched hyp.perm [] ls.cm _ _ hgood
  have hxT : ∀ t ∈ (runPres r ls.tasks ls.st).1, ∀ p, t.sub = some p → XOK t.key p := by
    intro t ht p hp'
    obtain ⟨t0, h0, hk0, hs0⟩ := (runPres_keys_subs r ls.tasks ls.st).2 t ht
    rw [hk0]
    exact hok.subs t0 h0 p (by rw [← hs0]; exact hp')
  obtain ⟨hs2, hent, hlog, hwt⟩ := runBodies_sim hrel _ _ hxT hall
  have hndk : ((runBodies r₀ (runPres r ls.tasks ls.st).1 (runPres r ls.tasks ls.st).2).1.map (·.1)).Nodup := by
    rw [runBodies_keys, (runPres_keys_subs r ls.tasks ls.st).1]
    exact hok.nodup
  by_cases hsub : subList (runBodies r (runPres r ls.tasks ls.st).1 (runPres r ls.tasks ls.st).2).1 = []
  · left
    have heq := entries_eq_of_noSub hent hsub
    refine ⟨?_, ?_⟩
    · have := hlog ops.zero ls.st
      rw [hsub] at this
      simpa [subsLog] using this
    · rw [heq, hs2]
      exact core_same hrel hyp ls.cm hok.keys hok.inv _ _ hgood
  · right
    rw [hs2]
    obtain ⟨cp', info, h1, h2, h3, s, h4, h5⟩ := core_sub hrel hyp cfg hcfg ls.cm hok.keys hok.inv _ _ _ hent hall hndk
      (runBodies_fn_noSub hrel _ _) hsub hgood
    refine ⟨cp', info, h1, h2, h3, (hlog ops.zero s).trans (List.Perm.append_left _ h4), ?_⟩
    have hw := hwt ops.zero s
    have hlen : 0 < (subList (runBodies r (runPres r ls.tasks ls.st).1 (runPres r ls.tasks ls.st).2).1).length :=
      List.length_pos_iff.2 hsub
    rw [h5]
    simp only [stepWt, hp]
    omega

end step

/-! ### one call: the run against the reference -/

theorem loopI_fuel_mono (ops : ValOps V) (r : IRunner V S X) (sched : ISched V S X) (a b : Bool) (v : V) :
    ∀ (n m : Nat) (ls : LoopSt V S X), (loopI ops r sched a b n ls).res = .done v → n ≤ m →
      loopI ops r sched a b m ls = loopI ops r sched a b n ls := by
  intro n
  induction n with
  | zero => intro m ls h; simp [loopI] at h
  | succ n ih =>
    intro m ls h hm
    obtain ⟨m', rfl⟩ : ∃ m', m = m' + 1 := ⟨m - 1, by omega⟩
    unfold loopI at h ⊢
    split
    · rfl
    · rfl
    · rfl
    · rename_i ls' hnext
      simp only [hnext] at h
      rw [ih m' ls' h (by omega)]

/-- two loop states whose supersteps end the same way: the calls end the same way, with the same
    events after the first superstep -/
theorem loopI_of_step_eq (ops : ValOps V) (r : IRunner V S X) (sched : ISched V S X) (a b : Bool) (n : Nat)
    (ls₁ ls₂ : LoopSt V S X) (h : (stepI ops r sched ls₁).2 = (stepI ops r sched ls₂).2) :
    (loopI ops r sched a b (n + 1) ls₁).res = (loopI ops r sched a b (n + 1) ls₂).res ∧
    ∃ T, (loopI ops r sched a b (n + 1) ls₁).evs = (stepI ops r sched ls₁).1 ++ T ∧
         (loopI ops r sched a b (n + 1) ls₂).evs = (stepI ops r sched ls₂).1 ++ T := by
  unfold loopI
  rw [h]
  cases (stepI ops r sched ls₂).2 with
  | done v => exact ⟨rfl, [], by simp, by simp⟩
  | fail e => exact ⟨rfl, [], by simp, by simp⟩
  | intr cp info => exact ⟨rfl, _, rfl, rfl⟩
  | next ls' => exact ⟨rfl, _, rfl, rfl⟩

theorem restore_shell {r r₀ : IRunner V S X} (h : SameShell r r₀) (cfg : Cfg) (cp : Checkpoint V S X) :
    restore cfg r₀ cp = restore cfg r cp := by
  simp only [restore, h.base]

theorem loopWt_fuel_mono (ops : ValOps V) (wt : Key → V → S → Option X → Nat) (r : IRunner V S X) (sched : ISched V S X)
    (a b : Bool) (v : V) :
    ∀ (n m : Nat) (ls : LoopSt V S X), (loopI ops r sched a b n ls).res = .done v → n ≤ m →
      loopWt ops wt r sched m ls = loopWt ops wt r sched n ls := by
  intro n
  induction n with
  | zero => intro m ls h; simp [loopI] at h
  | succ n ih =>
    intro m ls h hm
    obtain ⟨m', rfl⟩ : ∃ m', m = m' + 1 := ⟨m - 1, by omega⟩
    unfold loopI at h
    unfold loopWt
    cases hs : (stepI ops r sched ls).2 with
    | next ls' =>
      simp only [hs] at h ⊢
      rw [ih m' ls' h (by omega)]
    | done v' => rfl
    | fail e => rfl
    | intr cp info => rfl

theorem loopWt_of_step_eq (ops : ValOps V) (wt : Key → V → S → Option X → Nat) (r : IRunner V S X) (sched : ISched V S X)
    (n : Nat) (ls₁ ls₂ : LoopSt V S X) (h : (stepI ops r sched ls₁).2 = (stepI ops r sched ls₂).2) :
    ∃ T, loopWt ops wt r sched (n + 1) ls₁ = stepWt wt r ls₁ + T ∧
         loopWt ops wt r sched (n + 1) ls₂ = stepWt wt r ls₂ + T := by
  unfold loopWt
  rw [h]
  exact ⟨_, rfl, rfl⟩

section call
variable {isFn : Key → Bool} {XOK : Key → X → Prop} {clog : Key → List (Ev V S X) → Log V}
  {wt : Key → V → S → Option X → Nat} {r r₀ : IRunner V S X} {ops : ValOps V} {sched : ISched V S X}

/-- **what a call of the run is, against a reference call that returned `v`** (`refLog`: what the
    reference logged, `w`: its work).  It returned `v` and logged the same executions; or it returned an
    interrupt whose checkpoint is acceptable, from which the reference returns `v`, logging what the
    reference logged minus what this call already logged, with strictly less work.  It did not fail. -/
def SimOut (ops : ValOps V) (cfg : Cfg) (isFn : Key → Bool) (XOK : Key → X → Prop) (clog : Key → List (Ev V S X) → Log V)
    (wt : Key → V → S → Option X → Nat)
    (r r₀ : IRunner V S X) (sched : ISched V S X) (s0 h0 : Bool) (v : V) (refLog : Log V) (w : Nat) (o : Out V S X) : Prop :=
  match o.res with
  | .done v' => v' = v ∧ refLog.Perm (levelLog isFn clog o.evs)
  | .failed _ => False
  | .interrupted cp' _ => LsOK r XOK (restore cfg r cp') ∧
      (runI ops cfg r₀ sched s0 h0 (.inr cp')).res = .done v ∧
      refLog.Perm (levelLog isFn clog o.evs ++ levelLog isFn clog (runI ops cfg r₀ sched s0 h0 (.inr cp')).evs) ∧
      callWt ops cfg wt r₀ sched (.inr cp') < w

theorem simOut_prefix (cfg : Cfg) (s0 h0 : Bool) (v : V) (refLog pre₀ : Log V) (w w₀ : Nat) (preEvs : List (Ev V S X))
    (o : Out V S X) (hpre : pre₀.Perm (levelLog isFn clog preEvs))
    (h : SimOut ops cfg isFn XOK clog wt r r₀ sched s0 h0 v refLog w o) :
    SimOut ops cfg isFn XOK clog wt r r₀ sched s0 h0 v (pre₀ ++ refLog) (w₀ + w) { res := o.res, evs := preEvs ++ o.evs } := by
  unfold SimOut at h ⊢
  cases hres : o.res with
  | done v' =>
    rw [hres] at h
    simp only at h ⊢
    exact ⟨h.1, by rw [levelLog_append]; exact List.Perm.append hpre h.2⟩
  | failed e => rw [hres] at h; exact h
  | interrupted cp' info =>
    rw [hres] at h
    simp only at h ⊢
    refine ⟨h.1, h.2.1, ?_, by have := h.2.2.2; omega⟩
    rw [levelLog_append, List.append_assoc]
    exact List.Perm.append hpre h.2.2.1

theorem loop_sim (hrel : LevelRel isFn XOK clog wt r r₀) (hyp : LevelHyp ops r sched) (cfg : Cfg)
    (hcfg : cfg.fwdStale = false) (isSub hasID s0 h0 : Bool) (v : V) :
    ∀ (n k : Nat) (ls : LoopSt V S X), n ≤ k → n ≤ r.base.fuel → LsOK r XOK ls →
      (loopI ops r₀ sched s0 h0 n ls).res = .done v →
      SimOut ops cfg isFn XOK clog wt r r₀ sched s0 h0 v (levelLog isFn clog (loopI ops r₀ sched s0 h0 n ls).evs)
        (loopWt ops wt r₀ sched n ls) (loopI ops r sched isSub hasID k ls) := by
  intro n
  induction n with
  | zero => intro k ls _ _ _ h; simp [loopI] at h
  | succ m ih =>
    intro k ls hk hfuel hok href
    obtain ⟨k', rfl⟩ : ∃ k', k = k' + 1 := ⟨k - 1, by omega⟩
    have hrun : ∀ cp', runI ops cfg r₀ sched s0 h0 (.inr cp') =
        loopI ops r₀ sched s0 h0 r.base.fuel (restore cfg r cp') := by
      intro cp'; simp only [runI, restore_shell hrel.shell, hrel.shell.base]
    have hcw : ∀ cp', callWt ops cfg wt r₀ sched (.inr cp') =
        loopWt ops wt r₀ sched r.base.fuel (restore cfg r cp') := by
      intro cp'; simp only [callWt, restore_shell hrel.shell, hrel.shell.base]
    have hgood : (stepI ops r₀ sched ls).2.good := by
      unfold loopI at href
      cases hs : (stepI ops r₀ sched ls).2 with
      | done v' => trivial
      | next ls' => trivial
      | fail e => simp [hs] at href
      | intr cp info => simp [hs] at href
    rcases step_sim hrel hyp cfg hcfg ls hok hgood with ⟨hlog, hcase⟩ | ⟨cp', info, hintr, hok', hsame, hlog, hwlt⟩
    · cases hs : (stepI ops r₀ sched ls).2 with
      | fail e => rw [hs] at hgood; exact absurd hgood (by simp [StepOut.good])
      | intr cp info => rw [hs] at hgood; exact absurd hgood (by simp [StepOut.good])
      | done v' =>
        rw [hs] at hcase
        simp only at hcase
        have h0' : loopI ops r₀ sched s0 h0 (m + 1) ls = { res := .done v', evs := (stepI ops r₀ sched ls).1 } := by
          rw [loopI]; simp only [hs]
        have h1 : loopI ops r sched isSub hasID (k' + 1) ls = { res := .done v', evs := (stepI ops r sched ls).1 } := by
          rw [loopI]; simp only [hcase]
        rw [h0'] at href ⊢
        rw [h1]
        injection href with href
        exact ⟨href, hlog⟩
      | next ls' =>
        rw [hs] at hcase
        simp only at hcase
        obtain ⟨hfresh, hokn, hcases⟩ := hcase
        have h0' : loopI ops r₀ sched s0 h0 (m + 1) ls =
            { res := (loopI ops r₀ sched s0 h0 m ls').res,
              evs := (stepI ops r₀ sched ls).1 ++ (loopI ops r₀ sched s0 h0 m ls').evs } := by
          rw [loopI]; simp only [hs]
        have hw0 : loopWt ops wt r₀ sched (m + 1) ls = stepWt wt r₀ ls + loopWt ops wt r₀ sched m ls' := by
          rw [loopWt]; simp only [hs]
        rw [h0'] at href ⊢
        simp only at href
        rw [levelLog_append, hw0]
        rcases hcases with hnext | ⟨info, hintr⟩
        · have h1 : loopI ops r sched isSub hasID (k' + 1) ls =
              { res := (loopI ops r sched isSub hasID k' ls').res,
                evs := (stepI ops r sched ls).1 ++ (loopI ops r sched isSub hasID k' ls').evs } := by
            rw [loopI]; simp only [hnext]
          rw [h1]
          exact simOut_prefix cfg s0 h0 v _ _ _ _ _ _ hlog (ih k' ls' (by omega) (by omega) hokn href)
        · have h1 : loopI ops r sched isSub hasID (k' + 1) ls =
              { res := .interrupted ls'.toCP info, evs := (stepI ops r sched ls).1 ++ intrEvs isSub hasID info } := by
            rw [loopI]; simp only [hintr]
          rw [h1]
          have hrest : restore cfg r ls'.toCP = ls' := restore_toCP cfg r ls' hcfg hfresh hokn.keys hyp.hnd
          have hmono := loopI_fuel_mono ops r₀ sched s0 h0 v m r.base.fuel ls' href (by omega)
          have hwmono := loopWt_fuel_mono ops wt r₀ sched s0 h0 v m r.base.fuel ls' href (by omega)
          simp only [SimOut, hrun, hcw, hrest, hmono, hwmono]
          refine ⟨hokn, href, ?_, by simp only [stepWt]; omega⟩
          rw [levelLog_append, levelLog_intrEvs, List.append_nil]
          exact List.Perm.append_right _ hlog
    · have h1 : loopI ops r sched isSub hasID (k' + 1) ls =
          { res := .interrupted cp' info, evs := (stepI ops r sched ls).1 ++ intrEvs isSub hasID info } := by
        rw [loopI]; simp only [hintr]
      rw [h1]
      obtain ⟨hres, T, hT1, hT2⟩ := loopI_of_step_eq ops r₀ sched s0 h0 m (restore cfg r cp') ls hsame
      obtain ⟨W, hW1, hW2⟩ := loopWt_of_step_eq ops wt r₀ sched m (restore cfg r cp') ls hsame
      rw [href] at hres
      have hmono := loopI_fuel_mono ops r₀ sched s0 h0 v (m + 1) r.base.fuel (restore cfg r cp') hres hfuel
      have hwmono := loopWt_fuel_mono ops wt r₀ sched s0 h0 v (m + 1) r.base.fuel (restore cfg r cp') hres hfuel
      simp only [SimOut, hrun, hcw, hmono, hwmono]
      refine ⟨hok', hres, ?_, by omega⟩
      rw [hT1, hT2, levelLog_append, levelLog_append, levelLog_append, levelLog_intrEvs, List.append_nil,
        ← List.append_assoc]
      exact List.Perm.append_right _ hlog

/-- acceptable inputs of a call: any fresh input; a checkpoint that restores to an acceptable loop state -/
def InpOK (cfg : Cfg) (r : IRunner V S X) (XOK : Key → X → Prop) : V ⊕ Checkpoint V S X → Prop
  | .inl _ => True
  | .inr cp => LsOK r XOK (restore cfg r cp)

/-- **one call.**  If the reference, on this input or from this checkpoint, returns `v`, the run on the
    same input / checkpoint returns `v` too, or returns an interrupt from whose checkpoint the reference
    returns `v` — "the reference run = this call, then the reference run from the checkpoint" — and the
    work of the reference from that checkpoint is strictly less than its work on this input. -/
theorem call_sim (hrel : LevelRel isFn XOK clog wt r r₀) (hyp : LevelHyp ops r sched) (cfg : Cfg)
    (hcfg : cfg.fwdStale = false) (isSub hasID s0 h0 : Bool) (v : V) (inp : V ⊕ Checkpoint V S X)
    (hinp : InpOK cfg r XOK inp) (href : (runI ops cfg r₀ sched s0 h0 inp).res = .done v) :
    SimOut ops cfg isFn XOK clog wt r r₀ sched s0 h0 v (levelLog isFn clog (runI ops cfg r₀ sched s0 h0 inp).evs)
      (callWt ops cfg wt r₀ sched inp) (runI ops cfg r sched isSub hasID inp) := by
  cases inp with
  | inr cp =>
    simp only [runI, callWt, restore_shell hrel.shell, hrel.shell.base] at href ⊢
    exact loop_sim hrel hyp cfg hcfg isSub hasID s0 h0 v _ _ _ (Nat.le_refl _) (Nat.le_refl _) hinp href
  | inl x =>
    simp only [runI, callWt, hrel.shell.base, hrel.shell.init, hrel.nb, hitKeys_nil_keys] at href ⊢
    cases hcn : calcNext ops r.base (initChans r.base) [(START, x)] with
    | error e => simp [hcn] at href
    | ok q =>
      obtain ⟨cm, nx⟩ := q
      cases nx with
      | result v' =>
        simp only [hcn] at href ⊢
        injection href with href
        exact ⟨href, List.Perm.refl _⟩
      | tasks ts =>
        simp only [hcn, List.isEmpty_nil, Bool.not_true, Bool.and_false, Bool.false_eq_true, ite_false] at href ⊢
        obtain ⟨hok0, hfresh0⟩ := lsOK_fresh_next ops r XOK hyp.hnd (initChans r.base) rfl hyp.hpred
          [(START, x)] cm ts r.initState hcn
        split
        · -- the tasks computed from START hit the interrupt-before list
          have hcp : (simpleCP cm ts r.initState : Checkpoint V S X) =
              ({ cm := cm, tasks := mkTasks [] ts, st := r.initState, stale := [] } : LoopSt V S X).toCP := by
            simp only [LoopSt.toCP, mkTasks_inputs]
          have hrest := restore_toCP cfg r _ hcfg hfresh0 hok0.keys hyp.hnd
          simp only [SimOut, runI, callWt, restore_shell hrel.shell, hrel.shell.base, hcp, hrest]
          refine ⟨hok0, href, ?_, by omega⟩
          rw [levelLog_intrEvs]
          exact List.Perm.refl _
        · have := loop_sim hrel hyp cfg hcfg isSub hasID s0 h0 v _ _ _ (Nat.le_refl _) (Nat.le_refl _) hok0 href
          have h2 := simOut_prefix (isFn := isFn) (clog := clog) cfg s0 h0 v _ [] _ 1 [] _ (List.Perm.refl _) this
          simpa using h2

end call

/-! ### from the call of a nested runner to the body of the node that contains it -/

/-- what the nested run is started on -/
def subInp (cd : SubCodec V S X) (v : V) (x : Option X) : V ⊕ Checkpoint V S X :=
  match x with | some p => .inr (cd.cp p) | none => .inl v

theorem subBody_evs (ops : ValOps V) (cfg : Cfg) (cd : SubCodec V S X) (c : IRunner V S X) (sc : ISched V S X)
    (v : V) (st : S) (x : Option X) :
    (subBody ops cfg cd c sc v st x).evs = (runI ops cfg c sc true false (subInp cd v x)).evs := by
  show (match (runI ops cfg c sc true false (subInp cd v x)).res with
    | .done out => ({ res := .done out st, evs := (runI ops cfg c sc true false (subInp cd v x)).evs } : BodyOut V S X)
    | .interrupted cp info => { res := .subInt (cd.pack cp info) st, evs := (runI ops cfg c sc true false (subInp cd v x)).evs }
    | .failed e => { res := .fail e st, evs := (runI ops cfg c sc true false (subInp cd v x)).evs }).evs = _
  split <;> rfl

theorem subBody_res (ops : ValOps V) (cfg : Cfg) (cd : SubCodec V S X) (c : IRunner V S X) (sc : ISched V S X)
    (v : V) (st : S) (x : Option X) :
    (subBody ops cfg cd c sc v st x).res =
      (match (runI ops cfg c sc true false (subInp cd v x)).res with
       | .done out => .done out st
       | .interrupted cp info => .subInt (cd.pack cp info) st
       | .failed e => .fail e st) := by
  show (match (runI ops cfg c sc true false (subInp cd v x)).res with
    | .done out => ({ res := .done out st, evs := (runI ops cfg c sc true false (subInp cd v x)).evs } : BodyOut V S X)
    | .interrupted cp info => { res := .subInt (cd.pack cp info) st, evs := (runI ops cfg c sc true false (subInp cd v x)).evs }
    | .failed e => { res := .fail e st, evs := (runI ops cfg c sc true false (subInp cd v x)).evs }).res = _
  split <;> simp_all

theorem pfxLog_perm {k : Key} {a b : Log V} (h : a.Perm b) : (pfxLog k a).Perm (pfxLog k b) := h.map _

theorem pfxLog_append (k : Key) (a b : Log V) : pfxLog k (a ++ b) = pfxLog k a ++ pfxLog k b := by
  simp [pfxLog]

/-- the statement of `call_sim` for a nested runner (run as a sub-graph) -/
def CallSim (ops : ValOps V) (cfg : Cfg) (isFn : Key → Bool) (XOK : Key → X → Prop) (clog : Key → List (Ev V S X) → Log V)
    (wt : Key → V → S → Option X → Nat) (c c₀ : IRunner V S X) (sc : ISched V S X) : Prop :=
  ∀ inp, InpOK cfg c XOK inp → ∀ v, (runI ops cfg c₀ sc true false inp).res = .done v →
    SimOut ops cfg isFn XOK clog wt c c₀ sc true false v
      (levelLog isFn clog (runI ops cfg c₀ sc true false inp).evs) (callWt ops cfg wt c₀ sc inp)
      (runI ops cfg c sc true false inp)

/-- **nesting step.**  If the calls of a nested runner simulate its reference, the graph node that
    contains it simulates the graph node that contains the reference; a nested checkpoint is acceptable
    when it restores to an acceptable loop state of the nested runner; the work of the node is the work
    of the nested reference call. -/
theorem subBody_sim (ops : ValOps V) (cfg : Cfg) (cd : SubCodec V S X) (hcd : ∀ cp info, cd.cp (cd.pack cp info) = cp)
    (isFn : Key → Bool) (XOK : Key → X → Prop) (clog : Key → List (Ev V S X) → Log V)
    (wt : Key → V → S → Option X → Nat)
    (c c₀ : IRunner V S X) (sc : ISched V S X) (k : Key)
    (h : CallSim ops cfg isFn XOK clog wt c c₀ sc) :
    BodySim (fun p => LsOK c XOK (restore cfg c (cd.cp p)))
      (fun evs => pfxLog k (levelLog isFn clog evs))
      (fun v _ x => callWt ops cfg wt c₀ sc (subInp cd v x))
      (subBody ops cfg cd c sc) (subBody ops cfg cd c₀ sc) := by
  intro v s x hx out s₁ h0
  have hinp : InpOK cfg c XOK (subInp cd v x) := by
    cases x with
    | none => trivial
    | some p => exact hx p rfl
  rw [subBody_res] at h0
  cases h0r : (runI ops cfg c₀ sc true false (subInp cd v x)).res with
  | failed e => rw [h0r] at h0; cases h0
  | interrupted cp info => rw [h0r] at h0; cases h0
  | done out' =>
    rw [h0r] at h0
    injection h0 with ho hs
    subst ho hs
    have hsim := h (subInp cd v x) hinp out' h0r
    simp only [subBody_evs, subBody_res]
    unfold SimOut at hsim
    cases hr : (runI ops cfg c sc true false (subInp cd v x)).res with
    | failed e => rw [hr] at hsim; exact absurd hsim id
    | done v' =>
      rw [hr] at hsim
      left
      exact ⟨by rw [hsim.1], pfxLog_perm hsim.2⟩
    | interrupted cp' info =>
      rw [hr] at hsim
      obtain ⟨hok, hres, hlog, hw⟩ := hsim
      right
      refine ⟨by first | rfl | trivial, cd.pack cp' info, rfl, by rw [hcd]; exact hok, fun v' s' => ?_⟩
      have hi : subInp cd v' (some (cd.pack cp' info)) = .inr cp' := by simp [subInp, hcd]
      rw [hi, hres]
      refine ⟨by first | rfl | trivial, hw, ?_⟩
      rw [← pfxLog_append]
      exact pfxLog_perm hlog

end EinoV.Interrupt
