/-
  C05 / C06 — concrete nested runners used by the non-vacuity `example`s of Props/C05.lean and
  Props/C06.lean (definitions and the proofs that they satisfy the hypotheses of the nested theorems;
  no property statements here).
-/
import EinoV.Model.C05Nested
import EinoV.Model.GraphBuild
import EinoV.Proofs.C05NestedDepth
import EinoV.Proofs.C06Nested

namespace EinoV.NestedEx
open EinoV.Engine EinoV.Interrupt

def natOps : ValOps Nat := { merge := fun l => some l.sum, zero := 0 }
def fixedCfg : Cfg := { initialTasksChecked := true, fwdStale := false }


/-- what an interrupted nested graph hands to its parent (as in Oracle/C05GraphCase.lean) -/
inductive Pay where
  | mk (cp : Checkpoint Nat Nat Pay) (info : Info Nat Pay)

def Pay.cp : Pay → Checkpoint Nat Nat Pay | .mk c _ => c
def Pay.info : Pay → Info Nat Pay | .mk _ i => i
def payCodec : SubCodec Nat Nat Pay := ⟨Pay.mk, Pay.cp, Pay.info⟩

/-- start → a → c → end, interrupt-after {a}, interrupt-before {c}; state counts -/
def inner : NR Nat Nat Pay 0 :=
  ({ base := compile 10 { nodes := [("a", fun v => .ok v), ("c", fun v => .ok v)],
                          edges := [(START, "a"), ("a", "c"), ("c", END)], branches := [] },
     nodes := [{ key := "a", body := .fn (fun v s => (.ok (v + 1), s + 1)), pre := some (fun v s => (v + s, s)) },
               { key := "c", body := .fn (fun v s => (.ok (v * 2), s)) }],
     intBefore := ["c"], intAfter := ["a"], initState := 0 } : NLevel Nat Nat Pay Empty)

/-- start → g, start → p; g, p → j → end.  `g` is the graph `inner` and interrupts inside while its
    sibling `p` completes (so `p` is folded into `j`'s channel before the interrupt); interrupt-before {j} -/
def outer : NR Nat Nat Pay 1 :=
  ({ base := compile 10 { nodes := [("g", fun v => .ok v), ("p", fun v => .ok v), ("j", fun v => .ok v)],
                          edges := [(START, "g"), (START, "p"), ("g", "j"), ("p", "j"), ("j", END)], branches := [] },
     nodes := [{ key := "g", body := .graph inner ISched.id },
               { key := "p", body := .fn (fun v s => (.ok (v + 10), s + 100)) },
               { key := "j", body := .fn (fun v s => (.ok (v + s), s)) }],
     intBefore := ["j"], initState := 5 } : NLevel Nat Nat Pay (NR Nat Nat Pay 0))

/-- start → h → end and start → q → end, `h` is the graph `outer` (itself containing `inner`), completion
    order reversed at this level -/
def outer2 : NR Nat Nat Pay 2 :=
  ({ base := compile 10 { nodes := [("h", fun v => .ok v), ("q", fun v => .ok v)],
                          edges := [(START, "h"), (START, "q"), ("h", END), ("q", END)], branches := [] },
     nodes := [{ key := "h", body := .graph outer ISched.id },
               { key := "q", body := .fn (fun v s => (.ok (v + 1000), s)) }],
     intAfter := ["q"], initState := 0 } : NLevel Nat Nat Pay (NR Nat Nat Pay 1))

def revSched : ISched Nat Nat Pay := fun l => l.reverse

theorem natOps_mergePerm : MergePerm natOps := by
  intro l l' h
  simp [natOps, h.sum_nat]

theorem inner_hyp (sc : ISched Nat Nat Pay) (hp : ∀ l, (sc l).Perm l) : NR.Hyp natOps fixedCfg payCodec 0 inner sc :=
  levelHyp_pregel natOps natOps_mergePerm _ sc rfl (by decide) hp
    (NLevel.noPost natOps fixedCfg payCodec _ inner (by decide))

theorem outer_hyp (sc : ISched Nat Nat Pay) (hp : ∀ l, (sc l).Perm l) : NR.Hyp natOps fixedCfg payCodec 1 outer sc := by
  refine ⟨levelHyp_pregel natOps natOps_mergePerm _ sc rfl (by decide) hp
    (NLevel.noPost natOps fixedCfg payCodec _ outer (by decide)), ?_⟩
  intro n hn c sc' hb
  simp only [outer, List.mem_cons, List.not_mem_nil, or_false] at hn
  rcases hn with rfl | rfl | rfl
  · injection hb with h1 h2
    subst h1 h2
    exact inner_hyp _ (fun l => List.Perm.refl l)
  · cases hb
  · cases hb

theorem outer2_hyp : NR.Hyp natOps fixedCfg payCodec 2 outer2 revSched := by
  refine ⟨levelHyp_pregel natOps natOps_mergePerm _ revSched rfl (by decide) (fun l => List.reverse_perm l)
    (NLevel.noPost natOps fixedCfg payCodec _ outer2 (by decide)), ?_⟩
  intro n hn c sc' hb
  simp only [outer2, List.mem_cons, List.not_mem_nil, or_false] at hn
  rcases hn with rfl | rfl
  · injection hb with h1 h2
    subst h1 h2
    exact outer_hyp _ (fun l => List.Perm.refl l)
  · cases hb


theorem outer_subScheds : NR.SubScheds 1 outer := by
  intro n hn c sc hb
  simp only [outer, List.mem_cons, List.not_mem_nil, or_false] at hn
  rcases hn with rfl | rfl | rfl
  · injection hb with h1 h2
    subst h1 h2
    exact ⟨fun _ _ h => h, trivial⟩
  · cases hb
  · cases hb

end EinoV.NestedEx
