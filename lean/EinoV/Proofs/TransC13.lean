/-
  gotrans phase 6 — the error wrapping of compose/error.go (translated on every run into Gen/TransC13.lean)
  computes the model's `wrapNode` / `wrapStream` / `newGraphRunError` (Model/C13.lean), and the prelude's
  `errors.As` / `errors.Is` (Model/GoSemErr.lean) are the model's `asInternal` / `errorsIs`.
  This file imports no other translated unit: `./check C13` regenerates everything it depends on.
-/
import EinoV.Gen.TransC13
import EinoV.Model.C13
namespace EinoV.TransC13
open EinoV.GoSem EinoV.Gen.TransC13
variable {V : Type} [Inhabited V]
set_option linter.unusedSectionVars false

/-- the model's error values as Go error values; `act` names the stream-wrapper actions -/
def enc (act : Nat → String) : C13.GoErr → GoError
  | .leaf i => .leaf i
  | .wrapf e => .wrapf (enc act e)
  | .internal g np sp o => .internal (if g then "GraphRunError" else "NodeRunError") (sp.map act) np (enc act o)
  | .panicE i => .panicE i
  | .interrupt => .interrupt

/-- `errors.As(err, &ie)` of the prelude is the model's `asInternal` -/
theorem asInternal_enc (act : Nat → String) (e : C13.GoErr) :
    (enc act e).asInternal = (C13.asInternal e).map
      (fun t => ((if t.1 then "GraphRunError" else "NodeRunError"), t.2.2.1.map act, t.2.1, enc act t.2.2.2)) := by
  induction e with
  | leaf i => rfl
  | wrapf e ih => simpa [enc, GoError.asInternal, C13.asInternal] using ih
  | internal g np sp o _ => rfl
  | panicE i => rfl
  | interrupt => rfl

/-- `errors.Is` of the prelude is the model's `errorsIs` -/
theorem is_enc (act : Nat → String) (unwraps : Bool) (e : C13.GoErr) (t : Nat) :
    (enc act e).is unwraps t = C13.errorsIs unwraps e t := by
  induction e with
  | leaf i => rfl
  | wrapf e ih => simpa [enc, GoError.is, C13.errorsIs] using ih
  | internal g np sp o ih => cases unwraps <;> simp [enc, GoError.is, C13.errorsIs, ih]
  | panicE i => rfl
  | interrupt => rfl

theorem newGraphRunError_refines (ext : Ext V) (eext : ErrExt) (act : Nat → String) (e : C13.GoErr) :
    newGraphRunError (V := V) ext eext (enc act e) = enc act (C13.newGraphRunError e) := by
  simp [newGraphRunError, Id.run, pure, internalError_toError, C13.newGraphRunError, enc,
    const_internalErrorTypeGraphRun]

/-- **`wrapGraphNodeError` refines `wrapNode`** — for an external `isInterruptError` that is the model's -/
theorem wrapGraphNodeError_refines (ext : Ext V) (eext : ErrExt) (act : Nat → String) (hu : Bool)
    (hi : ∀ e, eext.isInterrupt (enc act e) = C13.isInterrupt hu e) (key : String) (e : C13.GoErr) :
    wrapGraphNodeError (V := V) ext eext key (enc act e) = enc act (C13.wrapNode hu key e) := by
  unfold wrapGraphNodeError C13.wrapNode
  simp only [Id.run, pure, hi, errorsAs_internalError, asInternal_enc]
  by_cases h : C13.isInterrupt hu e = true
  · simp [h]
  · simp only [h, Bool.false_eq_true, if_false]
    cases ha : C13.asInternal e with
    | none => simp [internalError_toError, enc, const_internalErrorTypeNodeRun]
    | some t =>
      obtain ⟨g, np, sp, o⟩ := t
      simp [internalError_toError, enc]

/-- **`wrapStreamWrapperError` refines `wrapStream`** -/
theorem wrapStreamWrapperError_refines (ext : Ext V) (eext : ErrExt) (act : Nat → String) (hu : Bool)
    (hi : ∀ e, eext.isInterrupt (enc act e) = C13.isInterrupt hu e) (a : Nat) (e : C13.GoErr) :
    wrapStreamWrapperError (V := V) ext eext (act a) (enc act e) = enc act (C13.wrapStream hu a e) := by
  unfold wrapStreamWrapperError C13.wrapStream
  simp only [Id.run, pure, hi, errorsAs_internalError, asInternal_enc]
  by_cases h : C13.isInterrupt hu e = true
  · simp [h]
  · simp only [h, Bool.false_eq_true, if_false]
    cases ha : C13.asInternal e with
    | none =>
      have : (default : NodePath V).path = [] := rfl
      simp [internalError_toError, enc, const_internalErrorTypeNodeRun, this]
    | some t =>
      obtain ⟨g, np, sp, o⟩ := t
      simp [internalError_toError, enc]

/-- `(*internalError).Unwrap` returns `origError`: the translated method on the struct of an internal error -/
theorem unwrap_refines (ext : Ext V) (eext : ErrExt) (x : internalError V) :
    internalError_Unwrap ext eext x = x.origError := rfl

end EinoV.TransC13
