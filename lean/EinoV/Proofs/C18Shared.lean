/-
  C18 — helper lemmas for runs that share the caller's message slice (Model/C18Shared.lean).

  1. Go's `append` on the heap model: what the extended slice holds, and the frame (no other
     array of the heap changes).
  2. A node execution only ever extends the history (`superstep_msgs`).
  3. The pure small-step machine `pstep` (the same steps without memory) run long enough is `run`.
  4. Simulation: with the expected memory facts every run's slice points into an array no other
     run and not the caller points into, so stepping the shared-memory machine is stepping the
     pure machines independently (`Rel`, `rel_step`), whatever the schedule.
-/
import EinoV.Model.C18Shared
import EinoV.Proofs.C18

namespace EinoV.C18

/-! ## 1. the heap -/

theorem arrAt_set_ne (h : Heap) (a b : Nat) (v : Arr) (hne : a ≠ b) :
    Heap.arrAt (h.set a v) b = Heap.arrAt h b := by
  simp [Heap.arrAt, hne]

theorem arrAt_set_eq (h : Heap) (a : Nat) (v : Arr) (ha : a < h.length) :
    Heap.arrAt (h.set a v) a = v := by
  simp [Heap.arrAt, ha]

theorem arrAt_append_lt (h : Heap) (v : Arr) (a : Nat) (ha : a < h.length) :
    Heap.arrAt (h ++ [v]) a = Heap.arrAt h a := by
  simp [Heap.arrAt, List.getElem?_append_left ha]

theorem arrAt_append_len (h : Heap) (v : Arr) : Heap.arrAt (h ++ [v]) h.length = v := by
  simp [Heap.arrAt]

theorem take_len_append {α : Type} (l r : List α) (n : Nat) (hn : n = l.length) :
    (l ++ r).take n = l := by
  subst hn; simp

/-- the slice points into an allocated array and does not exceed its capacity -/
def Valid (h : Heap) (s : Slice) : Prop := s.arr < h.length ∧ s.len ≤ (Heap.arrAt h s.arr).length

/-- **Go `append`.** The new slice holds the old elements followed by the appended ones; it is
    valid; it points into the old array or into a freshly allocated one; every other array of the
    heap is unchanged. -/
theorem goAppend_spec (slack : Nat → Nat) (h : Heap) (s : Slice) (xs : List Msg) (hv : Valid h s) :
    Heap.read (goAppend slack h s xs).1 (goAppend slack h s xs).2 = Heap.read h s ++ xs ∧
    Valid (goAppend slack h s xs).1 (goAppend slack h s xs).2 ∧
    h.length ≤ (goAppend slack h s xs).1.length ∧
    ((goAppend slack h s xs).2.arr = s.arr ∨ (goAppend slack h s xs).2.arr = h.length) ∧
    (∀ a, a ≠ s.arr → a < h.length →
      Heap.arrAt (goAppend slack h s xs).1 a = Heap.arrAt h a) := by
  obtain ⟨hlt, hlen⟩ := hv
  unfold goAppend
  by_cases hc : s.len + xs.length ≤ (Heap.arrAt h s.arr).length
  · simp only [hc, if_true]
    have htl : ((Heap.arrAt h s.arr).take s.len ++ xs).length = s.len + xs.length := by
      simp [List.length_take]; omega
    refine ⟨?_, ⟨by simpa using hlt, ?_⟩, by simp, by simp, ?_⟩
    · simp only [Heap.read, arrAt_set_eq h s.arr _ hlt]
      exact take_len_append _ _ _ htl.symm
    · simp only [arrAt_set_eq h s.arr _ hlt]
      simp [List.length_take]; omega
    · intro a hne _
      exact arrAt_set_ne h s.arr a _ (fun e => hne e.symm)
  · simp only [hc, if_false]
    refine ⟨?_, ⟨by simp, ?_⟩, by simp, by simp, ?_⟩
    · simp only [Heap.read, arrAt_append_len]
      exact take_len_append _ _ _ rfl
    · simp only [arrAt_append_len]
      simp
    · intro a _ ha
      exact arrAt_append_lt h _ a ha

/-! ## 2. a node execution only extends the history -/

theorem execNode_msgs (F : Facts) (cfg : Config) (mode : Mode) (key : String) (input : Val) (st : St) :
    ∃ added, (execNode F cfg mode key input st).1.msgs = st.msgs ++ added := by
  unfold execNode
  split
  · cases input with
    | msgs l =>
      cases hs : st.script with
      | nil => by_cases hp : F.modelPreAppends = true <;> simp [hp] <;> exact ⟨[], by simp⟩
      | cons r rest => by_cases hp : F.modelPreAppends = true <;> simp [hp] <;> exact ⟨[], by simp⟩
    | stream cs => exact ⟨[], by simp⟩
    | msg m => exact ⟨[], by simp⟩
  · split
    · cases input with
      | stream cs =>
        simp only
        cases hr : runTools cfg (concat cs) with
        | mk started out =>
          cases out <;> by_cases hp : F.toolsPreAppends = true <;> simp [hp] <;> exact ⟨[], by simp⟩
      | msgs l => exact ⟨[], by simp⟩
      | msg m => exact ⟨[], by simp⟩
    · split
      · cases input with
        | msgs l =>
          simp only
          cases l.find? (fun m => m.callId == st.rdId) <;> exact ⟨[], by simp⟩
        | stream cs => exact ⟨[], by simp⟩
        | msg m => exact ⟨[], by simp⟩
      · exact ⟨[], by simp⟩

theorem superstep_fst (F : Facts) (cfg : Config) (mode : Mode) (T : Topo) (key : String)
    (input : Val) (st : St) :
    (superstep F cfg mode T key input st).1 = (execNode F cfg mode key input st).1 := by
  unfold superstep
  split
  · next st1 e he => simp [he]
  · next st1 out he =>
    split
    · split <;> simp [he]
    · simp [he]

/-- what a node execution leaves as history is the history it found plus what its state
    pre-handler appended -/
theorem superstep_msgs (F : Facts) (cfg : Config) (mode : Mode) (T : Topo) (key : String)
    (input : Val) (st : St) :
    ∃ added, (superstep F cfg mode T key input st).1.msgs = st.msgs ++ added := by
  rw [superstep_fst]; exact execNode_msgs F cfg mode key input st

/-! ## 3. the same machine without memory, and `run` -/

def iter {α : Type} (f : α → α) : Nat → α → α
  | 0, a => a
  | n + 1, a => iter f n (f a)

structure PRun where
  st : St
  pc : Pc

/-- `hstep` with the history kept as a value -/
def pstep (F : Facts) (p : RunSpec) (r : PRun) : PRun :=
  match r.pc with
  | .done _ => r
  | .at 0 _ _ _ => { r with pc := .done (.error .maxSteps) }
  | .at (b + 1) key input _ =>
    let res := superstep F p.cfg p.mode (topoOf F p.cfg) key input r.st
    { st := res.1,
      pc := match res.2 with
        | .done out => .done out
        | .next k v => .at b k v false }

def PRun.out (r : PRun) : Option Run :=
  match r.pc with
  | .done res => some { seen := r.st.seen, evs := r.st.evs, result := res }
  | .at _ _ _ _ => none

theorem iter_done (F : Facts) (p : RunSpec) (st : St) (res : Except Err Msg) (k : Nat) :
    iter (pstep F p) k ⟨st, .done res⟩ = ⟨st, .done res⟩ := by
  induction k with
  | zero => rfl
  | succ k ih => simpa [iter, pstep] using ih

/-- stepping at least `budget + 1` times is `loop` -/
theorem iter_loop (F : Facts) (p : RunSpec) (b : Nat) :
    ∀ (key : String) (input : Val) (f : Bool) (st : St) (k : Nat), b + 1 ≤ k →
      iter (pstep F p) k ⟨st, .at b key input f⟩ =
        ⟨(loop F p.cfg p.mode (topoOf F p.cfg) b key input st).1,
         .done (loop F p.cfg p.mode (topoOf F p.cfg) b key input st).2⟩ := by
  induction b with
  | zero =>
    intro key input f st k hk
    obtain ⟨k', rfl⟩ : ∃ k', k = k' + 1 := ⟨k - 1, by omega⟩
    simp only [iter, pstep, loop]
    exact iter_done F p st _ k'
  | succ b ih =>
    intro key input f st k hk
    obtain ⟨k', rfl⟩ : ∃ k', k = k' + 1 := ⟨k - 1, by omega⟩
    simp only [iter, pstep, loop]
    cases hs : superstep F p.cfg p.mode (topoOf F p.cfg) key input st with
    | mk st1 o =>
      cases o with
      | done r => simp only; exact iter_done F p st1 r k'
      | next k2 v => simp only; exact ih k2 v false st1 k' (by omega)

/-- the pure machine started as `run` starts, stepped often enough, has `run`'s observables -/
theorem iter_run (F : Facts) (p : RunSpec) (orig : List Msg) (k : Nat)
    (hk : (stepLimit F p.cfg).getD 0 + 1 ≤ k) :
    (iter (pstep F p) k ⟨initSt p.script, initPc F p.cfg orig⟩).out
      = some (run F p.cfg p.mode orig p.script) := by
  unfold initPc run
  cases hl : stepLimit F p.cfg with
  | none => simp only; rw [iter_done]; rfl
  | some limit =>
    simp only [hl, Option.getD_some] at hk ⊢
    rcases hn : nextNodes (topoOf F p.cfg) keyStart none with _ | ⟨n, _ | ⟨m, rest⟩⟩
    · simp only; rw [iter_done]; rfl
    · simp only; rw [iter_loop F p limit n _ true _ k hk]; rfl
    · simp only; rw [iter_done]; rfl

/-! ## 4. simulation: the shared-memory machine steps the pure machines independently -/

open EinoV.Expected.C18 (memFacts)

theorem drop_len_append {α : Type} (l r : List α) (n : Nat) (hn : n = l.length) :
    (l ++ r).drop n = r := by
  subst hn; simp

/-- run `hr` in memory `h` is the pure run `pr`: same control state, the history in memory
    (read through the run's slice) is the pure history, the slice is valid and does not point
    into the caller's array -/
structure RunRel (orig : List Msg) (h : Heap) (hr : HRun) (pr : PRun) : Prop where
  st : hr.st = pr.st
  pc : hr.pc = pr.pc
  mem : Heap.read h hr.sl = pr.st.msgs
  valid : Valid h hr.sl
  own : 0 < hr.sl.arr
  first : ∀ b key input, pr.pc = .at b key input true → input = .msgs orig

theorem RunRel.frame {orig : List Msg} {h h' : Heap} {hr : HRun} {pr : PRun}
    (r : RunRel orig h hr pr) (ha : Heap.arrAt h' hr.sl.arr = Heap.arrAt h hr.sl.arr)
    (hl : h.length ≤ h'.length) : RunRel orig h' hr pr :=
  { st := r.st, pc := r.pc, own := r.own, first := r.first,
    mem := by simp only [Heap.read, ha]; exact r.mem,
    valid := ⟨Nat.lt_of_lt_of_le r.valid.1 hl, by rw [ha]; exact r.valid.2⟩ }

/-- **One step of one run.** With the expected memory facts a node execution in shared memory is
    the pure node execution; the run's slice afterwards points where it pointed or into a freshly
    allocated array; no other array changes. -/
theorem hstep_sim (F : Facts) (slack : Nat → Nat) (p : RunSpec) (orig : List Msg) (caller : Slice)
    (h : Heap) (hr : HRun) (pr : PRun) (hc : Heap.read h caller = orig)
    (r : RunRel orig h hr pr) :
    RunRel orig (hstep F memFacts slack p caller h hr).1 (hstep F memFacts slack p caller h hr).2
      (pstep F p pr) ∧
    h.length ≤ (hstep F memFacts slack p caller h hr).1.length ∧
    ((hstep F memFacts slack p caller h hr).2.sl.arr = hr.sl.arr ∨
     (hstep F memFacts slack p caller h hr).2.sl.arr = h.length) ∧
    (∀ a, a ≠ hr.sl.arr → a < h.length →
      Heap.arrAt (hstep F memFacts slack p caller h hr).1 a = Heap.arrAt h a) := by
  obtain ⟨sl, st, pc⟩ := hr
  obtain ⟨st', pc'⟩ := pr
  obtain ⟨hst, hpc, hmem, hvalid, hown, hfirst⟩ := r
  simp only at hst hpc hmem hvalid hown hfirst
  subst hst; subst hpc
  cases pc with
  | done res =>
    simp only [hstep, pstep]
    exact ⟨⟨rfl, rfl, hmem, hvalid, hown, hfirst⟩, Nat.le_refl _, by simp, by simp⟩
  | «at» b key input first =>
    cases b with
    | zero =>
      simp only [hstep, pstep]
      refine ⟨⟨rfl, rfl, hmem, hvalid, hown, ?_⟩, Nat.le_refl _, by simp, by simp⟩
      intro b key input h; cases h
    | succ b =>
      have hin : (if first then Val.msgs (Heap.read h caller) else input) = input := by
        cases first with
        | false => rfl
        | true => simp only [if_true, hc]; exact (hfirst _ _ _ rfl).symm
      have hstE : ({ st with msgs := Heap.read h sl } : St) = st := by
        cases st; simp only at hmem; subst hmem; rfl
      obtain ⟨added, hadd⟩ := superstep_msgs F p.cfg p.mode (topoOf F p.cfg) key input st
      have hdrop : (superstep F p.cfg p.mode (topoOf F p.cfg) key input st).1.msgs.drop
          (Heap.read h sl).length = added := by
        rw [hadd, hmem]; exact drop_len_append _ _ _ rfl
      have hcond : (first && !memFacts.historyOnlyAppended && sl.len == 0) = false := by
        simp [memFacts]
      simp only [hstep, pstep, hin, hstE, hdrop, hcond]
      obtain ⟨g1, g2, g3, g4, g5⟩ := goAppend_spec slack h sl added hvalid
      refine ⟨⟨rfl, rfl, ?_, g2, ?_, ?_⟩, g3, g4, g5⟩
      · simp only [Bool.false_eq_true, if_false]; rw [g1, hmem, hadd]
      · simp only [Bool.false_eq_true, if_false]
        rcases g4 with g | g <;> rw [g]
        · exact hown
        · exact Nat.lt_of_le_of_lt (Nat.zero_le _) hvalid.1
      · intro b' key' input' hEq
        simp only at hEq
        split at hEq <;> cases hEq

/-- the whole system: every run is its pure run, the caller's array is as the caller left it,
    and no two runs point into the same array -/
structure Rel (orig spare : List Msg) (s : Shared) (ps : List PRun) : Prop where
  caller : Heap.arrAt s.heap 0 = orig ++ spare
  len : s.runs.length = ps.length
  each : ∀ (i : Nat) (hr : HRun) (pr : PRun), s.runs[i]? = some hr → ps[i]? = some pr →
    RunRel orig s.heap hr pr
  distinct : ∀ (i j : Nat) (hi hj : HRun), i ≠ j → s.runs[i]? = some hi → s.runs[j]? = some hj →
    hi.sl.arr ≠ hj.sl.arr

/-- the pure runs, run `i` stepped -/
def pstepAt (F : Facts) (specs : List RunSpec) (ps : List PRun) (i : Nat) : List PRun :=
  match ps[i]?, specs[i]? with
  | some r, some p => ps.set i (pstep F p r)
  | _, _ => ps

theorem pstepAt_length (F : Facts) (specs : List RunSpec) (ps : List PRun) (i : Nat) :
    (pstepAt F specs ps i).length = ps.length := by
  unfold pstepAt; split <;> simp

/-- **Any run may step next.** -/
theorem rel_step (F : Facts) (slack : Nat → Nat) (specs : List RunSpec) (orig spare : List Msg)
    (s : Shared) (ps : List PRun) (i : Nat) (R : Rel orig spare s ps) :
    Rel orig spare (stepAt F memFacts slack specs ⟨0, orig.length⟩ s i) (pstepAt F specs ps i) := by
  have hcaller : Heap.read s.heap ⟨0, orig.length⟩ = orig := by
    simp only [Heap.read, R.caller]; exact take_len_append _ _ _ rfl
  cases hri : s.runs[i]? with
  | none =>
    have hpi : ps[i]? = none := by
      rw [List.getElem?_eq_none_iff] at hri ⊢; rw [← R.len]; exact hri
    simp only [stepAt, pstepAt, hri, hpi]; exact R
  | some r =>
    cases hsi : specs[i]? with
    | none =>
      have : pstepAt F specs ps i = ps := by unfold pstepAt; split <;> simp_all
      simp only [stepAt, hri, hsi, this]; exact R
    | some p =>
      have hil : i < s.runs.length := by
        rcases Nat.lt_or_ge i s.runs.length with h | h
        · exact h
        · rw [List.getElem?_eq_none_iff.mpr h] at hri; cases hri
      obtain ⟨pr, hpi⟩ : ∃ pr, ps[i]? = some pr :=
        ⟨ps[i]'(R.len ▸ hil), List.getElem?_eq_getElem (R.len ▸ hil)⟩
      have rr := R.each i r pr hri hpi
      obtain ⟨q1, q2, q3, q4⟩ := hstep_sim F slack p orig ⟨0, orig.length⟩ s.heap r pr hcaller rr
      simp only [stepAt, pstepAt, hri, hsi, hpi]
      have hpos : 0 < s.heap.length := Nat.lt_of_le_of_lt (Nat.zero_le _) rr.valid.1
      refine ⟨?_, by simp [R.len], ?_, ?_⟩
      · simp only; rw [q4 0 (Nat.ne_of_lt rr.own) hpos]; exact R.caller
      · intro j hj pj hhj hpj
        simp only at hhj ⊢
        by_cases hji : j = i
        · subst hji
          rw [List.getElem?_set_self hil] at hhj
          rw [List.getElem?_set_self (R.len ▸ hil)] at hpj
          cases hhj; cases hpj; exact q1
        · rw [List.getElem?_set_ne (fun e => hji e.symm)] at hhj hpj
          have rj := R.each j hj pj hhj hpj
          exact rj.frame (q4 _ (R.distinct j i hj r hji hhj hri) rj.valid.1) q2
      · intro j k hj hk hjk hhj hhk
        simp only at hhj hhk
        have other : ∀ (m : Nat) (hm : HRun), m ≠ i → s.runs[m]? = some hm →
            hm.sl.arr ≠ (hstep F memFacts slack p ⟨0, orig.length⟩ s.heap r).2.sl.arr := by
          intro m hm hmi hhm
          rcases q3 with g | g <;> rw [g]
          · exact R.distinct m i hm r hmi hhm hri
          · have pm : ∃ pm, ps[m]? = some pm := by
              have hml : m < s.runs.length := by
                rcases Nat.lt_or_ge m s.runs.length with h | h
                · exact h
                · rw [List.getElem?_eq_none_iff.mpr h] at hhm; cases hhm
              exact ⟨ps[m]'(R.len ▸ hml), List.getElem?_eq_getElem (R.len ▸ hml)⟩
            obtain ⟨pm, hpm⟩ := pm
            exact Nat.ne_of_lt (R.each m hm pm hhm hpm).valid.1
        by_cases hji : j = i
        · subst hji
          rw [List.getElem?_set_self hil] at hhj
          rw [List.getElem?_set_ne hjk] at hhk
          cases hhj
          exact (other k hk (fun e => hjk e.symm) hhk).symm
        · rw [List.getElem?_set_ne (fun e => hji e.symm)] at hhj
          by_cases hki : k = i
          · subst hki
            rw [List.getElem?_set_self hil] at hhk
            cases hhk
            exact other j hj hji hhj
          · rw [List.getElem?_set_ne (fun e => hki e.symm)] at hhk
            exact R.distinct j k hj hk hjk hhj hhk

theorem rel_fold (F : Facts) (slack : Nat → Nat) (specs : List RunSpec) (orig spare : List Msg)
    (tokens : List Nat) :
    ∀ (s : Shared) (ps : List PRun), Rel orig spare s ps →
      Rel orig spare (tokens.foldl (stepAt F memFacts slack specs ⟨0, orig.length⟩) s)
        (tokens.foldl (pstepAt F specs) ps) := by
  induction tokens with
  | nil => intro s ps R; exact R
  | cons t ts ih =>
    intro s ps R
    exact ih _ _ (rel_step F slack specs orig spare s ps t R)

/-! ## 5. the pure runs do not interact; every run gets enough steps -/

theorem pfold_get (F : Facts) (specs : List RunSpec) (tokens : List Nat) :
    ∀ (ps : List PRun) (i : Nat) (p : RunSpec), specs[i]? = some p → ps.length = specs.length →
      (tokens.foldl (pstepAt F specs) ps)[i]? = (ps[i]?).map (iter (pstep F p) (tokens.count i)) := by
  induction tokens with
  | nil =>
    intro ps i p _ _
    have h0 : iter (pstep F p) 0 = id := rfl
    simp [h0]
  | cons t ts ih =>
    intro ps i p hp hlen
    simp only [List.foldl_cons]
    rw [ih (pstepAt F specs ps t) i p hp (by rw [pstepAt_length]; exact hlen)]
    have hil : i < ps.length := by
      rcases Nat.lt_or_ge i specs.length with h | h
      · omega
      · rw [List.getElem?_eq_none_iff.mpr h] at hp; cases hp
    by_cases hti : t = i
    · subst hti
      have hpi : ps[t]? = some (ps[t]'hil) := List.getElem?_eq_getElem hil
      simp only [pstepAt, hpi, hp, List.getElem?_set_self hil, Option.map_some, List.count_cons_self, iter]
    · have : (pstepAt F specs ps t)[i]? = ps[i]? := by
        unfold pstepAt; split
        · exact List.getElem?_set_ne hti
        · rfl
      rw [this, List.count_cons_of_ne hti]

theorem count_range (i n : Nat) : (List.range n).count i = if i < n then 1 else 0 := by
  induction n with
  | zero => simp
  | succ n ih =>
    rw [List.range_succ, List.count_append, ih]
    by_cases h1 : i < n
    · have : ¬ n = i := by omega
      simp [h1, this]; omega
    · by_cases h2 : i = n
      · subst h2; simp
      · have h3 : ¬ i < n + 1 := by omega
        have : ¬ n = i := fun e => h2 e.symm
        simp [h1, h3, this]

theorem count_drain (i n k : Nat) (hi : i < n) : (drain n k).count i = k := by
  unfold drain
  induction k with
  | zero => simp
  | succ k ih =>
    rw [List.replicate_succ, List.flatten_cons, List.count_append, ih, count_range]
    simp [hi]; omega

theorem le_foldl_max (l : List Nat) : ∀ (a : Nat), a ≤ l.foldl max a ∧ ∀ x ∈ l, x ≤ l.foldl max a := by
  induction l with
  | nil => intro a; simp
  | cons y ys ih =>
    intro a
    simp only [List.foldl_cons, List.mem_cons]
    obtain ⟨h1, h2⟩ := ih (max a y)
    refine ⟨Nat.le_trans (Nat.le_max_left a y) h1, ?_⟩
    rintro x (rfl | hx)
    · exact Nat.le_trans (Nat.le_max_right a x) h1
    · exact h2 x hx

theorem fuel_enough (F : Facts) (specs : List RunSpec) (i : Nat) (p : RunSpec)
    (hp : specs[i]? = some p) : (stepLimit F p.cfg).getD 0 + 1 ≤ fuel F specs := by
  have hm : (stepLimit F p.cfg).getD 0 ∈ specs.map (fun p => (stepLimit F p.cfg).getD 0) :=
    List.mem_map.mpr ⟨p, List.mem_of_getElem? hp, rfl⟩
  have := (le_foldl_max _ 0).2 _ hm
  unfold fuel; omega

/-! ## 6. as the runs start -/

/-- a run as it starts, owning array `a` -/
def initRun (F : Facts) (orig : List Msg) (a : Nat) (p : RunSpec) : HRun :=
  { sl := { arr := a, len := 0 }, st := initSt p.script, pc := initPc F p.cfg orig }

theorem initRuns_get (F : Facts) (orig : List Msg) (stride : Nat) (specs : List RunSpec) :
    ∀ (a i : Nat), (initRuns F orig stride a specs)[i]? =
      (specs[i]?).map (initRun F orig (a + stride * i)) := by
  induction specs with
  | nil => intro a i; simp [initRuns]
  | cons p ps ih =>
    intro a i
    cases i with
    | zero => simp [initRuns, initRun]
    | succ i =>
      simp only [initRuns, List.getElem?_cons_succ, ih]
      have : a + stride + stride * i = a + stride * (i + 1) := by
        rw [Nat.mul_succ]; omega
      rw [this]

theorem initRuns_length (F : Facts) (orig : List Msg) (stride : Nat) (specs : List RunSpec) :
    ∀ (a : Nat), (initRuns F orig stride a specs).length = specs.length := by
  induction specs with
  | nil => intro a; rfl
  | cons p ps ih => intro a; simp [initRuns, ih]

theorem initPc_first (F : Facts) (cfg : Config) (orig : List Msg) (b : Nat) (key : String)
    (input : Val) (h : initPc F cfg orig = .at b key input true) : input = .msgs orig := by
  unfold initPc at h
  split at h
  · cases h
  · split at h
    · cases h; rfl
    · cases h

/-- the pure runs as they start -/
def initPure (F : Facts) (orig : List Msg) (specs : List RunSpec) : List PRun :=
  specs.map (fun p => { st := initSt p.script, pc := initPc F p.cfg orig })

theorem rel_init (F : Facts) (orig spare : List Msg) (specs : List RunSpec) :
    Rel orig spare (initShared F memFacts orig spare specs) (initPure F orig specs) := by
  have hI : initShared F memFacts orig spare specs =
      { heap := (orig ++ spare) :: specs.map (fun p => List.replicate (stateCap p.cfg) nilMsg),
        runs := initRuns F orig 1 1 specs } := by
    simp [initShared, memFacts]
  rw [hI]
  refine ⟨by simp [Heap.arrAt], by simp [initRuns_length, initPure], ?_, ?_⟩
  · intro i hr pr hhr hpr
    simp only [initRuns_get] at hhr
    simp only [initPure, List.getElem?_map] at hpr
    cases hs : specs[i]? with
    | none => simp [hs] at hhr
    | some p =>
      simp only [hs, Option.map_some, Option.some.injEq, initRun] at hhr hpr
      subst hhr; subst hpr
      have hil : i < specs.length := by
        rcases Nat.lt_or_ge i specs.length with h | h
        · exact h
        · rw [List.getElem?_eq_none_iff.mpr h] at hs; cases hs
      refine ⟨rfl, rfl, ?_, ⟨?_, ?_⟩, ?_, ?_⟩
      · simp [Heap.read, initSt]
      · simp; omega
      · simp
      · simp only; omega
      · intro b key input h
        exact initPc_first F p.cfg orig b key input h
  · intro i j hi hj hij hhi hhj
    simp only [initRuns_get] at hhi hhj
    cases hsi : specs[i]? with
    | none => simp [hsi] at hhi
    | some pi =>
      cases hsj : specs[j]? with
      | none => simp [hsj] at hhj
      | some pj =>
        simp only [hsi, hsj, Option.map_some, Option.some.injEq, initRun] at hhi hhj
        subst hhi; subst hhj
        simp only; omega

/-! ## 7. isolation -/

/-- **Runs started from one slice are isolated, for every interleaving.** -/
theorem runShared_isolated (F : Facts) (slack : Nat → Nat) (orig spare : List Msg)
    (specs : List RunSpec) (sched : List Nat) :
    (runShared F memFacts slack orig spare specs sched).out =
      { runs := specs.map (fun p => some (run F p.cfg p.mode orig p.script)),
        callerArr := orig ++ spare } := by
  have R := rel_fold F slack specs orig spare (sched ++ drain specs.length (fuel F specs)) _ _
    (rel_init F orig spare specs)
  have hruns : (runShared F memFacts slack orig spare specs sched).runs.map HRun.out =
      specs.map (fun p => some (run F p.cfg p.mode orig p.script)) := by
    apply List.ext_getElem?
    intro i
    simp only [List.getElem?_map]
    cases hs : specs[i]? with
    | none =>
      have hlen : (runShared F memFacts slack orig spare specs sched).runs.length = specs.length := by
        unfold runShared; rw [R.len]
        have : ∀ (tokens : List Nat) (ps : List PRun),
            (tokens.foldl (pstepAt F specs) ps).length = ps.length := by
          intro tokens
          induction tokens with
          | nil => intro ps; rfl
          | cons t ts ih => intro ps; simp only [List.foldl_cons]; rw [ih, pstepAt_length]
        rw [this]; simp [initPure]
      have : (runShared F memFacts slack orig spare specs sched).runs[i]? = none := by
        rw [List.getElem?_eq_none_iff] at hs ⊢; omega
      simp [this]
    | some p =>
      have hil : i < specs.length := by
        rcases Nat.lt_or_ge i specs.length with h | h
        · exact h
        · rw [List.getElem?_eq_none_iff.mpr h] at hs; cases hs
      have hpure := pfold_get F specs (sched ++ drain specs.length (fuel F specs))
        (initPure F orig specs) i p hs (by simp [initPure])
      have hcount : (stepLimit F p.cfg).getD 0 + 1 ≤
          (sched ++ drain specs.length (fuel F specs)).count i := by
        rw [List.count_append, count_drain i _ _ hil]
        have := fuel_enough F specs i p hs
        omega
      simp only [List.getElem?_map, hs, Option.map_some, initPure] at hpure
      have hpure' : (List.foldl (pstepAt F specs) (initPure F orig specs)
          (sched ++ drain specs.length (fuel F specs)))[i]? = some (iter (pstep F p)
            ((sched ++ drain specs.length (fuel F specs)).count i)
            { st := initSt p.script, pc := initPc F p.cfg orig }) := hpure
      -- the shared-memory run `i` at the end
      have hlen := R.len
      obtain ⟨hr, hhr⟩ : ∃ hr, (runShared F memFacts slack orig spare specs sched).runs[i]? = some hr := by
        have : i < (runShared F memFacts slack orig spare specs sched).runs.length := by
          unfold runShared; rw [hlen]
          rcases Nat.lt_or_ge i (List.foldl (pstepAt F specs) (initPure F orig specs)
            (sched ++ drain specs.length (fuel F specs))).length with h | h
          · exact h
          · rw [List.getElem?_eq_none_iff.mpr h] at hpure'; cases hpure'
        exact ⟨_, List.getElem?_eq_getElem this⟩
      have rr := R.each i hr _ hhr hpure'
      have hout := iter_run F p orig _ hcount
      rw [hhr]
      simp only [Option.map_some, Option.some.injEq]
      rw [← hout]
      unfold HRun.out PRun.out
      rw [rr.st, rr.pc]
      rfl
  unfold Shared.out
  rw [hruns]
  have := R.caller
  unfold runShared
  rw [this]

end EinoV.C18
