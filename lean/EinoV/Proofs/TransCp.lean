/-
  gotrans phase 8 — restoring channels from a checkpoint.  `(*dagChannel).load`, `(*pregelChannel).load` and
  `(*channelManager).loadChannels` (translated on every run of C05 into Gen/TransCp.lean) compute the model's
  `loadChans` (Model/C05.lean): every channel of the manager that the checkpoint has is replaced by the
  checkpoint's, the others are kept; a channel of the other kind is the load error.
-/
import EinoV.Gen.TransCp
import EinoV.Proofs.TransMgr
import EinoV.Model.C05
namespace EinoV.TransCp
open EinoV.GoSem EinoV.Engine EinoV.Gen.TransC02 EinoV.Gen.TransC01 EinoV.Gen.TransMgr EinoV.Gen.TransCp EinoV.TransMgr
open TransDag (KeysNodup)
variable {V : Type} [Inhabited V]
set_option linter.unusedSectionVars false
set_option linter.unusedSimpArgs false
set_option linter.unusedVariables false

/-! ### `load`: a channel of the same kind is taken over entirely, one of the other kind is an error -/

theorem dag_load_dag (ext : Ext V) (mext : MgrExt V) (x y : dagChannel V) :
    dagChannel_load ext mext x (.of_dagChannel y) = (y, none) := by
  cases y; rfl

theorem dag_load_pregel (ext : Ext V) (mext : MgrExt V) (x : dagChannel V) (y : pregelChannel V) :
    dagChannel_load ext mext x (.of_pregelChannel y)
      = (x, some (GoErr.mk "load dag channel fail, got %T, want *dagChannel")) := rfl

theorem pregel_load_pregel (ext : Ext V) (mext : MgrExt V) (x y : pregelChannel V) :
    pregelChannel_load ext mext x (.of_pregelChannel y) = (y, none) := by
  cases y; rfl

theorem pregel_load_dag (ext : Ext V) (mext : MgrExt V) (x : pregelChannel V) (y : dagChannel V) :
    pregelChannel_load ext mext x (.of_dagChannel y)
      = (x, some (GoErr.mk "load pregel channel fail, got %T, want *pregelChannel")) := rfl

/-- `ch.load(n)` through the interface: same kind ↦ `n` itself and no error; other kind ↦ an error -/
theorem channel_load_spec (ext : Ext V) (mext : MgrExt V) (ch n : channel V) :
    (isDag n = isDag ch → channel_load ext mext ch n = (n, none)) ∧
    (isDag n ≠ isDag ch → (channel_load ext mext ch n).2.isSome = true) := by
  cases ch <;> cases n <;>
    simp [channel_load, isDag, dag_load_dag, dag_load_pregel, pregel_load_pregel, pregel_load_dag]

/-! ### `loadChannels` -/

/-- the checkpoint has a channel of the other kind for this entry -/
def mismatch (cp : GoMap (channel V)) (p : String × channel V) : Bool :=
  match alookup p.1 cp with
  | some n => isDag n != isDag p.2
  | none => false

/-- what `loadChannels` puts under a key -/
def loaded (cp : GoMap (channel V)) (p : String × channel V) : String × channel V :=
  (p.1, (alookup p.1 cp).getD p.2)

abbrev LR (V : Type) := MayPanic (channelManager V × Option GoErr)
abbrev LSt (V : Type) := Option (LR V) × channelManager V

theorem load_loop (ext : Ext V) (mext : MgrExt V) (cp : GoMap (channel V))
    (body : String × channel V → LSt V → ForInStep (LSt V))
    (hbody : ∀ (p : String × channel V) (cm : channelManager V),
      body p (none, cm) =
        match alookup p.1 cp with
        | none => ForInStep.yield (none, cm)
        | some n =>
          if (channel_load ext mext p.2 n).2.isSome = true then
            ForInStep.done (some (MayPanic.ret ({ cm with channels := cm.channels.set p.1 (channel_load ext mext p.2 n).1 },
              some (GoErr.mk "load channel[%s] fail: %w"))), { cm with channels := cm.channels.set p.1 (channel_load ext mext p.2 n).1 })
          else ForInStep.yield (none, { cm with channels := cm.channels.set p.1 (channel_load ext mext p.2 n).1 })) :
    ∀ (l pre : GoMap (channel V)) (cm : channelManager V), cm.channels = pre ++ l → KeysNodup (pre ++ l) →
      (l.any (mismatch cp) = false →
        goLoop body l (none, cm) = (none, { cm with channels := pre ++ l.map (loaded cp) })) ∧
      (l.any (mismatch cp) = true →
        ∃ cm', (goLoop body l (none, cm)).1 = some (MayPanic.ret (cm', some (GoErr.mk "load channel[%s] fail: %w")))) := by
  intro l
  induction l with
  | nil =>
    intro pre cm hc _
    refine ⟨fun _ => ?_, fun h => by simp at h⟩
    simp only [goLoop, List.map_nil]
    cases cm; simp_all
  | cons p l ih =>
    intro pre cm hc hnd
    obtain ⟨k, ch⟩ := p
    have hk : k ∉ pre.map (·.1) := by
      unfold KeysNodup at hnd
      simp only [List.map_append, List.map_cons] at hnd
      have := (List.nodup_append.mp hnd).2.2
      intro hin; exact this k hin k (by simp) rfl
    have hset : ∀ v', cm.channels.set k v' = pre ++ (k, v') :: l := by
      intro v'; rw [hc]; exact TransDag.aset_append_fresh pre k ch v' l hk
    have hnd' : ∀ v', KeysNodup ((pre ++ [(k, v')]) ++ l) := by
      intro v'; unfold KeysNodup at hnd ⊢; simpa [List.map_append] using hnd
    simp only [goLoop, hbody (k, ch) cm, List.any_cons, mismatch, loaded]
    cases hl : alookup k cp with
    | none =>
      simp only [Bool.false_or]
      obtain ⟨i1, i2⟩ := ih (pre ++ [(k, ch)]) cm (by rw [hc]; simp) (hnd' ch)
      refine ⟨fun h => ?_, fun h => i2 h⟩
      rw [i1 h]; simp [List.append_assoc, loaded, hl]
    | some n =>
      simp only
      obtain ⟨s1, s2⟩ := channel_load_spec ext mext ch n
      by_cases hkind : isDag n = isDag ch
      · have hne : (isDag n != isDag ch) = false := by simp [hkind]
        simp only [hne, Bool.false_or, s1 hkind, Option.isSome_none, Bool.false_eq_true, if_false, Option.getD_some]
        obtain ⟨i1, i2⟩ := ih (pre ++ [(k, n)]) { cm with channels := cm.channels.set k n }
          (by simp [hset n]) (hnd' n)
        refine ⟨fun h => ?_, fun h => i2 h⟩
        rw [i1 h]; simp [List.append_assoc, loaded, hl]
      · have hne : (isDag n != isDag ch) = true := by simp [bne, hkind]
        simp only [hne, Bool.true_or, s2 hkind, if_true]
        exact ⟨fun h => by simp at h, fun _ => ⟨_, rfl⟩⟩

/-- the checkpoint's channels are of the manager's kind, and well formed -/
structure CpOK (dag : Bool) (cp : GoMap (channel V)) : Prop where
  mode : ∀ p ∈ cp, isDag p.2 = dag
  wf : ∀ p ∈ cp, ChWF p.2

theorem mem_of_alookup {α} (m : GoMap α) (k : Key) (v : α) (h : alookup k m = some v) : (k, v) ∈ m :=
  mem_of_alookup' m k v h

/-- **`loadChannels` refines `loadChans`**: no error, the model's restored channels, the manager's static tables
    and key set unchanged, one well-formed channel of the manager's kind per key -/
theorem loadChannels_refines (ext : Ext V) (mext : MgrExt V) (dag : Bool) (c : channelManager V)
    (cp : GoMap (channel V)) (hok : ChansOK dag c.channels) (hcp : CpOK dag cp) :
    ∃ c', channelManager_loadChannels ext mext c cp = .ret (c', none) ∧
      toChans c'.channels = EinoV.Interrupt.loadChans (toChans c.channels) (toChans cp) ∧
      Frame c c' ∧ ChansOK dag c'.channels := by
  unfold channelManager_loadChannels
  simp only [forIn_id, Id.run, bind, pure]
  generalize hb : (fun (x : String × channel V) (__s : LSt V) => _) = body
  have hbody : ∀ (p : String × channel V) (cm : channelManager V),
      body p (none, cm) =
        match alookup p.1 cp with
        | none => ForInStep.yield (none, cm)
        | some n =>
          if (channel_load ext mext p.2 n).2.isSome = true then
            ForInStep.done (some (MayPanic.ret ({ cm with channels := cm.channels.set p.1 (channel_load ext mext p.2 n).1 },
              some (GoErr.mk "load channel[%s] fail: %w"))), { cm with channels := cm.channels.set p.1 (channel_load ext mext p.2 n).1 })
          else ForInStep.yield (none, { cm with channels := cm.channels.set p.1 (channel_load ext mext p.2 n).1 }) := by
    intro p cm
    rw [← hb]
    simp only [GoMap.has, GoMap.get?]
    cases hl : alookup p.1 cp with
    | none => simp
    | some n => simp
  have hno : c.channels.any (mismatch cp) = false := by
    rw [List.any_eq_false]
    intro p hp
    unfold mismatch
    cases hl : alookup p.1 cp with
    | none => simp
    | some n =>
      have h1 := hcp.mode _ (mem_of_alookup cp p.1 n hl)
      have h2 := hok.mode p hp
      simp only at h1
      simp [h1, h2]
  obtain ⟨l1, _⟩ := load_loop ext mext cp body hbody c.channels [] c (by simp) (by simpa using hok.nd)
  rw [l1 hno]
  simp only [List.nil_append]
  refine ⟨_, rfl, ?_, ⟨rfl, rfl, rfl, rfl, ?_⟩, ⟨?_, ?_, ?_⟩⟩
  · simp only [toChans, EinoV.Interrupt.loadChans, List.map_map, Function.comp_def, loaded]
    apply List.map_congr_left
    intro p _
    have := alookup_toChans cp p.1
    simp only [toChans] at this
    rw [this]
    cases alookup p.1 cp <;> rfl
  · simp [List.map_map, Function.comp_def, loaded]
  · have : (c.channels.map (loaded cp)).map (·.1) = c.channels.map (·.1) := by
      simp [List.map_map, Function.comp_def, loaded]
    unfold KeysNodup; rw [this]; exact hok.nd
  · intro q hq
    obtain ⟨p, hp, rfl⟩ := List.mem_map.mp hq
    simp only [loaded]
    cases hl : alookup p.1 cp with
    | none => exact hok.mode p hp
    | some n => exact hcp.mode _ (mem_of_alookup cp p.1 n hl)
  · intro q hq
    obtain ⟨p, hp, rfl⟩ := List.mem_map.mp hq
    simp only [loaded]
    cases hl : alookup p.1 cp with
    | none => exact hok.wf p hp
    | some n => exact hcp.wf _ (mem_of_alookup cp p.1 n hl)

/-- a channel of the other kind in the checkpoint (under a key of the manager) is the load error -/
theorem loadChannels_kind_mismatch (ext : Ext V) (mext : MgrExt V) (c : channelManager V)
    (cp : GoMap (channel V)) (hnd : KeysNodup c.channels) (hbad : c.channels.any (mismatch cp) = true) :
    ∃ c', channelManager_loadChannels ext mext c cp = .ret (c', some (GoErr.mk "load channel[%s] fail: %w")) := by
  unfold channelManager_loadChannels
  simp only [forIn_id, Id.run, bind, pure]
  generalize hb : (fun (x : String × channel V) (__s : LSt V) => _) = body
  have hbody : ∀ (p : String × channel V) (cm : channelManager V),
      body p (none, cm) =
        match alookup p.1 cp with
        | none => ForInStep.yield (none, cm)
        | some n =>
          if (channel_load ext mext p.2 n).2.isSome = true then
            ForInStep.done (some (MayPanic.ret ({ cm with channels := cm.channels.set p.1 (channel_load ext mext p.2 n).1 },
              some (GoErr.mk "load channel[%s] fail: %w"))), { cm with channels := cm.channels.set p.1 (channel_load ext mext p.2 n).1 })
          else ForInStep.yield (none, { cm with channels := cm.channels.set p.1 (channel_load ext mext p.2 n).1 }) := by
    intro p cm
    rw [← hb]
    simp only [GoMap.has, GoMap.get?]
    cases hl : alookup p.1 cp with
    | none => simp
    | some n => simp
  obtain ⟨_, l2⟩ := load_loop ext mext cp body hbody c.channels [] c (by simp) (by simpa using hnd)
  obtain ⟨cm', e⟩ := l2 hbad
  rw [e]
  exact ⟨cm', rfl⟩

end EinoV.TransCp
