/-
  The hypotheses of the refinement theorems of Proofs/TransMgr.lean hold for the manager that
  `initChannelManager` builds from a compiled runner (`initMgr`: the model's initial channels, the runner's
  predecessor lists as sets, `getSuccessors` of every node), for every runner with distinct keys; the
  closedness hypothesis (every successor has a channel: no nil dereference in `reportBranch`) holds for
  the runner `compile` builds from any graph definition AddEdge / AddBranch accept.  Each refinement
  theorem returns `Frame` and `ChansOK` for the new manager, so the hypotheses carry over from call to call.
-/
import EinoV.Proofs.TransMgr
import EinoV.Spec.GraphDefWF
namespace EinoV.TransMgr
open EinoV.GoSem EinoV.Engine EinoV.Gen.TransC02 EinoV.Gen.TransC01 EinoV.Gen.TransMgr EinoV.GoWorkList
open TransDag (KeysNodup)
variable {V : Type} [Inhabited V]
set_option linter.unusedSectionVars false

/-! ### the hypotheses hold for what `initChannelManager` builds, and are kept -/

theorem SuccClosed.frame {c c' : channelManager V} (h : SuccClosed c) (f : Frame c c') : SuccClosed c' := by
  intro k succs hk s hs
  rw [has_of_keys c.channels c'.channels f.keys]
  exact h k succs (by rw [← f.successors]; exact hk) s hs

/-- `dataPredecessors[k] = map[string]struct{}` built from the list of predecessors -/
def mkSet (vs : List Key) : GoMap Unit := vs.foldl (fun m v => m.set v ()) []

theorem mkSet_has (vs : List Key) (f : Key) : (mkSet vs).has f = vs.contains f := by
  have gen : ∀ (m : GoMap Unit), (vs.foldl (fun m v => m.set v ()) m).has f = (m.has f || vs.contains f) := by
    induction vs with
    | nil => intro m; simp
    | cons v vs ih =>
      intro m
      simp only [List.foldl_cons, ih, List.contains_cons]
      by_cases e : f = v
      · subst e; simp [GoMap.has, GoMap.set, alookup_aset_same]
      · have : (f == v) = false := by simpa using e
        simp [GoMap.has, GoMap.set, alookup_aset_other v f () m e, this]
  simpa [GoMap.has, alookup, mkSet] using gen []

/-- the channel `chanBuilder` returns for a node, from the model's initial channel -/
def ofChanR (dag : Bool) (c : Chan V) : channel V :=
  if dag then .of_dagChannel (TransDag.ofChan c) else .of_pregelChannel { Values := c.values }

/-- the manager `initChannelManager` builds for a runner (value or stream mode) -/
def initMgr (r : Runner V) (isStream : Bool) : channelManager V :=
  { isStream := isStream
    channels := (initChans r).map (fun p => (p.1, ofChanR r.dag p.2))
    successors := r.nodes.map (fun n => (n.key, n.successors))
    dataPredecessors := r.dataPreds.map (fun p => (p.1, mkSet p.2))
    controlPredecessors := r.ctrlPreds.map (fun p => (p.1, mkSet p.2)) }

theorem alookup_map_val {α β} (g : α → β) (m : List (Key × α)) (k : Key) :
    alookup k (m.map (fun p => (p.1, g p.2))) = (alookup k m).map g := by
  induction m with
  | nil => rfl
  | cons p m ih =>
    simp only [List.map_cons, alookup]
    by_cases h : (p.1 == k) = true
    · simp [h]
    · simp only [h, Bool.false_eq_true, if_false]; exact ih

theorem alookup_nodes (nodes : List (Node V)) (k : Key) :
    alookup k (nodes.map (fun n => (n.key, n.successors))) = (nodes.find? (·.key == k)).map Node.successors := by
  induction nodes with
  | nil => rfl
  | cons n ns ih =>
    simp only [List.map_cons, alookup, List.find?_cons]
    by_cases h : (n.key == k) = true
    · simp [h]
    · simp only [h, Bool.false_eq_true, if_false]; exact ih

theorem mem_initChans (r : Runner V) (p : Key × Chan V) (h : p ∈ initChans r) :
    ∃ cp dp, p.2 = Chan.init r.dag cp dp := by
  simp only [initChans, List.mem_append, List.mem_map, List.mem_singleton] at h
  rcases h with ⟨n, _, rfl⟩ | rfl
  · exact ⟨_, _, rfl⟩
  · exact ⟨_, _, rfl⟩

theorem chanOf_ofChanR_init (dag : Bool) (cp dp : List Key) :
    chanOf (ofChanR dag (Chan.init (V := V) dag cp dp)) = Chan.init dag cp dp := by
  cases dag <;> rfl

theorem initMgr_chans (r : Runner V) (s : Bool) : toChans (initMgr r s).channels = initChans r := by
  simp only [toChans, initMgr, List.map_map]
  have : ∀ p ∈ initChans r, ((fun p : Key × channel V => (p.1, chanOf p.2)) ∘ fun p => (p.1, ofChanR r.dag p.2)) p = p := by
    intro p hp
    obtain ⟨cp, dp, e⟩ := mem_initChans r p hp
    simp only [Function.comp, e, chanOf_ofChanR_init]
    rw [← e]
  exact (List.map_congr_left this).trans (List.map_id' _)

theorem initMgr_rel (r : Runner V) (s : Bool) : Rel r (initMgr r s) := by
  refine ⟨fun t f => ?_, fun t f => ?_, fun k => ?_, fun p hp => ?_⟩
  · simp only [initMgr, GoMap.getD', alookup_map_val, lookupList]
    cases alookup t r.dataPreds with
    | none => simp [GoMap.has, alookup]
    | some vs => simp [mkSet_has]
  · simp only [initMgr, GoMap.getD', alookup_map_val, lookupList]
    cases alookup t r.ctrlPreds with
    | none => simp [GoMap.has, alookup]
    | some vs => simp [mkSet_has]
  · simp only [initMgr, alookup_nodes, Runner.node?]
  · simp only [initMgr, List.mem_map] at hp
    obtain ⟨q, _, rfl⟩ := hp
    simp only [ofChanR]
    cases r.dag <;> rfl

theorem initMgr_ok (r : Runner V) (s : Bool) (hnd : (akeys (initChans r)).Nodup) :
    ChansOK r.dag (initMgr r s).channels := by
  refine ⟨?_, (initMgr_rel r s).mode, fun p hp => ?_⟩
  · simpa [KeysNodup, initMgr, List.map_map, Function.comp_def, akeys] using hnd
  · simp only [initMgr, List.mem_map] at hp
    obtain ⟨q, hq, rfl⟩ := hp
    obtain ⟨cp, dp, e⟩ := mem_initChans r q hq
    simp only [e, ofChanR]
    cases hd : r.dag with
    | false => trivial
    | true => exact TransDag.init_wf cp dp

/-- nothing is skipped initially -/
theorem init_not_skipped (r : Runner V) (k : Key) : skIn (initChans r) k = false := by
  unfold skIn
  cases hl : alookup k (initChans r) with
  | none => rfl
  | some c =>
    obtain ⟨cp, dp, e⟩ := mem_initChans r (k, c) (mem_of_alookup' _ _ _ hl)
    simp only at e; subst e
    simp only [Chan.init]; split <;> rfl

theorem init_skipClosed (r : Runner V) : SkipClosed r (initChans r) ∧ AllSkImp (initChans r) := by
  refine ⟨fun s hs => (by rw [init_not_skipped] at hs; cases hs), fun s c hc hsk => ?_⟩
  have := init_not_skipped r s
  simp only [skIn, hc] at this
  rw [this] at hsk; cases hsk

theorem initMgr_len (r : Runner V) (s : Bool) :
    (initMgr r s).channels.length ≤ (r.nodes.length + 2) * (r.nodes.length + 2) := by
  simp only [initMgr, initChans, List.length_map, List.length_append, List.length_singleton]
  have : r.nodes.length + 1 ≤ (r.nodes.length + 2) * 1 := by omega
  exact Nat.le_trans this (Nat.mul_le_mul_left _ (by omega))

/-- every successor of every node is a node or END (what AddEdge / AddBranch accept) -/
def RunnerClosed (r : Runner V) : Prop := ∀ n ∈ r.nodes, ∀ s ∈ n.successors, s ∈ akeys (initChans r)

theorem initMgr_closed (r : Runner V) (s : Bool) (h : RunnerClosed r) : SuccClosed (initMgr r s) := by
  intro k succs hk t ht
  simp only [initMgr, alookup_nodes] at hk
  cases hf : r.nodes.find? (·.key == k) with
  | none => simp [hf] at hk
  | some n =>
    simp only [hf, Option.map_some, Option.some.injEq] at hk
    subst hk
    have hmem := h n (List.mem_of_find?_eq_some hf) t ht
    simp only [initMgr, GoMap.has]
    rw [alookup_map_val]
    cases hl : alookup t (initChans r) with
    | some c => rfl
    | none =>
      exfalso
      have : ∀ (m : Chans V), t ∈ akeys m → alookup t m ≠ none := by
        intro m
        induction m with
        | nil => intro h; cases h
        | cons p m ih =>
          intro h
          simp only [akeys, List.map_cons, List.mem_cons] at h
          simp only [alookup]
          by_cases e : (p.1 == t) = true
          · simp [e]
          · simp only [e, Bool.false_eq_true, if_false]
            rcases h with h | h
            · exact absurd (by simp [h]) e
            · exact ih h
      exact this _ hmem hl
/-- the runner `compile` builds from a graph definition that AddEdge / AddBranch accept: every successor
    is a node or END -/
theorem compile_closed (slack : Nat) (g : GraphDef V)
    (edgeTo : ∀ e, e ∈ g.edges → e.2 = END ∨ e.2 ∈ g.nodes.map (·.1))
    (brTo : ∀ b, b ∈ g.branches → ∀ e, e ∈ b.2.ends → e = END ∨ e ∈ g.nodes.map (·.1)) :
    RunnerClosed (compile slack g) := by
  intro n hn s hs
  have hkeys : akeys (initChans (compile slack g)) = g.nodes.map (·.1) ++ [END] := by
    simp [akeys, initChans, compile, List.map_map, Function.comp_def]
  rw [hkeys]
  have key : s = END ∨ s ∈ g.nodes.map (·.1) := by
    simp only [compile, List.mem_map] at hn
    obtain ⟨p, _, rfl⟩ := hn
    simp only [Node.successors, List.mem_append, List.mem_map, List.mem_filter, List.mem_flatMap] at hs
    rcases hs with (⟨e, ⟨he, _⟩, rfl⟩ | ⟨e, ⟨he, _⟩, rfl⟩) | ⟨b, ⟨bb, ⟨hb, _⟩, rfl⟩, hs⟩
    · exact edgeTo e he
    · exact edgeTo e he
    · exact brTo bb hb s hs
  simp only [List.mem_append, List.mem_singleton]
  rcases key with h | h
  · exact Or.inr h
  · exact Or.inl h
/-- a compiled all-predecessor runner (`DagWF`: every node is a declared predecessor of its successors, the
    predecessor relation is acyclic — `validateDAG`) whose successors all have channels has an acyclic
    successor relation -/
theorem acyc_of_dagWF (r : Runner V) (wf : DagRun.DagWF r) (hc : RunnerClosed r) :
    ∃ rank : Key → Nat, ∀ n ∈ r.nodes, ∀ s ∈ n.successors, rank n.key < rank s := by
  obtain ⟨rank, hr⟩ := wf.acyclic
  refine ⟨rank, fun n hn s hs => ?_⟩
  have hmem := hc n hn s hs
  simp only [akeys, List.mem_map] at hmem
  obtain ⟨p, hp, rfl⟩ := hmem
  have hsh : (p.1, DagRun.shapeOf p.2) ∈ DagRun.shapes (initChans r) := by
    simp only [DagRun.shapes, List.mem_map]; exact ⟨p, hp, rfl⟩
  have := wf.succ n (Or.inl hn) p.1 hs (DagRun.shapeOf p.2).1 (DagRun.shapeOf p.2).2 hsh
  exact hr p.1 _ _ hsh n.key this

end EinoV.TransMgr
