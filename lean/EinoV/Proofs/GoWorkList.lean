/-
  Go's work list of `channelManager.reportBranch` against the model's (`propagateSkips`).

  The Go loop appends a key to `nKeys` every time `reportSkip` returns true, i.e. also when the channel
  was skipped already; the model (`skipOne`) appends a key only when the channel *becomes* skipped.
  This file defines Go's work list on the model's channels (`goSkipOne`, `goSkipStep`, `goWL`,
  `goReportBranch`) and proves that the two work lists have the same outcome (`goReportBranch_eq`):
  a key Go pops in addition has passed its skip on to all its successors already (`Told`), and
  reporting a skip a second time changes nothing (`told1_noop`); the model's own fuel `(n+2)²` is
  never exhausted (`mu`: every pop of the model's list turns one more channel skipped).

  Independent of the generated code (Proofs/TransMgr.lean ties the translated `reportBranch` to `goWL`).
-/
import EinoV.Model.Engine
import EinoV.Proofs.Assoc
namespace EinoV.GoWorkList
open EinoV.Engine
variable {V : Type}

/-! ### one channel, all-predecessor mode -/

def allSk (c : Chan V) : Bool := c.ctrl.all (fun p => p.2 == Dep.skipped)

/-- mark an existing key -/
def mark {α} (k : Key) (v : α) (m : List (Key × α)) : List (Key × α) :=
  if (alookup k m).isSome then aset k v m else m

theorem reportSkip_one (c : Chan V) (k : Key) :
    c.reportSkip true [k] =
      ({ c with ctrl := mark k Dep.skipped c.ctrl, data := mark k true c.data,
                skipped := (mark k Dep.skipped c.ctrl).all (fun p => p.2 == Dep.skipped) },
       (mark k Dep.skipped c.ctrl).all (fun p => p.2 == Dep.skipped)) := by
  unfold Chan.reportSkip mark
  simp only [if_true, List.foldl_cons, List.foldl_nil]
  by_cases h1 : (alookup k c.ctrl).isSome = true <;> by_cases h2 : (alookup k c.data).isSome = true <;>
    simp [h1, h2]

theorem alookup_mark {α} (k k' : Key) (v : α) (m : List (Key × α)) :
    alookup k' (mark k v m) = if k' = k then (alookup k m).map (fun _ => v) else alookup k' m := by
  unfold mark
  by_cases h : (alookup k m).isSome = true
  · simp only [h, if_true]
    by_cases e : k' = k
    · subst e
      simp only [if_true, alookup_aset_same]
      cases hl : alookup k' m with
      | none => simp [hl] at h
      | some x => rfl
    · simp only [e, if_false]; exact alookup_aset_other k k' v m e
  · simp only [h, Bool.false_eq_true, if_false]
    by_cases e : k' = k
    · subst e
      cases hl : alookup k' m with
      | none => simp
      | some x => simp [hl] at h
    · simp [e]

theorem mark_noop {α} (k : Key) (v : α) (m : List (Key × α)) (h : alookup k m = none ∨ alookup k m = some v) :
    mark k v m = m := by
  unfold mark
  rcases h with h | h
  · simp [h]
  · simp [h, aset_idem k v m h]

/-- the report of `k` is already on the channel: a further `reportSkip([k])` changes nothing -/
def Told1 (c : Chan V) (k : Key) : Prop :=
  (alookup k c.ctrl = none ∨ alookup k c.ctrl = some Dep.skipped) ∧
  (alookup k c.data = none ∨ alookup k c.data = some true) ∧
  c.skipped = allSk c

theorem told1_noop (c : Chan V) (k : Key) (h : Told1 c k) : c.reportSkip true [k] = (c, c.skipped) := by
  rw [reportSkip_one, mark_noop _ _ _ h.1, mark_noop _ _ _ h.2.1]
  have : c.skipped = c.ctrl.all (fun p => p.2 == Dep.skipped) := h.2.2
  rw [← this]

theorem told1_after (c : Chan V) (k k' : Key) (h : k = k' ∨ Told1 c k) :
    Told1 (c.reportSkip true [k']).1 k := by
  rw [reportSkip_one]
  refine ⟨?_, ?_, rfl⟩
  · simp only [alookup_mark]
    by_cases e : k = k'
    · subst e; simp only [if_true]
      cases alookup k c.ctrl <;> simp
    · simp only [e, if_false]
      rcases h with h | h
      · exact absurd h e
      · exact h.1
  · simp only [alookup_mark]
    by_cases e : k = k'
    · subst e; simp only [if_true]
      cases alookup k c.data <;> simp
    · simp only [e, if_false]
      rcases h with h | h
      · exact absurd h e
      · exact h.2.1

theorem all_aset (k : Key) (m : List (Key × Dep)) (h : m.all (fun p => p.2 == Dep.skipped) = true) :
    (aset k Dep.skipped m).all (fun p => p.2 == Dep.skipped) = true := by
  induction m with
  | nil => simp [aset]
  | cons p m ih =>
    obtain ⟨k', v⟩ := p
    simp only [List.all_cons, Bool.and_eq_true] at h
    by_cases e : (k' == k) = true
    · simp [aset, e, h.2]
    · simp only [aset, e, Bool.false_eq_true, if_false, List.all_cons, Bool.and_eq_true]
      exact ⟨h.1, ih h.2⟩

/-- a skipped channel has all its control predecessors skipped (true of every channel a run produces:
    `Skipped` is only ever set by `reportSkip`, to "all skipped", and the marks of a skipped channel are frozen) -/
def SkImp (c : Chan V) : Prop := c.skipped = true → allSk c = true

theorem skimp_out (c : Chan V) (k : Key) : SkImp (c.reportSkip true [k]).1 := by
  rw [reportSkip_one]; intro h; exact h

/-- a skipped channel stays skipped -/
theorem skimp_stays (c : Chan V) (k : Key) (h : SkImp c) (hs : c.skipped = true) :
    (c.reportSkip true [k]).2 = true := by
  rw [reportSkip_one]
  simp only [mark]
  split
  · exact all_aset k c.ctrl (h hs)
  · exact h hs

/-! ### the channels of a manager -/

/-- one `c.channels[s].reportSkip([]string{k})` as Go does it: the channels are the model's `skipOne`, the
    returned flag is what `reportSkip` returns (also when `s` was skipped before — the model's flag is
    "became skipped") -/
def goSkipOne (dag : Bool) (cm : Chans V) (s k : Key) : Chans V × Bool :=
  ((skipOne dag cm s k).1, match alookup s cm with
    | some ch => (ch.reportSkip dag [k]).2
    | none => false)

/-- Go's `if skipped { nKeys = append(nKeys, s) }` -/
def goSkipStep (dag : Bool) (k : Key) (acc : Chans V × List Key) (s : Key) : Chans V × List Key :=
  ((goSkipOne dag acc.1 s k).1, if (goSkipOne dag acc.1 s k).2 then acc.2 ++ [s] else acc.2)

def skIn (cm : Chans V) (s : Key) : Bool :=
  match alookup s cm with
  | some c => c.skipped
  | none => false

theorem alookup_modChan' (cm : Chans V) (k : Key) (f : Chan V → Chan V) (p : Key) :
    alookup p (modChan cm k f) = if p = k then (alookup p cm).map f else alookup p cm := by
  induction cm with
  | nil => simp [modChan, alookup]
  | cons q t ih =>
    obtain ⟨n0, c0⟩ := q
    simp only [modChan, List.map_cons] at ih ⊢
    by_cases h1 : (n0 == p) = true
    · have e1 : n0 = p := by simpa using h1
      subst e1
      by_cases h0 : n0 = k
      · subst h0; simp [alookup]
      · have : (n0 == k) = false := by simpa using h0
        simp [alookup, this, h0]
    · have h1' : (n0 == p) = false := by simpa using h1
      by_cases h0 : (n0 == k) = true
      · simp only [h0, if_true, alookup, h1', Bool.false_eq_true, if_false]; exact ih
      · simp only [h0, Bool.false_eq_true, if_false, alookup, h1']; exact ih

theorem alookup_skipOne (cm : Chans V) (s k s' : Key) :
    alookup s' (skipOne true cm s k).1 =
      if s' = s then (alookup s cm).map (fun c => (c.reportSkip true [k]).1) else alookup s' cm := by
  unfold skipOne
  simp only [Bool.not_true, Bool.false_eq_true, if_false]
  cases hl : alookup s cm with
  | none =>
    simp only [Option.map_none]
    by_cases e : s' = s
    · subst e; simp [hl]
    · simp [e]
  | some c =>
    simp only [alookup_modChan', Option.map_some]
    by_cases e : s' = s
    · subst e; simp [hl]
    · simp [e]

theorem skipOne_flag (cm : Chans V) (s k : Key) :
    (skipOne true cm s k).2 = match alookup s cm with
      | some c => ((c.reportSkip true [k]).2 && !c.skipped)
      | none => false := by
  unfold skipOne
  simp only [Bool.not_true, Bool.false_eq_true, if_false]
  cases alookup s cm <;> rfl

/-- the skip of `k` has been reported to every successor of `k` (popping `k` again changes nothing) -/
def Told (r : Runner V) (cm : Chans V) (k : Key) : Prop :=
  ∃ n, r.node? k = some n ∧ ∀ s ∈ n.successors, ∀ c, alookup s cm = some c → Told1 c k

theorem Told.step {r : Runner V} {cm : Chans V} {x : Key} (h : Told r cm x) (s k : Key) :
    Told r (skipOne true cm s k).1 x := by
  obtain ⟨n, hn, ht⟩ := h
  refine ⟨n, hn, fun t hts c' hc' => ?_⟩
  rw [alookup_skipOne] at hc'
  by_cases e : t = s
  · subst e
    simp only [if_true] at hc'
    cases hl : alookup t cm with
    | none => simp [hl] at hc'
    | some c =>
      simp only [hl, Option.map_some, Option.some.injEq] at hc'
      subst hc'
      exact told1_after c x k (Or.inr (ht t hts c hl))
  · simp only [e, if_false] at hc'
    exact ht t hts c' hc'

/-- every skipped channel is pending in the list `P`, or its skip has been passed on -/
def GC (r : Runner V) (cm : Chans V) (P : List Key) : Prop :=
  ∀ s, skIn cm s = true → s ∈ P ∨ Told r cm s

def AllSkImp (cm : Chans V) : Prop := ∀ s c, alookup s cm = some c → SkImp c

theorem AllSkImp.step {cm : Chans V} (h : AllSkImp cm) (s k : Key) : AllSkImp (skipOne true cm s k).1 := by
  intro t c' hc'
  rw [alookup_skipOne] at hc'
  by_cases e : t = s
  · subst e
    simp only [if_true] at hc'
    cases hl : alookup t cm with
    | none => simp [hl] at hc'
    | some c =>
      simp only [hl, Option.map_some, Option.some.injEq] at hc'
      subst hc'; exact skimp_out c k
  · simp only [e, if_false] at hc'
    exact h t c' hc'

theorem skIn_skipOne (cm : Chans V) (s k t : Key) :
    skIn (skipOne true cm s k).1 t = if t = s then (goSkipOne true cm s k).2 else skIn cm t := by
  unfold skIn goSkipOne
  rw [alookup_skipOne]
  by_cases e : t = s
  · subst e
    simp only [if_true]
    cases hl : alookup t cm with
    | none => rfl
    | some c => simp only [Option.map_some]; rw [reportSkip_one]
  · simp [e]

theorem GC.step {r : Runner V} {cm : Chans V} {P : List Key} (h : GC r cm P) (s k : Key) :
    GC r (skipOne true cm s k).1 (if (skipOne true cm s k).2 then P ++ [s] else P) := by
  intro t ht
  rw [skIn_skipOne] at ht
  have lift : t ∈ P ∨ Told r cm t →
      t ∈ (if (skipOne true cm s k).2 then P ++ [s] else P) ∨ Told r (skipOne true cm s k).1 t := by
    rintro (h1 | h1)
    · left; split
      · exact List.mem_append_left _ h1
      · exact h1
    · exact Or.inr (h1.step s k)
  by_cases e : t = s
  · subst e
    simp only [if_true] at ht
    by_cases hold : skIn cm t = true
    · exact lift (h t hold)
    · left
      have hf : (skipOne true cm t k).2 = true := by
        rw [skipOne_flag]
        unfold goSkipOne at ht; unfold skIn at hold
        cases hl : alookup t cm with
        | none => simp [hl] at ht
        | some c =>
          simp only [hl] at ht hold
          simp only [ht, Bool.true_and]
          simpa using hold
      simp [hf]
  · simp only [e, if_false] at ht
    exact lift (h t ht)

theorem modChan_self (cm : Chans V) (s : Key) (c : Chan V) (hnd : (akeys cm).Nodup)
    (hl : alookup s cm = some c) : modChan cm s (fun _ => c) = cm := by
  induction cm with
  | nil => rfl
  | cons p cm ih =>
    obtain ⟨k', c0⟩ := p
    simp only [akeys, List.map_cons, List.nodup_cons] at hnd
    by_cases h : (k' == s) = true
    · have e : k' = s := by simpa using h
      simp only [alookup, h, if_true, Option.some.injEq] at hl
      subst hl; subst e
      simp only [modChan, List.map_cons, h, if_true, List.cons.injEq, true_and]
      have : ∀ q ∈ cm, (if (q.1 == k') = true then (q.1, c0) else q) = q := by
        intro q hq
        have : q.1 ≠ k' := fun e => hnd.1 (e ▸ List.mem_map_of_mem (f := (·.1)) hq)
        have : (q.1 == k') = false := by simpa using this
        simp [this]
      exact (List.map_congr_left this).trans (List.map_id' cm)
    · have h' : (k' == s) = false := by simpa using h
      simp only [alookup, h', Bool.false_eq_true, if_false] at hl
      simp only [modChan, List.map_cons, h', Bool.false_eq_true, if_false, List.cons.injEq, true_and]
      exact ih hnd.2 hl

theorem akeys_skipOne (dag : Bool) (cm : Chans V) (s k : Key) : akeys (skipOne dag cm s k).1 = akeys cm := by
  unfold skipOne
  split
  · rfl
  · split
    · rfl
    · simp only [akeys, modChan, List.map_map]
      apply List.map_congr_left
      intro p _
      simp only [Function.comp]
      split <;> rfl

/-- popping a key whose skip has been passed on already changes no channel; Go appends every successor
    that is skipped once more -/
theorem told_pop (cm : Chans V) (x : Key) (hnd : (akeys cm).Nodup)
    (ss : List Key) (ht : ∀ s ∈ ss, ∀ c, alookup s cm = some c → Told1 c x) (q : List Key) :
    ss.foldl (goSkipStep true x) (cm, q) = (cm, q ++ ss.filter (skIn cm)) := by
  induction ss generalizing q with
  | nil => simp
  | cons s ss ih =>
    have h1 : goSkipOne true cm s x = (cm, skIn cm s) := by
      unfold goSkipOne skIn skipOne
      simp only [Bool.not_true, Bool.false_eq_true, if_false]
      cases hl : alookup s cm with
      | none => rfl
      | some c =>
        have := told1_noop c x (ht s (List.mem_cons_self ..) c hl)
        simp only [this, modChan_self cm s c hnd hl]
    simp only [List.foldl_cons, goSkipStep, h1]
    rw [ih (fun t hts => ht t (List.mem_cons_of_mem _ hts))]
    by_cases hs : skIn cm s = true
    · simp [hs]
    · simp [hs]

/-- what the fold over the successors of a popped key does not undo -/
theorem told1_fold (k : Key) (ss : List Key) (cm : Chans V) (a : List Key) (t : Key)
    (h : t ∈ ss ∨ ∀ c, alookup t cm = some c → Told1 c k) :
    ∀ c, alookup t (ss.foldl (skipStep true k) (cm, a)).1 = some c → Told1 c k := by
  induction ss generalizing cm a with
  | nil =>
    rcases h with h | h
    · cases h
    · exact h
  | cons s ss ih =>
    simp only [List.foldl_cons]
    apply ih
    by_cases hm : t ∈ ss
    · exact Or.inl hm
    · right
      intro c' hc'
      simp only at hc'
      rw [alookup_skipOne] at hc'
      by_cases e : t = s
      · subst e
        simp only [if_true] at hc'
        cases hl : alookup t cm with
        | none => simp [hl] at hc'
        | some c =>
          simp only [hl, Option.map_some, Option.some.injEq] at hc'
          subst hc'
          exact told1_after c k k (Or.inl rfl)
      · simp only [e, if_false] at hc'
        rcases h with h | h
        · rcases List.mem_cons.mp h with h | h
          · exact absurd h e
          · exact absurd h hm
        · exact h c' hc'

/-! ### the two work lists -/

/-- the number of channels that are not skipped -/
def mu (cm : Chans V) : Nat := (cm.filter (fun p => !p.2.skipped)).length

theorem mu_modChan (cm : Chans V) (s : Key) (c c' : Chan V) (hnd : (akeys cm).Nodup)
    (hl : alookup s cm = some c) :
    mu (modChan cm s (fun _ => c')) + (if c.skipped then 0 else 1) = mu cm + (if c'.skipped then 0 else 1) := by
  induction cm with
  | nil => simp [alookup] at hl
  | cons p cm ih =>
    obtain ⟨k', c0⟩ := p
    simp only [akeys, List.map_cons, List.nodup_cons] at hnd
    by_cases h : (k' == s) = true
    · have e : k' = s := by simpa using h
      simp only [alookup, h, if_true, Option.some.injEq] at hl
      subst hl; subst e
      have hrest : modChan cm k' (fun _ => c') = cm := by
        have : ∀ q ∈ cm, (if (q.1 == k') = true then (q.1, c') else q) = q := by
          intro q hq
          have : q.1 ≠ k' := fun e => hnd.1 (e ▸ List.mem_map_of_mem (f := (·.1)) hq)
          have : (q.1 == k') = false := by simpa using this
          simp [this]
        exact (List.map_congr_left this).trans (List.map_id' cm)
      simp only [modChan, List.map_cons, h, if_true] at hrest ⊢
      rw [hrest]
      simp only [mu, List.filter_cons]
      cases c0.skipped <;> cases c'.skipped <;> simp <;> omega
    · have h' : (k' == s) = false := by simpa using h
      simp only [alookup, h', Bool.false_eq_true, if_false] at hl
      have := ih hnd.2 hl
      simp only [modChan, List.map_cons, h', Bool.false_eq_true, if_false, mu, List.filter_cons] at this ⊢
      cases c0.skipped <;> simp at this ⊢ <;> omega

theorem mu_skipOne (cm : Chans V) (s k : Key) (hnd : (akeys cm).Nodup) (hsk : AllSkImp cm) :
    mu (skipOne true cm s k).1 + (if (skipOne true cm s k).2 then 1 else 0) = mu cm := by
  unfold skipOne
  simp only [Bool.not_true, Bool.false_eq_true, if_false]
  cases hl : alookup s cm with
  | none => simp
  | some c =>
    simp only
    have hm := mu_modChan cm s c (c.reportSkip true [k]).1 hnd hl
    have hout : (c.reportSkip true [k]).1.skipped = (c.reportSkip true [k]).2 := by rw [reportSkip_one]
    rw [hout] at hm
    by_cases hs : c.skipped = true
    · have := skimp_stays c k (hsk s c hl) hs
      simp only [hs, this, if_true, Bool.not_true, Bool.and_false, Bool.false_eq_true, if_false] at hm ⊢
      omega
    · have hs' : c.skipped = false := by simpa using hs
      simp only [hs', Bool.false_eq_true, if_false, Bool.not_false, Bool.and_true] at hm ⊢
      cases h2 : (c.reportSkip true [k]).2 <;> simp [h2] at hm ⊢ <;> omega

/-- Go's work list `qG` against the model's `qM`: the same keys in the same order, except that `qG` may
    contain further keys — keys that will have been popped before (they are in `P` or precede in `qM`), or
    whose skip has been passed on already (`Told`): popping those changes nothing -/
inductive Sim (r : Runner V) (cm : Chans V) : List Key → List Key → List Key → Prop where
  | nil (P : List Key) : Sim r cm P [] []
  | keep (P : List Key) (k : Key) (qG qM : List Key) : Sim r cm (k :: P) qG qM → Sim r cm P (k :: qG) (k :: qM)
  | red (P : List Key) (x : Key) (qG qM : List Key) : (x ∈ P ∨ Told r cm x) → Sim r cm P qG qM →
      Sim r cm P (x :: qG) qM

/-- `Told` only grows from `cm` to `cm'` -/
def TMono (r : Runner V) (cm cm' : Chans V) : Prop := ∀ x, Told r cm x → Told r cm' x

theorem Sim.weaken {r : Runner V} {cm cm' : Chans V} {P P' qG qM : List Key} (h : Sim r cm P qG qM)
    (hm : TMono r cm cm') (hp : ∀ x, x ∈ P → x ∈ P' ∨ Told r cm' x) : Sim r cm' P' qG qM := by
  induction h generalizing P' with
  | nil P => exact Sim.nil _
  | keep P k qG qM _ ih =>
    refine Sim.keep _ _ _ _ (ih (fun x hx => ?_))
    rcases List.mem_cons.mp hx with rfl | hx
    · exact Or.inl (List.mem_cons_self ..)
    · rcases hp x hx with h1 | h1
      · exact Or.inl (List.mem_cons_of_mem _ h1)
      · exact Or.inr h1
  | red P x qG qM hx _ ih =>
    refine Sim.red _ _ _ _ ?_ (ih hp)
    rcases hx with hx | hx
    · exact hp x hx
    · exact Or.inr (hm x hx)

theorem Sim.append {r : Runner V} {cm : Chans V} {P q1G q1M q2G q2M : List Key} (h1 : Sim r cm P q1G q1M)
    (h2 : Sim r cm (P ++ q1M) q2G q2M) : Sim r cm P (q1G ++ q2G) (q1M ++ q2M) := by
  induction h1 with
  | nil P => simpa using h2
  | keep P k qG qM _ ih =>
    refine Sim.keep _ _ _ _ (ih (h2.weaken (fun _ h => h) (fun x hx => Or.inl ?_)))
    simp only [List.mem_append, List.mem_cons] at hx ⊢
    rcases hx with hx | hx | hx
    · exact Or.inl (Or.inr hx)
    · exact Or.inl (Or.inl hx)
    · exact Or.inr hx
  | red P x qG qM hx _ ih => exact Sim.red _ _ _ _ hx (ih h2)

theorem Sim.snoc_keep {r : Runner V} {cm : Chans V} {P qG qM : List Key} (h : Sim r cm P qG qM) (s : Key) :
    Sim r cm P (qG ++ [s]) (qM ++ [s]) :=
  h.append (Sim.keep _ _ _ _ (Sim.nil _))

theorem Sim.snoc_red {r : Runner V} {cm : Chans V} {P qG qM : List Key} (h : Sim r cm P qG qM) (s : Key)
    (hs : s ∈ P ++ qM ∨ Told r cm s) : Sim r cm P (qG ++ [s]) qM := by
  have := h.append (Sim.red _ s [] [] hs (Sim.nil _))
  simpa using this

theorem Sim.all_red {r : Runner V} {cm : Chans V} {P : List Key} (l : List Key)
    (h : ∀ t ∈ l, t ∈ P ∨ Told r cm t) : Sim r cm P l [] := by
  induction l with
  | nil => exact Sim.nil _
  | cons t l ih =>
    exact Sim.red _ _ _ _ (h t (List.mem_cons_self ..)) (ih (fun u hu => h u (List.mem_cons_of_mem _ hu)))

theorem TMono.refl (r : Runner V) (cm : Chans V) : TMono r cm cm := fun _ h => h

theorem TMono.skipOne (r : Runner V) (cm : Chans V) (s k : Key) : TMono r cm (skipOne true cm s k).1 :=
  fun _ h => h.step s k

/-- the successors of one popped key (or the skipped ends of a branch), reported by Go and by the model -/
theorem fold_sim (r : Runner V) (k : Key) (Pb : List Key) (ss : List Key) :
    ∀ (cm : Chans V) (aG aM : List Key), (akeys cm).Nodup → AllSkImp cm → GC r cm (Pb ++ aM) →
      Sim r cm Pb aG aM →
      (ss.foldl (goSkipStep true k) (cm, aG)).1 = (ss.foldl (skipStep true k) (cm, aM)).1 ∧
      (akeys (ss.foldl (skipStep true k) (cm, aM)).1).Nodup ∧
      AllSkImp (ss.foldl (skipStep true k) (cm, aM)).1 ∧
      GC r (ss.foldl (skipStep true k) (cm, aM)).1 (Pb ++ (ss.foldl (skipStep true k) (cm, aM)).2) ∧
      Sim r (ss.foldl (skipStep true k) (cm, aM)).1 Pb (ss.foldl (goSkipStep true k) (cm, aG)).2
        (ss.foldl (skipStep true k) (cm, aM)).2 ∧
      TMono r cm (ss.foldl (skipStep true k) (cm, aM)).1 ∧
      mu (ss.foldl (skipStep true k) (cm, aM)).1 + (ss.foldl (skipStep true k) (cm, aM)).2.length
        = mu cm + aM.length := by
  induction ss with
  | nil => intro cm aG aM hnd hsk hgc hsim; exact ⟨rfl, hnd, hsk, hgc, hsim, TMono.refl _ _, rfl⟩
  | cons s ss ih =>
    intro cm aG aM hnd hsk hgc hsim
    simp only [List.foldl_cons]
    have hG1 : (goSkipStep true k (cm, aG) s).1 = (skipOne true cm s k).1 := rfl
    have hM1 : (skipStep true k (cm, aM) s).1 = (skipOne true cm s k).1 := rfl
    have hM2 : (skipStep true k (cm, aM) s).2 = if (skipOne true cm s k).2 then aM ++ [s] else aM := rfl
    have hG2 : (goSkipStep true k (cm, aG) s).2 = if (goSkipOne true cm s k).2 then aG ++ [s] else aG := rfl
    have hnd' : (akeys (skipOne true cm s k).1).Nodup := by rw [akeys_skipOne]; exact hnd
    have hgc' := hgc.step s k
    have hmu := mu_skipOne cm s k hnd hsk
    have hsim0 : Sim r (skipOne true cm s k).1 Pb aG aM :=
      hsim.weaken (TMono.skipOne r cm s k) (fun _ h => Or.inl h)
    -- the flags
    have hflags : (skipOne true cm s k).2 = ((goSkipOne true cm s k).2 && !skIn cm s) := by
      rw [skipOne_flag]; unfold goSkipOne skIn
      cases alookup s cm <;> simp
    have hsim' : Sim r (skipOne true cm s k).1 Pb (goSkipStep true k (cm, aG) s).2 (skipStep true k (cm, aM) s).2 := by
      rw [hG2, hM2, hflags]
      by_cases hg : (goSkipOne true cm s k).2 = true
      · by_cases hold : skIn cm s = true
        · simp only [hg, hold, Bool.not_true, Bool.and_false, Bool.false_eq_true, if_false, if_true]
          refine hsim0.snoc_red s ?_
          rcases hgc s hold with h1 | h1
          · exact Or.inl h1
          · exact Or.inr (h1.step s k)
        · have hold' : skIn cm s = false := by simpa using hold
          simp only [hg, hold', Bool.not_false, Bool.and_true, if_true]
          exact hsim0.snoc_keep s
      · have hg' : (goSkipOne true cm s k).2 = false := by simpa using hg
        simp only [hg', Bool.false_and, Bool.false_eq_true, if_false]
        exact hsim0
    have hgc'' : GC r (skipOne true cm s k).1 (Pb ++ (skipStep true k (cm, aM) s).2) := by
      rw [hM2]
      intro t ht
      rcases hgc' t ht with h1 | h1
      · left
        by_cases hf : (skipOne true cm s k).2 = true
        · simp only [hf, if_true] at h1 ⊢
          simpa [List.append_assoc] using h1
        · simp only [hf, Bool.false_eq_true, if_false] at h1 ⊢
          exact h1
      · exact Or.inr h1
    obtain ⟨i1, i2, i3, i4, i5, i6, i7⟩ := ih (skipOne true cm s k).1 (goSkipStep true k (cm, aG) s).2
      (skipStep true k (cm, aM) s).2 hnd' (hsk.step s k) hgc'' hsim'
    have eG : goSkipStep true k (cm, aG) s = ((skipOne true cm s k).1, (goSkipStep true k (cm, aG) s).2) := rfl
    have eM : skipStep true k (cm, aM) s = ((skipOne true cm s k).1, (skipStep true k (cm, aM) s).2) := rfl
    rw [eG, eM]
    refine ⟨i1, i2, i3, i4, i5, fun x hx => i6 x (hx.step s k), ?_⟩
    rw [i7, hM2]
    by_cases hf : (skipOne true cm s k).2 = true
    · simp only [hf, if_true, List.length_append, List.length_singleton] at hmu ⊢; omega
    · simp only [hf, Bool.false_eq_true, if_false] at hmu ⊢; omega

/-- Go's work list with the pending keys as a queue -/
def goQ (r : Runner V) : Nat → Chans V → List Key → Option (Except Err (Chans V))
  | _, cm, [] => some (.ok cm)
  | 0, _, _ :: _ => none
  | fuel + 1, cm, k :: rest =>
    match r.node? k with
    | none => some (.error { cls := .endSkipped })
    | some n =>
      goQ r fuel (n.successors.foldl (goSkipStep r.dag k) (cm, [])).1
        (rest ++ (n.successors.foldl (goSkipStep r.dag k) (cm, [])).2)

theorem sim_nil_left {r : Runner V} {cm : Chans V} {P qM : List Key} (h : Sim r cm P [] qM) : qM = [] := by
  cases h; rfl

/-- the two work lists reach the same channels (or the same error): the keys Go pops in addition change
    nothing.  `mu cm + qM.length` bounds the number of pops of the model's list. -/
theorem sim_main (r : Runner V) (hd : r.dag = true) :
    ∀ (fuelG : Nat) (cm : Chans V) (qG qM : List Key) (R : Except Err (Chans V)),
      (akeys cm).Nodup → AllSkImp cm → GC r cm qM → Sim r cm [] qG qM →
      goQ r fuelG cm qG = some R →
      ∀ fuelM, mu cm + qM.length ≤ fuelM → propagateSkips r fuelM cm qM = R ∧
        ∀ cm', R = .ok cm' → (akeys cm').Nodup ∧ AllSkImp cm' ∧ GC r cm' [] := by
  intro fuelG
  induction fuelG with
  | zero =>
    intro cm qG qM R hnd hsk hgc hsim hgo fuelM hf
    cases qG with
    | nil =>
      have := sim_nil_left hsim; subst this
      simp only [goQ, Option.some.injEq] at hgo; subst hgo
      refine ⟨by cases fuelM <;> simp [propagateSkips], fun cm' h => ?_⟩
      simp only [Except.ok.injEq] at h; subst h; exact ⟨hnd, hsk, hgc⟩
    | cons x qG' => simp [goQ] at hgo
  | succ f ih =>
    intro cm qG qM R hnd hsk hgc hsim hgo fuelM hf
    cases qG with
    | nil =>
      have := sim_nil_left hsim; subst this
      simp only [goQ, Option.some.injEq] at hgo; subst hgo
      refine ⟨by cases fuelM <;> simp [propagateSkips], fun cm' h => ?_⟩
      simp only [Except.ok.injEq] at h; subst h; exact ⟨hnd, hsk, hgc⟩
    | cons x qG' =>
      cases hsim with
      | keep _ _ _ qM' hsim' =>
        -- both pop x
        obtain ⟨m, rfl⟩ : ∃ m, fuelM = m + 1 := by
          cases fuelM with
          | zero => simp at hf
          | succ m => exact ⟨m, rfl⟩
        simp only [goQ, propagateSkips, hd] at hgo ⊢
        cases hn : r.node? x with
        | none =>
          simp only [hn, Option.some.injEq] at hgo ⊢
          exact ⟨hgo, fun cm' h => by rw [← hgo] at h; cases h⟩
        | some n =>
          simp only [hn] at hgo ⊢
          obtain ⟨e1, e2, e3, e4, e5, e6, e7⟩ := fold_sim r x (x :: qM') n.successors cm [] [] hnd hsk
            (by simpa using hgc) (Sim.nil _)
          have htold : Told r (n.successors.foldl (skipStep true x) (cm, [])).1 x :=
            ⟨n, hn, fun s hs c hc => told1_fold x n.successors cm [] s (Or.inl hs) c hc⟩
          rw [e1] at hgo
          refine ih _ _ _ R e2 e3 ?_ ?_ hgo m ?_
          · intro s hs
            rcases e4 s hs with h1 | h1
            · simp only [List.cons_append, List.mem_cons] at h1
              rcases h1 with rfl | h1
              · exact Or.inr htold
              · exact Or.inl h1
            · exact Or.inr h1
          · have s1 : Sim r (n.successors.foldl (skipStep true x) (cm, [])).1 [] qG' qM' :=
              hsim'.weaken e6 (fun y hy => by
                rcases List.mem_cons.mp hy with rfl | hy
                · exact Or.inr htold
                · cases hy)
            refine s1.append (e5.weaken (TMono.refl _ _) (fun y hy => ?_))
            rcases List.mem_cons.mp hy with rfl | hy
            · exact Or.inr htold
            · exact Or.inl (by simpa using hy)
          · simp only [List.length_append, List.length_cons, List.length_nil] at e7 hf ⊢
            omega
      | red _ _ _ _ hx hsim' =>
        -- Go pops a key whose skip has been passed on: nothing changes
        have htold : Told r cm x := by
          rcases hx with hx | hx
          · cases hx
          · exact hx
        obtain ⟨n, hn, ht⟩ := htold
        simp only [goQ, hn, hd] at hgo
        rw [told_pop cm x hnd n.successors ht []] at hgo
        simp only [List.nil_append] at hgo
        refine ih cm _ qM R hnd hsk hgc ?_ hgo fuelM hf
        have h2 : Sim r cm ([] ++ qM) (n.successors.filter (skIn cm)) [] := by
          apply Sim.all_red
          intro t ht'
          have := (List.mem_filter.mp ht').2
          simpa using hgc t this
        simpa using hsim'.append h2

/-- Go's work list of `reportBranch` on the model's channels as the code has it: `nKeys` grows at its end,
    `i` is the next key to pop, a key is appended whenever `reportSkip` returns true.  `none`: the fuel ran
    out before the list was exhausted (the Go loop, which has no fuel, has not finished yet). -/
def goWL (r : Runner V) : Nat → Chans V → List Key → Nat → Option (Except Err (Chans V))
  | 0, cm, nKeys, i => if i < nKeys.length then none else some (.ok cm)
  | fuel + 1, cm, nKeys, i =>
    if i < nKeys.length then
      match r.node? (nKeys.getD i "") with
      | none => some (.error { cls := .endSkipped })
      | some n =>
        goWL r fuel (n.successors.foldl (goSkipStep r.dag (nKeys.getD i "")) (cm, nKeys)).1
          (n.successors.foldl (goSkipStep r.dag (nKeys.getD i "")) (cm, nKeys)).2 (i + 1)
    else some (.ok cm)

theorem goSkip_fold_acc (dag : Bool) (k : Key) (ss : List Key) (cm : Chans V) (q q' : List Key) :
    ss.foldl (goSkipStep dag k) (cm, q ++ q') =
      ((ss.foldl (goSkipStep dag k) (cm, q')).1, q ++ (ss.foldl (goSkipStep dag k) (cm, q')).2) := by
  induction ss generalizing cm q' with
  | nil => rfl
  | cons s ss ih =>
    simp only [List.foldl_cons, goSkipStep]
    by_cases h : (goSkipOne dag cm s k).2 = true
    · simp only [h, if_true, List.append_assoc]; exact ih _ _
    · simp only [h, Bool.false_eq_true, if_false]; exact ih _ _

theorem goWL_eq_goQ (r : Runner V) : ∀ (fuel : Nat) (cm : Chans V) (nKeys : List Key) (i : Nat),
    i ≤ nKeys.length → goWL r fuel cm nKeys i = goQ r fuel cm (nKeys.drop i) := by
  intro fuel
  induction fuel with
  | zero =>
    intro cm nKeys i hi
    simp only [goWL]
    by_cases h : i < nKeys.length
    · obtain ⟨x, rest, e⟩ : ∃ x rest, nKeys.drop i = x :: rest := by
        cases hd : nKeys.drop i with
        | nil => have := List.drop_eq_nil_iff.mp hd; omega
        | cons x rest => exact ⟨x, rest, rfl⟩
      simp [h, e, goQ]
    · have : nKeys.drop i = [] := List.drop_eq_nil_iff.mpr (by omega)
      simp [h, this, goQ]
  | succ f ih =>
    intro cm nKeys i hi
    simp only [goWL]
    by_cases h : i < nKeys.length
    · have e : nKeys.drop i = nKeys.getD i "" :: nKeys.drop (i + 1) := by
        rw [List.drop_eq_getElem_cons h]
        simp [List.getD_eq_getElem?_getD, h]
      simp only [h, if_true, e, goQ]
      cases hn : r.node? (nKeys.getD i "") with
      | none => rfl
      | some n =>
        simp only
        have hacc := goSkip_fold_acc r.dag (nKeys.getD i "") n.successors cm nKeys []
        simp only [List.append_nil] at hacc
        rw [hacc]
        simp only
        rw [ih _ _ (i + 1) (by simp only [List.length_append]; omega)]
        congr 1
        rw [List.drop_append_of_le_length (by omega)]
    · have : nKeys.drop i = [] := List.drop_eq_nil_iff.mpr (by omega)
      simp [h, this, goQ]

/-- Go's `reportBranch` on the model's channels: the first loop, then the work list -/
def goReportBranch (r : Runner V) (fuel : Nat) (cm : Chans V) (from_ : Key) (sk : List Key) :
    Option (Except Err (Chans V)) :=
  goWL r fuel (sk.foldl (goSkipStep r.dag from_) (cm, [])).1 (sk.foldl (goSkipStep r.dag from_) (cm, [])).2 0

/-- every skipped channel has passed its skip on to its successors (in particular END is not skipped):
    true before the first `reportBranch` of a run, and kept by `reportBranch` itself (`sim_closed`) -/
def SkipClosed (r : Runner V) (cm : Chans V) : Prop := GC r cm []

theorem pregel_never_pushes (k : Key) (ss : List Key) (cm : Chans V) (q : List Key) :
    ss.foldl (goSkipStep false k) (cm, q) = (cm, q) ∧ ss.foldl (skipStep false k) (cm, q) = (cm, q) := by
  induction ss with
  | nil => exact ⟨rfl, rfl⟩
  | cons s ss ih =>
    have h1 : goSkipStep false k (cm, q) s = (cm, q) := by
      simp only [goSkipStep, goSkipOne, skipOne, Bool.not_false, if_true]
      cases alookup s cm <;> simp [Chan.reportSkip]
    have h2 : skipStep false k (cm, q) s = (cm, q) := by
      simp [skipStep, skipOne]
    simp only [List.foldl_cons, h1, h2]; exact ih

/-- **Go's work list and the model's work list compute the same.**  Whenever Go's loop (which pushes a key
    every time `reportSkip` returns true) runs to completion with the given fuel, its outcome is that of the
    model's `reportBranch` (which pushes a key only when it becomes skipped, with its own fuel
    `(n+2)²`): the same channels, or the same "unknown node" error. -/
theorem goReportBranch_eq (r : Runner V) (fuel : Nat) (cm : Chans V) (from_ : Key) (sk : List Key)
    (R : Except Err (Chans V)) (hnd : (akeys cm).Nodup) (hsk : AllSkImp cm) (hcl : SkipClosed r cm)
    (hlen : cm.length ≤ (r.nodes.length + 2) * (r.nodes.length + 2))
    (hgo : goReportBranch r fuel cm from_ sk = some R) :
    reportBranch r cm from_ sk = R ∧
      ∀ cm', R = .ok cm' → r.dag = true → (akeys cm').Nodup ∧ AllSkImp cm' ∧ SkipClosed r cm' := by
  unfold goReportBranch at hgo
  unfold reportBranch
  cases hd : r.dag with
  | false =>
    rw [hd] at hgo
    obtain ⟨p1, p2⟩ := pregel_never_pushes from_ sk cm []
    rw [p1] at hgo
    rw [p2]
    simp only
    have : R = .ok cm := by
      cases fuel <;> simp [goWL] at hgo <;> exact hgo.symm
    subst this
    refine ⟨by cases (r.nodes.length + 2) * (r.nodes.length + 2) <;> simp [propagateSkips], fun _ _ h => by cases h⟩
  | true =>
    rw [hd] at hgo
    obtain ⟨e1, e2, e3, e4, e5, _, e7⟩ := fold_sim r from_ [] sk cm [] [] hnd hsk (by simpa [SkipClosed] using hcl) (Sim.nil _)
    rw [goWL_eq_goQ r fuel _ _ 0 (Nat.zero_le _), List.drop_zero, e1] at hgo
    have := sim_main r hd fuel _ _ _ R e2 e3 (by simpa using e4) e5 hgo
      ((r.nodes.length + 2) * (r.nodes.length + 2)) ?_
    · exact ⟨this.1, fun cm' h _ => this.2 cm' h⟩
    have hmu : mu cm ≤ cm.length := by unfold mu; exact List.length_filter_le _ _
    simp only [List.length_nil] at e7
    omega

/-- any-predecessor mode: `reportSkip` always returns false, nothing is appended, nothing changes -/
theorem goReportBranch_pregel (r : Runner V) (hd : r.dag = false) (fuel : Nat) (cm : Chans V) (from_ : Key)
    (sk : List Key) : goReportBranch r fuel cm from_ sk = some (.ok cm) := by
  unfold goReportBranch
  rw [hd, (pregel_never_pushes from_ sk cm []).1]
  cases fuel <;> simp [goWL]

/-! ### Go's work list terminates on an acyclic successor relation -/

def succOf (r : Runner V) (k : Key) : List Key := ((r.node? k).map Node.successors).getD []

/-- a bound on the number of pops that popping `k` can cause, for paths of at most `d` further edges:
    Go's list pops a key once per path that reaches it -/
def W (r : Runner V) : Nat → Key → Nat
  | 0, _ => 1
  | d + 1, k => 1 + ((succOf r k).map (W r d)).sum

def Psi (r : Runner V) (rank : Key → Nat) (D : Nat) (q : List Key) : Nat :=
  (q.map (fun k => W r (D - rank k) k)).sum

theorem sum_map_le {α} (l : List α) (f g : α → Nat) (h : ∀ x ∈ l, f x ≤ g x) : (l.map f).sum ≤ (l.map g).sum := by
  induction l with
  | nil => simp
  | cons a l ih =>
    simp only [List.map_cons, List.sum_cons]
    have := h a (List.mem_cons_self ..)
    have := ih (fun x hx => h x (List.mem_cons_of_mem _ hx))
    omega

theorem sum_map_sublist {α} (l l' : List α) (f : α → Nat) (h : l.Sublist l') : (l.map f).sum ≤ (l'.map f).sum := by
  induction h with
  | slnil => simp
  | cons a _ ih => simp only [List.map_cons, List.sum_cons]; omega
  | cons_cons a _ ih => simp only [List.map_cons, List.sum_cons]; omega

theorem W_mono (r : Runner V) (d : Nat) : ∀ k, W r d k ≤ W r (d + 1) k := by
  induction d with
  | zero => intro k; simp [W]
  | succ d ih =>
    intro k
    simp only [W] at ih ⊢
    have := sum_map_le (succOf r k) (W r d) (W r (d + 1)) (fun s _ => by simpa [W] using ih s)
    simp only [W] at this
    omega

theorem W_mono' (r : Runner V) (k : Key) {d d' : Nat} (h : d ≤ d') : W r d k ≤ W r d' k := by
  induction h with
  | refl => exact Nat.le_refl _
  | step _ ih => exact Nat.le_trans ih (W_mono r _ k)

theorem W_pos (r : Runner V) (d : Nat) (k : Key) : 1 ≤ W r d k := by
  cases d <;> simp [W] <;> omega

theorem mem_akeys_of_alookup (cm : Chans V) (s : Key) (c : Chan V) (h : alookup s cm = some c) : s ∈ akeys cm := by
  induction cm with
  | nil => simp [alookup] at h
  | cons p cm ih =>
    simp only [alookup] at h
    simp only [akeys, List.map_cons, List.mem_cons]
    by_cases e : (p.1 == s) = true
    · left; exact (by simpa using e : p.1 = s).symm
    · simp only [e, Bool.false_eq_true, if_false] at h
      exact Or.inr (ih h)

/-- what one fold over successors appends: a sublist of them, all with a channel -/
theorem pushes_sublist (dag : Bool) (k : Key) (ss : List Key) (cm : Chans V) (q : List Key) :
    ∃ pushed, (ss.foldl (goSkipStep dag k) (cm, q)).2 = q ++ pushed ∧ pushed.Sublist ss ∧
      (∀ s ∈ pushed, s ∈ akeys cm) ∧ akeys (ss.foldl (goSkipStep dag k) (cm, q)).1 = akeys cm := by
  induction ss generalizing cm q with
  | nil => exact ⟨[], by simp, List.Sublist.refl _, by simp, rfl⟩
  | cons s ss ih =>
    simp only [List.foldl_cons]
    have hk : akeys (goSkipStep dag k (cm, q) s).1 = akeys cm := akeys_skipOne dag cm s k
    by_cases hf : (goSkipOne dag cm s k).2 = true
    · have hs : s ∈ akeys cm := by
        unfold goSkipOne at hf
        cases hl : alookup s cm with
        | none => simp [hl] at hf
        | some c => exact mem_akeys_of_alookup cm s c hl
      obtain ⟨p, e1, e2, e3, e4⟩ := ih (goSkipStep dag k (cm, q) s).1 (q ++ [s])
      have e : goSkipStep dag k (cm, q) s = ((goSkipStep dag k (cm, q) s).1, q ++ [s]) := by
        simp [goSkipStep, hf]
      rw [e]
      refine ⟨s :: p, by rw [e1]; simp, List.Sublist.cons_cons _ e2, ?_, by rw [e4, hk]⟩
      intro t ht
      rcases List.mem_cons.mp ht with rfl | ht
      · exact hs
      · rw [← hk]; exact e3 t ht
    · obtain ⟨p, e1, e2, e3, e4⟩ := ih (goSkipStep dag k (cm, q) s).1 q
      have e : goSkipStep dag k (cm, q) s = ((goSkipStep dag k (cm, q) s).1, q) := by
        simp [goSkipStep, hf]
      rw [e]
      refine ⟨p, e1, List.Sublist.cons _ e2, ?_, by rw [e4, hk]⟩
      intro t ht
      rw [← hk]; exact e3 t ht

theorem node?_key (r : Runner V) (k : Key) (n : Node V) (h : r.node? k = some n) : n ∈ r.nodes ∧ n.key = k := by
  unfold Runner.node? at h
  exact ⟨List.mem_of_find?_eq_some h, by simpa using List.find?_some h⟩

/-- with `Psi` fuel the queue is exhausted (or the "unknown node" error is reached) -/
theorem goQ_terminates (r : Runner V) (rank : Key → Nat) (D : Nat)
    (hacyc : ∀ n ∈ r.nodes, ∀ s ∈ n.successors, rank n.key < rank s) :
    ∀ (fuel : Nat) (cm : Chans V) (q : List Key), (∀ k ∈ q, k ∈ akeys cm) → (∀ k ∈ akeys cm, rank k ≤ D) →
      Psi r rank D q ≤ fuel → ∃ R, goQ r fuel cm q = some R := by
  intro fuel
  induction fuel with
  | zero =>
    intro cm q hq hD hf
    cases q with
    | nil => exact ⟨_, rfl⟩
    | cons k rest =>
      simp only [Psi, List.map_cons, List.sum_cons] at hf
      have := W_pos r (D - rank k) k
      omega
  | succ f ih =>
    intro cm q hq hD hf
    cases q with
    | nil => exact ⟨_, rfl⟩
    | cons k rest =>
      simp only [goQ]
      cases hn : r.node? k with
      | none => exact ⟨_, rfl⟩
      | some n =>
        simp only
        obtain ⟨hmem, hkey⟩ := node?_key r k n hn
        obtain ⟨pushed, e1, e2, e3, e4⟩ := pushes_sublist r.dag k n.successors cm []
        rw [e1]
        simp only [List.nil_append]
        apply ih
        · intro t ht
          rw [e4]
          rcases List.mem_append.mp ht with ht | ht
          · exact hq t (List.mem_cons_of_mem _ ht)
          · exact e3 t ht
        · rw [e4]; exact hD
        · have hk : k ∈ akeys cm := hq k (List.mem_cons_self ..)
          have hrk : rank k ≤ D := hD k hk
          have hsucc : succOf r k = n.successors := by simp [succOf, hn]
          have hpush : Psi r rank D pushed + 1 ≤ W r (D - rank k) k := by
            cases hd : D - rank k with
            | zero =>
              have hp : pushed = [] := by
                cases pushed with
                | nil => rfl
                | cons s ps =>
                  exfalso
                  have h1 := e3 s (List.mem_cons_self ..)
                  have h2 := hD s h1
                  have h3 := hacyc n hmem s (e2.subset (List.mem_cons_self ..))
                  rw [hkey] at h3
                  omega
              simp [hp, Psi, W]
            | succ d =>
              simp only [W, hsucc]
              have h1 : Psi r rank D pushed ≤ (pushed.map (W r d)).sum := by
                unfold Psi
                apply sum_map_le
                intro s hs
                apply W_mono'
                have h3 := hacyc n hmem s (e2.subset hs)
                rw [hkey] at h3
                omega
              have h2 := sum_map_sublist pushed n.successors (W r d) e2
              omega
          simp only [Psi, List.map_cons, List.sum_cons, List.map_append, List.sum_append] at hf hpush ⊢
          omega


theorem exists_rank_bound (rank : Key → Nat) (l : List Key) : ∃ D, ∀ k ∈ l, rank k ≤ D := by
  induction l with
  | nil => exact ⟨0, fun _ h => by cases h⟩
  | cons a l ih =>
    obtain ⟨D, hD⟩ := ih
    refine ⟨max D (rank a), fun k hk => ?_⟩
    rcases List.mem_cons.mp hk with rfl | hk
    · exact Nat.le_max_right _ _
    · exact Nat.le_trans (hD k hk) (Nat.le_max_left _ _)

/-- **the Go loop of `reportBranch` terminates** when the successor relation is acyclic (what `validateDAG`
    enforces in all-predecessor mode; in any-predecessor mode nothing is ever appended): there is a fuel
    from which on Go's work list is exhausted -/
theorem goReportBranch_terminates (r : Runner V) (rank : Key → Nat)
    (hacyc : r.dag = true → ∀ n ∈ r.nodes, ∀ s ∈ n.successors, rank n.key < rank s)
    (cm : Chans V) (from_ : Key) (sk : List Key) :
    ∃ N, ∀ fuel, N ≤ fuel → ∃ R, goReportBranch r fuel cm from_ sk = some R := by
  cases hd : r.dag with
  | false => exact ⟨0, fun fuel _ => ⟨_, goReportBranch_pregel r hd fuel cm from_ sk⟩⟩
  | true =>
    obtain ⟨D, hD⟩ := exists_rank_bound rank (akeys cm)
    obtain ⟨pushed, e1, _, e3, e4⟩ := pushes_sublist r.dag from_ sk cm []
    refine ⟨Psi r rank D pushed, fun fuel hf => ?_⟩
    unfold goReportBranch
    rw [goWL_eq_goQ r fuel _ _ 0 (Nat.zero_le _), List.drop_zero, e1]
    simp only [List.nil_append]
    exact goQ_terminates r rank D (hacyc hd) fuel _ pushed (fun k hk => by rw [e4]; exact e3 k hk)
      (by rw [e4]; exact hD) hf

end EinoV.GoWorkList
