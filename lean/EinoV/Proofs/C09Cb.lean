/-
  C09 — callback handlers of concurrent runs: the run invariant of the copying collection
  (`cbs = append(cbs, opt.handler...)` from the nil slice) and the copying `AppendHandlers`
  under Go slice semantics.  (Property statements are in EinoV/Props/C09.lean.)
-/
import EinoV.Model.C09Cb
import EinoV.Proofs.C09Opt

namespace EinoV.C09.Cb
open EinoV.C10
open EinoV.C09.Opt (Owned arrOf read_congr read_empty goAppend_spec owned_cap_zero collect)

/-- the handlers a list of slices denotes in the caller's memory -/
def fl (h0 : Heap) (l : List Slice) : List Hd := (l.map h0.read).flatten

theorem fl_nil (h0 : Heap) : fl h0 [] = [] := rfl

theorem fl_append (h0 : Heap) (a b : List Slice) : fl h0 (a ++ b) = fl h0 a ++ fl h0 b := by
  simp [fl]

theorem fl_single (h0 : Heap) (g : Slice) : fl h0 [g] = h0.read g := by simp [fl]

/-! ### `scan` -/

theorem scan_append (a b : List Instr) : ∀ d p : List Slice,
    scan (a ++ b) d p = scan b (scan a d p).1 (scan a d p).2 := by
  induction a with
  | nil => intro d p; rfl
  | cons i rest ih =>
    intro d p
    cases i with
    | collect top g => simp only [List.cons_append, scan]; exact ih _ _
    | install => simp only [List.cons_append, scan]; exact ih _ _

theorem scan_snoc_collect (a : List Instr) (top : Bool) (g : Slice) :
    scan (a ++ [Instr.collect top g]) [] [] = ((scan a [] []).1, (scan a [] []).2 ++ [g]) := by
  rw [scan_append]; rfl

theorem scan_snoc_install (a : List Instr) :
    scan (a ++ [Instr.install]) [] [] = ((scan a [] []).1 ++ (scan a [] []).2, []) := by
  rw [scan_append]; rfl

/-- the code generated for a list of levels installs every collected slice, level by level -/
theorem scan_instrsFrom (lv : List (List Slice)) : ∀ (top : Bool) (d : List Slice),
    scan (instrsFrom top lv) d [] = (d ++ lv.flatten, []) := by
  induction lv with
  | nil => intro top d; simp [instrsFrom, scan]
  | cons l rest ih =>
    intro top d
    have hcol : ∀ (xs : List Slice) (r : List Instr) (d p : List Slice),
        scan (xs.map (Instr.collect top) ++ r) d p = scan r d (p ++ xs) := by
      intro xs
      induction xs with
      | nil => intro r d p; simp
      | cons x xs ihx =>
        intro r d p
        simp only [List.map_cons, List.cons_append, scan]
        rw [ihx]
        simp
    simp only [instrsFrom]
    rw [hcol, scan, ih]
    simp

theorem installed_instrsFrom (lv : List (List Slice)) : installed (instrsFrom true lv) = lv.flatten := by
  simp [installed, scan_instrsFrom]

/-! ### owned storage and heap growth -/

theorem owned_push {n0 : Nat} {h : Heap} {s : Slice} (x : List Hd) (ho : Owned n0 h s) :
    Owned n0 (h ++ [x]) s := by
  rcases ho with hz | ⟨h1, h2, h3, h4⟩
  · exact Or.inl hz
  · refine Or.inr ⟨h1, by simp; omega, h3, ?_⟩
    simpa [arrOf, List.getElem?_append_left h2] using h4

theorem upd_same (f : Nat → TState) (i : Nat) (v : TState) : upd f i v i = v := by simp [upd]
theorem upd_other (f : Nat → TState) (i j : Nat) (v : TState) (h : j ≠ i) : upd f i v j = f j := by
  simp [upd, h]

theorem upd_cur (f : Nat → TState) (t : Nat) (v : TState) (hv : v.cur = (f t).cur) (u : Nat) :
    (upd f t v u).cur = (f u).cur := by
  by_cases e : u = t
  · subst e; simp [upd_same, hv]
  · simp [upd_other _ _ _ _ e]

/-! ### the run invariant -/

structure Inv (h0 : Heap) (prog : List Thread) (st : St) : Prop where
  len : h0.length ≤ st.heap.length
  /-- the caller's arrays are as they were handed over -/
  pre : ∀ a, a < h0.length → st.heap[a]? = h0[a]?
  /-- the list a thread is collecting is storage of the thread -/
  own : ∀ t, Owned h0.length st.heap (st.th t).cbs
  dist : ∀ t t', t ≠ t' → (st.th t).cbs.cap ≠ 0 → (st.th t').cbs.cap ≠ 0 →
    (st.th t).cbs.arr ≠ (st.th t').cbs.arr
  /-- no installed list lives in an array some thread is still appending to -/
  safe : ∀ t t', (st.th t').cbs.cap ≠ 0 → (st.th t).cur.len = 0 ∨ (st.th t).cur.arr ≠ (st.th t').cbs.arr
  cin : ∀ t, (st.th t).cur.len = 0 ∨ (st.th t).cur.arr < st.heap.length
  rd : ∀ t th, prog[t]? = some th →
    st.heap.read (st.th t).cur = h0.read th.inh ++ fl h0 (scan (th.code.take (st.th t).pc) [] []).1 ∧
    st.heap.read (st.th t).cbs = fl h0 (scan (th.code.take (st.th t).pc) [] []).2
  sn : ∀ t th r, prog[t]? = some th → (st.th t).seen = some r →
    r = h0.read th.inh ++ fl h0 (installed th.code)

theorem inv_init {h0 : Heap} {prog : List Thread} (wf : WF h0 prog) : Inv h0 prog (St.init h0 prog) where
  len := Nat.le_refl _
  pre := fun _ _ => rfl
  own := fun _ => Or.inl ⟨rfl, rfl⟩
  dist := by intro t t' _ h; simp [St.init, Slice.nil] at h
  safe := by intro t t' h; simp [St.init, Slice.nil] at h
  cin := by
    intro t
    simp only [St.init]
    cases hp : prog[t]? with
    | none => left; simp [Slice.nil]
    | some th => simpa using (wf th (List.mem_of_getElem? hp)).1
  rd := by
    intro t th hp
    simp [St.init, hp, scan, fl_nil, read_nil]
  sn := by intro t th r _ h; simp [St.init] at h

theorem take_succ_of_get {α : Type} {l : List α} {n : Nat} {x : α} (h : l[n]? = some x) :
    l.take (n + 1) = l.take n ++ [x] := by
  rw [List.take_add_one, h]; rfl

theorem inv_step {h0 : Heap} {prog : List Thread} (wf : WF h0 prog) {st : St}
    (inv : Inv h0 prog st) (t : Nat) : Inv h0 prog (step ⟨true, true, true⟩ prog st t) := by
  unfold step
  split
  · exact inv
  · rename_i th hth
    have hthm : th ∈ prog := List.mem_of_getElem? hth
    dsimp only
    split
    · ---------------------------------------------------------------- collect one more option
      rename_i top g hg
      have hgm : Instr.collect top g ∈ th.code := List.mem_of_getElem? hg
      have hga : g.arr < h0.length := (wf th hthm).2 top g hgm
      have hrg : st.heap.read g = h0.read g := read_congr (inv.pre _ hga)
      have hcc : Facts.collectCopies ⟨true, true, true⟩ top = true := by cases top <;> rfl
      have hcol : collect (Facts.collectCopies ⟨true, true, true⟩ top) st.heap (st.th t).cbs g
          = goAppend st.heap (st.th t).cbs (h0.read g) := by
        simp [collect, hcc, hrg]
      have sp := goAppend_spec h0.length st.heap (st.th t).cbs (h0.read g) (inv.own t) inv.len
      rw [hcol]
      -- arrays of other threads' lists are not touched
      have hframe : ∀ s : Slice, Owned h0.length st.heap s → s.cap ≠ 0 →
          ((st.th t).cbs.cap ≠ 0 → (st.th t).cbs.arr ≠ s.arr) →
          (goAppend st.heap (st.th t).cbs (h0.read g)).1[s.arr]? = st.heap[s.arr]? := by
        intro s hs hc hne
        rcases hs with ⟨_, hz⟩ | ⟨_, h2, _, _⟩
        · exact absurd hz hc
        · apply sp.frame _ h2
          by_cases hz : (st.th t).cbs.cap = 0
          · exact Or.inl hz
          · exact Or.inr (Ne.symm (hne hz))
      -- installed lists are not touched
      have hcur : ∀ u, (goAppend st.heap (st.th t).cbs (h0.read g)).1.read (st.th u).cur
          = st.heap.read (st.th u).cur := by
        intro u
        by_cases hl : (st.th u).cur.len = 0
        · rw [read_empty _ _ hl, read_empty _ _ hl]
        · have hlt : (st.th u).cur.arr < st.heap.length := by
            rcases inv.cin u with h | h
            · exact absurd h hl
            · exact h
          apply read_congr
          apply sp.frame _ hlt
          by_cases hz : (st.th t).cbs.cap = 0
          · exact Or.inl hz
          · rcases inv.safe u t hz with h | hne
            · exact absurd h hl
            · exact Or.inr hne
      refine ⟨Nat.le_trans inv.len sp.len, ?_, ?_, ?_, ?_, ?_, ?_, ?_⟩
      · -- pre
        intro a ha
        rw [sp.frame a (Nat.lt_of_lt_of_le ha inv.len) ?_]
        · exact inv.pre a ha
        · rcases inv.own t with ⟨_, hz⟩ | ⟨h1, _, _, _⟩
          · exact Or.inl hz
          · exact Or.inr (by omega)
      · -- own
        intro t'
        by_cases e : t' = t
        · subst e; simp only [upd_same]; exact sp.owned
        · simp only [upd_other _ _ _ _ e]
          by_cases hz : (st.th t').cbs.cap = 0
          · exact Or.inl ⟨owned_cap_zero (inv.own t') hz, hz⟩
          · have hfr := hframe _ (inv.own t') hz (fun hc => inv.dist t t' (Ne.symm e) hc hz)
            rcases inv.own t' with ⟨_, hz'⟩ | ⟨h1, h2, h3, h4⟩
            · exact absurd hz' hz
            · exact Or.inr ⟨h1, Nat.lt_of_lt_of_le h2 sp.len, h3, by simpa [arrOf, hfr] using h4⟩
      · -- dist
        intro t1 t2 hne h1 h2
        by_cases e1 : t1 = t
        · subst e1
          have e2 : t2 ≠ t1 := Ne.symm hne
          simp only [upd_same, upd_other _ _ _ _ e2] at h1 h2 ⊢
          rcases sp.arr h1 with ⟨ha, hc⟩ | ha
          · rw [ha]; exact inv.dist t1 t2 hne hc h2
          · rw [ha]
            rcases inv.own t2 with ⟨_, hz⟩ | ⟨_, hlt, _, _⟩
            · exact absurd hz h2
            · omega
        · by_cases e2 : t2 = t
          · subst e2
            simp only [upd_same, upd_other _ _ _ _ e1] at h1 h2 ⊢
            rcases sp.arr h2 with ⟨ha, hc⟩ | ha
            · rw [ha]; exact inv.dist t1 t2 hne h1 hc
            · rw [ha]
              rcases inv.own t1 with ⟨_, hz⟩ | ⟨_, hlt, _, _⟩
              · exact absurd hz h1
              · omega
          · simp only [upd_other _ _ _ _ e1, upd_other _ _ _ _ e2] at h1 h2 ⊢
            exact inv.dist t1 t2 hne h1 h2
      · -- safe
        intro u t' hc
        have hcu : ∀ u, (upd st.th t ⟨(st.th t).pc + 1, (goAppend st.heap (st.th t).cbs (h0.read g)).2,
            (st.th t).cur, (st.th t).seen⟩ u).cur = (st.th u).cur := fun u => upd_cur st.th t _ (by rfl) u
        dsimp only
        rw [hcu]
        by_cases e : t' = t
        · subst e
          simp only [upd_same] at hc ⊢
          rcases sp.arr hc with ⟨ha, hc0⟩ | ha
          · rw [ha]; exact inv.safe u t' hc0
          · rw [ha]
            rcases inv.cin u with hl | hlt
            · exact Or.inl hl
            · exact Or.inr (by omega)
        · simp only [upd_other _ _ _ _ e] at hc ⊢
          exact inv.safe u t' hc
      · -- cin
        intro u
        have hcu : ∀ u, (upd st.th t ⟨(st.th t).pc + 1, (goAppend st.heap (st.th t).cbs (h0.read g)).2,
            (st.th t).cur, (st.th t).seen⟩ u).cur = (st.th u).cur := fun u => upd_cur st.th t _ (by rfl) u
        dsimp only
        rw [hcu]
        rcases inv.cin u with hl | hlt
        · exact Or.inl hl
        · exact Or.inr (Nat.lt_of_lt_of_le hlt sp.len)
      · -- rd
        intro u thu hu
        by_cases e : u = t
        · subst e
          have : thu = th := by rw [hth] at hu; exact (Option.some.inj hu).symm
          subst this
          simp only [upd_same]
          rw [take_succ_of_get hg, scan_snoc_collect]
          obtain ⟨r1, r2⟩ := inv.rd u thu hth
          refine ⟨?_, ?_⟩
          · rw [hcur u]; exact r1
          · rw [sp.read, r2, fl_append, fl_single]
        · simp only [upd_other _ _ _ _ e]
          obtain ⟨r1, r2⟩ := inv.rd u thu hu
          refine ⟨?_, ?_⟩
          · rw [hcur u]; exact r1
          · rw [← r2]
            by_cases hz : (st.th u).cbs.cap = 0
            · have hl := owned_cap_zero (inv.own u) hz
              rw [read_empty _ _ hl, read_empty _ _ hl]
            · exact read_congr (hframe _ (inv.own u) hz (fun hc => inv.dist t u (Ne.symm e) hc hz))
      · -- sn
        intro u thu r hu hs
        by_cases e : u = t
        · subst e
          simp only [upd_same] at hs
          exact inv.sn u thu r hu hs
        · simp only [upd_other _ _ _ _ e] at hs
          exact inv.sn u thu r hu hs
    · ---------------------------------------------------------------- install
      rename_i hg
      by_cases hl : (st.th t).cur.len = 0
      · -- nothing in force yet: the collected list itself becomes the handler list
        have hin : install true st.heap (st.th t).cur (st.th t).cbs = (st.heap, (st.th t).cbs) := by
          simp [install, hl]
        rw [hin]
        dsimp only
        refine ⟨inv.len, inv.pre, ?_, ?_, ?_, ?_, ?_, ?_⟩
        · intro u
          by_cases e : u = t
          · subst e; simp only [upd_same]; exact Or.inl ⟨rfl, rfl⟩
          · simp only [upd_other _ _ _ _ e]; exact inv.own u
        · intro t1 t2 hne h1 h2
          by_cases e1 : t1 = t
          · subst e1; simp [upd_same, Slice.nil] at h1
          · by_cases e2 : t2 = t
            · subst e2; simp [upd_same, Slice.nil] at h2
            · simp only [upd_other _ _ _ _ e1, upd_other _ _ _ _ e2] at h1 h2 ⊢
              exact inv.dist t1 t2 hne h1 h2
        · intro u t' hc
          by_cases e' : t' = t
          · subst e'; simp [upd_same, Slice.nil] at hc
          · simp only [upd_other _ _ _ _ e'] at hc ⊢
            by_cases e : u = t
            · subst e
              simp only [upd_same]
              by_cases hz : (st.th u).cbs.cap = 0
              · exact Or.inl (owned_cap_zero (inv.own u) hz)
              · exact Or.inr (inv.dist u t' (Ne.symm e') hz hc)
            · simp only [upd_other _ _ _ _ e]
              exact inv.safe u t' hc
        · intro u
          by_cases e : u = t
          · subst e
            simp only [upd_same]
            rcases inv.own u with ⟨h1, _⟩ | ⟨_, h2, _, _⟩
            · exact Or.inl h1
            · exact Or.inr h2
          · simp only [upd_other _ _ _ _ e]; exact inv.cin u
        · intro u thu hu
          by_cases e : u = t
          · subst e
            have : thu = th := by rw [hth] at hu; exact (Option.some.inj hu).symm
            subst this
            simp only [upd_same]
            rw [take_succ_of_get hg, scan_snoc_install]
            obtain ⟨r1, r2⟩ := inv.rd u thu hth
            rw [read_empty _ _ hl] at r1
            refine ⟨?_, ?_⟩
            · rw [r2, fl_append, ← List.append_assoc, ← r1]; rfl
            · rw [read_nil]; rfl
          · simp only [upd_other _ _ _ _ e]
            exact inv.rd u thu hu
        · intro u thu r hu hs
          by_cases e : u = t
          · subst e
            simp only [upd_same] at hs
            exact inv.sn u thu r hu hs
          · simp only [upd_other _ _ _ _ e] at hs
            exact inv.sn u thu r hu hs
      · -- a manager exists: its list is copied into a fresh array, the collected one appended
        have hin : install true st.heap (st.th t).cur (st.th t).cbs
            = copyAppend st.heap (st.th t).cur (st.heap.read (st.th t).cbs) := by
          simp [install, hl, appendH]
        rw [hin]
        have hheap := copyAppend_heap st.heap (st.th t).cur (st.heap.read (st.th t).cbs)
        have harr := copyAppend_arr st.heap (st.th t).cur (st.heap.read (st.th t).cbs)
        have hread := copyAppend_read st.heap (st.th t).cur (st.heap.read (st.th t).cbs)
        generalize copyAppend st.heap (st.th t).cur (st.heap.read (st.th t).cbs) = R at hheap harr hread
        obtain ⟨H, S⟩ := R
        simp only at hheap harr hread
        subst hheap
        dsimp only
        have hpush : ∀ s : Slice, (s.len = 0 ∨ s.arr < st.heap.length) →
            Heap.read (st.heap ++ [st.heap.read (st.th t).cur ++ st.heap.read (st.th t).cbs]) s = st.heap.read s := by
          intro s hs
          rcases hs with h | h
          · rw [read_empty _ _ h, read_empty _ _ h]
          · exact read_push _ _ _ h
        have hownlt : ∀ u, (st.th u).cbs.len = 0 ∨ (st.th u).cbs.arr < st.heap.length := by
          intro u
          rcases inv.own u with ⟨h1, _⟩ | ⟨_, h2, _, _⟩
          · exact Or.inl h1
          · exact Or.inr h2
        refine ⟨by simp; have := inv.len; omega, ?_, ?_, ?_, ?_, ?_, ?_, ?_⟩
        · intro a ha
          rw [List.getElem?_append_left (Nat.lt_of_lt_of_le ha inv.len)]
          exact inv.pre a ha
        · intro u
          by_cases e : u = t
          · subst e; simp only [upd_same]; exact Or.inl ⟨rfl, rfl⟩
          · simp only [upd_other _ _ _ _ e]; exact owned_push _ (inv.own u)
        · intro t1 t2 hne h1 h2
          by_cases e1 : t1 = t
          · subst e1; simp [upd_same, Slice.nil] at h1
          · by_cases e2 : t2 = t
            · subst e2; simp [upd_same, Slice.nil] at h2
            · simp only [upd_other _ _ _ _ e1, upd_other _ _ _ _ e2] at h1 h2 ⊢
              exact inv.dist t1 t2 hne h1 h2
        · intro u t' hc
          by_cases e' : t' = t
          · subst e'; simp [upd_same, Slice.nil] at hc
          · simp only [upd_other _ _ _ _ e'] at hc ⊢
            by_cases e : u = t
            · subst e
              simp only [upd_same]
              right
              rw [harr]
              rcases inv.own t' with ⟨_, hz⟩ | ⟨_, h2, _, _⟩
              · exact absurd hz hc
              · omega
            · simp only [upd_other _ _ _ _ e]
              exact inv.safe u t' hc
        · intro u
          by_cases e : u = t
          · subst e
            simp only [upd_same]
            right; rw [harr]; simp
          · simp only [upd_other _ _ _ _ e]
            rcases inv.cin u with h | h
            · exact Or.inl h
            · exact Or.inr (by simp; omega)
        · intro u thu hu
          by_cases e : u = t
          · subst e
            have : thu = th := by rw [hth] at hu; exact (Option.some.inj hu).symm
            subst this
            simp only [upd_same]
            rw [take_succ_of_get hg, scan_snoc_install]
            obtain ⟨r1, r2⟩ := inv.rd u thu hth
            refine ⟨?_, ?_⟩
            · rw [hread, r1, r2, fl_append, List.append_assoc]
            · rw [read_nil]; rfl
          · simp only [upd_other _ _ _ _ e]
            obtain ⟨r1, r2⟩ := inv.rd u thu hu
            exact ⟨by rw [hpush _ (inv.cin u)]; exact r1, by rw [hpush _ (hownlt u)]; exact r2⟩
        · intro u thu r hu hs
          by_cases e : u = t
          · subst e
            simp only [upd_same] at hs
            exact inv.sn u thu r hu hs
          · simp only [upd_other _ _ _ _ e] at hs
            exact inv.sn u thu r hu hs
    · ---------------------------------------------------------------- the unit fires a callback: read
      rename_i hg
      split
      · exact inv
      · rename_i hns
        have key : ∀ x, (upd st.th t { st.th t with seen := some (st.heap.read (st.th t).cur) } x).cbs = (st.th x).cbs
            ∧ (upd st.th t { st.th t with seen := some (st.heap.read (st.th t).cur) } x).cur = (st.th x).cur
            ∧ (upd st.th t { st.th t with seen := some (st.heap.read (st.th t).cur) } x).pc = (st.th x).pc := by
          intro x; by_cases e : x = t
          · subst e; simp [upd_same]
          · simp [upd_other _ _ _ _ e]
        refine ⟨inv.len, inv.pre, ?_, ?_, ?_, ?_, ?_, ?_⟩
        · intro u; rw [(key u).1]; exact inv.own u
        · intro t1 t2 hne h1 h2
          rw [(key t1).1] at h1 ⊢
          rw [(key t2).1] at h2 ⊢
          exact inv.dist t1 t2 hne h1 h2
        · intro u t' hc
          rw [(key t').1] at hc ⊢
          rw [(key u).2.1]
          exact inv.safe u t' hc
        · intro u; rw [(key u).2.1]; exact inv.cin u
        · intro u thu hu
          rw [(key u).1, (key u).2.1, (key u).2.2]
          exact inv.rd u thu hu
        · intro u thu r hu hs
          by_cases e : u = t
          · subst e
            simp only [upd_same] at hs
            have : thu = th := by rw [hth] at hu; exact (Option.some.inj hu).symm
            subst this
            have hr : r = st.heap.read (st.th u).cur := by simpa using hs.symm
            rw [hr, (inv.rd u thu hth).1]
            have hle : thu.code.length ≤ (st.th u).pc := by simpa using hg
            rw [List.take_of_length_le hle]
            rfl
          · simp only [upd_other _ _ _ _ e] at hs
            exact inv.sn u thu r hu hs

theorem inv_exec {h0 : Heap} {prog : List Thread} (wf : WF h0 prog) (sched : List Nat) :
    ∀ st, Inv h0 prog st → Inv h0 prog (exec ⟨true, true, true⟩ prog sched st) := by
  induction sched with
  | nil => intro st h; exact h
  | cons t rest ih => intro st h; exact ih _ (inv_step wf h t)

/-! ### from calls to threads -/

theorem mem_instrsFrom {g : Slice} {tp : Bool} : ∀ (lv : List (List Slice)) (top : Bool),
    Instr.collect tp g ∈ instrsFrom top lv → ∃ l, l ∈ lv ∧ g ∈ l := by
  intro lv
  induction lv with
  | nil => intro top h; simp [instrsFrom] at h
  | cons l rest ih =>
    intro top h
    simp only [instrsFrom, List.mem_append, List.mem_map, List.mem_cons] at h
    rcases h with ⟨x, hx, he⟩ | h | h
    · cases he; exact ⟨l, by simp, hx⟩
    · cases h
    · obtain ⟨l', hl', hg⟩ := ih false h
      exact ⟨l', by simp [hl'], hg⟩

theorem wf_progOf {h0 : Heap} {calls : List Call} (wf : CallsWF h0 calls)
    (threads : List (Nat × Opt.Path)) : WF h0 (progOf calls threads) := by
  intro th hth
  simp only [progOf, List.mem_map] at hth
  obtain ⟨ip, _, rfl⟩ := hth
  rw [List.getD_eq_getElem?_getD]
  cases hc : calls[ip.1]? with
  | none =>
    simp only [Option.getD_none, threadOf]
    refine ⟨Or.inl rfl, ?_⟩
    intro top g hg
    obtain ⟨l, hl, hgl⟩ := mem_instrsFrom _ _ hg
    simp [levels, collectedAt] at hl
    obtain ⟨q, _, rfl⟩ := hl
    simp at hgl
  | some c =>
    simp only [Option.getD_some, threadOf]
    have hcm := wf c (List.mem_of_getElem? hc)
    refine ⟨hcm.1, ?_⟩
    intro top g hg
    obtain ⟨l, hl, hgl⟩ := mem_instrsFrom _ _ hg
    simp only [levels, List.mem_map] at hl
    obtain ⟨q, _, rfl⟩ := hl
    simp only [collectedAt, List.mem_map, List.mem_filter] at hgl
    obtain ⟨grp, ⟨hm, _⟩, rfl⟩ := hgl
    exact hcm.2 grp hm

/-- the specification in terms of the thread's code -/
theorem inForce_eq (h0 : Heap) (c : Call) (p : Opt.Path) :
    inForce h0 c.inh c.gs p = h0.read (threadOf c p).inh ++ fl h0 (installed (threadOf c p).code) := by
  simp [inForce, threadOf, installed_instrsFrom, fl]

end EinoV.C09.Cb
