/- Helper lemmas for C07: from the builder invariant to a sound runner, and what a sound
   runner does with values of every dynamic type. -/
import EinoV.Model.C20Builder
import EinoV.Model.C07
import EinoV.Proofs.C20
import EinoV.Proofs.C20Infer

namespace EinoV.C07
open EinoV.Build

/-! ### assignability table vs. Go assignability of dynamic values -/

/-- method-set inclusion is transitive: a type implementing the interface `u`, where `u`
    implements `v`, implements `v` (for `u = any`: if the empty interface implemented `v`,
    everything would) -/
def ImplTrans (im : Impl) : Prop :=
  ∀ (t u v : Ty), u.isIface = true → implements im t u = true → implements im u v = true →
    implements im t v = true

theorem dynOk_any (im : Impl) (d : Dyn) : dynOk im d .any = true := rfl

theorem dynOk_iface (im : Impl) (d : Dyn) (A : Ty) (h : A.isIface = true) :
    dynOk im d A = implements im (.conc d) A := by
  cases A with
  | conc c => simp [Ty.isIface] at h
  | iface i => rfl
  | any => rfl

/-- `must`: every value the upstream type can hold is assignable downstream -/
theorem must_sound (im : Impl) (ht : ImplTrans im) (A B : Ty)
    (h : checkAssignable im (some A) (some B) = .must) (d : Dyn) (hd : dynOk im d A = true) :
    dynOk im d B = true := by
  simp only [checkAssignable] at h
  by_cases hab : B = A
  · subst hab; exact hd
  · rw [if_neg hab] at h
    by_cases h2 : (B.isIface && implements im A B) = true
    · simp only [Bool.and_eq_true] at h2
      obtain ⟨hbi, himp⟩ := h2
      rw [dynOk_iface im d B hbi]
      cases hA : A.isIface
      · -- A concrete: the value has exactly type A
        cases A with
        | conc c =>
          simp only [dynOk, beq_iff_eq] at hd
          subst hd; exact himp
        | iface i => simp [Ty.isIface] at hA
        | any => simp [Ty.isIface] at hA
      · rw [dynOk_iface im d A hA] at hd
        exact ht (.conc d) A B hA hd himp
    · rw [if_neg h2] at h
      split at h
      · split at h <;> simp at h
      · simp at h

/-- `may` is only ever answered when the upstream type is an interface -/
theorem may_upstream_iface (im : Impl) (A B : Ty) (h : checkAssignable im (some A) (some B) = .may) :
    A.isIface = true := by
  simp only [checkAssignable] at h
  split at h
  · simp at h
  · split at h
    · simp at h
    · split at h
      · assumption
      · simp at h

/-- between two concrete types the answer is `must` for equal types, `mustNot` otherwise –
    never `may`; and `mustNot` really means no value fits -/
theorem concrete_table (im : Impl) (a b : Nat) :
    checkAssignable im (some (.conc a)) (some (.conc b)) = (if a = b then .must else .mustNot) ∧
    (∀ d, dynOk im d (.conc a) = true → (dynOk im d (.conc b) = true ↔ a = b)) := by
  constructor
  · simp only [checkAssignable, Ty.isIface, Bool.false_and, Bool.false_eq_true, ↓reduceIte, Ty.conc.injEq]
    by_cases h : a = b
    · simp [h]
    · have : ¬ b = a := fun e => h e.symm
      simp [h, this]
  · intro d hd
    simp only [dynOk, beq_iff_eq] at hd ⊢
    subst hd
    exact ⟨fun e => e.symm, fun e => e.symm⟩


/-! ### sound runners -/

/-- the data connection `a → b` of the runner was validated: assignable for sure, or possibly
    assignable with the run-time converter installed -/
def SoundConn (im : Impl) (r : Runner) (a b : Key) : Prop :=
  match checkAssignable im (r.outOf a) (r.inOf b) with
  | .mustNot => False
  | .may => (a, b) ∈ r.mayEdges
  | .must => True

def SoundBrR (im : Impl) (r : Runner) (br : BranchRec) (flag : Bool) : Prop :=
  match checkAssignable im (r.outOf br.src) (some br.inTy) with
  | .mustNot => False
  | .may => flag = true
  | .must => True

structure SoundRunner (im : Impl) (r : Runner) : Prop where
  nodeOK : ∀ n ∈ r.nodes, NodeOK n
  edges : ∀ p ∈ r.dataEdges, SoundConn im r p.1 p.2
  brLen : r.branches.length = r.preBranch.length
  br : ∀ p ∈ r.branches.zip (r.preBranch.map (·.2)),
    SoundBrR im r p.1 p.2 ∧ (p.1.noData = false → ∀ e ∈ p.1.ends, SoundConn im r p.1.src e)

theorem slices_empty {b : Builder} (h : b.hasPending = false) (s : Key) :
    getSlice b.toValidate s = [] := by
  by_cases hk : s ∈ b.toValidate.map (·.1)
  · obtain ⟨p, hp, rfl⟩ := List.mem_map.mp hk
    unfold Builder.hasPending at h
    have := (List.any_eq_false.mp h) p hp
    simpa using this
  · rcases hg : getSlice b.toValidate s with _ | ⟨x, xs⟩
    · rfl
    · exact absurd (mem_getSlice_key (x := x) (by rw [hg]; exact List.mem_cons_self)) hk

/-- a builder that satisfies the invariant and passes Compile's pre-checks yields a sound runner -/
theorem mkRunner_sound (im : Impl) (f : Facts) (b : Builder) (o : COpts) (h : Inv im b)
    (hp : compilePre f b o = none) : SoundRunner im (mkRunner f b o) := by
  have hempty : ∀ s, getSlice b.toValidate s = [] := by
    unfold compilePre at hp
    repeat' split at hp
    all_goals first | (simp at hp; done) | skip
    rename_i htv _ _
    intro s
    exact slices_empty (by simpa using htv) s
  have hconn : ∀ s e, Conn b s e → SoundE im b s e := by
    intro s e hc
    rcases h.c.conn s e (Or.inl hc) with ⟨x, hx, _⟩ | hs
    · rw [hempty s] at hx; simp at hx
    · exact hs
  refine ⟨h.c.wf, ?_, h.brLen, ?_⟩
  · intro p hp'
    exact hconn p.1 p.2 (Or.inl hp')
  · intro p hp'
    refine ⟨h.br p hp', fun hnd e he => ?_⟩
    have hmem : p.1 ∈ b.branches := (List.of_mem_zip hp').1
    exact hconn p.1.src e (Or.inr ⟨p.1, hmem, rfl, he, hnd⟩)

/-- every runner handed out while replaying Graph-API calls from a state satisfying the
    invariant is sound -/
theorem run_runners_sound (f : Facts) (hg : f.branchGuarded = true) (hpr : f.branchPropagates = true)
    (im : Impl) (ord : Ord) (hv : ord.Valid) :
    ∀ (ops : List Op) (b : Builder), (∀ op ∈ ops, op.isGraphApi = true) → Inv im b →
      ∀ r ∈ (run f im ord b ops).2.2, SoundRunner im r := by
  intro ops
  induction ops with
  | nil => intro b _ _ r hr; simp [run] at hr
  | cons op ops ih =>
    intro b hops hi r hr
    have hop : op.isGraphApi = true := hops op List.mem_cons_self
    have hrest : ∀ x ∈ ops, x.isGraphApi = true := fun x hx => hops x (List.mem_cons_of_mem _ hx)
    simp only [run] at hr
    have hstep : Inv im (step f im ord b op).1 ∧
        ∀ r0, (step f im ord b op).2.2 = some r0 → SoundRunner im r0 := by
      cases op with
      | node n => exact ⟨addNode_inv f im b n hi, fun r0 h0 => by simp [step] at h0⟩
      | edge s e nc nd m =>
        simp only [Op.isGraphApi, Bool.and_eq_true, Bool.not_eq_true', Option.isNone_iff_eq_none] at hop
        obtain ⟨⟨rfl, rfl⟩, rfl⟩ := hop
        exact ⟨addEdge_inv f im ord hv b s e hi, fun r0 h0 => by simp [step] at h0⟩
      | branch s t ends sk =>
        simp only [Op.isGraphApi, Bool.not_eq_true'] at hop
        subst hop
        exact ⟨addBranch_inv f hg hpr im ord hv b s t ends hi, fun r0 h0 => by simp [step] at h0⟩
      | compile o =>
        refine ⟨compile_inv f im ord b o hi, fun r0 h0 => ?_⟩
        simp only [step] at h0
        unfold compile at h0
        split at h0
        · simp at h0
        · split at h0
          · simp at h0
          · rename_i hpre
            split at h0
            · simp at h0
            · simp only [Option.some.injEq] at h0
              subst h0
              exact mkRunner_sound im f b o hi hpre
    rcases List.mem_append.mp hr with hr | hr
    · rcases h0 : (step f im ord b op).2.2 with _ | r0
      · simp [h0] at hr
      · simp only [h0, List.mem_singleton] at hr
        rw [hr]
        exact hstep.2 r0 h0
    · exact ih _ hrest hstep.1 r hr

theorem Inv.new (im : Impl) (cmp : Cmp) (inT outT : Ty) (st : Option Nat) : Inv im (Builder.new cmp inT outT st) := by
  refine ⟨⟨?_, ?_, ?_, ?_⟩, rfl, ?_⟩
  · intro n hn; simp [Builder.new] at hn
  · intro s pe hpe; simp [Builder.new, getSlice] at hpe
  · intro s pe hpe; simp [Builder.new, getSlice] at hpe
  · intro s e hc
    rcases hc with hc | hc
    · rcases hc with hc | ⟨br, hbr, _⟩
      · simp [Builder.new] at hc
      · simp [Builder.new] at hbr
    · simp at hc
  · intro p hp; simp [Builder.new] at hp


/-! ### runs of a sound runner -/

theorem worst_pass {evs : List Ev} (h : worst evs = .pass) : ∀ e ∈ evs, e = .pass := by
  induction evs with
  | nil => intro e he; simp at he
  | cons x xs ih =>
    cases x with
    | pass =>
      simp only [worst] at h
      intro e he
      rcases List.mem_cons.mp he with r | r
      · exact r
      · exact ih h e r
    | typeErr => simp only [worst] at h; split at h <;> simp at h
    | panic => simp [worst] at h
    | badPick =>
      simp only [worst] at h
      split at h
      · simp at h
      · rename_i hne; exact absurd h hne

theorem worst_panic {evs : List Ev} (h : worst evs = .panic) : Ev.panic ∈ evs := by
  induction evs with
  | nil => simp [worst] at h
  | cons x xs ih =>
    cases x with
    | pass => simp only [worst] at h; exact List.mem_cons_of_mem _ (ih h)
    | panic => exact List.mem_cons_self
    | typeErr =>
      simp only [worst] at h
      split at h
      · rename_i hw; exact List.mem_cons_of_mem _ (ih hw)
      · simp at h
    | badPick =>
      simp only [worst] at h
      split at h
      · simp at h
      · exact List.mem_cons_of_mem _ (ih h)

theorem mem_zipIdx {α : Type} {l : List α} {n i : Nat} {x : α} (h : (i, x) ∈ zipIdx l n) : x ∈ l := by
  induction l generalizing n with
  | nil => simp [zipIdx] at h
  | cons y ys ih =>
    simp only [zipIdx, List.mem_cons, Prod.mk.injEq] at h
    rcases h with ⟨_, rfl⟩ | h
    · exact List.mem_cons_self
    · exact List.mem_cons_of_mem _ (ih h)

theorem mem_branchTable {r : Runner} {p : Nat × BranchRec × Bool} (h : p ∈ r.branchTable) :
    (p.2.1, p.2.2) ∈ r.branches.zip (r.preBranch.map (·.2)) := by
  unfold Runner.branchTable at h
  simp only [List.mem_map] at h
  obtain ⟨q, hq, rfl⟩ := h
  obtain ⟨i, x⟩ := q
  exact mem_zipIdx hq

/-- the value (dynamic type `d`) fits the declared type, if one is declared -/
def Inhab (im : Impl) (d : Dyn) (T : Option Ty) : Prop := ∀ t, T = some t → dynOk im d t = true

def Good (im : Impl) (r : Runner) (dl : Delivery) : Prop := Inhab im dl.d (r.inOf dl.dst)

/-- Go's type checker on user code: a node body returns a value of its declared output type -/
def CodeOk (im : Impl) (r : Runner) (c : Code) : Prop :=
  ∀ k d, r.isPassthrough k = false → k ≠ START → k ≠ END → Inhab im (c.body k d) (r.outOf k)

theorem conn_good {im : Impl} (ht : ImplTrans im) {r : Runner} {a b : Key} {d : Dyn}
    (hs : SoundConn im r a b) (hd : Inhab im d (r.outOf a)) :
    convert im r a b d ≠ .panic ∧ (convert im r a b d = .pass → Inhab im d (r.inOf b)) := by
  unfold SoundConn at hs
  rcases ho : r.outOf a with _ | A
  · simp [ho, checkAssignable] at hs
  · rcases hi : r.inOf b with _ | B
    · simp [hi, checkAssignable_none_right] at hs
    · rw [ho, hi] at hs
      have hdA : dynOk im d A = true := hd A ho
      unfold convert
      simp only [hi]
      constructor
      · split <;> simp
      · intro hp t ht'
        simp only [Option.some.injEq] at ht'
        subst ht'
        rcases hc : checkAssignable im (some A) (some B) with _ | _ | _
        · simp [hc] at hs
        · exact must_sound im ht A B hc d hdA
        · simp only [hc] at hs
          have hcont : r.mayEdges.contains (a, b) = true := by simpa using hs
          simp only [hcont, Bool.true_and] at hp
          by_cases hk : dynOk im d B = true
          · exact hk
          · simp [hk] at hp

theorem pt_out_eq_in {im : Impl} {r : Runner} (hr : SoundRunner im r) (k : Key)
    (h : (r.isPassthrough k || k = START || k = END) = true) : r.outOf k = r.inOf k := by
  unfold Runner.outOf Runner.inOf
  by_cases h1 : k = START
  · simp [h1]
  · by_cases h2 : k = END
    · simp [h1, h2]
    · simp only [h1, h2, ↓reduceIte]
      simp only [h1, h2, decide_false, Bool.or_false] at h
      unfold Runner.isPassthrough Runner.node at h
      rcases hf : findNode r.nodes k with _ | n
      · rfl
      · simp only [hf] at h
        exact ((hr.nodeOK n (findNode_mem hf).1).1 h).symm

theorem emit_ok {im : Impl} (ht : ImplTrans im) {r : Runner} (hr : SoundRunner im r) (c : Code) (k : Key) (d : Dyn)
    (hd : Inhab im d (r.outOf k)) :
    Ev.panic ∉ (emit im r c k d).1 ∧
    ((∀ e ∈ (emit im r c k d).1, e = .pass) → ∀ dl ∈ (emit im r c k d).2, Good im r dl) := by
  -- every delivery produced is a sound connection out of k carrying d
  have hdel : ∀ dl ∈ (emit im r c k d).2, dl.src = k ∧ dl.d = d ∧
      ((dl.src, dl.dst) ∈ r.dataEdges ∨
       ∃ p ∈ r.branchTable, p.2.1.src = k ∧ p.2.1.noData = false ∧ dl.dst = c.pick k p.1 d) := by
    intro dl hdl
    simp only [emit, List.mem_append, List.mem_map, List.mem_filter, List.mem_filterMap] at hdl
    rcases hdl with ⟨e, ⟨he, hk⟩, rfl⟩ | ⟨p, ⟨hp, hk⟩, hsome⟩
    · simp only [decide_eq_true_eq] at hk
      refine ⟨rfl, rfl, Or.inl ?_⟩
      simp only; rw [← hk]; exact he
    · simp only [decide_eq_true_eq] at hk
      split at hsome
      · simp at hsome
      · rename_i hnd
        simp only [Option.some.injEq] at hsome
        subst hsome
        exact ⟨rfl, rfl, Or.inr ⟨p, hp, hk, by simpa using hnd, rfl⟩⟩
  constructor
  · intro hmem
    simp only [emit, List.mem_append, List.mem_map] at hmem
    rcases hmem with ⟨p, hp, hev⟩ | ⟨dl, _, hev⟩
    · -- a branch condition: sound ⇒ converter or guaranteed fit, never the assertion
      simp only [List.mem_filter, decide_eq_true_eq] at hp
      have hsb := (hr.br _ (mem_branchTable hp.1)).1
      unfold SoundBrR at hsb
      rw [hp.2] at hsb
      rcases ho : r.outOf k with _ | A
      · simp [ho, checkAssignable] at hsb
      · rw [ho] at hsb
        have hdA := hd A ho
        unfold arriveBranch at hev
        rcases hc : checkAssignable im (some A) (some p.2.1.inTy) with _ | _ | _
        · simp [hc] at hsb
        · have := must_sound im ht A _ hc d hdA
          simp [this] at hev
          split at hev <;> simp at hev
        · simp only [hc] at hsb
          simp only [hsb, Bool.true_and] at hev
          by_cases hk : dynOk im d p.2.1.inTy = true
          · simp [hk] at hev; split at hev <;> simp at hev
          · simp [hk] at hev
    · exact (by
        unfold convert at hev
        split at hev
        · simp at hev
        · split at hev <;> simp at hev)
  · intro hall dl hdl
    obtain ⟨hsrc, hdd, hkind⟩ := hdel dl hdl
    have hconv : convert im r dl.src dl.dst dl.d = .pass := by
      apply hall
      simp only [emit, List.mem_append, List.mem_map]
      exact Or.inr ⟨dl, by simpa [emit] using hdl, rfl⟩
    have hsound : SoundConn im r dl.src dl.dst := by
      rcases hkind with he | ⟨p, hp, hk, hnd, hpick⟩
      · exact hr.edges _ he
      · have hz := hr.br _ (mem_branchTable hp)
        -- the branch event passed, so the picked node is one of the ends
        have hev : (match arriveBranch im p.2.1.inTy p.2.2 d with
            | .pass => if p.2.1.ends.contains (c.pick k p.1 d) then Ev.pass else Ev.badPick
            | e => e) = Ev.pass := by
          apply hall
          simp only [emit, List.mem_append, List.mem_map, List.mem_filter, decide_eq_true_eq]
          exact Or.inl ⟨p, ⟨hp, hk⟩, rfl⟩
        have hin : c.pick k p.1 d ∈ p.2.1.ends := by
          split at hev
          · split at hev
            · rename_i hc; simpa using hc
            · simp at hev
          · rename_i hne; exact absurd hev (by intro e; exact hne (by rw [← e]))
        rw [hsrc, hpick]
        have h5 := hz.2 hnd _ hin
        rw [hk] at h5
        exact h5
    have hd' : Inhab im dl.d (r.outOf dl.src) := by rw [hsrc, hdd]; exact hd
    exact (conn_good ht hsound hd').2 hconv


theorem task_ok {im : Impl} (ht : ImplTrans im) {r : Runner} (hr : SoundRunner im r) {c : Code}
    (hc : CodeOk im r c) (dl : Delivery) (hg : Good im r dl) :
    Ev.panic ∉ (task im r c dl).1 ∧
    ((∀ e ∈ (task im r c dl).1, e = .pass) → ∀ x ∈ (task im r c dl).2, Good im r x) := by
  have hassert : assertIn im r dl.dst dl.d = .pass := by
    unfold assertIn
    rcases hi : r.inOf dl.dst with _ | t
    · rfl
    · simp only
      split
      · rfl
      · have := hg t hi
        simp [this]
  unfold task
  simp only [hassert]
  apply emit_ok ht hr c
  by_cases hpt : (r.isPassthrough dl.dst || dl.dst = START || dl.dst = END) = true
  · simp only [hpt, ↓reduceIte]
    rw [pt_out_eq_in hr dl.dst hpt]; exact hg
  · simp only [hpt]
    simp only [Bool.or_eq_true, decide_eq_true_eq, not_or] at hpt
    exact hc dl.dst dl.d (by simpa using hpt.1.1) hpt.1.2 hpt.2

theorem level_ok {im : Impl} (ht : ImplTrans im) {r : Runner} (hr : SoundRunner im r) {c : Code}
    (hc : CodeOk im r c) : ∀ (ds : List Delivery), (∀ dl ∈ ds, Good im r dl) →
      Ev.panic ∉ (level im r c ds).1 ∧
      ((∀ e ∈ (level im r c ds).1, e = .pass) → ∀ x ∈ (level im r c ds).2, Good im r x) := by
  intro ds
  induction ds with
  | nil => intro _; simp [level]
  | cons dl rest ih =>
    intro hg
    have h1 := task_ok ht hr hc dl (hg dl List.mem_cons_self)
    have h2 := ih (fun x hx => hg x (List.mem_cons_of_mem _ hx))
    simp only [level]
    constructor
    · intro hm
      rcases List.mem_append.mp hm with e | e
      · exact h1.1 e
      · exact h2.1 e
    · intro hall x hx
      rcases List.mem_append.mp hx with e | e
      · exact h1.2 (fun ev hev => hall ev (List.mem_append_left _ hev)) x e
      · exact h2.2 (fun ev hev => hall ev (List.mem_append_right _ hev)) x e

theorem settle_ok {im : Impl} {r : Runner} (ds : List Delivery) (hg : ∀ dl ∈ ds, Good im r dl) :
    settle im r ds ≠ some .panic := by
  unfold settle
  split
  · simp
  · split
    · rename_i dl hf
      have hmem : dl ∈ ds := List.mem_of_find?_eq_some hf
      have hend : dl.dst = END := by simpa using List.find?_some hf
      have hg' := hg dl hmem
      have : assertIn im r END dl.d = .pass := by
        unfold assertIn
        rcases hi : r.inOf END with _ | t
        · rfl
        · simp only
          split
          · rfl
          · have := hg' t (by rw [hend]; exact hi)
            simp [this]
      simp [this]
    · split <;> simp

theorem runLevels_no_panic {im : Impl} (ht : ImplTrans im) {r : Runner} (hr : SoundRunner im r) {c : Code}
    (hc : CodeOk im r c) : ∀ (fuel : Nat) (ds : List Delivery), (∀ dl ∈ ds, Good im r dl) →
      runLevels im r c fuel ds ≠ .panic := by
  intro fuel
  induction fuel with
  | zero => intro ds _; simp [runLevels]
  | succ n ih =>
    intro ds hg
    have hl := level_ok ht hr hc ds hg
    simp only [runLevels]
    rcases hw : worst (level im r c ds).1 with _ | _ | _ | _
    · -- pass
      simp only
      have hnext := hl.2 (worst_pass hw)
      rcases hs : settle im r (level im r c ds).2 with _ | res
      · simp only; exact ih _ hnext
      · simp only
        intro e; subst e
        exact settle_ok _ hnext hs
    · simp
    · exact absurd (worst_panic hw) hl.1
    · simp

/-- **no run of a sound runner reaches a failing type assertion** -/
theorem runGraph_no_panic {im : Impl} (ht : ImplTrans im) {r : Runner} (hr : SoundRunner im r) {c : Code}
    (hc : CodeOk im r c) (fuel : Nat) (d0 : Dyn) (hd : dynOk im d0 r.inT = true) :
    runGraph im r c fuel d0 ≠ .panic := by
  have hd0 : Inhab im d0 (r.outOf START) := by
    intro t htt
    simp only [Runner.outOf, ↓reduceIte, Option.some.injEq] at htt
    subst htt; exact hd
  have he := emit_ok ht hr c START d0 hd0
  unfold runGraph
  simp only
  rcases hw : worst (emit im r c START d0).1 with _ | _ | _ | _
  · simp only
    have hnext := he.2 (worst_pass hw)
    rcases hs : settle im r (emit im r c START d0).2 with _ | res
    · simp only; exact runLevels_no_panic ht hr hc fuel _ hnext
    · simp only
      intro e; subst e
      exact settle_ok _ hnext hs
  · simp
  · exact absurd (worst_panic hw) he.1
  · simp

/-- on a validated connection a converter reports an ordinary error exactly when the
    upstream type is an interface and the value's dynamic type is not assignable downstream -/
theorem convert_typeErr_iff {im : Impl} (ht : ImplTrans im) {r : Runner} {a b : Key} {d : Dyn} {A B : Ty}
    (hs : SoundConn im r a b) (ho : r.outOf a = some A) (hi : r.inOf b = some B)
    (hd : dynOk im d A = true) :
    convert im r a b d = .typeErr ↔ (A.isIface = true ∧ dynOk im d B = false) := by
  unfold SoundConn at hs
  rw [ho, hi] at hs
  unfold convert
  simp only [hi]
  rcases hc : checkAssignable im (some A) (some B) with _ | _ | _
  · simp [hc] at hs
  · -- must: the value always fits, no error whatever is installed
    have := must_sound im ht A B hc d hd
    simp [this]
  · simp only [hc] at hs
    have hcont : r.mayEdges.contains (a, b) = true := by simpa using hs
    have hA := may_upstream_iface im A B hc
    simp only [hcont, Bool.true_and, hA, true_and]
    by_cases hk : dynOk im d B = true
    · simp [hk]
    · simp [hk]

end EinoV.C07
