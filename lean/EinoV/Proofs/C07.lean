/- Helper lemmas for C07. -/
import EinoV.Model.C20Builder
import EinoV.Model.C07
import EinoV.Proofs.C20

namespace EinoV.C07
open EinoV.Build

end EinoV.C07
