/-
  C05 / C06 — engine-level facts about `foldFin` (resolve, updateValues, updateDependencies — no `get`)
  in any-predecessor (Pregel) mode:

    * `pregel_fold_then_get`: folding a first part of the finished tasks into the channels and then
      running `calculateNextTasks` on the rest is `calculateNextTasks` on all of them;
    * `pregel_calcNext_perm`: one `calculateNextTasks` does not depend on the order of the finished tasks
      (distinct node keys, order-insensitive merge).

  The proofs go through an explicit description of one superstep in Pregel mode: the finished tasks
  determine a list of write operations `(to, from, value)` (`opsAll`), and `updateValues` after
  `resolve` sets, channel by channel, the reported values by an `aset`-fold over the operations
  addressed to that channel (`valsMap`).
-/
import EinoV.Model.C05Nested
import EinoV.Proofs.Assoc
import EinoV.Proofs.C05Engine
import EinoV.Proofs.C02Workflow
namespace EinoV.Interrupt
open EinoV.Engine

namespace PregelFold

variable {V : Type}

/-! ### folds of `aset` -/

/-- set the entries of `l` one after the other -/
def asets {α : Type} (l v : List (Key × α)) : List (Key × α) :=
  l.foldl (fun acc kv => aset kv.1 kv.2 acc) v

theorem asets_nil {α : Type} (v : List (Key × α)) : asets [] v = v := rfl

theorem asets_cons {α : Type} (p : Key × α) (l v : List (Key × α)) :
    asets (p :: l) v = asets l (aset p.1 p.2 v) := rfl

theorem asets_append {α : Type} (l1 l2 v : List (Key × α)) :
    asets (l1 ++ l2) v = asets l2 (asets l1 v) := by
  simp [asets, List.foldl_append]

theorem mem_akeys_aset_self {α : Type} (k : Key) (x : α) (l : List (Key × α)) : k ∈ akeys (aset k x l) := by
  rw [akeys_aset]; split <;> simp_all

theorem mem_akeys_aset_of_mem {α : Type} (k k' : Key) (x : α) (l : List (Key × α)) (h : k ∈ akeys l) :
    k ∈ akeys (aset k' x l) := by
  rw [akeys_aset]; split <;> simp_all

theorem aset_aset_same {α : Type} (k : Key) (x y : α) (l : List (Key × α)) :
    aset k x (aset k y l) = aset k x l := by
  induction l with
  | nil => simp [aset]
  | cons p t ih =>
    obtain ⟨k', v'⟩ := p
    by_cases h : (k' == k) = true
    · simp [aset, h]
    · simp [aset, h, ih]

/-- setting a key that is present commutes with setting any other key -/
theorem aset_comm_left {α : Type} (k k' : Key) (x y : α) (l : List (Key × α)) (hne : k ≠ k')
    (hk : k ∈ akeys l) : aset k x (aset k' y l) = aset k' y (aset k x l) := by
  induction l with
  | nil => simp [akeys] at hk
  | cons p t ih =>
    obtain ⟨k0, u⟩ := p
    by_cases h0 : (k0 == k) = true
    · have e : k0 = k := by simpa using h0
      have hkk' : (k == k') = false := by simpa using hne
      subst e
      simp [aset, hkk']
    · by_cases h1 : (k0 == k') = true
      · have e : k0 = k' := by simpa using h1
        have hk'k : (k' == k) = false := by simpa using fun e' => hne e'.symm
        subst e
        simp [aset, hk'k]
      · have hk' : k ∈ akeys t := by
          simp only [akeys, List.map_cons, List.mem_cons] at hk
          rcases hk with e | h
          · exact absurd (by simpa using e.symm) h0
          · exact h
        simp only [aset, h0, h1, Bool.false_eq_true, ↓reduceIte]
        rw [ih hk']

theorem asets_comm_present {α : Type} (k : Key) (x : α) (A : List (Key × α)) :
    ∀ (u : List (Key × α)), k ∈ akeys u → k ∉ akeys A → aset k x (asets A u) = asets A (aset k x u) := by
  induction A with
  | nil => intro u _ _; rfl
  | cons p A' ih =>
    intro u hu hA
    simp only [akeys, List.map_cons, List.mem_cons, not_or] at hA
    simp only [asets_cons]
    rw [ih _ (mem_akeys_aset_of_mem _ _ _ _ hu) (by simpa [akeys] using hA.2)]
    rw [aset_comm_left k p.1 x p.2 u hA.1 hu]

/-- over a list with distinct keys, setting an entry of the list and then folding is folding and
    then setting that entry -/
theorem asets_aset {α : Type} (k : Key) (x : α) (A : List (Key × α)) :
    ∀ (v : List (Key × α)), (akeys A).Nodup → asets (aset k x A) v = aset k x (asets A v) := by
  induction A with
  | nil => intro v _; rfl
  | cons p A' ih =>
    intro v hnd
    obtain ⟨k', y⟩ := p
    simp only [akeys, List.map_cons, List.nodup_cons] at hnd
    by_cases h : (k' == k) = true
    · have e : k' = k := by simpa using h
      subst e
      simp only [aset, beq_self_eq_true, ↓reduceIte, asets_cons]
      have hA : k' ∉ akeys A' := by simpa [akeys] using hnd.1
      rw [asets_comm_present k' x A' _ (mem_akeys_aset_self _ _ _) hA, aset_aset_same]
    · simp only [aset, h, Bool.false_eq_true, ↓reduceIte, asets_cons]
      exact ih _ (by simpa [akeys] using hnd.2)

theorem nodup_akeys_asets {α : Type} (a : List (Key × α)) :
    ∀ (A : List (Key × α)), (akeys A).Nodup → (akeys (asets a A)).Nodup := by
  induction a with
  | nil => intro A h; exact h
  | cons p a' ih => intro A h; exact ih _ (nodup_akeys_aset _ _ _ h)

theorem asets_asets {α : Type} (a : List (Key × α)) :
    ∀ (A v : List (Key × α)), (akeys A).Nodup → asets (asets a A) v = asets a (asets A v) := by
  induction a with
  | nil => intro A v _; rfl
  | cons p a' ih =>
    intro A v hnd
    simp only [asets_cons]
    rw [ih _ _ (nodup_akeys_aset _ _ _ hnd), asets_aset _ _ _ _ hnd]

theorem asets_asets_nil {α : Type} (a v : List (Key × α)) : asets (asets a []) v = asets a v :=
  asets_asets a [] v (by simp [akeys])

/-! ### filtering by a predicate on keys -/

theorem filter_aset {α : Type} (P : Key → Bool) (k : Key) (x : α) (A : List (Key × α)) :
    (aset k x A).filter (fun kv => P kv.1) =
      if P k then aset k x (A.filter (fun kv => P kv.1)) else A.filter (fun kv => P kv.1) := by
  induction A with
  | nil => by_cases hp : P k = true <;> simp [aset, hp]
  | cons p t ih =>
    obtain ⟨k', y⟩ := p
    by_cases h : (k' == k) = true
    · have e : k' = k := by simpa using h
      subst e
      by_cases hp : P k' = true <;> simp [aset, hp]
    · by_cases hp' : P k' = true
      · by_cases hp : P k = true
        · simp only [hp, ↓reduceIte] at ih
          simp [aset, h, hp', hp, ih]
        · simp only [hp, Bool.false_eq_true, ↓reduceIte] at ih
          simp [aset, h, hp', hp, ih]
      · by_cases hp : P k = true
        · simp only [hp, ↓reduceIte] at ih
          simp [aset, h, hp', hp, ih]
        · simp only [hp, Bool.false_eq_true, ↓reduceIte] at ih
          simp [aset, h, hp', hp, ih]

theorem filter_asets {α : Type} (P : Key → Bool) (a : List (Key × α)) :
    ∀ (A : List (Key × α)), (asets a A).filter (fun kv => P kv.1) =
      asets (a.filter (fun kv => P kv.1)) (A.filter (fun kv => P kv.1)) := by
  induction a with
  | nil => intro A; rfl
  | cons p a' ih =>
    intro A
    simp only [asets_cons]
    rw [ih, filter_aset]
    by_cases hp : P p.1 = true
    · simp [hp, asets_cons]
    · simp [hp]

/-! ### channels in any-predecessor mode -/

theorem reportValues_pregel (l : List (Key × V)) :
    ∀ (c : Chan V), c.reportValues false l = { c with values := asets l c.values } := by
  unfold Chan.reportValues
  simp only [Bool.false_eq_true, ↓reduceIte]
  induction l with
  | nil => intro c; rfl
  | cons p t ih => intro c; simp only [List.foldl_cons]; rw [ih]; rfl

theorem reportValues_nil (dag : Bool) (c : Chan V) : c.reportValues dag [] = c := by
  unfold Chan.reportValues; split <;> (try split) <;> rfl

theorem modChan_id (cm : Chans V) (k : Key) : modChan cm k (fun c => c) = cm := by
  unfold modChan
  induction cm with
  | nil => rfl
  | cons p t ih => simp only [List.map_cons, ih]; split <;> rfl

theorem updateDeps_pregel (r : Runner V) (hdag : r.dag = false) (ds : List (Key × List Key)) :
    ∀ (cm : Chans V), updateDeps r cm ds = cm := by
  unfold updateDeps
  induction ds with
  | nil => intro cm; rfl
  | cons d rest ih =>
    intro cm
    have hstep : modChan cm d.1 (fun c => c.reportDeps r.dag (d.2.filter (lookupList d.1 r.ctrlPreds).contains)) = cm := by
      rw [hdag]; exact modChan_id cm d.1
    show List.foldl _ (modChan cm d.1 (fun c => c.reportDeps r.dag (d.2.filter (lookupList d.1 r.ctrlPreds).contains))) rest = cm
    rw [hstep]; exact ih cm

/-! ### the write map, target by target -/

/-- a write operation: target channel, reporting node, value -/
abbrev WOp (V : Type) := Key × Key × V

def applyOps (os : List (WOp V)) (ws : List (Key × List (Key × V))) : List (Key × List (Key × V)) :=
  os.foldl (fun ws o => addWrite ws o.1 o.2.1 o.2.2) ws

def gw (k : Key) (ws : List (Key × List (Key × V))) : List (Key × V) := (alookup k ws).getD []

/-- the operations addressed to channel `k`, as (reporting node, value) -/
def opsFor (k : Key) (os : List (WOp V)) : List (Key × V) :=
  (os.filter (fun o => o.1 == k)).map (fun o => o.2)

theorem opsFor_append (k : Key) (o1 o2 : List (WOp V)) : opsFor k (o1 ++ o2) = opsFor k o1 ++ opsFor k o2 := by
  simp [opsFor]

theorem gw_addWrite (ws : List (Key × List (Key × V))) (to f k : Key) (x : V) :
    gw k (addWrite ws to f x) = if k = to then aset f x (gw k ws) else gw k ws := by
  unfold gw addWrite
  by_cases h : k = to
  · subst h; simp [alookup_aset_same]
  · simp [alookup_aset_other _ _ _ _ h, h]

theorem gw_applyOps (k : Key) (os : List (WOp V)) :
    ∀ (ws : List (Key × List (Key × V))), gw k (applyOps os ws) = asets (opsFor k os) (gw k ws) := by
  induction os with
  | nil => intro ws; rfl
  | cons o rest ih =>
    intro ws
    obtain ⟨to, f, x⟩ := o
    show gw k (applyOps rest (addWrite ws to f x)) = _
    rw [ih, gw_addWrite]
    by_cases h : k = to
    · subst h; simp [opsFor, asets_cons]
    · have : (to == k) = false := by simpa using fun e => h e.symm
      simp [opsFor, h, this]

theorem nodup_applyOps (os : List (WOp V)) :
    ∀ (ws : List (Key × List (Key × V))), (akeys ws).Nodup → (akeys (applyOps os ws)).Nodup := by
  induction os with
  | nil => intro ws h; exact h
  | cons o rest ih => intro ws h; exact ih _ (nodup_akeys_aset _ _ _ h)

theorem gw_cons (t : Key) (w : Key × List (Key × V)) (rest : List (Key × List (Key × V))) :
    gw t (w :: rest) = if (w.1 == t) = true then w.2 else gw t rest := by
  obtain ⟨k, l⟩ := w
  unfold gw
  by_cases h : (k == t) = true <;> simp [alookup, h]

/-- `updateValues` with distinct targets updates every channel independently -/
theorem updateValues_map (r : Runner V) (ws : List (Key × List (Key × V))) :
    ∀ (cm : Chans V), (akeys ws).Nodup →
    updateValues r cm ws = cm.map (fun p =>
      (p.1, p.2.reportValues r.dag ((gw p.1 ws).filter (fun kv => (lookupList p.1 r.dataPreds).contains kv.1)))) := by
  unfold updateValues
  induction ws with
  | nil =>
    intro cm _
    simp only [List.foldl_nil, gw, alookup, Option.getD_none, List.filter_nil, reportValues_nil]
    simp
  | cons w rest ih =>
    intro cm hnd
    simp only [List.foldl_cons]
    simp only [akeys, List.map_cons, List.nodup_cons] at hnd
    rw [ih _ (by simpa [akeys] using hnd.2)]
    unfold modChan
    rw [List.map_map]
    apply List.map_congr_left
    intro p _
    simp only [Function.comp]
    by_cases hk : p.1 = w.1
    · have hk' : (p.1 == w.1) = true := by simpa using hk
      have hk'' : (w.1 == p.1) = true := by simpa using hk.symm
      have hnone : gw p.1 rest = [] := by
        unfold gw; rw [alookup_none_of_not_mem]; rfl
        rw [hk]; simpa [akeys] using hnd.1
      simp only [hk', ↓reduceIte, gw_cons, hk'', hnone, List.filter_nil, reportValues_nil]
      simp [hk]
    · have hk' : (p.1 == w.1) = false := by simpa using hk
      have hk'' : (w.1 == p.1) = false := by simpa using fun e => hk e.symm
      simp only [hk', Bool.false_eq_true, ↓reduceIte, gw_cons, hk'']

/-- the channels after the write operations `os` were reported (any-predecessor mode): per channel,
    the operations addressed to it and coming from a declared data predecessor are set one by one -/
def valsMap (r : Runner V) (os : List (WOp V)) (cm : Chans V) : Chans V :=
  cm.map (fun p =>
    (p.1, { p.2 with
      values := asets ((opsFor p.1 os).filter (fun kv => (lookupList p.1 r.dataPreds).contains kv.1)) p.2.values }))

theorem updateValues_pregel (r : Runner V) (hdag : r.dag = false) (os : List (WOp V)) (cm : Chans V) :
    updateValues r cm (applyOps os []) = valsMap r os cm := by
  rw [updateValues_map r _ cm (nodup_applyOps os [] (by simp [akeys]))]
  unfold valsMap
  apply List.map_congr_left
  intro p _
  rw [hdag, reportValues_pregel, gw_applyOps]
  have : gw p.1 ([] : List (Key × List (Key × V))) = [] := rfl
  rw [this, filter_asets, List.filter_nil, asets_asets_nil]

theorem valsMap_append (r : Runner V) (o1 o2 : List (WOp V)) (cm : Chans V) :
    valsMap r o2 (valsMap r o1 cm) = valsMap r (o1 ++ o2) cm := by
  unfold valsMap
  rw [List.map_map]
  apply List.map_congr_left
  intro p _
  simp only [Function.comp, opsFor_append, List.filter_append, asets_append]

/-! ### `resolve` in any-predecessor mode -/

theorem skipStep_pregel (f : Key) (acc : Chans V × List Key) (s : Key) : skipStep false f acc s = acc := by
  simp [skipStep, skipOne]

theorem foldl_skipStep_pregel (f : Key) (l : List Key) :
    ∀ (acc : Chans V × List Key), l.foldl (skipStep false f) acc = acc := by
  induction l with
  | nil => intro acc; rfl
  | cons s rest ih => intro acc; simp only [List.foldl_cons, skipStep_pregel]; exact ih acc

theorem reportBranch_pregel (r : Runner V) (hdag : r.dag = false) (cm : Chans V) (f : Key) (sk : List Key) :
    reportBranch r cm f sk = .ok cm := by
  unfold reportBranch
  rw [hdag, foldl_skipStep_pregel]
  cases (r.nodes.length + 2) * (r.nodes.length + 2) <;> rfl

/-- the write operations of one finished task -/
def opsOf (r : Runner V) (t : Done V) : Except Err (List (WOp V)) :=
  match r.call? t.1 with
  | none => .ok []
  | some n =>
    match selectOf n t.2 with
    | .error e => .error e
    | .ok sel => .ok ((sel ++ n.writeTo).map (fun k => (k, t.1, t.2)))

theorem applyOps_map (l : List Key) (f : Key) (x : V) (ws : List (Key × List (Key × V))) :
    applyOps (l.map (fun k => (k, f, x))) ws = l.foldl (fun ws k => addWrite ws k f x) ws := by
  simp [applyOps, List.foldl_map]

theorem resolveStep_pregel_err (r : Runner V) (acc : Resolved V) (t : Done V) (e : Err)
    (h : opsOf r t = .error e) : resolveStep r acc t = .error e := by
  unfold opsOf at h
  unfold resolveStep calcBranch
  split at h
  · cases h
  · rename_i n hn
    split at h
    · rename_i e' he
      cases h
      simp only [hn, he, bind, Except.bind]
    · cases h

theorem resolveStep_pregel_ok (r : Runner V) (hdag : r.dag = false) (acc : Resolved V) (t : Done V)
    (os : List (WOp V)) (h : opsOf r t = .ok os) :
    ∃ ds, resolveStep r acc t = .ok { cm := acc.cm, writes := applyOps os acc.writes, deps := ds } := by
  unfold opsOf at h
  unfold resolveStep calcBranch
  split at h
  · rename_i hn
    cases h
    exact ⟨acc.deps, by simp only [hn]; rfl⟩
  · rename_i n hn
    split at h
    · cases h
    · rename_i sel hs
      cases h
      refine ⟨sel.foldl (fun ds k => addDep ds k t.1) (n.controls.foldl (fun ds k => addDep ds k t.1) acc.deps), ?_⟩
      simp only [hn, hs, reportBranch_pregel r hdag, bind, Except.bind, pure, Except.pure, applyOps_map]

/-- the write operations of a list of finished tasks (first failing branch condition wins) -/
def opsAll (r : Runner V) : List (Done V) → Except Err (List (WOp V))
  | [] => .ok []
  | t :: rest =>
    match opsOf r t with
    | .error e => .error e
    | .ok o =>
      match opsAll r rest with
      | .error e => .error e
      | .ok os => .ok (o ++ os)

theorem applyOps_append (o1 o2 : List (WOp V)) (ws : List (Key × List (Key × V))) :
    applyOps (o1 ++ o2) ws = applyOps o2 (applyOps o1 ws) := by
  simp [applyOps, List.foldl_append]

theorem foldlM_resolve_pregel_err (r : Runner V) (hdag : r.dag = false) (D : List (Done V)) :
    ∀ (acc : Resolved V) (e : Err), opsAll r D = .error e → D.foldlM (resolveStep r) acc = .error e := by
  induction D with
  | nil => intro acc e h; cases h
  | cons t rest ih =>
    intro acc e h
    simp only [opsAll] at h
    simp only [List.foldlM_cons, bind, Except.bind]
    cases ho : opsOf r t with
    | error e' =>
      rw [ho] at h
      have he : e' = e := by simpa using h
      rw [resolveStep_pregel_err r acc t e' ho, he]
    | ok o =>
      rw [ho] at h
      obtain ⟨ds, hs⟩ := resolveStep_pregel_ok r hdag acc t o ho
      rw [hs]
      cases hr : opsAll r rest with
      | error e' =>
        rw [hr] at h
        have he : e' = e := by simpa using h
        exact ih _ _ (he ▸ hr)
      | ok os => rw [hr] at h; cases h

theorem foldlM_resolve_pregel_ok (r : Runner V) (hdag : r.dag = false) (D : List (Done V)) :
    ∀ (acc : Resolved V) (os : List (WOp V)), opsAll r D = .ok os →
    ∃ ds, D.foldlM (resolveStep r) acc = .ok { cm := acc.cm, writes := applyOps os acc.writes, deps := ds } := by
  induction D with
  | nil => intro acc os h; cases h; exact ⟨acc.deps, rfl⟩
  | cons t rest ih =>
    intro acc os h
    simp only [opsAll] at h
    simp only [List.foldlM_cons, bind, Except.bind]
    cases ho : opsOf r t with
    | error e' => rw [ho] at h; cases h
    | ok o =>
      rw [ho] at h
      obtain ⟨ds, hs⟩ := resolveStep_pregel_ok r hdag acc t o ho
      rw [hs]
      cases hr : opsAll r rest with
      | error e' => rw [hr] at h; cases h
      | ok os' =>
        rw [hr] at h; cases h
        obtain ⟨ds', hs'⟩ := ih { cm := acc.cm, writes := applyOps o acc.writes, deps := ds } os' hr
        refine ⟨ds', ?_⟩
        show List.foldlM (resolveStep r) _ rest = _
        rw [hs', applyOps_append]

theorem opsAll_append (r : Runner V) (D1 D2 : List (Done V)) (os : List (WOp V))
    (h : opsAll r (D1 ++ D2) = .ok os) :
    ∃ o1 o2, opsAll r D1 = .ok o1 ∧ opsAll r D2 = .ok o2 ∧ os = o1 ++ o2 := by
  induction D1 generalizing os with
  | nil => exact ⟨[], os, rfl, h, rfl⟩
  | cons t rest ih =>
    simp only [List.cons_append, opsAll] at h ⊢
    cases ho : opsOf r t with
    | error e' => rw [ho] at h; cases h
    | ok o =>
      rw [ho] at h
      cases hr : opsAll r (rest ++ D2) with
      | error e' => rw [hr] at h; cases h
      | ok os' =>
        rw [hr] at h; cases h
        obtain ⟨o1, o2, h1, h2, he⟩ := ih os' hr
        exact ⟨o ++ o1, o2, by simp only [h1], h2, by rw [he, List.append_assoc]⟩

/-! ### one superstep in any-predecessor mode -/

theorem calcNext_pregel_err (ops : ValOps V) (r : Runner V) (hdag : r.dag = false) (cm : Chans V)
    (D : List (Done V)) (e : Err) (h : opsAll r D = .error e) : calcNext ops r cm D = .error e := by
  unfold calcNext resolve
  rw [foldlM_resolve_pregel_err r hdag D _ e h]
  rfl

theorem calcNext_pregel_ok (ops : ValOps V) (r : Runner V) (hdag : r.dag = false) (cm : Chans V)
    (D : List (Done V)) (os : List (WOp V)) (h : opsAll r D = .ok os) :
    calcNext ops r cm D = classify (getReady ops false (valsMap r os cm)) := by
  obtain ⟨ds, hs⟩ := foldlM_resolve_pregel_ok r hdag D { cm := cm, writes := [], deps := [] } os h
  rw [calcNext_eq_core]
  unfold calcCore resolve
  rw [hs]
  simp only [bind, Except.bind, pure, Except.pure, updateDeps_pregel r hdag, updateValues_pregel r hdag, hdag]

theorem foldFin_pregel_ok (r : Runner V) (hdag : r.dag = false) (cm : Chans V)
    (D : List (Done V)) (os : List (WOp V)) (h : opsAll r D = .ok os) :
    foldFin r cm D = .ok (valsMap r os cm) := by
  obtain ⟨ds, hs⟩ := foldlM_resolve_pregel_ok r hdag D { cm := cm, writes := [], deps := [] } os h
  unfold foldFin resolve
  rw [hs]
  simp only [updateDeps_pregel r hdag, updateValues_pregel r hdag]

end PregelFold

open PregelFold in
/-- any-predecessor mode: reporting the first part of the finished tasks to the channels (no `get`) and
    then `calculateNextTasks` on the rest is `calculateNextTasks` on all of them -/
theorem pregel_fold_then_get {V} (ops : ValOps V) (base : Runner V) (hdag : base.dag = false)
    (cm : Chans V) (D1 D2 : List (Done V)) (cm' : Chans V) (nx : Next V)
    (h : calcNext ops base cm (D1 ++ D2) = .ok (cm', nx)) :
    ∃ cm2, foldFin base cm D1 = .ok cm2 ∧ calcNext ops base cm2 D2 = .ok (cm', nx) := by
  cases ho : opsAll base (D1 ++ D2) with
  | error e => rw [calcNext_pregel_err ops base hdag cm _ e ho] at h; cases h
  | ok os =>
    obtain ⟨o1, o2, h1, h2, he⟩ := opsAll_append base D1 D2 os ho
    refine ⟨valsMap base o1 cm, foldFin_pregel_ok base hdag cm D1 o1 h1, ?_⟩
    rw [calcNext_pregel_ok ops base hdag _ D2 o2 h2, valsMap_append, ← he,
      ← calcNext_pregel_ok ops base hdag cm _ os ho]
    exact h

namespace PregelFold

variable {V : Type}

/-! ### order of the operations: the reported values are the same up to order -/

theorem aset_append_left {α : Type} (k : Key) (x : α) (u w : List (Key × α)) (h : k ∈ akeys u) :
    aset k x (u ++ w) = aset k x u ++ w := by
  induction u with
  | nil => simp [akeys] at h
  | cons p t ih =>
    obtain ⟨k', y⟩ := p
    by_cases h0 : (k' == k) = true
    · simp [aset, h0]
    · have hk : k ∈ akeys t := by
        simp only [akeys, List.map_cons, List.mem_cons] at h
        rcases h with e | h
        · exact absurd (by simpa using e.symm) h0
        · exact h
      simp only [List.cons_append, aset, h0, Bool.false_eq_true, ↓reduceIte, ih hk]

theorem aset_append_right {α : Type} (k : Key) (x : α) (u w : List (Key × α)) (h : k ∉ akeys u) :
    aset k x (u ++ w) = u ++ aset k x w := by
  induction u with
  | nil => rfl
  | cons p t ih =>
    obtain ⟨k', y⟩ := p
    simp only [akeys, List.map_cons, List.mem_cons, not_or] at h
    have h0 : (k' == k) = false := by simpa using fun e => h.1 e.symm
    simp only [List.cons_append, aset, h0, Bool.false_eq_true, ↓reduceIte, ih (by simpa [akeys] using h.2)]

/-- over distinct keys, setting `k` is: drop the entry of `k`, put the new one (up to order) -/
theorem aset_perm_filter {α : Type} (k : Key) (x : α) (w : List (Key × α)) (hnd : (akeys w).Nodup) :
    (aset k x w).Perm ((k, x) :: w.filter (fun p => p.1 != k)) := by
  induction w with
  | nil => simp [aset]
  | cons p t ih =>
    obtain ⟨k', y⟩ := p
    simp only [akeys, List.map_cons, List.nodup_cons] at hnd
    by_cases h0 : (k' == k) = true
    · have e : k' = k := by simpa using h0
      subst e
      have hf : t.filter (fun p => p.1 != k') = t := by
        rw [List.filter_eq_self]
        intro a ha
        have : a.1 ≠ k' := fun e => hnd.1 (e ▸ List.mem_map.2 ⟨a, ha, rfl⟩)
        simpa using this
      simp [aset, hf]
    · have hne : (k' != k) = true := by simpa using h0
      simp only [aset, h0, Bool.false_eq_true, ↓reduceIte, List.filter_cons, hne]
      exact ((ih (by simpa [akeys] using hnd.2)).cons (k', y)).trans (List.Perm.swap _ _ _)

theorem aset_perm_nodup {α : Type} (k : Key) (x : α) (w w' : List (Key × α)) (hnd : (akeys w).Nodup)
    (hp : w.Perm w') : (aset k x w).Perm (aset k x w') := by
  have hnd' : (akeys w').Nodup := by
    unfold akeys at hnd ⊢
    exact ((hp.map _).nodup_iff).1 hnd
  exact (aset_perm_filter k x w hnd).trans
    (((hp.filter _).cons (k, x)).trans (aset_perm_filter k x w' hnd').symm)

theorem akeys_aset_of_mem {α : Type} (k : Key) (x : α) (l : List (Key × α)) (h : k ∈ akeys l) :
    akeys (aset k x l) = akeys l := by
  rw [akeys_aset]; simp [h]

theorem mem_akeys_aset_iff {α : Type} (k k' : Key) (x : α) (l : List (Key × α)) :
    k' ∈ akeys (aset k x l) ↔ k' ∈ akeys l ∨ k' = k := by
  rw [akeys_aset]
  split
  · rename_i h
    constructor
    · exact Or.inl
    · rintro (h' | rfl)
      · exact h'
      · exact h
  · simp

/-- the same list up to the order of a tail of fresh, distinct keys -/
def TailPerm {α : Type} (v v' : List (Key × α)) : Prop :=
  ∃ u w w', v = u ++ w ∧ v' = u ++ w' ∧ w.Perm w' ∧ (akeys w).Nodup ∧ ∀ k ∈ akeys w, k ∉ akeys u

theorem TailPerm.refl {α : Type} (v : List (Key × α)) : TailPerm v v :=
  ⟨v, [], [], by simp, by simp, List.Perm.refl _, by simp [akeys], by simp [akeys]⟩

theorem TailPerm.perm {α : Type} {v v' : List (Key × α)} (h : TailPerm v v') : v.Perm v' := by
  obtain ⟨u, w, w', rfl, rfl, hp, _, _⟩ := h
  exact hp.append_left u

theorem TailPerm.aset {α : Type} {v v' : List (Key × α)} (h : TailPerm v v') (k : Key) (x : α) :
    TailPerm (aset k x v) (aset k x v') := by
  obtain ⟨u, w, w', rfl, rfl, hp, hnd, hdis⟩ := h
  by_cases hk : k ∈ akeys u
  · refine ⟨Engine.aset k x u, w, w', aset_append_left k x u w hk, aset_append_left k x u w' hk, hp, hnd, ?_⟩
    rw [akeys_aset_of_mem k x u hk]; exact hdis
  · refine ⟨u, Engine.aset k x w, Engine.aset k x w', aset_append_right k x u w hk, aset_append_right k x u w' hk,
      aset_perm_nodup k x w w' hnd hp, nodup_akeys_aset k x w hnd, ?_⟩
    intro k' hk'
    rcases (mem_akeys_aset_iff k k' x w).1 hk' with h | rfl
    · exact hdis k' h
    · exact hk

theorem TailPerm.asets {α : Type} (a : List (Key × α)) :
    ∀ {v v' : List (Key × α)}, TailPerm v v' → TailPerm (asets a v) (asets a v') := by
  induction a with
  | nil => intro v v' h; exact h
  | cons p a' ih => intro v v' h; exact ih (h.aset p.1 p.2)

theorem tailPerm_swap {α : Type} (k k' : Key) (x y : α) (v : List (Key × α)) (hne : k ≠ k') :
    TailPerm (aset k' y (aset k x v)) (aset k x (aset k' y v)) := by
  by_cases hk : k ∈ akeys v
  · rw [aset_comm_left k k' x y v hne hk]; exact TailPerm.refl _
  · by_cases hk' : k' ∈ akeys v
    · rw [aset_comm_left k' k y x v (fun e => hne e.symm) hk']; exact TailPerm.refl _
    · have h1 : k' ∉ akeys (v ++ [(k, x)]) := by
        simp only [akeys, List.map_append, List.map_cons, List.map_nil, List.mem_append, List.mem_singleton, not_or]
        exact ⟨by simpa [akeys] using hk', fun e => hne e.symm⟩
      have h2 : k ∉ akeys (v ++ [(k', y)]) := by
        simp only [akeys, List.map_append, List.map_cons, List.map_nil, List.mem_append, List.mem_singleton, not_or]
        exact ⟨by simpa [akeys] using hk, hne⟩
      rw [aset_append_new k x v hk, aset_append_new k' y _ h1, aset_append_new k' y v hk', aset_append_new k x _ h2]
      refine ⟨v, [(k, x), (k', y)], [(k', y), (k, x)], by simp, by simp, List.Perm.swap _ _ _, ?_, ?_⟩
      · simp [akeys, hne]
      · intro a ha
        simp only [akeys, List.map_cons, List.map_nil, List.mem_cons, List.not_mem_nil, or_false] at ha
        rcases ha with rfl | rfl
        · exact hk
        · exact hk'

/-- entries with the same key are the same entry -/
def Functional {α : Type} (a : List (Key × α)) : Prop := ∀ p ∈ a, ∀ q ∈ a, p.1 = q.1 → p = q

theorem asets_perm {α : Type} {a a' : List (Key × α)} (hp : a.Perm a') :
    Functional a → ∀ (v : List (Key × α)), (asets a v).Perm (asets a' v) := by
  induction hp with
  | nil => intro _ v; exact List.Perm.refl _
  | cons p _ ih =>
    intro hf v
    simp only [asets_cons]
    exact ih (fun p hp q hq => hf p (List.mem_cons_of_mem _ hp) q (List.mem_cons_of_mem _ hq)) _
  | swap p q l =>
    intro hf v
    simp only [asets_cons]
    by_cases he : q.1 = p.1
    · have : q = p := hf q (by simp) p (by simp) he
      rw [this]
    · exact (TailPerm.asets l (tailPerm_swap q.1 p.1 q.2 p.2 v he)).perm
  | trans h1 _ ih1 ih2 =>
    intro hf v
    exact (ih1 hf v).trans (ih2 (fun p hp q hq => hf p (h1.mem_iff.2 hp) q (h1.mem_iff.2 hq)) v)

/-! ### `get` on channels whose values agree up to order -/

theorem get_pregel_perm (ops : ValOps V) (hm : MergePerm ops) (c : Chan V) (l l' : List (Key × V))
    (h : l.Perm l') : ({ c with values := l } : Chan V).get ops false = ({ c with values := l' } : Chan V).get ops false := by
  unfold Chan.get
  simp only [Bool.false_eq_true, ↓reduceIte]
  cases l with
  | nil => rw [List.nil_perm.mp h]
  | cons p t =>
    cases l' with
    | nil => exact absurd h.length_eq (by simp)
    | cons p' t' =>
      simp only [List.isEmpty_cons, Bool.false_eq_true, ↓reduceIte]
      rw [collect_perm ops hm _ _ (h.map (·.2))]

theorem getReady_pregel_congr (ops : ValOps V) (hm : MergePerm ops) (f g : Key × Chan V → List (Key × V)) :
    ∀ (cm : Chans V), (∀ p ∈ cm, (f p).Perm (g p)) →
    getReady ops false (cm.map (fun p => (p.1, { p.2 with values := f p }))) =
      getReady ops false (cm.map (fun p => (p.1, { p.2 with values := g p }))) := by
  intro cm
  induction cm with
  | nil => intro _; rfl
  | cons p rest ih =>
    intro h
    simp only [List.map_cons, getReady]
    rw [ih (fun q hq => h q (List.mem_cons_of_mem _ hq)), get_pregel_perm ops hm p.2 _ _ (h p (by simp))]

/-! ### the operations of a permuted list of finished tasks -/

def opsD (r : Runner V) (t : Done V) : List (WOp V) :=
  match opsOf r t with
  | .ok o => o
  | .error _ => []

theorem opsAll_ok (r : Runner V) (D : List (Done V)) :
    ∀ (os : List (WOp V)), opsAll r D = .ok os → (∀ t ∈ D, ∃ o, opsOf r t = .ok o) ∧ os = D.flatMap (opsD r) := by
  induction D with
  | nil => intro os h; cases h; simp
  | cons t rest ih =>
    intro os h
    simp only [opsAll] at h
    cases ho : opsOf r t with
    | error e' => rw [ho] at h; cases h
    | ok o =>
      rw [ho] at h
      cases hr : opsAll r rest with
      | error e' => rw [hr] at h; cases h
      | ok os' =>
        rw [hr] at h; cases h
        obtain ⟨h1, h2⟩ := ih os' hr
        refine ⟨?_, ?_⟩
        · intro t' ht'
          rcases List.mem_cons.1 ht' with rfl | ht'
          · exact ⟨o, ho⟩
          · exact h1 t' ht'
        · simp only [List.flatMap_cons, opsD, ho, h2]

theorem opsAll_of_ok (r : Runner V) (D : List (Done V)) :
    (∀ t ∈ D, ∃ o, opsOf r t = .ok o) → opsAll r D = .ok (D.flatMap (opsD r)) := by
  induction D with
  | nil => intro _; rfl
  | cons t rest ih =>
    intro h
    obtain ⟨o, ho⟩ := h t (by simp)
    simp only [opsAll, ho, ih (fun t' ht' => h t' (List.mem_cons_of_mem _ ht')), List.flatMap_cons, opsD]

theorem opsOf_snd (r : Runner V) (t : Done V) (o : List (WOp V)) (h : opsOf r t = .ok o) :
    ∀ e ∈ o, e.2 = t := by
  unfold opsOf at h
  split at h
  · cases h; simp
  · split at h
    · cases h
    · cases h
      intro e he
      obtain ⟨k, _, rfl⟩ := List.mem_map.1 he
      rfl

theorem opsD_snd (r : Runner V) (t : Done V) : ∀ e ∈ opsD r t, e.2 = t := by
  unfold opsD
  cases ho : opsOf r t with
  | error e' => simp
  | ok o => exact opsOf_snd r t o ho

theorem opsFor_flatMap_mem (r : Runner V) (k : Key) (D : List (Done V)) :
    ∀ e ∈ opsFor k (D.flatMap (opsD r)), e ∈ D := by
  intro e he
  unfold opsFor at he
  obtain ⟨o, ho, rfl⟩ := List.mem_map.1 he
  obtain ⟨t, ht, hot⟩ := List.mem_flatMap.1 (List.mem_filter.1 ho).1
  rw [opsD_snd r t o hot]; exact ht

theorem eq_of_nodup_keys (D : List (Done V)) (hnd : (D.map (·.1)).Nodup) :
    ∀ p ∈ D, ∀ q ∈ D, p.1 = q.1 → p = q := by
  induction D with
  | nil => intro p hp; cases hp
  | cons d rest ih =>
    simp only [List.map_cons, List.nodup_cons] at hnd
    intro p hp q hq he
    rcases List.mem_cons.1 hp with e1 | hp'
    · rcases List.mem_cons.1 hq with e2 | hq'
      · rw [e1, e2]
      · exfalso; apply hnd.1; rw [← e1, he]; exact List.mem_map.2 ⟨q, hq', rfl⟩
    · rcases List.mem_cons.1 hq with e2 | hq'
      · exfalso; apply hnd.1; rw [← e2, ← he]; exact List.mem_map.2 ⟨p, hp', rfl⟩
      · exact ih hnd.2 p hp' q hq' he

end PregelFold

open PregelFold in
/-- any-predecessor mode: `calculateNextTasks` does not depend on the order of the finished tasks
    (distinct node keys; the fan-in merge does not depend on the order of its arguments) -/
theorem pregel_calcNext_perm {V} (ops : ValOps V) (hm : MergePerm ops) (base : Runner V) (hdag : base.dag = false)
    (cm : Chans V) (D D' : List (Done V)) (hp : D.Perm D') (hnd : (D.map (·.1)).Nodup)
    (cm' : Chans V) (nx : Next V) (h : calcNext ops base cm D = .ok (cm', nx)) :
    calcNext ops base cm D' = .ok (cm', nx) := by
  cases ho : opsAll base D with
  | error e => rw [calcNext_pregel_err ops base hdag cm _ e ho] at h; cases h
  | ok os =>
    obtain ⟨hall, hos⟩ := opsAll_ok base D os ho
    have ho' : opsAll base D' = .ok (D'.flatMap (opsD base)) :=
      opsAll_of_ok base D' (fun t ht => hall t (hp.mem_iff.2 ht))
    rw [calcNext_pregel_ok ops base hdag cm D os ho] at h
    rw [calcNext_pregel_ok ops base hdag cm D' _ ho', ← h, hos]
    congr 1
    unfold valsMap
    apply getReady_pregel_congr ops hm
    intro p _
    apply asets_perm
    · exact (((hp.flatMap_right (opsD base)).filter _).map _).filter _ |>.symm
    · intro a ha b hb he
      exact eq_of_nodup_keys D' ((hp.map (·.1)).nodup_iff.1 hnd) a
        (opsFor_flatMap_mem base p.1 D' a (List.mem_filter.1 ha).1) b
        (opsFor_flatMap_mem base p.1 D' b (List.mem_filter.1 hb).1) he

end EinoV.Interrupt
