/-
  C09 — lemmas about failing runs (Model/C09Err.lean): the invariant of the error-object
  machine when every failing run allocates its error (`fresh = true`), and the closed form of
  the specification `descend`.
-/
import EinoV.Model.C09Err

namespace EinoV.C09.Err

/-! ### the specification in closed form -/

/-- the nesting keys seen from a suffix of the level list -/
def nestingFrom (ls : List Level) (k : Nat) : List String := ((ls.drop 1).take k).map (·.key)

theorem nesting_eq (ls : List Level) (k : Nat) : nesting ls k = nestingFrom ls k := rfl

theorem descend_last (site : Site) (d : Dir) (lv : Level) (l : Nat) (v : String) :
    descend site d [lv] l v =
      if d = .fail l then .err ⟨"NodeRunError", "boom", ["f" ++ toString l]⟩
      else match siteOutcome site d (passes "p" l lv.pre v ++ ".f" ++ toString l) with
        | .ok v3 => .ok (passes "q" l lv.post v3)
        | .err e => .err e := by
  rw [descend]; rfl

theorem descend_step (site : Site) (d : Dir) (lv nx : Level) (rest : List Level) (l : Nat) (v : String) :
    descend site d (lv :: nx :: rest) l v =
      if d = .fail l then .err ⟨"NodeRunError", "boom", ["f" ++ toString l]⟩
      else match wrapNode nx.key (descend site d (nx :: rest) (l + 1)
              (passes "p" l lv.pre v ++ ".f" ++ toString l)) with
        | .ok v3 => .ok (passes "q" l lv.post v3)
        | .err e => .err e := by
  rw [descend]; rfl

theorem fail_ne_of_lt (l k : Nat) : (Dir.fail (l + (k + 1)) = Dir.fail l) = False := by
  simp only [Dir.fail.injEq, eq_iff_iff, iff_false]; omega

/-- a node failure at level `l + k`, seen from level `l` -/
theorem descend_fail (site : Site) : ∀ (ls : List Level) (l k : Nat) (v : String), k < ls.length →
    descend site (.fail (l + k)) ls l v
      = .err ⟨"NodeRunError", "boom", nestingFrom ls k ++ ["f" ++ toString (l + k)]⟩ := by
  intro ls
  induction ls with
  | nil => intro l k v h; simp at h
  | cons lv rest ih =>
    intro l k v h
    cases k with
    | zero =>
      cases rest with
      | nil => simp [descend_last, nestingFrom]
      | cons nx rest' => simp [descend_step, nestingFrom]
    | succ k =>
      have hk : k < rest.length := by simpa using h
      cases rest with
      | nil => simp at hk
      | cons nx rest' =>
        have e : l + (k + 1) = (l + 1) + k := by omega
        rw [descend_step]
        simp only [fail_ne_of_lt, if_false]
        rw [e, ih (l + 1) k _ hk]
        simp [wrapNode, nestingFrom]

def siteCause : Site → String
  | .loop => "maxsteps"
  | .branch => "branch"
  | .merge => "merge"
  | .none => ""

theorem siteOutcome_site (s : Site) (hs : s ≠ .none) (v : String) :
    siteOutcome s .site v = .err ⟨"GraphRunError", siteCause s, []⟩ := by
  cases s <;> simp_all [siteOutcome, siteCause]

/-- a failure at the site, seen from level `l` -/
theorem descend_site (site : Site) (hs : site ≠ .none) : ∀ (ls : List Level) (l : Nat) (v : String),
    ls ≠ [] →
    descend site .site ls l v
      = .err ⟨"GraphRunError", siteCause site, nestingFrom ls (ls.length - 1)⟩ := by
  intro ls
  induction ls with
  | nil => intro l v h; exact absurd rfl h
  | cons lv rest ih =>
    intro l v _
    cases rest with
    | nil =>
      simp [descend_last, siteOutcome_site site hs, nestingFrom]
    | cons nx rest' =>
      have hne : (Dir.site = Dir.fail l) = False := by simp
      rw [descend_step]
      simp only [hne, if_false]
      rw [ih (l + 1) _ (by simp)]
      simp [wrapNode, nestingFrom]

/-- a run told to succeed succeeds -/
theorem descend_ok (site : Site) : ∀ (ls : List Level) (l : Nat) (v : String),
    ∃ w, descend site .ok ls l v = .ok w := by
  intro ls
  induction ls with
  | nil => intro l v; exact ⟨v, rfl⟩
  | cons lv rest ih =>
    intro l v
    have hne : (Dir.ok = Dir.fail l) = False := by simp
    cases rest with
    | nil =>
      rw [descend_last]
      simp only [hne, if_false]
      cases site <;> simp [siteOutcome]
    | cons nx rest' =>
      rw [descend_step]
      simp only [hne, if_false]
      obtain ⟨w, hw⟩ := ih (l + 1) (passes "p" l lv.pre v ++ ".f" ++ toString l)
      rw [hw]
      simp [wrapNode]

/-! ### the error-object machine with per-run allocation -/

/-- invariant of `step true`: objects that existed before the runs are untouched; a run that
    has obtained its error owns a cell allocated after them, which holds the part of ITS path
    built so far; no two runs hold the same cell -/
structure Good (h0 : List Cell) (progs : List (Option Prog)) (st : St) : Prop where
  len : h0.length ≤ st.heap.length
  pre : ∀ a, a < h0.length → st.heap[a]? = h0[a]?
  idle : ∀ i, (st.rs i).pc = 0 → (st.rs i).ref = none
  own : ∀ i, (st.rs i).pc ≠ 0 → ∃ p a, progs[i]? = some (some p) ∧ (st.rs i).ref = some a ∧
    h0.length ≤ a ∧ (st.rs i).pc ≤ p.ups.length + 1 ∧
    st.heap[a]? = some (want p ((st.rs i).pc - 1))
  dist : ∀ i j a, (st.rs i).ref = some a → (st.rs j).ref = some a → i = j

theorem good_init (h0 : List Cell) (progs : List (Option Prog)) : Good h0 progs (St.init h0) where
  len := Nat.le_refl _
  pre := fun _ _ => rfl
  idle := fun _ _ => rfl
  own := fun i h => absurd rfl h
  dist := fun i j a h _ => by simp [St.init] at h

theorem lt_of_getElem?_some {α} {l : List α} {a : Nat} {x : α} (h : l[a]? = some x) : a < l.length := by
  by_cases hlt : a < l.length
  · exact hlt
  · rw [List.getElem?_eq_none (by omega)] at h; cases h

theorem want_zero (p : Prog) : want p 0 = ⟨p.tag, p.cause, p.init⟩ := by
  simp [want]

theorem want_succ (p : Prog) (k : Nat) (hk : k < p.ups.length) :
    ({ want p k with path := p.ups.getD (p.ups.length - (k + 1)) "" :: (want p k).path } : Cell)
      = want p (k + 1) := by
  have hm : p.ups.length - (k + 1) < p.ups.length := by omega
  have e : p.ups.length - k = (p.ups.length - (k + 1)) + 1 := by omega
  simp only [want, Cell.mk.injEq, true_and]
  rw [e, List.getD_eq_getElem?_getD, List.getElem?_eq_getElem hm, Option.getD_some,
    ← List.cons_append, List.getElem_cons_drop]

theorem good_step {h0 : List Cell} {progs : List (Option Prog)} {st : St} (g : Good h0 progs st)
    (i : Nat) : Good h0 progs (step true progs st i) := by
  unfold step
  cases hp : progs[i]? with
  | none => exact g
  | some op =>
    cases op with
    | none => exact g
    | some p =>
      dsimp only
      by_cases h0pc : (st.rs i).pc = 0
      · -- the run obtains its error object: a fresh cell
        simp only [h0pc, if_true, Bool.not_true, Bool.false_and, Bool.false_eq_true, if_false]
        refine ⟨?_, ?_, ?_, ?_, ?_⟩
        · simp only [List.length_append, List.length_cons, List.length_nil]; have := g.len; omega
        · intro a ha
          rw [List.getElem?_append_left (by have := g.len; omega)]
          exact g.pre a ha
        · intro j hj
          by_cases e : j = i
          · subst e; simp [upd] at hj
          · simp only [upd, e, if_false] at hj ⊢; exact g.idle j hj
        · intro j hj
          by_cases e : j = i
          · subst e
            refine ⟨p, st.heap.length, hp, by simp [upd], g.len, by simp [upd], ?_⟩
            simp [upd, want_zero]
          · simp only [upd, e, if_false] at hj ⊢
            obtain ⟨q, a, h1, h2, h3, h4, h5⟩ := g.own j hj
            refine ⟨q, a, h1, h2, h3, h4, ?_⟩
            rw [List.getElem?_append_left (lt_of_getElem?_some h5)]
            exact h5
        · intro j k a hj hk
          have fresh_ne : ∀ m, m ≠ i → (st.rs m).ref ≠ some st.heap.length := by
            intro m _ hm
            have hpc : (st.rs m).pc ≠ 0 := fun h => by rw [g.idle m h] at hm; cases hm
            obtain ⟨q, a', _, h2, _, _, h5⟩ := g.own m hpc
            rw [h2] at hm
            have := lt_of_getElem?_some h5
            cases hm; omega
          by_cases ej : j = i
          · by_cases ek : k = i
            · rw [ej, ek]
            · subst ej
              simp only [upd, if_true, ek, if_false] at hj hk
              cases hj
              exact absurd hk (fresh_ne k ek)
          · by_cases ek : k = i
            · subst ek
              simp only [upd, if_true, ej, if_false] at hj hk
              cases hk
              exact absurd hj (fresh_ne j ej)
            · simp only [upd, ej, ek, if_false] at hj hk
              exact g.dist j k a hj hk
      · simp only [h0pc, if_false]
        obtain ⟨q, a, h1, h2, h3, h4, h5⟩ := g.own i h0pc
        rw [hp] at h1
        cases h1
        by_cases hle : (st.rs i).pc ≤ p.ups.length
        · -- an enclosing graph prepends its node key to the run's own object
          simp only [hle, if_true, h2, h5]
          have ha := lt_of_getElem?_some h5
          have hk : (st.rs i).pc - 1 < p.ups.length := by omega
          have hcell := want_succ p ((st.rs i).pc - 1) hk
          have e1 : (st.rs i).pc - 1 + 1 = (st.rs i).pc := by omega
          rw [e1] at hcell
          rw [hcell]
          refine ⟨?_, ?_, ?_, ?_, ?_⟩
          · rw [List.length_set]; exact g.len
          · intro b hb
            rw [List.getElem?_set_ne (by omega)]
            exact g.pre b hb
          · intro j hj
            by_cases e : j = i
            · subst e; simp [upd] at hj
            · simp only [upd, e, if_false] at hj ⊢; exact g.idle j hj
          · intro j hj
            by_cases e : j = i
            · subst e
              refine ⟨p, a, hp, by simp [upd], h3, by simp [upd]; omega, ?_⟩
              simp only [upd, if_true]
              rw [List.getElem?_set_self ha]
              simp
            · simp only [upd, e, if_false] at hj ⊢
              obtain ⟨q, b, k1, k2, k3, k4, k5⟩ := g.own j hj
              refine ⟨q, b, k1, k2, k3, k4, ?_⟩
              have hne : a ≠ b := by
                intro hab
                subst hab
                exact e (g.dist j i a k2 h2)
              rw [List.getElem?_set_ne hne]
              exact k5
          · intro j k b hj hk
            have same : ∀ m, (upd st.rs i ⟨(st.rs i).pc + 1, some a⟩ m).ref = (st.rs m).ref := by
              intro m
              by_cases e : m = i
              · subst e; simp [upd, h2]
              · simp [upd, e]
            rw [same] at hj hk
            exact g.dist j k b hj hk
        · simp only [hle, if_false]
          exact g

theorem good_exec {h0 : List Cell} {progs : List (Option Prog)} (sched : List Nat) :
    ∀ st, Good h0 progs st → Good h0 progs (exec true progs sched st) := by
  induction sched with
  | nil => intro st g; exact g
  | cons i rest ih => intro st g; exact ih _ (good_step g i)

/-- the program counter of a failing run under a schedule: it advances with every step the
    schedule gives the run, up to the end of its program -/
theorem pc_step_self {progs : List (Option Prog)} {st : St} {h0 : List Cell} (g : Good h0 progs st)
    (i : Nat) (p : Prog) (hp : progs[i]? = some (some p)) :
    ((step true progs st i).rs i).pc = min ((st.rs i).pc + 1) (p.ups.length + 1) := by
  unfold step
  simp only [hp]
  by_cases h0pc : (st.rs i).pc = 0
  · simp [h0pc, upd]
  · simp only [h0pc, if_false]
    obtain ⟨q, a, h1, h2, _, h4, h5⟩ := g.own i h0pc
    rw [hp] at h1
    cases h1
    by_cases hle : (st.rs i).pc ≤ p.ups.length
    · simp only [hle, if_true, h2, h5]
      simp only [upd, if_true]
      omega
    · simp only [hle, if_false]
      omega

theorem pc_step_other {progs : List (Option Prog)} {st : St} (i j : Nat) (h : j ≠ i) :
    ((step true progs st i).rs j) = st.rs j := by
  unfold step
  split
  · dsimp only
    split
    · simp [upd, h]
    · split
      · split
        · split
          · simp [upd, h]
          · rfl
        · rfl
      · rfl
  · rfl

theorem pc_exec {h0 : List Cell} {progs : List (Option Prog)} (i : Nat) (p : Prog)
    (hp : progs[i]? = some (some p)) (sched : List Nat) :
    ∀ st, Good h0 progs st →
      ((exec true progs sched st).rs i).pc = min ((st.rs i).pc + sched.count i) (p.ups.length + 1)
        ∨ p.ups.length + 1 < (st.rs i).pc := by
  induction sched with
  | nil =>
    intro st g
    by_cases h : (st.rs i).pc = 0
    · left; simp [exec, h]
    · obtain ⟨q, a, h1, _, _, h4, _⟩ := g.own i h
      rw [hp] at h1; cases h1
      left; simp only [exec, List.count_nil, Nat.add_zero]; omega
  | cons j rest ih =>
    intro st g
    have g' := good_step g j
    by_cases e : j = i
    · subst e
      rcases ih _ g' with h | h
      · left
        rw [exec, h, pc_step_self g j p hp]
        simp only [List.count_cons_self]
        omega
      · rw [pc_step_self g j p hp] at h
        omega
    · rcases ih _ g' with h | h
      · left
        rw [exec, h, pc_step_other j i (Ne.symm e)]
        simp [e]
      · rw [pc_step_other j i (Ne.symm e)] at h
        right; exact h

end EinoV.C09.Err
