import EinoV.Proofs.C02CompileWF
import EinoV.Proofs.C02Eager
import EinoV.Spec.WorkflowDefWF

namespace EinoV.Engine
namespace DagRun


/-! ### every well-formed acyclic workflow definition compiles to a well-formed runner -/

theorem depsPreds_inv (deps : List WDep) (sel : WDep → Bool) (m : List (Key × List Key)) (t p : Key)
    (h : p ∈ lookupList t (deps.foldl (fun m d => if sel d then addPred m d.to d.from_ else m) m)) :
    p ∈ lookupList t m ∨ ∃ d, d ∈ deps ∧ sel d = true ∧ d.from_ = p ∧ d.to = t := by
  induction deps generalizing m with
  | nil => exact Or.inl h
  | cons d rest ih =>
    simp only [List.foldl_cons] at h
    rcases ih _ h with h1 | ⟨d', hd', hs, hf, ht⟩
    · by_cases hsel : sel d = true
      · simp only [hsel, ↓reduceIte] at h1
        rcases lookupList_addPred_inv m d.to d.from_ t p h1 with h2 | ⟨rfl, rfl⟩
        · exact Or.inl h2
        · exact Or.inr ⟨d, by simp, hsel, rfl, rfl⟩
      · simp only [hsel, Bool.false_eq_true, ↓reduceIte] at h1
        exact Or.inl h1
    · exact Or.inr ⟨d', List.mem_cons_of_mem _ hd', hs, hf, ht⟩

theorem compileW_ctrlPreds_inv {V} (ops : ValOps V) (w : WorkflowDef V) (t p : Key)
    (h : p ∈ lookupList t (compileW ops w).ctrlPreds) :
    (∃ d, d ∈ w.deps ∧ d.control = true ∧ d.from_ = p ∧ d.to = t) ∨
    ∃ b, b ∈ w.branches ∧ b.1 = p ∧ t ∈ b.2.ends := by
  simp only [compileW, WorkflowDef.ctrlPreds] at h
  have h' : p ∈ lookupList t (w.branches.foldl (fun m b => if (fun _ : Branch V => true) b.2 then
      b.2.ends.foldl (fun m e => addPred m e b.1) m else m)
      (w.deps.foldl (fun m d => if d.control then addPred m d.to d.from_ else m) [])) := by
    simpa using h
  rcases brPreds_inv (fun _ => true) w.branches _ t p h' with h1 | ⟨b, hb, _, hk, ht⟩
  · rcases depsPreds_inv w.deps (·.control) [] t p h1 with h2 | h2
    · simp [lookupList, alookup] at h2
    · exact Or.inl h2
  · exact Or.inr ⟨b, hb, hk, ht⟩

theorem compileW_dataPreds_inv {V} (ops : ValOps V) (w : WorkflowDef V) (t p : Key)
    (h : p ∈ lookupList t (compileW ops w).dataPreds) :
    ∃ d, d ∈ w.deps ∧ d.data = true ∧ d.from_ = p ∧ d.to = t := by
  simp only [compileW, WorkflowDef.dataPreds] at h
  rcases depsPreds_inv w.deps (·.data) [] t p h with h2 | h2
  · simp [lookupList, alookup] at h2
  · exact h2

theorem compileW_keys {V} (ops : ValOps V) (w : WorkflowDef V) :
    akeys (initChans (compileW ops w)) = w.nodes.map (·.1) ++ [END] := by
  simp [initChans, akeys, compileW, WorkflowDef.mkNode, List.map_map, Function.comp]

theorem runner_shape {V} (r : Runner V) (hdag : r.dag = true) (n : Key) (cs ds : List Key)
    (h : (n, cs, ds) ∈ shapes (initChans r)) :
    (∀ p, p ∈ cs ↔ p ∈ lookupList n r.ctrlPreds) ∧ (∀ p, p ∈ ds ↔ p ∈ lookupList n r.dataPreds) := by
  simp only [shapes, List.mem_map] at h
  obtain ⟨⟨n', c⟩, hc, he⟩ := h
  simp only [Prod.mk.injEq] at he
  obtain ⟨rfl, he⟩ := he
  have hinit : c = Chan.init true (lookupList n' r.ctrlPreds) (lookupList n' r.dataPreds) := by
    simp only [initChans, List.mem_append, List.mem_map, List.mem_singleton, Prod.mk.injEq] at hc
    rcases hc with ⟨nd, _, rfl, rfl⟩ | ⟨rfl, rfl⟩
    · rw [hdag]
    · rw [hdag]
  have e1 : cs = akeys c.ctrl := by have := congrArg Prod.fst he; simpa [shapeOf] using this.symm
  have e2 : ds = akeys c.data := by have := congrArg Prod.snd he; simpa [shapeOf] using this.symm
  rw [e1, e2, hinit]
  simp only [Chan.init, ↓reduceIte, akeys, List.map_map]
  constructor <;> intro p <;> simp [Function.comp]

theorem compileW_call {V} (ops : ValOps V) (w : WorkflowDef V) (p : Key) (nd : Node V)
    (h : (compileW ops w).call? p = some nd) :
    nd.writeTo = w.dataOut p ∧ nd.controls = w.ctrlOut p ∧ nd.branches = w.branchesOf p := by
  obtain ⟨hm, hk⟩ := call?_some (compileW ops w) rfl p nd h
  rcases hm with hm | rfl
  · simp only [compileW, List.mem_map] at hm
    obtain ⟨q, _, rfl⟩ := hm
    simp only [WorkflowDef.mkNode] at hk
    subst hk
    exact ⟨rfl, rfl, rfl⟩
  · simp only [compileW, WorkflowDef.mkNode] at hk
    subst hk
    exact ⟨rfl, rfl, rfl⟩

/-- **every well-formed acyclic workflow definition compiles to a runner that satisfies all the
    hypotheses of the run-level theorems** -/
theorem compileW_wf {V} (ops : ValOps V) (w : WorkflowDef V) (wfw : WorkflowDefWF w) :
    DagWF (compileW ops w) ∧ DagWF2 (compileW ops w) ∧ DagWF3 (compileW ops w) := by
  obtain ⟨rank, hrd, hrb⟩ := wfw.acyclic
  have hse : START ≠ END := by decide
  have hkeys := compileW_keys ops w
  have hdag : (compileW ops w).dag = true := rfl
  have rankC : ∀ n p, p ∈ lookupList n (compileW ops w).ctrlPreds → rank p < rank n := by
    intro n p hp
    rcases compileW_ctrlPreds_inv ops w n p hp with ⟨d, hd, _, hf, ht⟩ | ⟨b, hb, hk, ht⟩
    · rw [← hf, ← ht]; exact hrd d hd
    · rw [← hk]; exact hrb b hb n ht
  have rankD : ∀ n p, p ∈ lookupList n (compileW ops w).dataPreds → rank p < rank n := by
    intro n p hp
    obtain ⟨d, hd, _, hf, ht⟩ := compileW_dataPreds_inv ops w n p hp
    rw [← hf, ← ht]; exact hrd d hd
  have rankS : ∀ n cs ds, (n, cs, ds) ∈ shapes (initChans (compileW ops w)) → ∀ p, p ∈ cs ∨ p ∈ ds → rank p < rank n := by
    intro n cs ds hm p hp
    obtain ⟨a, b⟩ := runner_shape _ hdag n cs ds hm
    rcases hp with hp | hp
    · exact rankC n p ((a p).mp hp)
    · exact rankD n p ((b p).mp hp)
  have targetKey : ∀ n p, p ∈ lookupList n (compileW ops w).ctrlPreds → n ∈ akeys (initChans (compileW ops w)) := by
    intro n p hp
    rw [hkeys]
    rcases compileW_ctrlPreds_inv ops w n p hp with ⟨d, hd, hc, _, ht⟩ | ⟨b, hb, _, ht⟩
    · rcases wfw.depTo d hd hc with h1 | h1
      · rw [← ht, h1]; simp
      · rw [← ht]; exact List.mem_append_left _ h1
    · rcases wfw.brTo b hb n ht with h1 | h1
      · simp [h1]
      · exact List.mem_append_left _ h1
  refine ⟨⟨rfl, ?_, rfl, ?_, compileW_succOK ops w, ⟨rank, rankS⟩⟩, ⟨?_, ?_, ?_⟩, ⟨?_, ?_, ⟨rank, rankS, ?_⟩⟩⟩
  · rw [hkeys]
    exact List.nodup_append.mpr ⟨wfw.keys, by simp, by
      intro a ha b hb
      simp at hb; subst hb
      exact fun e => wfw.noEnd (e ▸ ha)⟩
  · rw [hkeys]
    simp only [List.mem_append, List.mem_singleton, not_or]
    exact ⟨wfw.noStart, hse⟩
  · -- PredSuccC
    intro m cs ds hm p hp nd hn
    obtain ⟨a, _⟩ := runner_shape _ hdag m cs ds hm
    obtain ⟨_, hc, hb⟩ := compileW_call ops w p nd hn
    rcases compileW_ctrlPreds_inv ops w m p ((a p).mp hp) with ⟨d, hd, hctl, hf, ht⟩ | ⟨b, hbm, hk, ht⟩
    · left
      rw [hc]
      exact List.mem_map.mpr ⟨d, List.mem_filter.mpr ⟨hd, by simp [hf, hctl]⟩, ht⟩
    · right
      rw [hb]
      simp only [WorkflowDef.branchesOf, List.mem_flatMap, List.mem_map, List.mem_filter]
      exact ⟨{ b.2 with noData := true }, ⟨b, ⟨hbm, by simp [hk]⟩, rfl⟩, ht⟩
  · -- PredSuccD
    intro m cs ds hm p hp nd hn
    obtain ⟨_, bq⟩ := runner_shape _ hdag m cs ds hm
    obtain ⟨hw, _, _⟩ := compileW_call ops w p nd hn
    obtain ⟨d, hd, hdat, hf, ht⟩ := compileW_dataPreds_inv ops w m p ((bq p).mp hp)
    left
    rw [hw]
    exact List.mem_map.mpr ⟨d, List.mem_filter.mpr ⟨hd, by simp [hf, hdat]⟩, ht⟩
  · -- p4
    intro n hne
    cases hl : lookupList n (compileW ops w).ctrlPreds with
    | nil => exact absurd hl hne
    | cons p t => exact targetKey n p (by rw [hl]; simp)
  · -- hasCtrl
    intro n cs ds hm hcs
    obtain ⟨a, b⟩ := runner_shape _ hdag n cs ds hm
    cases hds : ds with
    | nil => rfl
    | cons p t =>
      exfalso
      have hp : p ∈ lookupList n (compileW ops w).dataPreds := (b p).mp (by rw [hds]; simp)
      obtain ⟨d, hd, hdat, _, ht⟩ := compileW_dataPreds_inv ops w n p hp
      have : ∃ q, q ∈ lookupList n (compileW ops w).ctrlPreds := by
        rcases wfw.hasCtrl d hd hdat with ⟨d', hd', hc', ht'⟩ | ⟨br, hbr, hin⟩
        · refine ⟨d'.from_, ?_⟩
          simp only [compileW, WorkflowDef.ctrlPreds]
          rw [← ht, ← ht']
          exact ctrlPreds_mono w.branches _ d'.to d'.from_ (depsPreds_mem w.deps (·.control) [] d' hd' hc')
        · refine ⟨br.1, ?_⟩
          simp only [compileW, WorkflowDef.ctrlPreds]
          rw [← ht]
          exact ctrlPreds_mem w.branches _ br.1 br.2 hbr d.to hin
      obtain ⟨q, hq⟩ := this
      have := (a q).mpr hq
      rw [hcs] at this; simp at this
  · -- startNoPreds
    cases hl : lookupList START (compileW ops w).ctrlPreds with
    | nil => rfl
    | cons p t =>
      exfalso
      have := targetKey START p (by rw [hl]; simp)
      rw [hkeys] at this
      simp only [List.mem_append, List.mem_singleton] at this
      rcases this with h | h
      · exact wfw.noStart h
      · exact hse h
  · intro n p hp
    rcases hp with hp | hp
    · exact rankC n p hp
    · exact rankD n p hp

/-- the executable check of `WorkflowDefWF` (evaluated by the C02 oracle on every generated
    Workflow case) implies it -/
theorem workflowDefWFb_sound {V} (ops : ValOps V) (w : WorkflowDef V) (h : workflowDefWFb ops w = true) :
    WorkflowDefWF w := by
  simp only [workflowDefWFb, Bool.and_eq_true, Bool.not_eq_true', List.all_eq_true, Bool.or_eq_true,
    beq_iff_eq, List.contains_eq_mem, decide_eq_true_eq, decide_eq_false_iff_not, List.any_eq_true,
    Bool.not_eq_eq_eq_not, Bool.not_true] at h
  obtain ⟨⟨⟨⟨⟨⟨⟨h2, h3⟩, h4⟩, h5⟩, h6⟩, h9⟩, h7⟩, h8⟩ := h
  refine ⟨nodupb_sound _ h2, h3, h4, ?_, h6, ?_, ⟨_, h7, h8⟩⟩
  · intro d hd hc
    rcases h5 d hd with (h | h) | h
    · rw [hc] at h; exact absurd h (by decide)
    · exact Or.inl h
    · exact Or.inr h
  · intro d hd hdat
    rcases h9 d hd with (h | ⟨d', hd', hc, ht⟩) | ⟨b, hb, hin⟩
    · rw [hdat] at h; exact absurd h (by decide)
    · exact Or.inl ⟨d', hd', hc, ht⟩
    · exact Or.inr ⟨b, hb, hin⟩

end DagRun
end EinoV.Engine
