/-
  C15 — lemmas about promoted selectors (Model/C15Embed.lean): without embedded fields the
  elaboration is the identity; on a source path that is explicit and never crosses an interface
  the value-directed elaboration is the identity; the run with value-directed extraction never
  panics and delivers only assignable entries.
-/
import EinoV.Model.C15Embed
import EinoV.Proofs.C15

set_option linter.unusedSimpArgs false
set_option linter.unusedVariables false

namespace EinoV.C15

/-! ### no embedded fields: nothing is promoted -/

theorem promotedF_nil (s : Seg) (sn : String) : ∀ (fs : FFields), promotedF [] s sn fs = none
  | .nil => by simp [promotedF]
  | .cons n t r => by simp [promotedF, promotedF_nil s sn r]

theorem selT_nil_struct (s : Seg) (sn : String) (fs : FFields) :
    selT [] s (.struct sn fs) = if (fieldTy fs s).isSome then some [s] else none := by
  simp [selT, selEmb, promotedF_nil]

theorem selT_nil_ptr (s : Seg) (sn : String) (fs : FFields) :
    selT [] s (.ptr (.struct sn fs)) = if (fieldTy fs s).isSome then some [s] else none := by
  simp [selT, selEmb, selPtr, promotedF_nil]

/-- a declared field is its own selector, whatever is embedded -/
theorem selT_direct (e : Emb) (s : Seg) (t : FTy) (fs : FFields) (ft : FTy)
    (hs : structOf t = some fs) (hf : fieldTy fs s = some ft) : selT e s t = some [s] := by
  cases t with
  | struct n fs' => simp only [structOf, Option.some.injEq] at hs; subst hs; simp [selT, selEmb, hf]
  | ptr t' =>
    cases t' with
    | struct n fs' => simp only [structOf, Option.some.injEq] at hs; subst hs; simp [selT, selEmb, selPtr, hf]
    | _ => simp [structOf] at hs
  | _ => simp [structOf] at hs

theorem slotTy_single (t : FTy) (fs : FFields) (s : Seg) (ft : FTy)
    (hs : structOf t = some fs) (hf : fieldTy fs s = some ft) : slotTy t [s] = some ft := by
  cases t with
  | struct n fs' => simp only [structOf, Option.some.injEq] at hs; subst hs; simp [slotTy, structOf, hf]
  | ptr t' =>
    cases t' with
    | struct n fs' => simp only [structOf, Option.some.injEq] at hs; subst hs; simp [slotTy, structOf, hf]
    | _ => simp [structOf] at hs
  | _ => simp [structOf] at hs

theorem selT_nil_none (s : Seg) (t : FTy) (h : ∀ fs ft, structOf t = some fs → fieldTy fs s = some ft → False) :
    selT [] s t = none := by
  cases t with
  | struct n fs =>
    rw [selT_nil_struct]
    cases hf : fieldTy fs s with
    | none => simp
    | some ft => exact absurd (h fs ft rfl hf) id
  | ptr t' =>
    cases t' with
    | struct n fs =>
      rw [selT_nil_ptr]
      cases hf : fieldTy fs s with
      | none => simp
      | some ft => exact absurd (h fs ft rfl hf) id
    | _ => simp [selT, selEmb, selPtr]
  | _ => simp [selT, selEmb]

theorem elabTy_nil : ∀ (p : Path) (t : FTy), elabTy [] t p = p := by
  intro p
  induction p with
  | nil => intro t; simp [elabTy]
  | cons s r ih =>
    intro t
    by_cases hm : ∃ el, t = .map el
    · obtain ⟨el, rfl⟩ := hm
      simp [elabTy, ih]
    · have hne : ∀ el, t ≠ .map el := fun el h => hm ⟨el, h⟩
      have hun : elabTy [] t (s :: r) =
          match selT [] s t with
          | some p => (match slotTy t p with
            | some ft => p ++ elabTy [] ft r
            | none => s :: r)
          | none => s :: r := by
        cases t <;> first | rfl | exact absurd rfl (hne _)
      rw [hun]
      cases hst : structOf t with
      | none =>
        rw [selT_nil_none s t (fun fs ft h _ => by simp [hst] at h)]
      | some fs =>
        cases hf : fieldTy fs s with
        | none =>
          rw [selT_nil_none s t (fun fs' ft h h' => by
            rw [hst] at h; cases h; simp [hf] at h')]
        | some ft =>
          rw [selT_direct [] s t fs ft hst hf]
          simp only [slotTy_single t fs s ft hst hf, ih ft, List.singleton_append]

/-! ### value-directed elaboration is the identity on explicit, interface-free source paths -/

theorem unstore_ne_any {t : FTy} (h : isIface t = false) (v : FVal) : unstore t v = some (t, v) :=
  unstore_not_iface h v

theorem takeFrom_single (f : TakeFacts) (a : Taken) (via : Bool) (s : Seg) :
    takeFrom f a via [s] =
      match takeStep f a via s with
      | .error e => .error e
      | .ok (st, x) => .ok (unstore st x) := by
  simp only [takeFrom]
  cases takeStep f a via s with
  | error e => rfl
  | ok sv => obtain ⟨st, x⟩ := sv; rfl

/-- unfolding of `elabVal` on a value that is not a map -/
theorem elabVal_cons_nonmap (e : Emb) (f : TakeFacts) (ty : FTy) (v : FVal) (s : Seg) (r : Path)
    (hne : ∀ el, ty ≠ .map el) :
    elabVal e f (some (ty, v)) (s :: r) =
      match selT e s ty with
      | some p =>
        (match takeFrom f (some (ty, v)) false p with
        | .ok b => p ++ elabVal e f b r
        | .error _ => p ++ r)
      | none => s :: r := by
  cases ty <;> first | rfl | exact absurd rfl (hne _)

theorem extractTy_struct_some (t : FTy) (fs : FFields) (s : Seg) (r : Path) (ft : FTy)
    (hst : structOf t = some fs) (hf : fieldTy fs s = some ft) :
    extractTy true t (s :: r) = extractTy true ft r := by
  cases t with
  | struct n fs' => simp only [structOf, Option.some.injEq] at hst; subst hst; simp [extractTy, structOf, hf]
  | ptr t' =>
    cases t' with
    | struct n fs' => simp only [structOf, Option.some.injEq] at hst; subst hst; simp [extractTy, structOf, hf]
    | _ => simp [structOf] at hst
  | _ => simp [structOf] at hst

theorem extractTy_struct_none (t : FTy) (fs : FFields) (s : Seg) (r : Path)
    (hst : structOf t = some fs) (hf : fieldTy fs s = none) :
    extractTy true t (s :: r) = none := by
  cases t with
  | struct n fs' => simp only [structOf, Option.some.injEq] at hst; subst hst; simp [extractTy, structOf, hf]
  | ptr t' =>
    cases t' with
    | struct n fs' => simp only [structOf, Option.some.injEq] at hst; subst hst; simp [extractTy, structOf, hf]
    | _ => simp [structOf] at hst
  | _ => simp [structOf] at hst

theorem elabVal_fix (e : Emb) (f : TakeFacts) : ∀ (p : Path) (t pf : FTy) (v : FVal),
    extractTy true t p = some (pf, false) → pf ≠ .any → elabVal e f (unstore t v) p = p := by
  intro p
  induction p with
  | nil => intro t pf v _ _; simp [elabVal]
  | cons s r ih =>
    intro t pf v h hne
    have hstruct : ∀ (fs : FFields), structOf t = some fs → (∀ el, t ≠ .map el) → t ≠ .any →
        elabVal e f (unstore t v) (s :: r) = s :: r := by
      intro fs hst hnm hna'
      have hna : isIface t = false := by cases t <;> simp [structOf] at hst <;> rfl
      cases hf : fieldTy fs s with
      | none => rw [extractTy_struct_none t fs s r hst hf] at h; simp at h
      | some ft =>
        have h' : extractTy true ft r = some (pf, false) := by
          rw [extractTy_struct_some t fs s r ft hst hf] at h; exact h
        rw [unstore_ne_any hna, elabVal_cons_nonmap e f t v s r hnm, selT_direct e s t fs ft hst hf]
        simp only [takeFrom_single]
        cases hstep : takeStep f (some (t, v)) false s with
        | error err => simp
        | ok sv =>
          obtain ⟨st, x⟩ := sv
          simp only [List.singleton_append, List.cons.injEq, true_and]
          have hst' : st = ft := by
            rcases takeStep_ok f t v false s st x hstep with ⟨kvs, rfl, _, _⟩ | ⟨n, fs', kvs, rfl, _, hg⟩ | ⟨n, fs', kvs, rfl, _, hg⟩
            · exact absurd rfl (hnm _)
            · simp only [structOf, Option.some.injEq] at hst; subst hst
              have := fieldGet_ty fs' kvs s
              simp only [hg, Option.map_some, hf, Option.some.injEq] at this
              exact this
            · simp only [structOf, Option.some.injEq] at hst; subst hst
              have := fieldGet_ty fs' kvs s
              simp only [hg, Option.map_some, hf, Option.some.injEq] at this
              exact this
          subst hst'
          exact ih st pf x h' hne
    cases t with
    | any =>
      simp only [extractTy, structOf, isIface] at h
      by_cases hr : r.isEmpty = true
      · simp [hr] at h; exact absurd h.symm hne
      · simp [hr] at h
    | iface n is =>
      simp only [extractTy, structOf, isIface] at h
      by_cases hr : r.isEmpty = true <;> simp [hr] at h
    | map el =>
      simp only [extractTy] at h
      rw [unstore_ne_any rfl]
      cases v with
      | map kvs =>
        cases hl : kvs.lookup s with
        | none => simp [elabVal, hl]
        | some x => simp [elabVal, hl, ih el pf x h hne]
      | _ => simp [elabVal]
    | struct n fs => exact hstruct fs rfl (by simp) (by simp)
    | ptr t' =>
      cases t' with
      | struct n fs => exact hstruct fs rfl (by simp) (by simp)
      | _ =>
        simp only [extractTy, structOf, isIface] at h
        by_cases hr : r.isEmpty = true <;> simp [hr] at h
    | str =>
      simp only [extractTy, structOf, isIface] at h
      by_cases hr : r.isEmpty = true <;> simp [hr] at h
    | int =>
      simp only [extractTy, structOf, isIface] at h
      by_cases hr : r.isEmpty = true <;> simp [hr] at h
    | opq k n =>
      simp only [extractTy, structOf, isIface] at h
      by_cases hr : r.isEmpty = true <;> simp [hr] at h

theorem elabVal_nil (f : TakeFacts) : ∀ (p : Path) (a : Taken), elabVal [] f a p = p := by
  intro p
  induction p with
  | nil => intro a; simp [elabVal]
  | cons s r ih =>
    intro a
    cases a with
    | none => simp [elabVal]
    | some tv =>
      obtain ⟨ty, v⟩ := tv
      by_cases hm : ∃ el, ty = .map el
      · obtain ⟨el, rfl⟩ := hm
        cases v with
        | map kvs =>
          cases hl : kvs.lookup s with
          | none => simp [elabVal, hl]
          | some x => simp [elabVal, hl, ih]
        | _ => simp [elabVal]
      · have hnm : ∀ el, ty ≠ .map el := fun el h => hm ⟨el, h⟩
        rw [elabVal_cons_nonmap [] f ty v s r hnm]
        cases hst : structOf ty with
        | none => rw [selT_nil_none s ty (fun fs ft h _ => by simp [hst] at h)]
        | some fs =>
          cases hf : fieldTy fs s with
          | none =>
            rw [selT_nil_none s ty (fun fs' ft h h' => by rw [hst] at h; cases h; simp [hf] at h')]
          | some ft =>
            rw [selT_direct [] s ty fs ft hst hf]
            simp only [takeFrom_single]
            cases takeStep f (some (ty, v)) false s with
            | error err => simp
            | ok sv => obtain ⟨st, x⟩ := sv; simp [ih]

/-! ### the run with a separate extraction path -/

/-- `assign_of_validated` when the extraction walks a path `p'` that is the declared source path
    whenever the static check relied on the static type of the source slot -/
theorem assign_of_validated_R (f : TakeFacts) (pt st : FTy) (v : FVal) (m : Mapping) (p' : Path)
    (chk : Option (FTy × Bool)) (a : Taken)
    (hv : validateOne Expected.C15.validate pt st m = some chk)
    (hp' : ∀ pf, extractTy true pt m.src = some (pf, false) → pf ≠ .any → p' = m.src)
    (ht : take f pt v p' = .ok a) (hc : runtimeCheck chk a = true) (d : FVal) :
    (assign st d m.dst a).isSome := by
  simp only [validateOne, extractTyF_expected] at hv
  cases hp : extractTy true pt m.src with
  | none => simp [hp] at hv
  | some pfi =>
    obtain ⟨pf, pI⟩ := pfi
    cases hs : extractTy true st m.dst with
    | none => simp [hp, hs] at hv
    | some sfi =>
      obtain ⟨sf, sI⟩ := sfi
      simp only [hp, hs] at hv
      have hslot : slotTy st m.dst = some sf := by
        refine extractTy_slotTy _ _ _ _ hs (fun hsI => ?_)
        subst hsI
        by_cases hsf : sf = .any
        · exact hsf
        · simp [hsf] at hv
      rw [assign_isSome, hslot]
      simp only []
      have hchk : ∀ strict, runtimeCheck (some (sf, strict)) a = true → (store sf a).isSome := by
        intro strict hc'
        cases a with
        | none => simp only [runtimeCheck] at hc'; simp [store, hc']
        | some x => obtain ⟨ty, w⟩ := x; simp only [runtimeCheck] at hc'; simp [store, hc']
      by_cases hsI : sI = true
      · simp only [hsI, if_true] at hv
        by_cases hsf : sf = .any
        · subst hsf; exact store_any a
        · simp [hsf] at hv
      · simp only [hsI, if_false, Bool.false_eq_true] at hv
        by_cases hpI : pI = true
        · simp only [hpI, if_true, Option.some.injEq] at hv
          subst hv
          exact hchk _ hc
        · simp only [hpI, if_false, Bool.false_eq_true] at hv
          have hpI' : pI = false := by simpa using hpI
          subst hpI'
          simp only [checkAssignable] at hv
          by_cases h1 : sf = pf
          · subst h1
            by_cases h2 : sf = .any
            · subst h2; exact store_any a
            · have hpe := hp' sf hp h2
              subst hpe
              exact takeFrom_storable f m.src pt sf v false a hp ht
          · by_cases h2 : sf = .any
            · subst h2; exact store_any a
            · by_cases h4 : implements pf sf = true
              · have hpi : isIface pf = false := by
                  cases sf <;> simp [implements] at h4
                  exact h4.1
                have hpa : pf ≠ .any := by intro hh; subst hh; simp [isIface] at hpi
                have hpe := hp' pf hp hpa
                subst hpe
                obtain ⟨w, hw⟩ := takeFrom_tag f m.src pt pf v false a hp hpi ht
                subst hw
                simp [store, assignable, h4]
              · by_cases h3 : pf = .any
                · subst h3
                  simp only [h1, h2, h4, if_false, if_true, Option.some.injEq, Bool.false_eq_true] at hv
                  subst hv
                  exact hchk _ hc
                · by_cases h5 : isIface pf = true ∧ implements sf pf = true
                  · simp only [h1, h2, h3, h4, h5.1, h5.2, if_false, if_true, Option.some.injEq, Bool.false_eq_true] at hv
                    subst hv
                    exact hchk _ hc
                  · simp only [h1, h2, h3, h4, if_false, Bool.false_eq_true] at hv
                    by_cases h6 : isIface pf = true
                    · have h7 : implements sf pf = false := by
                        cases h8 : implements sf pf
                        · rfl
                        · exact absurd ⟨h6, h8⟩ h5
                      simp [h6, h7] at hv
                    · simp [h6] at hv

theorem fieldMapR_ok (f : TakeFacts) (allow : Bool) (pt : FTy) (v : FVal) (rp : Mapping → Path) :
    ∀ (ms : List Mapping) (l : List (Mapping × Taken)), fieldMapR f allow pt v rp ms = .ok l →
    ∀ x ∈ l, x.1 ∈ ms ∧ take f pt v (rp x.1) = .ok x.2 := by
  intro ms
  induction ms with
  | nil => intro l h; simp [fieldMapR] at h; subst h; simp
  | cons m rest ih =>
    intro l h x hx
    simp only [fieldMapR] at h
    cases ht : take f pt v (rp m) with
    | error e =>
      cases e with
      | keyMissing =>
        simp only [ht] at h
        cases allow with
        | true =>
          simp only [if_true] at h
          have := ih l h x hx
          exact ⟨List.mem_cons_of_mem _ this.1, this.2⟩
        | false => simp at h
      | bad => simp [ht] at h
      | panic => simp [ht] at h
    | ok a =>
      simp only [ht] at h
      cases hr : fieldMapR f allow pt v rp rest with
      | error e => simp [hr] at h
      | ok l' =>
        simp only [hr, Except.ok.injEq] at h
        subst h
        rcases List.mem_cons.mp hx with rfl | hx
        · exact ⟨by simp, ht⟩
        · have := ih l' hr x hx
          exact ⟨List.mem_cons_of_mem _ this.1, this.2⟩

theorem fieldMapR_no_panic (allow : Bool) (pt : FTy) (v : FVal) (rp : Mapping → Path) :
    ∀ (ms : List Mapping), fieldMapR Expected.C15.take allow pt v rp ms ≠ .error .panic := by
  intro ms
  induction ms with
  | nil => simp [fieldMapR]
  | cons m rest ih =>
    simp only [fieldMapR]
    have hnp := take_no_panic pt v (rp m)
    cases ht : take Expected.C15.take pt v (rp m) with
    | error e =>
      cases e with
      | keyMissing =>
        cases allow with
        | true => simpa using ih
        | false => simp
      | bad => simp
      | panic => exact absurd ht hnp
    | ok a =>
      simp only []
      cases hr : fieldMapR Expected.C15.take allow pt v rp rest with
      | error e => simp only [ne_eq, Except.error.injEq]; intro he; subst he; exact ih hr
      | ok l' => simp

/-- with the declared source path as extraction path, `fieldMapR` is `fieldMapE` -/
theorem fieldMapR_src (f : TakeFacts) (allow : Bool) (pt : FTy) (v : FVal) (rp : Mapping → Path)
    (hrp : ∀ m, rp m = m.src) : ∀ (ms : List Mapping),
    fieldMapR f allow pt v rp ms = fieldMapE f allow pt v ms := by
  intro ms
  induction ms with
  | nil => simp [fieldMapR, fieldMapE]
  | cons m rest ih =>
    simp only [fieldMapR, fieldMapE, hrp m, ih]
    cases take f pt v m.src with
    | error e => cases e <;> rfl
    | ok a => cases fieldMapE f allow pt v rest <;> rfl

theorem edgesMapR_src (f : TakeFacts) (vf : ValidateFacts) (allow : Bool) (st : FTy)
    (rp : Edge → Mapping → Path) (hrp : ∀ e m, rp e m = m.src) : ∀ (es : List Edge),
    edgesMapR f vf allow st rp es = edgesMap f vf allow st es := by
  intro es
  induction es with
  | nil => simp [edgesMapR, edgesMap]
  | cons e rest ih =>
    simp only [edgesMapR, edgesMap, fieldMapR_src f allow e.pt e.v (rp e) (hrp e) e.ms, ih]
    cases fieldMapE f allow e.pt e.v e.ms with
    | error err => rfl
    | ok l =>
      simp only []
      cases checkPanicE vf e.pt st e.ms l with
      | true => rfl
      | false =>
        cases checkE vf e.pt st e.ms l with
        | false => rfl
        | true => cases edgesMap f vf allow st rest <;> rfl

/-- the extraction path agrees with the declared source path wherever the static check relied on
    the static type of the source slot -/
def Agrees (rp : Edge → Mapping → Path) (es : List Edge) : Prop :=
  ∀ e ∈ es, ∀ m ∈ e.ms, ∀ pf, extractTy true e.pt m.src = some (pf, false) → pf ≠ .any → rp e m = m.src

theorem edgesMapR_ok (allow : Bool) (st : FTy) (rp : Edge → Mapping → Path) :
    ∀ (es : List Edge) (l : List (Path × Taken)),
    (∀ e ∈ es, ∀ m ∈ e.ms, (validateOne Expected.C15.validate e.pt st m).isSome) →
    Agrees rp es →
    edgesMapR Expected.C15.take Expected.C15.validate allow st rp es = .ok l →
    ∀ x ∈ l, ∀ d, (assign st d x.1 x.2).isSome := by
  intro es
  induction es with
  | nil => intro l _ _ h; simp [edgesMapR] at h; subst h; simp
  | cons e rest ih =>
    intro l hval hag h x hx d
    simp only [edgesMapR, checkPanicE_expected, Bool.false_eq_true, if_false] at h
    cases hf : fieldMapR Expected.C15.take allow e.pt e.v (rp e) e.ms with
    | error err => simp [hf] at h
    | ok le =>
      simp only [hf] at h
      by_cases hc : checkE Expected.C15.validate e.pt st e.ms le = true
      · simp only [hc, if_true] at h
        cases hr : edgesMapR Expected.C15.take Expected.C15.validate allow st rp rest with
        | error err => simp [hr] at h
        | ok l' =>
          simp only [hr, Except.ok.injEq] at h
          subst h
          rcases List.mem_append.mp hx with hx | hx
          · obtain ⟨y, hy, rfl⟩ := List.mem_map.mp hx
            obtain ⟨m, a⟩ := y
            have hm := fieldMapR_ok _ _ _ _ _ _ _ hf (m, a) hy
            have hvm := hval e (by simp) m hm.1
            cases hv : validateOne Expected.C15.validate e.pt st m with
            | none => simp [hv] at hvm
            | some chk =>
              have hrc : runtimeCheck chk a = true := by
                have := List.all_eq_true.mp hc (m, a) hy
                simp only [checkerOf, hv, Option.getD_some] at this
                cases chk with
                | none => simp [runtimeCheck]
                | some c => obtain ⟨ty, strict⟩ := c; simpa [Expected.C15.validate] using this
              exact assign_of_validated_R _ e.pt st e.v m (rp e m) chk a hv
                (hag e (by simp) m hm.1) hm.2 hrc d
          · exact ih l' (fun e' he' => hval e' (List.mem_cons_of_mem _ he'))
              (fun e' he' => hag e' (List.mem_cons_of_mem _ he')) hr x hx d
      · simp [hc] at h

theorem edgesMapR_no_panic (allow : Bool) (st : FTy) (rp : Edge → Mapping → Path) : ∀ (es : List Edge),
    edgesMapR Expected.C15.take Expected.C15.validate allow st rp es ≠ .error .panic := by
  intro es
  induction es with
  | nil => simp [edgesMapR]
  | cons e rest ih =>
    simp only [edgesMapR, checkPanicE_expected, Bool.false_eq_true, if_false]
    have hnp := fieldMapR_no_panic allow e.pt e.v (rp e) e.ms
    cases hf : fieldMapR Expected.C15.take allow e.pt e.v (rp e) e.ms with
    | error err => simp only [ne_eq, Except.error.injEq]; intro he; subst he; exact hnp hf
    | ok le =>
      simp only []
      by_cases hc : checkE Expected.C15.validate e.pt st e.ms le = true
      · simp only [hc, if_true]
        cases hr : edgesMapR Expected.C15.take Expected.C15.validate allow st rp rest with
        | error err => simp only [ne_eq, Except.error.injEq]; intro he; subst he; exact ih hr
        | ok l' => simp
      · simp [hc]

theorem runNodeR_no_panic (allow : Bool) (st : FTy) (rp : Edge → Mapping → Path) (es : List Edge)
    (hval : ∀ e ∈ es, ∀ m ∈ e.ms, (validateOne Expected.C15.validate e.pt st m).isSome)
    (hag : Agrees rp es) :
    runNodeR Expected.C15.take Expected.C15.validate allow st rp es ≠ .error .panic := by
  unfold runNodeR
  have hnp := edgesMapR_no_panic allow st rp es
  cases he : edgesMapR Expected.C15.take Expected.C15.validate allow st rp es with
  | error e => simp only [ne_eq, Except.error.injEq]; intro h; subst h; exact hnp he
  | ok l =>
    simp only []
    have hall := edgesMapR_ok allow st rp es l hval hag he
    have := convertFrom_isSome st l (newInstance st) hall
    unfold convertTo
    cases hc : convertFrom st (newInstance st) l with
    | none => simp [hc] at this
    | some v => simp

/-- the value-directed extraction path of `runNodeP` agrees with the (elaborated) declared one -/
theorem runPath_agrees (e : Emb) (f : TakeFacts) (es : List Edge) :
    Agrees (fun ed m => runPath e f ed.pt ed.v m) es := by
  intro ed _ m _ pf hpf hne
  exact elabVal_fix e f m.src ed.pt pf ed.v hpf hne

theorem elabEdge_nil (st : FTy) (ed : Edge) : elabEdge [] st ed = ed := by
  cases ed with
  | mk pt v ms =>
    have hid : elabMapping [] pt st = id := by
      funext m; cases m; simp [elabMapping, elabTy_nil]
    simp only [elabEdge, hid, List.map_id]

end EinoV.C15
