/-
  Refinement: the code translated from compose/dag.go (Gen/TransC02.lean, regenerated from /repo
  on every run) computes what the hand-written channel model of `Model/Engine.lean` computes.
  Everything proved about `Chan.reportValues / reportDeps / reportSkip / get` in all-predecessor
  mode (and, through them, about whole runs) is thereby a statement about the translated text.
-/
import EinoV.Gen.TransC02
import EinoV.Proofs.GoLoop
namespace EinoV.TransDag
open EinoV.GoSem EinoV.Engine EinoV.Gen.TransC02

variable {V : Type} [Inhabited V]

/-- the translated struct is the model's channel, field by field -/
def toChan (c : dagChannel V) : Chan V :=
  { values := c.Values, ctrl := c.ControlPredecessors, data := c.DataPredecessors, skipped := c.Skipped }

def ofChan (c : Chan V) : dagChannel V :=
  { Values := c.values, ControlPredecessors := c.ctrl, DataPredecessors := c.data, Skipped := c.skipped }

theorem toChan_ofChan (c : Chan V) : toChan (ofChan c) = c := rfl
theorem ofChan_toChan (c : dagChannel V) : ofChan (toChan c) = c := rfl

/-- the externals instantiated from the model's value operations -/
def extOf (ops : ValOps V) (emptyStream : V) : Ext V :=
  { zeroValue := ops.zero, emptyStream := emptyStream,
    mergeValues := fun vs => match ops.merge vs with
      | some v => (v, none)
      | none => (default, some (GoErr.mk "merge")) }

theorem reportValues_refines (ext : Ext V) (ch : dagChannel V) (ins : GoMap V) :
    toChan (dagChannel_reportValues ext ch ins).1 = (toChan ch).reportValues true ins ∧
    (dagChannel_reportValues ext ch ins).2 = none := by
  unfold dagChannel_reportValues Chan.reportValues
  simp only [forIn_id, Id.run, if_true, bind, pure]
  by_cases hs : ch.Skipped = true
  · simp [hs, toChan]
  · have hs' : (toChan ch).skipped = false := by simp [toChan, hs]
    simp only [hs, hs', if_false, Bool.false_eq_true, and_true]
    refine goLoop_fold toChan _ _ ?_ ins ch
    intro kv c
    by_cases hk : (alookup kv.fst c.DataPredecessors).isSome = true <;>
      simp [hk, GoMap.has, GoMap.set, toChan]

theorem reportDependencies_refines (ext : Ext V) (ch : dagChannel V) (deps : List String) :
    toChan (dagChannel_reportDependencies ext ch deps) = (toChan ch).reportDeps true deps := by
  unfold dagChannel_reportDependencies Chan.reportDeps
  simp only [forIn_id, Id.run, if_true, bind, pure]
  by_cases hs : ch.Skipped = true
  · simp [hs, toChan]
  · have hs' : (toChan ch).skipped = false := by simp [toChan, hs]
    simp only [hs, hs', if_false, Bool.false_eq_true]
    refine goLoop_fold toChan _ _ ?_ deps ch
    intro k c
    by_cases hk : (alookup k c.ControlPredecessors).isSome = true <;>
      simp [hk, GoMap.has, GoMap.set, toChan]


theorem all_skipped_eq (l : GoMap Dep) :
    (if l.any (fun x => x.snd != Dep.skipped) then false else true) = l.all (fun p => p.2 == Dep.skipped) := by
  induction l with
  | nil => rfl
  | cons a l ih =>
    rw [List.any_cons, List.all_cons, ← ih]
    cases h : (a.snd == Dep.skipped)
    · simp [bne, h]
    · simp only [bne, h, Bool.not_true, Bool.false_or, Bool.true_and]

theorem reportSkip_refines (ext : Ext V) (ch : dagChannel V) (keys : List String) :
    (toChan (dagChannel_reportSkip ext ch keys).1, (dagChannel_reportSkip ext ch keys).2)
      = (toChan ch).reportSkip true keys := by
  unfold dagChannel_reportSkip Chan.reportSkip
  simp only [forIn_id, Id.run, if_true, bind, pure]
  generalize hc1 : goLoop _ keys ch = c1
  have h1 : toChan c1 = keys.foldl (fun (c : Chan V) k =>
      let c := if (alookup k c.ctrl).isSome then { c with ctrl := aset k Dep.skipped c.ctrl } else c
      if (alookup k c.data).isSome then { c with data := aset k true c.data } else c) (toChan ch) := by
    rw [← hc1]
    refine goLoop_fold toChan _ _ ?_ keys ch
    intro k c
    by_cases h1 : (alookup k c.ControlPredecessors).isSome = true <;>
    by_cases h2 : (alookup k c.DataPredecessors).isSome = true <;>
      simp [h1, h2, GoMap.has, GoMap.set, toChan]
  rw [← h1, goLoop_search (fun x => x.snd != Dep.skipped) false c1.ControlPredecessors true, all_skipped_eq]
  simp [toChan]


/-! ### `get` -/

/-- a Go map has one entry per key -/
def KeysNodup {α : Type} (m : GoMap α) : Prop := (m.map (·.1)).Nodup

theorem aset_append_fresh {α : Type} (pre : GoMap α) (k : String) (v w : α) (rest : GoMap α)
    (h : k ∉ pre.map (·.1)) : aset k w (pre ++ (k, v) :: rest) = pre ++ (k, w) :: rest := by
  induction pre with
  | nil => simp [aset]
  | cons p pre ih =>
    have hp : (p.1 == k) = false := by
      simp only [List.map_cons, List.mem_cons, not_or] at h
      simpa [beq_eq_false_iff_ne] using fun e => h.1 e.symm
    simp only [List.map_cons, List.mem_cons, not_or] at h
    obtain ⟨k', v'⟩ := p
    simp only [List.cons_append, aset]
    simp only at hp
    simp [hp, ih h.2]

/-- writing one constant to every key of a map, one key at a time while ranging over it -/
theorem foldl_aset_all {α : Type} (w : α) (pre l : GoMap α) (h : KeysNodup (pre ++ l)) :
    l.foldl (fun m (x : String × α) => aset x.1 w m) (pre ++ l) = pre ++ l.map (fun p => (p.1, w)) := by
  induction l generalizing pre with
  | nil => simp
  | cons a l ih =>
    obtain ⟨k, v⟩ := a
    have hk : k ∉ pre.map (·.1) := by
      unfold KeysNodup at h
      simp only [List.map_append, List.map_cons, List.nodup_append, List.mem_cons] at h
      intro hm; exact (h.2.2 k hm k (Or.inl rfl)) rfl
    simp only [List.foldl_cons, List.map_cons]
    rw [aset_append_fresh pre k v w l hk]
    have := ih (pre ++ [(k, w)]) (by
      unfold KeysNodup at *
      simpa [List.map_append] using h)
    simpa [List.append_assoc] using this

theorem foldl_aset_all' {α : Type} (w : α) (l : GoMap α) (h : KeysNodup l) :
    l.foldl (fun m (x : String × α) => aset x.1 w m) l = l.map (fun p => (p.1, w)) := by
  simpa using foldl_aset_all w [] l (by simpa using h)

/-- well-formed channel: one entry per predecessor (what `dagChannelBuilder` builds from Go maps) -/
def WF (c : dagChannel V) : Prop := KeysNodup c.ControlPredecessors ∧ KeysNodup c.DataPredecessors

theorem goLoop_yield {α β : Type} (g : β → α → β) (l : List α) (b : β) :
    goLoop (fun a s => ForInStep.yield (g s a)) l b = l.foldl g b :=
  goLoop_fold id _ g (fun a b => ⟨g b a, rfl, rfl⟩) l b

theorem ctrl_fold {α : Type} (w : Dep) (l : List (String × α)) (s : dagChannel V) :
    l.foldl (fun (s : dagChannel V) x => { s with ControlPredecessors := s.ControlPredecessors.set x.1 w }) s
      = { s with ControlPredecessors := l.foldl (fun m x => aset x.1 w m) s.ControlPredecessors } := by
  induction l generalizing s with
  | nil => rfl
  | cons a l ih => simp only [List.foldl_cons, GoMap.set] at ih ⊢; rw [ih]

theorem data_fold {α : Type} (w : Bool) (l : List (String × α)) (s : dagChannel V) :
    l.foldl (fun (s : dagChannel V) x => { s with DataPredecessors := s.DataPredecessors.set x.1 w }) s
      = { s with DataPredecessors := l.foldl (fun m x => aset x.1 w m) s.DataPredecessors } := by
  induction l generalizing s with
  | nil => rfl
  | cons a l ih => simp only [List.foldl_cons, GoMap.set] at ih ⊢; rw [ih]

theorem defer_refines (ext : Ext V) (ch : dagChannel V) (h : WF ch) :
    toChan (dagChannel_get__defer ext ch) = (toChan ch).reset := by
  unfold dagChannel_get__defer Chan.reset
  simp only [forIn_id, Id.run, bind, pure]
  have e1 := goLoop_yield (fun (s : dagChannel V) (x : String × Dep) =>
      { s with ControlPredecessors := s.ControlPredecessors.set x.1 Dep.waiting }) ch.ControlPredecessors
      { ch with Values := [] }
  have e2 := fun (s : dagChannel V) (l : GoMap Bool) => goLoop_yield (fun (s : dagChannel V) (x : String × Bool) =>
      { s with DataPredecessors := s.DataPredecessors.set x.1 false }) l s
  rw [e1, e2, ctrl_fold, data_fold]
  simp only [toChan, foldl_aset_all' _ _ h.1, foldl_aset_all' _ _ h.2]


/-- what the three Go results mean for the caller (`getFromReadyChannels`): an error, a ready
    value, or not ready -/
def getResult (r : V × Bool × Option GoErr) : GetResult V :=
  if r.2.2.isSome then .mergeErr else if r.2.1 then .ready r.1 else .notReady

/-- the model's value operations as seen by `get(isStream)`: in stream mode the value handed out
    when nothing arrived is the empty stream -/
def opsFor (ops : ValOps V) (es : V) (isStream : Bool) : ValOps V :=
  { ops with zero := if isStream then es else ops.zero }

theorem get_refines (ops : ValOps V) (es : V) (ch : dagChannel V) (isStream : Bool) (h : WF ch) :
    toChan (dagChannel_get (extOf ops es) ch isStream).1 = ((toChan ch).get (opsFor ops es isStream) true).1 ∧
    getResult (dagChannel_get (extOf ops es) ch isStream).2 = ((toChan ch).get (opsFor ops es isStream) true).2 := by
  unfold dagChannel_get Chan.get Chan.triggered
  simp only [forIn_id, Id.run, if_true, bind, pure, goLoop_collect, List.nil_append]
  rw [goLoop_search' (fun (x : String × Dep) => x.snd == Dep.waiting), goLoop_search' (fun (x : String × Bool) => !x.snd)]
  have hd := defer_refines (extOf ops es) ch h
  have hsk : (toChan ch).skipped = ch.Skipped := rfl
  have hct : (toChan ch).ctrl = ch.ControlPredecessors := rfl
  have hda : (toChan ch).data = ch.DataPredecessors := rfl
  have hva : (toChan ch).values = ch.Values := rfl
  rw [hsk, hct, hda, hva]
  by_cases h1 : ch.Skipped = true
  · simp [h1, getResult]
  have h1' : ch.Skipped = false := by simpa using h1
  by_cases h2 : (ch.ControlPredecessors.isEmpty && ch.DataPredecessors.isEmpty) = true
  · have : (List.length ch.ControlPredecessors == 0 && List.length ch.DataPredecessors == 0) = true := by
      simpa [List.isEmpty_iff_length_eq_zero] using h2
    simp [h1', h2, this, getResult]
  have h2' : (List.length ch.ControlPredecessors == 0 && List.length ch.DataPredecessors == 0) = false := by
    simpa [List.isEmpty_iff_length_eq_zero] using h2
  have h2'' : (ch.ControlPredecessors.isEmpty && ch.DataPredecessors.isEmpty) = false := by simpa using h2
  by_cases h3 : (List.any ch.ControlPredecessors fun x => x.snd == Dep.waiting) = true
  · simp [h1', h2', h2'', h3, getResult]
  have h3' : (List.any ch.ControlPredecessors fun x => x.snd == Dep.waiting) = false := Bool.eq_false_iff.mpr h3
  by_cases h4 : (List.any ch.DataPredecessors fun x => !x.snd) = true
  · have : (List.any ch.DataPredecessors fun p => p.snd == false) = true := by
      simpa using h4
    simp [h1', h2', h2'', h3', h4, getResult]
  have h4' : (List.any ch.DataPredecessors fun x => !x.snd) = false := Bool.eq_false_iff.mpr h4
  have h4'' : (List.any ch.DataPredecessors fun p => p.snd == false) = false := by
    have : (fun p : String × Bool => p.snd == false) = (fun x => !x.snd) := by
      funext x; cases x.snd <;> rfl
    rw [this]; exact h4'
  simp only [h1', h2', h2'', h3', h4', h4'', Bool.false_eq_true, if_false, Bool.not_false, Bool.and_self, if_true]
  generalize hext : extOf ops es = ext at hd ⊢
  have hz : ext.zeroValue = ops.zero := by rw [← hext]; rfl
  have he : ext.emptyStream = es := by rw [← hext]; rfl
  have hm : ∀ vs, ext.mergeValues vs = (match ops.merge vs with
      | some v => (v, none)
      | none => (default, some (GoErr.mk "merge"))) := by intro vs; rw [← hext]; rfl
  rcases hv : ch.Values with _ | ⟨a, _ | ⟨b, rest⟩⟩
  · cases isStream <;> simp [hd, getResult, opsFor, hz, he]
  · simp [hd, getResult, collect]
  · simp only [List.map_cons, List.length_cons, hm]
    cases hmm : ops.merge (a.snd :: b.snd :: List.map Prod.snd rest) <;>
      simp [hd, getResult, collect, opsFor, hmm]


/-! ### the translated operations keep "one entry per key" -/

theorem aset_keys_of_has {α : Type} (m : GoMap α) (k : String) (v : α) (h : m.has k = true) :
    (aset k v m).map (·.1) = m.map (·.1) := by
  induction m with
  | nil => simp [GoMap.has, alookup] at h
  | cons p m ih =>
    obtain ⟨k', v'⟩ := p
    by_cases e : (k' == k) = true
    · have : k' = k := by simpa using e
      simp [aset, e, this]
    · have e' : (k' == k) = false := by simpa using e
      have hm : GoMap.has m k = true := by simpa [GoMap.has, alookup, e'] using h
      simp [aset, e', ih hm]

theorem set_keysNodup {α : Type} (m : GoMap α) (k : String) (v : α) (h : m.has k = true)
    (hn : KeysNodup m) : KeysNodup (m.set k v) := by
  unfold KeysNodup GoMap.set; rw [aset_keys_of_has m k v h]; exact hn

theorem mem_keys_has {α : Type} (m : GoMap α) (x : String × α) (hx : x ∈ m) : m.has x.1 = true := by
  induction m with
  | nil => cases hx
  | cons p m ih =>
    simp only [GoMap.has, alookup]
    by_cases e : (p.1 == x.1) = true
    · simp [e]
    · have e' : (p.1 == x.1) = false := by simpa using e
      rcases List.mem_cons.mp hx with rfl | hm
      · simp at e
      · simpa [e', GoMap.has] using ih hm

theorem reportValues_wf (ext : Ext V) (ch : dagChannel V) (ins : GoMap V) (h : WF ch) :
    WF (dagChannel_reportValues ext ch ins).1 := by
  unfold dagChannel_reportValues
  simp only [forIn_id, Id.run, bind, pure]
  by_cases hs : ch.Skipped = true
  · simpa [hs] using h
  · simp only [hs, if_false, Bool.false_eq_true]
    refine goLoop_inv WF _ ?_ ins ch h
    intro kv c hc
    by_cases hk : c.DataPredecessors.has kv.fst = true
    · exact ⟨{ c with DataPredecessors := c.DataPredecessors.set kv.fst true, Values := c.Values.set kv.fst kv.snd },
        by simp [hk], hc.1, set_keysNodup _ _ _ hk hc.2⟩
    · exact ⟨c, by simp [hk], hc⟩

theorem reportDependencies_wf (ext : Ext V) (ch : dagChannel V) (deps : List String) (h : WF ch) :
    WF (dagChannel_reportDependencies ext ch deps) := by
  unfold dagChannel_reportDependencies
  simp only [forIn_id, Id.run, bind, pure]
  by_cases hs : ch.Skipped = true
  · simpa [hs] using h
  · simp only [hs, if_false, Bool.false_eq_true]
    refine goLoop_inv WF _ ?_ deps ch h
    intro k c hc
    by_cases hk : c.ControlPredecessors.has k = true
    · exact ⟨{ c with ControlPredecessors := c.ControlPredecessors.set k Dep.ready },
        by simp [hk], set_keysNodup _ _ _ hk hc.1, hc.2⟩
    · exact ⟨c, by simp [hk], hc⟩

theorem reportSkip_wf (ext : Ext V) (ch : dagChannel V) (keys : List String) (h : WF ch) :
    WF (dagChannel_reportSkip ext ch keys).1 := by
  unfold dagChannel_reportSkip
  simp only [forIn_id, Id.run, bind, pure]
  generalize hc1 : goLoop _ keys ch = c1
  have h1 : WF c1 := by
    rw [← hc1]
    refine goLoop_inv WF _ ?_ keys ch h
    intro k c hc
    by_cases h1 : c.ControlPredecessors.has k = true <;> by_cases h2 : c.DataPredecessors.has k = true
    · exact ⟨{ c with ControlPredecessors := c.ControlPredecessors.set k Dep.skipped,
                      DataPredecessors := c.DataPredecessors.set k true },
        by simp [h1, h2], set_keysNodup _ _ _ h1 hc.1, set_keysNodup _ _ _ h2 hc.2⟩
    · exact ⟨{ c with ControlPredecessors := c.ControlPredecessors.set k Dep.skipped },
        by simp [h1, h2], set_keysNodup _ _ _ h1 hc.1, hc.2⟩
    · exact ⟨{ c with DataPredecessors := c.DataPredecessors.set k true },
        by simp [h1, h2], hc.1, set_keysNodup _ _ _ h2 hc.2⟩
    · exact ⟨c, by simp [h1, h2], hc⟩
  first | exact h1 | (split <;> exact h1)

theorem nodup_eraseDups' (l : List Key) : l.eraseDups.Nodup := by
  induction hl : l.length using Nat.strongRecOn generalizing l with
  | _ n ih =>
    cases l with
    | nil => simp
    | cons a as =>
      rw [List.eraseDups_cons]
      refine List.nodup_cons.mpr ⟨?_, ?_⟩
      · intro hm
        have := List.mem_eraseDups.mp hm
        simp at this
      · apply ih (as.filter (fun b => !(b == a))).length _ _ rfl
        rw [← hl]
        simp only [List.length_cons]
        exact Nat.lt_succ_of_le (List.length_filter_le _ _)

/-- what `dagChannelBuilder` builds (one `waiting` / `false` entry per distinct predecessor) is
    well formed; `Chan.init` is that builder in the model -/
theorem init_wf (ctrlPreds dataPreds : List Key) :
    WF (ofChan (Chan.init (V := V) true ctrlPreds dataPreds)) := by
  unfold WF KeysNodup ofChan Chan.init
  simp only [if_true, List.map_map]
  constructor
  · have : ((fun x : String × Dep => x.1) ∘ fun x => (x, Dep.waiting)) = id := rfl
    rw [this, List.map_id]; exact nodup_eraseDups' _
  · have : ((fun x : String × Bool => x.1) ∘ fun x => (x, false)) = id := rfl
    rw [this, List.map_id]; exact nodup_eraseDups' _

end EinoV.TransDag
