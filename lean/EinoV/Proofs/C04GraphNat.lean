/-
  C04 — a concrete instance of the graph-level agreement theorem (non-vacuity):
  `V = Nat`, chunk concatenation = sum, value fan-in = sum; three components with different
  native subsets and chunkers; a graph with fan-out, fan-in, a branch and a cycle (`natG`),
  and a graph using it as a node (`natG1`).  Data and the routine checks of the side
  conditions; the statements that use them are in EinoV/Props/C04.lean.
-/
import EinoV.Model.C04Graph
import EinoV.Proofs.C04Graph

namespace EinoV.C04
open EinoV.Engine

def natCo : ChunkOps Nat := { concatItems := fun l => .ok l.sum, emptyErr := { cls := .noTasks } }
def natOps : ValOps Nat := { merge := fun l => some l.sum, zero := 0 }

theorem natHct : ∀ l : List Nat, l ≠ [] → ∃ v, concat natCo l = .ok v := by
  intro l hl
  match l, hl with
  | [v], _ => exact ⟨v, rfl⟩
  | a :: b :: t, _ => exact ⟨(a :: b :: t).sum, rfl⟩

theorem natConcatD (l : List Nat) : concatD natCo 0 l = l.sum := by
  match l with
  | [] => rfl
  | [v] => simp [concatD, concat]
  | a :: b :: t => rfl

theorem sum_map_sum (ls : List (List Nat)) : (ls.map List.sum).sum = ls.flatten.sum := by
  induction ls with
  | nil => rfl
  | cons a t ih => simp [List.sum_append, ih]

/-- chunkers that really split -/
def split1 (v : Nat) : List Nat := if 2 ≤ v then [1, v - 1] else [v]
def lead0 (v : Nat) : List Nat := [0, v]

/-- stream-only, transform-only, and a failing component with two native forms -/
def compA : Comp Nat := { f := fun v => .ok (v + 1), chunk := split1, hasI := false, hasS := true }
def compB : Comp Nat := { f := fun v => .ok (2 * v), chunk := lead0, hasI := false, hasT := true }
def compC : Comp Nat :=
  { f := fun v => if 100 < v then .error { cls := .user 7 } else .ok (v + 10), chunk := split1,
    hasI := false, hasS := true, hasC := true }

theorem split1_ok (v : Nat) : concat natCo (split1 v) = .ok v ∧ split1 v ≠ [] := by
  unfold split1
  split
  · refine ⟨?_, by simp⟩
    simp only [concat, natCo, List.sum_cons, List.sum_nil, Except.ok.injEq]
    omega
  · exact ⟨rfl, by simp⟩

theorem compA_valid : compA.Valid natCo := ⟨fun v => (split1_ok v).1, fun v => (split1_ok v).2, rfl⟩
theorem compB_valid : compB.Valid natCo := ⟨fun v => by simp [compB, lead0, concat, natCo], fun v => by simp [compB, lead0], rfl⟩
theorem compC_valid : compC.Valid natCo := ⟨fun v => (split1_ok v).1, fun v => (split1_ok v).2, rfl⟩

/-- START → a, b (fan-out) → c (fan-in: merge) ; c's branch goes back to a (cycle) while its
    output is below 40, else to the pass-through p → END -/
def natG : Graph Nat 0 :=
  { start := { key := START, kind := .pass, writeTo := ["a", "b"] },
    nodes := [
      { key := "a", kind := .comp compA, writeTo := ["c"] },
      { key := "b", kind := .comp compB, writeTo := ["c"] },
      { key := "c", kind := .comp compC,
        branches := [{ ends := ["p", "a"], cond := fun v => .ok (if v < 40 then ["a"] else ["p"]) }] },
      { key := "p", kind := .pass, writeTo := [END] }],
    dataPreds := [("a", [START, "c"]), ("b", [START]), ("c", ["a", "b"]), ("p", ["c"]), (END, ["p"])],
    ctrlPreds := [("a", [START, "c"]), ("b", [START]), ("c", ["a", "b"]), ("p", ["c"]), (END, ["p"])],
    maxSteps := 20 }

theorem natG_ok : Graph.OK natCo 0 natG := by
  intro n hn
  simp only [natG, List.mem_cons, List.not_mem_nil, or_false] at hn
  rcases hn with rfl | rfl | rfl | rfl | rfl
  · trivial
  · exact compA_valid
  · exact compB_valid
  · exact compC_valid
  · trivial

/-- natG used as a node of another graph, next to a component; fan-in at END -/
def natG1 : Graph Nat 1 :=
  { start := { key := START, kind := .pass, writeTo := ["g", "q"] },
    nodes := [
      { key := "g", kind := .graph natG, writeTo := [END] },
      { key := "q", kind := .comp compA, writeTo := [END] }],
    dataPreds := [("g", [START]), ("q", [START]), (END, ["g", "q"])],
    ctrlPreds := [("g", [START]), ("q", [START]), (END, ["g", "q"])],
    maxSteps := 5 }

theorem natG1_ok : Graph.OK natCo 1 natG1 := by
  intro n hn
  simp only [natG1, List.mem_cons, List.not_mem_nil, or_false] at hn
  rcases hn with rfl | rfl | rfl
  · trivial
  · exact natG_ok
  · exact compA_valid

/-- all-predecessor mode: "a" has a control predecessor (START) and no data predecessor, so
    its channel is ready without a value and hands out the zero value / the zero stream -/
def natDag : Graph Nat 0 :=
  { start := { key := START, kind := .pass, controls := ["a"] },
    nodes := [{ key := "a", kind := .comp compA, writeTo := [END], controls := [END] }],
    dataPreds := [(END, ["a"])],
    ctrlPreds := [("a", [START]), (END, ["a"])],
    maxSteps := 5, dag := true }

theorem natDag_ok : Graph.OK natCo 0 natDag := by
  intro n hn
  simp only [natDag, List.mem_cons, List.not_mem_nil, or_false] at hn
  rcases hn with rfl | rfl
  · trivial
  · exact compA_valid

end EinoV.C04
