/-
  C03 — helper lemmas for `Model/C03Loop.lean`: `submit` with failing pre-processors, the
  interrupt path of the run loop, and the engine with interrupt points.
-/
import EinoV.Model.C03Loop
import EinoV.Proofs.C03

set_option linter.unusedSimpArgs false

namespace EinoV.C03

/-! ### submit with pre-processors -/

theorem submitP_first_fail {F : Facts} {L : LoopFacts} (hL : L.submitPreprocessesFirst = true)
    {needAll : Bool} {s s' : St} {ts bad : List Task}
    (h : submitP F L needAll s ts bad = some (s', true)) : s' = s := by
  simp only [submitP, hL, if_true] at h
  split at h
  · cases h
  · split at h
    · simp only [Option.some.injEq, Prod.mk.injEq] at h; exact h.1.symm
    · cases hs : step F needAll s (.submit ts) <;> simp [hs] at h

theorem submitP_first_ok {F : Facts} {L : LoopFacts} (hL : L.submitPreprocessesFirst = true)
    {needAll : Bool} {s s' : St} {ts bad : List Task}
    (h : submitP F L needAll s ts bad = some (s', false)) :
    step F needAll s (.submit ts) = some s' ∧ ts.any bad.contains = false := by
  simp only [submitP, hL, if_true] at h
  split at h
  · cases h
  · split at h
    · simp at h
    · rename_i hb
      cases hs : step F needAll s (.submit ts) with
      | none => simp [hs] at h
      | some s1 =>
        simp only [hs, Option.map_some, Option.some.injEq, Prod.mk.injEq, and_true] at h
        exact ⟨by rw [h], by simpa using hb⟩

/-! ### the interrupt path -/

theorem interruptPath_spec {F : Facts} {L : LoopFacts} {needAll : Bool} :
    ∀ (evs : List Ev) {k : Nat} {s s' : St}, interruptPath F L needAll k s evs = some s' →
      ∃ pre suf k', evs = pre ++ suf ∧ (∀ e ∈ pre, e.isSubmit = false) ∧
        run F needAll s pre = some s' ∧ pathReturns L needAll k' s' = true
  | [], k, s, s', h => by
    simp only [interruptPath] at h
    split at h
    · rename_i hp
      simp only [Option.some.injEq] at h; subst h
      exact ⟨[], [], k, rfl, by simp, rfl, hp⟩
    · cases h
  | e :: es, k, s, s', h => by
    simp only [interruptPath] at h
    split at h
    · rename_i hp
      simp only [Option.some.injEq] at h; subst h
      exact ⟨[], e :: es, k, rfl, by simp, rfl, hp⟩
    · split at h
      · cases h
      · rename_i hsub
        cases hs : step F needAll s e with
        | none => simp [hs] at h
        | some s1 =>
          simp only [hs] at h
          obtain ⟨pre, suf, k', he, hns, hr, hp⟩ := interruptPath_spec es h
          refine ⟨e :: pre, suf, k', by simp [he], ?_, by simp [run, hs, hr], hp⟩
          intro e' he'
          rcases List.mem_cons.1 he' with rfl | hm
          · simpa using hsub
          · exact hns e' hm

/-- a reachable state in which neither an executor nor the collector can move: everything is
    collected and the collector is outside `submit` / `waitOne` -/
theorem stuck_idle_zero {F : Facts} (hF : F.Good) (needAll : Bool) {s : St} (hI : Inv F s)
    (hstuck : ∀ e, e.isSubmit = false → step F needAll s e = none) :
    s.num = 0 ∧ s.coll = .idle := by
  have hrun : s.running = [] := by
    cases hr : s.running with
    | nil => rfl
    | cons t rest =>
      have := hstuck (.finish t false) rfl
      simp [step, hr] at this
  have hcoll : s.coll = .idle := by
    cases hc : s.coll with
    | idle => rfl
    | inline t =>
      have := hI.inl t hc
      simp [hrun] at this
    | window =>
      have := hstuck .refill rfl
      simp [step, hc] at this
  refine ⟨?_, hcoll⟩
  apply Classical.byContradiction
  intro hn
  rcases inv_progress hF needAll hI hn hrun with ⟨_, h1⟩ | ⟨hw, _⟩
  · rw [hstuck .recv rfl] at h1; cases h1
  · rw [hcoll] at hw; cases hw

theorem interruptPath_returns {F : Facts} (hF : F.Good) {L : LoopFacts} {needAll : Bool} :
    ∀ (evs : List Ev) {k : Nat} {s s' : St}, Inv F s → (∀ e ∈ evs, e.isSubmit = false) →
      run F needAll s evs = some s' →
      (∀ e, e.isSubmit = false → step F needAll s' e = none) →
      (interruptPath F L needAll k s evs).isSome = true
  | [], k, s, s', hI, _, hr, hstuck => by
    simp only [run, Option.some.injEq] at hr; subst hr
    obtain ⟨hn, hc⟩ := stuck_idle_zero hF needAll hI hstuck
    simp [interruptPath, pathReturns, hn, hc]
  | e :: es, k, s, s', hI, hns, hr, hstuck => by
    simp only [interruptPath]
    split
    · rfl
    · have hsub : e.isSubmit = false := hns e (by simp)
      simp only [hsub, Bool.false_eq_true, if_false]
      simp only [run] at hr
      cases hs : step F needAll s e with
      | none => simp [hs] at hr
      | some s1 =>
        simp only [hs] at hr ⊢
        exact interruptPath_returns hF es (step_inv hF needAll hI hs)
          (fun e' he' => hns e' (by simp [he'])) hr hstuck

/-! ### engine level -/

theorem mem_prio {order l : List Key} {k : Key} (h : k ∈ l) : k ∈ prio order l := by
  simp only [prio, List.mem_append, List.mem_filter]
  by_cases ho : k ∈ order
  · exact Or.inl ⟨ho, by simpa using h⟩
  · exact Or.inr ⟨h, by simpa using ho⟩

theorem iDrain_state (g : GCase) :
    ∀ (ks : List Key) (st : EState) (infl : List Key) (acc : List IStep),
      (iDrain g st ks infl acc).1.done = st.done ++ ks ∧
      (iDrain g st ks infl acc).1.started = st.started
  | [], st, infl, acc => by simp [iDrain]
  | k :: ks, st, infl, acc => by
    have ih := iDrain_state g ks (iCollect g st k) (infl.erase k) (acc ++ [⟨k, infl⟩])
    simp only [iDrain]
    refine ⟨?_, ?_⟩
    · rw [ih.1]; simp [iCollect, List.append_assoc]
    · rw [ih.2]; simp [iCollect]

/-- what is started is either collected or in flight -/
def Covered (st : EState) (infl : List Key) : Prop := ∀ k ∈ st.started, k ∈ st.done ∨ k ∈ infl

theorem iUncollected_nil_of_covered {st : EState} (h : Covered st []) : iUncollected st = [] := by
  simp only [iUncollected, List.filter_eq_nil_iff]
  intro k hk
  rcases h k hk with hd | hi
  · simp [hd]
  · cases hi

/-- with `waitAll` on the interrupt path (or in batch mode) an Invoke that ends in an
    interrupt has collected everything it started -/
theorem iInterrupt_covered (c : ICfg) {L : LoopFacts}
    (hL : (L.interruptPathWaitsAll || !c.eager) = true) {st : EState} {infl : List Key}
    (next bef aft : List Key) (acc : List IStep) (hc : Covered st infl) :
    Covered (iInterrupt c L st infl next bef aft acc).st [] := by
  have hst : (iInterrupt c L st infl next bef aft acc).st
      = (iDrain c.g st (prio c.order infl) infl acc).1 := by
    simp only [iInterrupt, hL, if_true]
    split <;> rfl
  rw [hst]
  have hd := iDrain_state c.g (prio c.order infl) st infl acc
  intro k hk
  rw [hd.2] at hk
  left
  rw [hd.1]
  rcases hc k hk with h | h
  · exact List.mem_append_left _ h
  · exact List.mem_append_right _ (mem_prio h)

theorem covered_collect {g : GCase} {st : EState} {infl : List Key} {k : Key}
    (hc : Covered st infl) : Covered (iCollect g st k) (infl.erase k) := by
  intro x hx
  simp only [iCollect] at hx ⊢
  rcases hc x hx with h | h
  · exact Or.inl (List.mem_append_left _ h)
  · by_cases hxk : x = k
    · subst hxk; exact Or.inl (by simp)
    · exact Or.inr ((List.mem_erase_of_ne hxk).2 h)

theorem covered_start {st : EState} {infl next : List Key} (hc : Covered st infl) :
    Covered (iStart st next) (infl ++ next) := by
  intro x hx
  simp only [iStart, List.mem_append] at hx ⊢
  rcases hx with h | h
  · rcases hc x h with h1 | h1
    · exact Or.inl h1
    · exact Or.inr (Or.inl h1)
  · exact Or.inr (Or.inr h)

theorem iEager_interrupt_covered (c : ICfg) {L : LoopFacts}
    (hL : (L.interruptPathWaitsAll || !c.eager) = true) :
    ∀ (n : Nat) (st : EState) (infl : List Key) (acc : List IStep), Covered st infl →
      ∀ b a p, (iEager c L n st infl acc).out = .interrupt b a p →
        Covered (iEager c L n st infl acc).st []
  | 0, st, infl, acc, _, b, a, p, h => by simp [iEager] at h
  | n + 1, st, infl, acc, hc, b, a, p, h => by
    simp only [iEager] at h ⊢
    cases hk : (prio c.order infl).head? with
    | none => simp [hk] at h
    | some k =>
      simp only [hk] at h ⊢
      generalize (if c.after.contains k = true then [k] else []) = aft at h ⊢
      by_cases hend : eEndReady c.g (iCollect c.g st k) = true
      · simp [hend] at h
      · simp only [hend, Bool.false_eq_true, if_false] at h ⊢
        split at h
        · rename_i hnone
          simp only [hnone, if_true]
          exact iEager_interrupt_covered c hL n _ _ _ (covered_start (covered_collect hc)) b a p h
        · rename_i hsome
          simp only [hsome, Bool.false_eq_true, if_false]
          exact iInterrupt_covered c hL _ _ _ _ (covered_collect hc)

theorem covered_drain_all {g : GCase} {order : List Key} {st : EState} {infl : List Key}
    (acc : List IStep) (hc : Covered st infl) :
    Covered (iDrain g st (prio order infl) infl acc).1 [] := by
  have hd := iDrain_state g (prio order infl) st infl acc
  intro k hk
  rw [hd.2] at hk
  left
  rw [hd.1]
  rcases hc k hk with h | h
  · exact List.mem_append_left _ h
  · exact List.mem_append_right _ (mem_prio h)

theorem covered_mono {st : EState} {a b : List Key} (hc : Covered st a) (hab : ∀ k ∈ a, k ∈ b) :
    Covered st b := by
  intro k hk
  rcases hc k hk with h | h
  · exact Or.inl h
  · exact Or.inr (hab k h)

theorem iBatch_interrupt_covered (c : ICfg) {L : LoopFacts}
    (hL : (L.interruptPathWaitsAll || !c.eager) = true) :
    ∀ (n : Nat) (st : EState) (infl : List Key) (acc : List IStep), Covered st infl →
      ∀ b a p, (iBatch c L n st infl acc).out = .interrupt b a p →
        Covered (iBatch c L n st infl acc).st []
  | 0, st, infl, acc, _, b, a, p, h => by simp [iBatch] at h
  | n + 1, st, infl, acc, hc, b, a, p, h => by
    simp only [iBatch] at h ⊢
    split at h
    · simp at h
    · rename_i hne
      simp only [hne, Bool.false_eq_true, if_false] at h ⊢
      have hcov := covered_drain_all (g := c.g) (order := c.order) acc hc
      split at h
      · simp at h
      · rename_i hend
        simp only [hend, Bool.false_eq_true, if_false] at h ⊢
        split at h
        · rename_i hnone
          simp only [hnone, if_true] at h ⊢
          refine iBatch_interrupt_covered c hL n _ _ _ ?_ b a p h
          exact covered_mono (covered_start hcov) (by simp)
        · rename_i hsome
          simp only [hsome, Bool.false_eq_true, if_false] at h ⊢
          exact iInterrupt_covered c hL _ _ _ _ hcov

theorem iLoop_interrupt_covered (c : ICfg) {L : LoopFacts}
    (hL : (L.interruptPathWaitsAll || !c.eager) = true) (st : EState) (infl : List Key)
    (hc : Covered st infl) (b a p : List Key) (h : (iLoop c L st infl).out = .interrupt b a p) :
    Covered (iLoop c L st infl).st [] := by
  unfold iLoop at h ⊢
  split
  · rename_i he; simp only [he, if_true] at h
    exact iEager_interrupt_covered c hL _ _ _ _ hc b a p h
  · rename_i he; simp only [he, Bool.false_eq_true, if_false] at h
    exact iBatch_interrupt_covered c hL _ _ _ _ hc b a p h

theorem covered_iInit (g : GCase) : Covered (iInit g) [] := by
  intro k hk
  simp only [iInit, List.mem_singleton] at hk
  left; simp [iInit, hk]

theorem iFirst_interrupt_covered (c : ICfg) {L : LoopFacts}
    (hL : (L.interruptPathWaitsAll || !c.eager) = true) (b a p : List Key)
    (h : (iFirst c L).out = .interrupt b a p) : Covered (iFirst c L).st [] := by
  unfold iFirst at h ⊢
  simp only at h ⊢
  split
  · exact covered_iInit c.g
  · rename_i hb
    simp only [hb, Bool.false_eq_true, if_false] at h
    refine iLoop_interrupt_covered c hL _ _ ?_ b a p h
    exact covered_mono (covered_start (covered_iInit c.g)) (by simp)

theorem iResume_interrupt_covered (c : ICfg) {L : LoopFacts}
    (hL : (L.interruptPathWaitsAll || !c.eager) = true) (st : EState) (pending : List Key)
    (hc : Covered st []) (b a p : List Key)
    (h : (iResume c L st pending).out = .interrupt b a p) :
    Covered (iResume c L st pending).st [] := by
  unfold iResume at h ⊢
  refine iLoop_interrupt_covered c hL _ _ ?_ b a p h
  exact covered_mono (covered_start hc) (by simp)

theorem iRuns_interrupt_covered (c : ICfg) {L : LoopFacts}
    (hL : (L.interruptPathWaitsAll || !c.eager) = true) :
    ∀ (n : Nat) (v : IInvoke), (∀ b a p, v.out = .interrupt b a p → Covered v.st []) →
      ∀ w ∈ iRuns c L n v, ∀ b a p, w.out = .interrupt b a p → Covered w.st []
  | 0, v, hv, w, hw, b, a, p, h => by
    simp only [iRuns, List.mem_singleton] at hw; subst hw; exact hv b a p h
  | n + 1, v, hv, w, hw, b, a, p, h => by
    simp only [iRuns] at hw
    split at hw
    · rename_i b0 a0 p0 hout
      rcases List.mem_cons.1 hw with rfl | hm
      · exact hv b a p h
      · refine iRuns_interrupt_covered c hL n _ ?_ w hm b a p h
        intro b' a' p' h'
        exact iResume_interrupt_covered c hL _ _ (hv b0 a0 p0 hout) b' a' p' h'
    · simp only [List.mem_singleton] at hw; subst hw; exact hv b a p h

end EinoV.C03
