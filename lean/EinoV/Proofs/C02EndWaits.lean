import EinoV.Proofs.C02Complete

namespace EinoV.Engine
namespace DagRun

/-! ### END is never a task; hence END is never enabled while the run goes on -/

theorem alookup_none_not_mem {α} (k : Key) (l : List (Key × α)) (h : alookup k l = none) :
    ∀ t, t ∈ l → t.1 ≠ k := by
  induction l with
  | nil => intro t ht; simp at ht
  | cons a rest ih =>
    intro t ht
    simp only [alookup] at h
    split at h
    · simp at h
    · rename_i hne
      rcases List.mem_cons.mp ht with rfl | ht
      · intro e; apply hne; simp [e]
      · exact ih h t ht

theorem calcNext_tasks_no_end {V} (ops : ValOps V) (r : Runner V) (cm cm' : Chans V) (done : List (Done V))
    (ts : List (Key × V)) (h : calcNext ops r cm done = .ok (cm', .tasks ts)) : ∀ t, t ∈ ts → t.1 ≠ END := by
  unfold calcNext at h
  cases h1 : resolve r cm done with
  | error e => simp [h1, bind, Except.bind] at h
  | ok res =>
    simp only [h1, bind, Except.bind] at h
    generalize hg : getReady ops r.dag (updateDeps r (updateValues r res.cm res.writes) res.deps) = gr at h
    obtain ⟨cm3, ready, bad⟩ := gr
    simp only at h
    cases bad with
    | true => simp [throw, throwThe, MonadExceptOf.throw] at h
    | false =>
      simp only [Bool.false_eq_true, ↓reduceIte] at h
      cases ha : alookup END ready with
      | some v => simp [ha, pure, Except.pure] at h
      | none =>
        simp only [ha, pure, Except.pure, Except.ok.injEq, Prod.mk.injEq, Next.tasks.injEq] at h
        obtain ⟨_, rfl⟩ := h
        exact alookup_none_not_mem END ready ha

theorem loop_no_end {V} (ops : ValOps V) (r : Runner V) (sched : Sched V) :
    ∀ (fuel : Nat) (cm : Chans V) (tasks : List (Key × V)) (tr : Trace V),
      (∀ t, t ∈ tasks → t.1 ≠ END) → (∀ t, t ∈ tr.flatten → t.1 ≠ END) →
      ∀ t, t ∈ (loop ops r sched fuel cm tasks tr).trace.flatten → t.1 ≠ END := by
  intro fuel
  induction fuel with
  | zero =>
    intro cm tasks tr _ h2 t ht
    simp only [loop, List.mem_flatten, List.mem_reverse] at ht
    obtain ⟨s, hs, hts⟩ := ht
    exact h2 t (List.mem_flatten.mpr ⟨s, hs, hts⟩)
  | succ f ih =>
    intro cm tasks tr h1 h2
    have hall : ∀ t, t ∈ (tasks :: tr).flatten → t.1 ≠ END := by
      intro t ht
      simp only [List.flatten_cons, List.mem_append] at ht
      rcases ht with h | h
      · exact h1 t h
      · exact h2 t h
    have hrev : ∀ t, t ∈ (tasks :: tr).reverse.flatten → t.1 ≠ END := by
      intro t ht
      simp only [List.mem_flatten, List.mem_reverse] at ht
      obtain ⟨s, hs, hts⟩ := ht
      exact hall t (List.mem_flatten.mpr ⟨s, hs, hts⟩)
    unfold loop
    simp only
    cases hr : runTasks r sched tr.length tasks with
    | error e => exact hrev
    | ok done =>
      simp only
      by_cases he : done.isEmpty = true
      · simp only [he, ↓reduceIte]; exact hrev
      · simp only [he, Bool.false_eq_true, ↓reduceIte]
        cases hc : calcNext ops r cm done with
        | error e => exact hrev
        | ok res =>
          obtain ⟨cm', nx⟩ := res
          cases nx with
          | result v => exact hrev
          | tasks ts => exact ih cm' ts (tasks :: tr) (calcNext_tasks_no_end ops r cm cm' done ts hc) hall

/-- END is never one of the tasks of a run (any runner, any schedule) -/
theorem run_no_end_task {V} (ops : ValOps V) (r : Runner V) (sched : Sched V) (x : V) :
    ∀ t, t ∈ (runS ops r sched x).trace.flatten → t.1 ≠ END := by
  unfold runS
  cases hc : calcNext ops r (initChans r) [(START, x)] with
  | error e => intro t ht; simp at ht
  | ok res =>
    obtain ⟨cm', nx⟩ := res
    cases nx with
    | result v => intro t ht; simp at ht
    | tasks ts =>
      exact loop_no_end ops r sched r.fuel cm' ts [] (calcNext_tasks_no_end ops r _ cm' _ ts hc) (by intro t ht; simp at ht)

/-- at no step of a complete trace without END tasks is END enabled by the older completions -/
theorem end_not_enabled_along {V} (r : Runner V) (x : V) (T : Trace V) (hc : CompTr r x T)
    (hne : ∀ t, t ∈ T.flatten → t.1 ≠ END) :
    ∀ pre step older, T = pre ++ step :: older → ¬ Enabled r (histOf r x older) END := by
  induction T with
  | nil => intro pre step older h; simp at h
  | cons s rest ih =>
    intro pre step older h hen
    cases pre with
    | nil =>
      simp only [List.nil_append, List.cons.injEq] at h
      obtain ⟨rfl, rfl⟩ := h
      have := hc.1 END hen
      simp only [keysOfTr, List.mem_map] at this
      obtain ⟨t, ht, he⟩ := this
      exact hne t ht he
    | cons p pre' =>
      simp only [List.cons_append, List.cons.injEq] at h
      obtain ⟨rfl, h⟩ := h
      exact ih hc.2 (fun t ht => hne t (by simp only [List.flatten_cons, List.mem_append]; exact Or.inr ht))
        pre' step older h hen

/-- **the run returns at the first moment END is enabled**: while it goes on — at every step it
    executes — END is not enabled by the completions of the older steps -/
theorem run_end_never_waits {V} (ops : ValOps V) (r : Runner V) (wf : DagWF r) (wf2 : DagWF2 r)
    (sched : Sched V) (hf : sched.Fair) (x : V) (pre : Trace V) (step : List (Key × V)) (older : Trace V)
    (h : (runS ops r sched x).trace.reverse = pre ++ step :: older) :
    ¬ Enabled r (histOf r x older) END := by
  refine end_not_enabled_along r x _ (run_complete ops r wf wf2 sched hf x) ?_ pre step older h
  intro t ht
  refine run_no_end_task ops r sched x t ?_
  simp only [List.mem_flatten, List.mem_reverse] at ht ⊢
  exact ht

end DagRun
end EinoV.Engine
