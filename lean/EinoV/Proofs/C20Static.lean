/-
  C20 — lemmas about Model/C20Static.lean: a runnable whose static-value handlers are private
  copies answers the same in every builder state; with `copies = true` every runnable a call
  sequence produces is of that kind; with `guarded = true` a compiled Workflow's static values
  never change again.
-/
import EinoV.Model.C20Static

namespace EinoV.Build.SV

/-! ## closed runnables -/

def Pre.closed (p : Pre) : Bool := p.all (fun e => e.2.all SRef.isCopy)

def SRunner.closed (r : SRunner) : Bool := Pre.closed r.pre

/-- every handler list of the builder and of the runnables made so far holds copies only -/
def St.Closed (st : St) : Prop := Pre.closed st.1.pre = true ∧ ∀ r ∈ st.2, r.closed = true

theorem SRef.now_copy (w w' : SW) (x : SRef) (h : x.isCopy = true) : x.now w = x.now w' := by
  cases x with
  | copy kvs => rfl
  | alias k => simp [SRef.isCopy] at h

theorem resolve_closed (r : SRunner) (h : r.closed = true) (w w' : SW) : r.resolve w = r.resolve w' := by
  unfold SRunner.resolve
  apply List.map_congr_left
  intro p hp
  have hall : p.2.all SRef.isCopy = true := by
    have := h
    unfold SRunner.closed Pre.closed at this
    rw [List.all_eq_true] at this
    exact this p hp
  congr 1
  apply List.map_congr_left
  intro x hx
  rw [List.all_eq_true] at hall
  exact SRef.now_copy w w' x (hall x hx)

/-- **a closed runnable does not see the builder** -/
theorem run_closed (r : SRunner) (h : r.closed = true) (w w' : SW) (inp : KVs) :
    r.run w inp = r.run w' inp := by
  unfold SRunner.run
  rw [resolve_closed r h w w']

theorem prePrepend_closed (k : String) (x : SRef) (hx : x.isCopy = true) (p : Pre)
    (hp : Pre.closed p = true) : Pre.closed (prePrepend k x p) = true := by
  induction p with
  | nil => simp [prePrepend, Pre.closed, hx]
  | cons e t ih =>
    obtain ⟨k', xs⟩ := e
    simp only [Pre.closed, List.all_cons, Bool.and_eq_true] at hp
    unfold prePrepend
    split
    · simp only [Pre.closed, List.all_cons, Bool.and_eq_true]
      exact ⟨⟨hx, hp.1⟩, hp.2⟩
    · simp only [Pre.closed, List.all_cons, Bool.and_eq_true]
      exact ⟨hp.1, ih hp.2⟩

theorem staticStep_closed (F : SFacts) (hc : F.copies = true) (ns : List SNode) (p : Pre)
    (hp : Pre.closed p = true) : Pre.closed (staticStep F ns p).2.1 = true := by
  induction ns generalizing p with
  | nil => simpa [staticStep] using hp
  | cons n t ih =>
    unfold staticStep
    split
    · exact ih p hp
    · dsimp only
      split
      · exact hp
      · refine ih _ (prePrepend_closed n.key _ ?_ p hp)
        first | rfl | (rw [hc]; rfl)

theorem compile_closed (F : SFacts) (hc : F.copies = true) (w : SW) (hp : Pre.closed w.pre = true) :
    Pre.closed (compile F w).1.pre = true ∧ ∀ r, (compile F w).2 = some r → r.closed = true := by
  have hs := staticStep_closed F hc (replayAll w.compiled w.nodes).1 w.pre hp
  unfold compile
  dsimp only
  split
  · exact ⟨hp, by simp⟩
  · split
    · exact ⟨hs, by simp⟩
    · refine ⟨hs, ?_⟩
      intro r hr
      simp only [Option.some.injEq] at hr
      rw [← hr]
      exact hs

theorem step_closed (F : SFacts) (hc : F.copies = true) (inp : KVs) (st : St) (h : St.Closed st)
    (op : SOp) : St.Closed (step F inp st op).1 := by
  cases op with
  | set k p v =>
    refine ⟨?_, h.2⟩
    simp only [step, setStatic]
    split <;> exact h.1
  | input k i => exact ⟨h.1, h.2⟩
  | compile =>
    have hcc := compile_closed F hc st.1 h.1
    simp only [step]
    split
    · rename_i r hr
      refine ⟨hcc.1, ?_⟩
      intro r' hr'
      rcases List.mem_append.mp hr' with hm | hm
      · exact h.2 r' hm
      · simp only [List.mem_singleton] at hm
        rw [hm]; exact hcc.2 r hr
    · exact ⟨hcc.1, h.2⟩
  | run i =>
    simp only [step]
    split <;> exact h

theorem runOps_closed (F : SFacts) (hc : F.copies = true) (inp : KVs) (st : St) (h : St.Closed st)
    (ops : List SOp) : St.Closed (runOps F inp st ops).1 := by
  induction ops generalizing st with
  | nil => exact h
  | cons op ops ih => exact ih _ (step_closed F hc inp st h op)

theorem new_closed (decl : List (String × List SIn)) : St.Closed (SW.new decl, []) :=
  ⟨rfl, by simp⟩

/-- the list of runnables only grows -/
theorem step_runners (F : SFacts) (inp : KVs) (st : St) (op : SOp) : st.2 <+: (step F inp st op).1.2 := by
  cases op with
  | set k p v => exact List.prefix_refl _
  | input k i => exact List.prefix_refl _
  | compile =>
    simp only [step]
    split
    · exact List.prefix_append _ _
    · exact List.prefix_refl _
  | run i =>
    simp only [step]
    split <;> exact List.prefix_refl _

theorem runOps_runners (F : SFacts) (inp : KVs) (st : St) (ops : List SOp) :
    st.2 <+: (runOps F inp st ops).1.2 := by
  induction ops generalizing st with
  | nil => exact List.prefix_refl _
  | cons op ops ih => exact List.IsPrefix.trans (step_runners F inp st op) (ih _)

/-! ## static values of a compiled Workflow under the guard -/

theorem replayAll_statics (c : Bool) (ns : List SNode) :
    (replayAll c ns).1.map (fun n => (n.key, n.static)) = ns.map (fun n => (n.key, n.static)) := by
  induction ns with
  | nil => rfl
  | cons n t ih =>
    unfold replayAll
    dsimp only
    split
    · simp [ih]
    · simp

theorem staticStep_statics (F : SFacts) (ns : List SNode) (p : Pre) :
    (staticStep F ns p).1.map (fun n => (n.key, n.static)) = ns.map (fun n => (n.key, n.static)) := by
  induction ns generalizing p with
  | nil => rfl
  | cons n t ih =>
    unfold staticStep
    split
    · simp [ih]
    · dsimp only
      split
      · simp
      · simp [ih]

theorem compile_statics (F : SFacts) (w : SW) : (compile F w).1.statics = w.statics := by
  unfold compile SW.statics
  dsimp only
  split
  · exact replayAll_statics _ _
  · split
    · simp only []
      rw [staticStep_statics, replayAll_statics]
    · simp only []
      rw [staticStep_statics, replayAll_statics]

theorem compile_compiled (F : SFacts) (w : SW) (h : w.compiled = true) : (compile F w).1.compiled = true := by
  unfold compile
  dsimp only
  split
  · exact h
  · split
    · exact h
    · rfl

/-- a Compile that returns a runnable leaves the graph compiled -/
theorem compile_some_compiled (F : SFacts) (w : SW) (r : SRunner) (h : (compile F w).2 = some r) :
    (compile F w).1.compiled = true := by
  unfold compile at h ⊢
  dsimp only at h ⊢
  split
  · rename_i h1; simp [h1] at h
  · split
    · rename_i h1 h2; simp [h1, h2] at h
    · rfl

theorem updNode_pend_statics (k : String) (i : SIn) (ns : List SNode) :
    (updNode k (fun n => { n with pend := n.pend ++ [i] }) ns).map (fun n => (n.key, n.static))
      = ns.map (fun n => (n.key, n.static)) := by
  induction ns with
  | nil => rfl
  | cons n t ih =>
    unfold updNode
    split
    · simp
    · simp [ih]

theorem step_guarded (F : SFacts) (hg : F.guarded = true) (inp : KVs) (st : St)
    (hc : st.1.compiled = true) (op : SOp) :
    (step F inp st op).1.1.statics = st.1.statics ∧ (step F inp st op).1.1.compiled = true := by
  cases op with
  | set k p v => simp [step, setStatic, hg, hc]
  | input k i =>
    simp only [step, addInput, SW.statics]
    exact ⟨updNode_pend_statics k i _, hc⟩
  | compile =>
    simp only [step]
    split
    · exact ⟨compile_statics F st.1, compile_compiled F st.1 hc⟩
    · exact ⟨compile_statics F st.1, compile_compiled F st.1 hc⟩
  | run i =>
    simp only [step]
    split <;> exact ⟨rfl, hc⟩

theorem runOps_guarded (F : SFacts) (hg : F.guarded = true) (inp : KVs) (st : St)
    (hc : st.1.compiled = true) (ops : List SOp) :
    (runOps F inp st ops).1.1.statics = st.1.statics ∧ (runOps F inp st ops).1.1.compiled = true := by
  induction ops generalizing st with
  | nil => exact ⟨rfl, hc⟩
  | cons op ops ih =>
    have h1 := step_guarded F hg inp st hc op
    have h2 := ih (step F inp st op).1 h1.2
    exact ⟨by simp only [runOps]; rw [h2.1, h1.1], by simp only [runOps]; exact h2.2⟩

/-! ## a static value on a path that an input already maps is refused -/

theorem insAll_mem (fs ps : List String) (p : String) (hp : p ∈ ps) (hf : p ∈ fs) :
    (insAll fs ps).2 = false := by
  induction ps generalizing fs with
  | nil => simp at hp
  | cons q qs ih =>
    unfold insAll
    split
    · rfl
    · rename_i hq
      rcases List.mem_cons.mp hp with h | h
      · subst h; simp_all
      · exact ih (fs ++ [q]) h (List.mem_append_left _ hf)

theorem replayIns_nil (c : Bool) (t : MP) (d : List SIn) : replayIns c t d [] = (t, d, true) := rfl

theorem replayAll_nopend (c : Bool) (ns : List SNode) (h : ∀ m ∈ ns, m.pend = []) :
    replayAll c ns = (ns, true) := by
  induction ns with
  | nil => rfl
  | cons n t ih =>
    have hn : n.pend = [] := h n (by simp)
    have ht := ih (fun m hm => h m (by simp [hm]))
    unfold replayAll
    rw [hn, replayIns_nil]
    dsimp only
    rw [ht]
    simp only [if_true]
    cases n
    simp_all

theorem add_taken (t : MP) (ps : List String)
    (h : t = .whole ∨ ∃ fs p, t = .fields fs ∧ p ∈ fs ∧ p ∈ ps) : (t.add ps).2 = false := by
  rcases h with h | ⟨fs, p, h, hf, hp⟩
  · subst h; rfl
  · subst h
    cases ps with
    | nil => simp at hp
    | cons q qs => exact insAll_mem fs (q :: qs) p hp hf

theorem staticStep_fails (F : SFacts) (ns : List SNode) (pre : Pre) (n : SNode) (hn : n ∈ ns)
    (hne : n.static.isEmpty = false) (hf : (n.trie.add n.static.keys).2 = false) :
    (staticStep F ns pre).2.2 = false := by
  induction ns generalizing pre with
  | nil => simp at hn
  | cons m t ih =>
    unfold staticStep
    split
    · rename_i hm
      rcases List.mem_cons.mp hn with h | h
      · subst h; simp [hne] at hm
      · exact ih pre h
    · dsimp only
      split
      · rfl
      · rename_i hm hadd
        rcases List.mem_cons.mp hn with h | h
        · subst h; simp [hf] at hadd
        · exact ih _ h

/-- a static value on a path that is already taken – the node's whole input is mapped, or an
    input maps that very field – makes Compile fail -/
theorem compile_static_taken (F : SFacts) (w : SW) (hp : ∀ m ∈ w.nodes, m.pend = [])
    (n : SNode) (hn : n ∈ w.nodes) (hne : n.static.isEmpty = false)
    (ht : n.trie = .whole ∨ ∃ fs p, n.trie = .fields fs ∧ p ∈ fs ∧ p ∈ n.static.keys) :
    (compile F w).2 = none := by
  have h1 := replayAll_nopend w.compiled w.nodes hp
  have h2 := staticStep_fails F w.nodes w.pre n hn hne (add_taken _ _ ht)
  unfold compile
  dsimp only
  rw [h1]
  simp [h2]

end EinoV.Build.SV
