/-
  C10 — helper lemmas about the units of a run over the built-in components that fire their
  own callbacks (Model/C10Builtin.lean).  The source facts are hypotheses here (`bf = good`);
  Props/C10.lean instantiates them with the regenerated ones.
-/
import EinoV.Model.C10
import EinoV.Model.C10Runs
import EinoV.Model.C10Builtin
import EinoV.Proofs.C10
import EinoV.Proofs.C10Runs

namespace EinoV.C10

/-- every error / panic path of the self-firing components reports the unit's end -/
def BFacts.good : BFacts := ⟨true, true, true, true, true, true, true, true⟩

/-! ## DefaultChatTemplate.Format -/

theorem tplBody_fails (fails : List Bool) : (tplBody fails).2 = fails.any id := by
  induction fails with
  | nil => rfl
  | cons f rest ih => cases f <;> simp [tplBody, ih]

theorem tplBody_calls (fails : List Bool) :
    (tplBody fails).1 = if fails.any id then [] else [Timing.end_] := by
  induction fails with
  | nil => rfl
  | cons f rest ih => cases f <;> simp [tplBody, ih]

/-- with the deferred block seeing the returned error: start, then error iff some message
    template fails (wherever in the list), else end -/
theorem tplCalls_good (fails : List Bool) :
    tplCalls true fails = [Timing.start, if fails.any id then Timing.error else Timing.end_] := by
  unfold tplCalls
  simp only [tplBody_fails, tplBody_calls]
  cases h : fails.any id <;> simp

/-- with a deferred block that never sees the returned error a failing `Format` fires the start only -/
theorem tplCalls_blind (fails : List Bool) (hf : fails.any id = true) :
    tplCalls false fails = [Timing.start] := by
  unfold tplCalls
  simp [tplBody_calls, hf]

theorem stageCalls_good (fails : Bool) :
    stageCalls true fails = [Timing.start, if fails then Timing.error else Timing.end_] := by
  cases fails <;> rfl

theorem taskCalls_good (o : TaskOut) :
    taskCalls BFacts.good o = [Timing.start, if o.failed then Timing.error else Timing.end_] := by
  cases o <;> rfl

/-! ## every unit is paired -/

theorem paired_self_tpl (cf : CFacts) (fails : List Bool) : Paired cf (.self (tplCalls true fails)) := by
  refine ⟨.start, (if fails.any id then Timing.error else Timing.end_), ?_, rfl, ?_⟩
  · simp only [kindProg]; exact tplCalls_good fails
  · cases fails.any id <;> rfl

theorem paired_self_stage (cf : CFacts) (fails : Bool) : Paired cf (.self (stageCalls true fails)) := by
  refine ⟨.start, (if fails then Timing.error else Timing.end_), ?_, rfl, ?_⟩
  · simp only [kindProg]; exact stageCalls_good fails
  · cases fails <;> rfl

theorem paired_self_task (cf : CFacts) (o : TaskOut) : Paired cf (.self (taskCalls BFacts.good o)) := by
  refine ⟨.start, (if o.failed then Timing.error else Timing.end_), ?_, rfl, ?_⟩
  · simp only [kindProg]; exact taskCalls_good o
  · cases o <;> rfl

theorem paired_routerUnits {cf : CFacts} (hw : cf.wrapperOnErrorAlways = true) (path : List String)
    (d : RouterD) (u : UnitSpec) (hu : u ∈ routerUnits BFacts.good path d) : Paired cf u.kind := by
  unfold routerUnits at hu
  simp only [BFacts.good, Bool.not_true, Bool.and_false, Bool.false_eq_true, if_false, List.mem_cons,
    List.mem_append] at hu
  rcases hu with rfl | rfl | hu | hu
  · exact paired_wrapped hw _ _
  · exact paired_self_stage cf _
  · split at hu
    · simp only [List.mem_map] at hu
      obtain ⟨⟨i, c⟩, _, rfl⟩ := hu
      exact paired_self_task cf _
    · simp at hu
  · split at hu
    · simp only [List.mem_singleton] at hu
      subst hu
      exact paired_self_stage cf _
    · simp at hu

theorem paired_rewriteNodes {cf : CFacts} (hw : cf.wrapperOnErrorAlways = true) (chain : List String)
    (r : RewriteD) (u : UnitSpec) (hu : u ∈ rewriteNodes BFacts.good chain r) : Paired cf u.kind := by
  cases r with
  | handler f =>
    simp only [rewriteNodes, List.mem_singleton] at hu
    subst hu
    exact paired_wrapped hw _ _
  | llm tpl m p =>
    simp only [rewriteNodes, BFacts.good, List.mem_cons] at hu
    rcases hu with rfl | rfl | hu
    · exact paired_wrapped hw _ _
    · exact paired_self_tpl cf _
    · split at hu
      · simp at hu
      · simp only [List.mem_cons] at hu
        rcases hu with rfl | hu
        · exact paired_wrapped hw _ _
        · split at hu
          · simp at hu
          · simp only [List.mem_singleton] at hu
            subst hu
            exact paired_wrapped hw _ _

theorem paired_mqUnits {cf : CFacts} (hd : cf.hasDefer = true) (hs : cf.deferStarts = true)
    (hw : cf.wrapperOnErrorAlways = true) (path : List String)
    (d : MqD) (u : UnitSpec) (hu : u ∈ mqUnits BFacts.good path d) : Paired cf u.kind := by
  unfold mqUnits at hu
  simp only [List.mem_cons, List.mem_append] at hu
  rcases hu with rfl | rfl | (hu | hu) | hu
  · exact paired_wrapped hw _ _
  · exact paired_graph hd hs _ _
  · exact paired_rewriteNodes hw _ _ u hu
  · split at hu
    · simp at hu
    · simp only [List.mem_map] at hu
      obtain ⟨⟨i, q⟩, _, rfl⟩ := hu
      exact paired_self_task cf _
  · split at hu
    · simp only [List.mem_singleton] at hu
      subst hu
      exact paired_self_stage cf _
    · simp at hu

theorem paired_bNodeUnits {cf : CFacts} (hd : cf.hasDefer = true) (hs : cf.deferStarts = true)
    (hw : cf.wrapperOnErrorAlways = true) (pre : List String) (n : BNode) (u : UnitSpec)
    (hu : u ∈ bNodeUnits BFacts.good pre n) : Paired cf u.kind := by
  cases n with
  | tpl key fs =>
    simp only [bNodeUnits, List.mem_singleton] at hu
    subst hu
    exact paired_self_tpl cf _
  | router key d => exact paired_routerUnits hw _ d u hu
  | mq key d => exact paired_mqUnits hd hs hw _ d u hu
  | lam key f =>
    simp only [bNodeUnits, List.mem_singleton] at hu
    subst hu
    exact paired_wrapped hw _ _

theorem paired_bLevelUnits {cf : CFacts} (hd : cf.hasDefer = true) (hs : cf.deferStarts = true)
    (hw : cf.wrapperOnErrorAlways = true) (pre : List String) (ns : List BNode) (u : UnitSpec)
    (hu : u ∈ bLevelUnits BFacts.good pre ns) : Paired cf u.kind := by
  simp only [bLevelUnits, List.mem_append, List.mem_flatMap] at hu
  rcases hu with ⟨n, _, hn⟩ | hj
  · exact paired_bNodeUnits hd hs hw _ n u hn
  · split at hj
    · simp at hj
    · simp only [List.mem_singleton] at hj
      subst hj
      exact paired_wrapped hw _ _

theorem paired_bUnits {cf : CFacts} (hd : cf.hasDefer = true) (hs : cf.deferStarts = true)
    (hw : cf.wrapperOnErrorAlways = true) (sh : BShape) (u : UnitSpec)
    (hu : u ∈ bUnits BFacts.good sh) : Paired cf u.kind := by
  simp only [bUnits, List.mem_cons, List.mem_append, List.mem_flatMap] at hu
  rcases hu with rfl | ⟨n, _, hn⟩ | hj
  · exact paired_graph hd hs _ _
  · cases n with
    | node n => exact paired_bNodeUnits hd hs hw _ n u hn
    | sub key ns =>
      simp only [bTopUnits, List.mem_cons] at hn
      rcases hn with rfl | hn
      · exact paired_graph hd hs _ _
      · exact paired_bLevelUnits hd hs hw _ ns u hn
  · split at hj
    · simp at hj
    · simp only [List.mem_singleton] at hj
      subst hj
      exact paired_wrapped hw _ _

/-! ## a failing template node reports an error, a formatting one an end -/

theorem tpl_unit_end (pre : List String) (key : String) (fails : List Bool) (u : UnitSpec)
    (hu : u ∈ bNodeUnits BFacts.good pre (.tpl key fails)) :
    u.kind = .self [Timing.start, if fails.any id then Timing.error else Timing.end_] := by
  simp only [bNodeUnits, List.mem_singleton] at hu
  subst hu
  simp only [BFacts.good, tplCalls_good]

/-! ## the program of a unit of a compose case -/

theorem mkUnit_prog (cf : CFacts) (c : Case) (root : UnitDecl) (shift : Nat) (u : UnitSpec) :
    (mkUnit cf c root shift u).prog = kindProg cf u.kind := by
  unfold mkUnit
  split <;> rfl

theorem unitProg_progOf (cf : CFacts) (c : Case) (k : Nat) (u : UnitSpec)
    (hu : c.units[k]? = some u) : unitProg (progOf cf c) (k + shiftOf c) = kindProg cf u.kind := by
  unfold progOf shiftOf unitProg
  cases hui : c.userInit with
  | none => simp [List.getElem?_map, hu, mkUnit_prog]
  | some p => simp [List.getElem?_map, hu, mkUnit_prog]

end EinoV.C10
