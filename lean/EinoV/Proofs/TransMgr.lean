/-
  Refinement: the code translated from compose/graph_manager.go (Gen/TransMgr.lean, regenerated from
  /repo on every run: the interface `channel` as a sum of `dagChannel | pregelChannel` with generated
  dispatch functions, and `channelManager.{updateValues, updateDependencies, getFromReadyChannels,
  updateAndGet, reportBranch}`) computes what the channel manager of `Model/Engine.lean` computes
  (`updateValues`, `updateDeps`, `getReady`, `reportBranch`).
-/
import EinoV.Gen.TransMgr
import EinoV.Proofs.TransDag
import EinoV.Proofs.TransPregel
import EinoV.Proofs.GoLoop
import EinoV.Proofs.GoLoopMgr
import EinoV.Proofs.Assoc
import EinoV.Proofs.GoWorkList
namespace EinoV.TransMgr
open EinoV.GoSem EinoV.Engine EinoV.Gen.TransC02 EinoV.Gen.TransC01 EinoV.Gen.TransMgr EinoV.GoWorkList

variable {V : Type} [Inhabited V]
set_option linter.unusedSectionVars false

/-! ### the interface `channel`: a translated channel of either kind as the model's channel -/

/-- the model's channel for a value of the interface type -/
def chanOf : channel V → Chan V
  | .of_dagChannel x => TransDag.toChan x
  | .of_pregelChannel x => TransPregel.toChan x

/-- the dynamic type: all-predecessor (`dagChannel`) or any-predecessor (`pregelChannel`) -/
def isDag : channel V → Bool
  | .of_dagChannel _ => true
  | .of_pregelChannel _ => false

/-- one entry per predecessor (what `dagChannelBuilder` builds; nothing to say about a pregelChannel) -/
def ChWF : channel V → Prop
  | .of_dagChannel x => TransDag.WF x
  | .of_pregelChannel _ => True

theorem ch_reportValues (ext : Ext V) (ch : channel V) (ins : GoMap V) :
    chanOf (channel_reportValues ext ch ins).1 = (chanOf ch).reportValues (isDag ch) ins ∧
    (channel_reportValues ext ch ins).2 = none ∧
    isDag (channel_reportValues ext ch ins).1 = isDag ch := by
  cases ch with
  | of_dagChannel x =>
    obtain ⟨h1, h2⟩ := TransDag.reportValues_refines ext x ins
    exact ⟨h1, h2, rfl⟩
  | of_pregelChannel x =>
    obtain ⟨h1, h2⟩ := TransPregel.reportValues_refines ext x ins
    exact ⟨h1, h2, rfl⟩

theorem ch_reportDependencies (ext : Ext V) (ch : channel V) (deps : List String) :
    chanOf (channel_reportDependencies ext ch deps) = (chanOf ch).reportDeps (isDag ch) deps ∧
    isDag (channel_reportDependencies ext ch deps) = isDag ch := by
  cases ch with
  | of_dagChannel x => exact ⟨TransDag.reportDependencies_refines ext x deps, rfl⟩
  | of_pregelChannel x => exact ⟨TransPregel.reportDependencies_refines ext x deps, rfl⟩

theorem ch_reportSkip (ext : Ext V) (ch : channel V) (keys : List String) :
    (chanOf (channel_reportSkip ext ch keys).1, (channel_reportSkip ext ch keys).2)
      = (chanOf ch).reportSkip (isDag ch) keys ∧
    isDag (channel_reportSkip ext ch keys).1 = isDag ch := by
  cases ch with
  | of_dagChannel x => exact ⟨TransDag.reportSkip_refines ext x keys, rfl⟩
  | of_pregelChannel x => exact ⟨TransPregel.reportSkip_refines ext x keys, rfl⟩

/-- `Chan.get` in any-predecessor mode does not look at the zero value -/
theorem get_false_zero (ops : ValOps V) (z : V) (c : Chan V) :
    c.get { ops with zero := z } false = c.get ops false := by
  unfold Chan.get
  simp only [Bool.false_eq_true, if_false]
  rcases hv : c.values.map (·.2) with _ | ⟨a, _ | ⟨b, rest⟩⟩ <;> simp [collect]

theorem ch_get (ops : ValOps V) (es : V) (ch : channel V) (isStream : Bool) (h : ChWF ch) :
    chanOf (channel_get (TransDag.extOf ops es) ch isStream).1
      = ((chanOf ch).get (TransDag.opsFor ops es isStream) (isDag ch)).1 ∧
    TransDag.getResult (channel_get (TransDag.extOf ops es) ch isStream).2
      = ((chanOf ch).get (TransDag.opsFor ops es isStream) (isDag ch)).2 ∧
    isDag (channel_get (TransDag.extOf ops es) ch isStream).1 = isDag ch := by
  cases ch with
  | of_dagChannel x =>
    obtain ⟨h1, h2⟩ := TransDag.get_refines ops es x isStream h
    exact ⟨h1, h2, rfl⟩
  | of_pregelChannel x =>
    obtain ⟨h1, h2⟩ := TransPregel.get_refines ops es x isStream
    have e : (TransPregel.toChan x).get (TransDag.opsFor ops es isStream) false = (TransPregel.toChan x).get ops false :=
      get_false_zero ops _ _
    refine ⟨?_, ?_, rfl⟩
    · show TransPregel.toChan _ = _
      simp only [chanOf, isDag]; rw [e]; exact h1
    · simp only [chanOf, isDag]; rw [e]; exact h2

theorem ch_ops_keep_wf (ext : Ext V) (ch : channel V) (h : ChWF ch) :
    (∀ ins, ChWF (channel_reportValues ext ch ins).1) ∧
    (∀ deps, ChWF (channel_reportDependencies ext ch deps)) ∧
    (∀ keys, ChWF (channel_reportSkip ext ch keys).1) := by
  cases ch with
  | of_dagChannel x =>
    exact ⟨fun ins => TransDag.reportValues_wf ext x ins h, fun d => TransDag.reportDependencies_wf ext x d h,
      fun k => TransDag.reportSkip_wf ext x k h⟩
  | of_pregelChannel x => exact ⟨fun _ => trivial, fun _ => trivial, fun _ => trivial⟩

/-! ### the map of channels -/

def toChans (m : GoMap (channel V)) : Chans V := m.map (fun p => (p.1, chanOf p.2))

open TransDag (KeysNodup)

theorem akeys_toChans (m : GoMap (channel V)) : akeys (toChans m) = m.map (·.1) := by
  simp [akeys, toChans, List.map_map, Function.comp]

theorem alookup_toChans (m : GoMap (channel V)) (k : Key) :
    alookup k (toChans m) = (alookup k m).map chanOf := by
  induction m with
  | nil => rfl
  | cons p m ih =>
    obtain ⟨k', v⟩ := p
    simp only [toChans, List.map_cons, alookup] at ih ⊢
    by_cases h : (k' == k) = true
    · simp [h]
    · simp only [h, Bool.false_eq_true, if_false]; exact ih

theorem modChan_not_mem (cm : Chans V) (k : Key) (f : Chan V → Chan V) (h : k ∉ akeys cm) :
    modChan cm k f = cm := by
  induction cm with
  | nil => rfl
  | cons p cm ih =>
    simp only [akeys, List.map_cons, List.mem_cons, not_or] at h
    have hp : (p.1 == k) = false := by simpa using fun e => h.1 e.symm
    simp only [modChan, List.map_cons, hp, Bool.false_eq_true, if_false, List.cons.injEq, true_and]
    exact ih (by simpa [akeys] using h.2)

/-- writing a mutated object back into a map with one entry per key is the model's `modChan` -/
theorem toChans_set (m : GoMap (channel V)) (k : Key) (v v' : channel V) (f : Chan V → Chan V)
    (hnd : KeysNodup m) (hl : alookup k m = some v) (hf : chanOf v' = f (chanOf v)) :
    toChans (m.set k v') = modChan (toChans m) k f := by
  induction m with
  | nil => simp [alookup] at hl
  | cons p m ih =>
    obtain ⟨k', v0⟩ := p
    unfold KeysNodup at hnd
    simp only [List.map_cons, List.nodup_cons] at hnd
    by_cases h : (k' == k) = true
    · have e : k' = k := by simpa using h
      simp only [alookup, h, if_true, Option.some.injEq] at hl
      subst hl; subst e
      have hm : k' ∉ akeys (toChans m) := by rw [akeys_toChans]; exact hnd.1
      simp only [GoMap.set, aset, h, if_true, toChans, List.map_cons, modChan, hf]
      have := modChan_not_mem (toChans m) k' f hm
      simp only [toChans, modChan] at this
      rw [this]
    · have h' : (k' == k) = false := by simpa using h
      simp only [alookup, h', Bool.false_eq_true, if_false] at hl
      have := ih hnd.2 hl
      simp only [GoMap.set, toChans, modChan] at this
      simp only [GoMap.set, aset, h', Bool.false_eq_true, if_false, toChans, List.map_cons, modChan, List.cons.injEq,
        true_and]
      exact this

theorem keys_set (m : GoMap (channel V)) (k : Key) (v v' : channel V) (hl : alookup k m = some v) :
    (m.set k v').map (·.1) = m.map (·.1) :=
  TransDag.aset_keys_of_has m k v' (by simp [GoMap.has, hl])

theorem mem_set (m : GoMap (channel V)) (k : Key) (v' : channel V) (q : Key × channel V)
    (hq : q ∈ m.set k v') : q ∈ m ∨ q = (k, v') := by
  induction m with
  | nil => simp [GoMap.set, aset] at hq; exact Or.inr hq
  | cons p m ih =>
    obtain ⟨k', v0⟩ := p
    by_cases h : (k' == k) = true
    · simp only [GoMap.set, aset, h, if_true, List.mem_cons] at hq
      rcases hq with hq | hq
      · exact Or.inr hq
      · exact Or.inl (List.mem_cons_of_mem _ hq)
    · have h' : (k' == k) = false := by simpa using h
      simp only [GoMap.set, aset, h', Bool.false_eq_true, if_false, List.mem_cons] at hq
      rcases hq with hq | hq
      · exact Or.inl (hq ▸ List.mem_cons_self ..)
      · rcases ih hq with h1 | h1
        · exact Or.inl (List.mem_cons_of_mem _ h1)
        · exact Or.inr h1

theorem mem_of_alookup' {α} (m : GoMap α) (k : Key) (v : α) (h : alookup k m = some v) : (k, v) ∈ m := by
  induction m with
  | nil => simp [alookup] at h
  | cons p m ih =>
    obtain ⟨k', v0⟩ := p
    by_cases hk : (k' == k) = true
    · have e : k' = k := by simpa using hk
      simp only [alookup, hk, if_true, Option.some.injEq] at h
      subst h; subst e; exact List.mem_cons_self ..
    · have h' : (k' == k) = false := by simpa using hk
      simp only [alookup, h', Bool.false_eq_true, if_false] at h
      exact List.mem_cons_of_mem _ (ih h)

/-! ### the channel manager and the model's runner -/

/-- the static tables of the translated manager say what the model's runner says:
    `dataPredecessors` / `controlPredecessors` (sets) are the runner's predecessor lists, `successors` is
    `getSuccessors` of every node, and every channel is of the runner's kind (`chanBuilder`) -/
structure Rel (r : Runner V) (c : channelManager V) : Prop where
  data : ∀ t f, (c.dataPredecessors.getD' t []).has f = (lookupList t r.dataPreds).contains f
  ctrl : ∀ t f, (c.controlPredecessors.getD' t []).has f = (lookupList t r.ctrlPreds).contains f
  succ : ∀ k, alookup k c.successors = (r.node? k).map Node.successors
  mode : ∀ p ∈ c.channels, isDag p.2 = r.dag

/-- what the translated functions leave unchanged, and the shape of the channel map -/
structure Frame (c c' : channelManager V) : Prop where
  isStream : c'.isStream = c.isStream
  successors : c'.successors = c.successors
  dataP : c'.dataPredecessors = c.dataPredecessors
  ctrlP : c'.controlPredecessors = c.controlPredecessors
  keys : c'.channels.map (·.1) = c.channels.map (·.1)

theorem Frame.refl (c : channelManager V) : Frame c c := ⟨rfl, rfl, rfl, rfl, rfl⟩

theorem Frame.trans {a b c : channelManager V} (h1 : Frame a b) (h2 : Frame b c) : Frame a c :=
  ⟨h2.isStream.trans h1.isStream, h2.successors.trans h1.successors, h2.dataP.trans h1.dataP,
   h2.ctrlP.trans h1.ctrlP, h2.keys.trans h1.keys⟩

/-- the invariant of the channel map: one entry per key, every channel of the runner's kind and well formed -/
structure ChansOK (dag : Bool) (m : GoMap (channel V)) : Prop where
  nd : KeysNodup m
  mode : ∀ p ∈ m, isDag p.2 = dag
  wf : ∀ p ∈ m, ChWF p.2

theorem has_of_keys {α β} (m : GoMap α) (m' : GoMap β) (h : m'.map (·.1) = m.map (·.1)) (k : Key) :
    m'.has k = m.has k := by
  induction m generalizing m' with
  | nil => cases m' <;> simp_all [GoMap.has, alookup]
  | cons p m ih =>
    cases m' with
    | nil => simp at h
    | cons p' m' =>
      simp only [List.map_cons, List.cons.injEq] at h
      simp only [GoMap.has, alookup, h.1]
      by_cases hk : (p.1 == k) = true
      · simp [hk]
      · simp only [hk, Bool.false_eq_true, if_false]; exact ih m' h.2

/-- one step of the channel loops: a method call through the reference `c.channels[k]` -/
theorem ChansOK.set {dag : Bool} {m : GoMap (channel V)} (h : ChansOK dag m) (k : Key) (v v' : channel V)
    (hl : alookup k m = some v) (hm : isDag v' = isDag v) (hw : ChWF v → ChWF v') : ChansOK dag (m.set k v') := by
  have hv : (k, v) ∈ m := mem_of_alookup' m k v hl
  refine ⟨?_, ?_, ?_⟩
  · unfold KeysNodup; rw [keys_set m k v v' hl]; exact h.nd
  · intro q hq
    rcases mem_set m k v' q hq with h1 | h1
    · exact h.mode q h1
    · rw [h1]; show isDag v' = dag; rw [hm]; exact h.mode _ hv
  · intro q hq
    rcases mem_set m k v' q hq with h1 | h1
    · exact h.wf q h1
    · rw [h1]; exact hw (h.wf _ hv)

/-! ### `updateDependencies` -/

theorem getD'_of_not_has {α} (m : GoMap (List α)) (k : Key) (h : m.has k = false) : m.getD' k [] = [] := by
  unfold GoMap.has at h; unfold GoMap.getD'
  cases hl : alookup k m with
  | none => rfl
  | some v => simp [hl] at h

theorem updateDependencies_refines (ext : Ext V) (mext : MgrExt V) (r : Runner V) (c : channelManager V)
    (deps : GoMap (List String)) (hrel : Rel r c) (hok : ChansOK r.dag c.channels)
    (hpres : ∀ d ∈ deps, c.channels.has d.1 = true) :
    ∃ c', channelManager_updateDependencies ext mext c deps = .ret (c', none) ∧
      toChans c'.channels = updateDeps r (toChans c.channels) deps ∧
      Frame c c' ∧ ChansOK r.dag c'.channels := by
  unfold channelManager_updateDependencies updateDeps
  simp only [forIn_id, Id.run, bind, pure]
  generalize hbody : (fun (x : String × List String) (__s : Option (MayPanic (channelManager V × Option GoErr)) × channelManager V) => _) = body
  have key := goLoop_fold_inv
    (P := fun (b : Option (MayPanic (channelManager V × Option GoErr)) × channelManager V) =>
      b.1 = none ∧ Frame c b.2 ∧ ChansOK r.dag b.2.channels)
    (Q := fun (d : String × List String) => c.channels.has d.1 = true)
    (h := fun b => toChans b.2.channels) body
    (fun cm (d : Key × List Key) =>
      modChan cm d.1 (fun ch => ch.reportDeps r.dag (d.2.filter (lookupList d.1 r.ctrlPreds).contains)))
    ?_ deps hpres (none, c) ⟨rfl, Frame.refl c, hok⟩
  · obtain ⟨⟨h1, h2, h3⟩, h4⟩ := key
    refine ⟨(goLoop body deps (none, c)).2, ?_, h4, h2, h3⟩
    rw [h1]
  · rintro ⟨t, ds⟩ ⟨o, c1⟩ hq ⟨ho, hfr, hok1⟩
    simp only at ho hq; subst ho
    rw [← hbody]
    have hhas : c1.channels.has t = true := by rw [has_of_keys c.channels c1.channels hfr.keys]; exact hq
    obtain ⟨v, hv⟩ : ∃ v, alookup t c1.channels = some v := by
      unfold GoMap.has at hhas
      cases hl : alookup t c1.channels with
      | none => simp [hl] at hhas
      | some v => exact ⟨v, rfl⟩
    have hcp : ∀ f, (c1.controlPredecessors.getD' t []).has f = (lookupList t r.ctrlPreds).contains f := by
      intro f; rw [hfr.ctrlP]; exact hrel.ctrl t f
    have hfilt : ∀ l : List String, l.filter (fun f => (c1.controlPredecessors.getD' t []).has f)
        = l.filter (lookupList t r.ctrlPreds).contains := by
      intro l; apply List.filter_congr; intro f _; exact hcp f
    have hmode : isDag v = r.dag := hok1.mode _ (mem_of_alookup' _ _ _ hv)
    have step : ∀ dl : List String, dl = ds.filter (lookupList t r.ctrlPreds).contains →
        (fun (b : Option (MayPanic (channelManager V × Option GoErr)) × channelManager V) =>
            b.1 = none ∧ Frame c b.2 ∧ ChansOK r.dag b.2.channels)
          (none, { c1 with channels := c1.channels.set t (channel_reportDependencies ext v dl) }) ∧
        toChans (c1.channels.set t (channel_reportDependencies ext v dl)) =
          modChan (toChans c1.channels) t (fun ch => ch.reportDeps r.dag (ds.filter (lookupList t r.ctrlPreds).contains)) := by
      intro dl hdl
      obtain ⟨e1, e2⟩ := ch_reportDependencies ext v dl
      refine ⟨⟨rfl, ⟨hfr.isStream, hfr.successors, hfr.dataP, hfr.ctrlP, ?_⟩, ?_⟩, ?_⟩
      · show (c1.channels.set t _).map (·.1) = _
        rw [keys_set _ _ v _ hv]; exact hfr.keys
      · exact hok1.set t v _ hv e2 (fun hw => (ch_ops_keep_wf ext v hw).2.1 dl)
      · exact toChans_set _ t v _ _ hok1.nd hv (by rw [e1, hmode, hdl])
    simp only [hhas, Bool.not_true, Bool.false_eq_true, if_false, GoMap.get?, hv]
    by_cases hc : c1.controlPredecessors.has t = true
    · simp only [hc, Bool.not_true, Bool.false_eq_true, if_false, goLoop_filter_snd, List.nil_append]
      obtain ⟨s1, s2⟩ := step _ (hfilt ds)
      exact ⟨_, rfl, s1, s2⟩
    · have hc' : c1.controlPredecessors.has t = false := by simpa using hc
      simp only [hc', Bool.not_false, if_true, goLoop_filter_snd, List.nil_append]
      have hempty : ds.filter (fun f => GoMap.has ([] : GoMap Unit) f) = ds.filter (lookupList t r.ctrlPreds).contains := by
        rw [← hfilt ds, getD'_of_not_has _ _ hc']
      obtain ⟨s1, s2⟩ := step _ hempty
      exact ⟨_, rfl, s1, s2⟩

/-! ### `updateValues` -/

/-- the handler managers of a graph without handlers: the value unchanged, no error -/
def NoHandlers (mext : MgrExt V) : Prop :=
  (∀ f t v s, mext.edgeHandle f t v s = (v, none)) ∧ (∀ t v s, mext.preNodeHandle t v s = (v, none))

theorem updateValues_refines (ext : Ext V) (mext : MgrExt V) (r : Runner V) (c : channelManager V)
    (values : GoMap (GoMap V)) (hrel : Rel r c) (hok : ChansOK r.dag c.channels) (hE : NoHandlers mext)
    (hpres : ∀ w ∈ values, c.channels.has w.1 = true) (hmaps : ∀ w ∈ values, KeysNodup w.2) :
    ∃ c', channelManager_updateValues ext mext c values = .ret (c', none) ∧
      toChans c'.channels = updateValues r (toChans c.channels) values ∧
      Frame c c' ∧ ChansOK r.dag c'.channels := by
  unfold channelManager_updateValues updateValues
  simp only [forIn_id, Id.run, bind, pure]
  generalize hbody : (fun (x : String × GoMap V) (__s : Option (MayPanic (channelManager V × Option GoErr)) × channelManager V) => _) = body
  have key := goLoop_fold_inv
    (P := fun (b : Option (MayPanic (channelManager V × Option GoErr)) × channelManager V) =>
      b.1 = none ∧ Frame c b.2 ∧ ChansOK r.dag b.2.channels)
    (Q := fun (w : String × GoMap V) => c.channels.has w.1 = true ∧ KeysNodup w.2)
    (h := fun b => toChans b.2.channels) body
    (fun cm (w : Key × List (Key × V)) =>
      modChan cm w.1 (fun ch => ch.reportValues r.dag
        (w.2.filter (fun kv => (lookupList w.1 r.dataPreds).contains kv.1))))
    ?_ values (fun w hw => ⟨hpres w hw, hmaps w hw⟩) (none, c) ⟨rfl, Frame.refl c, hok⟩
  · obtain ⟨⟨h1, h2, h3⟩, h4⟩ := key
    refine ⟨(goLoop body values (none, c)).2, ?_, h4, h2, h3⟩
    rw [h1]
  · rintro ⟨t, fm⟩ ⟨o, c1⟩ ⟨hq, hfm⟩ ⟨ho, hfr, hok1⟩
    simp only at ho hq hfm; subst ho
    rw [← hbody]
    have hhas : c1.channels.has t = true := by rw [has_of_keys c.channels c1.channels hfr.keys]; exact hq
    obtain ⟨v, hv⟩ : ∃ v, alookup t c1.channels = some v := by
      unfold GoMap.has at hhas
      cases hl : alookup t c1.channels with
      | none => simp [hl] at hhas
      | some v => exact ⟨v, rfl⟩
    have hdp : ∀ f, (c1.dataPredecessors.getD' t []).has f = (lookupList t r.dataPreds).contains f := by
      intro f; rw [hfr.dataP]; exact hrel.data t f
    have hfilt : fm.filter (fun kv => (c1.dataPredecessors.getD' t []).has kv.1)
        = fm.filter (fun kv => (lookupList t r.dataPreds).contains kv.1) := by
      apply List.filter_congr; intro kv _; exact hdp kv.1
    have hmode : isDag v = r.dag := hok1.mode _ (mem_of_alookup' _ _ _ hv)
    have step : ∀ ins : GoMap V, ins = fm.filter (fun kv => (lookupList t r.dataPreds).contains kv.1) →
        (fun (b : Option (MayPanic (channelManager V × Option GoErr)) × channelManager V) =>
            b.1 = none ∧ Frame c b.2 ∧ ChansOK r.dag b.2.channels)
          (none, { c1 with channels := c1.channels.set t (channel_reportValues ext v ins).1 }) ∧
        toChans (c1.channels.set t (channel_reportValues ext v ins).1) =
          modChan (toChans c1.channels) t (fun ch => ch.reportValues r.dag
            (fm.filter (fun kv => (lookupList t r.dataPreds).contains kv.1))) := by
      intro ins hins
      obtain ⟨e1, _, e2⟩ := ch_reportValues ext v ins
      refine ⟨⟨rfl, ⟨hfr.isStream, hfr.successors, hfr.dataP, hfr.ctrlP, ?_⟩, ?_⟩, ?_⟩
      · show (c1.channels.set t _).map (·.1) = _
        rw [keys_set _ _ v _ hv]; exact hfr.keys
      · exact hok1.set t v _ hv e2 (fun hw => (ch_ops_keep_wf ext v hw).1 ins)
      · exact toChans_set _ t v _ _ hok1.nd hv (by rw [e1, hmode, hins])
    have hnd0 : ((([] : GoMap V) ++ fm).map (·.1)).Nodup := by simpa [KeysNodup] using hfm
    simp only [hhas, Bool.not_true, Bool.false_eq_true, if_false, GoMap.get?, hv, hE.1, Option.isSome_none]
    by_cases hc : c1.dataPredecessors.has t = true
    · simp only [hc, Bool.not_true, Bool.false_eq_true, if_false]
      rw [goLoop_set_filter (fun x => (c1.dataPredecessors.getD' t []).has x.1) _ fm _ [] hnd0]
      simp only [List.nil_append, (ch_reportValues ext v _).2.1, Option.isSome_none, Bool.false_eq_true, if_false]
      obtain ⟨s1, s2⟩ := step _ hfilt
      exact ⟨_, rfl, s1, s2⟩
    · have hc' : c1.dataPredecessors.has t = false := by simpa using hc
      simp only [hc', Bool.not_false, if_true]
      rw [goLoop_set_filter (fun x => GoMap.has ([] : GoMap Unit) x.1) _ fm _ [] hnd0]
      simp only [List.nil_append, (ch_reportValues ext v _).2.1, Option.isSome_none, Bool.false_eq_true, if_false]
      have hempty : fm.filter (fun x => GoMap.has ([] : GoMap Unit) x.1)
          = fm.filter (fun kv => (lookupList t r.dataPreds).contains kv.1) := by
        rw [← hfilt, getD'_of_not_has _ _ hc']
      obtain ⟨s1, s2⟩ := step _ hempty
      exact ⟨_, rfl, s1, s2⟩

/-! ### `getFromReadyChannels` -/

/-- what the Go loop of `getFromReadyChannels` computes when no `get` fails -/
def goOuts (ext : Ext V) (s : Bool) (l : GoMap (channel V)) : GoMap V :=
  l.filterMap (fun p => if (channel_get ext p.2 s).2.2.1 then some (p.1, (channel_get ext p.2 s).2.1) else none)

def goGets (ext : Ext V) (s : Bool) (l : GoMap (channel V)) : GoMap (channel V) :=
  l.map (fun p => (p.1, (channel_get ext p.2 s).1))

def goNoErr (ext : Ext V) (s : Bool) (l : GoMap (channel V)) : Bool :=
  l.all (fun p => (channel_get ext p.2 s).2.2.2.isNone)

theorem goOuts_keys (ext : Ext V) (s : Bool) (l : GoMap (channel V)) (k : Key)
    (h : k ∈ (goOuts ext s l).map (·.1)) : k ∈ l.map (·.1) := by
  induction l with
  | nil => simp [goOuts] at h
  | cons p l ih =>
    simp only [goOuts, List.filterMap_cons] at h
    split at h
    · exact List.mem_cons_of_mem _ (ih h)
    · rename_i heq
      split at heq
      · simp only [Option.some.injEq] at heq; subst heq
        simp only [List.map_cons, List.mem_cons] at h ⊢
        rcases h with h | h
        · exact Or.inl h
        · exact Or.inr (ih h)
      · cases heq

theorem getFromReady_loop (ext : Ext V) (s : Bool)
    (body : String × channel V → Option (channelManager V × GoMap V × Option GoErr) × channelManager V × GoMap V →
      ForInStep (Option (channelManager V × GoMap V × Option GoErr) × channelManager V × GoMap V))
    (hbody : ∀ x st, body x st =
      if (channel_get ext x.snd st.snd.fst.isStream).snd.snd.snd.isSome = true then
        ForInStep.done (some ({ st.2.1 with channels := st.2.1.channels.set x.1 (channel_get ext x.2 st.2.1.isStream).1 },
          [], some (GoErr.mk "get value from ready channel[%s] fail: %w")),
          { st.2.1 with channels := st.2.1.channels.set x.1 (channel_get ext x.2 st.2.1.isStream).1 }, st.2.2)
      else if (channel_get ext x.snd st.snd.fst.isStream).snd.snd.fst = true then
        ForInStep.yield (none, { st.2.1 with channels := st.2.1.channels.set x.1 (channel_get ext x.2 st.2.1.isStream).1 },
          st.2.2.set x.1 (channel_get ext x.snd st.snd.fst.isStream).snd.fst)
      else ForInStep.yield (none, { st.2.1 with channels := st.2.1.channels.set x.1 (channel_get ext x.2 st.2.1.isStream).1 }, st.2.2)) :
    ∀ (l pre : GoMap (channel V)) (c1 : channelManager V) (res : GoMap V),
      c1.isStream = s → c1.channels = pre ++ l → KeysNodup (pre ++ l) → (∀ k ∈ res.map (·.1), k ∈ pre.map (·.1)) →
      (goNoErr ext s l = true →
        goLoop body l (none, c1, res) = (none, { c1 with channels := pre ++ goGets ext s l }, res ++ goOuts ext s l)) ∧
      (goNoErr ext s l = false →
        ∃ x cf rf, goLoop body l (none, c1, res) = (some x, cf, rf) ∧ x.2.2.isSome = true ∧ x.2.1 = []) := by
  intro l
  induction l with
  | nil =>
    intro pre c1 res hs hc _ _
    refine ⟨fun _ => ?_, fun h => by simp [goNoErr] at h⟩
    simp only [List.append_nil] at hc
    simp only [goLoop, goGets, goOuts, List.map_nil, List.filterMap_nil, List.append_nil, ← hc]
  | cons p l ih =>
    intro pre c1 res hs hc hnd hres
    subst hs
    obtain ⟨k, ch⟩ := p
    have hfresh : k ∉ pre.map (·.1) := by
      unfold KeysNodup at hnd
      simp only [List.map_append, List.map_cons, List.nodup_append, List.mem_cons] at hnd
      intro hm; exact (hnd.2.2 k hm k (Or.inl rfl)) rfl
    have hset : ∀ ch', (c1.channels.set k ch') = (pre ++ [(k, ch')]) ++ l := by
      intro ch'; rw [hc]; simp only [GoMap.set]
      rw [TransDag.aset_append_fresh pre k ch ch' l hfresh]; simp
    have hnd' : ∀ ch', KeysNodup ((pre ++ [(k, ch')]) ++ l) := by
      intro ch'; unfold KeysNodup at hnd ⊢; simpa [List.map_append] using hnd
    have hresk : k ∉ akeys res := fun hm => hfresh (hres k hm)
    simp only [goLoop, hbody]
    by_cases herr : (channel_get ext ch c1.isStream).2.2.2.isSome = true
    · have hne : goNoErr ext c1.isStream ((k, ch) :: l) = false := by
        simp only [goNoErr, List.all_cons]
        cases h : (channel_get ext ch c1.isStream).2.2.2 <;> simp_all
      simp only [herr, if_true, hne]
      exact ⟨fun h => (by cases h), fun _ => ⟨_, _, _, rfl, rfl, rfl⟩⟩
    · have herr' : (channel_get ext ch c1.isStream).2.2.2.isNone = true := by
        cases h : (channel_get ext ch c1.isStream).2.2.2 <;> simp_all
      have hne : goNoErr ext c1.isStream ((k, ch) :: l) = goNoErr ext c1.isStream l := by
        simp only [goNoErr, List.all_cons, herr', Bool.true_and]
      rw [hne]
      simp only [herr, Bool.false_eq_true, if_false]
      by_cases hr : (channel_get ext ch c1.isStream).2.2.1 = true
      · simp only [hr, if_true]
        have := ih (pre ++ [(k, (channel_get ext ch c1.isStream).1)])
          { c1 with channels := c1.channels.set k (channel_get ext ch c1.isStream).1 }
          (res.set k (channel_get ext ch c1.isStream).2.1) rfl (hset _) (hnd' _)
          (by
            intro k' hk'
            simp only [GoMap.set, aset_append_new _ _ _ hresk, List.map_append, List.map_cons, List.map_nil,
              List.mem_append, List.mem_singleton] at hk' ⊢
            rcases hk' with hk' | hk'
            · exact Or.inl (hres k' hk')
            · exact Or.inr hk')
        refine ⟨fun h => ?_, fun h => this.2 h⟩
        rw [this.1 h]
        simp [goGets, goOuts, hr, GoMap.set, aset_append_new _ _ _ hresk]
      · simp only [hr, Bool.false_eq_true, if_false]
        have := ih (pre ++ [(k, (channel_get ext ch c1.isStream).1)])
          { c1 with channels := c1.channels.set k (channel_get ext ch c1.isStream).1 }
          res rfl (hset _) (hnd' _)
          (by
            intro k' hk'
            simp only [List.map_append, List.mem_append]
            exact Or.inl (hres k' hk'))
        refine ⟨fun h => ?_, fun h => this.2 h⟩
        rw [this.1 h]
        simp [goGets, goOuts, hr]
theorem getReady_link (ops : ValOps V) (es : V) (s : Bool) (dag : Bool) (l : GoMap (channel V))
    (hl : ∀ p ∈ l, ChWF p.2 ∧ isDag p.2 = dag) :
    toChans (goGets (TransDag.extOf ops es) s l) = (getReady (TransDag.opsFor ops es s) dag (toChans l)).1 ∧
    goNoErr (TransDag.extOf ops es) s l = !(getReady (TransDag.opsFor ops es s) dag (toChans l)).2.2 ∧
    (goNoErr (TransDag.extOf ops es) s l = true →
      goOuts (TransDag.extOf ops es) s l = (getReady (TransDag.opsFor ops es s) dag (toChans l)).2.1) := by
  induction l with
  | nil => simp [goGets, goNoErr, goOuts, toChans, getReady]
  | cons p l ih =>
    obtain ⟨k, ch⟩ := p
    obtain ⟨i1, i2, i3⟩ := ih (fun q hq => hl q (List.mem_cons_of_mem _ hq))
    obtain ⟨hw, hm⟩ := hl (k, ch) (List.mem_cons_self ..)
    simp only at hw hm
    obtain ⟨g1, g2, _⟩ := ch_get ops es ch s hw
    rw [hm] at g1 g2
    simp only [toChans, List.map_cons, getReady] at i1 i2 i3 ⊢
    simp only [goGets, goNoErr, goOuts, List.map_cons, List.all_cons, List.filterMap_cons] at i1 i2 i3 ⊢
    generalize hg : (chanOf ch).get (TransDag.opsFor ops es s) dag = g at g1 g2
    generalize hr : channel_get (TransDag.extOf ops es) ch s = rr at g1 g2
    obtain ⟨c', gr⟩ := g
    obtain ⟨rc, rv, rready, rerr⟩ := rr
    simp only at g1 g2
    subst g1
    simp only [TransDag.getResult] at g2
    cases rerr with
    | some e =>
      simp only [Option.isSome_some, if_true] at g2
      subst g2
      simp [i1]
    | none =>
      simp only [Option.isSome_none, Bool.false_eq_true, if_false] at g2
      cases rready with
      | true =>
        simp only [if_true] at g2
        subst g2
        simp only [Option.isNone_none, Bool.true_and, if_true, List.cons.injEq, true_and]
        exact ⟨i1, i2, fun h => by rw [i3 h]⟩
      | false =>
        simp only [Bool.false_eq_true, if_false] at g2
        subst g2
        simp only [Option.isNone_none, Bool.true_and, Bool.false_eq_true, if_false, List.cons.injEq, true_and]
        exact ⟨i1, i2, i3⟩


theorem chWF_get (ops : ValOps V) (es : V) (ch : channel V) (s : Bool) (h : ChWF ch) :
    ChWF (channel_get (TransDag.extOf ops es) ch s).1 := by
  cases ch with
  | of_pregelChannel x => trivial
  | of_dagChannel x =>
    obtain ⟨h1, _⟩ := TransDag.get_refines ops es x s h
    show TransDag.WF (dagChannel_get (TransDag.extOf ops es) x s).1
    have e := congrArg TransDag.ofChan h1
    rw [TransDag.ofChan_toChan] at e
    rw [e]
    unfold Chan.get
    simp only [if_true]
    split
    · unfold TransDag.WF KeysNodup TransDag.ofChan Chan.reset
      simp only [List.map_map]
      exact ⟨by simpa [Function.comp_def, KeysNodup, TransDag.toChan] using h.1,
        by simpa [Function.comp_def, KeysNodup, TransDag.toChan] using h.2⟩
    · exact h

/-- `getFromReadyChannels` against the model's `getReady` (for a manager without pre-node handlers):
    no `get` fails exactly when the model reports no merge error, and then the channels and the map of
    ready values are the model's; a failing `get` makes the function return an error and a nil map
    (the Go loop stops there, the model resets the remaining channels too: the run is over) -/
theorem getFromReadyChannels_refines (ops : ValOps V) (es : V) (mext : MgrExt V) (dag : Bool)
    (c : channelManager V) (hok : ChansOK dag c.channels) (hE : NoHandlers mext) :
    let g := getReady (TransDag.opsFor ops es c.isStream) dag (toChans c.channels)
    let res := channelManager_getFromReadyChannels (TransDag.extOf ops es) mext c
    (g.2.2 = false → toChans res.1.channels = g.1 ∧ res.2.1 = g.2.1 ∧ res.2.2 = none ∧
        Frame c res.1 ∧ ChansOK dag res.1.channels) ∧
    (g.2.2 = true → res.2.2.isSome = true ∧ res.2.1 = []) := by
  intro g res
  have hres : res = channelManager_getFromReadyChannels (TransDag.extOf ops es) mext c := rfl
  unfold channelManager_getFromReadyChannels at hres
  simp only [forIn_id, Id.run, bind, pure, hE.2, Option.isSome_none, Bool.false_eq_true, if_false] at hres
  generalize hbody : (fun (x : String × channel V)
    (st : Option (channelManager V × GoMap V × Option GoErr) × channelManager V × GoMap V) => _) = body at hres
  have hb := getFromReady_loop (TransDag.extOf ops es) c.isStream body (by intro x st; rw [← hbody])
    c.channels [] c [] rfl rfl (by simpa using hok.nd) (by simp)
  obtain ⟨l1, l2, l3⟩ := getReady_link ops es c.isStream dag c.channels (fun p hp => ⟨hok.wf p hp, hok.mode p hp⟩)
  refine ⟨fun hg => ?_, fun hg => ?_⟩
  · have hne : goNoErr (TransDag.extOf ops es) c.isStream c.channels = true := by rw [l2]; simp [g] at hg; simp [hg]
    rw [hb.1 hne] at hres
    simp only [List.nil_append] at hres
    rw [hres]
    refine ⟨l1, l3 hne, rfl, ⟨rfl, rfl, rfl, rfl, ?_⟩, ⟨?_, ?_, ?_⟩⟩
    · simp [goGets, List.map_map, Function.comp_def]
    · simpa [KeysNodup, goGets, List.map_map, Function.comp_def] using hok.nd
    · intro p hp
      simp only [goGets, List.mem_map] at hp
      obtain ⟨q, hq, rfl⟩ := hp
      obtain ⟨_, _, e⟩ := ch_get ops es q.2 c.isStream (hok.wf q hq)
      show isDag (channel_get _ q.2 c.isStream).1 = dag
      rw [e]; exact hok.mode q hq
    · intro p hp
      simp only [goGets, List.mem_map] at hp
      obtain ⟨q, hq, rfl⟩ := hp
      exact chWF_get ops es q.2 c.isStream (hok.wf q hq)
  · have hne : goNoErr (TransDag.extOf ops es) c.isStream c.channels = false := by rw [l2]; simp [g] at hg; simp [hg]
    obtain ⟨x, cf, rf, e, e1, e2⟩ := hb.2 hne
    rw [e] at hres
    rw [hres]
    exact ⟨e1, e2⟩

/-! ### `updateAndGet` -/

theorem Rel.frame {r : Runner V} {c c' : channelManager V} (h : Rel r c) (f : Frame c c')
    (hm : ∀ p ∈ c'.channels, isDag p.2 = r.dag) : Rel r c' :=
  ⟨by rw [f.dataP]; exact h.data, by rw [f.ctrlP]; exact h.ctrl, by rw [f.successors]; exact h.succ, hm⟩

/-- `updateAndGet` is the model's `updateValues`, then `updateDeps`, then `getReady` (the channel part of
    `calcNext`), for a manager without handlers, when every addressed channel exists -/
theorem updateAndGet_refines (ops : ValOps V) (es : V) (mext : MgrExt V) (r : Runner V) (c : channelManager V)
    (values : GoMap (GoMap V)) (deps : GoMap (List String))
    (hrel : Rel r c) (hok : ChansOK r.dag c.channels) (hE : NoHandlers mext)
    (hpv : ∀ w ∈ values, c.channels.has w.1 = true) (hmaps : ∀ w ∈ values, KeysNodup w.2)
    (hpd : ∀ d ∈ deps, c.channels.has d.1 = true) :
    let g := getReady (TransDag.opsFor ops es c.isStream) r.dag
      (updateDeps r (updateValues r (toChans c.channels) values) deps)
    ∃ res, channelManager_updateAndGet (TransDag.extOf ops es) mext c values deps = .ret res ∧
      (g.2.2 = false → toChans res.1.channels = g.1 ∧ res.2.1 = g.2.1 ∧ res.2.2 = none ∧
        Frame c res.1 ∧ ChansOK r.dag res.1.channels) ∧
      (g.2.2 = true → res.2.2.isSome = true ∧ res.2.1 = []) := by
  intro g
  obtain ⟨c1, e1, t1, f1, ok1⟩ := updateValues_refines (TransDag.extOf ops es) mext r c values hrel hok hE hpv hmaps
  have hrel1 : Rel r c1 := hrel.frame f1 ok1.mode
  obtain ⟨c2, e2, t2, f2, ok2⟩ := updateDependencies_refines (TransDag.extOf ops es) mext r c1 deps hrel1 ok1
    (fun d hd => by rw [has_of_keys c.channels c1.channels f1.keys]; exact hpd d hd)
  have hg := getFromReadyChannels_refines ops es mext r.dag c2 ok2 hE
  have hs : c2.isStream = c.isStream := by rw [f2.isStream, f1.isStream]
  simp only [hs, t2, t1] at hg
  unfold channelManager_updateAndGet
  simp only [Id.run, pure, e1, e2, Option.isSome_none, Bool.false_eq_true, if_false]
  refine ⟨_, rfl, fun hb => ?_, fun hb => ?_⟩
  · obtain ⟨a1, a2, a3, a4, a5⟩ := hg.1 hb
    exact ⟨a1, a2, a3, (f1.trans f2).trans a4, a5⟩
  · exact hg.2 hb

/-! ### `reportBranch` -/

abbrev RB (V : Type) := MayPanic (channelManager V × Option GoErr)

theorem modChan_id' (cm : Chans V) (k : Key) : modChan cm k (fun c => c) = cm := by
  induction cm with
  | nil => rfl
  | cons p cm ih =>
    simp only [modChan, List.map_cons] at ih ⊢
    rw [ih]; split <;> rfl

theorem skip_step (ext : Ext V) (dag : Bool) (m : GoMap (channel V)) (s k : Key) (e : channel V)
    (hok : ChansOK dag m) (he : alookup s m = some e) :
    toChans (m.set s (channel_reportSkip ext e [k]).1) = (goSkipOne dag (toChans m) s k).1 ∧
    (channel_reportSkip ext e [k]).2 = (goSkipOne dag (toChans m) s k).2 ∧
    ChansOK dag (m.set s (channel_reportSkip ext e [k]).1) := by
  obtain ⟨h1, h2⟩ := ch_reportSkip ext e [k]
  have hmode : isDag e = dag := hok.mode _ (mem_of_alookup' _ _ _ he)
  rw [hmode] at h1
  have hl : alookup s (toChans m) = some (chanOf e) := by rw [alookup_toChans, he]; rfl
  have e1 : chanOf (channel_reportSkip ext e [k]).1 = ((chanOf e).reportSkip dag [k]).1 := by rw [← h1]
  have e2 : (channel_reportSkip ext e [k]).2 = ((chanOf e).reportSkip dag [k]).2 := by rw [← h1]
  refine ⟨?_, ?_, hok.set s e _ he h2 (fun hw => (ch_ops_keep_wf ext e hw).2.2 [k])⟩
  · simp only [goSkipOne, skipOne]
    cases dag with
    | true =>
      simp only [Bool.not_true, Bool.false_eq_true, if_false, hl]
      exact toChans_set m s e _ _ hok.nd he e1
    | false =>
      simp only [Bool.not_false, if_true]
      have := toChans_set m s e (channel_reportSkip ext e [k]).1 (fun c => c) hok.nd he
        (by rw [e1]; simp [Chan.reportSkip])
      rw [this, modChan_id']
  · simp only [goSkipOne, hl, e2]

/-- both `reportSkip` loops of the translated `reportBranch` -/
theorem skipLoop_spec (ext : Ext V) (dag : Bool) (k : Key)
    (body : String → Option (RB V) × channelManager V × List String →
      ForInStep (Option (RB V) × channelManager V × List String))
    (hb : ∀ s st e, st.2.1.channels.get? s = some e → body s st =
      if (channel_reportSkip ext e [k]).2 = true then
        ForInStep.yield (none, { st.2.1 with channels := st.2.1.channels.set s (channel_reportSkip ext e [k]).1 }, st.2.2 ++ [s])
      else
        ForInStep.yield (none, { st.2.1 with channels := st.2.1.channels.set s (channel_reportSkip ext e [k]).1 }, st.2.2)) :
    ∀ (l : List Key) (c1 : channelManager V) (q : List Key), ChansOK dag c1.channels →
      (∀ s ∈ l, c1.channels.has s = true) →
      ∃ c2, goLoop body l (none, c1, q) = (none, c2, (l.foldl (goSkipStep dag k) (toChans c1.channels, q)).2) ∧
        toChans c2.channels = (l.foldl (goSkipStep dag k) (toChans c1.channels, q)).1 ∧
        Frame c1 c2 ∧ ChansOK dag c2.channels := by
  intro l
  induction l with
  | nil => intro c1 q hok _; exact ⟨c1, rfl, rfl, Frame.refl _, hok⟩
  | cons s l ih =>
    intro c1 q hok hpres
    have hhas := hpres s (List.mem_cons_self ..)
    obtain ⟨e, he⟩ : ∃ e, alookup s c1.channels = some e := by
      unfold GoMap.has at hhas
      cases hl : alookup s c1.channels with
      | none => simp [hl] at hhas
      | some v => exact ⟨v, rfl⟩
    obtain ⟨s1, s2, s3⟩ := skip_step ext dag c1.channels s k e hok he
    have hkeys : (c1.channels.set s (channel_reportSkip ext e [k]).1).map (·.1) = c1.channels.map (·.1) :=
      keys_set _ _ e _ he
    have hpres' : ∀ s' ∈ l, (c1.channels.set s (channel_reportSkip ext e [k]).1).has s' = true := by
      intro s' hs'
      rw [has_of_keys c1.channels _ hkeys]; exact hpres s' (List.mem_cons_of_mem _ hs')
    simp only [goLoop, hb s (none, c1, q) e he, List.foldl_cons, goSkipStep]
    rw [← s2, ← s1]
    by_cases hr : (channel_reportSkip ext e [k]).2 = true
    · simp only [hr, if_true]
      obtain ⟨c2, g1, g2, g3, g4⟩ := ih { c1 with channels := c1.channels.set s (channel_reportSkip ext e [k]).1 }
        (q ++ [s]) s3 hpres'
      exact ⟨c2, g1, g2, Frame.trans (c := c2) (a := c1) (b := { c1 with channels := c1.channels.set s (channel_reportSkip ext e [k]).1 }) ⟨rfl, rfl, rfl, rfl, hkeys⟩ g3, g4⟩
    · simp only [hr, Bool.false_eq_true, if_false]
      obtain ⟨c2, g1, g2, g3, g4⟩ := ih { c1 with channels := c1.channels.set s (channel_reportSkip ext e [k]).1 }
        q s3 hpres'
      exact ⟨c2, g1, g2, Frame.trans (c := c2) (a := c1) (b := { c1 with channels := c1.channels.set s (channel_reportSkip ext e [k]).1 }) ⟨rfl, rfl, rfl, rfl, hkeys⟩ g3, g4⟩
/-- a loop whose body ignores the element (`for _ in List.range fuel`): iteration of a step function -/
def goIter {β : Type} (f : β → ForInStep β) : Nat → β → β
  | 0, b => b
  | n + 1, b => match f b with
    | .done b' => b'
    | .yield b' => goIter f n b'

theorem goLoop_const {α β : Type} (f : β → ForInStep β) (l : List α) (b : β) :
    goLoop (fun _ s => f s) l b = goIter f l.length b := by
  induction l generalizing b with
  | nil => rfl
  | cons a l ih =>
    simp only [goLoop, List.length_cons, goIter]
    cases f b with
    | done b' => rfl
    | yield b' => exact ih b'

/-- every key the work list can address has a channel (no nil dereference) -/
def SuccClosed (c : channelManager V) : Prop :=
  ∀ k succs, alookup k c.successors = some succs → ∀ s ∈ succs, c.channels.has s = true

theorem wl_spec (ext : Ext V) (r : Runner V) (c0 : channelManager V) (hrel : Rel r c0) (hcl : SuccClosed c0)
    (wbody : Option (RB V) × channelManager V × List String × Nat →
      ForInStep (Option (RB V) × channelManager V × List String × Nat))
    (hw1 : ∀ st, ¬ (st.2.2.2 < st.2.2.1.length) → wbody st = ForInStep.done (none, st.2.1, st.2.2.1, st.2.2.2))
    (hw2 : ∀ st, st.2.2.2 < st.2.2.1.length → st.2.1.successors.has (st.2.2.1.getD st.2.2.2 "") = false →
      wbody st = ForInStep.done (some (MayPanic.ret (st.2.1, some (GoErr.mk "unknown node: %s"))), st.2.1, st.2.2.1, st.2.2.2))
    (hw3 : ∀ st, st.2.2.2 < st.2.2.1.length → st.2.1.successors.has (st.2.2.1.getD st.2.2.2 "") = true →
      ∃ ibody : String → Option (RB V) × channelManager V × List String →
          ForInStep (Option (RB V) × channelManager V × List String),
        (∀ s st' e, st'.2.1.channels.get? s = some e → ibody s st' =
          if (channel_reportSkip ext e [st.2.2.1.getD st.2.2.2 ""]).2 = true then
            ForInStep.yield (none, { st'.2.1 with channels := st'.2.1.channels.set s (channel_reportSkip ext e [st.2.2.1.getD st.2.2.2 ""]).1 }, st'.2.2 ++ [s])
          else
            ForInStep.yield (none, { st'.2.1 with channels := st'.2.1.channels.set s (channel_reportSkip ext e [st.2.2.1.getD st.2.2.2 ""]).1 }, st'.2.2)) ∧
        ∀ R, goLoop ibody (st.2.1.successors.getD' (st.2.2.1.getD st.2.2.2 "") []) (none, st.2.1, st.2.2.1) = R →
          R.1 = none → wbody st = ForInStep.yield (none, R.2.1, R.2.2, st.2.2.2 + 1)) :
    ∀ (fuel : Nat) (c1 : channelManager V) (nKeys : List Key) (i : Nat) (res : Except Err (Chans V)),
      Frame c0 c1 → ChansOK r.dag c1.channels →
      goWL r fuel (toChans c1.channels) nKeys i = some res →
      ∃ o c2 nk j, goIter wbody fuel (none, c1, nKeys, i) = (o, c2, nk, j) ∧
        match res with
        | .ok cm' => o = none ∧ toChans c2.channels = cm' ∧ Frame c0 c2 ∧ ChansOK r.dag c2.channels
        | .error _ => ∃ cx, o = some (MayPanic.ret (cx, some (GoErr.mk "unknown node: %s"))) := by
  intro fuel
  induction fuel with
  | zero =>
    intro c1 nKeys i res hfr hok h
    simp only [goWL] at h
    split at h
    · cases h
    · simp only [Option.some.injEq] at h; subst h
      exact ⟨none, c1, nKeys, i, rfl, rfl, rfl, hfr, hok⟩
  | succ fuel ih =>
    intro c1 nKeys i res hfr hok h
    simp only [goWL] at h
    by_cases hi : i < nKeys.length
    · simp only [hi, if_true] at h
      have hsucc : alookup (nKeys.getD i "") c1.successors = (r.node? (nKeys.getD i "")).map Node.successors := by
        rw [hfr.successors]; exact hrel.succ _
      cases hn : r.node? (nKeys.getD i "") with
      | none =>
        simp only [hn, Option.some.injEq] at h; subst h
        have hh : c1.successors.has (nKeys.getD i "") = false := by unfold GoMap.has; rw [hsucc, hn]; rfl
        simp only [goIter, hw2 (none, c1, nKeys, i) hi hh]
        exact ⟨_, _, _, _, rfl, _, rfl⟩
      | some n =>
        simp only [hn] at h
        have hh : c1.successors.has (nKeys.getD i "") = true := by unfold GoMap.has; rw [hsucc, hn]; rfl
        have hgd : c1.successors.getD' (nKeys.getD i "") [] = n.successors := by unfold GoMap.getD'; rw [hsucc, hn]; rfl
        obtain ⟨ibody, hib, hR⟩ := hw3 (none, c1, nKeys, i) hi hh
        simp only at hib hR
        have hpres : ∀ s ∈ n.successors, c1.channels.has s = true := by
          intro s hs
          rw [has_of_keys c0.channels c1.channels hfr.keys]
          exact hcl (nKeys.getD i "") n.successors (by rw [← hfr.successors, hsucc, hn]; rfl) s hs
        obtain ⟨c2, g1, g2, g3, g4⟩ := skipLoop_spec ext r.dag (nKeys.getD i "") ibody hib n.successors c1 nKeys hok hpres
        rw [hgd] at hR
        have hstep := hR _ g1 rfl
        simp only at hstep
        simp only [goIter, hstep]
        rw [← g2] at h
        exact ih c2 _ (i + 1) res (hfr.trans g3) g4 h
    · simp only [hi, if_false, Option.some.injEq] at h; subst h
      simp only [goIter, hw1 (none, c1, nKeys, i) hi]
      exact ⟨none, c1, nKeys, i, rfl, rfl, rfl, hfr, hok⟩

/-- the translated `reportBranch` computes Go's work list on the model's channels, exactly, for every fuel
    with which that work list is exhausted (or hits the "unknown node" error); no nil dereference when every
    addressed key has a channel -/
theorem reportBranch_go (ext : Ext V) (mext : MgrExt V) (r : Runner V) (c : channelManager V) (fuel : Nat)
    (from_ : Key) (sk : List Key) (hrel : Rel r c) (hok : ChansOK r.dag c.channels) (hcl : SuccClosed c)
    (hsk : ∀ s ∈ sk, c.channels.has s = true) (res : Except Err (Chans V))
    (hgo : goWL r fuel (sk.foldl (goSkipStep r.dag from_) (toChans c.channels, [])).1
      (sk.foldl (goSkipStep r.dag from_) (toChans c.channels, [])).2 0 = some res) :
    ∃ c' e, channelManager_reportBranch ext mext fuel c from_ sk = .ret (c', e) ∧
      match (generalizing := false) res with
      | .ok cm' => e = none ∧ toChans c'.channels = cm' ∧ Frame c c' ∧ ChansOK r.dag c'.channels
      | .error _ => e = some (GoErr.mk "unknown node: %s") := by
  unfold channelManager_reportBranch
  simp only [forIn_id, Id.run, bind, pure]
  generalize hb1 : (fun (node : String) (__s : Option (RB V) × channelManager V × List String) => _) = body1
  obtain ⟨c1, g1, g2, g3, g4⟩ := skipLoop_spec ext r.dag from_ body1
    (by intro s st e he; rw [← hb1]; simp only [he]) sk c [] hok hsk
  rw [g1]
  simp only
  rw [goLoop_const]
  generalize hwb : (fun (__s : Option (RB V) × channelManager V × List String × Nat) => _) = wbody
  rw [← g2] at hgo
  obtain ⟨o, c2, nk, j, e1, e2⟩ := wl_spec ext r c hrel hcl wbody
    (by intro st hi; rw [← hwb]; simp only [hi, decide_false, Bool.not_false, if_true])
    (by intro st hi hh; rw [← hwb]; simp only [hi, decide_true, Bool.not_true, Bool.false_eq_true, if_false, hh, Bool.not_false, if_true])
    (by
      intro st hi hh
      rw [← hwb]
      simp only [hi, decide_true, Bool.not_true, Bool.false_eq_true, if_false, hh]
      generalize hL : (fun (successor : String) (st' : Option (RB V) × channelManager V × List String) => _) = L
      refine ⟨L, fun s st' e he => ?_, fun R hR hn => ?_⟩
      · rw [← hL]; simp only [he]
      · rw [hR]; simp only [hn])
    (List.range fuel).length c1 _ 0 res g3 g4 (by rw [List.length_range]; exact hgo)
  rw [e1]
  cases res with
  | ok cm' =>
    obtain ⟨rfl, h2, h3, h4⟩ := e2
    exact ⟨c2, none, rfl, rfl, h2, h3, h4⟩
  | error er =>
    obtain ⟨cx, rfl⟩ := e2
    exact ⟨cx, _, rfl, rfl⟩

/-- **`reportBranch` refines the model's `reportBranch`** (`skipOne` / `skipStep` / `propagateSkips`).
    For every fuel with which Go's work list runs to completion (`goReportBranch … = some _`: the Go loop
    itself has no fuel), the translated function does not panic and returns what the model returns: the
    model's channels with a nil error, or the error "unknown node" exactly when the model reports
    `endSkipped`.  Hypotheses: the static tables agree (`Rel`); one channel per key, all of the runner's kind
    (`ChansOK`); every successor and every skipped node has a channel (`SuccClosed`, `hsk`: no nil
    dereference); a skipped channel has all control predecessors skipped (`AllSkImp`) and has passed its
    skip on (`SkipClosed`) — both hold initially and are kept by `reportBranch`. -/
theorem reportBranch_refines (ext : Ext V) (mext : MgrExt V) (r : Runner V) (c : channelManager V) (fuel : Nat)
    (from_ : Key) (sk : List Key) (hrel : Rel r c) (hok : ChansOK r.dag c.channels) (hcl : SuccClosed c)
    (hsk : ∀ s ∈ sk, c.channels.has s = true)
    (hsi : AllSkImp (toChans c.channels)) (hsc : SkipClosed r (toChans c.channels))
    (hlen : c.channels.length ≤ (r.nodes.length + 2) * (r.nodes.length + 2))
    (R : Except Err (Chans V)) (hgo : goReportBranch r fuel (toChans c.channels) from_ sk = some R) :
    reportBranch r (toChans c.channels) from_ sk = R ∧
    ∃ c' e, channelManager_reportBranch ext mext fuel c from_ sk = .ret (c', e) ∧
      match (generalizing := false) R with
      | .ok cm' => e = none ∧ toChans c'.channels = cm' ∧ Frame c c' ∧ ChansOK r.dag c'.channels ∧
          (r.dag = true → AllSkImp cm' ∧ SkipClosed r cm')
      | .error _ => e = some (GoErr.mk "unknown node: %s") := by
  have hnd : (akeys (toChans c.channels)).Nodup := by rw [akeys_toChans]; exact hok.nd
  obtain ⟨m1, m2⟩ := goReportBranch_eq r fuel (toChans c.channels) from_ sk R hnd hsi hsc
    (by simpa [toChans] using hlen) hgo
  refine ⟨m1, ?_⟩
  obtain ⟨c', e, t1, t2⟩ := reportBranch_go ext mext r c fuel from_ sk hrel hok hcl hsk R hgo
  refine ⟨c', e, t1, ?_⟩
  cases R with
  | ok cm' =>
    obtain ⟨a1, a2, a3, a4⟩ := t2
    exact ⟨a1, a2, a3, a4, fun hd => (m2 cm' rfl hd).2⟩
  | error er => exact t2

/-- **`reportBranch` refines the model's `reportBranch`, unconditionally for acyclic graphs**: the Go loop
    terminates (there is a fuel `N` from which on the translated loop exhausts its work list), and for every
    such fuel the translated function does not panic and returns the model's channels with a nil error, or
    the error "unknown node" exactly when the model reports `endSkipped`. -/
theorem reportBranch_total (ext : Ext V) (mext : MgrExt V) (r : Runner V) (c : channelManager V)
    (from_ : Key) (sk : List Key) (hrel : Rel r c) (hok : ChansOK r.dag c.channels) (hcl : SuccClosed c)
    (hsk : ∀ s ∈ sk, c.channels.has s = true)
    (hsi : AllSkImp (toChans c.channels)) (hsc : SkipClosed r (toChans c.channels))
    (hlen : c.channels.length ≤ (r.nodes.length + 2) * (r.nodes.length + 2))
    (rank : Key → Nat) (hacyc : r.dag = true → ∀ n ∈ r.nodes, ∀ s ∈ n.successors, rank n.key < rank s) :
    ∃ N, ∀ fuel, N ≤ fuel →
      ∃ c' e, channelManager_reportBranch ext mext fuel c from_ sk = .ret (c', e) ∧
        match reportBranch r (toChans c.channels) from_ sk with
        | .ok cm' => e = none ∧ toChans c'.channels = cm' ∧ Frame c c' ∧ ChansOK r.dag c'.channels ∧
            (r.dag = true → AllSkImp cm' ∧ SkipClosed r cm')
        | .error _ => e = some (GoErr.mk "unknown node: %s") := by
  obtain ⟨N, hN⟩ := goReportBranch_terminates r rank hacyc (toChans c.channels) from_ sk
  refine ⟨N, fun fuel hf => ?_⟩
  obtain ⟨R, hR⟩ := hN fuel hf
  obtain ⟨h1, c', e, h2, h3⟩ := reportBranch_refines ext mext r c fuel from_ sk hrel hok hcl hsk hsi hsc hlen R hR
  rw [h1]
  exact ⟨c', e, h2, h3⟩

/-- any-predecessor mode: `reportBranch` changes no channel and returns nil, for every fuel (`reportSkip` of
    a pregelChannel returns false: nothing is ever appended to the work list) -/
theorem reportBranch_pregel (ext : Ext V) (mext : MgrExt V) (r : Runner V) (c : channelManager V) (fuel : Nat)
    (from_ : Key) (sk : List Key) (hd : r.dag = false) (hrel : Rel r c) (hok : ChansOK r.dag c.channels)
    (hcl : SuccClosed c) (hsk : ∀ s ∈ sk, c.channels.has s = true) :
    reportBranch r (toChans c.channels) from_ sk = .ok (toChans c.channels) ∧
    ∃ c', channelManager_reportBranch ext mext fuel c from_ sk = .ret (c', none) ∧
      toChans c'.channels = toChans c.channels ∧ Frame c c' ∧ ChansOK r.dag c'.channels := by
  constructor
  · unfold reportBranch
    rw [hd, (pregel_never_pushes from_ sk (toChans c.channels) []).2]
    cases (r.nodes.length + 2) * (r.nodes.length + 2) <;> simp [propagateSkips]
  · obtain ⟨c', e, t1, t2⟩ := reportBranch_go ext mext r c fuel from_ sk hrel hok hcl hsk _
      (goReportBranch_pregel r hd fuel (toChans c.channels) from_ sk)
    obtain ⟨rfl, a2, a3, a4⟩ := t2
    exact ⟨c', t1, a2, a3, a4⟩

end EinoV.TransMgr
