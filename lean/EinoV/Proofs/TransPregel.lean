/-
  Refinement: the code translated from compose/pregel.go (Gen/TransC01.lean, regenerated from /repo
  on every run) computes what the any-predecessor channel of `Model/Engine.lean` computes
  (`Chan.* false`).
-/
import EinoV.Gen.TransC01
import EinoV.Proofs.GoLoop
namespace EinoV.TransPregel
open EinoV.GoSem EinoV.Engine EinoV.Gen.TransC01

variable {V : Type} [Inhabited V]

/-- the translated struct as the model's channel (`Chan.init false` has no other content) -/
def toChan (c : pregelChannel V) : Chan V := { values := c.Values }

def extOf (ops : ValOps V) (emptyStream : V) : Ext V :=
  { zeroValue := ops.zero, emptyStream := emptyStream,
    mergeValues := fun vs => match ops.merge vs with
      | some v => (v, none)
      | none => (default, some (GoErr.mk "merge")) }

def getResult (r : V × Bool × Option GoErr) : GetResult V :=
  if r.2.2.isSome then .mergeErr else if r.2.1 then .ready r.1 else .notReady

theorem init_is_empty (cp dp : List Key) : Chan.init (V := V) false cp dp = toChan { Values := [] } := rfl

theorem reportValues_refines (ext : Ext V) (ch : pregelChannel V) (ins : GoMap V) :
    toChan (pregelChannel_reportValues ext ch ins).1 = (toChan ch).reportValues false ins ∧
    (pregelChannel_reportValues ext ch ins).2 = none := by
  unfold pregelChannel_reportValues Chan.reportValues
  simp only [forIn_id, Id.run, bind, pure, Bool.false_eq_true, if_false, and_true]
  refine goLoop_fold toChan _ _ ?_ ins ch
  intro kv c
  exact ⟨_, rfl, rfl⟩

theorem reportSkip_refines (ext : Ext V) (ch : pregelChannel V) (keys : List String) :
    (toChan (pregelChannel_reportSkip ext ch keys).1, (pregelChannel_reportSkip ext ch keys).2)
      = (toChan ch).reportSkip false keys := rfl

theorem reportDependencies_refines (ext : Ext V) (ch : pregelChannel V) (deps : List String) :
    toChan (pregelChannel_reportDependencies ext ch deps) = (toChan ch).reportDeps false deps := rfl

theorem get_refines (ops : ValOps V) (es : V) (ch : pregelChannel V) (isStream : Bool) :
    toChan (pregelChannel_get (extOf ops es) ch isStream).1 = ((toChan ch).get ops false).1 ∧
    getResult (pregelChannel_get (extOf ops es) ch isStream).2 = ((toChan ch).get ops false).2 := by
  unfold pregelChannel_get pregelChannel_get__defer Chan.get
  simp only [forIn_id, Id.run, bind, pure, goLoop_collect, List.nil_append, Bool.false_eq_true, if_false]
  have hva : (toChan ch).values = ch.Values := rfl
  rw [hva]
  rcases hv : ch.Values with _ | ⟨a, _ | ⟨b, rest⟩⟩
  · simp [getResult, toChan]
  · simp [getResult, collect, toChan]
  · simp only [List.map_cons, List.length_cons, extOf]
    cases hmm : ops.merge (a.snd :: b.snd :: List.map Prod.snd rest) <;>
      simp [getResult, collect, toChan, hmm]

end EinoV.TransPregel
