/-
  C02, run level: every start is justified (`run_justified`).  A history invariant `K` over the
  channel manager — every `ready` control entry comes from a completion that routed here, every
  `skipped` entry from a skipped or deselecting predecessor, every stored value from a
  completion that routed data here, and the skip flag is coherent — preserved by every
  operation of `calcNext`; at `getFromReadyChannels` a triggered channel's entries then give
  the justification (`getReady_justified`).
-/
import EinoV.Spec.DagStatus
import EinoV.Proofs.C02Run

namespace EinoV.Engine
namespace DagRun

/-! ### stronger facts about the channel operations -/

theorem mem_aset_of_ne {α} (k : Key) (v : α) (l : List (Key × α)) (p : Key) (d : α) (e : p ≠ k)
    (h : (p, d) ∈ l) : (p, d) ∈ aset k v l := by
  induction l with
  | nil => simp at h
  | cons q rest ih =>
    obtain ⟨k', v'⟩ := q
    simp only [List.mem_cons, Prod.mk.injEq] at h
    by_cases h1 : (k' == k) = true
    · have e1 : k' = k := by simpa using h1
      simp only [aset, h1, ↓reduceIte, List.mem_cons, Prod.mk.injEq]
      rcases h with ⟨rfl, _⟩ | h
      · exact absurd e1 e
      · exact Or.inr h
    · simp only [aset, h1, Bool.false_eq_true, ↓reduceIte, List.mem_cons, Prod.mk.injEq]
      rcases h with h | h
      · exact Or.inl h
      · exact Or.inr (ih h)


theorem depsF_fold' {V} (deps : List Key) (c : Chan V) :
    (deps.foldl depsF c).values = c.values ∧
    (∀ p d, (p, d) ∈ (deps.foldl depsF c).ctrl → (p, d) ∈ c.ctrl ∨ (d = Dep.ready ∧ p ∈ deps)) ∧
    (∀ p d, (p, d) ∈ c.ctrl → (p, d) ∈ (deps.foldl depsF c).ctrl ∨ (p, Dep.ready) ∈ (deps.foldl depsF c).ctrl) := by
  induction deps generalizing c with
  | nil => exact ⟨rfl, fun p d h => Or.inl h, fun p d h => Or.inl h⟩
  | cons k t ih =>
    simp only [List.foldl_cons]
    obtain ⟨i1, i2, i3⟩ := ih (depsF c k)
    unfold depsF at i1 i2 i3 ⊢
    by_cases hs : (alookup k c.ctrl).isSome = true
    · simp only [hs, ↓reduceIte] at i1 i2 i3 ⊢
      refine ⟨i1, fun p d h => ?_, fun p d h => ?_⟩
      · rcases i2 p d h with h | ⟨h1, h2⟩
        · rcases mem_aset _ _ _ _ _ h with ⟨rfl, rfl⟩ | h
          · exact Or.inr ⟨rfl, by simp⟩
          · exact Or.inl h
        · exact Or.inr ⟨h1, by simp [h2]⟩
      · by_cases e : p = k
        · subst e
          rcases i3 p Dep.ready (mem_aset_self _ _ _) with h | h <;> exact Or.inr h
        · have : (p, d) ∈ aset k Dep.ready c.ctrl := mem_aset_of_ne _ _ _ _ _ e h
          exact i3 p d this
    · simp only [hs, Bool.false_eq_true, ↓reduceIte] at i1 i2 i3 ⊢
      refine ⟨i1, fun p d h => ?_, i3⟩
      rcases i2 p d h with h | ⟨h1, h2⟩
      · exact Or.inl h
      · exact Or.inr ⟨h1, by simp [h2]⟩

theorem valsF_fold' {V} (ins : List (Key × V)) (c : Chan V) :
    (∀ p v, (p, v) ∈ (ins.foldl valsF c).values → (p, v) ∈ c.values ∨ (p, v) ∈ ins) := by
  induction ins generalizing c with
  | nil => exact fun p v h => Or.inl h
  | cons k t ih =>
    simp only [List.foldl_cons]
    have i1 := ih (valsF c k)
    unfold valsF at i1 ⊢
    by_cases hs : (alookup k.1 c.data).isSome = true
    · simp only [hs, ↓reduceIte] at i1 ⊢
      intro p v h
      rcases i1 p v h with h | h
      · rcases mem_aset _ _ _ _ _ h with ⟨rfl, rfl⟩ | h
        · exact Or.inr (by simp)
        · exact Or.inl h
      · exact Or.inr (List.mem_cons_of_mem _ h)
    · simp only [hs, Bool.false_eq_true, ↓reduceIte] at i1 ⊢
      intro p v h
      rcases i1 p v h with h | h
      · exact Or.inl h
      · exact Or.inr (List.mem_cons_of_mem _ h)

theorem reportSkip_values {V} (c : Chan V) (k : Key) : (c.reportSkip true [k]).1.values = c.values := by
  simp only [Chan.reportSkip, ↓reduceIte, List.foldl_cons, List.foldl_nil]
  split <;> split <;> rfl

/-! ### the history invariant: every reported entry is justified by a completion in `H` -/

structure K {V} (r : Runner V) (H : List (Done V)) (cm : Chans V) : Prop where
  rdy : ∀ n c, (n, c) ∈ cm → ∀ p, (p, Dep.ready) ∈ c.ctrl → ∃ o, (p, o) ∈ H ∧ RoutesC r p o n
  skp : ∀ n c, (n, c) ∈ cm → ∀ p, (p, Dep.skipped) ∈ c.ctrl →
          skOf cm p = 1 ∨ ∃ o, (p, o) ∈ H ∧ Deselects r p o n
  val : ∀ n c, (n, c) ∈ cm → ∀ p v, (p, v) ∈ c.values → (p, v) ∈ H ∧ RoutesD r p v n
  flag : ∀ n c, (n, c) ∈ cm → c.ctrl ≠ [] → (∀ p d, (p, d) ∈ c.ctrl → d = Dep.skipped) → c.skipped = true
  sk : ∀ n c, (n, c) ∈ cm → SkOK c
  nd : (akeys cm).Nodup
  dat : ∀ n c, (n, c) ∈ cm → ∀ p, (p, true) ∈ c.data → (∃ o, (p, o) ∈ H) ∨ skOf cm p = 1
  vnd : ∀ n c, (n, c) ∈ cm → (akeys c.values).Nodup

theorem skOf_mono_modChan {V} (cm : Chans V) (k : Key) (f : Chan V → Chan V)
    (h6 : ∀ c0, (k, c0) ∈ cm → c0.skipped = true → (f c0).skipped = true) (p : Key)
    (h : skOf cm p = 1) : skOf (modChan cm k f) p = 1 := by
  unfold skOf at h ⊢
  rw [alookup_modChan]
  by_cases hk : (p == k) = true
  · have e : p = k := by simpa using hk
    subst e
    simp only [hk, ↓reduceIte]
    cases hl : alookup p cm with
    | none => rw [hl] at h; simp at h
    | some c0 =>
      rw [hl] at h
      simp only [Option.map_some]
      by_cases hs : c0.skipped = true
      · simp [h6 c0 (mem_of_alookup _ _ _ hl) hs]
      · simp [hs] at h
  · simp only [hk, Bool.false_eq_true, ↓reduceIte]; exact h

theorem K_update {V} {r : Runner V} {H : List (Done V)} {cm : Chans V} (hK : K r H cm)
    (k : Key) (f : Chan V → Chan V)
    (h1 : ∀ c0, (k, c0) ∈ cm → ∀ p, (p, Dep.ready) ∈ (f c0).ctrl →
        (p, Dep.ready) ∈ c0.ctrl ∨ ∃ o, (p, o) ∈ H ∧ RoutesC r p o k)
    (h2 : ∀ c0, (k, c0) ∈ cm → ∀ p, (p, Dep.skipped) ∈ (f c0).ctrl →
        (p, Dep.skipped) ∈ c0.ctrl ∨ skOf cm p = 1 ∨ ∃ o, (p, o) ∈ H ∧ Deselects r p o k)
    (h3 : ∀ c0, (k, c0) ∈ cm → ∀ p v, (p, v) ∈ (f c0).values →
        (p, v) ∈ c0.values ∨ ((p, v) ∈ H ∧ RoutesD r p v k))
    (h4 : ∀ c0, (k, c0) ∈ cm → (f c0).ctrl ≠ [] → (∀ p d, (p, d) ∈ (f c0).ctrl → d = Dep.skipped) →
        (f c0).skipped = true)
    (h5 : ∀ c0, (k, c0) ∈ cm → SkOK (f c0))
    (h6 : ∀ c0, (k, c0) ∈ cm → c0.skipped = true → (f c0).skipped = true)
    (h7 : ∀ c0, (k, c0) ∈ cm → ∀ p, (p, true) ∈ (f c0).data →
        (p, true) ∈ c0.data ∨ (∃ o, (p, o) ∈ H) ∨ skOf cm p = 1)
    (h8 : ∀ c0, (k, c0) ∈ cm → (akeys c0.values).Nodup → (akeys (f c0).values).Nodup) :
    K r H (modChan cm k f) := by
  have mono := skOf_mono_modChan cm k f h6
  refine ⟨?_, ?_, ?_, ?_, ?_, ?_, ?_, ?_⟩
  · intro n c' hm p hp
    obtain ⟨c, hc, rfl⟩ := (mem_modChan _ _ _ _ _).mp hm
    by_cases hk : (n == k) = true
    · have e : n = k := by simpa using hk
      subst e
      simp only [hk, ↓reduceIte] at hp
      rcases h1 c hc p hp with h | h
      · exact hK.rdy n c hc p h
      · exact h
    · simp only [hk, Bool.false_eq_true, ↓reduceIte] at hp
      exact hK.rdy n c hc p hp
  · intro n c' hm p hp
    obtain ⟨c, hc, rfl⟩ := (mem_modChan _ _ _ _ _).mp hm
    have lift : (skOf cm p = 1 ∨ ∃ o, (p, o) ∈ H ∧ Deselects r p o n) →
        (skOf (modChan cm k f) p = 1 ∨ ∃ o, (p, o) ∈ H ∧ Deselects r p o n) := by
      rintro (h | h)
      · exact Or.inl (mono p h)
      · exact Or.inr h
    by_cases hk : (n == k) = true
    · have e : n = k := by simpa using hk
      subst e
      simp only [hk, ↓reduceIte] at hp
      rcases h2 c hc p hp with h | h
      · exact lift (hK.skp n c hc p h)
      · exact lift h
    · simp only [hk, Bool.false_eq_true, ↓reduceIte] at hp
      exact lift (hK.skp n c hc p hp)
  · intro n c' hm p v hp
    obtain ⟨c, hc, rfl⟩ := (mem_modChan _ _ _ _ _).mp hm
    by_cases hk : (n == k) = true
    · have e : n = k := by simpa using hk
      subst e
      simp only [hk, ↓reduceIte] at hp
      rcases h3 c hc p v hp with h | h
      · exact hK.val n c hc p v h
      · exact h
    · simp only [hk, Bool.false_eq_true, ↓reduceIte] at hp
      exact hK.val n c hc p v hp
  · intro n c' hm
    obtain ⟨c, hc, rfl⟩ := (mem_modChan _ _ _ _ _).mp hm
    by_cases hk : (n == k) = true
    · have e : n = k := by simpa using hk
      subst e
      simp only [hk, ↓reduceIte]
      exact h4 c hc
    · simp only [hk, Bool.false_eq_true, ↓reduceIte]
      exact hK.flag n c hc
  · intro n c' hm
    obtain ⟨c, hc, rfl⟩ := (mem_modChan _ _ _ _ _).mp hm
    by_cases hk : (n == k) = true
    · have e : n = k := by simpa using hk
      subst e
      simp only [hk, ↓reduceIte]
      exact h5 c hc
    · simp only [hk, Bool.false_eq_true, ↓reduceIte]
      exact hK.sk n c hc
  · rw [akeys_modChan]; exact hK.nd
  · intro n c' hm p hp
    obtain ⟨c, hc, rfl⟩ := (mem_modChan _ _ _ _ _).mp hm
    have lift : ((∃ o, (p, o) ∈ H) ∨ skOf cm p = 1) → ((∃ o, (p, o) ∈ H) ∨ skOf (modChan cm k f) p = 1) := by
      rintro (h | h)
      · exact Or.inl h
      · exact Or.inr (mono p h)
    by_cases hk : (n == k) = true
    · have e : n = k := by simpa using hk
      subst e
      simp only [hk, ↓reduceIte] at hp
      rcases h7 c hc p hp with h | h
      · exact lift (hK.dat n c hc p h)
      · exact lift h
    · simp only [hk, Bool.false_eq_true, ↓reduceIte] at hp
      exact lift (hK.dat n c hc p hp)
  · intro n c' hm
    obtain ⟨c, hc, rfl⟩ := (mem_modChan _ _ _ _ _).mp hm
    by_cases hk : (n == k) = true
    · have e : n = k := by simpa using hk
      subst e
      simp only [hk, ↓reduceIte]
      exact h8 c hc (hK.vnd n c hc)
    · simp only [hk, Bool.false_eq_true, ↓reduceIte]
      exact hK.vnd n c hc

theorem K_mono {V} {r : Runner V} {H H' : List (Done V)} {cm : Chans V} (hK : K r H cm)
    (h : ∀ d, d ∈ H → d ∈ H') : K r H' cm := by
  refine ⟨?_, ?_, ?_, hK.flag, hK.sk, hK.nd, ?_, hK.vnd⟩
  rotate_left 3
  · intro n c hc p hp
    rcases hK.dat n c hc p hp with ⟨o, ho⟩ | h1
    · exact Or.inl ⟨o, h _ ho⟩
    · exact Or.inr h1
  · intro n c hc p hp
    obtain ⟨o, ho, hr⟩ := hK.rdy n c hc p hp
    exact ⟨o, h _ ho, hr⟩
  · intro n c hc p hp
    rcases hK.skp n c hc p hp with h1 | ⟨o, ho, hr⟩
    · exact Or.inl h1
    · exact Or.inr ⟨o, h _ ho, hr⟩
  · intro n c hc p v hp
    obtain ⟨h1, h2⟩ := hK.val n c hc p v hp
    exact ⟨h _ h1, h2⟩

/-! ### skip propagation -/

/-- `from_` may report a skip to `s`: it is skipped itself, or it completed and deselected `s` -/
def MaySkip {V} (r : Runner V) (H : List (Done V)) (cm : Chans V) (from_ s : Key) : Prop :=
  skOf cm from_ = 1 ∨ ∃ o, (from_, o) ∈ H ∧ Deselects r from_ o s

theorem skipOne_K {V} {r : Runner V} {H : List (Done V)} {cm : Chans V} (hK : K r H cm) (s from_ : Key)
    (hm : MaySkip r H cm from_ s)
    (hwf : ∀ c, (s, c) ∈ cm → from_ ∈ akeys c.ctrl ∨ from_ ∈ akeys c.data) :
    K r H (skipOne true cm s from_).1 ∧
    (∀ p, skOf cm p = 1 → skOf (skipOne true cm s from_).1 p = 1) ∧
    ((skipOne true cm s from_).2 = true → skOf (skipOne true cm s from_).1 s = 1) := by
  unfold skipOne
  simp only [Bool.not_true, Bool.false_eq_true, ↓reduceIte]
  cases hl : alookup s cm with
  | none => exact ⟨hK, fun p h => h, fun h => by simp at h⟩
  | some c0 =>
    simp only
    have hm0 := mem_of_alookup _ _ _ hl
    have uniq : ∀ c, (s, c) ∈ cm → c = c0 := by
      intro c hc
      have := alookup_of_mem_nodup cm hK.nd s c hc
      rw [hl] at this; exact (Option.some.inj this).symm
    obtain ⟨hs, hr2, e1, e2, _, e4, _⟩ := reportSkip_one c0 from_
    obtain ⟨k1, k2⟩ := reportSkip_skOK c0 from_ (hK.sk s c0 hm0) (hwf c0 hm0)
    have h6 : ∀ c, (s, c) ∈ cm → c.skipped = true → ((fun _ => (c0.reportSkip true [from_]).1) c).skipped = true :=
      fun c hc h => k2 (by rw [← uniq c hc]; exact h)
    refine ⟨?_, skOf_mono_modChan cm s _ h6, ?_⟩
    · apply K_update hK s (fun _ => (c0.reportSkip true [from_]).1)
      · intro c hc p hp
        rw [uniq c hc]
        rcases e1 p _ hp with h | ⟨_, h, _⟩
        · exact Or.inl h
        · cases h
      · intro c hc p hp
        rw [uniq c hc]
        rcases e1 p _ hp with h | ⟨rfl, _, _⟩
        · exact Or.inl h
        · exact Or.inr hm
      · intro c hc p v hp
        rw [uniq c hc]
        rw [reportSkip_values] at hp
        exact Or.inl hp
      · intro c _ _ hall
        exact e4.mpr hall
      · exact fun c _ => k1
      · exact h6
      · intro c hc p hp
        rw [uniq c hc]
        rcases e2 p _ hp with h | ⟨rfl, _, _⟩
        · exact Or.inl h
        · right
          rcases hm with h | ⟨o, ho, _⟩
          · exact Or.inr h
          · exact Or.inl ⟨o, ho⟩
      · intro c hc hnd
        rw [reportSkip_values]
        rw [← uniq c hc]; exact hnd
    · intro hb
      simp only [Bool.and_eq_true, Bool.not_eq_eq_eq_not, Bool.not_true] at hb
      unfold skOf
      rw [alookup_modChan]
      simp only [beq_self_eq_true, ↓reduceIte, hl, Option.map_some]
      rw [← hr2, hb.1]; rfl

theorem skipOne_shapes {V} (cm : Chans V) (hnd : (akeys cm).Nodup) (s from_ : Key) :
    shapes (skipOne true cm s from_).1 = shapes cm := by
  unfold skipOne
  simp only [Bool.not_true, Bool.false_eq_true, ↓reduceIte]
  cases hl : alookup s cm with
  | none => rfl
  | some c0 =>
    simp only
    apply shapes_modChan
    intro c hc
    have := alookup_of_mem_nodup cm hnd s c hc
    rw [hl] at this
    rw [← Option.some.inj this]
    exact (reportSkip_one c0 from_).1

theorem skipFold_K {V} {r : Runner V} {H : List (Done V)} (from_ : Key) (ss : List Key)
    (acc : Chans V × List Key) (hK : K r H acc.1) (hw : ∀ s, s ∈ acc.2 → skOf acc.1 s = 1)
    (hm : skOf acc.1 from_ = 1 ∨ ∀ s, s ∈ ss → ∃ o, (from_, o) ∈ H ∧ Deselects r from_ o s)
    (hwf : ∀ cm' : Chans V, shapes cm' = shapes acc.1 → ∀ s ∈ ss, ∀ c, (s, c) ∈ cm' →
        from_ ∈ akeys c.ctrl ∨ from_ ∈ akeys c.data) :
    K r H (ss.foldl (skipStep true from_) acc).1 ∧
    (∀ p, skOf acc.1 p = 1 → skOf (ss.foldl (skipStep true from_) acc).1 p = 1) ∧
    (∀ s, s ∈ (ss.foldl (skipStep true from_) acc).2 → skOf (ss.foldl (skipStep true from_) acc).1 s = 1) ∧
    shapes (ss.foldl (skipStep true from_) acc).1 = shapes acc.1 := by
  induction ss generalizing acc with
  | nil => exact ⟨hK, fun p h => h, hw, rfl⟩
  | cons s t ih =>
    simp only [List.foldl_cons]
    have hms : MaySkip r H acc.1 from_ s := by
      rcases hm with h | h
      · exact Or.inl h
      · exact Or.inr (h s (by simp))
    obtain ⟨j1, j2, j3⟩ := skipOne_K hK s from_ hms (hwf acc.1 rfl s (by simp))
    have jsh := skipOne_shapes acc.1 hK.nd s from_
    have hstep1 : (skipStep true from_ acc s).1 = (skipOne true acc.1 s from_).1 := rfl
    have hstep2 : (skipStep true from_ acc s).2 =
        if (skipOne true acc.1 s from_).2 then acc.2 ++ [s] else acc.2 := rfl
    obtain ⟨i1, i2, i3, i4⟩ := ih (skipStep true from_ acc s) (by rw [hstep1]; exact j1)
      (by
        intro x hx
        rw [hstep1]
        rw [hstep2] at hx
        by_cases hb : (skipOne true acc.1 s from_).2 = true
        · simp only [hb, ↓reduceIte, List.mem_append, List.mem_singleton] at hx
          rcases hx with hx | rfl
          · exact j2 x (hw x hx)
          · exact j3 hb
        · simp only [hb, Bool.false_eq_true, ↓reduceIte] at hx
          exact j2 x (hw x hx))
      (by
        rcases hm with h | h
        · left; rw [hstep1]; exact j2 from_ h
        · right; intro s' hs'; exact h s' (List.mem_cons_of_mem _ hs'))
      (fun cm' h s' hs' => hwf cm' (by rw [h, hstep1]; exact jsh) s' (List.mem_cons_of_mem _ hs'))
    refine ⟨i1, fun p h => i2 p (by rw [hstep1]; exact j2 p h), i3, ?_⟩
    rw [i4, hstep1]; exact jsh

theorem propagate_K {V} {r : Runner V} {H : List (Done V)} (hd : r.dag = true) (hs : SuccOK r) :
    ∀ (fuel : Nat) (cm : Chans V) (wl : List Key) (cm' : Chans V), K r H cm →
      (∀ s, s ∈ wl → skOf cm s = 1) →
      shapes cm = shapes (initChans r) → propagateSkips r fuel cm wl = .ok cm' →
      K r H cm' ∧ shapes cm' = shapes (initChans r) ∧ (∀ p, skOf cm p = 1 → skOf cm' p = 1) := by
  intro fuel
  induction fuel with
  | zero =>
    intro cm wl cm' hK _ hsh h
    simp only [propagateSkips, Except.ok.injEq] at h
    subst h; exact ⟨hK, hsh, fun p h => h⟩
  | succ f ih =>
    intro cm wl cm' hK hw hsh h
    cases wl with
    | nil =>
      simp only [propagateSkips, Except.ok.injEq] at h
      subst h; exact ⟨hK, hsh, fun p h => h⟩
    | cons k rest =>
      simp only [propagateSkips] at h
      cases hn : r.node? k with
      | none => simp [hn] at h
      | some n =>
        simp only [hn, hd] at h
        obtain ⟨hmem, hkey⟩ := node?_some r k n hn
        have hp := hs n (Or.inl hmem)
        rw [hkey] at hp
        obtain ⟨j1, j2, j3, j4⟩ := skipFold_K (r := r) (H := H) k n.successors (cm, []) hK (by simp)
          (Or.inl (hw k (by simp)))
          (fun cm' h => predOK_use hp cm' (by rw [h]; exact hsh))
        obtain ⟨i1, i2, i3⟩ := ih _ _ cm' j1
          (by
            intro s hs'
            rcases List.mem_append.mp hs' with h1 | h1
            · exact j2 s (hw s (List.mem_cons_of_mem _ h1))
            · exact j3 s h1)
          (by rw [j4]; exact hsh) h
        exact ⟨i1, i2, fun p hp' => i3 p (j2 p hp')⟩

theorem reportBranch_K {V} {r : Runner V} {H : List (Done V)} (hd : r.dag = true) (hs : SuccOK r)
    (cm cm' : Chans V) (from_ : Key) (ss : List Key)
    (hp : PredOK (shapes (initChans r)) from_ ss)
    (hm : ∀ s, s ∈ ss → ∃ o, (from_, o) ∈ H ∧ Deselects r from_ o s)
    (hK : K r H cm) (hsh : shapes cm = shapes (initChans r))
    (h : reportBranch r cm from_ ss = .ok cm') :
    K r H cm' ∧ shapes cm' = shapes (initChans r) ∧ (∀ p, skOf cm p = 1 → skOf cm' p = 1) := by
  unfold reportBranch at h
  simp only [hd] at h
  obtain ⟨j1, j2, j3, j4⟩ := skipFold_K (r := r) (H := H) from_ ss (cm, []) hK (by simp) (Or.inr hm)
    (fun cm' h => predOK_use hp cm' (by rw [h]; exact hsh))
  obtain ⟨i1, i2, i3⟩ := propagate_K hd hs _ _ _ cm' j1 j3 (by rw [j4]; exact hsh) h
  exact ⟨i1, i2, fun p hp' => i3 p (j2 p hp')⟩

/-! ### resolving completed tasks -/

def WritesK {V} (r : Runner V) (H : List (Done V)) (ws : List (Key × List (Key × V))) : Prop :=
  ∀ to l, (to, l) ∈ ws → ∀ p v, (p, v) ∈ l → (p, v) ∈ H ∧
    ∃ nd, r.call? p = some nd ∧ (to ∈ nd.writeTo ∨ ∃ sel, selectOf nd v = .ok sel ∧ to ∈ sel)

def DepsK {V} (r : Runner V) (H : List (Done V)) (ds : List (Key × List Key)) : Prop :=
  ∀ to l, (to, l) ∈ ds → ∀ p, p ∈ l → ∃ o, (p, o) ∈ H ∧ RoutesC r p o to

theorem addWrite_K {V} (r : Runner V) (H : List (Done V)) (ws : List (Key × List (Key × V))) (to from_ : Key) (v : V)
    (h : WritesK r H ws) (hf : (from_, v) ∈ H)
    (hr : ∃ nd, r.call? from_ = some nd ∧ (to ∈ nd.writeTo ∨ ∃ sel, selectOf nd v = .ok sel ∧ to ∈ sel)) :
    WritesK r H (addWrite ws to from_ v) := by
  intro to' l hm p w hp
  unfold addWrite at hm
  rcases mem_aset _ _ _ _ _ hm with ⟨rfl, rfl⟩ | hm
  · rcases mem_aset _ _ _ _ _ hp with ⟨rfl, rfl⟩ | hp
    · exact ⟨hf, hr⟩
    · cases hl : alookup to' ws with
      | none => simp [hl] at hp
      | some l0 =>
        rw [hl] at hp
        exact h to' l0 (mem_of_alookup _ _ _ hl) p w hp
  · exact h to' l hm p w hp

theorem addDep_K {V} (r : Runner V) (H : List (Done V)) (ds : List (Key × List Key)) (to from_ : Key)
    (h : DepsK r H ds) (hr : ∃ o, (from_, o) ∈ H ∧ RoutesC r from_ o to) : DepsK r H (addDep ds to from_) := by
  intro to' l hm p hp
  unfold addDep at hm
  rcases mem_aset _ _ _ _ _ hm with ⟨rfl, rfl⟩ | hm
  · simp only [List.mem_append, List.mem_singleton] at hp
    rcases hp with hp | rfl
    · cases hl : alookup to' ds with
      | none => simp [hl] at hp
      | some l0 =>
        rw [hl] at hp
        exact h to' l0 (mem_of_alookup _ _ _ hl) p hp
    · exact hr
  · exact h to' l hm p hp

theorem foldl_addWrite_K {V} (r : Runner V) (H : List (Done V)) (from_ : Key) (v : V) (hf : (from_, v) ∈ H)
    (tg : List Key)
    (hr : ∀ to, to ∈ tg → ∃ nd, r.call? from_ = some nd ∧ (to ∈ nd.writeTo ∨ ∃ sel, selectOf nd v = .ok sel ∧ to ∈ sel))
    (ws : List (Key × List (Key × V))) (h : WritesK r H ws) :
    WritesK r H (tg.foldl (fun ws k => addWrite ws k from_ v) ws) := by
  induction tg generalizing ws with
  | nil => exact h
  | cons t rest ih =>
    exact ih (fun to hto => hr to (List.mem_cons_of_mem _ hto)) _ (addWrite_K r H ws t from_ v h hf (hr t (by simp)))

theorem foldl_addDep_K {V} (r : Runner V) (H : List (Done V)) (from_ : Key) (tg : List Key)
    (hr : ∀ to, to ∈ tg → ∃ o, (from_, o) ∈ H ∧ RoutesC r from_ o to)
    (ds : List (Key × List Key)) (h : DepsK r H ds) :
    DepsK r H (tg.foldl (fun ds k => addDep ds k from_) ds) := by
  induction tg generalizing ds with
  | nil => exact h
  | cons t rest ih =>
    exact ih (fun to hto => hr to (List.mem_cons_of_mem _ hto)) _ (addDep_K r H ds t from_ h (hr t (by simp)))

structure RK {V} (r : Runner V) (H : List (Done V)) (acc : Resolved V) : Prop where
  k : K r H acc.cm
  sh : shapes acc.cm = shapes (initChans r)
  ws : WritesK r H acc.writes
  ds : DepsK r H acc.deps

theorem resolveStep_K {V} {H : List (Done V)} (r : Runner V) (hd : r.dag = true) (hs : SuccOK r)
    (hk : r.start.key = START) (acc acc' : Resolved V) (t : Done V) (ht : t ∈ H)
    (hi : RK r H acc) (h : resolveStep r acc t = .ok acc') :
    RK r H acc' ∧ (∀ p, skOf acc.cm p = 1 → skOf acc'.cm p = 1) := by
  unfold resolveStep at h
  cases hc : r.call? t.1 with
  | none =>
    simp only [hc, pure, Except.pure, Except.ok.injEq] at h
    subst h; exact ⟨hi, fun p h => h⟩
  | some n =>
    simp only [hc, bind, Except.bind] at h
    obtain ⟨hn, hkey⟩ := call?_some r hk t.1 n hc
    cases hb : calcBranch r acc.cm n t.2 with
    | error e => simp [hb] at h
    | ok res =>
      obtain ⟨cm', sel⟩ := res
      simp only [hb, pure, Except.pure, Except.ok.injEq] at h
      subst h
      -- unpack calcBranch
      unfold calcBranch at hb
      cases h1 : selectOf n t.2 with
      | error e => simp [h1, bind, Except.bind] at hb
      | ok selected =>
        simp only [h1, bind, Except.bind] at hb
        cases h2 : reportBranch r acc.cm n.key (skippedOf n selected) with
        | error e => simp [h2] at hb
        | ok cm1 =>
          simp only [h2, pure, Except.pure, Except.ok.injEq, Prod.mk.injEq] at hb
          obtain ⟨rfl, rfl⟩ := hb
          have hT : (t.1, t.2) ∈ H := ht
          obtain ⟨j1, j2, j3⟩ := reportBranch_K (r := r) (H := H) hd hs acc.cm cm1 n.key (skippedOf n selected)
            (fun s hs' => hs n hn s (skippedOf_sub n selected s hs'))
            (fun s hs' => ⟨t.2, by rw [hkey]; exact hT, n, selected, by rw [hkey]; exact hc, h1, hs'⟩)
            hi.k hi.sh h2
          refine ⟨⟨j1, j2, ?_, ?_⟩, j3⟩
          · apply foldl_addWrite_K r H t.1 t.2 hT _ _ _ hi.ws
            intro to hto
            refine ⟨n, hc, ?_⟩
            rcases List.mem_append.mp hto with h | h
            · exact Or.inr ⟨selected, h1, h⟩
            · exact Or.inl h
          · apply foldl_addDep_K r H t.1 _ _ _
            · apply foldl_addDep_K r H t.1 _ _ _ hi.ds
              intro to hto
              exact ⟨t.2, hT, n, hc, Or.inl hto⟩
            · intro to hto
              exact ⟨t.2, hT, n, hc, Or.inr ⟨selected, h1, hto⟩⟩

theorem resolve_K {V} {H : List (Done V)} (r : Runner V) (hd : r.dag = true) (hs : SuccOK r)
    (hk : r.start.key = START) (done : List (Done V)) (hdone : ∀ t, t ∈ done → t ∈ H)
    (acc acc' : Resolved V) (hi : RK r H acc)
    (h : done.foldlM (resolveStep r) acc = .ok acc') :
    RK r H acc' ∧ (∀ p, skOf acc.cm p = 1 → skOf acc'.cm p = 1) := by
  induction done generalizing acc with
  | nil =>
    simp only [List.foldlM_nil, pure, Except.pure, Except.ok.injEq] at h
    subst h; exact ⟨hi, fun p h => h⟩
  | cons t rest ih =>
    simp only [List.foldlM_cons, bind, Except.bind] at h
    cases h1 : resolveStep r acc t with
    | error e => simp [h1] at h
    | ok acc1 =>
      simp only [h1] at h
      obtain ⟨a1, a2⟩ := resolveStep_K r hd hs hk acc acc1 t (hdone t (by simp)) hi h1
      obtain ⟨b1, b2⟩ := ih (fun t' ht' => hdone t' (List.mem_cons_of_mem _ ht')) acc1 a1 h
      exact ⟨b1, fun p hp => b2 p (a2 p hp)⟩

/-! ### updateValues / updateDependencies -/

theorem valsF_fold_vnodup {V} (ins : List (Key × V)) (c : Chan V) (h : (akeys c.values).Nodup) :
    (akeys (ins.foldl valsF c).values).Nodup := by
  induction ins generalizing c with
  | nil => exact h
  | cons kv t ih =>
    simp only [List.foldl_cons]
    apply ih
    unfold valsF
    split
    · exact nodup_akeys_aset _ _ _ h
    · exact h

theorem updateValues_K {V} {H : List (Done V)} (r : Runner V) (hd : r.dag = true)
    (writes : List (Key × List (Key × V))) (hw : WritesK r H writes) (cm : Chans V)
    (hK : K r H cm) (hsh : shapes cm = shapes (initChans r)) :
    K r H (updateValues r cm writes) ∧ shapes (updateValues r cm writes) = shapes (initChans r) ∧
    (∀ p, skOf (updateValues r cm writes) p = skOf cm p) := by
  unfold updateValues
  induction writes generalizing cm with
  | nil => exact ⟨hK, hsh, fun p => rfl⟩
  | cons w rest ih =>
    simp only [List.foldl_cons]
    have hins : ∀ p v, (p, v) ∈ (w.2.filter (fun kv => (lookupList w.1 r.dataPreds).contains kv.1)) →
        (p, v) ∈ H ∧ RoutesD r p v w.1 := by
      intro p v hp
      obtain ⟨h1, h2⟩ := List.mem_filter.mp hp
      obtain ⟨a, nd, b, c⟩ := hw w.1 w.2 (by simp) p v h1
      exact ⟨a, nd, b, c, by simpa using h2⟩
    generalize w.2.filter (fun kv => (lookupList w.1 r.dataPreds).contains kv.1) = ins at hins
    have key : ∀ c : Chan V,
        (shapeOf (c.reportValues true ins) = shapeOf c ∧ (c.reportValues true ins).skipped = c.skipped ∧
         (c.reportValues true ins).ctrl = c.ctrl ∧
         (∀ p v, (p, v) ∈ (c.reportValues true ins).values → (p, v) ∈ c.values ∨ (p, v) ∈ ins)) := by
      intro c
      rw [reportValues_eq]
      split
      · exact ⟨rfl, rfl, rfl, fun p d h => Or.inl h⟩
      · obtain ⟨a, b, c', _⟩ := valsF_fold ins c
        exact ⟨a, b, c', valsF_fold' ins c⟩
    have hk' := K_update hK w.1 (fun c => c.reportValues r.dag ins)
      (fun c hc p hp => by rw [hd, (key c).2.2.1] at hp; exact Or.inl hp)
      (fun c hc p hp => by rw [hd, (key c).2.2.1] at hp; exact Or.inl hp)
      (fun c hc p v hp => by
        rw [hd] at hp
        rcases (key c).2.2.2 p v hp with h | h
        · exact Or.inl h
        · exact Or.inr (hins p v h))
      (fun c hc hne hall => by
        rw [hd] at hne hall ⊢
        rw [(key c).2.2.1] at hne hall
        rw [(key c).2.1]
        exact hK.flag _ c hc hne hall)
      (fun c hc => by
        rw [hd]
        have ho := hK.sk _ _ hc
        obtain ⟨k1, k2, k3, _⟩ := key c
        refine ⟨fun h => ?_, fun h hnil => ?_⟩
        · rw [k2] at h; rw [k3]; exact ho.all h
        · rw [k2] at h; rw [k3] at hnil
          -- data entries only gain `true`s; a witness in the old channel stays
          rw [reportValues_eq]
          rw [h]
          simp only [↓reduceIte]
          exact ho.wit h hnil)
      (fun c hc h => by rw [hd, (key c).2.1]; exact h)
      (fun c hc p hp => by
        rw [hd, reportValues_eq] at hp
        split at hp
        · exact Or.inl hp
        · rcases (valsF_fold ins c).2.2.2 p true hp with h | ⟨h1, _⟩
          · exact Or.inl h
          · obtain ⟨v, hv⟩ := exists_of_mem_akeys _ _ h1
            exact Or.inr (Or.inl ⟨v, (hins p v hv).1⟩))
      (fun c hc hnd => by
        rw [hd, reportValues_eq]
        split
        · exact hnd
        · exact valsF_fold_vnodup ins c hnd)
    have hsk : ∀ p, skOf (modChan cm w.1 (fun c => c.reportValues r.dag ins)) p = skOf cm p := by
      intro p
      unfold skOf
      rw [alookup_modChan]
      by_cases hpk : (p == w.1) = true
      · simp only [hpk, ↓reduceIte]
        cases alookup p cm with
        | none => rfl
        | some c => simp only [Option.map_some]; rw [hd, (key c).2.1]
      · simp only [hpk, Bool.false_eq_true, ↓reduceIte]
    obtain ⟨i1, i2, i3⟩ := ih (fun to l hm => hw to l (List.mem_cons_of_mem _ hm)) _ hk'
      (by rw [shapes_modChan _ _ _ (fun c hc => by rw [hd]; exact (key c).1)]; exact hsh)
    exact ⟨i1, i2, fun p => by rw [i3 p, hsk p]⟩

theorem updateDeps_K {V} {H : List (Done V)} (r : Runner V) (hd : r.dag = true)
    (deps : List (Key × List Key)) (hw : DepsK r H deps) (cm : Chans V)
    (hK : K r H cm) (hsh : shapes cm = shapes (initChans r)) :
    K r H (updateDeps r cm deps) ∧ shapes (updateDeps r cm deps) = shapes (initChans r) ∧
    (∀ p, skOf (updateDeps r cm deps) p = skOf cm p) := by
  unfold updateDeps
  induction deps generalizing cm with
  | nil => exact ⟨hK, hsh, fun p => rfl⟩
  | cons w rest ih =>
    simp only [List.foldl_cons]
    have hins : ∀ p, p ∈ w.2.filter (lookupList w.1 r.ctrlPreds).contains → ∃ o, (p, o) ∈ H ∧ RoutesC r p o w.1 := by
      intro p hp
      exact hw w.1 w.2 (by simp) p (List.mem_filter.mp hp).1
    generalize w.2.filter (lookupList w.1 r.ctrlPreds).contains = ins at hins
    have key : ∀ c : Chan V,
        (shapeOf (c.reportDeps true ins) = shapeOf c ∧ (c.reportDeps true ins).skipped = c.skipped ∧
         (c.reportDeps true ins).data = c.data ∧ (c.reportDeps true ins).values = c.values ∧
         (∀ p d, (p, d) ∈ (c.reportDeps true ins).ctrl → (p, d) ∈ c.ctrl ∨ (d = Dep.ready ∧ p ∈ ins)) ∧
         (∀ p d, (p, d) ∈ c.ctrl → (p, d) ∈ (c.reportDeps true ins).ctrl ∨ (p, Dep.ready) ∈ (c.reportDeps true ins).ctrl)) := by
      intro c
      rw [reportDeps_eq]
      split
      · exact ⟨rfl, rfl, rfl, rfl, fun p d h => Or.inl h, fun p d h => Or.inl h⟩
      · obtain ⟨a, b, c', _⟩ := depsF_fold ins c
        obtain ⟨d1, d2, d3⟩ := depsF_fold' ins c
        exact ⟨a, b, c', d1, d2, d3⟩
    have hk' := K_update hK w.1 (fun c => c.reportDeps r.dag ins)
      (fun c hc p hp => by
        rw [hd] at hp
        rcases (key c).2.2.2.2.1 p _ hp with h | ⟨_, h⟩
        · exact Or.inl h
        · exact Or.inr (hins p h))
      (fun c hc p hp => by
        rw [hd] at hp
        rcases (key c).2.2.2.2.1 p _ hp with h | ⟨h, _⟩
        · exact Or.inl h
        · cases h)
      (fun c hc p v hp => by rw [hd, (key c).2.2.2.1] at hp; exact Or.inl hp)
      (fun c hc hne hall => by
        rw [hd] at hne hall ⊢
        obtain ⟨k1, k2, _, _, _, k6⟩ := key c
        rw [k2]
        apply hK.flag _ c hc
        · intro hnil
          apply hne
          have := congrArg Prod.fst k1
          simp only [shapeOf] at this
          rw [hnil] at this
          cases hcc : (c.reportDeps true ins).ctrl with
          | nil => rfl
          | cons a b => rw [hcc] at this; simp [akeys] at this
        · intro p d hp
          rcases k6 p d hp with h | h
          · exact hall p d h
          · have := hall p Dep.ready h
            cases this)
      (fun c hc => by
        rw [hd]
        have ho := hK.sk _ _ hc
        rw [reportDeps_eq]
        split
        · exact ho
        · rename_i hns
          have k2' := (depsF_fold ins c).2.1
          refine ⟨fun h => ?_, fun h => ?_⟩
          · rw [k2'] at h; exact absurd h hns
          · rw [k2'] at h; exact absurd h hns)
      (fun c hc h => by rw [hd, (key c).2.1]; exact h)
      (fun c hc p hp => by rw [hd, (key c).2.2.1] at hp; exact Or.inl hp)
      (fun c hc hnd => by rw [hd, (key c).2.2.2.1]; exact hnd)
    have hsk : ∀ p, skOf (modChan cm w.1 (fun c => c.reportDeps r.dag ins)) p = skOf cm p := by
      intro p
      unfold skOf
      rw [alookup_modChan]
      by_cases hpk : (p == w.1) = true
      · simp only [hpk, ↓reduceIte]
        cases alookup p cm with
        | none => rfl
        | some c => simp only [Option.map_some]; rw [hd, (key c).2.1]
      · simp only [hpk, Bool.false_eq_true, ↓reduceIte]
    obtain ⟨i1, i2, i3⟩ := ih (fun to l hm => hw to l (List.mem_cons_of_mem _ hm)) _ hk'
      (by rw [shapes_modChan _ _ _ (fun c hc => by rw [hd]; exact (key c).1)]; exact hsh)
    exact ⟨i1, i2, fun p => by rw [i3 p, hsk p]⟩

/-! ### the justification of a start -/

theorem SkippedIn.mono {V} {r : Runner V} {H H' : List (Done V)} (hh : ∀ d, d ∈ H → d ∈ H') {n : Key}
    (h : SkippedIn r H n) : SkippedIn r H' n := by
  induction h with
  | intro n _ ih =>
    refine SkippedIn.intro n (fun p hp hnd => ih p hp (fun ⟨o, ho, hd⟩ => hnd ⟨o, hh _ ho, hd⟩))

theorem Justified.mono {V} {ops : ValOps V} {r : Runner V} {H H' : List (Done V)} (hh : ∀ d, d ∈ H → d ∈ H')
    {n : Key} {v : V} (h : Justified ops r H n v) : Justified ops r H' n v := by
  obtain ⟨h1, h2, vals, h3, h4⟩ := h
  refine ⟨fun p hp => ?_, fun hne => ?_, vals, fun p w hw => ?_, h4⟩
  · rcases h1 p hp with ⟨o, ho, hr⟩ | hs | ⟨o, ho, hr⟩
    · exact Or.inl ⟨o, hh _ ho, hr⟩
    · exact Or.inr (Or.inl (hs.mono hh))
    · exact Or.inr (Or.inr ⟨o, hh _ ho, hr⟩)
  · obtain ⟨p, hp, o, ho, hr⟩ := h2 hne
    exact ⟨p, hp, o, hh _ ho, hr⟩
  · obtain ⟨a, b⟩ := h3 p w hw
    exact ⟨hh _ a, b⟩

/-- the channels' own predecessor keys are the declared ones -/
theorem chan_ctrl_keys {V} (r : Runner V) (hd : r.dag = true) (cm : Chans V)
    (hsh : shapes cm = shapes (initChans r)) (hnd : (akeys cm).Nodup) (n : Key) (c : Chan V) (hc : (n, c) ∈ cm) :
    ∀ p, p ∈ lookupList n r.ctrlPreds ↔ p ∈ akeys c.ctrl := by
  have hm := shapes_mem cm n c hc
  rw [hsh] at hm
  simp only [shapes, List.mem_map] at hm
  obtain ⟨⟨n0, c0⟩, hc0, he⟩ := hm
  simp only [Prod.mk.injEq] at he
  obtain ⟨rfl, he⟩ := he
  have e1 : akeys c0.ctrl = akeys c.ctrl := by
    have := congrArg Prod.fst he
    simpa [shapeOf] using this
  have hinit : c0 = Chan.init true (lookupList n0 r.ctrlPreds) (lookupList n0 r.dataPreds) := by
    simp only [initChans, List.mem_append, List.mem_map, List.mem_singleton, Prod.mk.injEq] at hc0
    rcases hc0 with ⟨nd, _, rfl, rfl⟩ | ⟨rfl, rfl⟩
    · rw [hd]
    · rw [hd]
  intro p
  rw [← e1, hinit]
  simp only [Chan.init, ↓reduceIte, akeys, List.map_map]
  simp [Function.comp]

/-- a channel flagged skipped is skipped in the specification's sense -/
theorem skOf_skippedIn {V} {r : Runner V} {H : List (Done V)} (hd : r.dag = true) (cm : Chans V) (hK : K r H cm)
    (hsh : shapes cm = shapes (initChans r)) (rank : Key → Nat)
    (hrank : ∀ n cs ds, (n, cs, ds) ∈ shapes (initChans r) → ∀ p, p ∈ cs ∨ p ∈ ds → rank p < rank n) :
    ∀ n, skOf cm n = 1 → SkippedIn r H n := by
  intro n
  induction hr : rank n using Nat.strongRecOn generalizing n with
  | _ m ih =>
    intro hs
    unfold skOf at hs
    cases hl : alookup n cm with
    | none => rw [hl] at hs; simp at hs
    | some c =>
      rw [hl] at hs
      have hc := mem_of_alookup _ _ _ hl
      have hsk : c.skipped = true := by
        by_cases h : c.skipped = true
        · exact h
        · simp [h] at hs
      refine SkippedIn.intro n (fun p hp hnd => ?_)
      have hpk := (chan_ctrl_keys r hd cm hsh hK.nd n c hc p).mp hp
      obtain ⟨d, hdm⟩ := exists_of_mem_akeys _ _ hpk
      have hds := (hK.sk n c hc).all hsk p d hdm
      subst hds
      rcases hK.skp n c hc p hdm with h | h
      · have hlt : rank p < rank n := by
          apply hrank n (akeys c.ctrl) (akeys c.data) _ p (Or.inl hpk)
          rw [← hsh]; exact shapes_mem cm n c hc
        exact ih (rank p) (by rw [← hr]; exact hlt) p rfl h
      · exact absurd h hnd

theorem getReady_K {V} {r : Runner V} {H : List (Done V)} (ops : ValOps V) (cm : Chans V) (hK : K r H cm) :
    K r H (getReady ops true cm).1 := by
  obtain ⟨g1, _, g3⟩ := getReady_facts ops cm
  refine ⟨?_, ?_, ?_, ?_, ?_, by rw [g1]; exact hK.nd, ?_, ?_⟩
  rotate_left 5
  · intro n c' hm p hp
    obtain ⟨c, hc, h⟩ := g3 n c' hm
    rw [getReady_skOf]
    rcases h with ⟨_, rfl⟩ | ⟨_, rfl, _⟩
    · have := (reset_facts c).2.2.2 p _ hp; cases this
    · exact hK.dat n c' hc p hp
  · intro n c' hm
    obtain ⟨c, hc, h⟩ := g3 n c' hm
    rcases h with ⟨_, rfl⟩ | ⟨_, rfl, _⟩
    · simp [Chan.reset, akeys]
    · exact hK.vnd n c' hc
  · intro n c' hm p hp
    obtain ⟨c, hc, h⟩ := g3 n c' hm
    rcases h with ⟨_, rfl⟩ | ⟨_, rfl, _⟩
    · have := (reset_facts c).2.2.1 p _ hp; cases this
    · exact hK.rdy n c' hc p hp
  · intro n c' hm p hp
    obtain ⟨c, hc, h⟩ := g3 n c' hm
    rw [getReady_skOf]
    rcases h with ⟨_, rfl⟩ | ⟨_, rfl, _⟩
    · have := (reset_facts c).2.2.1 p _ hp; cases this
    · exact hK.skp n c' hc p hp
  · intro n c' hm p v hp
    obtain ⟨c, hc, h⟩ := g3 n c' hm
    rcases h with ⟨_, rfl⟩ | ⟨_, rfl, _⟩
    · simp [Chan.reset] at hp
    · exact hK.val n c' hc p v hp
  · intro n c' hm hne hall
    obtain ⟨c, hc, h⟩ := g3 n c' hm
    rcases h with ⟨_, rfl⟩ | ⟨_, rfl, _⟩
    · exfalso
      cases hcc : c.reset.ctrl with
      | nil => exact hne hcc
      | cons a b =>
        have hm' : (a.1, a.2) ∈ c.reset.ctrl := by rw [hcc]; simp
        have h1 := (reset_facts c).2.2.1 a.1 a.2 hm'
        have h2 := hall a.1 a.2 hm'
        rw [h1] at h2; cases h2
    · exact hK.flag n c' hc hne hall
  · intro n c' hm
    obtain ⟨c, hc, h⟩ := g3 n c' hm
    rcases h with ⟨ht, rfl⟩ | ⟨_, rfl, _⟩
    · obtain ⟨t0, _, _, _⟩ := triggered_unpack c ht
      refine ⟨fun h => ?_, fun h => ?_⟩ <;>
      · rw [(reset_facts c).2.1, t0] at h; exact absurd h (by simp)
    · exact hK.sk n c' hc

/-- whatever `getFromReadyChannels` hands out is justified -/
theorem getReady_justified {V} {r : Runner V} {H : List (Done V)} (ops : ValOps V) (hd : r.dag = true)
    (cm : Chans V) (hK : K r H cm) (hsh : shapes cm = shapes (initChans r)) (rank : Key → Nat)
    (hrank : ∀ n cs ds, (n, cs, ds) ∈ shapes (initChans r) → ∀ p, p ∈ cs ∨ p ∈ ds → rank p < rank n) :
    ∀ n v, (n, v) ∈ (getReady ops true cm).2.1 → Justified ops r H n v := by
  -- a ready pair comes from a triggered channel whose `get` produced the value
  have src : ∀ (cm : Chans V) n v, (n, v) ∈ (getReady ops true cm).2.1 →
      ∃ c, (n, c) ∈ cm ∧ c.triggered = true ∧ (c.get ops true).2 = .ready v := by
    intro cm
    induction cm with
    | nil => intro n v h; simp [getReady] at h
    | cons q t ih =>
      obtain ⟨k, c⟩ := q
      intro n v h
      simp only [getReady] at h
      cases hg : (c.get ops true).2 with
      | notReady =>
        simp only [hg] at h
        obtain ⟨c0, a, b⟩ := ih n v h
        exact ⟨c0, List.mem_cons_of_mem _ a, b⟩
      | mergeErr =>
        simp only [hg] at h
        obtain ⟨c0, a, b⟩ := ih n v h
        exact ⟨c0, List.mem_cons_of_mem _ a, b⟩
      | ready w =>
        simp only [hg, List.mem_cons, Prod.mk.injEq] at h
        rcases h with ⟨rfl, rfl⟩ | h
        · refine ⟨c, by simp, ?_, hg⟩
          by_cases ht : c.triggered = true
          · exact ht
          · unfold Chan.get at hg; simp [ht] at hg
        · obtain ⟨c0, a, b⟩ := ih n v h
          exact ⟨c0, List.mem_cons_of_mem _ a, b⟩
  intro n v hnv
  obtain ⟨c, hc, ht, hg⟩ := src cm n v hnv
  obtain ⟨t0, _, t1, _⟩ := triggered_unpack c ht
  have keys := chan_ctrl_keys r hd cm hsh hK.nd n c hc
  refine ⟨fun p hp => ?_, fun hne => ?_, c.values, fun p w hw => hK.val n c hc p w hw, ?_⟩
  · obtain ⟨d, hdm⟩ := exists_of_mem_akeys _ _ ((keys p).mp hp)
    have hpend := t1 p d hdm
    cases d with
    | waiting => simp [pendC] at hpend
    | ready => exact Or.inl (hK.rdy n c hc p hdm)
    | skipped =>
      rcases hK.skp n c hc p hdm with h | h
      · exact Or.inr (Or.inl (skOf_skippedIn hd cm hK hsh rank hrank p h))
      · exact Or.inr (Or.inr h)
  · -- not skipped and it has control entries: one of them is ready
    have hcne : c.ctrl ≠ [] := by
      intro hnil
      cases hll : lookupList n r.ctrlPreds with
      | nil => exact hne hll
      | cons a b =>
        have := (keys a).mp (by rw [hll]; simp)
        rw [hnil] at this; simp [akeys] at this
    have : ¬ (∀ p d, (p, d) ∈ c.ctrl → d = Dep.skipped) := by
      intro hall
      have := hK.flag n c hc hcne hall
      rw [t0] at this; cases this
    have hex : ∃ p d, (p, d) ∈ c.ctrl ∧ d ≠ Dep.skipped := by
      apply Classical.byContradiction
      intro hno
      apply this
      intro p d hm
      apply Classical.byContradiction
      intro hd'
      exact hno ⟨p, d, hm, hd'⟩
    obtain ⟨p, d, hm, hns⟩ := hex
    have hpend := t1 p d hm
    cases d with
    | waiting => simp [pendC] at hpend
    | skipped => exact absurd rfl hns
    | ready =>
      exact ⟨p, (keys p).mpr (mem_akeys_of_mem p _ _ hm), hK.rdy n c hc p hm⟩
  · unfold Chan.get at hg
    simp only [↓reduceIte, ht] at hg
    by_cases hv : c.values.isEmpty = true
    · simp only [hv, ↓reduceIte, GetResult.ready.injEq] at hg
      exact Or.inl ⟨by simpa [List.isEmpty_iff] using hv, hg.symm⟩
    · simp only [hv, Bool.false_eq_true, ↓reduceIte] at hg
      exact Or.inr hg

/-! ### one scheduling round, the loop, the run -/

theorem calcNext_K {V} {H : List (Done V)} (ops : ValOps V) (r : Runner V) (hd : r.dag = true) (hs : SuccOK r)
    (hk : r.start.key = START) (rank : Key → Nat)
    (hrank : ∀ n cs ds, (n, cs, ds) ∈ shapes (initChans r) → ∀ p, p ∈ cs ∨ p ∈ ds → rank p < rank n)
    (cm cm' : Chans V) (done : List (Done V)) (nx : Next V)
    (hK : K r H cm) (hsh : shapes cm = shapes (initChans r)) (hdone : ∀ t, t ∈ done → t ∈ H)
    (h : calcNext ops r cm done = .ok (cm', nx)) :
    K r H cm' ∧ shapes cm' = shapes (initChans r) ∧
    ((∃ v, nx = .result v ∧ Justified ops r H END v) ∨
     (∃ ts, nx = .tasks ts ∧ ∀ n v, (n, v) ∈ ts → Justified ops r H n v)) := by
  unfold calcNext at h
  cases h1 : resolve r cm done with
  | error e => simp [h1, bind, Except.bind] at h
  | ok res =>
    simp only [h1, bind, Except.bind] at h
    obtain ⟨hr, _⟩ := resolve_K r hd hs hk done hdone { cm := cm, writes := [], deps := [] } res
      ⟨hK, hsh, fun _ _ hm => by simp at hm, fun _ _ hm => by simp at hm⟩ h1
    obtain ⟨u1, u2, _⟩ := updateValues_K r hd res.writes hr.ws res.cm hr.k hr.sh
    obtain ⟨v1, v2, _⟩ := updateDeps_K r hd res.deps hr.ds _ u1 u2
    have g1 := getReady_K ops _ v1
    have g2 := getReady_justified ops hd _ v1 v2 rank hrank
    have g3 := (getReady_J (F := fun _ => 0) (Cp := fun _ => 0) ops
      (updateDeps r (updateValues r res.cm res.writes) res.deps))
    have gsh : shapes (getReady ops true (updateDeps r (updateValues r res.cm res.writes) res.deps)).1 =
        shapes (updateDeps r (updateValues r res.cm res.writes) res.deps) := by
      -- shapes are preserved by getReady (independent of the counting invariant)
      generalize (updateDeps r (updateValues r res.cm res.writes) res.deps) = cm0
      induction cm0 with
      | nil => simp [getReady, shapes]
      | cons q t ih =>
        obtain ⟨k, c⟩ := q
        have hfst : (getReady ops true ((k, c) :: t)).1 = (k, (c.get ops true).1) :: (getReady ops true t).1 := by
          simp only [getReady]
          cases (c.get ops true).2 <;> rfl
        rw [hfst]
        simp only [shapes, List.map_cons] at ih ⊢
        rw [ih]
        congr 2
        unfold Chan.get; simp only [↓reduceIte]; split
        · exact (reset_facts c).1
        · rfl
    clear g3
    rw [hd] at h
    generalize hg : getReady ops true (updateDeps r (updateValues r res.cm res.writes) res.deps) = gr at h g1 g2 gsh
    obtain ⟨cm3, ready, bad⟩ := gr
    simp only at h g1 g2 gsh
    by_cases hbad : bad = true
    · simp [hbad, throw, throwThe, MonadExceptOf.throw] at h
    · simp only [hbad, Bool.false_eq_true, ↓reduceIte] at h
      split at h
      · rename_i v hv
        simp only [pure, Except.pure, Except.ok.injEq, Prod.mk.injEq] at h
        obtain ⟨rfl, rfl⟩ := h
        exact ⟨g1, by rw [gsh]; exact v2, Or.inl ⟨v, rfl, g2 END v (mem_of_alookup _ _ _ hv)⟩⟩
      · simp only [pure, Except.pure, Except.ok.injEq, Prod.mk.injEq] at h
        obtain ⟨rfl, rfl⟩ := h
        exact ⟨g1, by rw [gsh]; exact v2, Or.inr ⟨ready, rfl, g2⟩⟩

theorem histOf_mono {V} (r : Runner V) (x : V) (step : List (Key × V)) (older : Trace V) :
    ∀ d, d ∈ histOf r x older → d ∈ histOf r x (step :: older) := by
  intro d hd
  simp only [histOf, List.mem_cons, List.flatten_cons, List.filterMap_append, List.mem_append] at hd ⊢
  rcases hd with h | h
  · exact Or.inl h
  · exact Or.inr (Or.inr h)

theorem mapM_collectOne_mem {V} (l : List (Key × Except Err V)) (ds : List (Done V))
    (h : l.mapM collectOne = .ok ds) : ∀ d, d ∈ ds → ∃ t, t ∈ l ∧ collectOne t = .ok d := by
  induction l generalizing ds with
  | nil => simp [pure, Except.pure] at h; subst h; intro d hd; simp at hd
  | cons a t ih =>
    simp only [List.mapM_cons, bind, Except.bind] at h
    cases ha : collectOne a with
    | error e => simp [ha] at h
    | ok x =>
      simp only [ha] at h
      cases ht : List.mapM collectOne t with
      | error e => simp [ht] at h
      | ok d' =>
        simp only [ht, pure, Except.pure, Except.ok.injEq] at h
        subst h
        intro d hd
        rcases List.mem_cons.mp hd with rfl | hd
        · exact ⟨a, by simp, ha⟩
        · obtain ⟨t', h1, h2⟩ := ih d' ht d hd
          exact ⟨t', List.mem_cons_of_mem _ h1, h2⟩

theorem runTasks_mem {V} (r : Runner V) (sched : Sched V) (hf : sched.Fair) (step : Nat)
    (ts : List (Key × V)) (done : List (Done V)) (h : runTasks r sched step ts = .ok done) :
    ∀ d, d ∈ done → ∃ t, t ∈ ts ∧ outOf r t = some d := by
  unfold runTasks at h
  intro d hd
  obtain ⟨e, he, hc⟩ := mapM_collectOne_mem _ _ h d hd
  have : e ∈ ts.map (execOne r) := (hf step _).subset he
  obtain ⟨t, ht, rfl⟩ := List.mem_map.mp this
  exact ⟨t, ht, by simp [outOf, hc]⟩

structure KInv {V} (ops : ValOps V) (r : Runner V) (x : V) (cm : Chans V) (tasks : List (Key × V)) (tr : Trace V) : Prop where
  k : K r (histOf r x tr) cm
  sh : shapes cm = shapes (initChans r)
  just : JustTr ops r x (tasks :: tr)

theorem loop_justified {V} (ops : ValOps V) (r : Runner V) (wf : DagWF r) (sched : Sched V) (hf : sched.Fair) (x : V) :
    ∀ (fuel : Nat) (cm : Chans V) (tasks : List (Key × V)) (tr : Trace V), KInv ops r x cm tasks tr →
      JustTr ops r x (loop ops r sched fuel cm tasks tr).trace.reverse ∧
      (∀ v, (loop ops r sched fuel cm tasks tr).result = .ok v →
        Justified ops r (histOf r x (loop ops r sched fuel cm tasks tr).trace.reverse) END v) := by
  obtain ⟨rank, hrank⟩ := wf.acyclic
  intro fuel
  induction fuel with
  | zero =>
    intro cm tasks tr h
    simp only [loop, List.reverse_reverse]
    exact ⟨h.just.2, fun v hv => by simp at hv⟩
  | succ f ih =>
    intro cm tasks tr h
    unfold loop
    simp only
    cases hr : runTasks r sched tr.length tasks with
    | error e => simp only [List.reverse_reverse]; exact ⟨h.just, fun v hv => by simp at hv⟩
    | ok done =>
      simp only
      by_cases he : done.isEmpty = true
      · simp only [he, ↓reduceIte, List.reverse_reverse]; exact ⟨h.just, fun v hv => by simp at hv⟩
      · simp only [he, Bool.false_eq_true, ↓reduceIte]
        have hK' : K r (histOf r x (tasks :: tr)) cm := K_mono h.k (histOf_mono r x tasks tr)
        have hdone : ∀ t, t ∈ done → t ∈ histOf r x (tasks :: tr) := by
          intro d hd
          obtain ⟨t, ht, ho⟩ := runTasks_mem r sched hf _ _ _ hr d hd
          simp only [histOf, List.mem_cons, List.flatten_cons, List.filterMap_append, List.mem_append,
            List.mem_filterMap]
          exact Or.inr (Or.inl ⟨t, ht, ho⟩)
        cases hc : calcNext ops r cm done with
        | error e => simp only [List.reverse_reverse]; exact ⟨h.just, fun v hv => by simp at hv⟩
        | ok res =>
          obtain ⟨cm', nx⟩ := res
          obtain ⟨j1, j2, j3⟩ := calcNext_K ops r wf.dag wf.succ wf.startKey rank hrank cm cm' done nx hK' h.sh hdone hc
          rcases j3 with ⟨v, rfl, hj⟩ | ⟨ts, rfl, hj⟩
          · simp only [List.reverse_reverse]
            exact ⟨h.just, fun w hw => by simp only [Except.ok.injEq] at hw; subst hw; exact hj⟩
          · simp only
            exact ih cm' ts (tasks :: tr) ⟨j1, j2, hj, h.just⟩

theorem init_K {V} (r : Runner V) (hd : r.dag = true) (hnd : (akeys (initChans r)).Nodup) (H : List (Done V)) :
    K r H (initChans r) := by
  have hinit : ∀ n c, (n, c) ∈ initChans r →
      (∀ p d, (p, d) ∈ c.ctrl → d = Dep.waiting) ∧ c.values = [] ∧ c.skipped = false := by
    intro n c hm
    simp only [initChans, List.mem_append, List.mem_map, List.mem_singleton, Prod.mk.injEq] at hm
    have hci : ∀ (a b : List Key), (∀ p d, (p, d) ∈ (Chan.init (V := V) true a b).ctrl → d = Dep.waiting) ∧
        (Chan.init (V := V) true a b).values = [] ∧ (Chan.init (V := V) true a b).skipped = false := by
      intro a b
      simp only [Chan.init, ↓reduceIte, List.mem_map, Prod.mk.injEq]
      refine ⟨?_, trivial, trivial⟩
      rintro p d ⟨_, _, _, rfl⟩; rfl
    rcases hm with ⟨nd, _, _, rfl⟩ | ⟨_, rfl⟩
    · rw [hd]; exact hci _ _
    · rw [hd]; exact hci _ _
  have hdat : ∀ n c, (n, c) ∈ initChans r → ∀ p b, (p, b) ∈ c.data → b = false := by
    intro n c hm
    simp only [initChans, List.mem_append, List.mem_map, List.mem_singleton, Prod.mk.injEq] at hm
    have hci : ∀ (a b : List Key), ∀ p d, (p, d) ∈ (Chan.init (V := V) true a b).data → d = false := by
      intro a b p d
      simp only [Chan.init, ↓reduceIte, List.mem_map, Prod.mk.injEq]
      rintro ⟨_, _, _, rfl⟩; rfl
    rcases hm with ⟨nd, _, _, rfl⟩ | ⟨_, rfl⟩
    · rw [hd]; exact hci _ _
    · rw [hd]; exact hci _ _
  refine ⟨?_, ?_, ?_, ?_, ?_, hnd, ?_, ?_⟩
  rotate_left 5
  · intro n c hm p hp
    have := hdat n c hm p _ hp; cases this
  · intro n c hm
    rw [(hinit n c hm).2.1]; simp [akeys]
  · intro n c hm p hp
    have := (hinit n c hm).1 p _ hp; cases this
  · intro n c hm p hp
    have := (hinit n c hm).1 p _ hp; cases this
  · intro n c hm p v hp
    rw [(hinit n c hm).2.1] at hp; simp at hp
  · intro n c hm hne hall
    exfalso
    cases hcc : c.ctrl with
    | nil => exact hne hcc
    | cons a b =>
      have hm' : (a.1, a.2) ∈ c.ctrl := by rw [hcc]; simp
      have h1 := (hinit n c hm).1 a.1 a.2 hm'
      have h2 := hall a.1 a.2 hm'
      rw [h1] at h2; cases h2
  · intro n c hm
    have := (hinit n c hm).2.2
    exact ⟨fun h => by rw [this] at h; exact absurd h (by simp), fun h => by rw [this] at h; exact absurd h (by simp)⟩

/-- **every start is justified, and so is the result.**  In a run of a well-formed acyclic
    all-predecessor runner, under any fair completion schedule: every task of every step is
    justified by the completions of the older steps, and a returned value is END's justified
    input. -/
theorem run_justified {V} (ops : ValOps V) (r : Runner V) (wf : DagWF r) (sched : Sched V) (hf : sched.Fair) (x : V) :
    JustTr ops r x (runS ops r sched x).trace.reverse ∧
    (∀ v, (runS ops r sched x).result = .ok v →
      Justified ops r (histOf r x (runS ops r sched x).trace.reverse) END v) := by
  obtain ⟨rank, hrank⟩ := wf.acyclic
  unfold runS
  cases hc : calcNext ops r (initChans r) [(START, x)] with
  | error e => exact ⟨trivial, fun v hv => by simp at hv⟩
  | ok res =>
    obtain ⟨cm', nx⟩ := res
    obtain ⟨j1, j2, j3⟩ := calcNext_K (H := histOf r x []) ops r wf.dag wf.succ wf.startKey rank hrank
      (initChans r) cm' [(START, x)] nx (init_K r wf.dag wf.nodup _) rfl
      (by intro t ht; simp only [List.mem_singleton] at ht; subst ht; simp [histOf]) hc
    rcases j3 with ⟨v, rfl, hj⟩ | ⟨ts, rfl, hj⟩
    · simp only [List.reverse_nil]
      exact ⟨trivial, fun w hw => by simp only [Except.ok.injEq] at hw; subst hw; exact hj⟩
    · simp only
      exact loop_justified ops r wf sched hf x _ cm' ts [] ⟨j1, j2, hj, trivial⟩

end DagRun
end EinoV.Engine
