/-
  C04 — the four calls of a compiled graph of packed components agree (`Model/C04Graph.lean`).
  Helper lemmas and the hypothesis `MergeLaw`; the property statements are in
  EinoV/Props/C04.lean.

  Route: the value-mode runner is the stream-mode runner translated along concatenation
  (`tnC`, `tbC`: run the stream form on the one-chunk stream and concatenate), every node of
  the stream-mode runner satisfies `NodeOK` / `BranchOK` for `h` = concatenation and `P` =
  "the stream has a chunk", the stream fan-in against a value merge obeying `MergeLaw`
  satisfies `FanInOK` in both trigger modes, so the relativised engine homomorphism
  (`run_hom_keeps_on`, `Proofs/EngineHom.lean`) applies.  A graph used as a node satisfies
  the same node equation (`ActOK`), which closes the induction on the nesting depth.
-/
import EinoV.Model.C04Graph
import EinoV.Proofs.C04
import EinoV.Proofs.EngineHom

namespace EinoV.C04
open EinoV.Engine

variable {V : Type}

/-- The value merge agrees with stream fan-in: merging the concatenations of two or more
    non-empty streams gives the concatenation of the merged stream (`concatD` is `concat`
    with a default, equal to `concat` on non-empty streams when concatenation is total).

    Holds for merges that are "concatenation across sources", e.g. `Nat` with sum as both
    concatenation and merge (`natMergeLaw`), maps whose sources carry disjoint key sets,
    commutative-monoid-like custom merge functions.  It FAILS for eino's default map merge
    when two sources share a key: `mergeValues` rejects the duplicate key (Invoke fails with
    a merge error) while the merged stream simply carries both chunks and concatenates —
    that is the recorded known finding `C04:paradigms:err-merge-vs-ok`. -/
structure MergeLaw (co : ChunkOps V) (d : V) (opsV : ValOps V) : Prop where
  merge : ∀ ls : List (List V), 2 ≤ ls.length → (∀ l ∈ ls, l ≠ []) →
    opsV.merge (ls.map (concatD co d)) = some (concatD co d ls.flatten)

/-- the node equation: the Invoke form on the concatenation of a non-empty stream is the
    Transform form on the stream, concatenated (errors included); the Transform form never
    emits the empty stream -/
def ActOK (co : ChunkOps V) (d : V) (i : V → Except Err V) (t : List V → Except Err (List V)) : Prop :=
  (∀ a, a ≠ [] → i (concatD co d a) = (t a).map (concatD co d)) ∧
  (∀ a a', a ≠ [] → t a = .ok a' → a' ≠ [])

theorem concatD_single (co : ChunkOps V) (d v : V) : concatD co d [v] = v := rfl

section
variable (co : ChunkOps V) (d : V) (hct : ∀ l, l ≠ [] → ∃ v, concat co l = .ok v)
include hct

/-- from the node equation: the calls agree -/
theorem ActOK.transform_concat {i : V → Except Err V} {t : List V → Except Err (List V)}
    (hA : ActOK co d i t) (xs : List V) (hxs : xs ≠ []) :
    (t xs >>= concat co) = (concat co xs >>= i) := by
  rw [← map_eq_bind_concat co d hct (t xs) (fun a' h' => hA.2 xs a' hxs h'), ← hA.1 xs hxs,
    concat_eq_concatD co d hct xs hxs]
  rfl

theorem ActOK.stream_concat {i : V → Except Err V} {t : List V → Except Err (List V)}
    (hA : ActOK co d i t) (x : V) : (t [x] >>= concat co) = i x := by
  rw [hA.transform_concat co d hct [x] (by simp)]
  rfl

end

/-! ### the translation of the stream-mode runner -/

/-- a stream-mode branch read in value mode: decide on the one-chunk stream -/
def tbC (b : Branch (List V)) : Branch V :=
  { ends := b.ends, noData := b.noData, cond := fun v => b.cond [v] }

/-- a stream-mode node read in value mode: run on the one-chunk stream, concatenate -/
def tnC (co : ChunkOps V) (n : Node (List V)) : Node V :=
  { key := n.key, act := fun v => n.act [v] >>= concat co, writeTo := n.writeTo, controls := n.controls,
    branches := n.branches.map tbC }

theorem tbC_collected (co : ChunkOps V) (b : Branch V) : tbC (collected co b) = b := by
  cases b; rfl

theorem map_tbC_collected (co : ChunkOps V) (l : List (Branch V)) : (l.map (collected co)).map tbC = l := by
  induction l with
  | nil => rfl
  | cons b t ih => simp only [List.map_cons, tbC_collected, ih]

section
variable (co : ChunkOps V) (d : V) (hct : ∀ l, l ≠ [] → ∃ v, concat co l = .ok v)
include hct

theorem branchOK_collected (b : Branch V) :
    BranchOK (concatD co d) (fun a : List V => a ≠ []) (collected co b) (tbC (collected co b)) := by
  rw [tbC_collected]
  refine ⟨rfl, rfl, ?_⟩
  intro a ha
  simp only [collected, concat_eq_concatD co d hct a ha]
  rfl

variable {S : Type} (pref : Pref) (sem : SubSem V S)

theorem tnC_streamNode (n : GNode V S)
    (hA : ActOK co d (n.kind.actI co pref sem) (n.kind.actT co pref sem)) :
    tnC co (n.streamNode co pref sem) = n.valueNode co pref sem := by
  unfold tnC GNode.streamNode GNode.valueNode
  simp only [map_tbC_collected]
  congr 1
  funext v
  exact hA.stream_concat co d hct v

theorem nodeOK_streamNode (n : GNode V S)
    (hA : ActOK co d (n.kind.actI co pref sem) (n.kind.actT co pref sem)) :
    NodeOK (concatD co d) (fun a : List V => a ≠ []) tbC (n.streamNode co pref sem)
      (tnC co (n.streamNode co pref sem)) := by
  rw [tnC_streamNode co d hct pref sem n hA]
  exact {
    key := rfl
    writeTo := rfl
    controls := rfl
    branches := (map_tbC_collected co n.branches).symm
    act := hA.1
    keeps := fun a a' ha h' => hA.2 a a' ha h' }

theorem mapNodes_streamRunner (g : GraphOf V S)
    (hk : ∀ n, (n = g.start ∨ n ∈ g.nodes) → ActOK co d (n.kind.actI co pref sem) (n.kind.actT co pref sem)) :
    (g.streamRunner co pref sem).mapNodes (tnC co) = g.valueRunner co pref sem := by
  unfold Runner.mapNodes GraphOf.streamRunner GraphOf.valueRunner
  simp only [List.map_map]
  congr 1
  · apply List.map_congr_left
    intro n hn
    exact tnC_streamNode co d hct pref sem n (hk n (Or.inr hn))
  · exact tnC_streamNode co d hct pref sem g.start (hk g.start (Or.inl rfl))

end

theorem flatten_ne_nil (ls : List (List V)) (h2 : 2 ≤ ls.length) (hne : ∀ l ∈ ls, l ≠ []) : ls.flatten ≠ [] := by
  match ls, h2 with
  | a :: rest, _ =>
    intro hf
    simp only [List.flatten_cons, List.append_eq_nil_iff] at hf
    exact hne a (by simp) hf.1

/-- the stream fan-in against a value merge obeying `MergeLaw`, either trigger mode: the
    stream-mode zero `[z]` is non-empty and concatenates to the value-mode zero `z` -/
theorem fanInOK_of_mergeLaw (co : ChunkOps V) (d : V) (opsV : ValOps V) (hml : MergeLaw co d opsV) (dag : Bool) :
    FanInOK dag (concatD co d) (fun a : List V => a ≠ []) (opsS opsV.zero) opsV where
  merge := by
    intro l h2 hl
    rw [hml.merge l h2 hl]
    rfl
  mergeKeeps := by
    intro l m h2 hl hm
    simp only [opsS, Option.some.injEq] at hm
    subst hm
    exact flatten_ne_nil l h2 hl
  zero := fun _ => ⟨by simp [opsS], rfl⟩

/-! ### one graph, its graph nodes satisfying the node equation -/

section
variable (co : ChunkOps V) (d : V) (hct : ∀ l, l ≠ [] → ∃ v, concat co l = .ok v)
variable (opsV : ValOps V) (hml : MergeLaw co d opsV)
variable {S : Type} (pref : Pref) (sem : SubSem V S)
include hct hml

/-- the value-mode run on the concatenated input is the stream-mode run, concatenated:
    result, error and per-step trace; a successful stream-mode run returns a non-empty stream -/
theorem graphOf_run_hom (g : GraphOf V S)
    (hk : ∀ n, (n = g.start ∨ n ∈ g.nodes) → ActOK co d (n.kind.actI co pref sem) (n.kind.actT co pref sem))
    (sS : Sched (List V)) (sV : Sched V) (hs : SchedHom (concatD co d) sS sV) (hsub : SchedSub sS)
    (xs : List V) (hxs : xs ≠ []) :
    runS opsV (g.valueRunner co pref sem) sV (concatD co d xs)
      = (runS (opsS opsV.zero) (g.streamRunner co pref sem) sS xs).mapO (concatD co d) ∧
    (∀ v, (runS (opsS opsV.zero) (g.streamRunner co pref sem) sS xs).result = .ok v → v ≠ []) := by
  rw [← mapNodes_streamRunner co d hct pref sem g hk]
  have hmem : ∀ m, (g.streamRunner co pref sem).Has m →
      ∃ n, (n = g.start ∨ n ∈ g.nodes) ∧ m = n.streamNode co pref sem := by
    intro m hm
    rcases hm with rfl | hm
    · exact ⟨g.start, Or.inl rfl, rfl⟩
    · simp only [GraphOf.streamRunner, List.mem_map] at hm
      obtain ⟨n, hn, rfl⟩ := hm
      exact ⟨n, Or.inr hn, rfl⟩
  have hfan := fanInOK_of_mergeLaw co d opsV hml (g.streamRunner co pref sem).dag
  apply run_hom_keeps_on (concatD co d) (fun a : List V => a ≠ []) tbC (tnC co)
    (g.streamRunner co pref sem) ?_ ?_ (opsS opsV.zero) opsV hfan sS sV hs hsub xs hxs
  · intro m hm b hb
    obtain ⟨n, _, rfl⟩ := hmem m hm
    simp only [GNode.streamNode, List.mem_map] at hb
    obtain ⟨b0, _, rfl⟩ := hb
    exact branchOK_collected co d hct b0
  · intro m hm
    obtain ⟨n, hn, rfl⟩ := hmem m hm
    exact nodeOK_streamNode co d hct pref sem n (hk n hn)

/-- the compiled graph itself satisfies the node equation -/
theorem graphOf_actOK (g : GraphOf V S)
    (hk : ∀ n, (n = g.start ∨ n ∈ g.nodes) → ActOK co d (n.kind.actI co pref sem) (n.kind.actT co pref sem)) :
    ActOK co d (g.invoke co pref opsV sem) (g.transform co pref opsV sem) := by
  refine ⟨?_, ?_⟩
  · intro a ha
    have := (graphOf_run_hom co d hct opsV hml pref sem g hk Sched.id Sched.id (fun _ _ => rfl)
      (fun _ _ _ hx => hx) a ha).1
    exact congrArg Outcome.result this
  · intro a a' ha h'
    exact (graphOf_run_hom co d hct opsV hml pref sem g hk Sched.id Sched.id (fun _ _ => rfl)
      (fun _ _ _ hx => hx) a ha).2 a' h'

end

/-! ### the node kinds -/

theorem actOK_pass (co : ChunkOps V) (d : V) : ActOK co d (.ok) (.ok) := by
  refine ⟨fun _ _ => rfl, ?_⟩
  intro a a' ha h'
  injection h' with h'
  subst h'
  exact ha

theorem actOK_comp (co : ChunkOps V) (d : V) (hct : ∀ l, l ≠ [] → ∃ v, concat co l = .ok v)
    (c : Comp V) (hc : c.Valid co) :
    ActOK co d (c.packed co Expected.C04.packerPref).i (c.packed co Expected.C04.packerPref).t :=
  ⟨fun a ha => packed_component_commutes co d hct c.f c.chunk hc.chunkConcat hc.chunkNonempty
      c.hasI c.hasS c.hasC c.hasT hc.native a ha,
   fun a a' _ h' => packed_t_nonempty co c.f c.chunk hc.chunkNonempty c.hasI c.hasS c.hasC c.hasT hc.native a a' h'⟩

theorem actOK_kind (co : ChunkOps V) (d : V) (hct : ∀ l, l ≠ [] → ∃ v, concat co l = .ok v)
    {S : Type} (sem : SubSem V S) (subOK : S → Prop)
    (hsub : ∀ s, subOK s → ActOK co d (sem.i s) (sem.t s)) (k : Kind V S) (hk : k.OK co subOK) :
    ActOK co d (k.actI co Expected.C04.packerPref sem) (k.actT co Expected.C04.packerPref sem) := by
  cases k with
  | comp c => exact actOK_comp co d hct c hk
  | pass => exact actOK_pass co d
  | graph s => exact hsub s hk

/-! ### every nesting depth -/

theorem graph_actOK (co : ChunkOps V) (d : V) (hct : ∀ l, l ≠ [] → ∃ v, concat co l = .ok v)
    (opsV : ValOps V) (hml : MergeLaw co d opsV) :
    ∀ (n : Nat) (g : Graph V n), Graph.OK co n g →
      ActOK co d (invoke co Expected.C04.packerPref opsV g) (transform co Expected.C04.packerPref opsV g) := by
  intro n
  induction n with
  | zero =>
    intro g hg
    exact graphOf_actOK co d hct opsV hml Expected.C04.packerPref emptySem g
      (fun m hm => actOK_kind co d hct emptySem (fun _ => True) (fun s _ => s.elim) m.kind (hg m hm))
  | succ n ih =>
    intro g hg
    exact graphOf_actOK co d hct opsV hml Expected.C04.packerPref (graphSem co Expected.C04.packerPref opsV n) g
      (fun m hm => actOK_kind co d hct (graphSem co Expected.C04.packerPref opsV n) (Graph.OK co n)
        (fun s hs => ih s hs) m.kind (hg m hm))

/-- the per-step traces as well, under any pair of corresponding schedules -/
theorem graph_run_hom (co : ChunkOps V) (d : V) (hct : ∀ l, l ≠ [] → ∃ v, concat co l = .ok v)
    (opsV : ValOps V) (hml : MergeLaw co d opsV) (n : Nat) (g : Graph V n) (hg : Graph.OK co n g)
    (sS : Sched (List V)) (sV : Sched V) (hs : SchedHom (concatD co d) sS sV) (hsub : SchedSub sS)
    (xs : List V) (hxs : xs ≠ []) :
    runS opsV (valueRunner co Expected.C04.packerPref opsV g) sV (concatD co d xs)
      = (runS (opsS opsV.zero) (streamRunner co Expected.C04.packerPref opsV g) sS xs).mapO (concatD co d) := by
  cases n with
  | zero =>
    exact (graphOf_run_hom co d hct opsV hml Expected.C04.packerPref emptySem g
      (fun m hm => actOK_kind co d hct emptySem (fun _ => True) (fun s _ => s.elim) m.kind (hg m hm))
      sS sV hs hsub xs hxs).1
  | succ n =>
    exact (graphOf_run_hom co d hct opsV hml Expected.C04.packerPref (graphSem co Expected.C04.packerPref opsV n) g
      (fun m hm => actOK_kind co d hct (graphSem co Expected.C04.packerPref opsV n) (Graph.OK co n)
        (fun s hs => graph_actOK co d hct opsV hml n s hs) m.kind (hg m hm))
      sS sV hs hsub xs hxs).1

/-! ### a shallower graph where a deeper one is expected (`Graph.lift`) -/

section
variable (co : ChunkOps V) (pref : Pref) {S S' : Type} (f : S → S') (sem : SubSem V S) (sem' : SubSem V S')

theorem actI_mapSub (hi : ∀ s, sem'.i (f s) = sem.i s) (k : Kind V S) :
    (k.mapSub f).actI co pref sem' = k.actI co pref sem := by
  cases k with
  | comp c => rfl
  | pass => rfl
  | graph s => exact hi s

theorem actT_mapSub (ht : ∀ s, sem'.t (f s) = sem.t s) (k : Kind V S) :
    (k.mapSub f).actT co pref sem' = k.actT co pref sem := by
  cases k with
  | comp c => rfl
  | pass => rfl
  | graph s => exact ht s

theorem valueRunner_mapSub (hi : ∀ s, sem'.i (f s) = sem.i s) (g : GraphOf V S) :
    (g.mapSub f).valueRunner co pref sem' = g.valueRunner co pref sem := by
  have hn : ∀ n : GNode V S, (n.mapSub f).valueNode co pref sem' = n.valueNode co pref sem := by
    intro n
    simp only [GNode.valueNode, GNode.mapSub, actI_mapSub co pref f sem sem' hi]
  simp only [GraphOf.valueRunner, GraphOf.mapSub, List.map_map, hn]
  congr 1
  exact List.map_congr_left (fun n _ => hn n)

theorem streamRunner_mapSub (ht : ∀ s, sem'.t (f s) = sem.t s) (g : GraphOf V S) :
    (g.mapSub f).streamRunner co pref sem' = g.streamRunner co pref sem := by
  have hn : ∀ n : GNode V S, (n.mapSub f).streamNode co pref sem' = n.streamNode co pref sem := by
    intro n
    simp only [GNode.streamNode, GNode.mapSub, actT_mapSub co pref f sem sem' ht]
  simp only [GraphOf.streamRunner, GraphOf.mapSub, List.map_map, hn]
  congr 1
  exact List.map_congr_left (fun n _ => hn n)

theorem ok_mapSub (subOK : S → Prop) (subOK' : S' → Prop) (hok : ∀ s, subOK' (f s) ↔ subOK s) (g : GraphOf V S) :
    (g.mapSub f).OK co subOK' ↔ g.OK co subOK := by
  have hk : ∀ k : Kind V S, (k.mapSub f).OK co subOK' ↔ k.OK co subOK := by
    intro k
    cases k with
    | comp c => exact Iff.rfl
    | pass => exact Iff.rfl
    | graph s => exact hok s
  unfold GraphOf.OK
  constructor
  · intro h2 n hn
    apply (hk n.kind).mp
    apply h2 (n.mapSub f)
    rcases hn with rfl | hn
    · exact Or.inl rfl
    · exact Or.inr (List.mem_map.mpr ⟨n, hn, rfl⟩)
  · intro h2 m hm
    rcases hm with rfl | hm
    · exact (hk g.start.kind).mpr (h2 g.start (Or.inl rfl))
    · simp only [GraphOf.mapSub, List.mem_map] at hm
      obtain ⟨n, hn, rfl⟩ := hm
      exact (hk n.kind).mpr (h2 n (Or.inr hn))

end

theorem lift_sem (co : ChunkOps V) (pref : Pref) (opsV : ValOps V) :
    ∀ (n : Nat) (g : Graph V n),
      (graphSem co pref opsV (n + 1)).i (Graph.lift n g) = (graphSem co pref opsV n).i g ∧
      (graphSem co pref opsV (n + 1)).t (Graph.lift n g) = (graphSem co pref opsV n).t g := by
  intro n
  induction n with
  | zero =>
    intro g
    refine ⟨?_, ?_⟩
    · funext x
      show (run opsV (GraphOf.valueRunner co pref (graphSem co pref opsV 0) (GraphOf.mapSub _ g)) x).result = _
      rw [valueRunner_mapSub co pref (fun e : Empty => e.elim) emptySem (graphSem co pref opsV 0) (fun s => s.elim) g]
      rfl
    · funext x
      show (run (opsS opsV.zero) (GraphOf.streamRunner co pref (graphSem co pref opsV 0) (GraphOf.mapSub _ g)) x).result = _
      rw [streamRunner_mapSub co pref (fun e : Empty => e.elim) emptySem (graphSem co pref opsV 0) (fun s => s.elim) g]
      rfl
  | succ n ih =>
    intro g
    refine ⟨?_, ?_⟩
    · funext x
      show (run opsV (GraphOf.valueRunner co pref (graphSem co pref opsV (n + 1)) (GraphOf.mapSub (Graph.lift n) g)) x).result = _
      rw [valueRunner_mapSub co pref (Graph.lift n) (graphSem co pref opsV n) (graphSem co pref opsV (n + 1))
        (fun s => (ih s).1) g]
      rfl
    · funext x
      show (run (opsS opsV.zero) (GraphOf.streamRunner co pref (graphSem co pref opsV (n + 1)) (GraphOf.mapSub (Graph.lift n) g)) x).result = _
      rw [streamRunner_mapSub co pref (Graph.lift n) (graphSem co pref opsV n) (graphSem co pref opsV (n + 1))
        (fun s => (ih s).2) g]
      rfl

theorem lift_ok (co : ChunkOps V) : ∀ (n : Nat) (g : Graph V n), Graph.OK co (n + 1) (Graph.lift n g) ↔ Graph.OK co n g := by
  intro n
  induction n with
  | zero =>
    intro g
    exact ok_mapSub co (fun e : Empty => e.elim) (fun _ => True) (Graph.OK co 0) (fun s => s.elim) g
  | succ n ih =>
    intro g
    exact ok_mapSub co (Graph.lift n) (Graph.OK co n) (Graph.OK co (n + 1)) (fun s => ih s) g

end EinoV.C04
