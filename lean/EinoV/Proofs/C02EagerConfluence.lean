/-
  Schedule independence for the eager (Workflow) loop: the processed history of every state the
  loop passes through is grounded, so two eager runs under two completion orders — and an eager
  run and a batch run — that both return a value return the same value.
-/
import EinoV.Proofs.C02Confluence
import EinoV.Proofs.C02EagerExact

namespace EinoV.Engine
namespace DagRun

theorem histC_mono_comp {V} (r : Runner V) (x : V) (bs : List (List (Key × V))) (comp : List Key) (k : Key) :
    ∀ d, d ∈ histC r x bs comp → d ∈ histC r x bs (comp ++ [k]) := by
  intro d hd
  simp only [histC, List.mem_cons, List.mem_filterMap, List.mem_filter] at hd ⊢
  rcases hd with h | ⟨u, ⟨hu, hcu⟩, ho⟩
  · exact Or.inl h
  · refine Or.inr ⟨u, ⟨hu, ?_⟩, ho⟩
    exact List.contains_iff_mem.mpr (List.mem_append_left _ (List.contains_iff_mem.mp hcu))

/-- the eager invariant extended with the start facts of everything submitted -/
structure EFInv {V} (ops : ValOps V) (r : Runner V) (x : V) (cm : Chans V) (running : List (Key × V))
    (bs : List (List (Key × V))) (comp : List Key) : Prop where
  xi : EXInv ops r x cm running bs comp
  facts : ∀ n v, (n, v) ∈ bs.flatten →
    ∃ H', (∀ d, d ∈ H' → d ∈ histC r x bs comp) ∧ StartFacts ops r H' n v
  nodes : ∀ t, t ∈ bs.flatten → (r.node? t.1).isSome = true

/-- the facts needed about one processed completion, shared by the step and the result case -/
theorem eager_round {V} (ops : ValOps V) (r : Runner V) (wf : DagWF r) (wf2 : DagWF2 r) (wf3 : DagWF3 r) (pick : Pick V) (x : V)
    (cm cm' : Chans V) (running : List (Key × V)) (bs : List (List (Key × V))) (comp : List Key)
    (t : Key × V) (d : Done V) (nx : Next V)
    (h : EFInv ops r x cm running bs comp)
    (hp : running[pick running % running.length]? = some t)
    (hce : collectOne (execOne r t) = .ok d)
    (hc : calcNext ops r cm [d] = .ok (cm', nx)) :
    ∃ ready : List (Key × V),
      ((nx = .tasks ready ∧ alookup END ready = none) ∨ ∃ v, nx = .result v ∧ alookup END ready = some v) ∧
      ∀ n v, (n, v) ∈ ready → (keysOfTr bs).count n = 0 → StartFacts ops r (histC r x bs (comp ++ [t.1])) n v := by
  obtain ⟨rank, hrank, _⟩ := wf3.acyclicAll
  have hd := collect_exec_key r t d hce
  have htr : t ∈ running := List.mem_of_getElem? hp
  have hout : outOf r t = some d := by simp [outOf, hce]
  have htb : t ∈ bs.flatten := h.xi.c.k.run t htr
  have hdH : d ∈ histC r x bs (comp ++ [t.1]) := by
    simp only [histC, List.mem_cons, List.mem_filterMap, List.mem_filter]
    exact Or.inr ⟨t, ⟨htb, List.contains_iff_mem.mpr (by simp)⟩, hout⟩
  have hKm : K r (histC r x bs (comp ++ [t.1])) cm := K_mono h.xi.kc (histC_mono_comp r x bs comp t.1)
  have hcnt := einv_bound r wf cm running bs comp h.xi.c.e
  have hF0 : (keysOfTr bs).count START = 0 := by
    by_cases h0 : 0 < (keysOfTr bs).count START
    · obtain ⟨cs, ds, hmm, _⟩ := h.xi.c.e.pos START h0
      have := mem_akeys_of_mem START (cs, ds) _ hmm
      rw [shapes_keys] at this
      exact absurd this wf.startFresh
    · omega
  have task_of : ∀ p o, (p, o) ∈ histC r x bs (comp ++ [t.1]) →
      (p, o) = (START, x) ∨ ∃ u, u ∈ bs.flatten ∧ u.1 ∈ comp ++ [t.1] ∧ outOf r u = some (p, o) := by
    intro p o hm
    simp only [histC, List.mem_cons, List.mem_filterMap, List.mem_filter] at hm
    rcases hm with hm | ⟨u, ⟨hu, hcu⟩, ho⟩
    · exact Or.inl hm
    · exact Or.inr ⟨u, hu, List.contains_iff_mem.mp hcu, ho⟩
  have nostart : ∀ u, u ∈ bs.flatten → u.1 ≠ START := by
    intro u hu e
    have : START ∈ keysOfTr bs := by simp only [keysOfTr, List.mem_map]; exact ⟨u, hu, e⟩
    have := List.count_pos_iff.mpr this
    omega
  have hfn : ∀ p o o', (p, o) ∈ histC r x bs (comp ++ [t.1]) → (p, o') ∈ histC r x bs (comp ++ [t.1]) → o = o' := by
    intro p o o' hm hm'
    rcases task_of p o hm with e | ⟨u, hu, _, ho⟩
    · rcases task_of p o' hm' with e' | ⟨u', hu', _, ho'⟩
      · rw [(Prod.mk.inj e).2, (Prod.mk.inj e').2]
      · exact absurd (by rw [← outOf_key r u' (p, o') ho']; exact (Prod.mk.inj e).1) (nostart u' hu')
    · rcases task_of p o' hm' with e' | ⟨u', hu', _, ho'⟩
      · exact absurd (by rw [← outOf_key r u (p, o) ho]; exact (Prod.mk.inj e').1) (nostart u hu)
      · have k1 := outOf_key r u (p, o) ho
        have k2 := outOf_key r u' (p, o') ho'
        simp only at k1 k2
        have : u = u' := unique_by_key bs.flatten p (by simpa [keysOfTr, akeys] using hcnt p) u u' hu hu' k1.symm k2.symm
        subst this
        rw [ho] at ho'
        exact (Prod.mk.inj (Option.some.inj ho')).2
  have hH : ∀ p o, (p, o) ∈ histC r x bs (comp ++ [t.1]) → (p, o) ∈ histC r x bs comp ∨ (p, o) ∈ [d] := by
    intro p o hm
    by_cases hpk : p = t.1
    · right
      have := hfn p o d.2 hm (by
        have : (p, d.2) = d := by ext <;> simp [hpk, hd]
        rw [this]; exact hdH)
      simp only [List.mem_singleton]
      ext <;> simp [hpk, hd, this]
    · left
      rcases task_of p o hm with e | ⟨u, hu, hmem, ho⟩
      · simp [histC, e]
      · have hku := outOf_key r u (p, o) ho
        simp only at hku
        have hmem' : u.1 ∈ comp := by
          rcases List.mem_append.mp hmem with h1 | h1
          · exact h1
          · simp only [List.mem_singleton] at h1
            exact absurd (by rw [hku, h1]) hpk
        simp only [histC, List.mem_cons, List.mem_filterMap, List.mem_filter]
        exact Or.inr ⟨u, ⟨hu, List.contains_iff_mem.mpr hmem'⟩, ho⟩
  exact round_start_facts (F := fun n => (keysOfTr bs).count n) ops r wf.dag wf.succ
    wf2.pc wf2.pd wf.startFresh wf.startKey wf3.hasCtrl rank hrank cm cm' [d] nx
    (histC r x bs (comp ++ [t.1])) (fun p o => (p, o) ∈ histC r x bs comp)
    hKm h.xi.c.e.sh
    (by intro t' ht'; simp only [List.mem_singleton] at ht'; subst ht'; exact hdH)
    hH hfn h.xi.c.rq h.xi.rv
    (by
      intro t' ht'
      simp only [List.mem_singleton] at ht'
      subst ht'
      rw [hd]; exact h.xi.c.call t htr)
    hc

theorem histC_append_batch {V} (r : Runner V) (x : V) (bs : List (List (Key × V))) (comp : List Key) (ts : List (Key × V)) :
    ∀ d, d ∈ histC r x bs comp → d ∈ histC r x (bs ++ [ts]) comp := by
  intro d hd
  simp only [histC, List.mem_cons, List.mem_filterMap, List.mem_filter] at hd ⊢
  rcases hd with h | ⟨u, ⟨hu, hcu⟩, ho⟩
  · exact Or.inl h
  · exact Or.inr ⟨u, ⟨by simp [hu], hcu⟩, ho⟩

theorem EFInv_init {V} (ops : ValOps V) (r : Runner V) (wf : DagWF r) (wf2 : DagWF2 r) (wf3 : DagWF3 r) (x : V)
    (cm : Chans V) (ts : List (Key × V))
    (hc : calcNext ops r (initChans r) [(START, x)] = .ok (cm, .tasks ts)) : EFInv ops r x cm ts [ts] [] := by
  have hxi := (EXInv_init ops r wf wf2 x cm ts hc).1
  obtain ⟨s1, _⟩ := FInv_start ops r wf wf2 wf3 x cm (.tasks ts) hc
  have hfi := s1 ts rfl
  have hH : histC r x [ts] [] = histOf r x ([] : Trace V) := by simp [histC, histOf]
  refine ⟨hxi, ?_, ?_⟩
  · intro n v hm
    refine ⟨histOf r x [], by rw [hH]; exact fun _ h => h, ?_⟩
    exact hfi.facts.1 n v (by simpa using hm)
  · intro t ht
    exact hfi.nodes t (by simpa using ht)

theorem EFInv_step {V} (ops : ValOps V) (r : Runner V) (wf : DagWF r) (wf2 : DagWF2 r) (wf3 : DagWF3 r) (pick : Pick V) (x : V)
    (cm cm' : Chans V) (running ts : List (Key × V)) (bs : List (List (Key × V))) (comp : List Key)
    (t : Key × V) (d : Done V)
    (h : EFInv ops r x cm running bs comp)
    (hp : running[pick running % running.length]? = some t)
    (hce : collectOne (execOne r t) = .ok d)
    (hc : calcNext ops r cm [d] = .ok (cm', .tasks ts)) :
    EFInv ops r x cm' (running.eraseIdx (pick running % running.length) ++ ts) (bs ++ [ts]) (comp ++ [t.1]) := by
  have hxi := (EXInv_step ops r wf wf2 pick x cm cm' running ts bs comp t d h.xi hp hce hc).1
  obtain ⟨ready, hnx, hfacts⟩ := eager_round ops r wf wf2 wf3 pick x cm cm' running bs comp t d _ h hp hce hc
  have hready : ready = ts := by
    rcases hnx with ⟨e, _⟩ | ⟨v, e, _⟩
    · cases e; rfl
    · cases e
  subst hready
  have hcnt := einv_bound r wf cm' _ (bs ++ [ready]) (comp ++ [t.1]) hxi.c.e
  have hF0 : ∀ u, u ∈ ready → (keysOfTr bs).count u.1 = 0 := by
    intro u hu
    have hb := hcnt u.1
    rw [keysOfTr_append_single, List.count_append] at hb
    have : 0 < (akeys ready).count u.1 := List.count_pos_iff.mpr (mem_akeys_of_mem u.1 u.2 _ hu)
    omega
  refine ⟨hxi, ?_, ?_⟩
  · intro n v hm
    simp only [List.flatten_append, List.flatten_cons, List.flatten_nil, List.append_nil, List.mem_append] at hm
    rcases hm with hm | hm
    · obtain ⟨H', sub, f⟩ := h.facts n v hm
      exact ⟨H', fun e he => histC_mono r x bs comp ready t.1 e (sub e he), f⟩
    · refine ⟨histC r x bs (comp ++ [t.1]), fun e he => histC_append_batch r x bs _ ready e he, ?_⟩
      exact hfacts n v hm (hF0 (n, v) hm)
  · intro u hu
    simp only [List.flatten_append, List.flatten_cons, List.flatten_nil, List.append_nil, List.mem_append] at hu
    rcases hu with hu | hu
    · exact h.nodes u hu
    · have hcall := hxi.c.call u (List.mem_append_right _ hu)
      have hne : u.1 ≠ START := by
        intro e
        have hpos := hxi.c.e.pos u.1 (by
          rw [keysOfTr_append_single, List.count_append]
          have : 0 < (akeys ready).count u.1 := List.count_pos_iff.mpr (mem_akeys_of_mem u.1 u.2 _ hu)
          omega)
        obtain ⟨cs, ds, hmm, _⟩ := hpos
        have := mem_akeys_of_mem u.1 (cs, ds) _ hmm
        rw [shapes_keys, e] at this
        exact wf.startFresh this
      exact node_of_call r u.1 hcall hne

theorem ereach_EFInv {V} (ops : ValOps V) (r : Runner V) (wf : DagWF r) (wf2 : DagWF2 r) (wf3 : DagWF3 r) (pick : Pick V) (x : V)
    (cm : Chans V) (running : List (Key × V)) (bs : List (List (Key × V))) (comp : List Key)
    (h : EReach ops r pick x cm running bs comp) : EFInv ops r x cm running bs comp := by
  induction h with
  | init cm ts hc => exact EFInv_init ops r wf wf2 wf3 x cm ts hc
  | step cm cm' running ts bs comp t d _ hp hce hn ih =>
    exact EFInv_step ops r wf wf2 wf3 pick x cm cm' running ts bs comp t d ih hp hce hn

/-- the processed history of a state the eager loop passes through is grounded -/
theorem grounded_of_ereach {V} (ops : ValOps V) (r : Runner V) (wf : DagWF r) (wf2 : DagWF2 r) (wf3 : DagWF3 r) (pick : Pick V) (x : V)
    (cm : Chans V) (running : List (Key × V)) (bs : List (List (Key × V))) (comp comp' : List Key)
    (h : EReach ops r pick x cm running bs comp) (hsub : ∀ d, d ∈ histC r x bs comp → d ∈ histC r x bs comp')
    : Grounded ops r x (histC r x bs comp') := by
  have hi := ereach_EFInv ops r wf wf2 wf3 pick x cm running bs comp h
  have hcnt := einv_bound r wf cm running bs comp hi.xi.c.e
  have hF0 : (keysOfTr bs).count START = 0 := by
    by_cases h0 : 0 < (keysOfTr bs).count START
    · obtain ⟨cs, ds, hmm, _⟩ := hi.xi.c.e.pos START h0
      have := mem_akeys_of_mem START (cs, ds) _ hmm
      rw [shapes_keys] at this
      exact absurd this wf.startFresh
    · omega
  have task_of : ∀ p o, (p, o) ∈ histC r x bs comp' →
      (p, o) = (START, x) ∨ ∃ u, u ∈ bs.flatten ∧ outOf r u = some (p, o) := by
    intro p o hm
    simp only [histC, List.mem_cons, List.mem_filterMap, List.mem_filter] at hm
    rcases hm with hm | ⟨u, ⟨hu, _⟩, ho⟩
    · exact Or.inl hm
    · exact Or.inr ⟨u, hu, ho⟩
  have nostart : ∀ u, u ∈ bs.flatten → u.1 ≠ START := by
    intro u hu e
    have : START ∈ keysOfTr bs := by simp only [keysOfTr, List.mem_map]; exact ⟨u, hu, e⟩
    have := List.count_pos_iff.mpr this
    omega
  refine ⟨?_, ?_, ?_⟩
  · intro p o o' hm hm'
    rcases task_of p o hm with e | ⟨u, hu, ho⟩
    · rcases task_of p o' hm' with e' | ⟨u', hu', ho'⟩
      · rw [(Prod.mk.inj e).2, (Prod.mk.inj e').2]
      · exact absurd (by rw [← outOf_key r u' (p, o') ho']; exact (Prod.mk.inj e).1) (nostart u' hu')
    · rcases task_of p o' hm' with e' | ⟨u', hu', ho'⟩
      · exact absurd (by rw [← outOf_key r u (p, o) ho]; exact (Prod.mk.inj e').1) (nostart u hu)
      · have k1 := outOf_key r u (p, o) ho
        have k2 := outOf_key r u' (p, o') ho'
        simp only at k1 k2
        have : u = u' := unique_by_key bs.flatten p (by simpa [keysOfTr, akeys] using hcnt p) u u' hu hu' k1.symm k2.symm
        subst this
        rw [ho] at ho'
        exact (Prod.mk.inj (Option.some.inj ho')).2
  · intro o hm
    rcases task_of START o hm with e | ⟨u, hu, ho⟩
    · exact (Prod.mk.inj e).2
    · exact absurd (outOf_key r u (START, o) ho).symm (nostart u hu)
  · intro n o hm hns
    rcases task_of n o hm with e | ⟨u, hu, ho⟩
    · exact absurd (Prod.mk.inj e).1 hns
    · have hk := outOf_key r u (n, o) ho
      simp only at hk
      obtain ⟨H', sub, f⟩ := hi.facts u.1 u.2 hu
      obtain ⟨nd, hnd⟩ := Option.isSome_iff_exists.mp (hi.nodes u hu)
      refine ⟨u.2, H', fun e he => hsub e (sub e he), by rw [hk]; exact f, nd, by rw [hk]; exact hnd, ?_⟩
      unfold outOf collectOne execOne at ho
      simp only [hnd] at ho
      cases ha : nd.act u.2 with
      | error e => simp [ha] at ho
      | ok o' =>
        simp only [ha, Option.some.injEq, Prod.mk.injEq] at ho
        rw [ho.2]

/-- a successful eager run: the state and the completion at which END's value was handed out -/
theorem eagerLoop_result {V} (ops : ValOps V) (r : Runner V) (pick : Pick V) (x : V) :
    ∀ (fuel : Nat) (cm : Chans V) (running : List (Key × V)) (bs : List (List (Key × V))) (comp : List Key) (v : V),
      EReach ops r pick x cm running bs comp →
      (eagerLoop ops r pick fuel cm running bs comp).result = .ok v →
      ∃ cm1 cm2 running1 bs1 comp1 t d, EReach ops r pick x cm1 running1 bs1 comp1 ∧
        running1[pick running1 % running1.length]? = some t ∧ collectOne (execOne r t) = .ok d ∧
        calcNext ops r cm1 [d] = .ok (cm2, .result v) := by
  intro fuel
  induction fuel with
  | zero => intro cm running bs comp v _ hv; simp [eagerLoop] at hv
  | succ f ih =>
    intro cm running bs comp v h hv
    unfold eagerLoop at hv
    cases hp : running[pick running % running.length]? with
    | none => simp [hp] at hv
    | some t =>
      simp only [hp] at hv
      cases hce : collectOne (execOne r t) with
      | error e => simp [hce] at hv
      | ok d =>
        simp only [hce] at hv
        cases hc : calcNext ops r cm [d] with
        | error e => simp [hc] at hv
        | ok res =>
          obtain ⟨cm', nx⟩ := res
          simp only [hc] at hv
          cases nx with
          | result w =>
            simp only [Except.ok.injEq] at hv
            subst hv
            exact ⟨cm, cm', running, bs, comp, t, d, h, hp, hce, hc⟩
          | tasks ts =>
            simp only at hv
            exact ih _ _ _ _ v (EReach.step cm cm' running ts bs comp t d h hp hce hc) hv

/-- the facts about the value an eager run returns -/
theorem runEager_result_facts {V} (ops : ValOps V) (r : Runner V) (wf : DagWF r) (wf2 : DagWF2 r) (wf3 : DagWF3 r)
    (pick : Pick V) (x v : V) (hv : (runEager ops r pick x).result = .ok v) :
    ∃ H, Grounded ops r x H ∧ StartFacts ops r H END v := by
  unfold runEager at hv
  cases hc : calcNext ops r (initChans r) [(START, x)] with
  | error e => simp [hc] at hv
  | ok res =>
    obtain ⟨cm, nx⟩ := res
    simp only [hc] at hv
    cases nx with
    | result w =>
      simp only [Except.ok.injEq] at hv
      subst hv
      obtain ⟨_, s2⟩ := FInv_start ops r wf wf2 wf3 x cm (.result w) hc
      refine ⟨histOf r x [], ?_, s2 w rfl⟩
      exact grounded_of_run ops r x [] trivial (fun k => by simp [keysOfTr]) (by simp [keysOfTr]) (fun t ht => by simp at ht)
    | tasks ts =>
      simp only at hv
      obtain ⟨cm1, cm2, running1, bs1, comp1, t, d, hreach, hp, hce, hc1⟩ :=
        eagerLoop_result ops r pick x r.eagerFuel cm ts [ts] [] v (EReach.init cm ts hc) hv
      have hi := ereach_EFInv ops r wf wf2 wf3 pick x cm1 running1 bs1 comp1 hreach
      obtain ⟨ready, hnx, hfacts⟩ := eager_round ops r wf wf2 wf3 pick x cm1 cm2 running1 bs1 comp1 t d _ hi hp hce hc1
      have hmem : (END, v) ∈ ready := by
        rcases hnx with ⟨e, _⟩ | ⟨v', e, hl⟩
        · cases e
        · cases e; exact mem_of_alookup _ _ _ hl
      -- END has never been submitted
      have hEnd : (keysOfTr bs1).count END = 0 := by
        apply List.count_eq_zero.mpr
        intro hm
        simp only [keysOfTr, List.mem_map] at hm
        obtain ⟨u, hu, he⟩ := hm
        have := hi.nodes u hu
        rw [he] at this
        obtain ⟨nd, hnd⟩ := Option.isSome_iff_exists.mp this
        obtain ⟨hmem', hkey⟩ := node?_some r END nd hnd
        have hnodup := wf.nodup
        simp only [initChans, akeys, List.map_append, List.map_map, List.map_cons, List.map_nil] at hnodup
        rw [List.nodup_append] at hnodup
        exact hnodup.2.2 END (List.mem_map.mpr ⟨nd, hmem', by simp [Function.comp, hkey]⟩) END (by simp) rfl
      exact ⟨histC r x bs1 (comp1 ++ [t.1]),
        grounded_of_ereach ops r wf wf2 wf3 pick x cm1 running1 bs1 comp1 _ hreach (histC_mono_comp r x bs1 comp1 t.1),
        hfacts END v hmem hEnd⟩

/-- **the result of a Workflow run does not depend on the completion order.**  Two eager runs of one
    well-formed acyclic runner on one input, under two completion orders, with an order-insensitive
    merge: if both return a value, it is the same value. -/
theorem runEager_result_pick_independent {V} (ops : ValOps V) (hm : MergePerm ops) (r : Runner V)
    (wf : DagWF r) (wf2 : DagWF2 r) (wf3 : DagWF3 r) (pA pB : Pick V) (x vA vB : V)
    (hA : (runEager ops r pA x).result = .ok vA) (hB : (runEager ops r pB x).result = .ok vB) : vA = vB := by
  obtain ⟨rank, _, hrank⟩ := wf3.acyclicAll
  obtain ⟨HA, gA, fA⟩ := runEager_result_facts ops r wf wf2 wf3 pA x vA hA
  obtain ⟨HB, gB, fB⟩ := runEager_result_facts ops r wf wf2 wf3 pB x vB hB
  exact grounded_input_agree ops hm r x rank hrank wf3.startNoPreds HA HB HA HB gA gB
    (fun _ h => h) (fun _ h => h) END vA vB fA fB

/-- … and it is the value the batch loop returns, under any fair schedule -/
theorem runEager_agrees_with_batch {V} (ops : ValOps V) (hm : MergePerm ops) (r : Runner V)
    (wf : DagWF r) (wf2 : DagWF2 r) (wf3 : DagWF3 r) (pick : Pick V) (sched : Sched V) (hf : sched.Fair) (x vE vB : V)
    (hE : (runEager ops r pick x).result = .ok vE) (hB : (runS ops r sched x).result = .ok vB) : vE = vB := by
  obtain ⟨rank, _, hrank⟩ := wf3.acyclicAll
  obtain ⟨HE, gE, fE⟩ := runEager_result_facts ops r wf wf2 wf3 pick x vE hE
  have fb := run_facts ops r wf wf2 wf3 sched hf x
  have gB := grounded_of_run ops r x _ fb.facts fb.once fb.noStart fb.nodes
  exact grounded_input_agree ops hm r x rank hrank wf3.startNoPreds HE _ HE _ gE gB
    (fun _ h => h) (fun _ h => h) END vE vB fE (fb.res vB hB)

end DagRun
end EinoV.Engine
