/-
  C03 — lemmas for `Model/C03Cancel.lean` (the run's context becomes done at any point of the
  submit / executor / wait protocol).
-/
import EinoV.Model.C03Cancel
import EinoV.Proofs.C03
import EinoV.Proofs.C03Loop

set_option linter.unusedSimpArgs false

namespace EinoV.C03

/-! ### protocol level: the extended system refines the task manager -/

/-- With the hand-off registered first, a step of the extended system is a step of the task
    manager (`tm e`) or leaves the task manager untouched (`cancel`, `enter`); nothing is
    dropped. -/
theorem cstep_proj {F : Facts} {C : CancelFacts} (hC : C.executorDefersFirst = true)
    (needAll : Bool) {c c' : CSt} {e : CEv} (h : cstep F C needAll c e = some c') :
    (match e.proj with
     | some ev => step F needAll c.s ev = some c'.s
     | none => c'.s = c.s) ∧ c'.dropped = c.dropped := by
  cases e with
  | cancel =>
    simp only [cstep] at h
    split at h
    · cases h
    · simp only [Option.some.injEq] at h; subst h; exact ⟨rfl, rfl⟩
  | enter t =>
    simp only [cstep, hC, Bool.not_true, Bool.and_false, Bool.false_eq_true, if_false] at h
    split at h
    · simp only [Option.some.injEq] at h; subst h; exact ⟨rfl, rfl⟩
    · cases h
  | tm ev =>
    cases ev with
    | submit ts =>
      simp only [cstep] at h
      cases hs : step F needAll c.s (.submit ts) with
      | none => simp [hs] at h
      | some s1 =>
        simp only [hs, Option.map_some, Option.some.injEq] at h
        subst h; exact ⟨hs, rfl⟩
    | finish t err =>
      simp only [cstep] at h
      split at h
      · cases h
      · cases hs : step F needAll c.s (.finish t err) with
        | none => simp [hs] at h
        | some s1 =>
          simp only [hs, Option.map_some, Option.some.injEq] at h
          subst h; exact ⟨hs, rfl⟩
    | recv =>
      simp only [cstep] at h
      cases hs : step F needAll c.s .recv with
      | none => simp [hs] at h
      | some s1 =>
        simp only [hs, Option.map_some, Option.some.injEq] at h
        subst h; exact ⟨hs, rfl⟩
    | refill =>
      simp only [cstep] at h
      cases hs : step F needAll c.s .refill with
      | none => simp [hs] at h
      | some s1 =>
        simp only [hs, Option.map_some, Option.some.injEq] at h
        subst h; exact ⟨hs, rfl⟩

/-- a schedule of the extended system, with its `cancel` and `enter` steps erased, is a
    schedule of the task manager reaching the same task-manager state -/
theorem crun_proj {F : Facts} {C : CancelFacts} (hC : C.executorDefersFirst = true)
    (needAll : Bool) :
    ∀ (evs : List CEv) {c c' : CSt}, crun F C needAll c evs = some c' →
      run F needAll c.s (evs.filterMap CEv.proj) = some c'.s ∧ c'.dropped = c.dropped
  | [], c, c', h => by
    simp only [crun, Option.some.injEq] at h; subst h; simp [run]
  | e :: es, c, c', h => by
    simp only [crun] at h
    cases hs : cstep F C needAll c e with
    | none => simp [hs] at h
    | some c1 =>
      simp only [hs] at h
      have h1 := cstep_proj hC needAll hs
      have h2 := crun_proj hC needAll es h
      cases hp : e.proj with
      | none =>
        simp only [hp] at h1
        simp only [List.filterMap_cons, hp]
        rw [← h1.1]
        exact ⟨h2.1, h2.2.trans h1.2⟩
      | some ev =>
        simp only [hp] at h1
        simp only [List.filterMap_cons, hp, run, h1.1]
        exact ⟨h2.1, h2.2.trans h1.2⟩

theorem creachable_base {F : Facts} {C : CancelFacts} (hC : C.executorDefersFirst = true)
    {needAll : Bool} {c : CSt} (h : CReachable F C needAll c) :
    Reachable F needAll c.s ∧ c.dropped = [] := by
  obtain ⟨evs, hr⟩ := h
  have := crun_proj hC needAll evs hr
  exact ⟨⟨_, this.1⟩, this.2⟩

theorem crun_append {F : Facts} {C : CancelFacts} {needAll : Bool} :
    ∀ (e1 : List CEv) {e2 : List CEv} {c c1 c2 : CSt},
      crun F C needAll c e1 = some c1 → crun F C needAll c1 e2 = some c2 →
      crun F C needAll c (e1 ++ e2) = some c2
  | [], _, c, c1, c2, h1, h2 => by
    simp only [crun, Option.some.injEq] at h1; subst h1; simpa using h2
  | e :: es, e2, c, c1, c2, h1, h2 => by
    simp only [crun, List.cons_append] at h1 ⊢
    cases hs : cstep F C needAll c e with
    | none => simp [hs] at h1
    | some c' =>
      simp only [hs] at h1 ⊢
      exact crun_append es h1 h2

theorem creachable_run {F : Facts} {C : CancelFacts} {needAll : Bool} {c c' : CSt}
    {evs : List CEv} (h : CReachable F C needAll c) (hr : crun F C needAll c evs = some c') :
    CReachable F C needAll c' := by
  obtain ⟨e0, h0⟩ := h
  exact ⟨e0 ++ evs, crun_append e0 h0 hr⟩

/-! ### progress and termination -/

/-- While something is outstanding a step of an executor or of the collector is enabled,
    whether or not the context is done: a fresh execution can begin, a begun one can finish,
    and with nothing running the collector can receive (directly or after its re-fill). -/
theorem cprogress {F : Facts} (hF : F.Good) (C : CancelFacts) (needAll : Bool) {c : CSt}
    (hI : Inv F c.s) (hn : c.s.num ≠ 0) :
    ∃ e : CEv, e.isSubmit = false ∧ e ≠ .cancel ∧ (cstep F C needAll c e).isSome = true := by
  cases hr : c.s.running with
  | cons t rest =>
    by_cases hf : c.fresh.contains t = true
    · refine ⟨.enter t, rfl, by simp, ?_⟩
      simp only [cstep, hf, if_true]
      split <;> rfl
    · refine ⟨.tm (.finish t false), rfl, by simp, ?_⟩
      have hf' : t ∉ c.fresh := by simpa using hf
      simp [cstep, hf', step, hr]
  | nil =>
    rcases inv_progress hF needAll hI hn hr with ⟨_, h1⟩ | ⟨_, s1, h1, _, _⟩
    · refine ⟨.tm .recv, rfl, by simp, ?_⟩
      simpa [cstep] using h1
    · refine ⟨.tm .refill, rfl, by simp, ?_⟩
      simp [cstep, h1]

/-- every step but `submit` — the `cancel` included — strictly decreases the measure -/
theorem cstep_measure {F : Facts} {C : CancelFacts} (needAll : Bool) {c c' : CSt} {e : CEv}
    (hns : e.isSubmit = false) (h : cstep F C needAll c e = some c') :
    cmeasure c' < cmeasure c := by
  cases e with
  | cancel =>
    simp only [cstep] at h
    split at h
    · cases h
    · rename_i hd
      simp only [Option.some.injEq] at h; subst h
      simp [cmeasure, hd]
  | enter t =>
    simp only [cstep] at h
    split at h
    · rename_i hf
      have hmem : t ∈ c.fresh := by simpa using hf
      have hlen := List.length_erase_of_mem hmem
      have hpos : 0 < c.fresh.length := List.length_pos_of_mem hmem
      split at h
      · simp only [Option.some.injEq] at h; subst h
        have hle : (c.s.running.erase t).length ≤ c.s.running.length :=
          (List.erase_sublist).length_le
        have hw : ((if c.s.coll = .inline t then Coll.idle else c.s.coll) = .window) ↔
            (c.s.coll = .window) := by
          by_cases hc : c.s.coll = .inline t
          · simp [hc]
          · simp [hc]
        simp only [cmeasure, measure, hlen, hw]
        omega
      · simp only [Option.some.injEq] at h; subst h
        simp only [cmeasure, hlen]
        omega
    · cases h
  | tm ev =>
    cases ev with
    | submit ts => simp [CEv.isSubmit, Ev.isSubmit] at hns
    | finish t err =>
      simp only [cstep] at h
      split at h
      · cases h
      · cases hs : step F needAll c.s (.finish t err) with
        | none => simp [hs] at h
        | some s1 =>
          simp only [hs, Option.map_some, Option.some.injEq] at h
          subst h
          have := step_measure needAll (e := .finish t err) rfl hs
          simp only [cmeasure]; omega
    | recv =>
      simp only [cstep] at h
      cases hs : step F needAll c.s .recv with
      | none => simp [hs] at h
      | some s1 =>
        simp only [hs, Option.map_some, Option.some.injEq] at h
        subst h
        have := step_measure needAll (e := .recv) rfl hs
        simp only [cmeasure]; omega
    | refill =>
      simp only [cstep] at h
      cases hs : step F needAll c.s .refill with
      | none => simp [hs] at h
      | some s1 =>
        simp only [hs, Option.map_some, Option.some.injEq] at h
        subst h
        have := step_measure needAll (e := .refill) rfl hs
        simp only [cmeasure]; omega

theorem crun_measure {F : Facts} {C : CancelFacts} (needAll : Bool) :
    ∀ (evs : List CEv) {c c' : CSt}, (∀ e ∈ evs, e.isSubmit = false) →
      crun F C needAll c evs = some c' → evs.length + cmeasure c' ≤ cmeasure c
  | [], c, c', _, h => by simp only [crun, Option.some.injEq] at h; subst h; simp
  | e :: es, c, c', hns, h => by
    simp only [crun] at h
    cases hs : cstep F C needAll c e with
    | none => simp [hs] at h
    | some c1 =>
      simp only [hs] at h
      have h1 := cstep_measure needAll (hns e (by simp)) hs
      have h2 := crun_measure needAll es (fun e' he' => hns e' (by simp [he'])) h
      simp only [List.length_cons]; omega

/-! ### engine level -/

/-- a batch run whose context becomes done — wherever — has received everything it started
    when it returns -/
theorem cBatch_covered (c : CCfg) :
    ∀ (n : Nat) (st : EState) (next : List Key) (done : Bool) (it : Nat) (acc : List IStep),
      Covered st [] → Covered (cBatch c n st next done it acc).st []
  | 0, st, next, done, it, acc, hc => by simpa [cBatch] using hc
  | n + 1, st, next, done, it, acc, hc => by
    simp only [cBatch]
    split
    · exact hc
    · split
      · exact hc
      · have hcov : Covered (iDrain c.g (iStart st next) (prio c.order next) next acc).1 [] :=
          covered_drain_all acc (covered_mono (covered_start hc) (by simp))
        split
        · exact hcov
        · exact cBatch_covered c n _ _ _ _ _ hcov

theorem cRun_batch_uncollected_nil (c : CCfg) (hb : c.eager = false) :
    iUncollected (cRun c).st = [] := by
  apply iUncollected_nil_of_covered
  unfold cRun
  simp only [hb, Bool.false_eq_true, if_false]
  exact cBatch_covered c _ _ _ _ _ _ (covered_iInit c.g)

/-- an eager run that returns (a value or the cancellation error of the check at the top of
    an iteration) has received exactly one completion per iteration it entered: the iteration
    in which the context became done is completed like any other -/
theorem cEager_steps_len (c : CCfg) :
    ∀ (n : Nat) (st : EState) (infl next : List Key) (done : Bool) (it : Nat) (acc : List IStep),
      acc.length = it → (cEager c n st infl next done it acc).out ≠ .stuck →
        (cEager c n st infl next done it acc).steps.length = (cEager c n st infl next done it acc).iters
  | 0, st, infl, next, done, it, acc, _, h => by simp [cEager] at h
  | n + 1, st, infl, next, done, it, acc, hl, h => by
    simp only [cEager] at h ⊢
    split
    · exact hl
    · rename_i hd
      simp only [hd, if_false] at h
      cases hk : (prio c.order (infl ++ next)).head? with
      | none => simp [hk] at h
      | some k =>
        simp only [hk] at h ⊢
        split
        · simp [hl]
        · rename_i hend
          simp only [hend, if_false] at h
          exact cEager_steps_len c n _ _ _ _ _ _ (by simp [hl]) h

end EinoV.C03
