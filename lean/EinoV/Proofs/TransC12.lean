/-
  gotrans phase 7 — `GenericRegister` (internal/serialization/serialization.go, translated on every run into
  Gen/TransC12.lean) computes the model's `regStep` (Model/C12Reg.lean) with all three guards, on the two Go
  maps as explicit state, and never leaves the translated semantics.
  This file imports no other translated unit.
-/
import EinoV.Gen.TransC12
import EinoV.Model.C12Reg
import EinoV.Proofs.C12Reg
import EinoV.Proofs.GoLoop
import EinoV.Proofs.Assoc
namespace EinoV.TransC12
open EinoV.GoSem EinoV.Gen.TransC12 EinoV.C12
open EinoV.Engine (alookup aset)
variable {V : Type} [Inhabited V]
set_option linter.unusedSectionVars false
set_option linter.unusedSimpArgs false

/-- the model's Go types as `reflect.Type`s: pointers are pointers, every other type is a base type named by
    `code` (an injective naming of the types) -/
def enc (code : GoTy → Nat) : GoTy → GoRType
  | .ptr t => .ptr (enc code t)
  | t => .base (code t)

def stripR : GoRType → GoRType
  | .ptr t => stripR t
  | t => t

def depthR : GoRType → Nat
  | .ptr t => depthR t + 1
  | _ => 0

theorem enc_strip (code : GoTy → Nat) (t : GoTy) : stripR (enc code t) = enc code t.strip := by
  induction t <;> simp_all [enc, stripR, GoTy.strip]

theorem enc_depth (code : GoTy → Nat) (t : GoTy) : depthR (enc code t) = t.depth := by
  induction t <;> simp_all [enc, depthR, GoTy.depth]

theorem enc_nonptr (code : GoTy → Nat) (a : GoTy) (h : ∀ t, a ≠ .ptr t) : enc code a = .base (code a) := by
  cases a <;> first | rfl | exact absurd rfl (h _)

theorem enc_inj (code : GoTy → Nat) (hc : ∀ a b, code a = code b → a = b) :
    ∀ a b, enc code a = enc code b → a = b := by
  intro a
  induction a with
  | ptr t ih =>
    intro b h
    cases b with
    | ptr t' =>
      simp only [enc, GoRType.ptr.injEq] at h
      rw [ih t' h]
    | _ => simp [enc] at h
  | _ =>
    intro b h
    cases b with
    | ptr t' => simp [enc] at h
    | _ => exact hc _ _ (by simpa [enc] using h)

/-- the body of `for t.Kind() == reflect.Ptr { t = t.Elem() }` as it is generated -/
def stripStep {R α : Type} (p : R) (_ : α) (__s : Option R × GoRType) : ForInStep (Option R × GoRType) :=
  if (!__s.snd.kind == GoKind.ptr) = true then ForInStep.done (none, __s.snd)
  else
    match __s.snd.elem? with
    | some __e1 => ForInStep.yield (none, __e1)
    | _ => ForInStep.done (some p, __s.snd)

theorem stripStep_ptr {R α : Type} (p : R) (a : α) (t : GoRType) :
    stripStep p a (none, .ptr t) = ForInStep.yield (none, t) := rfl

theorem stripStep_base {R α : Type} (p : R) (a : α) (i : Nat) :
    stripStep p a (none, .base i) = ForInStep.done (none, .base i) := rfl

/-- the pointer-stripping loop: fuel ≥ the pointer depth is enough -/
theorem strip_loop {R α : Type} (p : R) (l : List α) : ∀ (t : GoRType), depthR t ≤ l.length →
    goLoop (stripStep p) l (none, t) = (none, stripR t) := by
  induction l with
  | nil =>
    intro t h
    cases t with
    | base i => rfl
    | ptr t => simp [depthR] at h
  | cons a l ih =>
    intro t h
    cases t with
    | base i => simp only [goLoop, stripStep_base, stripR]
    | ptr t =>
      simp only [goLoop, stripStep_ptr, stripR]
      simp only [depthR, List.length_cons] at h
      exact ih t (by omega)

/-! ### the two Go maps against the model's log -/

/-- the registry: `m[key]` is the type of the newest entry of the log under the key, `rm[t]` the key of the
    newest entry for the type (what the two Go maps hold after every store so far, overwrites included) -/
def RegRel (code : GoTy → Nat) (m : GoMap GoRType) (rm : GoMapK GoRType String) (r : Reg) : Prop :=
  (∀ k, alookup k m = (r.find? (fun e => e.1 == k)).map (fun e => enc code e.2)) ∧
  (∀ t, GoMapK.lookup (enc code t) rm = (r.find? (fun e => e.2 == t)).map (·.1))

theorem lookupK_set_same {κ α} [BEq κ] [LawfulBEq κ] (m : GoMapK κ α) (k : κ) (v : α) :
    GoMapK.lookup k (m.set k v) = some v := by
  induction m with
  | nil => simp [GoMapK.set, GoMapK.lookup]
  | cons p m ih =>
    obtain ⟨k', v'⟩ := p
    by_cases h : (k' == k) = true <;> simp [GoMapK.set, GoMapK.lookup, h, ih]

theorem lookupK_set_other {κ α} [BEq κ] [LawfulBEq κ] (m : GoMapK κ α) (k k' : κ) (v : α) (h : ¬ k = k') :
    GoMapK.lookup k' (m.set k v) = GoMapK.lookup k' m := by
  induction m with
  | nil => simp [GoMapK.set, GoMapK.lookup, h]
  | cons p m ih =>
    obtain ⟨k0, v0⟩ := p
    by_cases h0 : (k0 == k) = true
    · have e : k0 = k := by simpa using h0
      subst e
      simp [GoMapK.set, GoMapK.lookup, h]
    · simp only [GoMapK.set, h0, Bool.false_eq_true, if_false, GoMapK.lookup, ih]

theorem hasKey_eq (r : Reg) (k : Name) : r.hasKey k = (r.find? (fun e => e.1 == k)).isSome := by
  unfold Reg.hasKey
  induction r with
  | nil => rfl
  | cons e r ih => by_cases h : (e.1 == k) = true <;> simp [List.any_cons, List.find?_cons, h, ih]

theorem hasTy_eq (r : Reg) (t : GoTy) : r.hasTy t = (r.find? (fun e => e.2 == t)).isSome := by
  unfold Reg.hasTy
  induction r with
  | nil => rfl
  | cons e r ih => by_cases h : (e.2 == t) = true <;> simp [List.any_cons, List.find?_cons, h, ih]

/-- the error a call returns, by class (the three format strings of the source) -/
def errOf : RegOutcome → Option GoErr
  | .accepted => none
  | .emptyKey => some (GoErr.mk "type[%s] cannot be registered with an empty key")
  | .keyTaken => some (GoErr.mk "key[%s] already registered to %s")
  | .typeTaken => some (GoErr.mk "type[%s] already registered to %s")

/-- **`GenericRegister` refines `regStep`** (all three guards): with fuel at least the pointer depth of `T`,
    the translated function returns the model's outcome (by class), leaves both maps unchanged when it refuses
    and otherwise stores the pair in both — the maps stay the model's log -/
theorem GenericRegister_refines (ext : Ext V) (code : GoTy → Nat) (hc : ∀ a b, code a = code b → a = b)
    (m : GoMap GoRType) (rm : GoMapK GoRType String) (r : Reg) (h : RegRel code m rm r)
    (op : RegOp) (fuel : Nat) (hf : op.ty.depth ≤ fuel) :
    ∃ m' rm', GenericRegister ext fuel op.key (enc code op.ty) m rm
        = .ret (m', rm', errOf (regStep RFall r op).1) ∧
      RegRel code m' rm' (regStep RFall r op).2 ∧
      ((regStep RFall r op).1 ≠ .accepted → m' = m ∧ rm' = rm) := by
  unfold GenericRegister
  simp only [forIn_id, Id.run, bind, pure]
  generalize hb : (fun (x : Nat) (__s : Option (GoOutcome (GoMap GoRType × GoMapK GoRType String × Option GoErr)) × GoRType) => _) = body
  have hb' : stripStep GoOutcome.panic = body := by rw [← hb]; rfl
  have hl := strip_loop (R := GoOutcome (GoMap GoRType × GoMapK GoRType String × Option GoErr)) (α := Nat) GoOutcome.panic
    (List.range fuel) (enc code op.ty) (by rw [enc_depth, List.length_range]; exact hf)
  rw [hb'] at hl
  rw [hl, enc_strip]
  simp only
  have hk : m.has op.key = r.hasKey op.key := by
    rw [hasKey_eq]; unfold GoMap.has; rw [h.1]; simp
  have ht : rm.has (enc code op.ty.strip) = r.hasTy op.ty.strip := by
    rw [hasTy_eq]; unfold GoMapK.has; rw [h.2]; simp
  unfold regStep RFall
  simp only [Bool.true_and, hk, ht]
  by_cases h1 : (op.key == "") = true
  · simp only [h1, if_true]
    exact ⟨m, rm, rfl, h, fun _ => ⟨rfl, rfl⟩⟩
  · simp only [h1, Bool.false_eq_true, if_false]
    by_cases h2 : r.hasKey op.key = true
    · simp only [h2, if_true]
      exact ⟨m, rm, rfl, h, fun _ => ⟨rfl, rfl⟩⟩
    · simp only [h2, Bool.false_eq_true, if_false]
      by_cases h3 : r.hasTy op.ty.strip = true
      · simp only [h3, if_true]
        exact ⟨m, rm, rfl, h, fun _ => ⟨rfl, rfl⟩⟩
      · simp only [h3, Bool.false_eq_true, if_false]
        refine ⟨_, _, rfl, ⟨?_, ?_⟩, fun hne => absurd rfl hne⟩
        · intro k
          simp only [GoMap.set, List.find?_cons]
          by_cases hkk : (op.key == k) = true
          · have e : op.key = k := by simpa using hkk
            subst e
            simp [EinoV.Engine.alookup_aset_same]
          · have hne : k ≠ op.key := fun e => hkk (by simp [e])
            simp only [hkk, Bool.false_eq_true]
            rw [EinoV.Engine.alookup_aset_other op.key k _ m hne]
            exact h.1 k
        · intro t
          simp only [List.find?_cons]
          by_cases htt : (op.ty.strip == t) = true
          · have e : op.ty.strip = t := by simpa using htt
            subst e
            simp [lookupK_set_same]
          · have hne : ¬ enc code op.ty.strip = enc code t := fun e => htt (by simp [enc_inj code hc _ _ e])
            simp only [htt, Bool.false_eq_true]
            rw [lookupK_set_other _ _ _ _ hne]
            exact h.2 t

/-- the translated function never leaves the translated semantics (`t.Elem()` is only reached on pointer types) -/
theorem GenericRegister_total (ext : Ext V) (code : GoTy → Nat) (hc : ∀ a b, code a = code b → a = b)
    (m : GoMap GoRType) (rm : GoMapK GoRType String) (r : Reg) (h : RegRel code m rm r)
    (op : RegOp) (fuel : Nat) (hf : op.ty.depth ≤ fuel) :
    ∃ res, GenericRegister ext fuel op.key (enc code op.ty) m rm = .ret res := by
  obtain ⟨m', rm', e, _⟩ := GenericRegister_refines ext code hc m rm r h op fuel hf
  exact ⟨_, e⟩

/-- the empty maps are the empty log -/
theorem regRel_nil (code : GoTy → Nat) : RegRel code [] [] [] := ⟨fun _ => rfl, fun _ => rfl⟩

end EinoV.TransC12
