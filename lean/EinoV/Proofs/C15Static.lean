/-
  C15 — helper lemmas for the pre-node handler chain and static values.
-/
import EinoV.Model.C15
import EinoV.Proofs.C15

namespace EinoV.C15

/-- the twins of a handler chain agree when every handler commutes with concatenation on the
    chunk lists that occur along the chain -/
theorem chain_agree_along {V E : Type} (concat : List V → V) :
    ∀ (hs : List (HandlerPair V E)) (cs : List V), CommutesAlong concat hs cs →
      (chainStream true hs cs).map concat = chainValue true hs (concat cs)
  | [], cs, _ => by simp [chainStream, chainValue, Except.map]
  | h :: rest, cs, hc => by
    obtain ⟨h1, h2⟩ := hc
    unfold chainStream chainValue
    cases ht : h.transform cs with
    | error e =>
      rw [ht] at h1
      simp only [Except.map] at h1
      rw [← h1]
      simp [Except.map]
    | ok cs' =>
      rw [ht] at h1
      simp only [Except.map] at h1
      rw [← h1]
      simp only [if_true]
      exact chain_agree_along concat rest cs' (h2 cs' ht)

theorem commutesAlong_of_commutes {V E : Type} (concat : List V → V) :
    ∀ (hs : List (HandlerPair V E)), (∀ h ∈ hs, Commutes concat h) → ∀ cs, CommutesAlong concat hs cs
  | [], _, _ => trivial
  | h :: rest, hc, cs =>
    ⟨hc h (by simp) cs, fun cs' _ =>
      commutesAlong_of_commutes concat rest (fun h' hh => hc h' (by simp [hh])) cs'⟩

/-! ### the static-value handler -/

def keyFree (l : List (Path × Taken)) (p : Path) : Prop := ∀ x ∈ l, x.1 ≠ p

theorem insEntry_fresh (p : Path) (t : Taken) (l : List (Path × Taken)) (h : keyFree l p) :
    insEntry p t l = l ++ [(p, t)] := by
  induction l with
  | nil => rfl
  | cons x r ih =>
    obtain ⟨q, u⟩ := x
    have hq : q ≠ p := h (q, u) (by simp)
    simp only [insEntry, hq, if_false, List.cons_append]
    rw [ih (fun y hy => h y (by simp [hy]))]

/-- merging chunk `st` into `l`: plain append when the keys of `st` are new and pairwise distinct -/
theorem mergeEntries_fresh (st l : List (Path × Taken))
    (hnew : ∀ y ∈ st, keyFree l y.1) (hnd : st.Pairwise (fun a b => a.1 ≠ b.1)) :
    mergeEntries l st = l ++ st := by
  unfold mergeEntries
  induction st generalizing l with
  | nil => simp
  | cons y rest ih =>
    simp only [List.foldl_cons]
    rw [insEntry_fresh y.1 y.2 l (hnew y (by simp))]
    have hnd' := List.pairwise_cons.mp hnd
    rw [ih (l ++ [(y.1, y.2)]) ?_ hnd'.2]
    · simp
    · intro z hz x hx
      rcases List.mem_append.mp hx with hx | hx
      · exact hnew z (by simp [hz]) x hx
      · simp only [List.mem_singleton] at hx
        subst hx
        exact hnd'.1 z hz

theorem concatIn_append_one (cs : List NodeIn) (c : NodeIn) :
    concatIn (cs ++ [c]) = NodeIn.merge (concatIn cs) c := by
  simp [concatIn, List.foldl_append]

/-- the concatenation of `map[string]any` chunks is a `map[string]any` -/
theorem concatIn_entries (ls : List (List (Path × Taken))) :
    ∃ l, concatIn (ls.map NodeIn.entries) = .entries l := by
  unfold concatIn
  suffices h : ∀ a, ∃ l, (ls.map NodeIn.entries).foldl NodeIn.merge (.entries a) = .entries l from h []
  induction ls with
  | nil => intro a; exact ⟨a, rfl⟩
  | cons x rest ih =>
    intro a
    simp only [List.map_cons, List.foldl_cons, NodeIn.merge]
    exact ih _

theorem all_isEntries_map (ls : List (List (Path × Taken))) :
    (ls.map NodeIn.entries).all NodeIn.isEntries = true := by
  induction ls with
  | nil => rfl
  | cons l rest ih => simp [NodeIn.isEntries]

theorem keyFree_of_dupKey_false (l st : List (Path × Taken)) (hd : dupKey l st = false) :
    ∀ y ∈ st, keyFree l y.1 := by
  intro y hy x hx heq
  have : dupKey l st = true := by
    unfold dupKey
    rw [List.any_eq_true]
    refine ⟨x, hx, ?_⟩
    rw [List.any_eq_true]
    exact ⟨y, hy, by simp [heq]⟩
  rw [hd] at this
  exact Bool.noConfusion this

/-- no two targets equal ⇒ `mergeMap` finds no duplicated key -/
theorem dupKey_false_of_noOverlap (lm ls : List (Path × Taken))
    (hno : noOverlap ((lm ++ ls).map (·.1))) : dupKey lm ls = false := by
  unfold noOverlap at hno
  have hpw : (lm ++ ls).Pairwise (fun x y => ¬ prefixRel x.1 y.1) := List.pairwise_map.mp hno
  have hx := (List.pairwise_append.mp hpw).2.2
  unfold dupKey
  rw [Bool.eq_false_iff]
  intro h
  rw [List.any_eq_true] at h
  obtain ⟨x, hxm, h⟩ := h
  rw [List.any_eq_true] at h
  obtain ⟨y, hym, h⟩ := h
  have heq : x.1 = y.1 := by simpa using h
  exact hx x hxm y hym (Or.inl (by rw [heq]; exact List.prefix_refl _))

end EinoV.C15
