/- Helper lemmas for C20 (sticky error, compiled flag, aliasing). -/
import EinoV.Model.C20Builder

namespace EinoV.Build

/-- the guards as they must be in the source -/
def Guards.all : Guards := { checkErr := true, checkCompiled := true, storeErr := true }

structure Facts.Guarded (f : Facts) : Prop where
  node : f.nodeG = Guards.all
  edge : f.edgeG = Guards.all
  branch : f.branchG = Guards.all

theorem guarded_stored (g : Guards) (hg : g.checkErr = true) (b : Builder) (k : ErrKind)
    (h : b.buildError = some k) (body : Except ErrKind Builder) :
    guarded g b body = (b, .stored k) := by
  simp [guarded, hg, h]

theorem guarded_compiled (g : Guards) (hg : g.checkCompiled = true) (b : Builder)
    (he : b.buildError = none) (hc : b.compiled = true) (body : Except ErrKind Builder) :
    guarded g b body = (b, .compiled) := by
  simp [guarded, he, hc, hg]

/-- one Add* call on a builder that already holds an error -/
theorem step_stored (f : Facts) (hf : f.Guarded) (im : Impl) (ord : Ord) (b : Builder) (k : ErrKind)
    (h : b.buildError = some k) (op : Op) : step f im ord b op = (b, .stored k, none) := by
  cases op with
  | node n =>
    have hg : f.nodeG.checkErr = true := by rw [hf.node]; rfl
    simp only [step, addNode]; rw [guarded_stored _ hg b k h]
  | edge s e nc nd m => simp [step, addEdge, hf.edge, Guards.all, h]
  | branch s t ends sk =>
    have hg : f.branchG.checkErr = true := by rw [hf.branch]; rfl
    simp only [step, addBranch]; rw [guarded_stored _ hg b k h]
  | compile o => simp [step, compile, h]

theorem run_stored (f : Facts) (hf : f.Guarded) (im : Impl) (ord : Ord) (b : Builder) (k : ErrKind)
    (h : b.buildError = some k) (ops : List Op) :
    run f im ord b ops = (b, ops.map (fun _ => .stored k), []) := by
  induction ops with
  | nil => rfl
  | cons op ops ih => simp [run, step_stored f hf im ord b k h op, ih]

theorem guarded_fresh_stores (g : Guards) (hg : g.storeErr = true) (b : Builder)
    (body : Except ErrKind Builder) (k : ErrKind) (h : (guarded g b body).2 = .fresh k) :
    (guarded g b body).1.buildError = some k := by
  unfold guarded at h ⊢
  cases hE : (if g.checkErr = true then b.buildError else none) with
  | some k0 => simp [hE] at h
  | none =>
    simp only [hE] at h ⊢
    by_cases hc : (g.checkCompiled && b.compiled) = true
    · simp [hc] at h
    · simp only [hc] at h ⊢
      cases body with
      | ok b' => simp at h
      | error k' => simp at h; simp [hg, h]

/-- an Add* call that fails stores its error (except the noControl∧noData refusal, which
    the source returns before installing the `defer`) -/
theorem step_fresh_stores (f : Facts) (hf : f.Guarded) (im : Impl) (ord : Ord) (b : Builder)
    (op : Op) (hop : op.isCompile = false) (k : ErrKind) (hk : k ≠ .edgeBothNo)
    (h : (step f im ord b op).2.1 = .fresh k) :
    (step f im ord b op).1.buildError = some k := by
  cases op with
  | compile o => simp [Op.isCompile] at hop
  | node n =>
    have hg : f.nodeG.storeErr = true := by rw [hf.node]; rfl
    exact guarded_fresh_stores _ hg b _ k h
  | branch s t ends sk =>
    have hg : f.branchG.storeErr = true := by rw [hf.branch]; rfl
    exact guarded_fresh_stores _ hg b _ k h
  | edge s e nc nd m =>
    simp only [step, addEdge] at h ⊢
    split at h
    · simp at h
    · split at h
      · simp at h
      · split at h
        · simp at h; exact absurd h.symm hk
        · rename_i hb hc hn
          simp only [hc, hn]
          have hg : ({ f.edgeG with checkErr := false, checkCompiled := false } : Guards).storeErr = true := by
            rw [hf.edge]; rfl
          exact guarded_fresh_stores _ hg b _ k h

theorem guarded_err (b : Builder) (he : b.buildError = none) (hc : b.compiled = false) (g : Guards) (k : ErrKind) :
    (guarded g b (.error k)).2 = .fresh k := by
  simp [guarded, he, hc]

/-- after a successful compile nothing can be added -/
theorem step_compiled (f : Facts) (hf : f.Guarded) (im : Impl) (ord : Ord) (b : Builder)
    (he : b.buildError = none) (hc : b.compiled = true) (op : Op) (hop : op.isCompile = false) :
    step f im ord b op = (b, .compiled, none) := by
  cases op with
  | compile o => simp [Op.isCompile] at hop
  | node n =>
    have hg : f.nodeG.checkCompiled = true := by rw [hf.node]; rfl
    simp only [step, addNode]; rw [guarded_compiled _ hg b he hc]
  | edge s e nc nd m => simp [step, addEdge, hf.edge, Guards.all, he, hc]
  | branch s t ends sk =>
    have hg : f.branchG.checkCompiled = true := by rw [hf.branch]; rfl
    simp only [step, addBranch]; rw [guarded_compiled _ hg b he hc]

/-- the builder-owned cells a runner keeps references to -/
structure Aliased where
  nodes : List Node
  controlEdges : List (Key × Key)
  dataEdges : List (Key × Key)
  branches : List BranchRec
  mayEdges : List (Key × Key)
  mapEdges : List (Key × Key)
  preBranch : List (Key × Bool)
  preNode : List (Key × Nat)
  deriving DecidableEq, Repr

def Builder.aliased (b : Builder) : Aliased :=
  { nodes := b.nodes, controlEdges := b.controlEdges, dataEdges := b.dataEdges, branches := b.branches,
    mayEdges := b.mayEdges, mapEdges := b.mapEdges, preBranch := b.preBranch, preNode := b.preNode }

theorem mutatePre_off (f : Facts) (hm : f.compileMutates = false) (b : Builder) : mutatePre f b = b := by
  simp [mutatePre, hm]

@[simp] theorem mutatePre_buildError (f : Facts) (b : Builder) : (mutatePre f b).buildError = b.buildError := by
  unfold mutatePre; split <;> rfl

@[simp] theorem setCompiled_buildError (b : Builder) : b.setCompiled.buildError = b.buildError := rfl
@[simp] theorem setCompiled_compiled (b : Builder) : b.setCompiled.compiled = true := rfl

/-- compile (with the no-mutation fact) changes nothing but the flag -/
theorem compile_state (f : Facts) (hm : f.compileMutates = false) (ord : Ord) (b : Builder) (o : COpts) :
    (compile f ord b o).1 = b ∨ (compile f ord b o).1 = b.setCompiled := by
  unfold compile
  rw [mutatePre_off f hm]
  split
  · left; rfl
  · split
    · left; rfl
    · split
      · left; rfl
      · right; rfl

theorem compilePost_ne_ok (b : Builder) (ord : Ord) (o : COpts) : compilePost b ord o ≠ some .ok := by
  unfold compilePost
  repeat' split
  all_goals simp

theorem compile_ok_flags (f : Facts) (ord : Ord) (b : Builder) (o : COpts)
    (h : (compile f ord b o).2.1 = .ok) :
    (compile f ord b o).1.compiled = true ∧ (compile f ord b o).1.buildError = none ∧ b.buildError = none := by
  unfold compile at h ⊢
  split at h
  · simp at h
  · rename_i hb
    split at h
    · simp at h
    · split at h
      · rename_i oc hpost
        simp at h; subst h
        exact absurd hpost (compilePost_ne_ok _ _ _)
      · simp_all

end EinoV.Build
