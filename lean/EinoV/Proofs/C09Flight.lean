/-
  C09 — many runs in flight at once: without a process-wide bounded resource on the run path no
  reachable state of any number of runs is stuck, every effective step is progress, and every
  reachable state completes.  (Property statements are in EinoV/Props/C09.lean.)
-/
import EinoV.Model.C09Flight

namespace EinoV.C09.Flight

theorem all_range {n : Nat} {f : Nat → Bool} :
    (List.range n).all f = true ↔ ∀ c, c < n → f c = true := by
  simp [List.all_eq_true, List.mem_range]

theorem lt_of_get {cs : Array Call} {c : Nat} {k : Call} (h : cs[c]? = some k) : c < cs.size := by
  by_cases hc : c < cs.size
  · exact hc
  · simp [Array.getElem?_eq_none (Nat.le_of_not_lt hc)] at h

/-! ### reading and writing phases -/

theorem get_set (st : St) (h : Nat) (c : Nat) (v : Ph) (hc : c < st.ph.size) (j : Nat) :
    (St.mk h (st.ph.setIfInBounds c v)).get j = if j = c then v else st.get j := by
  unfold St.get
  simp only [Array.getD_eq_getD_getElem?, Array.getElem?_setIfInBounds]
  by_cases e : j = c
  · subst e; simp [hc]
  · have e' : ¬ c = j := fun x => e x.symm
    simp [e, e']

theorem get_init (n c : Nat) : (St.init n).get c = .idle := by
  unfold St.get St.init
  simp only [Array.getD_eq_getD_getElem?, Array.getElem?_replicate]
  split <;> rfl

theorem barrierOpen_iff {cs : Array Call} {st : St} :
    barrierOpen cs st = true ↔ ∀ c k, cs[c]? = some k → k.parent = none → st.get c ≠ .idle := by
  unfold barrierOpen
  rw [all_range]
  constructor
  · intro h c k hk hp
    have := h c (lt_of_get hk)
    simp only [hk, hp, Option.isSome_none, Bool.false_or, bne_iff_ne, ne_eq] at this
    exact this
  · intro h c _
    cases hk : cs[c]? with
    | none => rfl
    | some k =>
      cases hp : k.parent with
      | none => simpa [hp] using h c k hk hp
      | some p => simp [hp]

theorem childrenDone_iff {cs : Array Call} {st : St} {p : Nat} :
    childrenDone cs st p = true ↔ ∀ c k, cs[c]? = some k → k.parent = some p → st.get c = .done := by
  unfold childrenDone
  rw [all_range]
  constructor
  · intro h c k hk hp
    have := h c (lt_of_get hk)
    simpa [hk, hp] using this
  · intro h c _
    cases hk : cs[c]? with
    | none => rfl
    | some k =>
      by_cases hp : k.parent = some p
      · simpa [hp] using h c k hk hp
      · simp [hp]

theorem allDone_iff {cs : Array Call} {st : St} :
    allDone cs st = true ↔ ∀ c, c < cs.size → st.get c = .done := by
  unfold allDone
  rw [all_range]
  simp

/-! ### the invariant -/

structure Inv (cs : Array Call) (st : St) : Prop where
  sz : st.ph.size = cs.size
  /-- an inner call that has started: its parent has started and the barrier is open -/
  up : ∀ c k p, cs[c]? = some k → k.parent = some p → st.get c ≠ .idle →
    st.get p ≠ .idle ∧ barrierOpen cs st = true
  /-- an outer call that has returned: all its inner calls have returned -/
  dn : ∀ c k p, cs[c]? = some k → k.parent = some p → st.get p = .done → st.get c = .done

theorem inv_init (cs : Array Call) : Inv cs (St.init cs.size) where
  sz := by simp [St.init]
  up := by intro c k p _ _ h; exact absurd (get_init _ _) h
  dn := by intro c k p _ _ h; rw [get_init] at h; cases h

/-- a call moves one phase forward; nothing else changes -/
theorem inv_advance {cs : Array Call} (wf : WF cs) {st : St} (inv : Inv cs st) (c : Nat) (k : Call)
    (hk : cs[c]? = some k) (v : Ph) (h' : Nat)
    (hmove : (st.get c = .idle ∧ v = .running ∧
                (∀ p, k.parent = some p → st.get p = .running ∧ barrierOpen cs st = true)) ∨
             (st.get c = .running ∧ v = .done ∧
                (k.parent = none → childrenDone cs st c = true))) :
    Inv cs (St.mk h' (st.ph.setIfInBounds c v)) := by
  have hc : c < st.ph.size := by rw [inv.sz]; exact lt_of_get hk
  have hget : ∀ j, (St.mk h' (st.ph.setIfInBounds c v)).get j = if j = c then v else st.get j :=
    get_set st h' c v hc
  have hvne : v ≠ .idle := by
    rcases hmove with ⟨_, hv, _⟩ | ⟨_, hv, _⟩ <;> rw [hv] <;> decide
  -- phases only move forward
  have mono_idle : ∀ j, st.get j ≠ .idle → (St.mk h' (st.ph.setIfInBounds c v)).get j ≠ .idle := by
    intro j hj
    rw [hget]
    split
    · exact hvne
    · exact hj
  have mono_done : ∀ j, st.get j = .done → (St.mk h' (st.ph.setIfInBounds c v)).get j = .done := by
    intro j hj
    rw [hget]
    split
    · rename_i e
      subst e
      rcases hmove with ⟨h1, _, _⟩ | ⟨h1, _, _⟩ <;> rw [h1] at hj <;> cases hj
    · exact hj
  have mono_bar : barrierOpen cs st = true → barrierOpen cs (St.mk h' (st.ph.setIfInBounds c v)) = true := by
    intro hb
    rw [barrierOpen_iff] at hb ⊢
    intro j kj hkj hpj
    exact mono_idle j (hb j kj hkj hpj)
  refine ⟨by simp [inv.sz], ?_, ?_⟩
  · -- up
    intro c' k' p hk' hp' hne
    by_cases e : c' = c
    · subst e
      have : k' = k := by rw [hk] at hk'; exact (Option.some.inj hk').symm
      subst this
      rcases hmove with ⟨_, _, hpar⟩ | ⟨hrun, _, _⟩
      · obtain ⟨hp1, hp2⟩ := hpar p hp'
        exact ⟨mono_idle p (by rw [hp1]; decide), mono_bar hp2⟩
      · obtain ⟨h1, h2⟩ := inv.up c' k' p hk hp' (by rw [hrun]; decide)
        exact ⟨mono_idle p h1, mono_bar h2⟩
    · have hold : st.get c' ≠ .idle := by
        rw [hget] at hne
        simpa [e] using hne
      obtain ⟨h1, h2⟩ := inv.up c' k' p hk' hp' hold
      exact ⟨mono_idle p h1, mono_bar h2⟩
  · -- dn
    intro c' k' p hk' hp' hpd
    by_cases e : p = c
    · subst e
      -- the moved call is the parent: it is an outer call and it has just finished
      obtain ⟨kp, hkp, hkpn⟩ := wf c' k' p hk' hp'
      have : kp = k := by rw [hk] at hkp; exact (Option.some.inj hkp).symm
      subst this
      rw [hget] at hpd
      simp only [if_true] at hpd
      rcases hmove with ⟨_, hv, _⟩ | ⟨_, _, hch⟩
      · rw [hv] at hpd; cases hpd
      · have := (childrenDone_iff.mp (hch hkpn)) c' k' hk' hp'
        exact mono_done c' this
    · have hold : st.get p = .done := by
        rw [hget] at hpd
        simpa [e] using hpd
      exact mono_done c' (inv.dn c' k' p hk' hp' hold)

theorem inv_step {cs : Array Call} (wf : WF cs) (shared : Bool) (cap : Nat) {st : St}
    (inv : Inv cs st) (c : Nat) : Inv cs (step shared cap cs st c) := by
  unfold step
  split
  · exact inv
  · rename_i k hk
    split
    · rename_i hs
      apply inv_advance wf inv c k hk
      left
      simp only [canStart, Bool.and_eq_true, beq_iff_eq] at hs
      refine ⟨hs.1.1, rfl, ?_⟩
      intro p hp
      have := hs.1.2
      simp only [hp, Bool.and_eq_true, beq_iff_eq] at this
      exact this
    · split
      · rename_i hf
        apply inv_advance wf inv c k hk
        right
        simp only [canFinish, Bool.and_eq_true, beq_iff_eq] at hf
        refine ⟨hf.1, rfl, ?_⟩
        intro hp
        have := hf.2
        simp only [hp, Bool.and_eq_true] at this
        exact this.2
      · exact inv

theorem inv_exec {cs : Array Call} (wf : WF cs) (shared : Bool) (cap : Nat) (sched : List Nat) :
    ∀ st, Inv cs st → Inv cs (exec shared cap cs sched st) := by
  induction sched with
  | nil => intro st h; exact h
  | cons c rest ih => intro st h; exact ih _ (inv_step wf shared cap h c)

/-! ### no state is stuck when nothing is shared -/

theorem ph_cases (p : Ph) : p = .idle ∨ p = .running ∨ p = .done := by
  cases p <;> simp

/-- **progress**: in a state that satisfies the invariant, with no process-wide resource, either
    every call has returned or some call can move -/
theorem progress {cs : Array Call} (wf : WF cs) (cap : Nat) {st : St} (inv : Inv cs st) :
    allDone cs st = true ∨ ∃ c, c < cs.size ∧ enabled false cap cs st c = true := by
  -- (A) some outer call has not started
  by_cases hA : ∃ c k, cs[c]? = some k ∧ k.parent = none ∧ st.get c = .idle
  · obtain ⟨c, k, hk, hp, hi⟩ := hA
    right
    refine ⟨c, lt_of_get hk, ?_⟩
    simp [enabled, hk, canStart, hi, hp, needsSlot]
  · have hbar : barrierOpen cs st = true := by
      rw [barrierOpen_iff]
      intro c k hk hp hi
      exact hA ⟨c, k, hk, hp, hi⟩
    -- (B1) some inner call has not started
    by_cases hB : ∃ c k p, cs[c]? = some k ∧ k.parent = some p ∧ st.get c = .idle
    · obtain ⟨c, k, p, hk, hp, hi⟩ := hB
      right
      refine ⟨c, lt_of_get hk, ?_⟩
      obtain ⟨kp, hkp, hkpn⟩ := wf c k p hk hp
      have hpr : st.get p = .running := by
        rcases ph_cases (st.get p) with h | h | h
        · exact absurd ⟨p, kp, hkp, hkpn, h⟩ hA
        · exact h
        · have := inv.dn c k p hk hp h
          rw [hi] at this; cases this
      simp [enabled, hk, canStart, hi, hp, hpr, hbar, needsSlot]
    · -- (B2) some inner call is running
      by_cases hC : ∃ c k p, cs[c]? = some k ∧ k.parent = some p ∧ st.get c = .running
      · obtain ⟨c, k, p, hk, hp, hr⟩ := hC
        right
        refine ⟨c, lt_of_get hk, ?_⟩
        simp [enabled, hk, canFinish, hr, hp, canStart]
      · -- every inner call has returned
        have hin : ∀ c k p, cs[c]? = some k → k.parent = some p → st.get c = .done := by
          intro c k p hk hp
          rcases ph_cases (st.get c) with h | h | h
          · exact absurd ⟨c, k, p, hk, hp, h⟩ hB
          · exact absurd ⟨c, k, p, hk, hp, h⟩ hC
          · exact h
        by_cases hD : allDone cs st = true
        · exact Or.inl hD
        · right
          have : ∃ c, c < cs.size ∧ st.get c ≠ .done := by
            apply Classical.byContradiction
            intro hno
            apply hD
            rw [allDone_iff]
            intro c hc
            apply Classical.byContradiction
            intro hnd
            exact hno ⟨c, hc, hnd⟩
          obtain ⟨c, hc, hnd⟩ := this
          have hk : cs[c]? = some cs[c] := by simp [hc]
          refine ⟨c, hc, ?_⟩
          cases hp : (cs[c]).parent with
          | some p => exact absurd (hin c _ p hk hp) hnd
          | none =>
            have hr : st.get c = .running := by
              rcases ph_cases (st.get c) with h | h | h
              · exact absurd ⟨c, _, hk, hp, h⟩ hA
              · exact h
              · exact absurd h hnd
            have hch : childrenDone cs st c = true := by
              rw [childrenDone_iff]
              intro c' k' hk' hp'
              exact hin c' k' c hk' hp'
            simp [enabled, hk, canFinish, hr, hp, hbar, hch, canStart]

/-! ### every effective step is progress, and there is only so much to do -/

theorem sum_map_upd (f g : Nat → Nat) (c : Nat) (hg : ∀ j, j ≠ c → g j = f j) :
    ∀ n, c < n → ((List.range n).map g).sum + f c = ((List.range n).map f).sum + g c := by
  intro n
  induction n with
  | zero => intro h; omega
  | succ m ih =>
    intro h
    rw [List.range_succ, List.map_append, List.map_append, List.sum_append, List.sum_append]
    simp only [List.map_cons, List.map_nil, List.sum_cons, List.sum_nil, Nat.add_zero]
    by_cases e : c = m
    · subst e
      have hsame : ((List.range c).map g) = ((List.range c).map f) := by
        apply List.map_congr_left
        intro j hj
        rw [List.mem_range] at hj
        exact hg j (by omega)
      rw [hsame]; omega
    · have := ih (by omega)
      have hm : g m = f m := hg m (fun x => e x.symm)
      omega

theorem sum_map_le (f : Nat → Nat) (b : Nat) (hf : ∀ j, f j ≤ b) :
    ∀ n, ((List.range n).map f).sum ≤ b * n := by
  intro n
  induction n with
  | zero => simp
  | succ m ih =>
    rw [List.range_succ, List.map_append, List.sum_append]
    simp only [List.map_cons, List.map_nil, List.sum_cons, List.sum_nil, Nat.add_zero]
    have := hf m
    rw [Nat.mul_succ]; omega

theorem score_le (p : Ph) : score p ≤ 2 := by cases p <;> simp [score]

theorem work_le (cs : Array Call) (st : St) : work cs st ≤ 2 * cs.size :=
  sum_map_le _ 2 (fun _ => score_le _) _

/-- an enabled step moves exactly one call exactly one phase forward -/
theorem work_step {cs : Array Call} (shared : Bool) (cap : Nat) {st : St} (hsz : st.ph.size = cs.size)
    (c : Nat) (he : enabled shared cap cs st c = true) :
    work cs (step shared cap cs st c) = work cs st + 1 := by
  unfold enabled at he
  cases hk : cs[c]? with
  | none => simp [hk] at he
  | some k =>
    have hc : c < cs.size := lt_of_get hk
    have hc' : c < st.ph.size := by rw [hsz]; exact hc
    simp only [hk, Bool.or_eq_true] at he
    unfold step
    simp only [hk]
    have key : ∀ (h' : Nat) (v : Ph), score v = score (st.get c) + 1 →
        work cs (St.mk h' (st.ph.setIfInBounds c v)) = work cs st + 1 := by
      intro h' v hv
      unfold work
      have := sum_map_upd (fun j => score (st.get j)) (fun j => score ((St.mk h' (st.ph.setIfInBounds c v)).get j)) c
        (by intro j hj; show score _ = score _; rw [get_set st h' c v hc']; simp [hj]) cs.size hc
      have hcc : (St.mk h' (st.ph.setIfInBounds c v)).get c = v := by
        rw [get_set st h' c v hc']; simp
      rw [hcc] at this
      omega
    by_cases hs : canStart shared cap cs st c k = true
    · simp only [hs, if_true]
      apply key
      simp only [canStart, Bool.and_eq_true, beq_iff_eq] at hs
      rw [hs.1.1]; rfl
    · have hf : canFinish cs st c k = true := by
        rcases he with h | h
        · exact absurd h hs
        · exact h
      simp only [hs, hf, if_true]
      simp only [Bool.false_eq_true, if_false]
      apply key
      simp only [canFinish, Bool.and_eq_true, beq_iff_eq] at hf
      rw [hf.1]; rfl

theorem next_some {shared : Bool} {cap : Nat} {cs : Array Call} {st : St} {c : Nat}
    (h : next shared cap cs st = some c) : c < cs.size ∧ enabled shared cap cs st c = true := by
  unfold next at h
  have h1 := List.find?_some h
  have h2 := List.mem_of_find?_eq_some h
  rw [List.mem_range] at h2
  exact ⟨h2, h1⟩

theorem next_none {shared : Bool} {cap : Nat} {cs : Array Call} {st : St}
    (h : next shared cap cs st = none) : ∀ c, c < cs.size → enabled shared cap cs st c = false := by
  unfold next at h
  rw [List.find?_eq_none] at h
  intro c hc
  have := h c (List.mem_range.mpr hc)
  simpa using this

/-- work at its maximum: every call has returned -/
theorem allDone_of_work {cs : Array Call} {st : St} (h : work cs st = 2 * cs.size) :
    allDone cs st = true := by
  rw [allDone_iff]
  unfold work at h
  have aux : ∀ n, ((List.range n).map fun c => score (st.get c)).sum = 2 * n →
      ∀ c, c < n → st.get c = .done := by
    intro n
    induction n with
    | zero => intro _ c hc; omega
    | succ m ih =>
      intro hs c hc
      rw [List.range_succ, List.map_append, List.sum_append] at hs
      simp only [List.map_cons, List.map_nil, List.sum_cons, List.sum_nil, Nat.add_zero] at hs
      have h1 := sum_map_le (fun c => score (st.get c)) 2 (fun _ => score_le _) m
      have h2 := score_le (st.get m)
      have hm : score (st.get m) = 2 := by omega
      have hrest : ((List.range m).map fun c => score (st.get c)).sum = 2 * m := by omega
      by_cases e : c = m
      · subst e
        rcases ph_cases (st.get c) with h | h | h <;> rw [h] at hm <;> simp [score] at hm
        exact h
      · exact ih hrest c (by omega)
  exact aux cs.size h

/-- **every reachable state completes**: from a state that satisfies the invariant, letting the
    calls that can move, move, brings every call back within `2·n − work` steps -/
theorem drain_completes {cs : Array Call} (wf : WF cs) (cap : Nat) :
    ∀ (fuel : Nat) (st : St), Inv cs st → 2 * cs.size ≤ work cs st + fuel →
      allDone cs (drain false cap cs fuel st) = true := by
  intro fuel
  induction fuel with
  | zero =>
    intro st _ hw
    have := work_le cs st
    exact allDone_of_work (by simp [drain]; omega)
  | succ f ih =>
    intro st inv hw
    simp only [drain]
    cases hn : next false cap cs st with
    | none =>
      simp only []
      rcases progress wf cap inv with h | ⟨c, hc, he⟩
      · exact h
      · rw [next_none hn c hc] at he; cases he
    | some c =>
      obtain ⟨_, he⟩ := next_some hn
      apply ih _ (inv_step wf false cap inv c)
      rw [work_step false cap inv.sz c he]
      omega

/-! ### the well-formedness check is sound -/

theorem wf_of_wfb {cs : Array Call} (h : wfb cs = true) : WF cs := by
  intro c k p hk hp
  unfold wfb at h
  rw [all_range] at h
  have := h c (lt_of_get hk)
  simp only [hk, hp] at this
  cases hkp : cs[p]? with
  | none => simp [hkp] at this
  | some kp =>
    simp only [hkp] at this
    exact ⟨kp, rfl, by simpa using this⟩

end EinoV.C09.Flight

namespace EinoV.C09.Hold

/-- without a lock on the compiled object a step of run `i` touches run `i` only, never moves a run
    backwards, and moves a run other than the parked one forward until it has returned -/
theorem step_nolock (n parked : Nat) (st : St) (i j : Nat) :
    st.pc j ≤ ((step false n parked st i).pc j) ∧
    (j = i → i < n → i ≠ parked → st.pc i < 2 → (step false n parked st i).pc i = st.pc i + 1) := by
  unfold step
  by_cases hn : n ≤ i
  · simp [hn]; intro _ h; omega
  · simp only [hn, if_false, Bool.false_and, Bool.false_eq_true]
    split
    · rename_i h0
      refine ⟨?_, ?_⟩
      · by_cases e : j = i
        · subst e; simp [upd, h0]
        · simp [upd, e]
      · intro _ _ _ _; simp [upd, h0]
    · rename_i h1
      by_cases hp : (i == parked && !othersBack n parked st) = true
      · simp only [hp, if_true]
        refine ⟨Nat.le_refl _, ?_⟩
        intro _ _ hne _
        simp only [Bool.and_eq_true, beq_iff_eq] at hp
        exact absurd hp.1 hne
      · simp only [hp]
        refine ⟨?_, ?_⟩
        · by_cases e : j = i
          · subst e; simp [upd, h1]
          · simp [upd, e]
        · intro _ _ _ _; simp [upd, h1]
    · rename_i h0 h1
      refine ⟨Nat.le_refl _, ?_⟩
      intro _ _ _ hlt
      exfalso
      have : st.pc i = 0 ∨ st.pc i = 1 := by omega
      rcases this with h | h
      · exact h0 h
      · exact h1 h

theorem exec_mono (n parked : Nat) (l : List Nat) : ∀ (st : St) (j : Nat),
    st.pc j ≤ (exec false n parked l st).pc j := by
  induction l with
  | nil => intro st j; exact Nat.le_refl _
  | cons i rest ih =>
    intro st j
    exact Nat.le_trans (step_nolock n parked st i j).1 (ih _ j)

/-- a run other than the parked one that is scheduled `k` more times has advanced by `k` or returned -/
theorem exec_advance (n parked j : Nat) (hj : j < n) (hne : j ≠ parked) (l : List Nat) :
    ∀ st : St, min 2 (st.pc j + l.count j) ≤ (exec false n parked l st).pc j := by
  induction l with
  | nil => intro st; simp [exec]; omega
  | cons i rest ih =>
    intro st
    simp only [exec]
    have hm := (step_nolock n parked st i j).1
    have := ih (step false n parked st i)
    by_cases e : i = j
    · subst e
      have hc : (i :: rest).count i = rest.count i + 1 := by simp
      rw [hc]
      by_cases hlt : st.pc i < 2
      · have := (step_nolock n parked st i i).2 rfl hj hne hlt
        omega
      · omega
    · have hc : (i :: rest).count j = rest.count j := by simp [e]
      rw [hc]; omega

theorem count_range (j : Nat) : ∀ n, (List.range n).count j = if j < n then 1 else 0 := by
  intro n
  induction n with
  | zero => simp
  | succ m ih =>
    rw [List.range_succ, List.count_append, ih]
    by_cases e : j = m
    · subst e; simp
    · have : ¬ m = j := fun x => e x.symm
      simp [this]
      split <;> split <;> omega

theorem count_othersTwice (n parked j : Nat) (hj : j < n) (hne : j ≠ parked) :
    (othersTwice n parked).count j = 2 := by
  unfold othersTwice
  simp only [List.count_append]
  have : ((List.range n).filter (· != parked)).count j = 1 := by
    rw [List.count_filter (by simpa using hne), count_range]
    simp [hj]
  omega

end EinoV.C09.Hold
